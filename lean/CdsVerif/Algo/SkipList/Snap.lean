/-
  C18 "reachable ⇒ well-formed", SkipListSet machine: the machine state rendered as the `SNAP skip` dump of the real
  object (`harness/clients/snap.cpp`, `SkipSnap::dump`: one group per level, level 0 first, up to the highest
  non-empty level; a group is the chain of that level from the head tower; per node its key and the mark bit of its
  `next[level]`), and the lemmas that connect LEVEL 0 of the dump with the invariant `SInvL` (`Algo/SkipList/Inv.lean`,
  `Level0.lean`).  Property theorems are in `Props/C18Reach.lean`.

  The invariant of the machine says nothing on the order of the UPPER levels (it only says that every tower word
  holds null or a published item with a tall enough tower: `GOk.ptr`), so the clause "every level is an ordered
  sub-list of the level below" (`subChain` in `skipWf`) is NOT derived here; `snapOf0` is the level-0 part of the
  dump, for which `skipWf` is exactly "level 0 is strictly increasing".

  The machine has no item counter, so nothing is said on `size()`.
-/
import CdsVerif.Algo.SkipList.Level0
import CdsVerif.Props.C18
namespace CdsVerif.Algo.SkipList
open CdsVerif.Machine CdsVerif.Spec CdsVerif.Snapshot

/-- One dumped level. -/
def snapLevel (s : St) (l : Nat) : List SNode := (levelNodes s l).map (fun a => ⟨s.key a, s.mark a l⟩)

/-- Drop the empty levels at the top (the real dump prints up to the highest non-empty level). -/
def stripTop {α : Type} : List (List α) → List (List α)
  | [] => []
  | a :: t =>
    match stripTop t with
    | [] => if a.isEmpty then [] else [a]
    | b :: t' => a :: b :: t'

/-- The `SNAP skip` dump of a machine state with `maxH` levels. -/
def snapOf (maxH : Nat) (s : St) : SkipSnap := stripTop ((List.range maxH).map (snapLevel s))

/-- The dump as the tokens of a `SNAP` line of the harness (`skip L k m … L k m …`; not wired into the driver). -/
def snapTokens (maxH : Nat) (s : St) : List String :=
  "skip" :: (snapOf maxH s).flatMap (fun lv => "L" :: lv.flatMap (fun n => [toString n.key, if n.marked then "1" else "0"]))

/-- Level 0 of the dump alone. -/
def snapOf0 (s : St) : SkipSnap := [snapLevel s 0]

/-- The abstract set as a list of keys (the keys of `absMap`, in level-0 order). -/
def absKeys (s : St) : List Int := (absMap s).map (·.1)

theorem stripTop_head {α : Type} (a : List α) (t : List (List α)) : (stripTop (a :: t)).headD [] = a := by
  unfold stripTop
  split
  · split
    · rename_i h; simpa using (List.isEmpty_iff.1 h).symm
    · rfl
  · rfl

/-- Level 0 of the full dump is `snapLevel s 0`. -/
theorem snapOf_head (maxH : Nat) (s : St) (h : 0 < maxH) : (snapOf maxH s).headD [] = snapLevel s 0 := by
  unfold snapOf
  obtain ⟨n, rfl⟩ : ∃ n, maxH = n + 1 := ⟨maxH - 1, by omega⟩
  rw [List.range_succ_eq_map, List.map_cons]
  exact stripTop_head _ _

theorem skipAbs_level0 (s : St) : ∀ l : List Nat,
    ((l.map (fun a => (⟨s.key a, s.mark a 0⟩ : SNode))).filter (fun n => !n.marked)).map (·.key) =
      ((l.filter (fun a => !s.mark a 0)).map (fun a => (s.key a, s.val a))).map (·.1)
  | [] => rfl
  | a :: l => by
    have ih := skipAbs_level0 s l
    cases hm : s.mark a 0 <;> simp [hm] <;> simpa using ih

theorem skipAbs_snapOf0 (s : St) : skipAbs (snapOf0 s) = absKeys s := skipAbs_level0 s (levelNodes s 0)

theorem skipAbs_snapOf (maxH : Nat) (s : St) (h : 0 < maxH) : skipAbs (snapOf maxH s) = absKeys s := by
  unfold skipAbs
  rw [snapOf_head maxH s h]
  exact skipAbs_level0 s (levelNodes s 0)

theorem SInvL.level0_keys_sorted {c : Cfg} {s : St} {L : List Nat} (h : SInvL c s L) :
    (levelKeys (snapLevel s 0)).Pairwise (· < ·) := by
  unfold levelKeys snapLevel
  rw [List.map_map, List.pairwise_map]
  exact h.level0.1

theorem SInvL.snap0_wf {c : Cfg} {s : St} {L : List Nat} (h : SInvL c s L) : skipWf (snapOf0 s) = true := by
  have := (CdsVerif.Props.C18.sortedLt_iff _).2 h.level0_keys_sorted
  simp only [skipWf, snapOf0, List.headD_cons, skipLevels, List.map_cons, List.map_nil, subChain, Bool.and_true]
  exact this

theorem SInvL.absKeys_sorted {c : Cfg} {s : St} {L : List Nat} (h : SInvL c s L) : (absKeys s).Pairwise (· < ·) := by
  rw [← skipAbs_snapOf0]
  exact (CdsVerif.Props.C18.C18_skiplist _ h.snap0_wf).2.2.2.1

end CdsVerif.Algo.SkipList

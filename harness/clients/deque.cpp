// Flat-combining deque: cds::container::FCDeque over std::deque and boost::container::deque,
// elimination off / on.  History is judged against Spec.deque.
#include <cds/init.h>
#include <cds/gc/hp.h>
#include <cds/gc/dhp.h>
#include <cds/container/fcdeque.h>
#include <boost/container/deque.hpp>
#include <deque>
#include <memory>
#include "../client.h"

using namespace khizmax_libcds_verif;
namespace cc = cds::container;

struct IDeque {
    virtual ~IDeque() {}
    virtual bool push_front( long v ) = 0;
    virtual bool push_back( long v ) = 0;
    virtual bool pop_front( long& v ) = 0;
    virtual bool pop_back( long& v ) = 0;
};

template <class Impl, bool Elim>
struct FCDequeV : IDeque {
    struct traits : cc::fcdeque::traits {
        static constexpr bool const enable_elimination = Elim;
        typedef cds::algo::flat_combining::wait_strategy::backoff<> wait_strategy;
        typedef cds::sync::spin lock_type;
    };
    typedef cc::FCDeque<long, Impl, traits> deque_t;
    std::unique_ptr<deque_t> d;
    FCDequeV( unsigned compact, unsigned pass ) : d( new deque_t( compact, pass )) {}
    // odd values go through the copying overload, even values through the moving one
    bool push_front( long v ) override
    {
        if ( v & 1 ) return d->push_front( v );
        long tmp = v;
        return d->push_front( std::move( tmp ));
    }
    bool push_back( long v ) override
    {
        if ( v & 1 ) return d->push_back( v );
        long tmp = v;
        return d->push_back( std::move( tmp ));
    }
    bool pop_front( long& v ) override { return d->pop_front( v ); }
    bool pop_back( long& v ) override { return d->pop_back( v ); }
};

struct Fixture {
    static char const* family() { return "deque"; }
    static std::vector<std::string> variants()
    {
        return { "fcdeque_std", "fcdeque_std_elim", "fcdeque_boost", "fcdeque_boost_elim" };
    }
    std::unique_ptr<IDeque> s;
    bool failed = false;
    std::string failure;

    explicit Fixture( Case const& c )
    {
        unsigned compact = 1 + unsigned( c.index % 2 ), pass = 1 + unsigned(( c.index / 2 ) % 4 );
        std::string const& v = c.variant;
        if ( v == "fcdeque_std" ) s.reset( new FCDequeV<std::deque<long>, false>( compact, pass ));
        else if ( v == "fcdeque_std_elim" ) s.reset( new FCDequeV<std::deque<long>, true>( compact, pass ));
        else if ( v == "fcdeque_boost" ) s.reset( new FCDequeV<boost::container::deque<long>, false>( compact, pass ));
        else if ( v == "fcdeque_boost_elim" ) s.reset( new FCDequeV<boost::container::deque<long>, true>( compact, pass ));
        else { std::fprintf( stderr, "unknown variant %s\n", v.c_str()); std::exit( 2 ); }
    }
    std::string spec() const { return "deque"; }

    std::vector<std::vector<Op>> program( Rng& r, int nthreads, int nops )
    {
        std::vector<std::vector<Op>> p( nthreads );
        std::vector<int> cnt( nthreads );
        int total = 0;
        for ( int t = 0; t < nthreads; ++t ) { cnt[t] = 1 + int( r.below( nops )); total += cnt[t]; }
        while ( total > 14 ) {
            int big = 0;
            for ( int t = 1; t < nthreads; ++t ) if ( cnt[t] > cnt[big] ) big = t;
            --cnt[big]; --total;
        }
        long v = 1;
        unsigned push_pct = 40 + unsigned( r.below( 30 ));
        unsigned front_pct = 20 + unsigned( r.below( 61 ));     // which end is busier
        for ( int t = 0; t < nthreads; ++t )
            for ( int i = 0; i < cnt[t]; ++i ) {
                bool front = r.chance( front_pct );
                if ( r.chance( push_pct )) p[t].push_back( Op( front ? "push_front" : "push_back", v++ ));
                else p[t].push_back( Op( front ? "pop_front" : "pop_back" ));
            }
        return p;
    }
    void thread_begin( int ) { set_quiet( true ); cds::threading::Manager::attachThread(); set_quiet( false ); }
    void thread_end( int ) { set_quiet( true ); cds::threading::Manager::detachThread(); set_quiet( false ); }
    std::vector<long> exec( int, Op const& op )
    {
        if ( op.name == "push_front" ) return { s->push_front( op.args[0] ) ? 1L : 0L };
        if ( op.name == "push_back" ) return { s->push_back( op.args[0] ) ? 1L : 0L };
        long v = 0;
        bool ok = op.name == "pop_front" ? s->pop_front( v ) : s->pop_back( v );
        if ( ok ) return { 1, v };
        return { 0 };
    }
    void finish( std::ostream& ) {}
};

int main( int argc, char** argv )
{
    cds::Initialize();
    {
        cds::gc::HP hp( 8, 16 );
        cds::gc::DHP dhp;
        cds::threading::Manager::attachThread();
        int rc = client_main<Fixture>( argc, argv );
        cds::threading::Manager::detachThread();
        (void) rc;
    }
    cds::Terminate();
    return 0;
}

/-
  MSPriorityQueue machine: consequences of the invariant quoted by the property theorems
  (multiset form of conservation, ordered edges, the root is a maximum).
-/
import CdsVerif.Algo.MSPQ.All
namespace CdsVerif.Algo.MSPQ
open CdsVerif.Machine CdsVerif.Spec

/-- The items stored in the heap array (slots `0 .. cap`, slot 0 is never used). -/
def arrayItems (c : Cfg) (s : St) : List Int := (List.range (c.cap + 1)).filterMap s.val

/-- The items that pops have taken out of the array and not yet returned. -/
def heldItems (c : Cfg) (s : St) : List Int := (List.range c.nthr).filterMap (fun t => heldOf (s.pc t))

/-- Nobody is inside an operation. -/
def Quiescent (s : St) : Prop := ∀ t, s.pc t = .idle

theorem cntF_eq_count (f : Nat → Option Int) (n : Nat) (x : Int) :
    cntF f n x = ((List.range n).filterMap f).count x := by
  induction n with
  | zero => rfl
  | succ n ih =>
    rw [cntF, ih, List.range_succ, List.filterMap_append, List.count_append]
    congr 1
    cases hf : f n with
    | none => simp [ind, hf]
    | some v =>
      simp only [List.filterMap_cons, hf, List.filterMap_nil, ind, Option.some.injEq, List.count_singleton]
      by_cases h : v = x <;> simp [h]

theorem conservation_perm {c : Cfg} {s : St} (h : CInv c s) :
    (arrayItems c s ++ heldItems c s ++ s.outs).Perm s.ins := by
  rw [List.perm_iff_count]
  intro x
  have := h x
  simp only [total, cntF_eq_count, held] at this
  simp only [List.count_append, arrayItems, heldItems]
  exact this

theorem heldItems_quiescent {c : Cfg} {s : St} (hq : Quiescent s) : heldItems c s = [] := by
  unfold heldItems
  apply List.filterMap_eq_nil_iff.mpr
  intro t _
  rw [hq t]; rfl

/-- An edge whose child is Available and whose ends are not being sifted by a pop is ordered. -/
theorem edge_ordered {c : Cfg} {rank : Nat → Nat} {s : St} {g : Nat → Int} (hsi : SInv c rank s) (hg : GOk c s g)
    (i : Nat) (h2 : 2 ≤ i) (hcap : i ≤ c.cap) (hav : s.tag i = .avail) (vi vp : Int) (hvi : s.val i = some vi)
    (hvp : s.val (i / 2) = some vp) (hns : ∀ t, sift (s.pc t) ≠ some i) (hnp : ∀ t, sift (s.pc t) ≠ some (i / 2)) :
    prio vi ≤ prio vp := by
  have hgi : g i = prio vi := by
    cases ho : s.own i with
    | none => exact hg.g2a i vi (by omega) hav ho hvi
    | some t => exact hg.g2b i t vi (by omega) hav ho (hns t) hvi
  have hedge := hg.g1 i h2 hcap (by rw [hav]; simp)
  have hgp : g (i / 2) ≤ prio vp := by
    cases htp : s.tag (i / 2) with
    | empty => have := hsi.te1 _ htp; rw [hvp] at this; cases this
    | avail =>
      cases ho : s.own (i / 2) with
      | none => exact Int.le_of_eq (hg.g2a (i / 2) vp (by omega) htp ho hvp)
      | some t => exact Int.le_of_eq (hg.g2b (i / 2) t vp (by omega) htp ho (hnp t) hvp)
    | own t2 => exact hg.g3 (i / 2) t2 vp htp hvp
  omega

end CdsVerif.Algo.MSPQ

/-
  MSPriorityQueue machine restricted to runs in which NO PUSH OVERLAPS A POP (`modelNO`: a push may be invoked only
  while no pop is in flight and vice versa; pushes may overlap pushes, pops may overlap pops).

  In such runs an owner tag never leaks: a node tagged with the id of thread `t` is the node at which `t`'s
  `heapify_after_push` currently is (`tc`).  So at quiescence every occupied node is Available and the array is a
  max-heap: the root carries a maximal priority.
-/
import CdsVerif.Algo.MSPQ.Facts
namespace CdsVerif.Algo.MSPQ
open CdsVerif.Machine CdsVerif.Spec

def kIsPush : K → Bool
  | .pSz _ => true
  | .pNode _ _ => true
  | .hPar _ => true
  | .hItem _ => true
  | .hRoot => true
  | _ => false

def kIsPop : K → Bool
  | .oSz => true
  | .oTop _ => true
  | .oBot _ => true
  | .dChild _ _ _ => true
  | .dRight _ _ _ => true
  | _ => false

/-- The thread is inside `push` (from the call to the return). -/
def isPush : PC → Bool
  | .acq k => kIsPush k
  | .spin k => kIsPush k
  | .pFullUnl => true
  | .pFail => true
  | .pUnlSz _ _ => true
  | .pUnlNode _ => true
  | .hUnlItem _ _ => true
  | .hUnlPar _ _ => true
  | .hUnlRoot => true
  | .pOk => true
  | _ => false

/-- The thread is inside `pop`. -/
def isPop : PC → Bool
  | .acq k => kIsPop k
  | .spin k => kIsPop k
  | .oEmptyUnl => true
  | .oFail => true
  | .oUnlTop1 _ => true
  | .oUnlSz1 _ => true
  | .oUnlSz _ => true
  | .oUnlBot _ _ => true
  | .oUnlTopE _ => true
  | .dUnlBreak _ _ _ => true
  | .dUnlLeft _ _ _ => true
  | .dUnlRight _ _ _ => true
  | .dUnlSwap _ _ _ => true
  | .dUnlPar _ _ => true
  | .oDone _ => true
  | _ => false

def invokeNO (c : Cfg) (s : St) (t : Tid) (op : GOp) : Option St :=
  if op.name = "push" then
    if ∀ t', t' < c.nthr → isPop (s.pc t') = false then invoke c s t op else none
  else if ∀ t', t' < c.nthr → isPush (s.pc t') = false then invoke c s t op else none

/-- The machine whose clients never let a push overlap a pop. -/
def modelNO (c : Cfg) : Model St := ⟨invokeNO c, step c, result c⟩

def kPushIdx : K → Option Nat
  | .hPar i => some i
  | .hItem i => some i
  | .hRoot => some 1
  | _ => none

/-- The node at which the item of an in-flight push is, as long as it carries the pusher's tag. -/
def pushIdx : PC → Option Nat
  | .acq k => kPushIdx k
  | .spin k => kPushIdx k
  | .pUnlNode i => some i
  | .hUnlItem _ i' => if i' = 0 then none else some i'
  | .hUnlPar _ i' => if i' = 0 then none else some i'
  | _ => none

theorem pushIdx_isPush (p : PC) (j : Nat) (h : pushIdx p = some j) : isPush p = true := by
  cases p with
  | acq k => cases k <;> simp_all [pushIdx, kPushIdx, isPush, kIsPush]
  | spin k => cases k <;> simp_all [pushIdx, kPushIdx, isPush, kIsPush]
  | _ => simp_all [pushIdx, isPush]

structure TInv (s : St) : Prop where
  ph : ∀ t1 t2, isPush (s.pc t1) = true → isPop (s.pc t2) = true → False
  tc : ∀ j t, s.tag j = .own t → pushIdx (s.pc t) = some j

theorem tinv_init : TInv init := by
  constructor <;> intros <;> simp_all [init, isPush]

macro "tgrind" : tactic =>
  `(tactic| grind (splits := 14)
      [upd, K.lock, St.setPc, rel, pushLoop, popLoop, isPush, kIsPush, isPop, kIsPop, pushIdx, kPushIdx])

macro "tinv_all" h:ident : tactic =>
  `(tactic| (constructor
             · intros; have := TInv.ph $h; (try dsimp only [St.setPc, rel] at *); tgrind
             · intros; have := TInv.tc $h; have := TInv.ph $h; have := pushIdx_isPush
               (try dsimp only [St.setPc, rel] at *); tgrind))

theorem tinv_result {c : Cfg} {s s' : St} {t : Tid} {r : GRet} (h : TInv s) (hs : result c s t = some (s', r)) :
    TInv s' := by
  have htc := h.tc
  unfold result at hs
  split at hs <;> simp at hs <;> obtain ⟨rfl, -⟩ := hs <;> rename_i hpc
  all_goals
    have hno : ∀ j, s.tag j ≠ .own t := by
      intro j hj; have := htc j t hj; simp [hpc, pushIdx] at this
    tinv_all h

theorem tinv_invoke {c : Cfg} {s s' : St} {t : Tid} {op : GOp} (hl : LInv c s) (h : TInv s)
    (hs : invokeNO c s t op = some s') : TInv s' := by
  have hthr := hl.thr
  have htc := h.tc
  unfold invokeNO at hs
  split at hs
  · rename_i hname
    split at hs
    · rename_i hguard
      have hg2 : ∀ t', isPop (s.pc t') = false := by
        intro t'
        by_cases hi : s.pc t' = .idle
        · simp [hi, isPop]
        · exact hguard t' (hthr t' hi)
      unfold invoke at hs
      split at hs
      · split at hs
        · rename_i hpc _ _
          have hno : ∀ j, s.tag j ≠ .own t := by
            intro j hj; have := htc j t hj; simp [hpc, pushIdx] at this
          simp at hs; subst hs; tinv_all h
        · rename_i hn _; simp [hname] at hn
        · simp at hs
      · simp at hs
    · simp at hs
  · rename_i hname
    split at hs
    · rename_i hguard
      have hg2 : ∀ t', isPush (s.pc t') = false := by
        intro t'
        by_cases hi : s.pc t' = .idle
        · simp [hi, isPush]
        · exact hguard t' (hthr t' hi)
      unfold invoke at hs
      split at hs
      · split at hs
        · rename_i hn _; exact absurd hn hname
        · rename_i hpc _ _
          have hno : ∀ j, s.tag j ≠ .own t := by
            intro j hj; have := htc j t hj; simp [hpc, pushIdx] at this
          simp at hs; subst hs; tinv_all h
        · simp at hs
      · simp at hs
    · simp at hs

/-- While a pop is in flight no node carries an owner tag. -/
theorem no_own_while_pop {s : St} (h : TInv s) (t : Tid) (hp : isPop (s.pc t) = true) (j : Nat) (t' : Tid) :
    s.tag j ≠ .own t' := by
  intro hj
  exact h.ph t' t (pushIdx_isPush _ _ (h.tc j t' hj)) hp

set_option maxHeartbeats 2000000 in
theorem tinv_after {c : Cfg} {rank : Nat → Nat} (hc : SlotOK c rank) {s s' : St} {t : Tid} {k : K}
    (hl : LInv c s) (hsi : SInv c rank s) (h : TInv s) (hpc : s.pc t = .acq k)
    (hs : after c { s with lk := upd s.lk k.lock true, own := upd s.own k.lock (some t) } t k = some s') :
    TInv s' := by
  have hwf := hl.wfp t
  have htc := h.tc
  simp only [hpc, wf] at hwf
  cases k with
  | pSz v =>
    simp only [after] at hs
    split at hs <;> simp at hs <;> subst hs <;> tinv_all h
  | pNode v i => simp only [after] at hs; simp at hs; subst hs; tinv_all h
  | hPar i => simp only [after] at hs; simp at hs; subst hs; tinv_all h
  | hItem i =>
    simp only [after] at hs
    simp only [kWf] at hwf
    have hpe : s.tag (i / 2) = .empty → s.tag i = .empty := by
      intro he
      apply Classical.byContradiction; intro hne
      exact parent_nonempty hc hsi i hwf.1 hwf.2 hne he
    have hmine : ∀ j, s.tag j = .own t → j = i := by
      intro j hj; have := htc j t hj; simpa [hpc, pushIdx, kPushIdx] using this.symm
    split at hs
    · split at hs
      · split at hs <;> simp at hs <;> subst hs <;> tinv_all h
      · simp at hs
    · split at hs
      · simp at hs; subst hs; tinv_all h
      · split at hs <;> simp at hs <;> subst hs <;> tinv_all h
  | hRoot =>
    simp only [after] at hs
    have hmine : ∀ j, s.tag j = .own t → j = 1 := by
      intro j hj; have := htc j t hj; simpa [hpc, pushIdx, kPushIdx] using this.symm
    split at hs <;> simp at hs <;> subst hs <;> tinv_all h
  | oSz =>
    simp only [after] at hs
    split at hs <;> simp at hs <;> subst hs <;> tinv_all h
  | oTop b =>
    have hno := no_own_while_pop h t (by simp [hpc, isPop, kIsPop])
    simp only [after] at hs
    split at hs <;> simp at hs <;> subst hs <;> tinv_all h
  | oBot b => simp only [after] at hs; simp at hs; subst hs; tinv_all h
  | dChild par ch pv =>
    have hno := no_own_while_pop h t (by simp [hpc, isPop, kIsPop])
    simp only [after] at hs
    split at hs
    · simp at hs; subst hs; tinv_all h
    · split at hs
      · simp at hs; subst hs; tinv_all h
      · unfold dCompare at hs
        split at hs
        · split at hs <;> simp at hs <;> subst hs <;> tinv_all h
        · simp at hs
  | dRight par ch pv =>
    simp only [after] at hs
    split at hs
    · simp at hs; subst hs; tinv_all h
    · split at hs
      · split at hs <;> simp at hs <;> subst hs <;> tinv_all h
      · simp at hs

set_option maxHeartbeats 2000000 in
theorem tinv_step {c : Cfg} {rank : Nat → Nat} (hc : SlotOK c rank) {s s' : St} {t : Tid} {ev : Ev}
    (hl : LInv c s) (hsi : SInv c rank s) (h : TInv s) (hs : step c s t = some (s', ev)) : TInv s' := by
  have htc := h.tc
  cases hpc : s.pc t with
  | acq k =>
    rcases step_acq hpc hs with ⟨-, rfl⟩ | ⟨-, ha⟩
    · tinv_all h
    · exact tinv_after hc hl hsi h hpc ha
  | spin k =>
    simp only [step, hpc] at hs
    simp at hs; obtain ⟨rfl, -⟩ := hs
    cases hlk : s.lk k.lock <;> simp only [Bool.false_eq_true, ↓reduceIte] <;> tinv_all h
  | dUnlLeft par ch pv =>
    have hno := no_own_while_pop h t (by simp [hpc, isPop])
    simp only [step, hpc, Option.map_eq_some_iff, Prod.mk.injEq] at hs
    obtain ⟨s1, h1, rfl, -⟩ := hs
    unfold dCompare at h1
    split at h1
    · split at h1 <;> simp at h1 <;> subst h1 <;> tinv_all h
    · simp at h1
  | dUnlRight par ch pv =>
    have hno := no_own_while_pop h t (by simp [hpc, isPop])
    simp only [step, hpc, Option.map_eq_some_iff, Prod.mk.injEq] at hs
    obtain ⟨s1, h1, rfl, -⟩ := hs
    unfold dCompare at h1
    split at h1
    · split at h1 <;> simp at h1 <;> subst h1 <;> tinv_all h
    · simp at h1
  | oUnlBot b pv =>
    have hno := no_own_while_pop h t (by simp [hpc, isPop])
    simp only [step, hpc] at hs
    split at hs <;> simp at hs <;> obtain ⟨rfl, -⟩ := hs <;> tinv_all h
  | oUnlSz b =>
    have hno := no_own_while_pop h t (by simp [hpc, isPop])
    simp only [step, hpc] at hs
    simp at hs; obtain ⟨rfl, -⟩ := hs
    tinv_all h
  | pUnlSz v i =>
    have hmine : ∀ j, s.tag j ≠ .own t := by
      intro j hj; have := htc j t hj; simp [hpc, pushIdx] at this
    simp only [step, hpc] at hs
    simp at hs; obtain ⟨rfl, -⟩ := hs
    tinv_all h
  | hUnlPar i i' =>
    have hmine : ∀ j, s.tag j = .own t → i' ≠ 0 ∧ j = i' := by
      intro j hj; have := htc j t hj
      simp only [hpc, pushIdx] at this
      split at this
      · cases this
      · rename_i hne; exact ⟨hne, by injection this with this; exact this.symm⟩
    simp only [step, hpc] at hs
    simp at hs; obtain ⟨rfl, -⟩ := hs
    tinv_all h
  | idle => simp [step, hpc] at hs
  | pFail => simp [step, hpc] at hs
  | pOk => simp [step, hpc] at hs
  | oFail => simp [step, hpc] at hs
  | oDone pv => simp [step, hpc] at hs
  | _ =>
    have hwf := hl.wfp t
    simp only [hpc, wf] at hwf
    simp only [step, hpc] at hs
    simp at hs; obtain ⟨rfl, -⟩ := hs
    tinv_all h

theorem invokeNO_sub {c : Cfg} {s s' : St} {t : Tid} {op : GOp} (hs : invokeNO c s t op = some s') :
    invoke c s t op = some s' := by
  unfold invokeNO at hs
  split at hs
  · split at hs
    · exact hs
    · simp at hs
  · split at hs
    · exact hs
    · simp at hs

theorem applyNO_cases {c : Cfg} {s s' : St} {t : Tid} {a : Act} {o : Obs}
    (hap : (modelNO c).apply s t a = some (s', o)) :
    (∃ op, a = .invoke op ∧ invokeNO c s t op = some s' ∧ o = .call op) ∨
    (∃ ev, a = .step ∧ step c s t = some (s', ev) ∧ o = .ev ev) ∨
    (∃ r, a = .ret ∧ result c s t = some (s', r) ∧ o = .ret r) := by
  cases a with
  | invoke op =>
    simp only [Model.apply, modelNO, Option.map_eq_some_iff] at hap
    obtain ⟨s1, hs1, heq⟩ := hap
    simp only [Prod.mk.injEq] at heq
    obtain ⟨rfl, rfl⟩ := heq
    exact Or.inl ⟨op, rfl, hs1, rfl⟩
  | step =>
    simp only [Model.apply, modelNO, Option.map_eq_some_iff] at hap
    obtain ⟨⟨s1, e⟩, hs1, heq⟩ := hap
    simp only [Prod.mk.injEq] at heq
    obtain ⟨rfl, rfl⟩ := heq
    exact Or.inr (Or.inl ⟨e, rfl, hs1, rfl⟩)
  | ret =>
    simp only [Model.apply, modelNO, Option.map_eq_some_iff] at hap
    obtain ⟨⟨s1, r⟩, hs1, heq⟩ := hap
    simp only [Prod.mk.injEq] at heq
    obtain ⟨rfl, rfl⟩ := heq
    exact Or.inr (Or.inr ⟨r, rfl, hs1, rfl⟩)

/-- Invariant of the no-overlap machine: everything that holds of all runs, plus tag confinement. -/
structure NInv (c : Cfg) (rank : Nat → Nat) (s : St) : Prop where
  m : MInv c rank s
  tg : TInv s

theorem ninv_apply {c : Cfg} {rank : Nat → Nat} (hc : SlotOK c rank) (s : St) (t : Tid) (a : Act) (s' : St) (o : Obs)
    (h : NInv c rank s) (hap : (modelNO c).apply s t a = some (s', o)) : NInv c rank s' := by
  rcases applyNO_cases hap with ⟨op, -, hs, -⟩ | ⟨ev, -, hs, -⟩ | ⟨r, -, hs, -⟩
  · have hs' := invokeNO_sub hs
    exact ⟨⟨linv_invoke h.m.l hs', sinv_invoke h.m.l h.m.sh hs', cinv_invoke h.m.co hs', ginv_invoke h.m.l h.m.go hs'⟩,
      tinv_invoke h.m.l h.tg hs⟩
  · exact ⟨⟨linv_step hc h.m.l hs, sinv_step hc h.m.l h.m.sh hs, cinv_step hc h.m.l h.m.sh h.m.co hs,
      ginv_step hc h.m.l h.m.sh h.m.go hs⟩, tinv_step hc h.m.l h.m.sh h.tg hs⟩
  · exact ⟨⟨linv_result h.m.l hs, sinv_result h.m.l h.m.sh hs, cinv_result h.m.l h.m.co hs, ginv_result h.m.l h.m.go hs⟩,
      tinv_result h.tg hs⟩

theorem ninv_reachable {c : Cfg} {rank : Nat → Nat} (hc : SlotOK c rank) (s : St)
    (h : (modelNO c).Reachable init s) : NInv c rank s :=
  (modelNO c).inv_reachable (NInv c rank) init ⟨minv_init c rank hc, tinv_init⟩ (ninv_apply hc) s h

/-- Every run of the no-overlap machine is a run of the unrestricted machine. -/
theorem runNO_sub (c : Cfg) : ∀ (sched : List (Tid × Act)) (s s' : St) (os : List (Tid × Obs)),
    (modelNO c).run s sched = some (s', os) → (model c).run s sched = some (s', os) := by
  intro sched
  induction sched with
  | nil => intro s s' os h; exact h
  | cons x rest ih =>
    intro s s' os h
    obtain ⟨t, a⟩ := x
    simp only [Model.run] at h ⊢
    cases hap : (modelNO c).apply s t a with
    | none => simp [hap] at h
    | some p =>
      obtain ⟨s1, o⟩ := p
      have hap' : (model c).apply s t a = some (s1, o) := by
        rcases applyNO_cases hap with ⟨op, rfl, hs, rfl⟩ | ⟨ev, rfl, hs, rfl⟩ | ⟨r, rfl, hs, rfl⟩
        · simp [Model.apply, model, invokeNO_sub hs]
        · simp [Model.apply, model, hs]
        · simp [Model.apply, model, hs]
      simp only [hap, hap'] at h ⊢
      cases hr : (modelNO c).run s1 rest with
      | none => simp [hr] at h
      | some q =>
        obtain ⟨s2, os2⟩ := q
        simp only [hr] at h
        rw [ih s1 s2 os2 hr]
        exact h

/-- At a quiescent point of a run in which no push overlaps a pop, every occupied node is Available. -/
theorem quiescent_tags_available {s : St} (h : TInv s) (hq : Quiescent s) (i : Nat) (t : Tid) : s.tag i ≠ .own t := by
  intro hi
  have := h.tc i t hi
  rw [hq t] at this
  simp [pushIdx] at this

/-- … so the array is a max-heap: every occupied slot carries at most the priority of the root. -/
theorem root_is_max {c : Cfg} {rank : Nat → Nat} (hc : SlotOK c rank) {s : St} (h : NInv c rank s)
    (hq : Quiescent s) : ∀ (i : Nat) (vi : Int), 1 ≤ i → i ≤ c.cap → s.val i = some vi →
      ∃ v1, s.val 1 = some v1 ∧ prio vi ≤ prio v1 := by
  obtain ⟨g, hg⟩ := h.m.go
  intro i
  induction i using Nat.strongRecOn with
  | _ i ih =>
    intro vi h1 hcap hvi
    by_cases hi1 : i = 1
    · subst hi1; exact ⟨vi, hvi, Int.le_refl _⟩
    · have hne : s.tag i ≠ .empty := fun he => by have := h.m.sh.te1 i he; rw [hvi] at this; cases this
      have hpne := parent_nonempty hc h.m.sh i (by omega) hcap hne
      obtain ⟨vp, hvp⟩ : ∃ vp, s.val (i / 2) = some vp := by
        cases hv : s.val (i / 2) with
        | none => exact absurd (h.m.sh.te2 _ hv) hpne
        | some v => exact ⟨v, rfl⟩
      have hav : s.tag i = .avail := by
        cases ht : s.tag i with
        | empty => exact absurd ht hne
        | avail => rfl
        | own t => exact absurd ht (quiescent_tags_available h.tg hq i t)
      have hedge := edge_ordered h.m.sh hg i (by omega) hcap hav vi vp hvi hvp
        (fun t => by rw [hq t]; simp [sift]) (fun t => by rw [hq t]; simp [sift])
      obtain ⟨v1, hv1, hle⟩ := ih (i / 2) (by omega) vp (by omega) (by omega) hvp
      exact ⟨v1, hv1, by omega⟩

end CdsVerif.Algo.MSPQ

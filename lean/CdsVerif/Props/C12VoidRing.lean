/-
  C12 — `WeakRingBuffer<void>` (variable-size byte records) is an exact SPSC FIFO, ALL interleavings.
  Property theorems only.  Model: Algo/VoidRing/Model.lean (one step per atomic operation on `front_` /
  `back_` with the plain-memory work of the thread attached: header and tail-marker writes, the copy of the
  payload, the consumer's header reads; caches `pfront_` / `cback_`; one producer and one consumer running
  arbitrary client programs of `back( size )`+`push_back()` / `front()`+`pop_front()` / `front()`);
  invariant: Algo/VoidRing/Inv.lean; transition lemmas: Algo/VoidRing/Trans.lean.
  Capacity: any positive multiple of 8 (what the constructor produces since the fix: commit; power of two or
  not — `mod` is `% capacity()`, which is what the `Exp2` mask computes, `C12_void_ring_exp2_mod`);
  record sizes: any size satisfying the library's asserted precondition `0 < size`,
  `calc_real_size( size ) < capacity()`.  The typed ring is Props/C12.lean; the sequential byte-level
  model of the void form (real `BitVec 64` helpers, byte arrays) is Algo/Ring/Void.lean.
-/
import CdsVerif.Algo.VoidRing.Trans
namespace CdsVerif.Props.C12VoidRing
open CdsVerif.Machine CdsVerif.Spec CdsVerif.Algo

/-! ### (1) Invariant -/

/-- In every reachable state: the capacity is constant; `front_ ≤ back_` and at most `capacity` bytes are in
    flight; both caches are conservative (`pfront_ ≤ front_`, `front ≤ cback_ ≤ back_`) and the producer's
    free-space expression does not underflow (`back_ ≤ pfront_ + capacity`); both counters are 8-aligned;
    and the live region `[front_, back_)` parses as exactly the published, not yet released segments
    `live` — records with their size header and every payload byte, and tail markers reaching exactly to
    the end of the buffer — none of them straddling the buffer end (`VoidRing.SegAt`). -/
theorem C12_void_ring_invariant (cap : Nat) (h8 : cap % 8 = 0) (hpos : 0 < cap) (s : VoidRing.St)
    (h : VoidRing.model.Reachable (VoidRing.init cap) s) :
    s.cap = cap ∧ s.front ≤ s.back ∧ s.back - s.front ≤ s.cap ∧
    s.pfront ≤ s.front ∧ s.front ≤ s.cback ∧ s.cback ≤ s.back ∧ s.back ≤ s.pfront + s.cap ∧
    s.front % 8 = 0 ∧ s.back % 8 = 0 ∧
    VoidRing.Parses s.mem s.cap s.front s.back s.live := by
  have hinv := VoidRing.inv_reachable cap h8 hpos s h
  have hfl := VoidRing.in_flight_le_cap s hinv
  refine ⟨?_, hfl.1, hfl.2, hinv.pfront_le, hinv.front_le, hinv.cback_le, hinv.back_le, hinv.front8,
    hinv.back8, hinv.parses⟩
  have := VoidRing.model.inv_reachable (fun s => VoidRing.VInv s ∧ s.cap = cap) (VoidRing.init cap)
    ⟨VoidRing.inv_init cap h8 hpos, rfl⟩
    (fun s t a s' o hs hap => ⟨VoidRing.inv_step s t a s' o hs.1 hap, by
      rw [(VoidRing.apply_mem_live s t a s' o hs.1 hap).1]; exact hs.2⟩) s h
  exact this.2

/-- The producer never writes into `[front_, back_)`: no transition of any thread changes a cell of the
    live region (this is what both seeded wrap-path bugs break: they grant the producer space at the start of
    the buffer that still holds unread records).  The consumer reads only cells of the live region, and
    that region loses cells only by the consumer's own `front_.store`; hence no data race on the buffer and
    the position of the plain accesses between two atomic operations is immaterial. -/
theorem C12_void_ring_never_overwrites_unconsumed (cap : Nat) (h8 : cap % 8 = 0) (hpos : 0 < cap) (s : VoidRing.St)
    (h : VoidRing.model.Reachable (VoidRing.init cap) s) :
    ∀ t a s' o, VoidRing.model.apply s t a = some (s', o) →
      ∀ j, s.front ≤ j → j < s.back → s'.mem (j % s.cap) = s.mem (j % s.cap) := by
  intro t a s' o hap
  exact (VoidRing.apply_mem_live s t a s' o (VoidRing.inv_reachable cap h8 hpos s h) hap).2

/-- The word behind the live region is inside the buffer: `mod( back_ ) + 8 ≤ capacity` (the header /
    marker write of back() cannot run over the end — the defect repaired by rounding the capacity up to a
    multiple of 8), and a pending record or marker never straddles the end (`SegAt`, above). -/
theorem C12_void_ring_header_fits (cap : Nat) (h8 : cap % 8 = 0) (hpos : 0 < cap) (s : VoidRing.St)
    (h : VoidRing.model.Reachable (VoidRing.init cap) s) : s.back % s.cap + 8 ≤ s.cap :=
  VoidRing.header_fits s (VoidRing.inv_reachable cap h8 hpos s h)

/-- `Exp2` buffers: the mask `back & (capacity - 1)` is `back % capacity` for a power-of-two capacity. -/
theorem C12_void_ring_exp2_mod (b k : Nat) : b &&& (2 ^ k - 1) = b % 2 ^ k :=
  Nat.and_two_pow_sub_one_eq_mod b k

/-! ### (2) Exact FIFO -/

/-- In every reachable state the sequence of (size, payload) records delivered to and released by the
    consumer is a prefix of the sequence of records published: every record at most once, in push order,
    with its exact size and payload, nothing invented. -/
theorem C12_void_ring_fifo (cap : Nat) (h8 : cap % 8 = 0) (hpos : 0 < cap) (s : VoidRing.St)
    (h : VoidRing.model.Reachable (VoidRing.init cap) s) :
    ∃ rest, s.pushed = s.popped ++ rest :=
  ⟨_, (VoidRing.inv_reachable cap h8 hpos s h).fifo⟩

/-- Nothing is lost: the rest is still in the buffer — the records among the segments of the live region
    (`C12_void_ring_invariant`: laid out byte-exact between `front_` and `back_`) are exactly the published,
    not yet released records. -/
theorem C12_void_ring_buffer_content (cap : Nat) (h8 : cap % 8 = 0) (hpos : 0 < cap) (s : VoidRing.St)
    (h : VoidRing.model.Reachable (VoidRing.init cap) s) :
    s.pushed = s.popped ++ VoidRing.recsOf s.live ∧ VoidRing.Parses s.mem s.cap s.front s.back s.live :=
  ⟨(VoidRing.inv_reachable cap h8 hpos s h).fifo, (VoidRing.inv_reachable cap h8 hpos s h).parses⟩

/-- What the consumer is about to return is "empty" or `(size, payload)` of exactly the next record in push
    order: the oldest unreleased record for `front()`, the record just released for `front()`+`pop_front()`
    (then it is the last element of `popped`, a prefix of `pushed`).  The payload id is read from the
    buffer cells byte by byte (`VoidRing.payId`), so this is byte-exactness. -/
theorem C12_void_ring_result_exact (cap : Nat) (h8 : cap % 8 = 0) (hpos : 0 < cap) (s : VoidRing.St)
    (h : VoidRing.model.Reachable (VoidRing.init cap) s) (r : GRet) (hcp : s.cp = .done r) :
    r = [0] ∨ ∃ (sz : Nat) (id : Int), r = [1, (sz : Int), id] ∧
      (s.pushed[s.popped.length]? = some (sz, id) ∨ s.popped.getLast? = some (sz, id)) := by
  have hinv := VoidRing.inv_reachable cap h8 hpos s h
  rcases hinv.c_done r hcp with h0 | ⟨sz, id, hr, hhd | hlast⟩
  · exact .inl h0
  · obtain ⟨rest, hrest⟩ := VoidRing.recsOf_head hhd
    refine .inr ⟨sz, id, hr, .inl ?_⟩
    rw [hinv.fifo, hrest]
    simp
  · exact .inr ⟨sz, id, hr, .inr hlast⟩

/-- What the client receives is what the program counter `done` / `zdone` holds, and nothing else. -/
theorem C12_void_ring_push_result (s s' : VoidRing.St) (r : GRet)
    (h : VoidRing.model.result s 0 = some (s', r)) :
    s.pp = .done r ∨ ∃ e a b, s.pp = .zdone e a b ∧ r = VoidRing.sizeRet e a b := by
  have h' : VoidRing.result s 0 = some (s', r) := h
  rw [VoidRing.result, if_pos rfl] at h'
  split at h'
  · simp at h'; obtain ⟨-, rfl⟩ := h'; left; assumption
  · rename_i e a b hpp
    simp at h'; obtain ⟨-, rfl⟩ := h'; exact .inr ⟨e, a, b, hpp, rfl⟩
  · simp at h'

theorem C12_void_ring_pop_result (s s' : VoidRing.St) (r : GRet)
    (h : VoidRing.model.result s 1 = some (s', r)) :
    s.cp = .done r ∨ ∃ e a b, s.cp = .zdone e a b ∧ r = VoidRing.sizeRet e a b := by
  have h' : VoidRing.result s 1 = some (s', r) := h
  rw [VoidRing.result, if_neg (by decide), if_pos rfl] at h'
  split at h'
  · simp at h'; obtain ⟨-, rfl⟩ := h'; left; assumption
  · rename_i e a b hcp
    simp at h'; obtain ⟨-, rfl⟩ := h'; exact .inr ⟨e, a, b, hcp, rfl⟩
  · simp at h'

/-- `back( size )` returns nullptr only if the record did not fit at the instant of a (re)load of `front_`:
    whatever transition brings the producer into the state "about to return nullptr" is one of the
    producer's two loads of `front_` — the event `ld front <front_>` — and at that instant either
    (first check) `capacity - (back_ - front_) < real_size`, or (wrap path: the tail `capacity - mod( back_ )`
    is too short for the record, the marker is written but not published) the free space is smaller than
    tail + real_size.  In both cases `free < need`, the number of bytes the record needs at this position. -/
theorem C12_void_ring_back_fails_only_if_no_room (cap : Nat) (h8 : cap % 8 = 0) (hpos : 0 < cap) (s : VoidRing.St)
    (h : VoidRing.model.Reachable (VoidRing.init cap) s) (t : Tid) (a : Act) (s' : VoidRing.St) (o : Obs)
    (hap : VoidRing.model.apply s t a = some (s', o))
    (hold : s.pp ≠ .done [0]) (hnew : s'.pp = .done [0]) :
    t = 0 ∧ a = .step ∧ o = .ev ⟨"ld", "front", toString s.front, ""⟩ ∧
    ∃ sz id,
      ((s.pp = .bLdFront sz id s.back ∧ s.cap - (s.back - s.front) < VoidRing.realSize sz) ∨
       (s.pp = .wLdFront sz id (s.back + (s.cap - s.back % s.cap)) ∧
          s.cap - s.back % s.cap < VoidRing.realSize sz ∧
          s.cap - (s.back - s.front) < s.cap - s.back % s.cap + VoidRing.realSize sz)) ∧
      s.cap - (s.back - s.front) < VoidRing.need s sz := by
  have hinv := VoidRing.inv_reachable cap h8 hpos s h
  obtain ⟨ht, ha, ho, sz, id, b, hpp, hlt⟩ := VoidRing.apply_push_fail s t a s' o hap hold hnew
  have hfl := VoidRing.in_flight_le_cap s hinv
  have hneed := VoidRing.realSize_le_need s sz
  refine ⟨ht, ha, ho, sz, id, ?_⟩
  rcases hpp with hpp | hpp
  · obtain ⟨rfl, -, -⟩ := hinv.p_bLdFront sz id b hpp
    exact ⟨.inl ⟨hpp, by omega⟩, by omega⟩
  · obtain ⟨-, rfl, htl, -, -, -⟩ := hinv.p_wLdFront sz id b hpp
    refine ⟨.inr ⟨hpp, htl, by omega⟩, ?_⟩
    unfold VoidRing.need
    rw [if_pos htl]
    omega

/-- Conversely both tests are exact at the instant of the load: at the first reload back() gives up iff the
    free space is smaller than real_size (otherwise it goes on to place the record or the marker); at the
    reload of the wrap path iff the free space is smaller than tail + real_size (otherwise it publishes the
    marker). -/
theorem C12_void_ring_back_fails_iff_no_room (cap : Nat) (h8 : cap % 8 = 0) (hpos : 0 < cap) (s : VoidRing.St)
    (h : VoidRing.model.Reachable (VoidRing.init cap) s) (sz : Nat) (id : Int) (b : Nat)
    (s' : VoidRing.St) (e : Ev) (hst : VoidRing.model.step s 0 = some (s', e)) :
    (s.pp = .bLdFront sz id b →
      (s'.pp = .done [0] ↔ s.cap - (s.back - s.front) < VoidRing.realSize sz)) ∧
    (s.pp = .wLdFront sz id b →
      (s'.pp = .done [0] ↔ s.cap - (s.back - s.front) < s.cap - s.back % s.cap + VoidRing.realSize sz) ∧
      (s'.pp ≠ .done [0] → s'.pp = .wStBack sz id b)) := by
  have hinv := VoidRing.inv_reachable cap h8 hpos s h
  have hfl := VoidRing.in_flight_le_cap s hinv
  constructor
  · intro hpp
    obtain ⟨rfl, -, -⟩ := hinv.p_bLdFront sz id b hpp
    simp only [VoidRing.model, VoidRing.step, hpp, if_true] at hst
    split at hst <;> simp only [Option.some.injEq, Prod.mk.injEq] at hst <;> obtain ⟨rfl, -⟩ := hst
    · simp; omega
    · exact ⟨fun hd => absurd hd ((VoidRing.place_frame _ _ _ _).2.2.2.2.2 _), fun hlt => by omega⟩
  · intro hpp
    obtain ⟨-, rfl, htl, hble, -, -⟩ := hinv.p_wLdFront sz id b hpp
    have := hinv.pfront_le
    simp only [VoidRing.model, VoidRing.step, hpp, if_true] at hst
    split at hst <;> simp only [Option.some.injEq, Prod.mk.injEq] at hst <;> obtain ⟨rfl, -⟩ := hst <;>
      simp <;> omega

/-- `front()` returns nullptr only if the ring was empty at the instant of a (re)load of `back_`: whatever
    transition brings the consumer into the state "about to return nullptr" is one of the two reloads of
    `back_` in front() — the event `ld back <back_>` — and at that instant `back_ = front_`. -/
theorem C12_void_ring_front_fails_only_if_empty (cap : Nat) (h8 : cap % 8 = 0) (hpos : 0 < cap) (s : VoidRing.St)
    (h : VoidRing.model.Reachable (VoidRing.init cap) s) (t : Tid) (a : Act) (s' : VoidRing.St) (o : Obs)
    (hap : VoidRing.model.apply s t a = some (s', o))
    (hold : s.cp ≠ .done [0]) (hnew : s'.cp = .done [0]) :
    t = 1 ∧ a = .step ∧ o = .ev ⟨"ld", "back", toString s.back, ""⟩ ∧
    (∃ op, s.cp = .fLdBack op s.front ∨ s.cp = .gLdBack op s.front) ∧ s.back = s.front := by
  have hinv := VoidRing.inv_reachable cap h8 hpos s h
  obtain ⟨ht, ha, ho, op, f, hcp, hlt⟩ := VoidRing.apply_pop_fail s t a s' o hap hold hnew
  have hfl := VoidRing.in_flight_le_cap s hinv
  have hf8 := hinv.front8
  have hb8 := hinv.back8
  have hf : f = s.front := by
    rcases hcp with hcp | hcp
    · exact hinv.c_fLdBack op f hcp
    · exact (hinv.c_gLdBack op f hcp).1
  subst hf
  exact ⟨ht, ha, ho, ⟨op, hcp⟩, by omega⟩

/-- `pop_front()` never fails where the library relies on it: neither the call inside front() that skips a
    tail marker (`CDS_VERIFY`) nor the client's call right after front() returned a record ever reaches its
    reload of `back_`. -/
theorem C12_void_ring_pop_front_never_fails (cap : Nat) (h8 : cap % 8 = 0) (hpos : 0 < cap) (s : VoidRing.St)
    (h : VoidRing.model.Reachable (VoidRing.init cap) s) :
    (∀ op f, s.cp ≠ .tLdBack op f) ∧ (∀ sz id f, s.cp ≠ .pLdBack sz id f) :=
  ⟨fun op f hc => (VoidRing.inv_reachable cap h8 hpos s h).c_tLdBack op f hc,
   fun sz id f hc => (VoidRing.inv_reachable cap h8 hpos s h).c_pLdBack sz id f hc⟩

/-- `size()` / `empty()` (two relaxed loads; `sizeRet e a b` is the value returned for the loaded `front_ = a`,
    `back_ = b`): the subtraction never underflows and the result is at most the capacity.  Called by the
    PRODUCER, `back_` is exact and `front_` conservative: size() is an upper bound of the bytes in flight, and
    empty() = true means the ring IS empty (and stays so until the producer publishes).  Called by the
    CONSUMER, `front_` is exact and `back_` conservative: size() is a lower bound of the bytes in flight, and
    empty() = false means the ring is NOT empty (and stays so until the consumer releases). -/
theorem C12_void_ring_size_empty (cap : Nat) (h8 : cap % 8 = 0) (hpos : 0 < cap) (s : VoidRing.St)
    (h : VoidRing.model.Reachable (VoidRing.init cap) s) :
    (∀ e a b, s.pp = .zdone e a b →
      a ≤ b ∧ b - a ≤ s.cap ∧ s.back - s.front ≤ b - a ∧ (a = b → s.front = s.back)) ∧
    (∀ e a b, s.cp = .zdone e a b →
      a ≤ b ∧ b - a ≤ s.cap ∧ b - a ≤ s.back - s.front ∧ (a ≠ b → s.front < s.back)) := by
  have hinv := VoidRing.inv_reachable cap h8 hpos s h
  have hfl := VoidRing.in_flight_le_cap s hinv
  constructor
  · intro e a b hpp
    obtain ⟨h1, h2, h3⟩ := hinv.p_zdone e a b hpp
    omega
  · intro e a b hcp
    obtain ⟨h1, h2, h3⟩ := hinv.c_zdone e a b hcp
    omega

/-! ### (3) Non-vacuity: runs on a 64-byte buffer -/

set_option synthInstance.maxSize 2000 in
/-- Wrap with a tail marker while the consumer lags.  Records 1 (24 bytes, real 32) and 2 (8 bytes, real 16)
    are published (`back_` = 48), record 1 is consumed (`front_` = 32).  Record 3 (17 bytes, real 32) does not
    fit into the 16-byte tail: the marker `make_tail( 8 )` goes to offset 48, `back_` = 64 is published and the
    record is written to offsets 0 … 31 — directly below the still unread record 2 at 32 … 47, which the
    consumer pops concurrently.  The last pop skips the marker (`st front 64`) and delivers (17, 3). -/
example : (VoidRing.model.run (VoidRing.init 64)
    [(0, .invoke ⟨"push", [24, 1]⟩), (0, .step), (0, .step), (0, .step), (0, .ret),
     (0, .invoke ⟨"push", [8, 2]⟩), (0, .step), (0, .step), (0, .step), (0, .ret),
     (1, .invoke ⟨"pop", []⟩), (1, .step), (1, .step), (1, .step), (1, .step), (1, .ret),
     (0, .invoke ⟨"push", [17, 3]⟩), (0, .step), (0, .step),
     (1, .invoke ⟨"pop", []⟩), (1, .step),
     (0, .step), (0, .step),
     (1, .step), (1, .step), (1, .ret),
     (0, .step), (0, .ret),
     (1, .invoke ⟨"pop", []⟩), (1, .step), (1, .step), (1, .step), (1, .step), (1, .step), (1, .step), (1, .step),
     (1, .ret)]).map
      (fun p => (p.1.popped, p.1.pushed, [p.1.front, p.1.back, p.1.pfront, p.1.cback], p.1.live,
        [p.1.mem 48, p.1.mem 0, p.1.mem 8, p.1.mem 24], p.2.drop 28))
    = some ([(24, 1), (8, 2), (17, 3)], [(24, 1), (8, 2), (17, 3)], [96, 96, 32, 96], [],
        [.tail 8, .size 17, .pay 3 0, .pay 3 16],
        [(1, .call ⟨"pop", []⟩), (1, .ev ⟨"ld", "front", "48", ""⟩), (1, .ev ⟨"ld", "back", "96", ""⟩),
         (1, .ev ⟨"ld", "front", "48", ""⟩), (1, .ev ⟨"st", "front", "64", ""⟩),
         (1, .ev ⟨"ld", "front", "64", ""⟩), (1, .ev ⟨"ld", "front", "64", ""⟩),
         (1, .ev ⟨"st", "front", "96", ""⟩), (1, .ret [1, 17, 3])]) := by
  decide +kernel

set_option synthInstance.maxSize 2000 in
/-- The configuration of both seeded wrap-path bugs (C12-void-ring-wrap-recheck-payload-size and
    C12-void-back-wrap-check): `back_` = 56 (an 8-byte tail), `front_` = 24 (24 free bytes at the start), two
    unread records at 24 … 55.  A 17-byte record (real size 32) passes the first check after the reload
    (32 bytes are free in total) but needs 8 + 32 bytes: the marker is written at offset 56, the second
    check fails again after its reload of `front_` (24 < 32) and back() returns nullptr — `back_` is still
    56, the unread header at offset 24 is intact and nothing was written at offset 0 (it still holds the
    stale header of record 1).  The seeded versions accept the reservation (24 ≥ 17, resp. the check is made
    before `back` is advanced) and overwrite offsets 0 … 31. -/
example : (VoidRing.model.run (VoidRing.init 64)
    [(0, .invoke ⟨"push", [16, 1]⟩), (0, .step), (0, .step), (0, .step), (0, .ret),
     (0, .invoke ⟨"push", [8, 2]⟩), (0, .step), (0, .step), (0, .step), (0, .ret),
     (0, .invoke ⟨"push", [8, 3]⟩), (0, .step), (0, .step), (0, .step), (0, .ret),
     (1, .invoke ⟨"pop", []⟩), (1, .step), (1, .step), (1, .step), (1, .step), (1, .ret),
     (0, .invoke ⟨"push", [17, 4]⟩), (0, .step), (0, .step), (0, .step)]).map
      (fun p => (p.1.pp, p.1.popped, p.1.pushed, [p.1.front, p.1.back, p.1.pfront], p.1.live,
        [p.1.mem 24, p.1.mem 32, p.1.mem 40, p.1.mem 56, p.1.mem 0], p.2.drop 21))
    = some (.done [0], [(16, 1)], [(16, 1), (8, 2), (8, 3)], [24, 56, 24], [.data 8 2, .data 8 3],
        [.size 8, .pay 2 0, .size 8, .tail 0, .size 16],
        [(0, .call ⟨"push", [17, 4]⟩), (0, .ev ⟨"ld", "back", "56", ""⟩),
         (0, .ev ⟨"ld", "front", "24", ""⟩), (0, .ev ⟨"ld", "front", "24", ""⟩)]) := by
  decide +kernel

set_option synthInstance.maxSize 2000 in
/-- The same run continued: once record 2 is consumed (`front_` = 40) the retried reservation succeeds
    through the wrap path (marker published by `st back 64`, record at offset 0, `st back 96`); the consumer
    then receives record 3 and, skipping the marker, sees (17, 4) with `front()`. -/
example : (VoidRing.model.run (VoidRing.init 64)
    [(0, .invoke ⟨"push", [16, 1]⟩), (0, .step), (0, .step), (0, .step), (0, .ret),
     (0, .invoke ⟨"push", [8, 2]⟩), (0, .step), (0, .step), (0, .step), (0, .ret),
     (0, .invoke ⟨"push", [8, 3]⟩), (0, .step), (0, .step), (0, .step), (0, .ret),
     (1, .invoke ⟨"pop", []⟩), (1, .step), (1, .step), (1, .step), (1, .step), (1, .ret),
     (0, .invoke ⟨"push", [17, 4]⟩), (0, .step), (0, .step), (0, .step), (0, .ret),
     (1, .invoke ⟨"pop", []⟩), (1, .step), (1, .step), (1, .step), (1, .ret),
     (0, .invoke ⟨"push", [17, 4]⟩), (0, .step), (0, .step), (0, .step), (0, .step), (0, .step), (0, .ret),
     (1, .invoke ⟨"pop", []⟩), (1, .step), (1, .step), (1, .step), (1, .ret),
     (1, .invoke ⟨"front", []⟩), (1, .step), (1, .step), (1, .step), (1, .step), (1, .step), (1, .ret)]).map
      (fun p => (p.1.popped, p.1.pushed, [p.1.front, p.1.back, p.1.pfront], p.1.live, p.2.drop 43))
    = some ([(16, 1), (8, 2), (8, 3)], [(16, 1), (8, 2), (8, 3), (17, 4)], [64, 96, 40], [.data 17 4],
        [(1, .call ⟨"front", []⟩), (1, .ev ⟨"ld", "front", "56", ""⟩), (1, .ev ⟨"ld", "back", "96", ""⟩),
         (1, .ev ⟨"ld", "front", "56", ""⟩), (1, .ev ⟨"st", "front", "64", ""⟩),
         (1, .ev ⟨"ld", "front", "64", ""⟩), (1, .ret [1, 17, 4])]) := by
  decide +kernel

/-- size() of the producer overlapping a pop: 32 bytes in flight when `front_` is loaded (exact at that
    instant, an upper bound afterwards); empty() of the consumer on the drained ring. -/
example : (VoidRing.model.run (VoidRing.init 64)
    [(0, .invoke ⟨"push", [24, 1]⟩), (0, .step), (0, .step), (0, .step), (0, .ret),
     (1, .invoke ⟨"pop", []⟩), (1, .step), (1, .step), (1, .step),
     (0, .invoke ⟨"size", []⟩), (0, .step), (0, .step),
     (1, .step), (1, .ret),
     (0, .ret),
     (1, .invoke ⟨"empty", []⟩), (1, .step), (1, .step), (1, .ret)]).map
      (fun p => ([p.1.front, p.1.back], p.2.drop 9))
    = some ([32, 32],
        [(0, .call ⟨"size", []⟩), (0, .ev ⟨"ld", "back", "32", ""⟩), (0, .ev ⟨"ld", "front", "0", ""⟩),
         (1, .ev ⟨"st", "front", "32", ""⟩), (1, .ret [1, 24, 1]), (0, .ret [32]),
         (1, .call ⟨"empty", []⟩), (1, .ev ⟨"ld", "front", "32", ""⟩), (1, .ev ⟨"ld", "back", "32", ""⟩),
         (1, .ret [1])]) := by
  decide +kernel

/-- The hypotheses of the two failure theorems are satisfiable: a `front()` on the empty buffer fails at its
    reload of `back_`. -/
example : (VoidRing.model.run (VoidRing.init 64)
    [(1, .invoke ⟨"front", []⟩), (1, .step), (1, .step)]).map (fun p => (p.1.cp, p.2.getLast?))
    = some (.done [0], some (1, .ev ⟨"ld", "back", "0", ""⟩)) := by
  decide +kernel

end CdsVerif.Props.C12VoidRing

/-
  Object pools over a bounded MPMC queue (cds/memory/vyukov_queue_pool.h): `vyukov_queue_pool`,
  `lazy_vyukov_queue_pool`, `bounded_vyukov_queue_pool` (and `pool_allocator`, which only forwards).

  The free queue is the Vyukov bounded queue.  Property C07 (Algo/Vyukov, proved for all schedules and tied to
  the code by trace conformance) states that it is linearizable to the bounded FIFO; the pool model therefore
  treats `m_Queue.pop()` and `m_Queue.push()` as ATOMIC steps on an abstract bounded FIFO `q` (composition by
  linearizability: every pool operation performs exactly one successful queue operation, or a failing one that
  it repeats).  Everything the pools add on top is modelled step by step:

    allocate():    p = m_Queue.pop();                                                   -- allocDeq
                   vyukov:  p ? construct in place : cxx_allocator().New()   (fresh heap object)
                   lazy:    the same
                   bounded: p ? construct : (retry loop, then) throw std::bad_alloc     -- result [0]
    deallocate(p): vyukov:  from_pool(p) ? { destroy; while (!m_Queue.push(*p)) back-off; } : Delete(p)
                   lazy:    destroy; if ( !m_Queue.push(*p) ) Delete(p)
                   bounded: destroy; while (!m_Queue.push(*p)) back-off;                 -- freeEnq

  Objects are natural numbers: `1 .. cap` is the preallocated block (`from_pool`), larger numbers are heap
  objects allocated in increasing order and never reused after `Delete` (a heap allocator may reuse addresses;
  a reused address is a new object for the purposes of C24, whose statement is about simultaneous holders).

  Ownership is a RELATION `holds t o` set blindly by `allocate`, so that "at most one holder" is a theorem,
  not a consequence of typing.  Client discipline: `free p` is invoked only by a thread that holds `p`
  (ownership ends at the call).
-/
import CdsVerif.Base.Machine
namespace CdsVerif.Algo.Pool
open CdsVerif.Machine CdsVerif.Spec

inductive Kind
  | vyukov | lazy | bounded
deriving DecidableEq, Repr

inductive PC
  | idle
  | allocDeq                 -- next: p = m_Queue.pop()
  | freeEnq (p : Nat)        -- next: m_Queue.push( p )   (or Delete for a heap object of the vyukov pool)
  | done (r : GRet)
deriving DecidableEq, Repr

structure St where
  kind : Kind
  cap : Nat
  q : List Nat                 -- free queue, oldest first
  fresh : Nat                  -- next heap object
  freed : Nat → Bool           -- heap object given back to the allocator
  holds : Tid → Nat → Bool     -- ghost: ownership as seen by the clients
  pc : Tid → PC

/-- vyukov and bounded pools start with the preallocated block in the queue, the lazy pool starts empty. -/
def init (kind : Kind) (cap : Nat) : St :=
  ⟨kind, cap, (if kind = .lazy then [] else List.range' 1 cap), cap + 1, fun _ => false,
   fun _ _ => false, fun _ => .idle⟩

def fromPool (s : St) (p : Nat) : Bool := decide (1 ≤ p ∧ p ≤ s.cap)

def invoke (s : St) (t : Tid) (op : GOp) : Option St :=
  match s.pc t, op.name, op.args with
  | .idle, "alloc", [] => some { s with pc := upd s.pc t .allocDeq }
  | .idle, "free", [p] =>
    if 0 < p ∧ s.holds t p.toNat = true then
      some { s with holds := upd2 s.holds t p.toNat false, pc := upd s.pc t (.freeEnq p.toNat) }
    else none
  | _, _, _ => none

def step (s : St) (t : Tid) : Option (St × Ev) :=
  match s.pc t with
  | .allocDeq =>
    match s.q with
    | o :: rest =>
      some ({ s with q := rest, holds := upd2 s.holds t o true, pc := upd s.pc t (.done [1, o]) },
            ⟨"pop", "queue", s!"o{o}", "1"⟩)
    | [] =>
      if s.kind = .bounded then
        some ({ s with pc := upd s.pc t (.done [0]) }, ⟨"pop", "queue", "-", "0"⟩)
      else
        some ({ s with fresh := s.fresh + 1, holds := upd2 s.holds t s.fresh true,
                       pc := upd s.pc t (.done [1, s.fresh]) }, ⟨"pop", "queue", "-", "0"⟩)
  | .freeEnq p =>
    if s.kind = .vyukov ∧ fromPool s p = false then
      -- not from the preallocated block: cxx_allocator().Delete( p )
      some ({ s with freed := upd s.freed p true, pc := upd s.pc t (.done [2, p]) }, ⟨"delete", "heap", s!"o{p}", ""⟩)
    else if s.q.length < s.cap then
      some ({ s with q := s.q ++ [p], pc := upd s.pc t (.done [2, p]) }, ⟨"push", "queue", s!"o{p}", "1"⟩)
    else if s.kind = .lazy then
      -- the queue is full: the lazy pool deletes the object
      some ({ s with freed := upd s.freed p true, pc := upd s.pc t (.done [2, p]) }, ⟨"push", "queue", s!"o{p}", "0"⟩)
    else
      -- `while ( !m_Queue.push( *p )) bkoff();`
      some (s, ⟨"push", "queue", s!"o{p}", "0"⟩)
  | _ => none

def result (s : St) (t : Tid) : Option (St × GRet) :=
  match s.pc t with
  | .done r => some ({ s with pc := upd s.pc t .idle }, r)
  | _ => none

def model : Model St := ⟨invoke, step, result⟩

end CdsVerif.Algo.Pool

// Common driver for harness clients: case loop, program generation hooks,
// history (H) and trace (A) output.  A client defines a Fixture type:
//
//   struct Fixture {
//       static char const* family();                     // e.g. "treiber"
//       static std::vector<std::string> variants();
//       Fixture( Case const& c );                         // main thread, unscheduled: build the object
//       std::string spec() const;                         // e.g. "lifo" or "bfifo 4"
//       std::vector<std::vector<Op>> program( Rng& r, int nthreads, int nops );
//       void thread_begin( int tid );  void thread_end( int tid );
//       std::vector<long> exec( int tid, Op const& op );  // scheduled thread: run one operation
//       void finish( std::ostream& out );                 // main thread, quiescent: extra checks / SNAP lines; may set failed
//       bool failed = false; std::string failure;         // oracle verdicts raised by the client itself
//   };
//
// Output (stdout), one block per case:
//   CASE <id> <spec…>
//   # variant=… seed=… mode=… threads=… sched=<rle>
//   P <tid> <op> <args…>            program
//   T <tid> …                        trace lines (only with --trace 1)
//   O <tid> <inv> <res> <op> <args…> : <rets…>
//   X <text>                         oracle failure raised by the client
//   END status=<ok|budget|deadlock> steps=<n> hash=<trace hash>
#ifndef KHIZMAX_LIBCDS_VERIF_CLIENT_H
#define KHIZMAX_LIBCDS_VERIF_CLIENT_H

#include <cstdio>
#include <cstdlib>
#include <cstring>
#include <iostream>
#include <map>
#include <sstream>
#include <string>
#include <unistd.h>
#include <vector>
#include "vsched.h"

namespace khizmax_libcds_verif {

struct Op {
    std::string name;
    std::vector<long> args;
    Op() {}
    Op( std::string n ) : name( std::move( n )) {}
    Op( std::string n, long a ) : name( std::move( n )), args{ a } {}
    Op( std::string n, long a, long b ) : name( std::move( n )), args{ a, b } {}
    Op( std::string n, long a, long b, long c ) : name( std::move( n )), args{ a, b, c } {}
};

struct Case {
    std::string variant;
    uint64_t seed = 1;
    uint64_t index = 0;
    int threads = 2;
    int nops = 3;
    std::map<std::string, std::string> opt;     // free-form --k v options
    long optl( char const* k, long dflt ) const
    {
        auto it = opt.find( k );
        return it == opt.end() ? dflt : std::atol( it->second.c_str());
    }
};

struct OpRecord { int tid; uint64_t inv, res; Op op; std::vector<long> ret; bool done; };

struct Args {
    std::string variant = "";
    uint64_t seed = 1;
    uint64_t first = 0, cases = 100;
    int threads = 3, nops = 4;
    std::string mode = "random";
    bool trace = false;
    std::string replay;       // rle schedule: run exactly one case (index = first) with it
    uint64_t budget = 20000;
    std::map<std::string, std::string> opt;
};

inline Args parse_args( int argc, char** argv )
{
    Args a;
    for ( int i = 1; i + 1 < argc; i += 2 ) {
        std::string k = argv[i], v = argv[i + 1];
        if ( k == "--variant" ) a.variant = v;
        else if ( k == "--seed" ) a.seed = std::strtoull( v.c_str(), nullptr, 10 );
        else if ( k == "--first" ) a.first = std::strtoull( v.c_str(), nullptr, 10 );
        else if ( k == "--cases" ) a.cases = std::strtoull( v.c_str(), nullptr, 10 );
        else if ( k == "--threads" ) a.threads = std::atoi( v.c_str());
        else if ( k == "--ops" ) a.nops = std::atoi( v.c_str());
        else if ( k == "--mode" ) a.mode = v;
        else if ( k == "--trace" ) a.trace = v != "0";
        else if ( k == "--replay" ) a.replay = v;
        else if ( k == "--budget" ) a.budget = std::strtoull( v.c_str(), nullptr, 10 );
        else if ( k.size() > 2 && k[0] == '-' && k[1] == '-' ) a.opt[k.substr( 2 )] = v;
    }
    return a;
}

// optional Fixture::header_extra(): extra `key=value` words for the case header (configuration the Lean model needs)
template <class F> auto header_extra_of( F const& f, int ) -> decltype( f.header_extra()) { return f.header_extra(); }
template <class F> std::string header_extra_of( F const&, long ) { return std::string(); }

// optional Fixture::thread_attach( tid ) / thread_detach( tid ): per-thread set-up that must exist before the first
// scheduled step and last until every thread has finished (see run_case: prologue / epilogue)
template <class F> auto thread_attach_of( F& f, int t, int ) -> decltype( f.thread_attach( t )) { return f.thread_attach( t ); }
template <class F> void thread_attach_of( F&, int, long ) {}
template <class F> auto thread_detach_of( F& f, int t, int ) -> decltype( f.thread_detach( t )) { return f.thread_detach( t ); }
template <class F> void thread_detach_of( F&, int, long ) {}
template <class F> auto has_thread_attach( F& f, int ) -> decltype( f.thread_attach( 0 ), true ) { return true; }
template <class F> bool has_thread_attach( F&, long ) { return false; }

template <class Fixture>
struct Runner {
    Args args;
    std::ostream& out = std::cout;

    // run one (program, schedule) pair; returns number of decisions
    uint64_t run_one( std::string const& id, Case const& c, std::vector<std::vector<Op>> const& prog,
                      SchedCfg const& sc, std::string const& modename )
    {
        reg_clear();
        Fixture fx( c );
        int n = int( prog.size());
        std::vector<std::vector<OpRecord>> recs( n );
        std::ostringstream head;
        // `--spec X` lets the check choose the specification the history is judged against (e.g. the concurrent
        // map specification whose payload updates are not atomic with the operation)
        head << "CASE " << id << ' ' << ( args.opt.count( "spec" ) ? args.opt.at( "spec" ) : fx.spec()) << '\n';
        head << "# family=" << Fixture::family() << " variant=" << c.variant << " seed=" << c.seed << " index=" << c.index
             << " mode=" << modename << " threads=" << n;
        { std::string hx = header_extra_of( fx, 0 ); if ( !hx.empty()) head << ' ' << hx; }
        for ( int t = 0; t < n; ++t )
            for ( Op const& op : prog[t] ) {
                head << "\nP " << t << ' ' << op.name;
                for ( long x : op.args ) head << ' ' << x;
            }
        head << '\n';

        auto emit = [&]( char const* status ) {
            out << head.str();
            out << "# sched=" << render_schedule() << '\n';
            if ( args.trace )
                out << render_trace();
            for ( int t = 0; t < n; ++t )
                for ( OpRecord const& r : recs[t] ) {
                    if ( !r.done ) {
                        out << "# pending " << t << ' ' << r.op.name << '\n';
                        continue;
                    }
                    out << "O " << r.tid << ' ' << r.inv << ' ' << r.res << ' ' << r.op.name;
                    for ( long x : r.op.args ) out << ' ' << x;
                    out << " :";
                    for ( long x : r.ret ) out << ' ' << x;
                    out << '\n';
                }
        };

        auto body = [&]( int tid ) {
            fx.thread_begin( tid );
            for ( Op const& op : prog[tid] ) {
                recs[tid].push_back( OpRecord{ tid, 0, 0, op, {}, false } );
                OpRecord& r = recs[tid].back();
                if ( args.trace ) {
                    std::ostringstream os;
                    os << "CALL " << op.name;
                    for ( long x : op.args ) os << ' ' << x;
                    ev_note( os.str());
                }
                r.inv = tick();
                r.ret = fx.exec( tid, op );
                r.res = tick();
                r.done = true;
                if ( args.trace ) {
                    std::ostringstream os;
                    os << "RET";
                    for ( long x : r.ret ) os << ' ' << x;
                    ev_note( os.str());
                }
            }
            fx.thread_end( tid );
        };

        auto on_abort = [&]( RunStatus st ) {
            emit( "" );
            TraceStats s = trace_stats();
            out << "END status=" << ( st == ST_BUDGET ? "budget" : "deadlock" ) << " steps=" << steps()
                << " hash=" << trace_hash() << " cas_fail=" << s.cas_fail << " yields=" << s.yields << " switches=" << s.switches << '\n';
            out.flush();
            _exit( 40 + int( st ));
        };

        std::function<void( int )> pro, epi;
        if ( has_thread_attach( fx, 0 )) {
            pro = [&]( int tid ) { thread_attach_of( fx, tid, 0 ); };
            epi = [&]( int tid ) { thread_detach_of( fx, tid, 0 ); };
        }
        run_case( n, body, sc, on_abort, pro, epi );
        std::ostringstream extra;
        fx.finish( extra );
        emit( "ok" );
        out << extra.str();
        if ( fx.failed )
            out << "X " << fx.failure << '\n';
        TraceStats s = trace_stats();
        out << "END status=ok steps=" << steps() << " hash=" << trace_hash() << " cas_fail=" << s.cas_fail
            << " yields=" << s.yields << " switches=" << s.switches << '\n';
        return steps();
    }

    int main()
    {
        std::vector<std::string> vars = Fixture::variants();
        for ( uint64_t k = args.first; k < args.first + args.cases; ++k ) {
            Rng r( args.seed * 1000003ull + k * 7919ull + 17 );
            Case c;
            c.seed = args.seed; c.index = k; c.opt = args.opt;
            c.variant = args.variant.empty() ? vars[r.below( vars.size())] : args.variant;
            c.threads = args.threads < 2 ? args.threads : 2 + int( r.below( args.threads - 1 ));
            c.nops = args.nops;
            std::vector<std::vector<Op>> prog;
            {
                reg_clear();
                Fixture fx( c );
                prog = fx.program( r, c.threads, c.nops );
            }
            SchedCfg sc;
            sc.budget = args.budget;
            sc.trace = true;
            sc.seed = r.next();
            std::ostringstream id;
            id << k;
            if ( !args.replay.empty()) {
                sc.mode = M_REPLAY;
                sc.replay = parse_schedule( args.replay );
                run_one( id.str(), c, prog, sc, "replay" );
                break;
            }
            if ( args.mode == "random" ) {
                sc.mode = M_RANDOM;
                static unsigned const pcts[] = { 5, 15, 30, 50, 80 };
                sc.switch_pct = pcts[r.below( 5 )];
                run_one( id.str(), c, prog, sc, "random" );
            }
            else if ( args.mode == "cas" ) {
                // random scheduling whose context switches cluster around CAS / exchange operations
                sc.mode = M_CASBIAS;
                static unsigned const pcts[] = { 35, 50, 65 };
                sc.switch_pct = pcts[r.below( 3 )];
                run_one( id.str(), c, prog, sc, "cas" );
            }
            else if ( args.mode == "pct" ) {
                sc.mode = M_PCT;
                sc.pct_depth = 1 + unsigned( r.below( 3 ));
                sc.est_len = 12 * unsigned( c.threads ) * unsigned( c.nops > 0 ? c.nops : 1 );
                run_one( id.str(), c, prog, sc, "pct" );
            }
            else if ( args.mode == "mixed" ) {
                if ( k % 3 == 2 ) {
                    sc.mode = M_CASBIAS;
                    static unsigned const pcts[] = { 35, 50, 65 };
                    sc.switch_pct = pcts[r.below( 3 )];
                    run_one( id.str(), c, prog, sc, "cas" );
                }
                else if ( k % 3 == 1 ) {
                    sc.mode = M_PCT;
                    sc.pct_depth = 1 + unsigned( r.below( 3 ));
                    sc.est_len = 12 * unsigned( c.threads ) * unsigned( c.nops > 0 ? c.nops : 1 );
                    run_one( id.str(), c, prog, sc, "pct" );
                }
                else {
                    sc.mode = M_RANDOM;
                    static unsigned const pcts[] = { 5, 15, 30, 50, 80 };
                    sc.switch_pct = pcts[r.below( 5 )];
                    run_one( id.str(), c, prog, sc, "random" );
                }
            }
            else if ( args.mode == "seq" ) {
                sc.mode = M_PREEMPT;
                run_one( id.str(), c, prog, sc, "seq" );
            }
            else if ( args.mode == "enum1" || args.mode == "enum2" ) {
                sc.mode = M_PREEMPT;
                uint64_t len = run_one( id.str() + ".base", c, prog, sc, "preempt0" );
                std::vector<int> base = schedule();
                for ( uint64_t i = 0; i < len; ++i )
                    for ( int t = 0; t < c.threads; ++t ) {
                        if ( i < base.size() && base[i] == t )
                            continue;       // not a preemption: the base run chose t here anyway
                        SchedCfg s1 = sc;
                        s1.preempt = { { i, t } };
                        std::ostringstream id1;
                        id1 << k << '.' << i << '.' << t;
                        uint64_t len1 = run_one( id1.str(), c, prog, s1, "preempt1" );
                        if ( args.mode == "enum2" ) {
                            std::vector<int> base1 = schedule();
                            for ( uint64_t j = i + 1; j < len1; ++j )
                                for ( int u = 0; u < c.threads; ++u ) {
                                    if ( j < base1.size() && base1[j] == u )
                                        continue;
                                    SchedCfg s2 = sc;
                                    s2.preempt = { { i, t }, { j, u } };
                                    std::ostringstream id2;
                                    id2 << k << '.' << i << '.' << t << '.' << j << '.' << u;
                                    run_one( id2.str(), c, prog, s2, "preempt2" );
                                }
                        }
                    }
            }
            out.flush();
        }
        out.flush();
        return 0;
    }
};

template <class Fixture>
int client_main( int argc, char** argv )
{
    Runner<Fixture> r;
    r.args = parse_args( argc, argv );
    return r.main();
}

} // namespace khizmax_libcds_verif
#endif

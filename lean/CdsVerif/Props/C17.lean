/-
  C17 — property theorems (the algorithm-level theorems are added as the models are finished;
  see DESIGN.md section 6).
-/
import CdsVerif.Base.Spec
namespace CdsVerif.Props.C17
open CdsVerif.Lin CdsVerif.Spec

/-- The oracle of tie H is exact: a history of the real container is accepted by the driver iff it is
    linearizable to the sequential specification. -/
theorem C17_history_oracle_exact  (ops : List (OpRec GOp GRet)) (hwf : ∀ o ∈ ops, o.inv ≤ o.res) :
    linCheck map ops = true ↔ Linearizable map ops :=
  linCheck_iff _ ops hwf

end CdsVerif.Props.C17

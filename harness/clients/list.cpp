// Ordered lists used directly as sets / maps: MichaelList, LazyList, IterableList
// (container set-like and KV forms, HP / DHP / RCU / nogc, intrusive HP).
// History is judged against Spec.map.
#include <cds/init.h>
#include <cds/gc/hp.h>
#include <cds/gc/dhp.h>
#include <cds/gc/nogc.h>
#include <cds/urcu/general_instant.h>
#include <cds/urcu/general_buffered.h>
#include <cds/container/michael_list_hp.h>
#include <cds/container/michael_list_dhp.h>
#include <cds/container/michael_list_rcu.h>
#include <cds/container/michael_list_nogc.h>
#include <cds/container/lazy_list_hp.h>
#include <cds/container/lazy_list_dhp.h>
#include <cds/container/lazy_list_rcu.h>
#include <cds/container/lazy_list_nogc.h>
#include <cds/container/iterable_list_hp.h>
#include <cds/container/iterable_list_dhp.h>
#include <cds/container/michael_kvlist_hp.h>
#include <cds/container/michael_kvlist_rcu.h>
#include <cds/container/michael_kvlist_nogc.h>
#include <cds/container/lazy_kvlist_hp.h>
#include <cds/container/lazy_kvlist_rcu.h>
#include <cds/container/lazy_kvlist_nogc.h>
#include <cds/container/iterable_kvlist_hp.h>
#include <cds/intrusive/michael_list_hp.h>
#include <cds/intrusive/lazy_list_hp.h>
#include <cds/intrusive/iterable_list_hp.h>
#include <memory>
#include <functional>
#include "../client.h"

using namespace khizmax_libcds_verif;
namespace ci = cds::intrusive;
namespace cc = cds::container;

typedef cds::urcu::gc< cds::urcu::general_instant< cds::sync::spin > > rcu_gpi;
typedef cds::urcu::gc< cds::urcu::general_buffered<
    cds::container::VyukovMPMCCycleQueue< cds::urcu::epoch_retired_ptr >, cds::sync::spin > > rcu_gpb;

// ---------------------------------------------------------------- common map client part

// Spin detection.  Some libcds operations wait for another thread in a loop that contains no back-off
// call (e.g. LazyList::search() restarts from the head while it runs into a logically deleted node that
// its eraser has not unlinked yet; IterableList::insert retries while a neighbour is marked).  A
// strict-priority schedule (pct) would starve the thread waited for, and the case would end with
// status=budget.  Key comparators and (where offered) retry events of the statistics policy therefore
// report to the scheduler: after c_spin_limit comparisons inside one operation every further
// comparison is a spin hint.  The command line option `--hints 0` switches the hints off (same
// programs and schedules seeds) and shows the behaviour of the library alone.
static bool g_hints = true;
static thread_local unsigned tls_cmp_count = 0;
static constexpr unsigned c_spin_limit = 200;
static inline void cmp_tick()
{
    if ( ++tls_cmp_count > c_spin_limit && g_hints )
        spin_hint();
}
static inline void retry_tick()
{
    if ( g_hints )
        spin_hint();
}

struct IMap {
    // capabilities: which operations the program generator may use
    bool can_erase = true, can_extract = true, can_minmax = false, can_update = true;
    char const* upd = "update";         // "update" (payload replaced) or "upsert_keep" (old item kept)
    bool upd_zero = false;              // update() can only insert a default-constructed payload (0)
    virtual ~IMap() {}
    virtual bool insert( long k, long v ) = 0;
    virtual std::pair<bool, bool> update( long k, long v, bool allow ) = 0;
    virtual bool erase( long, long& ) { return false; }
    std::function<void()> lockfn, unlockfn;      // LazyList<RCU>::extract must be called under the RCU read lock (documented)
    virtual bool extract( long, long& ) { return false; }
    virtual bool find( long k, long& v ) = 0;
    virtual bool contains( long k ) = 0;
    virtual bool extract_min( long&, long& ) { return false; }
    virtual bool extract_max( long&, long& ) { return false; }
    // tie S on the machine side (lean/CdsVerif/Props/C18Reach.lean): the raw chain of the real object at the quiescent
    // end of the case, as ONE line `SNAP list { <key> <marked> <hasData> }*` (format of clients/snap.cpp); default: none
    virtual void dump( std::ostream& ) {}
};

struct GenCfg {
    int maxkeys = 5;            // key space is 2..maxkeys keys
    bool ins_heavy = false;     // mostly inserts (growing tables)
};

static std::vector<std::vector<Op>> map_program( Rng& r, int nthreads, int nops, IMap const& m, GenCfg const& g )
{
    std::vector<std::vector<Op>> p( nthreads );
    long v = 1;
    long nkeys = 2 + long( r.below( g.maxkeys - 1 ));
    unsigned w_ins = 25 + unsigned( r.below( 30 ));
    unsigned w_upd = 10 + unsigned( r.below( 15 ));
    if ( !m.can_update ) w_upd = 0;
    unsigned w_era = m.can_erase ? 10 + unsigned( r.below( 20 )) : 0;
    unsigned w_ext = m.can_extract ? 5 + unsigned( r.below( 15 )) : 0;
    unsigned w_fnd = 10 + unsigned( r.below( 15 ));
    unsigned w_con = 5 + unsigned( r.below( 10 ));
    unsigned w_mm = m.can_minmax ? 10 + unsigned( r.below( 10 )) : 0;
    if ( g.ins_heavy ) {
        nkeys = g.maxkeys;
        w_ins += 60;
    }
    unsigned total = w_ins + w_upd + w_era + w_ext + w_fnd + w_con + w_mm;
    int budget = 14;
    for ( int t = 0; t < nthreads; ++t ) {
        int n = 1 + int( r.below( nops ));
        int left = nthreads - t - 1;
        if ( n > budget - left ) n = budget - left;
        budget -= n;
        for ( int i = 0; i < n; ++i ) {
            long k = long( r.below( nkeys ));
            unsigned x = unsigned( r.below( total ));
            if ( x < w_ins ) { p[t].push_back( Op( "insert", k, v++ )); continue; }
            x -= w_ins;
            if ( x < w_upd ) { p[t].push_back( Op( m.upd, k, m.upd_zero ? 0 : v++, r.chance( 70 ) ? 1 : 0 )); continue; }
            x -= w_upd;
            if ( x < w_era ) { p[t].push_back( Op( "erase", k )); continue; }
            x -= w_era;
            if ( x < w_ext ) { p[t].push_back( Op( "extract", k )); continue; }
            x -= w_ext;
            if ( x < w_fnd ) { p[t].push_back( Op( "find", k )); continue; }
            x -= w_fnd;
            if ( x < w_con ) { p[t].push_back( Op( "contains", k )); continue; }
            p[t].push_back( Op( r.chance( 50 ) ? "extract_min" : "extract_max" ));
        }
    }
    return p;
}

static std::vector<long> map_exec( IMap& m, Op const& op )
{
    std::string const& n = op.name;
    long v = 0, k = 0;
    tls_cmp_count = 0;
    if ( n == "insert" ) return { m.insert( op.args[0], op.args[1] ) ? 1L : 0L };
    if ( n == "update" || n == "upsert_keep" ) {
        std::pair<bool, bool> r = m.update( op.args[0], op.args[1], op.args[2] != 0 );
        return { r.first ? 1L : 0L, r.second ? 1L : 0L };
    }
    if ( n == "erase" ) { if ( m.erase( op.args[0], v )) return { 1, v }; return { 0 }; }
    if ( n == "extract" ) { if ( m.extract( op.args[0], v )) return { 1, v }; return { 0 }; }
    if ( n == "find" ) { if ( m.find( op.args[0], v )) return { 1, v }; return { 0 }; }
    if ( n == "contains" ) return { m.contains( op.args[0] ) ? 1L : 0L };
    if ( n == "extract_min" ) { if ( m.extract_min( k, v )) return { 1, k, v }; return { 0 }; }
    if ( n == "extract_max" ) { if ( m.extract_max( k, v )) return { 1, k, v }; return { 0 }; }
    std::fprintf( stderr, "unknown op %s\n", n.c_str());
    std::exit( 2 );
}

// ---------------------------------------------------------------- value types and predicates

struct kv {
    long key; long val;
    kv() : key( 0 ), val( 0 ) {}
    kv( long k, long v ) : key( k ), val( v ) {}
};

struct key_of {
    template <class T> static long k( T const& t ) { return t.key; }
    static long k( long x ) { return x; }
};
struct key_less {
    template <class A, class B> bool operator()( A const& a, B const& b ) const { cmp_tick(); return key_of::k( a ) < key_of::k( b ); }
};
struct key_cmp {
    template <class A, class B> int operator()( A const& a, B const& b ) const
    {
        cmp_tick();
        long x = key_of::k( a ), y = key_of::k( b );
        return x < y ? -1 : ( y < x ? 1 : 0 );
    }
};

// traits generators: Pred = 0 -> less, 1 -> compare; Cnt -> item counter
template <class Base, int Pred, bool Cnt> struct mk_traits;
template <class Base> struct mk_traits<Base, 0, false> : Base { typedef key_less less; };
template <class Base> struct mk_traits<Base, 1, false> : Base { typedef key_cmp compare; };
template <class Base> struct mk_traits<Base, 0, true> : Base { typedef key_less less; typedef cds::atomicity::item_counter item_counter; };
template <class Base> struct mk_traits<Base, 1, true> : Base { typedef key_cmp compare; typedef cds::atomicity::item_counter item_counter; };

template <class Base, int Pred, bool Cnt> struct mk_kvtraits;
template <class Base> struct mk_kvtraits<Base, 0, false> : Base { typedef key_less less; };
template <class Base> struct mk_kvtraits<Base, 1, false> : Base { typedef key_cmp compare; };
template <class Base> struct mk_kvtraits<Base, 0, true> : Base { typedef key_less less; typedef cds::atomicity::item_counter item_counter; };

// ---------------------------------------------------------------- container set-like lists

// MichaelList / LazyList over HP, DHP, RCU: update functor ( bool bNew, value_type& item, Q const& key )
// API form: plain overloads, or the *_with( key, less ) overloads; chosen per case (a quarter of the cases)
static bool g_use_with = false;
struct long_less { bool operator()( long a, long b ) const { return a < b; } };

template <class L>
struct SetListML : IMap {
    L l;
    template <class... A> explicit SetListML( A&&... a ) : l( std::forward<A>( a )... ) {}
    bool insert( long k, long v ) override { return l.insert( kv( k, v )); }
    std::pair<bool, bool> update( long k, long v, bool allow ) override
    {
        return l.update( kv( k, v ), []( bool, kv& item, kv const& key ) { item.val = key.val; }, allow );
    }
    bool erase( long k, long& v ) override
    {
        if ( g_use_with ) return l.erase_with( kv( k, 0 ), key_less(), [&v]( kv const& item ) { v = item.val; } );
        return l.erase( kv( k, 0 ), [&v]( kv const& item ) { v = item.val; } );
    }
    bool extract( long k, long& v ) override
    {
        // LazyList<RCU>::extract must be called under the RCU read lock (documented); the returned pointer is released
        // (= retired) outside of it.  lockfn is set for exactly those variants.
        if ( lockfn ) lockfn();
        auto p = l.extract( kv( k, 0 ));
        bool ok = bool( p );
        if ( ok ) v = p->val;
        if ( unlockfn ) unlockfn();
        p.release();
        return ok;
    }
    bool find( long k, long& v ) override
    {
        if ( g_use_with ) return l.find_with( kv( k, 0 ), key_less(), [&v]( kv& item, kv const& ) { v = item.val; } );
        return l.find( kv( k, 0 ), [&v]( kv& item, kv const& ) { v = item.val; } );
    }
    bool contains( long k ) override { return g_use_with ? l.contains( kv( k, 0 ), key_less()) : l.contains( kv( k, 0 )); }
};

// IterableList: update replaces the data of the node
template <class L>
struct SetListIter : IMap {
    L l;
    bool useUpsert;
    template <class... A> explicit SetListIter( bool ups, A&&... a ) : l( std::forward<A>( a )... ), useUpsert( ups ) {}
    bool insert( long k, long v ) override { return l.insert( kv( k, v )); }
    std::pair<bool, bool> update( long k, long v, bool allow ) override
    {
        if ( useUpsert )
            return l.upsert( kv( k, v ), allow );
        return l.update( kv( k, v ), []( kv&, kv* ) {}, allow );
    }
    bool erase( long k, long& v ) override
    {
        if ( g_use_with ) return l.erase_with( kv( k, 0 ), key_less(), [&v]( kv const& item ) { v = item.val; } );
        return l.erase( kv( k, 0 ), [&v]( kv const& item ) { v = item.val; } );
    }
    bool extract( long k, long& v ) override
    {
        auto p = l.extract( kv( k, 0 ));
        if ( !p ) return false;
        v = p->val;
        return true;
    }
    bool find( long k, long& v ) override
    {
        if ( g_use_with ) return l.find_with( kv( k, 0 ), key_less(), [&v]( kv& item, kv const& ) { v = item.val; } );
        return l.find( kv( k, 0 ), [&v]( kv& item, kv const& ) { v = item.val; } );
    }
    bool contains( long k ) override { return g_use_with ? l.contains( kv( k, 0 ), key_less()) : l.contains( kv( k, 0 )); }
};

// nogc: insert-only, iterators
template <class L>
struct SetListNogc : IMap {
    L l;
    template <class... A> explicit SetListNogc( A&&... a ) : l( std::forward<A>( a )... ) { can_erase = can_extract = false; upd = "upsert_keep"; }
    bool insert( long k, long v ) override { return l.insert( kv( k, v )) != l.end(); }
    std::pair<bool, bool> update( long k, long v, bool allow ) override
    {
        auto r = l.update( kv( k, v ), allow );
        return std::make_pair( r.first != l.end(), r.second );
    }
    bool find( long k, long& v ) override
    {
        auto it = l.contains( kv( k, 0 ));
        if ( it == l.end()) return false;
        v = it->val;
        return true;
    }
    bool contains( long k ) override { return l.contains( kv( k, 0 )) != l.end(); }
};

// ---------------------------------------------------------------- KV lists

template <class L>
struct KVListML : IMap {
    L l;
    typedef typename L::value_type value_type;
    template <class... A> explicit KVListML( A&&... a ) : l( std::forward<A>( a )... ) {}
    bool insert( long k, long v ) override { return l.insert( k, v ); }
    std::pair<bool, bool> update( long k, long v, bool allow ) override
    {
        return l.update( k, [v]( bool, value_type& item ) { item.second = v; }, allow );
    }
    bool erase( long k, long& v ) override
    {
        if ( g_use_with ) return l.erase_with( k, long_less(), [&v]( value_type& item ) { v = item.second; } );
        return l.erase( k, [&v]( value_type& item ) { v = item.second; } );
    }
    bool extract( long k, long& v ) override
    {
        if ( lockfn ) lockfn();
        auto p = l.extract( k );
        bool ok = bool( p );
        if ( ok ) v = p->second;
        if ( unlockfn ) unlockfn();
        p.release();      // outside the RCU lock
        return ok;
    }
    bool find( long k, long& v ) override
    {
        if ( g_use_with ) return l.find_with( k, long_less(), [&v]( value_type& item ) { v = item.second; } );
        return l.find( k, [&v]( value_type& item ) { v = item.second; } );
    }
    bool contains( long k ) override { return g_use_with ? l.contains( k, long_less()) : l.contains( k ); }
};

template <class L>
struct KVListIter : IMap {
    L l;
    bool useUpsert;
    typedef typename L::value_type value_type;
    template <class... A> explicit KVListIter( bool ups, A&&... a ) : l( std::forward<A>( a )... ), useUpsert( ups ) {}
    bool insert( long k, long v ) override { return l.insert( k, v ); }
    std::pair<bool, bool> update( long k, long v, bool allow ) override
    {
        if ( useUpsert )
            return l.upsert( k, v, allow );
        return l.update( k, [v]( value_type& item, value_type* ) { item.second = v; }, allow );
    }
    bool erase( long k, long& v ) override
    {
        if ( g_use_with ) return l.erase_with( k, long_less(), [&v]( value_type& item ) { v = item.second; } );
        return l.erase( k, [&v]( value_type& item ) { v = item.second; } );
    }
    bool extract( long k, long& v ) override
    {
        if ( lockfn ) lockfn();
        auto p = l.extract( k );
        bool ok = bool( p );
        if ( ok ) v = p->second;
        if ( unlockfn ) unlockfn();
        p.release();      // outside the RCU lock
        return ok;
    }
    bool find( long k, long& v ) override
    {
        if ( g_use_with ) return l.find_with( k, long_less(), [&v]( value_type& item ) { v = item.second; } );
        return l.find( k, [&v]( value_type& item ) { v = item.second; } );
    }
    bool contains( long k ) override { return g_use_with ? l.contains( k, long_less()) : l.contains( k ); }
};

template <class L>
struct KVListNogc : IMap {
    L l;
    template <class... A> explicit KVListNogc( A&&... a ) : l( std::forward<A>( a )... ) { can_erase = can_extract = false; upd = "upsert_keep"; upd_zero = true; }
    bool insert( long k, long v ) override { return l.insert( k, v ) != l.end(); }
    std::pair<bool, bool> update( long k, long v, bool allow ) override
    {
        // the nogc update() default-constructs the mapped value of a new item (payload 0): the program
        // generator passes v = 0 for these variants (upd_zero)
        (void) v;
        auto r = l.update( k, allow );
        return std::make_pair( r.first != l.end(), r.second );
    }
    bool find( long k, long& v ) override
    {
        auto it = l.contains( k );
        if ( it == l.end()) return false;
        v = it->second;
        return true;
    }
    bool contains( long k ) override { return l.contains( k ) != l.end(); }
};

// ---------------------------------------------------------------- intrusive lists (HP)

struct noop_disposer { template <class T> void operator()( T* ) const {} };

template <class Item>
struct NodePool {
    std::vector<std::unique_ptr<Item>> items;
    Item* make( long k, long v )
    {
        items.emplace_back( new Item );
        Item* p = items.back().get();
        p->key = k; p->val = v;
        char nm[32];
        std::snprintf( nm, sizeof nm, "n%ld", v );
        reg_name( p, sizeof( Item ), nm );
        return p;
    }
};

// Michael / Lazy: update keeps the old node when the key exists
template <class GC, class L, class Item>
struct IntrListML : IMap {
    std::unique_ptr<L> l;
    NodePool<Item> pool;
    IntrListML() : l( new L ) { upd = "upsert_keep"; }
    ~IntrListML()
    {
        l.reset();
        GC::force_dispose();
    }
    bool insert( long k, long v ) override { return l->insert( *pool.make( k, v )); }
    std::pair<bool, bool> update( long k, long v, bool allow ) override
    {
        return l->update( *pool.make( k, v ), []( bool, Item&, Item& ) {}, allow );
    }
    bool erase( long k, long& v ) override { return l->erase( k, [&v]( Item const& item ) { v = item.val; } ); }
    bool extract( long k, long& v ) override
    {
        auto p = l->extract( k );
        if ( !p ) return false;
        v = p->val;
        return true;
    }
    bool find( long k, long& v ) override { return l->find( k, [&v]( Item& item, long ) { v = item.val; } ); }
    bool contains( long k ) override { return l->contains( k ); }
};

// Tie A (atomic-trace conformance with the Lean machine lean/CdsVerif/Algo/Michael/Model.lean): intrusive
// MichaelList whose head word is named `head` and whose items' m_pNext words are named n1, n2, … in the order in
// which the inserts are INVOKED (the order in which the Lean machine allocates node ids).  Every `insert k v`
// brings a fresh item, linked or not.  Only insert / erase / find / contains (no update, no extract): keys and
// payloads of items are immutable.  The item constructor is kept quiet (it is not part of insert()).
template <class GC, class L, class Item>
struct IntrListNamed : IMap {
    std::unique_ptr<L> l;
    std::vector<std::unique_ptr<Item>> items;
    size_t named = 0;
    IntrListNamed() : l( new L )
    {
        can_update = false; can_extract = false;
        reg_name( &l->m_pHead, sizeof( l->m_pHead ), "head" );
    }
    ~IntrListNamed()
    {
        l.reset();
        GC::force_dispose();
    }
    bool insert( long k, long v ) override
    {
        set_quiet( true );
        Item* p = new Item;
        set_quiet( false );
        p->key = k; p->val = v;
        items.emplace_back( p );
        char nm[32];
        std::snprintf( nm, sizeof nm, "n%zu", ++named );
        reg_name( &p->m_pNext, sizeof( p->m_pNext ), nm );
        return l->insert( *p );
    }
    std::pair<bool, bool> update( long, long, bool ) override { return std::make_pair( false, false ); }
    bool erase( long k, long& v ) override { return l->erase( k, [&v]( Item const& item ) { v = item.val; } ); }
    bool find( long k, long& v ) override { return l->find( k, [&v]( Item& item, long ) { v = item.val; } ); }
    bool contains( long k ) override { return l->contains( k ); }
    // main thread, quiescent.  The loads are kept out of the trace (set_quiet): the replayed machine must not see them.
    void dump( std::ostream& out ) override
    {
        set_quiet( true );
        out << "SNAP list";
        unsigned n = 0;
        for ( auto* cur = l->m_pHead.load( atomics::memory_order_acquire ).ptr(); cur && n < 100000; ++n ) {
            auto nx = cur->m_pNext.load( atomics::memory_order_acquire );
            out << ' ' << static_cast<Item*>( cur )->key << ' ' << ( nx.bits() ? 1 : 0 ) << " 1";
            cur = nx.ptr();
        }
        out << '\n';
        set_quiet( false );
    }
};

// Tie A for LazyList (Lean machine lean/CdsVerif/Algo/Lazy/Model.lean): intrusive LazyList whose sentinels' m_pNext
// words are named `h` and `t`, whose items' m_pNext words are named n1, n2, … in the order in which the operations
// that bring an item (insert, update) are INVOKED, and whose lock words are named `<node>.lock`.  The intrusive
// update() keeps the old item when the key exists (spec operation `upsert_keep`): keys and payloads are immutable.
// The item constructor is kept quiet (it is not part of insert()).
template <class GC, class L, class Item>
struct IntrLazyNamed : IMap {
    std::unique_ptr<L> l;
    std::vector<std::unique_ptr<Item>> items;
    size_t named = 0;
    IntrLazyNamed()
    {
        set_quiet( true );
        l.reset( new L );
        set_quiet( false );
        upd = "upsert_keep";
        reg_name( &l->m_Head.m_pNext, sizeof( l->m_Head.m_pNext ), "h" );
        reg_name( &l->m_Head.m_Lock, sizeof( l->m_Head.m_Lock ), "h.lock" );
        reg_name( &l->m_Tail.m_pNext, sizeof( l->m_Tail.m_pNext ), "t" );
        reg_name( &l->m_Tail.m_Lock, sizeof( l->m_Tail.m_Lock ), "t.lock" );
    }
    ~IntrLazyNamed()
    {
        l.reset();
        GC::force_dispose();
    }
    Item* make( long k, long v )
    {
        set_quiet( true );
        Item* p = new Item;
        set_quiet( false );
        p->key = k; p->val = v;
        items.emplace_back( p );
        char nm[32];
        std::snprintf( nm, sizeof nm, "n%zu", ++named );
        reg_name( &p->m_pNext, sizeof( p->m_pNext ), nm );
        reg_name( &p->m_Lock, sizeof( p->m_Lock ), std::string( nm ) + ".lock" );
        return p;
    }
    bool insert( long k, long v ) override { return l->insert( *make( k, v )); }
    std::pair<bool, bool> update( long k, long v, bool allow ) override
    {
        return l->update( *make( k, v ), []( bool, Item&, Item& ) {}, allow );
    }
    bool erase( long k, long& v ) override { return l->erase( k, [&v]( Item const& item ) { v = item.val; } ); }
    bool extract( long k, long& v ) override
    {
        auto p = l->extract( k );
        if ( !p ) return false;
        v = p->val;
        return true;
    }
    bool find( long k, long& v ) override { return l->find( k, [&v]( Item& item, long ) { v = item.val; } ); }
    bool contains( long k ) override { return l->contains( k ); }
    // main thread, quiescent; loads kept out of the trace.  The walk stops at m_Tail (null / cycle: as clients/snap.cpp)
    void dump( std::ostream& out ) override
    {
        set_quiet( true );
        out << "SNAP list";
        unsigned n = 0;
        for ( auto* cur = l->m_Head.m_pNext.load( atomics::memory_order_acquire ).ptr(); cur && cur != &l->m_Tail && n < 100000; ++n ) {
            auto nx = cur->m_pNext.load( atomics::memory_order_acquire );
            out << ' ' << static_cast<Item*>( cur )->key << ' ' << ( nx.bits() ? 1 : 0 ) << " 1";
            cur = nx.ptr();
        }
        out << '\n';
        set_quiet( false );
    }
};

// Iterable: update replaces the data pointer
template <class GC, class L, class Item>
struct IntrListIter : IMap {
    std::unique_ptr<L> l;
    NodePool<Item> pool;
    bool useUpsert;
    explicit IntrListIter( bool ups ) : l( new L ), useUpsert( ups ) {}
    ~IntrListIter()
    {
        l.reset();
        GC::force_dispose();
    }
    bool insert( long k, long v ) override { return l->insert( *pool.make( k, v )); }
    std::pair<bool, bool> update( long k, long v, bool allow ) override
    {
        if ( useUpsert )
            return l->upsert( *pool.make( k, v ), allow );
        return l->update( *pool.make( k, v ), []( Item&, Item* ) {}, allow );
    }
    bool erase( long k, long& v ) override { return l->erase( k, [&v]( Item const& item ) { v = item.val; } ); }
    bool extract( long k, long& v ) override
    {
        auto p = l->extract( k );
        if ( !p ) return false;
        v = p->val;
        return true;
    }
    bool find( long k, long& v ) override { return l->find( k, [&v]( Item& item, long ) { v = item.val; } ); }
    bool contains( long k ) override { return l->contains( k ); }
};

template <class GC> struct mitem : ci::michael_list::node<GC> { long key; long val; };
template <class GC> struct litem : ci::lazy_list::node<GC, cds::sync::spin> { long key; long val; };
struct iitem { long key; long val; };

template <class GC> struct imtraits : ci::michael_list::traits {
    typedef ci::michael_list::base_hook< cds::opt::gc<GC> > hook;
    typedef key_less less;
    typedef noop_disposer disposer;
};
template <class GC> struct iltraits : ci::lazy_list::traits {
    typedef ci::lazy_list::base_hook< cds::opt::gc<GC>, cds::opt::lock_type< cds::sync::spin > > hook;
    typedef key_cmp compare;
    typedef noop_disposer disposer;
};


// IterableList::insert_at / update_at retry without any back-off while another thread holds its
// temporary marks on the two neighbour data pointers (link_data), i.e. the marks act as a lock:
// the retry events of the statistics policy are spin hints (see cmp_tick above).
struct hint_stat : ci::iterable_list::empty_stat {
    void onInsertRetry() const { retry_tick(); }
    void onUpdateRetry() const { retry_tick(); }
};
struct citer_base : cc::iterable_list::traits { typedef hint_stat stat; };
struct iitraits : ci::iterable_list::traits {
    typedef key_less less;
    typedef noop_disposer disposer;
    typedef cds::atomicity::item_counter item_counter;
    typedef hint_stat stat;
};

// ---------------------------------------------------------------- fixture

template <class GC, int Pred, bool Cnt> using CMichael = cc::MichaelList<GC, kv, mk_traits<cc::michael_list::traits, Pred, Cnt>>;
template <class GC, int Pred, bool Cnt> using CLazy = cc::LazyList<GC, kv, mk_traits<cc::lazy_list::traits, Pred, Cnt>>;
template <class GC, int Pred, bool Cnt> using CIter = cc::IterableList<GC, kv, mk_traits<citer_base, Pred, Cnt>>;

template <class GC, int Pred, bool Cnt> using CMichaelKV = cc::MichaelKVList<GC, long, long, mk_kvtraits<cc::michael_list::traits, Pred, Cnt>>;
template <class GC, int Pred, bool Cnt> using CLazyKV = cc::LazyKVList<GC, long, long, mk_kvtraits<cc::lazy_list::traits, Pred, Cnt>>;
template <class GC, int Pred, bool Cnt> using CIterKV = cc::IterableKVList<GC, long, long, mk_kvtraits<citer_base, Pred, Cnt>>;

struct Fixture {
    static char const* family() { return "list"; }
    static std::vector<std::string> variants()
    {
        return {
            "michael_hp", "michael_dhp", "lazy_hp", "lazy_dhp", "iterable_hp", "iterable_dhp",
            "michael_hp_cmp", "lazy_hp_cmp", "iterable_hp_cmp",
            "michael_hp_cnt", "lazy_hp_cnt", "iterable_hp_cnt",
            "michael_kv_hp", "lazy_kv_hp", "iterable_kv_hp", "michael_kv_hp_cmp", "lazy_kv_hp_cnt",
            "michael_gpi", "michael_gpb", "lazy_gpi", "lazy_gpb", "michael_kv_gpi", "lazy_kv_gpb",
            "imichael_hp", "ilazy_hp", "iiterable_hp", "imichael_dhp",
            "michael_nogc", "lazy_nogc", "michael_kv_nogc", "lazy_kv_nogc"
        };
    }
    std::unique_ptr<IMap> m;
    bool failed = false;
    std::string failure;
    std::function<void()> after;      // run after the container has been destroyed

    explicit Fixture( Case const& c )
    {
        typedef cds::gc::HP HP;
        typedef cds::gc::DHP DHP;
        typedef cds::gc::nogc NOGC;
        std::string const& v = c.variant;
        g_use_with = ( c.index % 4 ) == 3 && c.optl( "with", 1 ) != 0;
        g_hints = c.optl( "hints", 1 ) != 0;
        bool odd = ( c.index % 2 ) != 0;
        if ( v == "michael_hp" ) m.reset( new SetListML<CMichael<HP, 0, false>> );
        else if ( v == "michael_dhp" ) m.reset( new SetListML<CMichael<DHP, 0, false>> );
        else if ( v == "lazy_hp" ) m.reset( new SetListML<CLazy<HP, 0, false>> );
        else if ( v == "lazy_dhp" ) m.reset( new SetListML<CLazy<DHP, 0, false>> );
        else if ( v == "iterable_hp" ) m.reset( new SetListIter<CIter<HP, 0, false>>( odd ));
        else if ( v == "iterable_dhp" ) m.reset( new SetListIter<CIter<DHP, 0, false>>( odd ));
        else if ( v == "michael_hp_cmp" ) m.reset( new SetListML<CMichael<HP, 1, false>> );
        else if ( v == "lazy_hp_cmp" ) m.reset( new SetListML<CLazy<HP, 1, false>> );
        else if ( v == "iterable_hp_cmp" ) m.reset( new SetListIter<CIter<HP, 1, false>>( odd ));
        else if ( v == "michael_hp_cnt" ) m.reset( new SetListML<CMichael<HP, 0, true>> );
        else if ( v == "lazy_hp_cnt" ) m.reset( new SetListML<CLazy<HP, 0, true>> );
        else if ( v == "iterable_hp_cnt" ) m.reset( new SetListIter<CIter<HP, 0, true>>( odd ));
        else if ( v == "michael_kv_hp" ) m.reset( new KVListML<CMichaelKV<HP, 0, false>> );
        else if ( v == "lazy_kv_hp" ) m.reset( new KVListML<CLazyKV<HP, 0, false>> );
        else if ( v == "iterable_kv_hp" ) m.reset( new KVListIter<CIterKV<HP, 0, false>>( true ));     // upsert( key, val )
        // Hazard variants, not chosen at random (use --variant): the map forms' update( key, functor ) links a
        // node with a default-constructed mapped value and calls the functor afterwards, so another thread can
        // observe payload 0 when an atomic operation lies in between (item counter of MichaelKVList; restoring
        // the marks in IterableList::link_data).  Documented by libcds as "insert item troubleshooting".
        else if ( v == "iterable_kv_hp_updfn" ) m.reset( new KVListIter<CIterKV<HP, 0, false>>( false ));
        else if ( v == "michael_kv_hp_cmp" ) m.reset( new KVListML<CMichaelKV<HP, 1, false>> );
        else if ( v == "michael_kv_hp_cnt" ) m.reset( new KVListML<CMichaelKV<HP, 0, true>> );
        else if ( v == "lazy_kv_hp_cnt" ) m.reset( new KVListML<CLazyKV<HP, 0, true>> );
        else if ( v == "michael_gpi" ) { m.reset( new SetListML<CMichael<rcu_gpi, 0, false>> ); after = [] { rcu_gpi::force_dispose(); }; }
        else if ( v == "michael_gpb" ) { m.reset( new SetListML<CMichael<rcu_gpb, 0, true>> ); after = [] { rcu_gpb::force_dispose(); }; }
        else if ( v == "lazy_gpi" ) { m.reset( new SetListML<CLazy<rcu_gpi, 1, false>> ); after = [] { rcu_gpi::force_dispose(); }; m->lockfn = [] { rcu_gpi::access_lock(); }; m->unlockfn = [] { rcu_gpi::access_unlock(); }; }
        else if ( v == "lazy_gpb" ) { m.reset( new SetListML<CLazy<rcu_gpb, 0, false>> ); after = [] { rcu_gpb::force_dispose(); }; m->lockfn = [] { rcu_gpb::access_lock(); }; m->unlockfn = [] { rcu_gpb::access_unlock(); }; }
        else if ( v == "michael_kv_gpi" ) { m.reset( new KVListML<CMichaelKV<rcu_gpi, 0, false>> ); after = [] { rcu_gpi::force_dispose(); }; }
        else if ( v == "lazy_kv_gpb" ) { m.reset( new KVListML<CLazyKV<rcu_gpb, 0, false>> ); after = [] { rcu_gpb::force_dispose(); }; m->lockfn = [] { rcu_gpb::access_lock(); }; m->unlockfn = [] { rcu_gpb::access_unlock(); }; }
        else if ( v == "imichael_hp" ) m.reset( new IntrListML<HP, ci::MichaelList<HP, mitem<HP>, imtraits<HP>>, mitem<HP>> );
        // tie A variant, not chosen at random (use --variant): see IntrListNamed
        else if ( v == "imichael_hp_named" ) m.reset( new IntrListNamed<HP, ci::MichaelList<HP, mitem<HP>, imtraits<HP>>, mitem<HP>> );
        else if ( v == "imichael_dhp" ) m.reset( new IntrListML<DHP, ci::MichaelList<DHP, mitem<DHP>, imtraits<DHP>>, mitem<DHP>> );
        else if ( v == "ilazy_hp" ) m.reset( new IntrListML<HP, ci::LazyList<HP, litem<HP>, iltraits<HP>>, litem<HP>> );
        // tie A variant, not chosen at random (use --variant): see IntrLazyNamed
        else if ( v == "ilazy_hp_named" ) m.reset( new IntrLazyNamed<HP, ci::LazyList<HP, litem<HP>, iltraits<HP>>, litem<HP>> );
        else if ( v == "iiterable_hp" ) m.reset( new IntrListIter<HP, ci::IterableList<HP, iitem, iitraits>, iitem>( odd ));
        else if ( v == "michael_nogc" ) m.reset( new SetListNogc<CMichael<NOGC, 0, false>> );
        else if ( v == "lazy_nogc" ) m.reset( new SetListNogc<CLazy<NOGC, 1, false>> );
        else if ( v == "michael_kv_nogc" ) m.reset( new KVListNogc<CMichaelKV<NOGC, 0, false>> );
        else if ( v == "lazy_kv_nogc" ) m.reset( new KVListNogc<CLazyKV<NOGC, 0, false>> );
        else { std::fprintf( stderr, "unknown variant %s\n", v.c_str()); std::exit( 2 ); }
    }
    ~Fixture()
    {
        m.reset();
        if ( after ) after();
    }
    std::string spec() const { return "map"; }
    std::vector<std::vector<Op>> program( Rng& r, int nthreads, int nops ) { return map_program( r, nthreads, nops, *m, GenCfg()); }
    void thread_begin( int ) { set_quiet( true ); cds::threading::Manager::attachThread(); set_quiet( false ); }
    void thread_end( int ) { set_quiet( true ); cds::threading::Manager::detachThread(); set_quiet( false ); }
    std::vector<long> exec( int, Op const& op ) { return map_exec( *m, op ); }
    void finish( std::ostream& out ) { m->dump( out ); }
};

int main( int argc, char** argv )
{
    cds::Initialize();
    {
        cds::gc::HP hp( 16, 16 );
        cds::gc::DHP dhp;
        rcu_gpi gpi;
        Args a = parse_args( argc, argv );
        auto it = a.opt.find( "rcubuf" );
        rcu_gpb gpb( it == a.opt.end() ? 4 : size_t( std::atol( it->second.c_str())));
        cds::threading::Manager::attachThread();
        int rc = client_main<Fixture>( argc, argv );
        cds::threading::Manager::detachThread();
        (void) rc;
    }
    cds::Terminate();
    return 0;
}

/-
  Pure model of the reclamation decision of `basic_smr::classic_scan` / `inplace_scan` (src/hp.cpp):
  given the hazard pointers collected from all owned thread records and the caller's retired
  array, which entries are kept and which are handed to the disposer.
  `std::sort`, `std::binary_search`, `std::lower_bound` are modelled by their contracts
  (membership in the collected list / in the sorted retired array).
  Pointers are natural numbers (real addresses: parity matters, `inplace_scan` uses the low bit of
  the retired entry as its mark and falls back to `classic_scan` when an address is odd).
  Tied to the real functions by differential runs (harness/pure/hpscan.cpp).
-/
namespace CdsVerif.Algo.HP

abbrev Ptr := Nat

/-- insertion sort: the order `std::sort( first, last, retired_ptr::less )` produces on distinct pointers -/
def insertSorted (x : Ptr) : List Ptr → List Ptr
  | [] => [x]
  | y :: ys => if x ≤ y then x :: y :: ys else y :: insertSorted x ys

def sortPtrs : List Ptr → List Ptr
  | [] => []
  | x :: xs => insertSorted x (sortPtrs xs)

/-- `classic_scan`: collect the non-null hazards, then for every retired entry `it`
    `binary_search( plist, it->m_p )` decides: found ⇒ keep (compacting to the front), else free. -/
def classicScan (hazards : List Ptr) (retired : List Ptr) : List Ptr × List Ptr :=
  let plist := hazards.filter (· ≠ 0)
  (retired.filter (fun p => plist.contains p), retired.filter (fun p => !plist.contains p))

/-- `inplace_scan`: any odd retired pointer ⇒ `classic_scan`; otherwise sort the retired array, mark the
    entries that some hazard equals (`lower_bound` + equality), keep the marked ones in sorted order,
    free the others. -/
def inplaceScan (hazards : List Ptr) (retired : List Ptr) : List Ptr × List Ptr :=
  if retired.any (fun p => p % 2 = 1) then classicScan hazards retired
  else
    let sorted := sortPtrs retired
    let hz := hazards.filter (· ≠ 0)
    (sorted.filter (fun p => hz.contains p), sorted.filter (fun p => !hz.contains p))

end CdsVerif.Algo.HP

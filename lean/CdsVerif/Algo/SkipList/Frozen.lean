/-
  Facts about single steps of the skip-list machine that hold in EVERY state (no invariant needed), by case analysis
  of `step`: every CAS on a tower word expects an unmarked word, so a marked word is never changed by a CAS; the only
  other writes are the two plain stores of `insert_at_position` into the inserter's own node before it is linked.
-/
import CdsVerif.Algo.SkipList.Model
namespace CdsVerif.Algo.SkipList
open CdsVerif.Machine CdsVerif.Spec

/-- Marked-frozen, per level: a step leaves a marked tower word `( a, l )` alone — mark and pointer — unless it is one
    of the plain stores of `insert_at_position` (`iClr`: upper level, `iSt0`: level 0) by the thread that is inserting
    node `a` and has not linked it yet. -/
theorem marked_frozen_step {c : Cfg} {s s' : St} {t : Tid} {ev : Ev} (h : step c s t = some (s', ev)) (a l : Nat)
    (hm : s.mark a l = true) :
    (s'.mark a l = true ∧ s'.next a l = s.next a l) ∨
    (∃ pp ps, s.pc t = .iClr a l pp ps) ∨ (l = 0 ∧ ∃ pp ps, s.pc t = .iSt0 a pp ps) := by
  cases hpc : s.pc t <;> simp only [step, hpc] at h <;> (try split at h) <;>
    simp only [Option.some.injEq, Prod.mk.injEq, reduceCtorEq] at h <;> (try (obtain ⟨rfl, -⟩ := h)) <;>
    (try dsimp only) <;> grind [upd2']

/-- Erase once, step level: the mark of level 0 of a node is set only by the marking CAS of `try_remove_at` of a
    thread erasing that node (which then is committed to answer `[1, val]`), or — unreachable by construction, the
    upper-level marking loop runs over levels >= 1 only — by `eMk … 0`. -/
theorem mark0_set_step {c : Cfg} {s s' : St} {t : Tid} {ev : Ev} (h : step c s t = some (s', ev)) (a : Nat)
    (h0 : s.mark a 0 = false) (h1 : s'.mark a 0 = true) :
    (∃ k p pp ps, s.pc t = .e0Mk k a p pp ps ∧ s'.pc t = .eH1 k a (s.ht a - 1) pp ps) ∨
    (∃ k sx pp ps, s.pc t = .eMk k a 0 sx pp ps) := by
  cases hpc : s.pc t <;> simp only [step, hpc] at h <;> (try split at h) <;>
    simp only [Option.some.injEq, Prod.mk.injEq, reduceCtorEq] at h <;> (try (obtain ⟨rfl, -⟩ := h)) <;>
    (try dsimp only at *) <;> grind [upd2', upd]

/-- The pcs of `find_fastpath`. -/
def PC.isFast : PC → Bool
  | .qHgt .. => true
  | .qLd1 .. => true
  | .qLd2 .. => true
  | .qChk .. => true
  | _ => false

/-- The repaired fast path (`Cfg.markTest`), step level: a step of `find_fastpath` that ends the operation with an
    answer other than "not found" is the step `qChk` — the load of `pCur->next(0)` — and it read an UNMARKED word: at
    that instant the node with the key is not logically deleted.  (With `markTest = false` the step `qLd2` answers
    "found" without that load: `C15_skiplist_not_linearizable_without_mark_test`.) -/
theorem fastpath_found_step {c : Cfg} (hc : c.markTest = true) {s s' : St} {t : Tid} {ev : Ev}
    (h : step c s t = some (s', ev)) (hf : (s.pc t).isFast = true) {r : GRet} (hd : s'.pc t = .done r) (hr : r ≠ [0]) :
    ∃ o cur, s.pc t = .qChk o cur ∧ s.mark cur 0 = false ∧ .done r = ffound s.val o cur := by
  cases hpc : s.pc t with
  | qHgt o att => simp only [step, hpc, Option.some.injEq, Prod.mk.injEq] at h; obtain ⟨rfl, -⟩ := h; simp [upd] at hd
  | qLd1 o lvl pred att =>
    simp only [step, hpc, Option.some.injEq, Prod.mk.injEq] at h; obtain ⟨rfl, -⟩ := h; simp [upd] at hd
  | qLd2 o lvl pred att x m =>
    simp only [step, hpc] at h
    split at h <;> simp only [Option.some.injEq, Prod.mk.injEq] at h <;> obtain ⟨rfl, -⟩ := h
    · simp only [upd, if_true, afterQ, qDown, hc] at hd
      cases o <;> cases x <;> (repeat' split at hd) <;> grind [fslow, retry]
    · simp [upd] at hd
  | qChk o cur =>
    simp only [step, hpc, Option.some.injEq, Prod.mk.injEq] at h; obtain ⟨rfl, -⟩ := h
    simp only [upd, if_true] at hd
    refine ⟨o, cur, rfl, ?_⟩
    cases hm : s.mark cur 0
    · simp only [hm] at hd; exact ⟨rfl, by simpa using hd.symm⟩
    · simp only [hm, if_true] at hd; cases o <;> simp [fslow, retry] at hd
  | _ => simp [hpc, PC.isFast] at hf

end CdsVerif.Algo.SkipList

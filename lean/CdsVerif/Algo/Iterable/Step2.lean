/-
  Preservation of `SInv`, part 2: steps that move elements into and out of nodes, and steps that build and link a
  new node.
-/
import CdsVerif.Algo.Iterable.Step
namespace CdsVerif.Algo.Iterable
open CdsVerif.Machine CdsVerif.Spec

/-! ### Elements entering and leaving nodes -/

/-- A pending element is stored into an empty node. -/
theorem elemP_store {data : Nat → DW} {home : Nat → Option Nat} {retired : Nat → Option Tid} {used disposed : Nat → Bool}
    {ncnt : Nat} (h : ElemP data home retired used disposed ncnt) (a e : Nat) (m : Bool)
    (_hemp : (data a).p = none) (hno : ∀ b, (data b).p ≠ some e) (hu : used e = true)
    (hr : retired e = none) (ha : 3 ≤ a ∧ a < ncnt) :
    ElemP (upd data a ⟨some e, m⟩) (upd home e (some a)) retired used disposed ncnt := by
  obtain ⟨e1, e2, e3, e4, e5, e6, e7⟩ := h
  constructor
  · intro b x hb; grind [upd]
  · intro b x hb; grind [upd]
  · grind [upd]
  · grind [upd]
  · intro x b hb; grind [upd]
  · exact e6
  · exact e7

/-- An element is removed from its node (and retired). -/
theorem elemP_remove {data : Nat → DW} {home : Nat → Option Nat} {retired : Nat → Option Tid} {used disposed : Nat → Bool}
    {ncnt : Nat} (h : ElemP data home retired used disposed ncnt) (a e : Nat) (t : Tid)
    (hin : (data a).p = some e) :
    ElemP (upd data a ⟨none, false⟩) home (upd retired e (some t)) used disposed ncnt := by
  obtain ⟨e1, e2, e3, e4, e5, e6, e7⟩ := h
  constructor
  · intro b x hb; grind [upd]
  · intro b x hb; grind [upd]
  · grind [upd]
  · grind [upd]
  · exact e5
  · intro x hx; grind [upd]
  · intro x hx; grind [upd]

/-- An element is replaced by a pending element (and retired). -/
theorem elemP_replace {data : Nat → DW} {home : Nat → Option Nat} {retired : Nat → Option Tid} {used disposed : Nat → Bool}
    {ncnt : Nat} (h : ElemP data home retired used disposed ncnt) (a e e2 : Nat) (t : Tid)
    (hin : (data a).p = some e) (hno : ∀ b, (data b).p ≠ some e2) (hu : used e2 = true)
    (hr : retired e2 = none) :
    ElemP (upd data a ⟨some e2, false⟩) (upd home e2 (some a)) (upd retired e (some t)) used disposed ncnt := by
  obtain ⟨e1, e2', e3, e4, e5, e6, e7⟩ := h
  have hne : e2 ≠ e := by intro hc; subst hc; exact hno a hin
  have ha := e5 e a (e1 a e hin)
  constructor
  · intro b x hb; grind [upd]
  · intro b x hb; grind [upd]
  · grind [upd]
  · grind [upd]
  · intro x b hb; grind [upd]
  · intro x hx; grind [upd]
  · intro x hx; grind [upd]

/-- The pending element of a thread has no home yet, unless the thread has a node under construction. -/
theorem SInv.pend_homeless {s : St} (h : SInv s) {t : Tid} {e : Nat} (hp : pend (s.pc t) = some e)
    (hn : priv (s.pc t) = none) : s.home e = none := by
  cases hh : s.home e with
  | none => rfl
  | some a => have h2 := (h.thr t).phome e a hp hh; rw [hn] at h2; cases h2

/-- The pending element of a thread is in no node, except the thread's node under construction. -/
theorem SInv.pend_absent {s : St} (h : SInv s) {t : Tid} {e : Nat} (hp : pend (s.pc t) = some e)
    (hn : priv (s.pc t) = none) : ∀ b, (s.data b).p ≠ some e := by
  intro b hb
  have h1 := h.elem.ehome b e hb
  have h2 := (h.thr t).phome e b hp h1
  rw [hn] at h2; cases h2

theorem lReuse_enabled {s : St} {t : Tid} {j : Job} {p : Pos} (h : SInv s) (hpc : s.pc t = .lReuse j p) :
    s.data p.prev = ⟨none, true⟩ := by
  unpack h hpc t
  projs
  rw [a8.2, (a6 j p rfl).2]

theorem step_lReuse {s : St} {t : Tid} {j : Job} {p : Pos} (h : SInv s) (hpc : s.pc t = .lReuse j p) :
    SInv { s with data := upd s.data p.prev ⟨some j.e, false⟩, mo := upd s.mo p.prev none,
                  home := upd s.home j.e (some p.prev), pc := upd s.pc t (.lRelCur j p true) } := by
  have hd := lReuse_enabled h hpc
  have hab := h.pend_absent (t := t) (e := j.e) (by rw [hpc]; rfl) (by rw [hpc]; rfl)
  have hhn := h.pend_homeless (t := t) (e := j.e) (by rw [hpc]; rfl) (by rw [hpc]; rfl)
  unpack h hpc t
  have hlk : s.lk p.prev = true := by projs; exact a4.1
  have hmo : s.mo p.prev = some t := by projs; exact a8.1
  have hcnt := o5 _ hlk
  have hne : p.prev ≠ 1 ∧ p.prev ≠ 2 ∧ p.prev ≠ 0 := by projs; grind
  apply sinv_build_keep h (t := t) (Y := .lRelCur j p true)
  · rfl
  · exact h.ord
  · exact freshP_data h.fresh _ _ _ hcnt
  · exact elemP_store h.elem _ _ _ (by rw [hd]) hab (by projs; exact a13.1) (by projs; exact a13.2) (by omega)
  · exact bit_upd h.bit _ _ _ (by simp)
  · intro a ha; dsimp only at ha; have := hown a; projs; grind [upd]
  · intro a t0 h0 ha; dsimp only at ha; grind [upd]
  · constructor <;> intros <;> projs <;> (try dsimp only) <;> (try grind [upd])
  · intro t0 h0
    have hq := h.thr t0
    have b7 := hq.mcur
    have b8 := hq.mprev
    have b9 := hq.pcnt
    have hu := h.upend t0 t
    rw [hpc] at hu
    apply hq.frame <;> first | rfl | exact Nat.le_refl _ | (intros; rfl) | (intros; assumption) | skip
    · intro q hp; have := b7 q hp; dsimp only; constructor <;> grind [upd]
    · intro q hp; have := b8 q hp; dsimp only; constructor <;> grind [upd]
    · intro n hn; have := b9 n hn; dsimp only; constructor <;> grind [upd]
    · intro e he
      have hne : e ≠ j.e := fun hc => h0 (hu e he (by rw [hc]; rfl))
      exact ⟨rfl, rfl, upd_other _ _ _ _ hne⟩
    · intro e a he; dsimp only
      have hne : e ≠ j.e := fun hc => by rw [hc, hhn] at he; cases he
      rw [upd_other _ _ _ _ hne]; exact he
  · keep hpc
  · keep hpc

end CdsVerif.Algo.Iterable

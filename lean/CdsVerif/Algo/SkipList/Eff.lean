/-
  Linearization-point bookkeeping on program counters, the effect of a step on the abstract map (`StepEff`), and the
  memory updates of the machine (`GOk` and `MemLe` for each kind of write).

  Linearization points.
    * successful `insert`: the level-0 CAS of `insert_at_position`; successful `erase`: the level-0 marking CAS of
      `try_remove_at`;
    * key found by `find_position` with `bStopIfFound` (failed `insert`, `find`, `contains` on the slow path): the load
      `pCur->next(lvl)` that reads an UNMARKED word of an item with the key (on any level: an item unmarked on an upper
      level is unmarked on level 0, and it is published, so it is linked) — tentative until the validation of
      `pPred->next(lvl)`, withdrawn if that fails;
    * key found by `find_fastpath`: the load of `pCur->next(0)` that reads an unmarked word (the repair);
    * key absent: the validated level-0 load of `pPred->next(0)` that reads null or an item with a larger key
      (`pPred` is unmarked, hence linked);
    * `erase` that loses the race for the level-0 mark ("erase contention", answers false): the instant right after
      the marking CAS of the WINNER — a helped linearization point: from then on the loser's answer is fixed.  (If the
      item is already marked when the loser's traversal validates it, the validation is the point.)
-/
import CdsVerif.Algo.SkipList.Inv
namespace CdsVerif.Algo.SkipList
open CdsVerif.Machine CdsVerif.Spec CdsVerif.Lin
open CdsVerif.Algo.Michael (Chain Lt LPok isRO insAfter Has)

def wop (key val : Nat → Int) : Why → Option GOp
  | .insS n => some ⟨"insert", [key n, val n]⟩
  | .eraS k => some ⟨"erase", [k]⟩
  | .fndS k => some ⟨"find", [k]⟩
  | .conS k => some ⟨"contains", [k]⟩
  | .insFix _ => none
  | .eraFix _ _ => none
  | .renew _ _ _ => none

def wpost : Why → Option GRet
  | .insS _ => none
  | .eraS _ => none
  | .fndS _ => none
  | .conS _ => none
  | .insFix _ => some [1]
  | .eraFix _ v => some [1, v]
  | .renew _ _ _ => some [1]

/-- The answer of a traversal that stops at an item with the key. -/
def wfound (val : Nat → Int) : Why → Nat → Option GRet
  | .insS _, _ => some [0]
  | .eraS _, _ => none
  | .fndS _, c => some [1, val c]
  | .conS _, _ => some [1]
  | .insFix _, _ => none
  | .eraFix _ _, _ => none
  | .renew _ _ _, _ => none

def fop : Fop → GOp
  | .fnd k => ⟨"find", [k]⟩
  | .con k => ⟨"contains", [k]⟩

/-- The operation in progress, before its (definitive) linearization point. -/
def opOf (key val : Nat → Int) : PC → Option GOp
  | .idle => none
  | .fLd1 w _ _ _ _ _ => wop key val w
  | .fLd2 w _ _ _ _ _ _ _ => wop key val w
  | .fSucc w _ _ _ _ _ _ => wop key val w
  | .fChk w _ _ _ _ _ _ _ _ => wop key val w
  | .hUnl w _ _ _ _ _ => wop key val w
  | .hLd1 w _ _ _ _ _ => wop key val w
  | .hLd2 w _ _ _ _ _ _ _ => wop key val w
  | .hCas w _ _ _ _ _ _ => wop key val w
  | .hSub w _ _ _ => wop key val w
  | .iClr n _ _ _ => some ⟨"insert", [key n, val n]⟩
  | .iSt0 n _ _ => some ⟨"insert", [key n, val n]⟩
  | .iCas0 n _ _ => some ⟨"insert", [key n, val n]⟩
  | .iUpA _ _ _ _ _ => none
  | .iUpB _ _ _ _ => none
  | .iSubFix _ _ _ _ => none
  | .gHgt _ => none
  | .gCas _ _ => none
  | .eLd k _ _ _ _ => some ⟨"erase", [k]⟩
  | .eMk k _ _ _ _ _ => some ⟨"erase", [k]⟩
  | .e0Ld k _ _ _ => some ⟨"erase", [k]⟩
  | .e0Mk k _ _ _ _ => some ⟨"erase", [k]⟩
  | .eH1 _ _ _ _ _ => none
  | .eH2 _ _ _ _ _ _ => none
  | .eHSub _ _ _ _ _ => none
  | .qHgt o _ => some (fop o)
  | .qLd1 o _ _ _ => some (fop o)
  | .qLd2 o _ _ _ _ _ => some (fop o)
  | .qChk o _ => some (fop o)
  | .done _ => none

/-- The result of an operation that has passed its definitive linearization point. -/
def postRet (val : Nat → Int) : PC → Option GRet
  | .idle => none
  | .fLd1 w _ _ _ _ _ => wpost w
  | .fLd2 w _ _ _ _ _ _ _ => wpost w
  | .fSucc w _ _ _ _ _ _ => wpost w
  | .fChk w _ _ _ _ _ _ _ _ => wpost w
  | .hUnl w _ _ _ _ _ => wpost w
  | .hLd1 w _ _ _ _ _ => wpost w
  | .hLd2 w _ _ _ _ _ _ _ => wpost w
  | .hCas w _ _ _ _ _ _ => wpost w
  | .hSub w _ _ _ => wpost w
  | .iClr _ _ _ _ => none
  | .iSt0 _ _ _ => none
  | .iCas0 _ _ _ => none
  | .iUpA _ _ _ _ _ => some [1]
  | .iUpB _ _ _ _ => some [1]
  | .iSubFix _ _ _ _ => some [1]
  | .gHgt _ => some [1]
  | .gCas _ _ => some [1]
  | .eLd _ _ _ _ _ => none
  | .eMk _ _ _ _ _ _ => none
  | .e0Ld _ _ _ _ => none
  | .e0Mk _ _ _ _ _ => none
  | .eH1 _ d _ _ _ => some [1, val d]
  | .eH2 _ d _ _ _ _ => some [1, val d]
  | .eHSub _ d _ _ _ => some [1, val d]
  | .qHgt _ _ => none
  | .qLd1 _ _ _ _ => none
  | .qLd2 _ _ _ _ _ _ => none
  | .qChk _ _ => none
  | .done r => some r

/-- The result fixed so far: definitive (`postRet`), tentative (a traversal that has read an unmarked item with the
    key and has not validated yet), or fixed by another thread (an erase whose victim has been marked by a
    competitor: it will answer false). -/
def lpRet (mk : Nat → Bool) (key val : Nat → Int) : PC → Option GRet
  | .idle => none
  | .fLd1 w _ _ _ _ _ => wpost w
  | .fLd2 w _ _ _ _ _ _ _ => wpost w
  | .fSucc w _ _ _ _ _ _ => wpost w
  | .fChk w _ _ cur _ sm _ _ _ => if sm = false ∧ key cur = wkey key w ∧ wstop w = true then wfound val w cur else wpost w
  | .hUnl w _ _ _ _ _ => wpost w
  | .hLd1 w _ _ _ _ _ => wpost w
  | .hLd2 w _ _ _ _ _ _ _ => wpost w
  | .hCas w _ _ _ _ _ _ => wpost w
  | .hSub w _ _ _ => wpost w
  | .iClr _ _ _ _ => none
  | .iSt0 _ _ _ => none
  | .iCas0 _ _ _ => none
  | .iUpA _ _ _ _ _ => some [1]
  | .iUpB _ _ _ _ => some [1]
  | .iSubFix _ _ _ _ => some [1]
  | .gHgt _ => some [1]
  | .gCas _ _ => some [1]
  | .eLd _ d _ _ _ => if mk d = true then some [0] else none
  | .eMk _ d _ _ _ _ => if mk d = true then some [0] else none
  | .e0Ld _ d _ _ => if mk d = true then some [0] else none
  | .e0Mk _ d _ _ _ => if mk d = true then some [0] else none
  | .eH1 _ d _ _ _ => some [1, val d]
  | .eH2 _ d _ _ _ _ => some [1, val d]
  | .eHSub _ d _ _ _ => some [1, val d]
  | .qHgt _ _ => none
  | .qLd1 _ _ _ _ => none
  | .qLd2 _ _ _ _ _ _ => none
  | .qChk _ _ => none
  | .done r => some r

theorem wop_none_of_wpost {key val : Nat → Int} {w : Why} {r : GRet} (h : wpost w = some r) : wop key val w = none := by
  cases w <;> simp_all [wpost, wop]

theorem opOf_none_of_post {key val : Nat → Int} {pc : PC} {r : GRet} (h : postRet val pc = some r) :
    opOf key val pc = none := by
  cases pc <;> simp only [postRet, opOf, reduceCtorEq] at h ⊢ <;> first | rfl | exact wop_none_of_wpost h

theorem lpRet_of_post {mk : Nat → Bool} {key val : Nat → Int} {pc : PC} {r : GRet} (h : postRet val pc = some r) :
    lpRet mk key val pc = some r := by
  cases pc <;> simp only [postRet, lpRet, reduceCtorEq] at h ⊢ <;> first | exact h | skip
  case fChk w _ _ cur _ sm _ _ _ =>
    split
    next hc => cases w <;> simp_all [wpost, wstop]
    next => exact h

theorem postRet_none_of_lp {mk : Nat → Bool} {key val : Nat → Int} {pc : PC} (h : lpRet mk key val pc = none) :
    postRet val pc = none := by
  cases hp : postRet val pc with
  | none => rfl
  | some r => rw [lpRet_of_post hp] at h; simp at h

/-- A result that is fixed but not definitive belongs to a read-only operation. -/
theorem ro_of_tentative {mk : Nat → Bool} {key val : Nat → Int} {pc : PC} {r : GRet} (h : lpRet mk key val pc = some r)
    (hp : postRet val pc = none) : ∃ op, opOf key val pc = some op ∧ isRO op r = true := by
  cases pc <;> simp only [postRet, lpRet, opOf, reduceCtorEq] at h hp ⊢ <;> (try (rw [hp] at h; simp at h; done)) <;>
    (try (simp at h; done))
  case fChk w _ _ cur _ sm _ _ _ =>
    split at h
    next hc => cases w <;> simp_all [wfound, wop, wstop, isRO]
    next => rw [hp] at h; simp at h
  all_goals (split at h <;> simp at h; subst h; simp [isRO])

/-! ### The effect of a step -/

structure StepEff (s : St) (t : Tid) (s' : St) (L L' : List Nat) : Prop where
  frame : ∀ t2, t2 ≠ t → s'.pc t2 = s.pc t2
  key : s'.key = s.key
  val : s'.val = s.val
  lp : lpRet (mk0 s.mark) s.key s.val (s.pc t) = none → ∀ r, lpRet (mk0 s'.mark) s'.key s'.val (s'.pc t) = some r →
        ∃ op, opOf s.key s.val (s.pc t) = some op ∧
          LPok (Has (mk0 s.mark) s.key s.val L) op r (Has (mk0 s'.mark) s'.key s'.val L')
  nolp : (lpRet (mk0 s.mark) s.key s.val (s.pc t) ≠ none ∨ lpRet (mk0 s'.mark) s'.key s'.val (s'.pc t) = none) →
        ∀ k v, Has (mk0 s'.mark) s'.key s'.val L' k v ↔ Has (mk0 s.mark) s.key s.val L k v
  keep : ∀ r, lpRet (mk0 s.mark) s.key s.val (s.pc t) = some r →
          lpRet (mk0 s'.mark) s'.key s'.val (s'.pc t) = some r ∨
          ((∃ op, opOf s.key s.val (s.pc t) = some op ∧ isRO op r = true) ∧
            lpRet (mk0 s'.mark) s'.key s'.val (s'.pc t) = none)
  pkeep : ∀ r, postRet s.val (s.pc t) = some r → postRet s'.val (s'.pc t) = some r
  op : postRet s'.val (s'.pc t) = none → opOf s'.key s'.val (s'.pc t) = opOf s.key s.val (s.pc t)
  busy : s.pc t ≠ .idle ∧ s'.pc t ≠ .idle
  /-- The level-0 marks change only at the linearization point of a successful erase; right after it the key of the
      victim is absent. -/
  marks : mk0 s'.mark = mk0 s.mark ∨
    ∃ d, mk0 s.mark d = false ∧ mk0 s'.mark = upd (mk0 s.mark) d true ∧
      lpRet (mk0 s.mark) s.key s.val (s.pc t) = none ∧ (lpRet (mk0 s'.mark) s'.key s'.val (s'.pc t)).isSome = true ∧
      ∀ w, ¬ Has (mk0 s'.mark) s'.key s'.val L' (s.key d) w

/-! ### Linearization-point lemmas -/

theorem lp_absent_w {H : Int → Int → Prop} {key val : Nat → Int} {w : Why} (hw : wop key val w ≠ none)
    (hins : ∀ n, w ≠ .insS n) (h0 : ∀ v, ¬ H (wkey key w) v) : ∃ op, wop key val w = some op ∧ LPok H op [0] H := by
  cases w <;> simp only [wop, wkey, ne_eq, not_true_eq_false, reduceCtorEq, not_false_eq_true] at hw h0 ⊢
  · exact absurd rfl (hins _)
  · exact ⟨_, rfl, LPok.ro_none h0 (fun _ _ => Iff.rfl) (Or.inl rfl)⟩
  · exact ⟨_, rfl, LPok.ro_none h0 (fun _ _ => Iff.rfl) (Or.inr (Or.inl rfl))⟩
  · exact ⟨_, rfl, LPok.ro_none h0 (fun _ _ => Iff.rfl) (Or.inr (Or.inr rfl))⟩

theorem lp_present_w {H : Int → Int → Prop} {key val : Nat → Int} {w : Why} {cur : Nat} {r : GRet}
    (hr : wfound val w cur = some r) (h0 : H (wkey key w) (val cur)) : ∃ op, wop key val w = some op ∧ LPok H op r H := by
  cases w <;> simp only [wfound, wop, wkey, reduceCtorEq, Option.some.injEq] at hr h0 ⊢ <;> subst hr
  · exact ⟨_, rfl, LPok.ro_some h0 (fun _ _ => Iff.rfl) (Or.inl ⟨_, rfl, rfl⟩)⟩
  · exact ⟨_, rfl, LPok.ro_some h0 (fun _ _ => Iff.rfl) (Or.inr (Or.inl ⟨rfl, rfl⟩))⟩
  · exact ⟨_, rfl, LPok.ro_some h0 (fun _ _ => Iff.rfl) (Or.inr (Or.inr ⟨rfl, rfl⟩))⟩

theorem lp_absent_f {H : Int → Int → Prop} {o : Fop} (h0 : ∀ v, ¬ H (fkey o) v) : LPok H (fop o) [0] H := by
  cases o <;> simp only [fkey, fop] at h0 ⊢
  · exact LPok.ro_none h0 (fun _ _ => Iff.rfl) (Or.inr (Or.inl rfl))
  · exact LPok.ro_none h0 (fun _ _ => Iff.rfl) (Or.inr (Or.inr rfl))

theorem lp_present_f {H : Int → Int → Prop} {val : Nat → Int} {o : Fop} {cur : Nat} {r : GRet}
    (hr : ffound val o cur = .done r) (h0 : H (fkey o) (val cur)) : LPok H (fop o) r H := by
  cases o <;> simp only [ffound, fkey, fop, PC.done.injEq] at hr h0 ⊢ <;> subst hr
  · exact LPok.ro_some h0 (fun _ _ => Iff.rfl) (Or.inr (Or.inl ⟨rfl, rfl⟩))
  · exact LPok.ro_some h0 (fun _ _ => Iff.rfl) (Or.inr (Or.inr ⟨rfl, rfl⟩))

theorem lp_absent_e {H : Int → Int → Prop} {k : Int} (h0 : ∀ v, ¬ H k v) : LPok H ⟨"erase", [k]⟩ [0] H :=
  LPok.ro_none h0 (fun _ _ => Iff.rfl) (Or.inl rfl)

/-- An unmarked published item is in the abstract map. -/
theorem GOk.has_of_unmarked {m : Mem} {L : List Nat} (h : GOk m L) {a : Nat} (ha : Pub m L a) (hm : m.mark a 0 = false) :
    Has (mk0 m.mark) m.key m.val L (m.key a) (m.val a) :=
  ⟨a, h.unm_mem (Or.inr ha.2) hm, ha.1, hm, rfl, rfl⟩

/-- Unmarked on a level it reaches: unmarked on level 0. -/
theorem GOk.unmarked0 {m : Mem} {L : List Nat} (h : GOk m L) {a l : Nat} (hl : l < m.ht a) (hm : m.mark a l = false) :
    m.mark a 0 = false := by
  cases e : m.mark a 0 with
  | false => rfl
  | true => rw [h.mmono a l e hl] at hm; simp at hm

end CdsVerif.Algo.SkipList

/-
  C14 — FeldmanHashSet (cds::intrusive::FeldmanHashSet<HP>: the multi-level array hash set of Feldman, LaBorde and
  Dechev; insert, update, erase with functor, find with functor, contains) is a linearizable set / map, for every
  hash whose bit string is cut into equally many slot indices for every key and is injective:
    * the structure is a tree of array nodes; every item sits on the path of its hash; a slot goes null ↔ data freely,
      data → converting → array-node pointer and never back; at most one item per key;
    * `expand_slot` publishes the new array node only after the displaced item has been copied into it, so expansion
      never hides an item: a traversal started at any time, from the head array or from any level reached so far, finds
      every item that is in the set;
    * every concurrent history of the atomic-step model `Algo/Feldman/Model.lean` is linearizable to `Spec.map` (full
      proof: every linearization point is definitive, no hindsight argument is needed — the unsuccessful operations are
      linearized at the last load of `protect`, which confirms the slot value the answer is computed from).
  Property theorems only; the model, the invariant and the proofs live in
  `Algo/Feldman/{Model,Lemmas,Inv,StepA,StepB,StepC,StepD,Reach,Refine,Log,Lin,Facts}.lean`.

  Hypotheses.  `PathHyp c`: all paths have `c.depth` components and different keys have different paths — for the real
  splitter this is `C28_path_injective_ns` and the length clause of `pathOfNS_fieldSum` (`Props/C28.lean`,
  `Algo/Splitter/Lemmas.lean`); nothing else about the hash is used (in particular not the widths of the array nodes).
  It is PROVED for the configurations the trace replay runs (`cfgH hb ab shift` with the slices covering the 64 bits:
  `C14_feldman_harness_hyp`, `C14_feldman_harness_hyp_all`; `C14_feldman_linearizable_harness` is the main theorem with
  no hash hypothesis left) and for `cfgDeep d`.
  `c.copyFirst = true`: the order of `expand_slot` in the library; with `false` (the seeded change
  /verif/seeded/C14-feldman-expand-order) the theorems are false: see the last section.
  Assumptions of the model (not proved here): garbage-collected heap (an item or array node is not reused while a thread
  may still hold a pointer to it: hazard pointers, C01/C02); sequentially consistent interleavings; strong CAS.
  Tie to the real code: traces of the harness client `hashset`, variant `ifset_hp_named`, are replayed step by step by
  `cdsdriver replay feldman` (atomic events, allocation order of the array nodes, results).
-/
import CdsVerif.Algo.Feldman.Facts
import CdsVerif.Algo.Feldman.HarnessCfg
namespace CdsVerif.Props.C14Feldman
open CdsVerif.Machine CdsVerif.Lin CdsVerif.Spec CdsVerif.Algo

/-! ### (2) Linearizability -/

/-- Linearizability, general form (Herlihy–Wing with completion of pending operations), for every hash satisfying
    `PathHyp`, every schedule, any number of threads, any client program of `insert k v` / `update k v allow` /
    `erase k` / `find k` / `contains k`, any keys.  The history of the completed operations of the run — extended by
    response records for pending operations that have passed their linearization point (at most one per thread;
    result fixed at the linearization point, response time "end of run"), all other pending operations being
    dropped — is linearizable to the sequential map: `insert → [1] | [0]`, `update → [1, 1] | [1, 0] | [0, 0]`,
    `erase → [1, v] | [0]`, `find → [1, v] | [0]`, `contains → [1] | [0]`. -/
theorem C14_feldman_linearizable (c : Feldman.Cfg) (hp : Feldman.PathHyp c) (hcf : c.copyFirst = true)
    (sched : List (Tid × Act)) (s : Feldman.St) (os : List (Tid × Obs))
    (h : (Feldman.model c).run Feldman.init sched = some (s, os)) :
    ∃ extra : List (OpRec GOp GRet),
      (∀ e ∈ extra, Feldman.pendingOf os e.tid = some (e.op, e.inv) ∧ e.res = os.length ∧
          Feldman.retOf (s.pc e.tid) = some e.ret) ∧
      extra.Pairwise (fun a b => a.tid ≠ b.tid) ∧
      Linearizable map (Feldman.historyOf os ++ extra) :=
  Feldman.feldman_linearizable hp hcf sched s os h

/-- Runs in which every invoked operation has returned: the history is linearizable as it is. -/
theorem C14_feldman_linearizable_complete_runs (c : Feldman.Cfg) (hp : Feldman.PathHyp c) (hcf : c.copyFirst = true)
    (sched : List (Tid × Act)) (s : Feldman.St) (os : List (Tid × Obs))
    (h : (Feldman.model c).run Feldman.init sched = some (s, os)) (hq : ∀ t, s.pc t = .idle) :
    Linearizable map (Feldman.historyOf os) :=
  Feldman.feldman_linearizable_complete_runs hp hcf sched s os h hq

/-- Runs at whose end no thread is between its linearization point and its return. -/
theorem C14_feldman_linearizable_no_effect_pending (c : Feldman.Cfg) (hp : Feldman.PathHyp c)
    (hcf : c.copyFirst = true) (sched : List (Tid × Act)) (s : Feldman.St) (os : List (Tid × Obs))
    (h : (Feldman.model c).run Feldman.init sched = some (s, os)) (hq : ∀ t, Feldman.retOf (s.pc t) = none) :
    Linearizable map (Feldman.historyOf os) :=
  Feldman.feldman_linearizable_no_effect_pending hp hcf sched s os h hq

/-- `historyOf` is faithful: a record's `inv` / `res` are the positions of its call and return observations. -/
theorem C14_feldman_history_sound (os : List (Tid × Obs)) (r : OpRec GOp GRet) (h : r ∈ Feldman.historyOf os) :
    os[r.inv]? = some (r.tid, .call r.op) ∧ os[r.res]? = some (r.tid, .ret r.ret) ∧ r.inv < r.res :=
  Feldman.historyOf_sound os r h

/-- Refinement.  In a reachable state, the step at which thread `t` fixes its result `r` (the successful CAS
    null → item of insert / update, item → null of erase, old item → item of update; for every other answer the last
    load of `protect`) is exactly the `Spec.map` transition of `t`'s operation with result `r` on the abstract map
    `look` (key ↦ payload found by a traversal from the head array); every other step — every step of `expand_slot`,
    every failed CAS, every load — leaves the abstract map unchanged. -/
theorem C14_feldman_lp_refines (c : Feldman.Cfg) (hp : Feldman.PathHyp c) (hcf : c.copyFirst = true)
    (s s' : Feldman.St) (t : Tid) (ev : Ev) (hreach : (Feldman.model c).Reachable Feldman.init s)
    (hs : Feldman.step c s t = some (s', ev)) :
    (∀ r, Feldman.retOf (s'.pc t) = some r →
      ∃ op, Feldman.opOf (s.pc t) = some op ∧
        ∀ m : MapSt, (∀ k, mfind m k = Feldman.look c s k) →
          ∃ m', map.next m op r = some m' ∧ ∀ k, mfind m' k = Feldman.look c s' k) ∧
    (Feldman.retOf (s'.pc t) = none → ∀ k, Feldman.look c s' k = Feldman.look c s k) :=
  Feldman.step_refines hp hcf (Feldman.reachable_sinv hp hcf s hreach) hs

/-! ### (1) Structure -/

/-- The structure is a tree.  In every reachable state: an array-node pointer sits in exactly the slot named by the
    node's `pParent` / `idxParent` (so an array node has at most one parent slot), the child was allocated after its
    parent (no cycles), its prefix is the parent's prefix extended by the slot index, and it is not deeper than the
    hash is long; an array node is published (it is the head array or its parent slot points to it) iff a walk from
    the head array reaches it, and that walk is its prefix. -/
theorem C14_feldman_tree (c : Feldman.Cfg) (hp : Feldman.PathHyp c) (hcf : c.copyFirst = true) (s : Feldman.St)
    (hreach : (Feldman.model c).Reachable Feldman.init s) :
    (∀ a i b, s.cell a i = .arr b → s.par b = a ∧ s.pidx b = i ∧ a < b ∧ b < s.acnt ∧ s.pre b = s.pre a ++ [i] ∧
      (s.pre b).length < c.depth) ∧
    (∀ a, Feldman.Pub s a → Feldman.walk s.cell 0 (s.pre a) = some a) ∧
    (∀ p a, Feldman.walk s.cell 0 p = some a → Feldman.Pub s a ∧ s.pre a = p) :=
  Feldman.reachable_tree hp hcf s hreach

/-- Every item sits on the path of its hash: an item in slot `i` of array node `a` (published or being prepared by
    `expand_slot`) has `prefix( a ) ++ [i]` as the beginning of its path; if `a` is published, the traversal from the
    head array along the item's hash stops exactly at that slot and finds the item. -/
theorem C14_feldman_on_path (c : Feldman.Cfg) (hp : Feldman.PathHyp c) (hcf : c.copyFirst = true) (s : Feldman.St)
    (hreach : (Feldman.model c).Reachable Feldman.init s) (a i : Nat) (n : Feldman.Node)
    (hc : s.cell a i = .data n ∨ s.cell a i = .conv n) :
    (c.path n.key).take ((s.pre a).length + 1) = s.pre a ++ [i] ∧
    (Feldman.Pub s a → Feldman.stop s.cell 0 (c.path n.key) = some (a, i) ∧ Feldman.look c s n.key = some n.val) :=
  Feldman.reachable_on_path hp hcf s hreach a i n hc

/-- The life of a slot under one step (`SlotStep old new`): unchanged; null → data; data → null, data → the same
    item converting, data → another item of the same key (update); converting → array-node pointer.  In particular a
    converting slot never goes back and an array-node pointer is never removed or changed. -/
theorem C14_feldman_slot_life (c : Feldman.Cfg) (hp : Feldman.PathHyp c) (hcf : c.copyFirst = true)
    (s s' : Feldman.St) (t : Tid) (ev : Ev) (hreach : (Feldman.model c).Reachable Feldman.init s)
    (hs : Feldman.step c s t = some (s', ev)) (a i : Nat) :
    s.cell a i = s'.cell a i ∨ (s.cell a i = .null ∧ ∃ n, s'.cell a i = .data n) ∨
    (∃ n, s.cell a i = .data n ∧
      (s'.cell a i = .null ∨ s'.cell a i = .conv n ∨ ∃ n', s'.cell a i = .data n' ∧ n'.key = n.key)) ∨
    (∃ n b, s.cell a i = .conv n ∧ s'.cell a i = .arr b) :=
  Feldman.step_slot hcf (Feldman.reachable_sinv hp hcf s hreach) hs a i

/-- What `expand_slot` guarantees about the moved item.  The only step that turns a converting slot `(a, i)` holding
    item `n` into the pointer to an array node `b` is the publishing CAS of the thread that converted the slot (so that
    CAS never fails: `CDS_VERIFY`); at that instant `b` hangs below `(a, i)` and contains `n`, in the slot given by the
    hash of `n` at the level of `b`, and nothing else; `n` was found by a traversal before the step and every lookup
    answers after the step what it answered before.  (The seeded changes C14-feldman-expand-order and
    C14-feldman-expand-slot-retry-any break exactly this: the first publishes an empty `b`, the second copies a stale
    item into `b`.) -/
theorem C14_feldman_expand_publish (c : Feldman.Cfg) (hp : Feldman.PathHyp c) (hcf : c.copyFirst = true)
    (s s' : Feldman.St) (t : Tid) (ev : Ev) (hreach : (Feldman.model c).Reachable Feldman.init s)
    (hs : Feldman.step c s t = some (s', ev)) (a i b : Nat) (n : Feldman.Node)
    (hc : s.cell a i = .conv n) (hc' : s'.cell a i = .arr b) :
    (∃ op lvl, s.pc t = .xPub op a lvl n b ∧ i = Feldman.sl c (Feldman.okey op) lvl ∧ (s.pre b).length = lvl + 1) ∧
    s'.cell b (Feldman.sl c n.key (s.pre b).length) = .data n ∧
    (∀ j, j ≠ Feldman.sl c n.key (s.pre b).length → s'.cell b j = .null) ∧
    s'.par b = a ∧ s'.pidx b = i ∧
    Feldman.look c s n.key = some n.val ∧ ∀ k, Feldman.look c s' k = Feldman.look c s k :=
  Feldman.expand_publish hp hcf (Feldman.reachable_sinv hp hcf s hreach) hs a i b n hc hc'

/-! ### (3) No key twice; nothing hides an item -/

/-- At most one item per key: two slots of published array nodes that hold (plain or converting) items with the same
    key are the same slot, holding the same item. -/
theorem C14_feldman_no_duplicate_keys (c : Feldman.Cfg) (hp : Feldman.PathHyp c) (hcf : c.copyFirst = true)
    (s : Feldman.St) (hreach : (Feldman.model c).Reachable Feldman.init s) (a i a' i' : Nat) (n n' : Feldman.Node)
    (hpub : Feldman.Pub s a) (hpub' : Feldman.Pub s a')
    (hc : s.cell a i = .data n ∨ s.cell a i = .conv n) (hc' : s.cell a' i' = .data n' ∨ s.cell a' i' = .conv n')
    (hk : n.key = n'.key) : a = a' ∧ i = i' ∧ n = n' :=
  Feldman.reachable_unique hp hcf s hreach a i a' i' n n' hpub hpub' hc hc' hk

/-- The abstract map is exactly the content of the slots: `k ↦ v` is found by a traversal from the head array iff a
    slot of a published array node holds an item with key `k` and payload `v`. -/
theorem C14_feldman_found_iff_present (c : Feldman.Cfg) (hp : Feldman.PathHyp c) (hcf : c.copyFirst = true)
    (s : Feldman.St) (hreach : (Feldman.model c).Reachable Feldman.init s) (k v : Int) :
    Feldman.look c s k = some v ↔
      ∃ a i n, Feldman.Pub s a ∧ (s.cell a i = .data n ∨ s.cell a i = .conv n) ∧ n.key = k ∧ n.val = v :=
  Feldman.reachable_look_some hp hcf s hreach k v

/-- A traversal in progress is as good as one started now: the array node and level an operation has reached are on the
    walk from the head array along the hash of its key (array-node pointers are never removed), there is a slot index
    left, and continuing from there finds what a traversal from the head array would find. -/
theorem C14_feldman_traversal_in_progress (c : Feldman.Cfg) (hp : Feldman.PathHyp c) (hcf : c.copyFirst = true)
    (s : Feldman.St) (hreach : (Feldman.model c).Reachable Feldman.init s) (t : Tid) (op : Feldman.Op) (a lvl : Nat)
    (hpo : Feldman.posOf (s.pc t) = some (op, a, lvl)) :
    Feldman.walk s.cell 0 ((c.path (Feldman.okey op)).take lvl) = some a ∧ lvl < c.depth ∧
    Feldman.look c s (Feldman.okey op) =
      Feldman.go s.cell (Feldman.okey op) a ((c.path (Feldman.okey op)).drop lvl) :=
  Feldman.reachable_pos hp hcf s hreach t op a lvl hpo

/-- Expansion never hides an item: if `k ↦ v` is in the set before a step and not after it, the step is the successful
    CAS of an `erase k` (which answers `[1, v]`) or of an `update` of `k` (which puts its own item in the same slot).
    No step of `expand_slot`, of any thread, is among them. -/
theorem C14_feldman_only_erase_removes (c : Feldman.Cfg) (hp : Feldman.PathHyp c) (hcf : c.copyFirst = true)
    (s s' : Feldman.St) (t : Tid) (ev : Ev) (hreach : (Feldman.model c).Reachable Feldman.init s)
    (hs : Feldman.step c s t = some (s', ev)) (k v : Int) (h1 : Feldman.look c s k = some v)
    (h2 : Feldman.look c s' k ≠ some v) :
    (∃ op a lvl n, s.pc t = .casEra op a lvl n ∧ Feldman.okey op = k ∧ s'.pc t = .done [1, v]) ∨
    (∃ op a lvl n, s.pc t = .casUpd op a lvl n ∧ Feldman.okey op = k ∧ s'.pc t = .done [1, 0]) :=
  Feldman.look_removed hp hcf (Feldman.reachable_sinv hp hcf s hreach) hs k v h1 h2

/-- The hypotheses are satisfiable at every depth (so none of the theorems above is vacuous): `cfgDeep d` is the WORST
    hash of depth `d + 1` — all keys share the first `d` slot indices and differ at the last level, every pair of keys
    forces `d` nested expansions.  (For the splitter of the real code the two clauses of `PathHyp` are
    `C28_path_injective_ns` and `pathOfNS_fieldSum`; they hold for the 2^64 hash values.  The harness configurations
    `cfgH hb ab shift` are instances too: `C14_feldman_harness_hyp` at the end of this file — the hash `key << shift` is
    perfect on the keys `0 ≤ k`, `k * 2 ^ shift < 2 ^ 64`, the only ones the harness uses, and `Feldman.pathOf` is
    extended injectively to the other integers, for which that hash functor violates the precondition of the real
    container.) -/
theorem C14_feldman_hyp_satisfiable (d : Nat) :
    Feldman.PathHyp (Feldman.cfgDeep d) ∧ (Feldman.cfgDeep d).copyFirst = true :=
  Feldman.cfgDeep_hyp d

/-! ### (4) Non-vacuity (head 4 bits, array nodes 2 bits, hash = key << 3: the configuration `hb=4 ab=2 shift=3` of the
    harness; keys 2, 4, 6 share the head slot 0 and differ at level 1: slots 1, 2, 3) -/

def cfg : Feldman.Cfg := Feldman.cfgH 4 2 3
def steps (t : Tid) (n : Nat) : List (Tid × Act) := List.replicate n (t, .step)
def ins (k v : Int) : GOp := ⟨"insert", [k, v]⟩
def era (k : Int) : GOp := ⟨"erase", [k]⟩
def fnd (k : Int) : GOp := ⟨"find", [k]⟩

/-- Two keys sharing a prefix force an expansion.  `insert 2` lands in `h0`; `insert 4` finds another key there,
    allocates `a1`, converts the slot, copies `n1` into `a1.1`, publishes `a1`, re-reads `h0`, descends and inserts into
    `a1.2`; a later `find 2` goes through `a1`.  Rendered as harness trace lines in the comments. -/
def expandSched : List (Tid × Act) :=
  [(0, .invoke (ins 2 10))] ++ steps 0 4 ++ [(0, .ret), (0, .invoke (ins 4 20))] ++ steps 0 12 ++ [(0, .ret),
   (1, .invoke (fnd 2))] ++ steps 1 4 ++ [(1, .ret)]

example : ((Feldman.model cfg).run Feldman.init expandSched).map (fun r => r.2.drop 6) =
    some [(0, .call (ins 4 20)),
          (0, .ev ⟨"ld", "h0", "n1", ""⟩),              -- T 0 A ld h0 n1             (traverse)
          (0, .ev ⟨"ld", "h0", "n1", ""⟩),              -- T 0 A ld h0 n1             (protect: load)
          (0, .ev ⟨"ld", "h0", "n1", ""⟩),              -- T 0 A ld h0 n1             (protect: validating load)
          (0, .ev ⟨"alloc", "a1", "4", ""⟩),            -- T 0 A alloc a1 4           (alloc_array_node)
          (0, .ev ⟨"cas+", "h0", "n1", "n1|1"⟩),        -- T 0 A cas+ h0 n1 n1|1      (flag_array_converting)
          (0, .ev ⟨"st", "a1.1", "n1", ""⟩),            -- T 0 A st a1.1 n1           (the displaced item is copied first)
          (0, .ev ⟨"cas+", "h0", "n1|1", "a1|2"⟩),      -- T 0 A cas+ h0 n1|1 a1|2    (… and then the array node is published)
          (0, .ev ⟨"ld", "h0", "a1|2", ""⟩),
          (0, .ev ⟨"ld", "a1.2", "null", ""⟩),
          (0, .ev ⟨"ld", "a1.2", "null", ""⟩),
          (0, .ev ⟨"ld", "a1.2", "null", ""⟩),
          (0, .ev ⟨"cas+", "a1.2", "null", "n2"⟩),      -- linearization point of insert 4
          (0, .ret [1]),
          (1, .call (fnd 2)),
          (1, .ev ⟨"ld", "h0", "a1|2", ""⟩),
          (1, .ev ⟨"ld", "a1.1", "n1", ""⟩),
          (1, .ev ⟨"ld", "a1.1", "n1", ""⟩),
          (1, .ev ⟨"ld", "a1.1", "n1", ""⟩),            -- linearization point of find 2
          (1, .ret [1, 10])] := by decide +kernel

set_option synthInstance.maxSize 2000 in
example : ((Feldman.model cfg).run Feldman.init expandSched).map
    (fun r => (r.1.cell 0 0, r.1.cell 1 1, r.1.cell 1 2, r.1.pre 1, Feldman.look cfg r.1 2, Feldman.look cfg r.1 4,
      Feldman.look cfg r.1 6, linCheck map (Feldman.historyOf r.2))) =
    some (.arr 1, .data ⟨1, 2, 10⟩, .data ⟨2, 4, 20⟩, [0], some 10, some 20, none, true) := by decide +kernel

/-- An insert racing with the expansion of its slot.  Thread 0 (`insert 4`) has put `h0` into the converting state;
    thread 1 (`insert 6`) reads `n1|1` and waits (re-reads); after the publication it reads `a1|2`, descends and inserts
    into `a1.3`; thread 0 then finishes in `a1.2`. -/
def raceSched : List (Tid × Act) :=
  [(0, .invoke (ins 2 10))] ++ steps 0 4 ++ [(0, .ret), (0, .invoke (ins 4 20))] ++ steps 0 5 ++
  [(1, .invoke (ins 6 30))] ++ steps 1 2 ++ steps 0 2 ++ steps 1 5 ++ [(1, .ret)] ++ steps 0 5 ++ [(0, .ret)]

example : ((Feldman.model cfg).run Feldman.init raceSched).map (fun r => r.2.drop 11) =
    some [(0, .ev ⟨"cas+", "h0", "n1", "n1|1"⟩),
          (1, .call (ins 6 30)),
          (1, .ev ⟨"ld", "h0", "n1|1", ""⟩),            -- T 1 A ld h0 n1|1           (converting: back off, re-read)
          (1, .ev ⟨"ld", "h0", "n1|1", ""⟩),
          (0, .ev ⟨"st", "a1.1", "n1", ""⟩),
          (0, .ev ⟨"cas+", "h0", "n1|1", "a1|2"⟩),
          (1, .ev ⟨"ld", "h0", "a1|2", ""⟩),            -- T 1 A ld h0 a1|2           (now an array node: descend)
          (1, .ev ⟨"ld", "a1.3", "null", ""⟩),
          (1, .ev ⟨"ld", "a1.3", "null", ""⟩),
          (1, .ev ⟨"ld", "a1.3", "null", ""⟩),
          (1, .ev ⟨"cas+", "a1.3", "null", "n3"⟩),
          (1, .ret [1]),
          (0, .ev ⟨"ld", "h0", "a1|2", ""⟩),
          (0, .ev ⟨"ld", "a1.2", "null", ""⟩),
          (0, .ev ⟨"ld", "a1.2", "null", ""⟩),
          (0, .ev ⟨"ld", "a1.2", "null", ""⟩),
          (0, .ev ⟨"cas+", "a1.2", "null", "n2"⟩),
          (0, .ret [1])] := by decide +kernel

example : ((Feldman.model cfg).run Feldman.init raceSched).map
    (fun r => (Feldman.look cfg r.1 2, Feldman.look cfg r.1 4, Feldman.look cfg r.1 6,
      linCheck map (Feldman.historyOf r.2))) = some (some 10, some 20, some 30, true) := by decide +kernel

/-- An erase of the item being moved.  Thread 1 (`erase 2`) has validated `h0 = n1`; thread 0 converts the slot; thread
    1's CAS fails (`cas- h0 n1|1 n1`), it goes back to `traverse` WITHOUT resetting its position, waits, follows the new
    array-node pointer and erases `n1` from `a1.1`, where `expand_slot` has put it. -/
def eraseMovedSched : List (Tid × Act) :=
  [(0, .invoke (ins 2 10))] ++ steps 0 4 ++ [(0, .ret), (1, .invoke (era 2))] ++ steps 1 3 ++
  [(0, .invoke (ins 4 20))] ++ steps 0 5 ++ steps 1 2 ++ steps 0 2 ++ steps 1 5 ++ [(1, .ret)] ++ steps 0 5 ++ [(0, .ret)]

example : ((Feldman.model cfg).run Feldman.init eraseMovedSched).map (fun r => r.2.drop 15) =
    some [(0, .ev ⟨"cas+", "h0", "n1", "n1|1"⟩),
          (1, .ev ⟨"cas-", "h0", "n1|1", "n1"⟩),        -- T 1 A cas- h0 n1|1 n1      (seen n1|1, expected n1): retry
          (1, .ev ⟨"ld", "h0", "n1|1", ""⟩),            -- waits
          (0, .ev ⟨"st", "a1.1", "n1", ""⟩),
          (0, .ev ⟨"cas+", "h0", "n1|1", "a1|2"⟩),
          (1, .ev ⟨"ld", "h0", "a1|2", ""⟩),
          (1, .ev ⟨"ld", "a1.1", "n1", ""⟩),
          (1, .ev ⟨"ld", "a1.1", "n1", ""⟩),
          (1, .ev ⟨"ld", "a1.1", "n1", ""⟩),
          (1, .ev ⟨"cas+", "a1.1", "n1", "null"⟩),      -- linearization point of erase 2
          (1, .ret [1, 10]),
          (0, .ev ⟨"ld", "h0", "a1|2", ""⟩),
          (0, .ev ⟨"ld", "a1.2", "null", ""⟩),
          (0, .ev ⟨"ld", "a1.2", "null", ""⟩),
          (0, .ev ⟨"ld", "a1.2", "null", ""⟩),
          (0, .ev ⟨"cas+", "a1.2", "null", "n2"⟩),
          (0, .ret [1])] := by decide +kernel

example : ((Feldman.model cfg).run Feldman.init eraseMovedSched).map
    (fun r => (r.1.cell 1 1, Feldman.look cfg r.1 2, Feldman.look cfg r.1 4, linCheck map (Feldman.historyOf r.2))) =
    some (.null, none, some 20, true) := by decide +kernel

/-- Nested expansions under the worst hash `cfgDeep 2` (a configuration for which the hypotheses are PROVED): keys 0 and
    1 share two levels; `insert 1` expands `h0`, then `a1.0`, and lands in `a2.2`; both keys are found afterwards. -/
def deepSched : List (Tid × Act) :=
  [(0, .invoke (ins 0 10))] ++ steps 0 4 ++ [(0, .ret), (0, .invoke (ins 1 20))] ++ steps 0 20 ++ [(0, .ret)]

set_option synthInstance.maxSize 2000 in
example : ((Feldman.model (Feldman.cfgDeep 2)).run Feldman.init deepSched).map
    (fun r => ((r.2.drop 10).filter (fun x => match x.2 with | .ev e => e.kind != "ld" | _ => false),
      r.1.pre 2, Feldman.look (Feldman.cfgDeep 2) r.1 0, Feldman.look (Feldman.cfgDeep 2) r.1 1,
      linCheck map (Feldman.historyOf r.2))) =
    some ([(0, .ev ⟨"alloc", "a1", "4", ""⟩),
           (0, .ev ⟨"cas+", "h0", "n1", "n1|1"⟩),
           (0, .ev ⟨"st", "a1.0", "n1", ""⟩),
           (0, .ev ⟨"cas+", "h0", "n1|1", "a1|2"⟩),
           (0, .ev ⟨"alloc", "a2", "4", ""⟩),
           (0, .ev ⟨"cas+", "a1.0", "n1", "n1|1"⟩),
           (0, .ev ⟨"st", "a2.0", "n1", ""⟩),
           (0, .ev ⟨"cas+", "a1.0", "n1|1", "a2|2"⟩),
           (0, .ev ⟨"cas+", "a2.2", "null", "n2"⟩)],
          [0, 0], some 10, some 20, true) := by decide +kernel

/-! ### The order of `expand_slot` is needed -/

/-- the model of the seeded change C14-feldman-expand-order: the new array node is published BEFORE the copy -/
def cfgBad : Feldman.Cfg := Feldman.cfgH 4 2 3 false

/-- Thread 0 (`insert 4`) publishes the empty `a1` and is delayed before the copy; thread 1's `find 2` descends into
    `a1`, reads `a1.1 = null` and answers "not found" although `insert 2` has returned and nobody erases: the abstract
    map has lost key 2 (`look … 2 = none`) by a step that is not an erase … -/
def badSched : List (Tid × Act) :=
  [(0, .invoke (ins 2 10))] ++ steps 0 4 ++ [(0, .ret), (0, .invoke (ins 4 20))] ++ steps 0 6 ++
  [(1, .invoke (fnd 2))] ++ steps 1 4 ++ [(1, .ret)]

set_option synthInstance.maxSize 2000 in
example : ((Feldman.model cfgBad).run Feldman.init badSched).map
    (fun r => (r.2.drop 11, Feldman.look cfgBad r.1 2, Feldman.retOf (r.1.pc 0), Feldman.retOf (r.1.pc 1),
      Feldman.historyOf r.2)) =
    some ([(0, .ev ⟨"cas+", "h0", "n1", "n1|1"⟩),
           (0, .ev ⟨"cas+", "h0", "n1|1", "a1|2"⟩),     -- published empty
           (1, .call (fnd 2)),
           (1, .ev ⟨"ld", "h0", "a1|2", ""⟩),
           (1, .ev ⟨"ld", "a1.1", "null", ""⟩),
           (1, .ev ⟨"ld", "a1.1", "null", ""⟩),
           (1, .ev ⟨"ld", "a1.1", "null", ""⟩),
           (1, .ret [0])],
          none, none, none,
          [⟨0, ins 2 10, [1], 0, 5⟩, ⟨1, fnd 2, [0], 13, 18⟩]) := by decide +kernel

/-- … and the history is not linearizable: `C14_feldman_linearizable_no_effect_pending` fails for `copyFirst = false`
    (no thread of the run above is between a linearization point and its return). -/
example : ¬ Linearizable map [⟨0, ins 2 10, [1], 0, 5⟩, ⟨1, fnd 2, [0], 13, 18⟩] := by
  intro hlin
  have := (linCheck_iff map _ (by decide)).mpr hlin
  revert this
  decide +kernel

/-! ### The replayed configurations are instances

  `cdsdriver replay feldman` builds `Feldman.cfgH hb ab shift` from the header words `hb= ab= shift=` of a harness trace
  (`Feldman.replayInit`).  The harness client `hashset`, variant `ifset_hp_named`, uses the effective geometries
  `(hb, ab)` = (4, 2), (4, 3), (6, 2), (7, 3) — in each the head slice and the `(64 - hb) / ab` array slices cover the 64
  bits exactly —, `shift` ∈ {0, 2, 3, 5, 8, 13, 30, 56} and keys 0 … 5; `cfg = cfgH 4 2 3` above is one of them.
  On the keys `0 ≤ k`, `k * 2 ^ shift < 2 ^ 64` the paths of `cfgH` are the slices of the code's hash `key << shift` (the
  FeldmanHashSet precondition "perfect hash" holds there: the slices are the digits of a 64-bit value); off that domain
  the hash functor of the harness is not perfect, the real container's precondition fails, and the model's path is an
  arbitrary injective extension that no replayed trace uses (`Feldman.pathOf`).
  Proof: `Algo/Feldman/HarnessCfg.lean` (`cfgH_hyp`). -/

/-- The hypotheses of all theorems of this file hold for the configuration `hb=4 ab=2 shift=3` of the trace replay. -/
theorem C14_feldman_harness_hyp :
    Feldman.PathHyp (Feldman.cfgH 4 2 3) ∧ (Feldman.cfgH 4 2 3).copyFirst = true :=
  Feldman.cfgH_4_2_3_hyp

/-- … and for every geometry whose slices cover the 64 bits exactly, any shift. -/
theorem C14_feldman_harness_hyp_general (hb ab shift : Nat) (hsum : hb + ab * ((64 - hb) / ab) = 64) :
    Feldman.PathHyp (Feldman.cfgH hb ab shift) ∧ (Feldman.cfgH hb ab shift).copyFirst = true :=
  ⟨Feldman.cfgH_hyp hb ab shift true hsum, rfl⟩

/-- In particular for all the geometries the harness replays, with every shift. -/
theorem C14_feldman_harness_hyp_all (g : Nat × Nat) (hg : g ∈ [(4, 2), (4, 3), (6, 2), (7, 3)]) (shift : Nat) :
    Feldman.PathHyp (Feldman.cfgH g.1 g.2 shift) ∧ (Feldman.cfgH g.1 g.2 shift).copyFirst = true := by
  simp only [List.mem_cons, List.not_mem_nil, or_false] at hg
  rcases hg with rfl | rfl | rfl | rfl <;> exact C14_feldman_harness_hyp_general _ _ shift (by decide)

/-- `C14_feldman_linearizable` for the replayed configuration `hb=4 ab=2 shift=3`: no hypothesis on the hash is left. -/
theorem C14_feldman_linearizable_harness
    (sched : List (Tid × Act)) (s : Feldman.St) (os : List (Tid × Obs))
    (h : (Feldman.model (Feldman.cfgH 4 2 3)).run Feldman.init sched = some (s, os)) :
    ∃ extra : List (OpRec GOp GRet),
      (∀ e ∈ extra, Feldman.pendingOf os e.tid = some (e.op, e.inv) ∧ e.res = os.length ∧
          Feldman.retOf (s.pc e.tid) = some e.ret) ∧
      extra.Pairwise (fun a b => a.tid ≠ b.tid) ∧
      Linearizable map (Feldman.historyOf os ++ extra) :=
  C14_feldman_linearizable (Feldman.cfgH 4 2 3) C14_feldman_harness_hyp.1 C14_feldman_harness_hyp.2 sched s os h

/-- The same for every replayed geometry and shift (`hsum` is `by decide` for (4, 2), (4, 3), (6, 2), (7, 3)). -/
theorem C14_feldman_linearizable_harness_general (hb ab shift : Nat) (hsum : hb + ab * ((64 - hb) / ab) = 64)
    (sched : List (Tid × Act)) (s : Feldman.St) (os : List (Tid × Obs))
    (h : (Feldman.model (Feldman.cfgH hb ab shift)).run Feldman.init sched = some (s, os)) :
    ∃ extra : List (OpRec GOp GRet),
      (∀ e ∈ extra, Feldman.pendingOf os e.tid = some (e.op, e.inv) ∧ e.res = os.length ∧
          Feldman.retOf (s.pc e.tid) = some e.ret) ∧
      extra.Pairwise (fun a b => a.tid ≠ b.tid) ∧
      Linearizable map (Feldman.historyOf os ++ extra) :=
  C14_feldman_linearizable (Feldman.cfgH hb ab shift) (C14_feldman_harness_hyp_general hb ab shift hsum).1 rfl
    sched s os h

/-- Complete runs of the replayed configuration. -/
theorem C14_feldman_linearizable_complete_runs_harness
    (sched : List (Tid × Act)) (s : Feldman.St) (os : List (Tid × Obs))
    (h : (Feldman.model (Feldman.cfgH 4 2 3)).run Feldman.init sched = some (s, os)) (hq : ∀ t, s.pc t = .idle) :
    Linearizable map (Feldman.historyOf os) :=
  C14_feldman_linearizable_complete_runs (Feldman.cfgH 4 2 3) C14_feldman_harness_hyp.1 C14_feldman_harness_hyp.2
    sched s os h hq

/-- The theorem applied to the concrete runs above (which are runs of `cfg = cfgH 4 2 3`): whatever `expandSched` /
    `raceSched` produce is linearizable — by the theorem, not by running `linCheck`. -/
example (s : Feldman.St) (os : List (Tid × Obs)) (h : (Feldman.model cfg).run Feldman.init expandSched = some (s, os)) :
    ∃ extra : List (OpRec GOp GRet),
      (∀ e ∈ extra, Feldman.pendingOf os e.tid = some (e.op, e.inv) ∧ e.res = os.length ∧
          Feldman.retOf (s.pc e.tid) = some e.ret) ∧
      extra.Pairwise (fun a b => a.tid ≠ b.tid) ∧
      Linearizable map (Feldman.historyOf os ++ extra) :=
  C14_feldman_linearizable_harness expandSched s os h

example (s : Feldman.St) (os : List (Tid × Obs)) (h : (Feldman.model cfg).run Feldman.init raceSched = some (s, os))
    (hq : ∀ t, s.pc t = .idle) : Linearizable map (Feldman.historyOf os) :=
  C14_feldman_linearizable_complete_runs_harness raceSched s os h hq

/-- The run exists (so the examples above are not vacuous). -/
example : ((Feldman.model cfg).run Feldman.init expandSched).isSome = true := by decide +kernel

/-- The paths of the keys used above, and a key outside the domain of the harness hash. -/
example : (Feldman.pathOf 4 2 3 2).take 3 = [0, 1, 0] ∧ (Feldman.pathOf 4 2 3 4).take 3 = [0, 2, 0] ∧
    (Feldman.pathOf 4 2 3 6).take 3 = [0, 3, 0] ∧ (Feldman.pathOf 4 2 3 2).length = 31 ∧
    Feldman.pathOf 4 2 3 (-1) = (2 ^ 64 + 3) :: List.replicate 30 0 := by decide +kernel

end CdsVerif.Props.C14Feldman

/-
  C01 / C03 at the level of the PROTOCOL: safety of Michael's hazard pointers as libcds implements them
  (Guard::protect / clear, HP::retire, basic_smr::classic_scan), proved over ALL interleavings of the
  atomic-step machine `Algo/HP/Protocol.lean`, for every number of threads `T`, every number of hazard slots
  per thread `H`, every retired-array capacity `R`, every schedule and every client program made of
  protect / clear / swap / take / scan / deref.

    C01  "an object passed to retire() is never given to its disposer while a guard that already protected
          it still protects it; a guard obtained by protect() always refers to an object that has not been
          disposed, until the guard is released"
    C03  "every retired object is disposed at most once; a pass that runs while no guard protects a retired
          object frees it"

  Property theorems and examples only; the inductive invariant and its preservation are in
  `Algo/HP/ProtocolInv.lean`.  What the machine does not cover (dynamic thread records / help_scan,
  inplace_scan, weak memory ordering, unvalidated `assign`, objects reachable from several cells) is listed at
  the top of `Algo/HP/Protocol.lean`.  The decision taken at the last step of a scan is the pure function
  `classicScan` (Props/C01.lean, Props/C03.lean; tied to src/hp.cpp by differential runs).
-/
import CdsVerif.Algo.HP.ProtocolInv
namespace CdsVerif.Props.C01Protocol
open CdsVerif.Machine CdsVerif.Spec CdsVerif.Algo.HP CdsVerif.Algo.HP.Protocol

/-! ### C01 -/

/-- THE safety theorem.  In every reachable state, the object that a completed `protect` returned, and that the
    guard has not released since (`guard t g = some p`), has not been handed to its disposer - whatever the other
    threads did in between: unlink it, retire it, run any number of scans. -/
theorem C01_guarded_never_disposed (cfg : Cfg) (s : St) (hr : (model cfg).Reachable init s) :
    ∀ t g p, s.guard t g = some p → s.obj p ≠ .disposed := by
  intro t g p hg
  rcases (pinv_reachable cfg s hr).guard_ok t g p hg with e | e <;> simp [e]

/-- Sharper form: a guarded object is allocated and is either still in use or retired-and-waiting. -/
theorem C01_guarded_live_or_retired (cfg : Cfg) (s : St) (hr : (model cfg).Reachable init s) :
    ∀ t g p, s.guard t g = some p → s.obj p = .live ∨ s.obj p = .retired :=
  (pinv_reachable cfg s hr).guard_ok

/-- A validated guard's hazard slot still publishes the pointer (what every scanner relies on). -/
theorem C01_guard_published (cfg : Cfg) (s : St) (hr : (model cfg).Reachable init s) :
    ∀ t g p, s.guard t g = some p → s.slots t g = some p ∧ t < cfg.T ∧ g < cfg.H := by
  intro t g p hg
  have h := pinv_reachable cfg s hr
  exact ⟨h.guard_slot t g p hg, h.guard_rng t g p hg⟩

/-- `deref [g]` never observes a disposed object: the step of a `deref` reads the object its guard holds, and
    that object is live or retired; the operation returns the corresponding code (1 or 2, never 3 = disposed).
    A `deref` that has been invoked is never stuck. -/
theorem C01_deref_safe (cfg : Cfg) (s : St) (hr : (model cfg).Reachable init s) (t : Tid) (g : Nat)
    (hpc : s.pc t = .derefRd g) :
    ∃ p s', s.guard t g = some p ∧ s.obj p ≠ .disposed ∧
      step cfg s t = some (s', evUse p (s.obj p)) ∧ s'.pc t = .done [objCode (s.obj p)] ∧
      objCode (s.obj p) ≠ 3 := by
  have h := pinv_reachable cfg s hr
  obtain ⟨p, hp⟩ := h.deref_ok t g hpc
  have hok := h.guard_ok t g p hp
  refine ⟨p, _, hp, by rcases hok with e | e <;> simp [e], by simp [step, hpc, hp]; rfl, by simp, ?_⟩
  rcases hok with e | e <;> simp [e, objCode]

/-- Trace form: no run of the machine contains a `use` event that observes a disposed object. -/
theorem C01_deref_safe_trace (cfg : Cfg) (sched : List (Tid × Act)) (s : St) (os : List (Tid × Obs))
    (hrun : (model cfg).run init sched = some (s, os)) :
    ∀ t e, (t, Obs.ev e) ∈ os → e.kind = "use" → e.a ≠ "disposed" := by
  intro t e hmem hk
  have key := obs_of_inductive (model cfg) (PInv cfg)
    (fun _ o => ∀ e, o = Obs.ev e → e.kind = "use" → e.a ≠ "disposed") (pinv_apply cfg)
    (by
      intro s t a s' o hI hap e he hk
      subst he
      cases a with
      | invoke op => simp [Model.apply] at hap
      | ret => simp [Model.apply] at hap
      | step =>
        simp only [Model.apply, model, Option.map_eq_some_iff] at hap
        obtain ⟨⟨s1, ev⟩, hs, heq⟩ := hap
        simp only [Prod.mk.injEq, Obs.ev.injEq] at heq
        obtain ⟨rfl, rfl⟩ := heq
        obtain ⟨g, p, -, hg, rfl, -⟩ := use_event hs hk
        rcases hI.guard_ok t g p hg with e | e <;> simp [evUse, objName, e])
    sched init s os (pinv_init cfg) hrun
  exact key (t, Obs.ev e) hmem e rfl hk

/-- Step-level form.  At the decision step of a scan (stage 2 of `classic_scan`, applied to the plist the thread
    has collected one hazard slot at a time while all other threads kept running), every object the step hands to
    the disposer is one that NO validated guard of any thread holds. -/
theorem C01_dispose_only_unguarded (cfg : Cfg) (s : St) (hr : (model cfg).Reachable init s)
    (t : Tid) (acc : List Ptr) (r : GRet) (hpc : s.pc t = .scanDecide acc r) :
    ∀ p ∈ (classicScan acc (s.retired t)).2, ∀ u g, s.guard u g ≠ some p :=
  decide_unguarded (pinv_reachable cfg s hr) hpc

/-- ... and that step is the only way an object becomes disposed: whenever an action of any thread turns an object
    `disposed`, the action is the decision step of a scan of that thread, the object was in that thread's retired
    array and outside its plist, and no validated guard holds it, before or after. -/
theorem C01_disposal_is_an_unguarded_scan_decision (cfg : Cfg) (s s' : St) (hr : (model cfg).Reachable init s)
    (t : Tid) (ev : Ev) (hs : step cfg s t = some (s', ev)) (p : Ptr)
    (h0 : s.obj p ≠ .disposed) (h1 : s'.obj p = .disposed) :
    ∃ acc r, s.pc t = .scanDecide acc r ∧ p ∈ s.retired t ∧ p ∉ acc ∧
      (∀ u g, s.guard u g ≠ some p) ∧ (∀ u g, s'.guard u g ≠ some p) := by
  have h := pinv_reachable cfg s hr
  obtain ⟨acc, r, hpc, hp⟩ := disposed_step hs h0 h1
  have d := decision acc _ (h.ret_nodup t)
  have hret := d.freed_sub p hp
  have hne : p ≠ 0 := by
    intro e; have h1 := h.ret_st t p hret; have h0 := h.fresh_zero; rw [e] at h1; rw [h1] at h0; cases h0
  have hg := decide_unguarded h hpc p hp
  refine ⟨acc, r, hpc, hret, d.safe p hp hne, hg, ?_⟩
  rw [(decide_step hpc hs).2.2.2.2.1]; exact hg

/-! ### C03 -/

/-- The life cycle of an object only moves forward, one stage at a time:
    fresh → live → retired → disposed.  In particular `retired → disposed` happens at most once per object and is
    never undone (an address is never reused in the model). -/
theorem C03_life_cycle_forward (cfg : Cfg) (s s' : St) (hr : (model cfg).Reachable init s)
    (t : Tid) (a : Act) (o : Obs) (hap : (model cfg).apply s t a = some (s', o)) (p : Ptr) :
    s'.obj p = s.obj p ∨ ObjSt.Succ (s.obj p) (s'.obj p) :=
  obj_apply (pinv_reachable cfg s hr) hap p

/-- Disposed at most once, part 1: once disposed, always disposed (along every continuation of every run). -/
theorem C03_disposed_at_most_once (cfg : Cfg) (s : St) (hr : (model cfg).Reachable init s)
    (sched : List (Tid × Act)) (s' : St) (os : List (Tid × Obs))
    (hrun : (model cfg).run s sched = some (s', os)) (p : Ptr) (hd : s.obj p = .disposed) :
    s'.obj p = .disposed := by
  have key := (model cfg).inv_of_inductive (fun x => PInv cfg x ∧ x.obj p = .disposed)
    (by
      intro x t a x' o ⟨hI, hd⟩ hap
      refine ⟨pinv_apply cfg x t a x' o hI hap, ?_⟩
      rcases obj_apply hI hap p with e | e
      · rw [e]; exact hd
      · rw [hd] at e; revert e; cases x'.obj p <;> simp [ObjSt.Succ])
    sched s s' os ⟨pinv_reachable cfg s hr, hd⟩ hrun
  exact key.2

/-- Disposed at most once, part 2: a disposed object is nowhere any more - in no retired array (so no later scan
    can hand it to the disposer again), in no cell, in flight in no `swap`/`take`, held by no validated guard. -/
theorem C03_disposed_is_nowhere (cfg : Cfg) (s : St) (hr : (model cfg).Reachable init s) (p : Ptr)
    (hd : s.obj p = .disposed) :
    (∀ t, p ∉ s.retired t) ∧ (∀ c, s.cells c ≠ some p) ∧ (∀ t r, s.pc t ≠ .swapRet p r) ∧
    (∀ t g, s.guard t g ≠ some p) := by
  have h := pinv_reachable cfg s hr
  refine ⟨?_, ?_, ?_, ?_⟩
  · intro t hm; have := h.ret_st t p hm; simp [hd] at this
  · intro c hc; have := h.cell_live c p hc; simp [hd] at this
  · intro t r hc; have := h.flight_live t p r hc; simp [hd] at this
  · intro t g hg; rcases h.guard_ok t g p hg with e | e <;> simp [hd] at e

/-- Disposed at most once, literally: the sequence of all disposer calls made so far (ghost `log`, extended by
    the freed list of every scan decision) contains no object twice, and it is exactly the set of disposed
    objects. -/
theorem C03_dispose_log_nodup (cfg : Cfg) (s : St) (hr : (model cfg).Reachable init s) :
    s.log.Nodup ∧ ∀ p, p ∈ s.log ↔ s.obj p = .disposed :=
  ⟨(pinv_reachable cfg s hr).log_nodup, (pinv_reachable cfg s hr).log_st⟩

/-- The retired arrays: no object twice in one array, no object in two arrays, every entry is in state
    `retired` (not in a cell, not yet disposed). -/
theorem C03_retired_arrays (cfg : Cfg) (s : St) (hr : (model cfg).Reachable init s) :
    (∀ t, (s.retired t).Nodup) ∧ (∀ t1 t2 p, p ∈ s.retired t1 → p ∈ s.retired t2 → t1 = t2) ∧
    (∀ t p, p ∈ s.retired t → s.obj p = .retired ∧ ∀ c, s.cells c ≠ some p) := by
  have h := pinv_reachable cfg s hr
  refine ⟨h.ret_nodup, h.ret_disj, ?_⟩
  intro t p hm
  refine ⟨h.ret_st t p hm, ?_⟩
  intro c hc; have h1 := h.cell_live c p hc; have h2 := h.ret_st t p hm; rw [h1] at h2; cases h2

/-- Nothing is lost: every `live` object is in a cell or in flight in the `swap`/`take` that unlinked it (and will
    retire it at its next step); every `retired` object is in some thread's retired array, where that thread's
    scans find it. -/
theorem C03_no_object_lost (cfg : Cfg) (s : St) (hr : (model cfg).Reachable init s) (p : Ptr) :
    (s.obj p = .live → (∃ c, s.cells c = some p) ∨ (∃ t r, s.pc t = .swapRet p r)) ∧
    (s.obj p = .retired → ∃ t, p ∈ s.retired t) :=
  ⟨(pplace_reachable cfg s hr).live_ex p, (pplace_reachable cfg s hr).ret_ex p⟩

/-- A scan neither loses nor duplicates: after the decision step the scanner's retired array is what the
    decision kept, every retired entry is either kept or disposed, and the other threads' arrays are untouched. -/
theorem C03_scan_partition (cfg : Cfg) (s s' : St) (hr : (model cfg).Reachable init s)
    (t : Tid) (acc : List Ptr) (r : GRet) (ev : Ev) (hpc : s.pc t = .scanDecide acc r)
    (hs : step cfg s t = some (s', ev)) :
    (∀ p, p ∈ s.retired t → (p ∈ s'.retired t ∧ s'.obj p = .retired) ∨ (p ∉ s'.retired t ∧ s'.obj p = .disposed)) ∧
    (∀ u, u ≠ t → s'.retired u = s.retired u) := by
  have h := pinv_reachable cfg s hr
  have d := decision acc _ (h.ret_nodup t)
  obtain ⟨hobj, hret, hoth, -⟩ := decide_step hpc hs
  refine ⟨?_, hoth⟩
  intro p hp
  rcases d.split p hp with hk | hf
  · left; rw [hret, hobj p, if_neg (d.disj p hk)]; exact ⟨hk, h.ret_st t p hp⟩
  · right; rw [hret, hobj p, if_pos hf]; exact ⟨fun hk => d.disj p hk hf, rfl⟩

/-- A pass during which no slot ever held `p` frees it: if at the decision step of thread `t`'s scan `p` is in
    `t`'s retired array and not in the collected plist, then `p` is disposed after the step. -/
theorem C03_unprotected_freed_by_quiet_scan (cfg : Cfg) (s s' : St) (t : Tid) (acc : List Ptr) (r : GRet) (ev : Ev)
    (hpc : s.pc t = .scanDecide acc r) (hs : step cfg s t = some (s', ev)) (p : Ptr)
    (hret : p ∈ s.retired t) (hquiet : p ∉ acc) :
    s'.obj p = .disposed ∧ p ∉ s'.retired t ∧ p ∈ s'.log := by
  obtain ⟨hobj, hretd, -, hlog, -⟩ := decide_step hpc hs
  have hf := CdsVerif.Props.C03.C03_classic_unprotected_freed acc (s.retired t) p hret hquiet
  refine ⟨by rw [hobj p, if_pos hf], ?_, by rw [hlog]; exact List.mem_append_right _ hf⟩
  rw [hretd]
  intro hk
  simp only [classicScan, List.mem_filter] at hk hf
  have := hf.2; rw [hk.2] at this; simp at this

/-- "No slot ever holds `p`" made precise and shown to be STABLE: once a retired object is referred to by no hazard
    slot and by no `protect` that is about to store it (and scanner `sc` has not collected it), this remains true
    along every run - a retired object is in no cell, so no `protect` can pick it up again. -/
theorem C03_quiet_stable (cfg : Cfg) (s : St) (hr : (model cfg).Reachable init s) (sc : Tid) (p : Ptr)
    (hq : Quiet s sc p) (sched : List (Tid × Act)) (s' : St) (os : List (Tid × Obs))
    (hrun : (model cfg).run s sched = some (s', os)) : Quiet s' sc p := by
  have key := (model cfg).inv_of_inductive (fun x => PInv cfg x ∧ Quiet x sc p)
    (fun x t a x' o ⟨hI, hq⟩ hap => ⟨pinv_apply cfg x t a x' o hI hap, quiet_apply hI hq hap⟩)
    sched s s' os ⟨pinv_reachable cfg s hr, hq⟩ hrun
  exact key.2

/-- Hence: from a state in which retired `p` is quiet, whenever (after any further run) thread `sc` takes the
    decision step of a scan with `p` still in its retired array, that step disposes `p`. -/
theorem C03_quiet_retired_object_is_freed_by_next_scan (cfg : Cfg) (s : St) (hr : (model cfg).Reachable init s)
    (sc : Tid) (p : Ptr) (hq : Quiet s sc p) (sched : List (Tid × Act)) (s1 s2 : St) (os : List (Tid × Obs))
    (hrun : (model cfg).run s sched = some (s1, os))
    (acc : List Ptr) (r : GRet) (ev : Ev) (hpc : s1.pc sc = .scanDecide acc r)
    (hs : step cfg s1 sc = some (s2, ev)) (hret : p ∈ s1.retired sc) :
    s2.obj p = .disposed := by
  have hq1 := C03_quiet_stable cfg s hr sc p hq sched s1 os hrun
  have hna : p ∉ acc := by have := hq1.noacc; rw [hpc] at this; exact this
  exact (C03_unprotected_freed_by_quiet_scan cfg s1 s2 sc acc r ev hpc hs p hret hna).1

/-! ### Examples (H = 1 slot per thread, T = 2 threads; R = 8: no automatic scan)

  Checked by `decide` on the final state and on the values the operations return.  (The rendered traces quoted in
  the comments are the output of `#eval ((model cfg).run init sched).map (fun x => render x.2)`; the kernel
  cannot evaluate the string rendering, so they are not part of the checked statements.) -/

def cfg12 : Cfg := ⟨1, 2, 8⟩
def call (name : String) (args : List Int) : Act := .invoke ⟨name, args⟩
/-- the values returned, in order -/
def rets (os : List (Tid × Obs)) : List (Tid × GRet) :=
  os.filterMap fun (t, o) => match o with
    | .ret r => some (t, r)
    | _ => none

/-- Thread 0 publishes o1 in cell 0; thread 1 protects it; thread 0 replaces it by o2, retires o1 and scans:
    the scan reads hp0.0 = null, hp1.0 = o1 and keeps o1; thread 1 can still use o1 (`deref` returns 2 = retired).
      T 0 C swap [0] | T 0 A xchg cell0 null o1 | T 0 R [1, 0]
      T 1 C protect [0, 0] | T 1 A ld cell0 o1 | T 1 A st hp1.0 o1 | T 1 A ld cell0 o1 | T 1 R [1, 1]
      T 0 C swap [0] | T 0 A xchg cell0 o1 o2 | T 0 A retire T0 o1 | T 0 R [2, 1]
      T 0 C scan [] | T 0 A ld hp0.0 null | T 0 A ld hp1.0 o1 | T 0 A free T0 [] | T 0 R []
      T 1 C deref [0] | T 1 A use o1 retired | T 1 R [2] -/
def guardedSurvives : List (Tid × Act) := [
  (0, call "swap" [0]), (0, .step), (0, .ret),
  (1, call "protect" [0, 0]), (1, .step), (1, .step), (1, .step), (1, .ret),
  (0, call "swap" [0]), (0, .step), (0, .step), (0, .ret),
  (0, call "scan" []), (0, .step), (0, .step), (0, .step), (0, .ret),
  (1, call "deref" [0]), (1, .step), (1, .ret)]

/-- ... then thread 1 clears its guard and the next scan of thread 0 frees o1.
      T 1 C clear [0] | T 1 A st hp1.0 null | T 1 R []
      T 0 C scan [] | T 0 A ld hp0.0 null | T 0 A ld hp1.0 null | T 0 A free T0 [1] | T 0 R [] -/
def thenFreed : List (Tid × Act) := [
  (1, call "clear" [0]), (1, .step), (1, .ret),
  (0, call "scan" []), (0, .step), (0, .step), (0, .step), (0, .ret)]

example : ((model cfg12).run init guardedSurvives).map (fun x => rets x.2) =
    some [(0, [1, 0]), (1, [1, 1]), (0, [2, 1]), (0, []), (1, [2])] := by decide

/-- after the first scan: o1 still retired, still in thread 0's array, still guarded, nothing disposed -/
example : ((model cfg12).run init guardedSurvives).map
      (fun x => (x.1.obj 1, x.1.retired 0, x.1.guard 1 0, x.1.log)) =
    some (.retired, [1], some 1, []) := by decide

/-- at the decision step of that scan the plist is [o1] -/
example : ((model cfg12).run init (guardedSurvives.take 15)).map (fun x => x.1.pc 0) =
    some (.scanDecide [1] []) := by decide

/-- after `clear` and the second scan: o1 disposed, exactly once -/
example : ((model cfg12).run init (guardedSurvives ++ thenFreed)).map
      (fun x => (x.1.obj 1, x.1.retired 0, x.1.guard 1 0, x.1.log)) =
    some (.disposed, [], none, [1]) := by decide

/-- `protect`'s validation fails once: between thread 1's hazard store of o1 and its re-load, thread 0 replaces
    o1 by o2; thread 1 re-publishes o2, validates, and returns o2.  o1 was only speculatively published: the
    guard never covers it.
      T 0 C swap [0] | T 0 A xchg cell0 null o1 | T 0 R [1, 0]
      T 1 C protect [0, 0] | T 1 A ld cell0 o1 | T 1 A st hp1.0 o1
      T 0 C swap [0] | T 0 A xchg cell0 o1 o2 | T 0 A retire T0 o1 | T 0 R [2, 1]
      T 1 A ld cell0 o2 | T 1 A st hp1.0 o2 | T 1 A ld cell0 o2 | T 1 R [1, 2] -/
def validationFails : List (Tid × Act) := [
  (0, call "swap" [0]), (0, .step), (0, .ret),
  (1, call "protect" [0, 0]), (1, .step), (1, .step),
  (0, call "swap" [0]), (0, .step), (0, .step), (0, .ret),
  (1, .step), (1, .step), (1, .step), (1, .ret)]

/-- before the re-load: slot holds o1, no guard yet -/
example : ((model cfg12).run init (validationFails.take 10)).map
      (fun x => (x.1.pc 1, x.1.slots 1 0, x.1.guard 1 0, x.1.cells 0)) =
    some (.protChk 0 0 (some 1), some 1, none, some 2) := by decide

/-- the re-load sees o2 ≠ o1: back to the store, with the new candidate -/
example : ((model cfg12).run init (validationFails.take 11)).map (fun x => (x.1.pc 1, x.1.guard 1 0)) =
    some (.protSt 0 0 (some 2), none) := by decide

example : ((model cfg12).run init validationFails).map (fun x => rets x.2) =
    some [(0, [1, 0]), (0, [2, 1]), (1, [1, 2])] := by decide

example : ((model cfg12).run init validationFails).map (fun x => (x.1.guard 1 0, x.1.slots 1 0, x.1.obj 1)) =
    some (some 2, some 2, .retired) := by decide

/-- Why the validating re-load is needed: thread 1 loads o1 from the cell, then thread 0 unlinks, retires and (the
    slot being still empty) frees o1; only then does thread 1 publish o1.  Its hazard slot now holds a DISPOSED
    object - but no guard does: the re-load sees o2, and `protect` starts over with o2.
      T 0 C swap [0] | T 0 A xchg cell0 null o1 | T 0 R [1, 0]
      T 1 C protect [0, 0] | T 1 A ld cell0 o1
      T 0 C swap [0] | T 0 A xchg cell0 o1 o2 | T 0 A retire T0 o1 | T 0 R [2, 1]
      T 0 C scan [] | T 0 A ld hp0.0 null | T 0 A ld hp1.0 null | T 0 A free T0 [1] | T 0 R []
      T 1 A st hp1.0 o1 | T 1 A ld cell0 o2 | T 1 A st hp1.0 o2 | T 1 A ld cell0 o2 | T 1 R [1, 2] -/
def lateStore : List (Tid × Act) := [
  (0, call "swap" [0]), (0, .step), (0, .ret),
  (1, call "protect" [0, 0]), (1, .step),
  (0, call "swap" [0]), (0, .step), (0, .step), (0, .ret),
  (0, call "scan" []), (0, .step), (0, .step), (0, .step), (0, .ret),
  (1, .step), (1, .step), (1, .step), (1, .step), (1, .ret)]

/-- right after the late store: slot = o1, o1 disposed, guard empty -/
example : ((model cfg12).run init (lateStore.take 15)).map
      (fun x => (x.1.slots 1 0, x.1.obj 1, x.1.guard 1 0, x.1.pc 1)) =
    some (some 1, .disposed, none, .protChk 0 0 (some 1)) := by decide

example : ((model cfg12).run init lateStore).map (fun x => (rets x.2, x.1.guard 1 0, x.1.obj 2)) =
    some ([(0, [1, 0]), (0, [2, 1]), (0, []), (1, [1, 2])], some 2, .live) := by decide

/-- A scan started by `retire` itself when the retired array has become full (R = 1), object unguarded:
      T 0 C take [0] | T 0 A xchg cell0 o1 null | T 0 A retire T0 o1
      T 0 A ld hp0.0 null | T 0 A ld hp1.0 null | T 0 A free T0 [1] | T 0 R [1] -/
example : ((model ⟨1, 2, 1⟩).run init [
      (0, call "swap" [0]), (0, .step), (0, .ret),
      (0, call "take" [0]), (0, .step), (0, .step), (0, .step), (0, .step), (0, .step), (0, .ret)]).map
      (fun x => (rets x.2, x.1.obj 1, x.1.log)) = some ([(0, [1, 0]), (0, [1])], .disposed, [1]) := by decide

end CdsVerif.Props.C01Protocol

fields = ["bound","lockFree","hold","noReq","someReq","respExec","opExec","atDone","atAge","rel","wtUnl","fin","le1","unlinked","linkAct","cmb","pass","post"]
hdr = r'''/-
  The inductive invariant of the flat-combining kernel model (`FC/Kernel.lean`) and its preservation by every
  transition.  The property theorems are in `Props/C23Kernel.lean`.

  Reading guide (record id = id of the owning thread):
   * `hold`, `lockFree`      : the spin lock protects the combiner role (every lock-holding thread is `holder`).
   * `noReq`, `someReq`      : `nRequest` is empty exactly outside the window [store of the request, release_record].
   * `respExec`, `opExec`, `atDone`, `atAge`, `le1`, `fin`
                             : the ghost counter `execs`: 0 while the request is pending and nobody is between
                               `fc_apply` and the store of req_Response for it; 1 from `fc_apply` on; never 2.
   * `rel`, `wtUnl`          : a thread reaches `release_record` only with nRequest = req_Response.
   * `unlinked`, `linkAct`   : an ACTIVE record that is not linked is either being linked by its owner (`pubLink`)
                               or being deactivated by the combiner (`ccInact`).
   * `cmb`, `pass`, `post`   : the combiner's own request: it is still pending only during the first pass and before
                               the walk reaches its record, which is then linked and active, hence visited; after the
                               passes it is answered.  (This is the `assert( pRec->op() == req_Response )` of
                               `try_combining`.)
-/
import CdsVerif.Algo.FC.Kernel
namespace CdsVerif.Algo.FC.Kernel
open CdsVerif.Machine CdsVerif.Spec

structure KInv (cfg : Cfg) (s : St) : Prop where
  bound : ∀ t, s.pc t ≠ .idle → t < cfg.N
  lockFree : s.lock = false → ∀ t, holds (s.pc t) = false
  hold : ∀ t, holds (s.pc t) = true → t = s.holder
  noReq : ∀ t, hasReq (s.pc t) = false → s.req t = .empty
  someReq : ∀ t, hasReq (s.pc t) = true → s.req t = .op ∨ s.req t = .resp
  respExec : ∀ k, s.req k = .resp → s.execs k = 1
  opExec : ∀ k, s.req k = .op → doneIdx (s.pc s.holder) ≠ some k → s.execs k = 0
  atDone : ∀ t c k, s.pc t = .cpDone c k → s.req k = .op ∧ s.execs k = 1
  atAge : ∀ t c k, s.pc t = .cpAge c k → s.req k = .op
  rel : ∀ t, s.pc t = .relSt → s.req t = .resp
  wtUnl : ∀ t, s.pc t = .wtUnlock → s.req t = .resp
  fin : ∀ t, s.pc t = .done → s.execs t = 1
  le1 : ∀ k, s.execs k ≤ 1
  unlinked : ∀ r, s.state r = .active → s.inList r = false →
    isLink (s.pc r) = true ∨ inactIdx (s.pc s.holder) = some r
  linkAct : ∀ t, s.pc t = .pubLink .lock → s.state t = .active
  cmb : ∀ t, s.pc t = .cmbCnt → s.req t = .resp ∨ (s.inList t = true ∧ s.state t = .active)
  pass : ∀ t c k, cpIdx (s.pc t) = some (c, k) →
    s.req t = .resp ∨ (c.pass = 0 ∧ k ≤ t ∧ s.inList t = true ∧ s.state t = .active)
  post : ∀ t, postPass (s.pc t) = true → s.req t = .resp

theorem kinv_init (cfg : Cfg) : KInv cfg init := by
  constructor <;> intros <;> simp_all [init, holds, hasReq, cpIdx, postPass]

theorem passEnd_cases (cfg : Cfg) (c : CS) :
    (∃ c', passEnd cfg c = .cpWalk c' 0 ∧ c'.pass = c.pass + 1) ∨ passEnd cfg c = .ccWalk c.age 0 ∨
      passEnd cfg c = .unlock := by
  by_cases h1 : ((c.done = true ∨ (if c.done then c.emp else c.emp + 1) ≤ (if c.done then c.use + 1 else c.use)) ∧
      c.pass + 1 < cfg.P)
  · refine Or.inl ⟨⟨c.age, c.pass + 1, if c.done then c.emp else c.emp + 1,
      if c.done then c.use + 1 else c.use, false⟩, ?_, rfl⟩
    show (if _ then _ else _) = _
    rw [if_pos h1]
  · by_cases h2 : c.age &&& cfg.cf = 0
    · refine Or.inr (Or.inl ?_)
      show (if _ then _ else _) = _
      rw [if_neg h1, if_pos h2]
    · refine Or.inr (Or.inr ?_)
      show (if _ then _ else _) = _
      rw [if_neg h1, if_neg h2]

theorem doneIdx_of_not_holds (p : PC) : holds p = false → doneIdx p = none := by
  cases p <;> simp [holds, doneIdx]
theorem inactIdx_of_not_holds (p : PC) : holds p = false → inactIdx p = none := by
  cases p <;> simp [holds, inactIdx]
theorem cpIdx_of_not_holds (p : PC) : holds p = false → cpIdx p = none := by
  cases p <;> simp [holds, cpIdx]
theorem postPass_of_not_holds (p : PC) : holds p = false → postPass p = false := by
  cases p <;> simp [holds, postPass]
grind_pattern doneIdx_of_not_holds => doneIdx p
grind_pattern inactIdx_of_not_holds => inactIdx p
grind_pattern cpIdx_of_not_holds => cpIdx p
grind_pattern postPass_of_not_holds => postPass p

macro "kinv_close" : tactic =>
  `(tactic| (constructor <;> intros <;> (try dsimp only at *) <;>
      grind [upd, holds, hasReq, cpIdx, postPass, afterPublish, doneIdx, inactIdx, isLink]))

'''
names = "h_" 
obt = "obtain ⟨" + ", ".join("h_"+f for f in fields) + "⟩ := h"

def lemma(name, pat, args, pre="", body=None):
    a = " ".join("{%s}" % x for x in args) if args else ""
    s = f"set_option maxHeartbeats 4000000 in\ntheorem step_{name} {{cfg : Cfg}} {{s s' : St}} {{t : Tid}} {{ev : Ev}} {a}\n"
    s += f"    (h : KInv cfg s) (hpc : s.pc t = {pat}) (hs : step cfg s t = some (s', ev)) : KInv cfg s' := by\n"
    s += f"  {obt}\n  have s_pass := h_pass t; have s_post := h_post t; have s_hold := h_hold t\n  have s_noReq := h_noReq t; have s_someReq := h_someReq t; have s_bound := h_bound t\n  simp only [hpc, cpIdx, postPass, holds, hasReq] at s_pass s_post s_hold s_noReq s_someReq s_bound\n  simp only [step, hpc] at hs\n"
    if body is None:
        s += "  simp only [Option.some.injEq, Prod.mk.injEq] at hs; obtain ⟨rfl, -⟩ := hs\n"
        if pre: s += "  " + pre + "\n"
        s += "  kinv_close\n"
    else:
        s += body
    return s + "\n"

out = hdr
simple = [
 ("acqLd", ".acqLd", [], ""),
 ("pubCnt", ".pubCnt c", ["c : Cont"], "cases c <;>"),
 ("pubAge", ".pubAge c a", ["c : Cont","a : Nat"], "cases c <;>"),
 ("pubAct", ".pubAct c", ["c : Cont"], "cases c <;>"),
 ("pubLink", ".pubLink c", ["c : Cont"], "cases c <;>"),
 ("reqSt", ".reqSt", [], ""),
 ("tryLock", ".tryLock", [], ""),
 ("lkRepub", ".lkRepub", [], ""),
 ("cmbCnt", ".cmbCnt", [], ""),
 ("cpState", ".cpState c k", ["c : CS","k : Nat"], ""),
 ("cpReq", ".cpReq c k", ["c : CS","k : Nat"], ""),
 ("cpAge", ".cpAge c k", ["c : CS","k : Nat"], ""),
 ("cpDone", ".cpDone c k", ["c : CS","k : Nat"], ""),
 ("ccState", ".ccState a k", ["a : Nat","k : Nat"], ""),
 ("ccAge", ".ccAge a k", ["a : Nat","k : Nat"], ""),
 ("ccUnlink", ".ccUnlink a k", ["a : Nat","k : Nat"], ""),
 ("ccInact", ".ccInact a k", ["a : Nat","k : Nat"], ""),
 ("unlock", ".unlock", [], ""),
 ("wtReq", ".wtReq", [], ""),
 ("wtState", ".wtState", [], ""),
 ("wtLock", ".wtLock", [], ""),
 ("wtReq2", ".wtReq2", [], ""),
 ("wtUnlock", ".wtUnlock", [], ""),
 ("relSt", ".relSt", [], ""),
]
import sys
only = sys.argv[1:] 
for n,p,a,pre in simple:
    if only and n not in only: continue
    if pre:
        l = lemma(n,p,a)
        l = l.replace("  kinv_close\n", "  cases c <;> kinv_close\n")
        out += l
    else:
        out += lemma(n,p,a)
if not only or "cpWalk" in only:
    out += lemma("cpWalk", ".cpWalk c k", ["c : CS","k : Nat"], body='''  split at hs
  · simp only [Option.some.injEq, Prod.mk.injEq] at hs; obtain ⟨rfl, -⟩ := hs
    kinv_close
  · simp only [Option.some.injEq, Prod.mk.injEq] at hs; obtain ⟨rfl, -⟩ := hs
    rcases passEnd_cases cfg c with ⟨c', he, hc'⟩ | he | he <;> rw [he] <;> kinv_close
''')
if not only or "ccWalk" in only:
    out += lemma("ccWalk", ".ccWalk a k", ["a : Nat","k : Nat"], body='''  split at hs
  · simp only [Option.some.injEq, Prod.mk.injEq] at hs; obtain ⟨rfl, -⟩ := hs
    kinv_close
  · simp only [Option.some.injEq, Prod.mk.injEq] at hs; obtain ⟨rfl, -⟩ := hs
    kinv_close
''')

dispatch = """/-! ### Preservation by every action -/

theorem kinv_invoke {cfg : Cfg} {s s' : St} {t : Tid} {op : GOp}
    (h : KInv cfg s) (hs : invoke cfg s t op = some s') : KInv cfg s' := by
  OBT
  unfold invoke at hs
  split at hs
  · split at hs
    · simp only [Option.some.injEq] at hs; subst hs
      kinv_close
    · simp at hs
  · simp at hs

theorem kinv_result {s s' : St} {cfg : Cfg} {t : Tid} {r : GRet}
    (h : KInv cfg s) (hs : result s t = some (s', r)) : KInv cfg s' := by
  OBT
  unfold result at hs
  split at hs
  · simp only [Option.some.injEq, Prod.mk.injEq] at hs; obtain ⟨rfl, -⟩ := hs
    kinv_close
  · simp at hs

theorem kinv_atomic {cfg : Cfg} {s s' : St} {t : Tid} {ev : Ev}
    (h : KInv cfg s) (hs : step cfg s t = some (s', ev)) : KInv cfg s' := by
  cases hpc : s.pc t with
  | idle => simp [step, hpc] at hs
  | done => simp [step, hpc] at hs
CASES
theorem kinv_step (cfg : Cfg) (s : St) (t : Tid) (a : Act) (s' : St) (o : Obs)
    (h : KInv cfg s) (hap : (model cfg).apply s t a = some (s', o)) : KInv cfg s' := by
  cases a with
  | invoke op =>
    simp only [Model.apply, model, Option.map_eq_some_iff] at hap
    obtain ⟨s1, hs1, heq⟩ := hap
    simp only [Prod.mk.injEq] at heq
    obtain ⟨rfl, -⟩ := heq
    exact kinv_invoke h hs1
  | step =>
    simp only [Model.apply, model, Option.map_eq_some_iff] at hap
    obtain ⟨r, hr, heq⟩ := hap
    simp only [Prod.mk.injEq] at heq
    obtain ⟨rfl, -⟩ := heq
    exact kinv_atomic h hr
  | ret =>
    simp only [Model.apply, model, Option.map_eq_some_iff] at hap
    obtain ⟨r, hr, heq⟩ := hap
    simp only [Prod.mk.injEq] at heq
    obtain ⟨rfl, -⟩ := heq
    exact kinv_result h hr

/-- The invariant holds in every reachable state, for every configuration. -/
theorem kinv_reachable (cfg : Cfg) (s : St) (h : (model cfg).Reachable init s) : KInv cfg s :=
  (model cfg).inv_reachable (KInv cfg) init (kinv_init cfg) (kinv_step cfg) s h

"""
cases = ""
allpcs = [(n,pt) for n,pt,_,_ in simple] + [("cpWalk",".cpWalk c k"),("ccWalk",".ccWalk a k")]
for n,pt in allpcs:
    vars_ = pt.split()[1:]
    cases += f"  | {n} {' '.join(vars_)} => exact step_{n} h hpc hs\n"
dispatch = dispatch.replace("OBT", obt).replace("CASES", cases)

if not only: out += dispatch
out += "end CdsVerif.Algo.FC.Kernel\n"
open("/verif/lean/CdsVerif/Algo/FC/KernelInv.lean" if not only else "/tmp/fc/KernelInvTest.lean","w").write(out)

/-
  C21, history level — the lock-free free lists against the BAG specification (`Spec.bag`: `put n` adds `n`, `get`
  removes and returns a node that is present, `get` answers "empty" only when the bag is empty).

  The operations of the machines carry the calling thread as first argument (`put [t, n]`, `get [t]`); `BagLin.bagT` is
  `Spec.bag []` on these operations (the thread argument is dropped: `BagLin.stripOp`), and
  `C21_tagged_bag_linearizable_stripped` states the result against `Spec.bag []` itself.

  PROVED, for every run (any number of threads, any client program in which a thread only puts a node it owns, any
  schedule):
    * `C21_tagged_bag_linearizable` : TaggedFreeList — the history of the completed operations, completed with the
      pending operations that have passed their linearization point, is Herlihy–Wing linearizable to the bag.
      Linearization points: `put` — the successful CAS on `m_Head` that links the node; `get → n` — the successful CAS
      on `m_Head` that unlinks it; `get → empty` — the load of `m_Head` that reads null (or the failed CAS that sees
      null).  The abstract bag is the chain from `m_Head`.
    * `C21_tagged_bag_linearizable_stripped` (against `Spec.bag []`), `C21_tagged_bag_linearizable_no_effect_pending`,
      `C21_tagged_empty_means_empty` : corollaries (as for C06).
    * `C21_freelist_not_bag_linearizable` : FreeList (the reference-counted list) is NOT linearizable to the bag: a
      run of the machine is exhibited in which thread 0 completes `put( n1 )` and then its own `get()` answers
      "empty" although no other `get` takes n1.  The `put` returned from its `fetch_add( SHOULD_BE_ON_FREELIST )`
      because a getter (thread 1) held a reference to n1; n1 is then neither owned nor on the list until thread 1
      drops its reference and links the node itself (the hand-over).
    * `C21_freelist_bag_linearizable_partial` : what does hold for FreeList — linearizability to the WEAK bag
      `FreeList.bagWR` (`put n` adds `n`; `get → n` removes a node that is in the bag; `get → empty` is allowed at any
      time): no invention, no duplication, no loss.  Linearization points: `put` — its FIRST step, the
      `fetch_add( SHOULD_BE_ON_FREELIST )`, after which the node is guaranteed to become available (the put links it
      itself, or the flag makes the last reference holder link it); `get → n` — the successful CAS on `m_Head`;
      `get → empty` — the step that makes the loop test fail.  Stated on the observations with the result `[0]`
      relabelled `[2]` (`BagLin.mapOs FreeList.relab os`: the toolkit reserves `[0]` for "the abstract state is
      empty"); NOT proved: the same statement transferred back to the unrelabelled history (a permutation-of-a-map
      lemma is missing), and "empty only if `m_Head` was null at an instant inside the call".
-/
import CdsVerif.Props.C21FreeLists
import CdsVerif.Algo.TaggedFreeList.Lin
import CdsVerif.Algo.FreeList.Lin
namespace CdsVerif.Props.C21FreeListsLin
open CdsVerif.Machine CdsVerif.Lin CdsVerif.Spec CdsVerif.Algo CdsVerif.Algo.QueueLin CdsVerif.Algo.BagLin
open CdsVerif.Props.C21FreeLists

/-! ### TaggedFreeList -/

/-- **TaggedFreeList is linearizable to the bag** (Herlihy–Wing, with completion of pending operations).  For EVERY run
    of the machine, from any initial distribution `own0` of the nodes among the threads: the history of the completed
    operations, extended by response records for the pending operations that have passed their linearization point (at
    most one per thread, with the result fixed there: `lpRet`), has a sequential order that respects real time and in
    which every `put n` adds a node that is not in the bag, every `get → n` removes a node `n` that is in the bag, and
    `get → empty` happens only when the bag is empty. -/
theorem C21_tagged_bag_linearizable (own0 : Nat → Tid) (sched : List (Tid × Act)) (s : TaggedFreeList.St)
    (os : List (Tid × Obs)) (h : TaggedFreeList.model.run (TaggedFreeList.init own0) sched = some (s, os)) :
    ∃ extra : List (OpRec GOp GRet),
      (∀ e ∈ extra, pendingOf os e.tid = some (e.op, e.inv) ∧ e.res = os.length ∧
          TaggedFreeList.lpRet (s.pc e.tid) = some e.ret) ∧
      extra.Pairwise (fun a b => a.tid ≠ b.tid) ∧
      Linearizable bagT (historyOf os ++ extra) :=
  TaggedFreeList.tagged_bag_linearizable own0 sched s os h

/-- The same against `Spec.bag []` itself: the history with the thread argument of every operation dropped
    (`put [n]`, `get []`). -/
theorem C21_tagged_bag_linearizable_stripped (own0 : Nat → Tid) (sched : List (Tid × Act)) (s : TaggedFreeList.St)
    (os : List (Tid × Obs)) (h : TaggedFreeList.model.run (TaggedFreeList.init own0) sched = some (s, os)) :
    ∃ extra : List (OpRec GOp GRet),
      (∀ e ∈ extra, pendingOf os e.tid = some (e.op, e.inv) ∧ e.res = os.length ∧
          TaggedFreeList.lpRet (s.pc e.tid) = some e.ret) ∧
      extra.Pairwise (fun a b => a.tid ≠ b.tid) ∧
      Linearizable (bag []) ((historyOf os ++ extra).map stripRec) := by
  obtain ⟨extra, h1, h2, h3⟩ := C21_tagged_bag_linearizable own0 sched s os h
  exact ⟨extra, h1, h2, linearizable_bag_of_bagT h3⟩

/-- Runs at whose end no thread is between its linearization point and its return (in particular: complete runs). -/
theorem C21_tagged_bag_linearizable_no_effect_pending (own0 : Nat → Tid) (sched : List (Tid × Act))
    (s : TaggedFreeList.St) (os : List (Tid × Obs))
    (h : TaggedFreeList.model.run (TaggedFreeList.init own0) sched = some (s, os))
    (hq : ∀ t, TaggedFreeList.lpRet (s.pc t) = none) : Linearizable bagT (historyOf os) := by
  obtain ⟨extra, hex, -, hlin⟩ := C21_tagged_bag_linearizable own0 sched s os h
  have : extra = [] := by
    apply List.eq_nil_iff_forall_not_mem.mpr
    intro e he
    have := (hex e he).2.2
    rw [hq] at this; simp at this
  simpa [this] using hlin

/-- `get` answers "empty" only if the list was empty at an instant inside the call: `m_Head` was null when the `get`
    loaded it (or when its CAS failed). -/
theorem C21_tagged_empty_means_empty (own0 : Nat → Tid) (sched : List (Tid × Act)) (s : TaggedFreeList.St)
    (os : List (Tid × Obs)) (h : TaggedFreeList.model.run (TaggedFreeList.init own0) sched = some (s, os))
    (r : OpRec GOp GRet) (hr : r ∈ historyOf os) (hret : r.ret = [0]) :
    ∃ j, r.inv < j ∧ j < r.res ∧
      ∃ s1, (TaggedFreeList.model.run (TaggedFreeList.init own0) (sched.take j)).map (·.1) = some s1 ∧
        s1.head.1 = none ∧ TaggedFreeList.Chain s1.next s1.head.1 [] :=
  TaggedFreeList.tagged_empty_hindsight own0 sched s os h r hr hret

/-! ### Non-vacuity: the theorem on the race of `C21FreeLists.taggedRaceSched` -/

/-- The theorem applied to `taggedRaceSched` (a `get` of thread 1 races with `put( n2 )` of thread 0 and takes the node
    that was put while it was running): the run exists, no hypothesis is left. -/
example : ∃ s os, TaggedFreeList.model.run (TaggedFreeList.init (fun _ => 0)) taggedRaceSched = some (s, os) ∧
    ∃ extra : List (OpRec GOp GRet),
      (∀ e ∈ extra, pendingOf os e.tid = some (e.op, e.inv) ∧ e.res = os.length ∧
          TaggedFreeList.lpRet (s.pc e.tid) = some e.ret) ∧
      extra.Pairwise (fun a b => a.tid ≠ b.tid) ∧
      Linearizable bagT (historyOf os ++ extra) := by
  have h : (TaggedFreeList.model.run (TaggedFreeList.init (fun _ => 0)) taggedRaceSched).isSome = true := by
    decide +kernel
  obtain ⟨⟨s, os⟩, hr⟩ := Option.isSome_iff_exists.mp h
  exact ⟨s, os, hr, C21_tagged_bag_linearizable (fun _ => 0) taggedRaceSched s os hr⟩

/-- The same run cut after the put's successful CAS (12 actions): the `put( n2 )` of thread 0 is pending PAST its
    linearization point, the `get` of thread 1 is pending before its own. -/
example : ∃ s os, TaggedFreeList.model.run (TaggedFreeList.init (fun _ => 0)) (taggedRaceSched.take 12) = some (s, os) ∧
    ∃ extra : List (OpRec GOp GRet),
      (∀ e ∈ extra, pendingOf os e.tid = some (e.op, e.inv) ∧ e.res = os.length ∧
          TaggedFreeList.lpRet (s.pc e.tid) = some e.ret) ∧
      extra.Pairwise (fun a b => a.tid ≠ b.tid) ∧
      Linearizable bagT (historyOf os ++ extra) := by
  have h : (TaggedFreeList.model.run (TaggedFreeList.init (fun _ => 0)) (taggedRaceSched.take 12)).isSome = true := by
    decide +kernel
  obtain ⟨⟨s, os⟩, hr⟩ := Option.isSome_iff_exists.mp h
  exact ⟨s, os, hr, C21_tagged_bag_linearizable (fun _ => 0) _ s os hr⟩

set_option synthInstance.maxSize 4000 in
/-- What the theorem talks about there: one completed operation, thread 0 past its linearization point (`lpRet` = its
    future result), thread 1 not. -/
example : (TaggedFreeList.model.run (TaggedFreeList.init (fun _ => 0)) (taggedRaceSched.take 12)).map
    (fun r => (historyOf r.2, TaggedFreeList.lpRet (r.1.pc 0), TaggedFreeList.lpRet (r.1.pc 1),
      pendingOf r.2 0, pendingOf r.2 1)) =
    some ([⟨0, ⟨"put", [0, 1]⟩, [1], 0, 4⟩], some [1], none, some (⟨"put", [0, 2]⟩, 6), some (⟨"get", [1]⟩, 5)) := by
  decide +kernel

/-- The history of the complete race, and the verified checker on it: accepted against the bag; the same history with
    the `get` answering "empty" (n1 and n2 are in the bag), or returning n1 twice, is rejected. -/
example : (TaggedFreeList.model.run (TaggedFreeList.init (fun _ => 0)) taggedRaceSched).map (fun r => historyOf r.2) =
    some [⟨0, ⟨"put", [0, 1]⟩, [1], 0, 4⟩, ⟨0, ⟨"put", [0, 2]⟩, [1], 6, 12⟩, ⟨1, ⟨"get", [1]⟩, [1, 2], 5, 16⟩] ∧
    linCheck bagT
      [⟨0, ⟨"put", [0, 1]⟩, [1], 0, 4⟩, ⟨0, ⟨"put", [0, 2]⟩, [1], 6, 12⟩, ⟨1, ⟨"get", [1]⟩, [1, 2], 5, 16⟩] = true ∧
    linCheck bagT
      [⟨0, ⟨"put", [0, 1]⟩, [1], 0, 4⟩, ⟨0, ⟨"put", [0, 2]⟩, [1], 6, 12⟩, ⟨1, ⟨"get", [1]⟩, [0], 5, 16⟩] = false ∧
    linCheck bagT
      [⟨0, ⟨"put", [0, 1]⟩, [1], 0, 4⟩, ⟨1, ⟨"get", [1]⟩, [1, 1], 5, 16⟩, ⟨1, ⟨"get", [1]⟩, [1, 1], 17, 20⟩] = false := by
  decide +kernel

/-! ### FreeList: NOT linearizable to the bag -/

def steps (t : Tid) (n : Nat) : List (Tid × Act) := List.replicate n (t, .step)

/-- The hand-over.  Thread 0 owns all nodes and puts n1.  Thread 1 calls `get`, loads head = n1 and takes a reference
    (word 2).  Thread 0 calls `get`, takes n1 (word 3, head := null, word 1) and returns it; calls `put( n1 )`: the
    `fetch_add( SHOULD_BE_ON_FREELIST )` returns 1, not 0, so `put` RETURNS without linking the node (word
    0x80000001); calls `get`: head is null, the answer is "empty".  Then thread 1 goes on: its CAS on the head fails,
    it drops its reference (`fetch_sub( 1 )` returns 0x80000001), so IT links n1 (`add_knowing_refcount_is_zero`), and,
    the head value its failed CAS saw being null, its own `get` answers "empty" as well. -/
def handoverSched : List (Tid × Act) :=
  [(0, .invoke ⟨"put", [0, 1]⟩)] ++ steps 0 5 ++ [(0, .ret)] ++
  [(1, .invoke ⟨"get", [1]⟩)] ++ steps 1 3 ++
  [(0, .invoke ⟨"get", [0]⟩)] ++ steps 0 6 ++ [(0, .ret)] ++
  [(0, .invoke ⟨"put", [0, 1]⟩)] ++ steps 0 1 ++ [(0, .ret)] ++
  [(0, .invoke ⟨"get", [0]⟩)] ++ steps 0 1 ++ [(0, .ret)] ++
  steps 1 7 ++ [(1, .ret)]

example : (FreeList.model.run (FreeList.init (fun _ => 0)) handoverSched).map (fun r => r.2.drop 19) = some
    [(0, .call ⟨"put", [0, 1]⟩),
     (0, .ev ⟨"add", "n1", "1", "2147483648"⟩),        -- old word 1, not 0: put does not link the node
     (0, .ret [1]),
     (0, .call ⟨"get", [0]⟩),
     (0, .ev ⟨"ld", "head", "null", ""⟩),
     (0, .ret [0]),                                     -- "empty", after the thread's own completed put
     (1, .ev ⟨"ld", "n1.next", "null", ""⟩),
     (1, .ev ⟨"cas-", "head", "null", "n1"⟩),
     (1, .ev ⟨"sub", "n1", "2147483649", "1"⟩),        -- the last reference: thread 1 has to link n1
     (1, .ev ⟨"ld", "head", "null", ""⟩),
     (1, .ev ⟨"st", "n1.next", "null", ""⟩),
     (1, .ev ⟨"st", "n1", "1", ""⟩),
     (1, .ev ⟨"cas+", "head", "null", "n1"⟩),
     (1, .ret [0])] := by decide +kernel

example : (FreeList.model.run (FreeList.init (fun _ => 0)) handoverSched).map (fun r => historyOf r.2) = some
    [⟨0, ⟨"put", [0, 1]⟩, [1], 0, 6⟩, ⟨0, ⟨"get", [0]⟩, [1, 1], 11, 18⟩, ⟨0, ⟨"put", [0, 1]⟩, [1], 19, 21⟩,
     ⟨0, ⟨"get", [0]⟩, [0], 22, 24⟩, ⟨1, ⟨"get", [1]⟩, [0], 7, 32⟩] := by decide +kernel

/-- **FreeList is not linearizable to the bag.**  There is a complete run of the machine (every operation has returned,
    every thread is idle) whose history has no linearization to the bag. -/
theorem C21_freelist_not_bag_linearizable :
    ∃ sched s os, FreeList.model.run (FreeList.init (fun _ => 0)) sched = some (s, os) ∧
      s.pc 0 = .idle ∧ s.pc 1 = .idle ∧ ¬ Linearizable bagT (historyOf os) := by
  have h : (FreeList.model.run (FreeList.init (fun _ => 0)) handoverSched).map
      (fun r => (decide (r.1.pc 0 = .idle ∧ r.1.pc 1 = .idle), linCheck bagT (historyOf r.2),
        (historyOf r.2).all (fun o => decide (o.inv ≤ o.res)))) = some (true, false, true) := by decide +kernel
  cases hr : FreeList.model.run (FreeList.init (fun _ => 0)) handoverSched with
  | none => rw [hr] at h; simp at h
  | some p =>
    obtain ⟨s, os⟩ := p
    rw [hr] at h
    simp only [Option.map_some, Option.some.injEq, Prod.mk.injEq, decide_eq_true_eq, List.all_eq_true] at h
    obtain ⟨h1, h2, h3⟩ := h
    refine ⟨handoverSched, s, os, hr, h1.1, h1.2, ?_⟩
    intro hlin
    have := (linCheck_iff bagT (historyOf os) h3).mpr hlin
    rw [h2] at this
    cases this

/-! ### FreeList: the weak bag -/

/-- **FreeList is linearizable to the weak bag** (PARTIAL: `get → empty` is allowed at any time; results relabelled
    `[0] ↦ [2]`).  For EVERY run of the machine the history of the completed operations, extended by the pending
    operations that have passed their linearization point (for `put`: its first step), has a sequential order that
    respects real time and in which every `get → n` removes a node that some earlier `put n` added and no later
    `get` has removed. -/
theorem C21_freelist_bag_linearizable_partial (own0 : Nat → Tid) (sched : List (Tid × Act)) (s : FreeList.St)
    (os : List (Tid × Obs)) (h : FreeList.model.run (FreeList.init own0) sched = some (s, os)) :
    ∃ extra : List (OpRec GOp GRet),
      (∀ e ∈ extra, pendingOf (mapOs FreeList.relab os) e.tid = some (e.op, e.inv) ∧
          e.res = (mapOs FreeList.relab os).length ∧ FreeList.lpRetF (s.pc e.tid) = some e.ret) ∧
      extra.Pairwise (fun a b => a.tid ≠ b.tid) ∧
      Linearizable FreeList.bagWR (historyOf (mapOs FreeList.relab os) ++ extra) :=
  FreeList.freelist_bag_linearizable_partial own0 sched s os h

/-- The theorem on the race `freelistRaceSched` (a `get` races with a `put`) and on the hand-over run. -/
example : ∃ s os, FreeList.model.run (FreeList.init (fun _ => 0)) freelistRaceSched = some (s, os) ∧
    ∃ extra : List (OpRec GOp GRet),
      (∀ e ∈ extra, pendingOf (mapOs FreeList.relab os) e.tid = some (e.op, e.inv) ∧
          e.res = (mapOs FreeList.relab os).length ∧ FreeList.lpRetF (s.pc e.tid) = some e.ret) ∧
      extra.Pairwise (fun a b => a.tid ≠ b.tid) ∧
      Linearizable FreeList.bagWR (historyOf (mapOs FreeList.relab os) ++ extra) := by
  have h : (FreeList.model.run (FreeList.init (fun _ => 0)) freelistRaceSched).isSome = true := by decide +kernel
  obtain ⟨⟨s, os⟩, hr⟩ := Option.isSome_iff_exists.mp h
  exact ⟨s, os, hr, C21_freelist_bag_linearizable_partial (fun _ => 0) freelistRaceSched s os hr⟩

example : ∃ s os, FreeList.model.run (FreeList.init (fun _ => 0)) handoverSched = some (s, os) ∧
    ∃ extra : List (OpRec GOp GRet),
      (∀ e ∈ extra, pendingOf (mapOs FreeList.relab os) e.tid = some (e.op, e.inv) ∧
          e.res = (mapOs FreeList.relab os).length ∧ FreeList.lpRetF (s.pc e.tid) = some e.ret) ∧
      extra.Pairwise (fun a b => a.tid ≠ b.tid) ∧
      Linearizable FreeList.bagWR (historyOf (mapOs FreeList.relab os) ++ extra) := by
  have h : (FreeList.model.run (FreeList.init (fun _ => 0)) handoverSched).isSome = true := by decide +kernel
  obtain ⟨⟨s, os⟩, hr⟩ := Option.isSome_iff_exists.mp h
  exact ⟨s, os, hr, C21_freelist_bag_linearizable_partial (fun _ => 0) handoverSched s os hr⟩

/-- The relabelled history of the hand-over run is accepted by the checker against the weak bag (and rejected, as
    shown above, against the bag); a history that hands n1 out twice is rejected by the weak bag too. -/
example : (FreeList.model.run (FreeList.init (fun _ => 0)) handoverSched).map
      (fun r => linCheck FreeList.bagWR (historyOf (mapOs FreeList.relab r.2))) = some true ∧
    linCheck FreeList.bagWR
      [⟨0, ⟨"put", [0, 1]⟩, [1], 0, 6⟩, ⟨0, ⟨"get", [0]⟩, [1, 1], 11, 18⟩, ⟨1, ⟨"get", [1]⟩, [1, 1], 7, 32⟩] = false := by
  decide +kernel

end CdsVerif.Props.C21FreeListsLin


/-
  BasketQueue model (property C06): what is proved for every run, and what is not.

  PROVED (this file, from `Inv.lean` / `Steps.lean` and the generic ghost-log construction
  `Algo/QueueLin/GhostP.lean`):
    * the structural invariant holds in every reachable state (`sinv_reachable`);
    * every linearization point is a step of the abstract queue (`step_refines`): a `deq` is the `fifo` transition (it
      takes the FIRST item, or answers "empty" on the empty queue); an `enq v` inserts `v` — at the END for the first
      CAS of `enqueue`, but possibly in the MIDDLE for the basket CAS (`BEff`);
    * hence every run is linearizable to the unordered POOL (`basket_pool_linearizable`): no loss, no duplication, no
      invention, "empty" only if the queue was empty at an instant inside the call (`basket_empty_hindsight`);
    * an item stays in the chain from `m_pHead`, with an unmarked link in front of it, until its dequeue's linearization
      point (`reachable_items`).
  NOT PROVED: linearizability to the FIFO queue.  The gap is exactly the ORDER of the enqueues: the abstract queue of
  this file orders the items by their position in the list, and a basket CAS puts its item in FRONT of items that
  were linked earlier (all of them by enqueues that overlap it).  A linearization therefore has to place the basket
  enqueue BEFORE those enqueues, i.e. before its own linking CAS — a linearization point that depends on the future of
  the run.  The ghost log of `GhostP.lean` only appends; what is missing is a log with insertion "before the k-th
  last enqueue" together with the real-time argument that every entry overtaken was still pending, or returned
  after, the invocation of the overtaking enqueue.
-/
import CdsVerif.Algo.Basket.Steps
import CdsVerif.Algo.QueueLin.GhostP
namespace CdsVerif.Algo.Basket
open CdsVerif.Machine CdsVerif.Spec CdsVerif.Lin CdsVerif.Algo.QueueLin CdsVerif.Algo.QueueLinP

/-- In state `s1` thread `t` is about to perform the validating load of `h->m_pNext`, which is null: `h` is `head`
    (and `tail`, as read by `t`), the chain from `head` is `h` alone, the abstract queue is empty. -/
def EmptyAt (s1 : St) (t : Tid) : Prop :=
  ∃ h b, s1.pc t = .dNx2 h h (none, b) ∧ s1.head = h ∧ s1.nptr h = none ∧ liveNodes s1 = [h] ∧ absQueue s1 = []

/-- The BasketQueue machine (any `maxHops`, any warm-up) against the pool. -/
def psys (mh warm : Nat) : QSys St where
  spec := poolSpec
  model := model
  init := initW mh warm
  Inv := SInv
  absQ := absQueue
  lpRet := fun s t => lpRet (s.pc t)
  postRet := fun s t => postRet (s.pc t)
  opOf := fun s t => opOf s.val (s.pc t)
  EmptyAt := EmptyAt

theorem opOf_none_of_post {val : Nat → Int} {pc : PC} {r : GRet} (h : postRet pc = some r) : opOf val pc = none := by
  cases pc <;> simp_all [postRet, opOf, enqNode]
  all_goals (rename_i x; cases x <;> simp_all [postRet, opOf, enqNode])

theorem lpRet_of_post {pc : PC} {r : GRet} (h : postRet pc = some r) : lpRet pc = some r := by
  cases pc <;> simp_all [postRet, lpRet]
  all_goals (rename_i x; cases x <;> simp_all [postRet, lpRet])

theorem postRet_of_lp {pc : PC} {r : GRet} (h : lpRet pc = some r) (hr : r ≠ [0]) : postRet pc = some r := by
  cases pc <;> simp_all [postRet, lpRet]
  all_goals first
    | (split at h <;> simp_all)
    | (rename_i x; cases x <;> simp_all [postRet, lpRet])

theorem beff_peff {q q' : List Int} {op : GOp} {r : GRet} (h : BEff q op r q') : PEff poolSpec q op r q' := by
  rcases h with ⟨v, X, Y, rfl, rfl, rfl, rfl⟩ | ⟨rfl, h⟩
  · exact peff_enq v X Y
  · exact peff_deq q q' r h

theorem psys_ok (mh warm : Nat) : (psys mh warm).OK where
  ret0 := pool_ret0
  spec_init := rfl
  inv_init := ⟨[], List.range warm, [warm], sinv_initW mh warm⟩
  abs_init := by
    have := (sinv_initW mh warm).absQueue_eq
    simpa [psys] using this
  lp_init := by intro t; simp [psys, initW, lpRet]
  op_init := by intro t; simp [psys, initW, opOf, enqNode]
  post_lp := by intro s t r h; exact lpRet_of_post h
  post_op := by intro s t r h; exact opOf_none_of_post h
  lp_post := by intro s t r h hr; exact postRet_of_lp h hr
  empty_abs := by intro s t ⟨_, _, _, _, _, _, h⟩; exact h
  invoke := by
    intro s t op s' ⟨G, M, Q, hl⟩ hs
    obtain ⟨hl', he⟩ := sinvl_invoke hl hs
    refine ⟨⟨G, M, Q, hl'⟩, ⟨?_, ?_⟩, ?_, he.now.1, he.now.2, ?_⟩
    · intro t2 ht; simp only [psys]; rw [he.frame t2 ht]
    · intro t2 ht; simp only [psys]; rw [he.frame t2 ht, he.ops t2 ht]
    · simp [psys, he.was, lpRet]
    · simp only [psys]; rw [hl.absQueue_eq, hl'.absQueue_eq, he.abs]
  step := by
    intro s t s' ev ⟨G, M, Q, hl⟩ hs
    obtain ⟨G', M', Q', hl', he⟩ := sinvl_step hl hs
    refine ⟨⟨G', M', Q', hl'⟩, ⟨?_, ?_⟩, ?_, ?_, he.keep, he.op, ?_⟩
    · intro t2 ht; simp only [psys]; rw [he.frame t2 ht]
    · intro t2 ht; simp only [psys]; rw [he.frame t2 ht, he.val]
    · simp only [psys]; rw [hl.absQueue_eq, hl'.absQueue_eq, he.val]
      intro h1 r h2
      obtain ⟨op, ho, hb⟩ := he.lp h1 r h2
      exact ⟨op, ho, beff_peff hb⟩
    · simp only [psys]; rw [hl.absQueue_eq, hl'.absQueue_eq, he.val]; intro hc; rw [he.nolp hc]
    · intro h1 h2
      obtain ⟨h, b, e1, e2, e3, e4⟩ := he.emp h1 h2
      exact ⟨h, b, e1, e2, e3, by rw [hl.liveNodes_eq, e4], by rw [hl.absQueue_eq, e4]; rfl⟩
  result := by
    intro s t s' r ⟨G, M, Q, hl⟩ hs
    obtain ⟨hl', hdone, hidl, hframe, hval⟩ := sinvl_result hl hs
    refine ⟨⟨G, M, Q, hl'⟩, ⟨?_, ?_⟩, ?_, ?_, ?_, ?_⟩
    · intro t2 ht; simp only [psys]; rw [hframe t2 ht]
    · intro t2 ht; simp only [psys]; rw [hframe t2 ht, hval]
    · simp [psys, hdone, lpRet]
    · simp [psys, hidl, lpRet]
    · simp [psys, hidl, opOf, enqNode]
    · simp only [psys]; rw [hl.absQueue_eq, hl'.absQueue_eq, hval]

theorem sinv_reachable (mh warm : Nat) (s : St) (h : model.Reachable (initW mh warm) s) : SInv s :=
  QueueLinP.inv_reachable (psys_ok mh warm) s h

/-- **BasketQueue is linearizable to the pool** (Herlihy–Wing, with completion of pending operations): for every run,
    the history of the completed operations, extended by the pending operations that have passed their linearization
    point, has a sequential order that respects real time and in which every `deq` returns an item that is present
    (enqueued and not yet dequeued) and answers "empty" only when nothing is present. -/
theorem basket_pool_linearizable (mh warm : Nat) (sched : List (Tid × Act)) (s : St) (os : List (Tid × Obs))
    (h : model.run (initW mh warm) sched = some (s, os)) :
    ∃ extra : List (OpRec GOp GRet),
      (∀ e ∈ extra, pendingOf os e.tid = some (e.op, e.inv) ∧ e.res = os.length ∧
          postRet (s.pc e.tid) = some e.ret) ∧
      extra.Pairwise (fun a b => a.tid ≠ b.tid) ∧
      Linearizable poolSpec (historyOf os ++ extra) :=
  QueueLinP.linearizable (psys_ok mh warm) sched s os h

theorem basket_pool_linearizable_no_effect_pending (mh warm : Nat) (sched : List (Tid × Act)) (s : St)
    (os : List (Tid × Obs)) (h : model.run (initW mh warm) sched = some (s, os))
    (hq : ∀ t, postRet (s.pc t) = none) : Linearizable poolSpec (historyOf os) :=
  QueueLinP.linearizable_no_effect_pending (psys_ok mh warm) sched s os h hq

/-- No duplication (and no loss of count): for every value `v` the completed dequeues that returned `v` are at most
    as many as the `enq v` operations of the run (completed, or pending past their linearization point). -/
theorem basket_no_duplication (mh warm : Nat) (sched : List (Tid × Act)) (s : St) (os : List (Tid × Obs))
    (h : model.run (initW mh warm) sched = some (s, os)) :
    ∃ extra : List (OpRec GOp GRet),
      (∀ e ∈ extra, pendingOf os e.tid = some (e.op, e.inv) ∧ e.res = os.length ∧
          postRet (s.pc e.tid) = some e.ret) ∧
      extra.Pairwise (fun a b => a.tid ≠ b.tid) ∧
      ∀ v, (historyOf os).countP (QueueLinP.isDeqOf v) ≤ (historyOf os ++ extra).countP (QueueLinP.isEnq v) := by
  obtain ⟨extra, hex, hpw, hlin⟩ := basket_pool_linearizable mh warm sched s os h
  refine ⟨extra, hex, hpw, fun v => ?_⟩
  have := pool_linearizable_no_dup hlin v
  rw [List.countP_append] at this
  omega

/-- **The empty dequeue, on runs.** -/
theorem basket_empty_hindsight (mh warm : Nat) (sched : List (Tid × Act)) (s : St) (os : List (Tid × Obs))
    (h : model.run (initW mh warm) sched = some (s, os)) (r : OpRec GOp GRet) (hr : r ∈ historyOf os)
    (hret : r.ret = [0]) :
    ∃ j s1, r.inv < j ∧ j < r.res ∧ model.run (initW mh warm) (sched.take j) = some (s1, os.take j) ∧
      EmptyAt s1 r.tid ∧ absQueue s1 = [] :=
  QueueLinP.empty_hindsight (psys_ok mh warm) sched s os h r hr hret

/-- Refinement, on `absQueue`: at a linearization point a `deq` is the `fifo` transition and an `enq v` inserts `v`
    into the abstract queue (`BEff`); every other step leaves the abstract queue unchanged. -/
theorem step_refines {s s' : St} {t : Tid} {ev : Ev} (h : SInv s) (hs : step s t = some (s', ev)) :
    (lpRet (s.pc t) = none → ∀ r, lpRet (s'.pc t) = some r →
      ∃ op, opOf s.val (s.pc t) = some op ∧ BEff (absQueue s) op r (absQueue s')) ∧
    ((lpRet (s.pc t) ≠ none ∨ lpRet (s'.pc t) = none) → absQueue s' = absQueue s) := by
  obtain ⟨G, M, Q, hl⟩ := h
  obtain ⟨G', M', Q', hl', he⟩ := sinvl_step hl hs
  rw [hl.absQueue_eq, hl'.absQueue_eq, he.val]
  exact ⟨he.lp, fun hc => by rw [he.nolp hc]⟩

/-- Structure of the reachable states: the chain from `head` is finite and duplicate-free; its nodes with a marked
    link form a prefix, `liveNodes` is the rest (the current dummy, then the items: every item is reachable from
    `head` and the links from the current dummy on are not marked). -/
theorem reachable_items (mh warm : Nat) (s : St) (h : model.Reachable (initW mh warm) s) :
    ∃ M, absNodes s = M ++ liveNodes s ∧ (absNodes s).Nodup ∧ liveNodes s ≠ [] ∧
      (∀ a ∈ M, s.nbit a = true ∧ s.nptr a ≠ none) ∧ (∀ a ∈ liveNodes s, s.nptr a ≠ none → s.nbit a = false) ∧
      Chain s.nptr (some s.head) (absNodes s) := by
  obtain ⟨G, M, Q, hl⟩ := sinv_reachable mh warm s h
  refine ⟨M, ?_, ?_, ?_, hl.bM, ?_, ?_⟩
  · rw [hl.absNodes_eq, hl.liveNodes_eq]
  · rw [hl.absNodes_eq]; exact hl.nodup
  · rw [hl.liveNodes_eq]; exact hl.qne
  · rw [hl.liveNodes_eq]; exact hl.bQ
  · rw [hl.absNodes_eq]; exact hl.chain

end CdsVerif.Algo.Basket

/-
  Preservation of the invariant `KInvR` (FC/KernelRInv.lean) by the atomic steps of the refined flat-combining kernel
  machine, part B: program counters cpState, cpReq, cpAge, cpExec, cpDone, cpNext, ccHd, ccState, ccAge, ccNx, ccCas.
  (Generated once by a script, one lemma per program counter; ordinary Lean.)
-/
import CdsVerif.Algo.FC.KernelRInv
namespace CdsVerif.Algo.FC.KernelR
open CdsVerif.Machine CdsVerif.Spec
open CdsVerif.Algo.FC.Kernel (Cfg RV RS Cont CS)

set_option maxHeartbeats 8000000 in
theorem step_cpState {cfg : Cfg} {s s' : St} {t : Tid} {ev : Ev} {c : CS} {p : Cur}
    (h : KInvR cfg s) (hpc : s.pc t = .cpState c p) (hs : step cfg s t = some (s', ev)) : KInvR cfg s' := by
  obtain ⟨h_bound, h_lockFree, h_hold, h_noReq, h_someReq, h_respExec, h_opExec, h_atDone, h_atApply, h_rel, h_wtUnl, h_fin, h_le1, h_nodup, h_notIn, h_inact, h_preInact, h_linkAct, h_unlinked, h_inactOut, h_ccAct, h_cmb, h_curIn, h_curInN, h_pass, h_passN, h_post⟩ := h
  have s_pass := h_pass t; have s_passN := h_passN t; have s_post := h_post t; have s_hold := h_hold t
  have s_noReq := h_noReq t; have s_someReq := h_someReq t; have s_bound := h_bound t
  have s_curIn := h_curIn t; have s_curInN := h_curInN t; have s_notIn := h_notIn t; have s_linkAct := h_linkAct t
  have s_preInact := h_preInact t; have s_ccAct := h_ccAct t; have s_inactOut := h_inactOut t; have s_atApply := h_atApply t; have s_atDone := h_atDone t
  simp only [hpc] at s_pass s_passN s_post s_hold s_noReq s_someReq s_bound s_curIn s_curInN s_notIn s_linkAct s_preInact s_ccAct s_inactOut s_atApply s_atDone
  simp only [step, hpc] at hs
  cases p with
  | none =>
    simp only [Option.some.injEq, Prod.mk.injEq] at hs; obtain ⟨rfl, -⟩ := hs
    kinv_close
  | some k =>
    simp only [Option.some.injEq, Prod.mk.injEq] at hs; obtain ⟨rfl, -⟩ := hs
    kinv_close

set_option maxHeartbeats 8000000 in
theorem step_cpReq {cfg : Cfg} {s s' : St} {t : Tid} {ev : Ev} {c : CS} {k : Nat}
    (h : KInvR cfg s) (hpc : s.pc t = .cpReq c k) (hs : step cfg s t = some (s', ev)) : KInvR cfg s' := by
  obtain ⟨h_bound, h_lockFree, h_hold, h_noReq, h_someReq, h_respExec, h_opExec, h_atDone, h_atApply, h_rel, h_wtUnl, h_fin, h_le1, h_nodup, h_notIn, h_inact, h_preInact, h_linkAct, h_unlinked, h_inactOut, h_ccAct, h_cmb, h_curIn, h_curInN, h_pass, h_passN, h_post⟩ := h
  have s_pass := h_pass t; have s_passN := h_passN t; have s_post := h_post t; have s_hold := h_hold t
  have s_noReq := h_noReq t; have s_someReq := h_someReq t; have s_bound := h_bound t
  have s_curIn := h_curIn t; have s_curInN := h_curInN t; have s_notIn := h_notIn t; have s_linkAct := h_linkAct t
  have s_preInact := h_preInact t; have s_ccAct := h_ccAct t; have s_inactOut := h_inactOut t; have s_atApply := h_atApply t; have s_atDone := h_atDone t
  simp only [hpc] at s_pass s_passN s_post s_hold s_noReq s_someReq s_bound s_curIn s_curInN s_notIn s_linkAct s_preInact s_ccAct s_inactOut s_atApply s_atDone
  simp only [step, hpc] at hs
  simp only [Option.some.injEq, Prod.mk.injEq] at hs; obtain ⟨rfl, -⟩ := hs
  kinv_close

set_option maxHeartbeats 8000000 in
theorem step_cpAge {cfg : Cfg} {s s' : St} {t : Tid} {ev : Ev} {c : CS} {k : Nat}
    (h : KInvR cfg s) (hpc : s.pc t = .cpAge c k) (hs : step cfg s t = some (s', ev)) : KInvR cfg s' := by
  obtain ⟨h_bound, h_lockFree, h_hold, h_noReq, h_someReq, h_respExec, h_opExec, h_atDone, h_atApply, h_rel, h_wtUnl, h_fin, h_le1, h_nodup, h_notIn, h_inact, h_preInact, h_linkAct, h_unlinked, h_inactOut, h_ccAct, h_cmb, h_curIn, h_curInN, h_pass, h_passN, h_post⟩ := h
  have s_pass := h_pass t; have s_passN := h_passN t; have s_post := h_post t; have s_hold := h_hold t
  have s_noReq := h_noReq t; have s_someReq := h_someReq t; have s_bound := h_bound t
  have s_curIn := h_curIn t; have s_curInN := h_curInN t; have s_notIn := h_notIn t; have s_linkAct := h_linkAct t
  have s_preInact := h_preInact t; have s_ccAct := h_ccAct t; have s_inactOut := h_inactOut t; have s_atApply := h_atApply t; have s_atDone := h_atDone t
  simp only [hpc] at s_pass s_passN s_post s_hold s_noReq s_someReq s_bound s_curIn s_curInN s_notIn s_linkAct s_preInact s_ccAct s_inactOut s_atApply s_atDone
  simp only [step, hpc] at hs
  simp only [Option.some.injEq, Prod.mk.injEq] at hs; obtain ⟨rfl, -⟩ := hs
  kinv_close

set_option maxHeartbeats 8000000 in
theorem step_cpExec {cfg : Cfg} {s s' : St} {t : Tid} {ev : Ev} {c : CS} {k : Nat}
    (h : KInvR cfg s) (hpc : s.pc t = .cpExec c k) (hs : step cfg s t = some (s', ev)) : KInvR cfg s' := by
  obtain ⟨h_bound, h_lockFree, h_hold, h_noReq, h_someReq, h_respExec, h_opExec, h_atDone, h_atApply, h_rel, h_wtUnl, h_fin, h_le1, h_nodup, h_notIn, h_inact, h_preInact, h_linkAct, h_unlinked, h_inactOut, h_ccAct, h_cmb, h_curIn, h_curInN, h_pass, h_passN, h_post⟩ := h
  have s_pass := h_pass t; have s_passN := h_passN t; have s_post := h_post t; have s_hold := h_hold t
  have s_noReq := h_noReq t; have s_someReq := h_someReq t; have s_bound := h_bound t
  have s_curIn := h_curIn t; have s_curInN := h_curInN t; have s_notIn := h_notIn t; have s_linkAct := h_linkAct t
  have s_preInact := h_preInact t; have s_ccAct := h_ccAct t; have s_inactOut := h_inactOut t; have s_atApply := h_atApply t; have s_atDone := h_atDone t
  simp only [hpc] at s_pass s_passN s_post s_hold s_noReq s_someReq s_bound s_curIn s_curInN s_notIn s_linkAct s_preInact s_ccAct s_inactOut s_atApply s_atDone
  simp only [step, hpc] at hs
  simp only [Option.some.injEq, Prod.mk.injEq] at hs; obtain ⟨rfl, -⟩ := hs
  kinv_close

set_option maxHeartbeats 8000000 in
theorem step_cpDone {cfg : Cfg} {s s' : St} {t : Tid} {ev : Ev} {c : CS} {k : Nat}
    (h : KInvR cfg s) (hpc : s.pc t = .cpDone c k) (hs : step cfg s t = some (s', ev)) : KInvR cfg s' := by
  obtain ⟨h_bound, h_lockFree, h_hold, h_noReq, h_someReq, h_respExec, h_opExec, h_atDone, h_atApply, h_rel, h_wtUnl, h_fin, h_le1, h_nodup, h_notIn, h_inact, h_preInact, h_linkAct, h_unlinked, h_inactOut, h_ccAct, h_cmb, h_curIn, h_curInN, h_pass, h_passN, h_post⟩ := h
  have s_pass := h_pass t; have s_passN := h_passN t; have s_post := h_post t; have s_hold := h_hold t
  have s_noReq := h_noReq t; have s_someReq := h_someReq t; have s_bound := h_bound t
  have s_curIn := h_curIn t; have s_curInN := h_curInN t; have s_notIn := h_notIn t; have s_linkAct := h_linkAct t
  have s_preInact := h_preInact t; have s_ccAct := h_ccAct t; have s_inactOut := h_inactOut t; have s_atApply := h_atApply t; have s_atDone := h_atDone t
  simp only [hpc] at s_pass s_passN s_post s_hold s_noReq s_someReq s_bound s_curIn s_curInN s_notIn s_linkAct s_preInact s_ccAct s_inactOut s_atApply s_atDone
  simp only [step, hpc] at hs
  simp only [Option.some.injEq, Prod.mk.injEq] at hs; obtain ⟨rfl, -⟩ := hs
  kinv_close

set_option maxHeartbeats 8000000 in
theorem step_cpNext {cfg : Cfg} {s s' : St} {t : Tid} {ev : Ev} {c : CS} {p : Cur}
    (h : KInvR cfg s) (hpc : s.pc t = .cpNext c p) (hs : step cfg s t = some (s', ev)) : KInvR cfg s' := by
  obtain ⟨h_bound, h_lockFree, h_hold, h_noReq, h_someReq, h_respExec, h_opExec, h_atDone, h_atApply, h_rel, h_wtUnl, h_fin, h_le1, h_nodup, h_notIn, h_inact, h_preInact, h_linkAct, h_unlinked, h_inactOut, h_ccAct, h_cmb, h_curIn, h_curInN, h_pass, h_passN, h_post⟩ := h
  have s_pass := h_pass t; have s_passN := h_passN t; have s_post := h_post t; have s_hold := h_hold t
  have s_noReq := h_noReq t; have s_someReq := h_someReq t; have s_bound := h_bound t
  have s_curIn := h_curIn t; have s_curInN := h_curInN t; have s_notIn := h_notIn t; have s_linkAct := h_linkAct t
  have s_preInact := h_preInact t; have s_ccAct := h_ccAct t; have s_inactOut := h_inactOut t; have s_atApply := h_atApply t; have s_atDone := h_atDone t
  simp only [hpc] at s_pass s_passN s_post s_hold s_noReq s_someReq s_bound s_curIn s_curInN s_notIn s_linkAct s_preInact s_ccAct s_inactOut s_atApply s_atDone
  simp only [step, hpc] at hs
  simp only [Option.some.injEq, Prod.mk.injEq] at hs; obtain ⟨rfl, -⟩ := hs
  have hp0 := s_passN c p rfl
  cases hsu : succOf s.list p with
  | some k' =>
    have hk' : k' ∈ s.list := succOf_mem hsu
    have hst : aheadStrict s.list p t → aheadIncl s.list (some k') t := ahead_step h_nodup hsu
    constructor <;> intros <;> (try dsimp only at *) <;>
      grind [upd, holds, hasReq, cpIdx, cpNextIdx, postPass, doneIdx, applyIdx, inactIdx, ccIdx, isLink, inPub, prePub]
  | none =>
    have hst : aheadStrict s.list p t → False := ahead_end hsu
    rcases passEnd_cases cfg c with ⟨c', he, hc'⟩ | he | he <;> simp only [he] <;>
      (constructor <;> intros <;> (try dsimp only at *) <;>
        grind [upd, holds, hasReq, cpIdx, cpNextIdx, postPass, doneIdx, applyIdx, inactIdx, ccIdx, isLink, inPub, prePub, aheadIncl])

set_option maxHeartbeats 8000000 in
theorem step_ccHd {cfg : Cfg} {s s' : St} {t : Tid} {ev : Ev} {a : Nat}
    (h : KInvR cfg s) (hpc : s.pc t = .ccHd a) (hs : step cfg s t = some (s', ev)) : KInvR cfg s' := by
  obtain ⟨h_bound, h_lockFree, h_hold, h_noReq, h_someReq, h_respExec, h_opExec, h_atDone, h_atApply, h_rel, h_wtUnl, h_fin, h_le1, h_nodup, h_notIn, h_inact, h_preInact, h_linkAct, h_unlinked, h_inactOut, h_ccAct, h_cmb, h_curIn, h_curInN, h_pass, h_passN, h_post⟩ := h
  have s_pass := h_pass t; have s_passN := h_passN t; have s_post := h_post t; have s_hold := h_hold t
  have s_noReq := h_noReq t; have s_someReq := h_someReq t; have s_bound := h_bound t
  have s_curIn := h_curIn t; have s_curInN := h_curInN t; have s_notIn := h_notIn t; have s_linkAct := h_linkAct t
  have s_preInact := h_preInact t; have s_ccAct := h_ccAct t; have s_inactOut := h_inactOut t; have s_atApply := h_atApply t; have s_atDone := h_atDone t
  simp only [hpc] at s_pass s_passN s_post s_hold s_noReq s_someReq s_bound s_curIn s_curInN s_notIn s_linkAct s_preInact s_ccAct s_inactOut s_atApply s_atDone
  simp only [step, hpc] at hs
  simp only [Option.some.injEq, Prod.mk.injEq] at hs; obtain ⟨rfl, -⟩ := hs
  cases hh : s.list.head? <;> kinv_close

set_option maxHeartbeats 8000000 in
theorem step_ccState {cfg : Cfg} {s s' : St} {t : Tid} {ev : Ev} {a : Nat} {pp : Cur} {k : Nat}
    (h : KInvR cfg s) (hpc : s.pc t = .ccState a pp k) (hs : step cfg s t = some (s', ev)) : KInvR cfg s' := by
  obtain ⟨h_bound, h_lockFree, h_hold, h_noReq, h_someReq, h_respExec, h_opExec, h_atDone, h_atApply, h_rel, h_wtUnl, h_fin, h_le1, h_nodup, h_notIn, h_inact, h_preInact, h_linkAct, h_unlinked, h_inactOut, h_ccAct, h_cmb, h_curIn, h_curInN, h_pass, h_passN, h_post⟩ := h
  have s_pass := h_pass t; have s_passN := h_passN t; have s_post := h_post t; have s_hold := h_hold t
  have s_noReq := h_noReq t; have s_someReq := h_someReq t; have s_bound := h_bound t
  have s_curIn := h_curIn t; have s_curInN := h_curInN t; have s_notIn := h_notIn t; have s_linkAct := h_linkAct t
  have s_preInact := h_preInact t; have s_ccAct := h_ccAct t; have s_inactOut := h_inactOut t; have s_atApply := h_atApply t; have s_atDone := h_atDone t
  simp only [hpc] at s_pass s_passN s_post s_hold s_noReq s_someReq s_bound s_curIn s_curInN s_notIn s_linkAct s_preInact s_ccAct s_inactOut s_atApply s_atDone
  simp only [step, hpc] at hs
  simp only [Option.some.injEq, Prod.mk.injEq] at hs; obtain ⟨rfl, -⟩ := hs
  kinv_close

set_option maxHeartbeats 8000000 in
theorem step_ccAge {cfg : Cfg} {s s' : St} {t : Tid} {ev : Ev} {a : Nat} {pp : Cur} {k : Nat}
    (h : KInvR cfg s) (hpc : s.pc t = .ccAge a pp k) (hs : step cfg s t = some (s', ev)) : KInvR cfg s' := by
  obtain ⟨h_bound, h_lockFree, h_hold, h_noReq, h_someReq, h_respExec, h_opExec, h_atDone, h_atApply, h_rel, h_wtUnl, h_fin, h_le1, h_nodup, h_notIn, h_inact, h_preInact, h_linkAct, h_unlinked, h_inactOut, h_ccAct, h_cmb, h_curIn, h_curInN, h_pass, h_passN, h_post⟩ := h
  have s_pass := h_pass t; have s_passN := h_passN t; have s_post := h_post t; have s_hold := h_hold t
  have s_noReq := h_noReq t; have s_someReq := h_someReq t; have s_bound := h_bound t
  have s_curIn := h_curIn t; have s_curInN := h_curInN t; have s_notIn := h_notIn t; have s_linkAct := h_linkAct t
  have s_preInact := h_preInact t; have s_ccAct := h_ccAct t; have s_inactOut := h_inactOut t; have s_atApply := h_atApply t; have s_atDone := h_atDone t
  simp only [hpc] at s_pass s_passN s_post s_hold s_noReq s_someReq s_bound s_curIn s_curInN s_notIn s_linkAct s_preInact s_ccAct s_inactOut s_atApply s_atDone
  simp only [step, hpc] at hs
  simp only [Option.some.injEq, Prod.mk.injEq] at hs; obtain ⟨rfl, -⟩ := hs
  kinv_close

set_option maxHeartbeats 8000000 in
theorem step_ccNx {cfg : Cfg} {s s' : St} {t : Tid} {ev : Ev} {a : Nat} {pp : Cur} {k : Nat}
    (h : KInvR cfg s) (hpc : s.pc t = .ccNx a pp k) (hs : step cfg s t = some (s', ev)) : KInvR cfg s' := by
  obtain ⟨h_bound, h_lockFree, h_hold, h_noReq, h_someReq, h_respExec, h_opExec, h_atDone, h_atApply, h_rel, h_wtUnl, h_fin, h_le1, h_nodup, h_notIn, h_inact, h_preInact, h_linkAct, h_unlinked, h_inactOut, h_ccAct, h_cmb, h_curIn, h_curInN, h_pass, h_passN, h_post⟩ := h
  have s_pass := h_pass t; have s_passN := h_passN t; have s_post := h_post t; have s_hold := h_hold t
  have s_noReq := h_noReq t; have s_someReq := h_someReq t; have s_bound := h_bound t
  have s_curIn := h_curIn t; have s_curInN := h_curInN t; have s_notIn := h_notIn t; have s_linkAct := h_linkAct t
  have s_preInact := h_preInact t; have s_ccAct := h_ccAct t; have s_inactOut := h_inactOut t; have s_atApply := h_atApply t; have s_atDone := h_atDone t
  simp only [hpc] at s_pass s_passN s_post s_hold s_noReq s_someReq s_bound s_curIn s_curInN s_notIn s_linkAct s_preInact s_ccAct s_inactOut s_atApply s_atDone
  simp only [step, hpc] at hs
  simp only [Option.some.injEq, Prod.mk.injEq] at hs; obtain ⟨rfl, -⟩ := hs
  kinv_close

set_option maxHeartbeats 8000000 in
theorem step_ccCas {cfg : Cfg} {s s' : St} {t : Tid} {ev : Ev} {a : Nat} {pp : Cur} {k : Nat} {nx : Cur}
    (h : KInvR cfg s) (hpc : s.pc t = .ccCas a pp k nx) (hs : step cfg s t = some (s', ev)) : KInvR cfg s' := by
  obtain ⟨h_bound, h_lockFree, h_hold, h_noReq, h_someReq, h_respExec, h_opExec, h_atDone, h_atApply, h_rel, h_wtUnl, h_fin, h_le1, h_nodup, h_notIn, h_inact, h_preInact, h_linkAct, h_unlinked, h_inactOut, h_ccAct, h_cmb, h_curIn, h_curInN, h_pass, h_passN, h_post⟩ := h
  have s_pass := h_pass t; have s_passN := h_passN t; have s_post := h_post t; have s_hold := h_hold t
  have s_noReq := h_noReq t; have s_someReq := h_someReq t; have s_bound := h_bound t
  have s_curIn := h_curIn t; have s_curInN := h_curInN t; have s_notIn := h_notIn t; have s_linkAct := h_linkAct t
  have s_preInact := h_preInact t; have s_ccAct := h_ccAct t; have s_inactOut := h_inactOut t; have s_atApply := h_atApply t; have s_atDone := h_atDone t
  simp only [hpc] at s_pass s_passN s_post s_hold s_noReq s_someReq s_bound s_curIn s_curInN s_notIn s_linkAct s_preInact s_ccAct s_inactOut s_atApply s_atDone
  simp only [step, hpc] at hs
  split at hs
  · rename_i hsu
    simp only [Option.some.injEq, Prod.mk.injEq] at hs; obtain ⟨rfl, -⟩ := hs
    have hk : k ∈ s.list := succOf_mem hsu
    have hmem : ∀ x, x ∈ s.list.filter (· ≠ k) ↔ (x ∈ s.list ∧ x ≠ k) := by intro x; simp [List.mem_filter]
    have hnd : (s.list.filter (· ≠ k)).Nodup := List.Pairwise.filter _ h_nodup
    constructor <;> intros <;> (try dsimp only at *) <;>
      grind [upd, holds, hasReq, cpIdx, cpNextIdx, postPass, doneIdx, applyIdx, inactIdx, ccIdx, isLink, inPub, prePub]
  · simp only [Option.some.injEq, Prod.mk.injEq] at hs; obtain ⟨rfl, -⟩ := hs
    cases hsu : succOf s.list pp <;> kinv_close

end CdsVerif.Algo.FC.KernelR

/-
  C22 — injecting_monitor and lock_array.  Property theorems only.

  `cds::sync::injecting_monitor< spin >` (cds/sync/injecting_monitor.h) injects one spin lock into every node:
  `lock( p )` is `p.m_SyncMonitorInjection.m_Lock.lock()`, `unlock( p )` is `….m_Lock.unlock()`, nothing else.  Its machine is
  the spin-lock machine Algo/Spin with "lock index" read as "node index" (harness: the word of node n is named `L<n>.spin`, real
  traces of the `injecting` variant replay against `cdsdriver replay spin`).

  `cds::sync::lock_array< spin, Policy >` (cds/sync/lock_array.h): machine Algo/LockArray (real traces of the `lock_array` variant
  replay against `cdsdriver replay lockarray`); theorems for every cell selection policy, every array size, every schedule.
-/
import CdsVerif.Algo.Spin.Model
import CdsVerif.Algo.LockArray.Model
namespace CdsVerif.Props.C22LockArray
open CdsVerif.Machine CdsVerif.Spec CdsVerif.Algo

/-! ### injecting_monitor -/

/-- At most one thread is inside the critical section of a node guarded by `injecting_monitor< spin >`, and a node whose lock
    word is clear is locked by nobody (the Spin machine, instantiated per node). -/
theorem C22_injecting_monitor_mutex (s : Spin.St) (h : Spin.model.Reachable Spin.init s) :
    (∀ n t1 t2, s.held t1 n = true → s.held t2 n = true → t1 = t2) ∧
    (∀ n t, s.spin n = false → s.held t n = false) := by
  have hinv := Spin.model.inv_reachable Spin.MutexInv Spin.init Spin.inv_init Spin.inv_step s h
  exact ⟨hinv.2.1, hinv.1⟩

/-! ### lock_array -/

/-- Per-cell mutual exclusion: at most one thread holds a cell, whichever of `lock`, `try_lock`, `lock_all` acquired it. -/
theorem C22_lock_array_mutex (sel : Nat → Nat → Nat) (n : Nat) (s : LockArray.St)
    (h : (LockArray.model sel).Reachable (LockArray.init n) s) :
    (∀ c t1 t2, s.held t1 c = true → s.held t2 c = true → t1 = t2) ∧
    (∀ c t, s.spin c = false → s.held t c = false) := by
  have hi := LockArray.linv_reachable sel n s h
  exact ⟨hi.excl, hi.free⟩

/-- `lock_all` holds every cell when it returns.  State form: from the successful exchange on the last cell until `unlock_all` is
    invoked (`all t`), thread `t` holds every cell.  Step form: the step by which `lock_all` finishes is the successful exchange
    on the last cell, sets `all`, and leaves the thread holding all `n` cells. -/
theorem C22_lock_all_holds_every_cell (sel : Nat → Nat → Nat) (n : Nat) (s : LockArray.St)
    (h : (LockArray.model sel).Reachable (LockArray.init n) s) :
    (∀ t, s.all t = true → ∀ c, c < n → s.held t c = true) ∧
    (∀ t c s' ev, s.pc t = .allTry c → LockArray.step s t = some (s', ev) → (∃ r, s'.pc t = .done r) →
      s'.all t = true ∧ c + 1 = n ∧ ∀ c', c' < n → s'.held t c' = true) := by
  have hi := LockArray.linv_reachable sel n s h
  have hn := LockArray.size_reachable sel n s h
  refine ⟨fun t ha c hc => hi.full t ha c (by omega), fun t c s' ev hpc hs hd => ?_⟩
  obtain ⟨h1, h2, -, h4⟩ := LockArray.lock_all_return_step hi hpc hs hd
  have hn' : s'.size = n := by rw [(LockArray.linv_step hi hs).2, hn]
  exact ⟨h1, by omega, fun c' hc' => h4 c' (by omega)⟩

/-- No thread holds a cell while another thread has completed `lock_all` (and not yet begun `unlock_all`). -/
theorem C22_lock_all_excludes_others (sel : Nat → Nat → Nat) (n : Nat) (s : LockArray.St)
    (h : (LockArray.model sel).Reachable (LockArray.init n) s) :
    ∀ t1 t2 c, s.all t1 = true → c < n → s.held t2 c = true → t2 = t1 := by
  have hi := LockArray.linv_reachable sel n s h
  have hn := LockArray.size_reachable sel n s h
  intro t1 t2 c ha hc hh
  exact hi.excl c t2 t1 hh (hi.full t1 ha c (by omega))

/-- While a thread is inside `lock_all` it holds every cell below the one it is working on, and while it is inside `unlock_all`
    every cell from the one it is about to release on: the cells are taken and released one by one, in index order. -/
theorem C22_lock_all_progress (sel : Nat → Nat → Nat) (n : Nat) (s : LockArray.St)
    (h : (LockArray.model sel).Reachable (LockArray.init n) s) :
    (∀ t c, (s.pc t = .allTry c ∨ s.pc t = .allSpin c) → c < n ∧ ∀ c', c' < c → s.held t c' = true) ∧
    (∀ t c, s.pc t = .allUn c → c < n ∧ ∀ c', c ≤ c' → c' < n → s.held t c' = true) := by
  have hi := LockArray.linv_reachable sel n s h
  have hn := LockArray.size_reachable sel n s h
  refine ⟨fun t c hpc => ?_, fun t c hpc => ?_⟩
  · have := hi.pAll t c (by rcases hpc with e | e <;> simp [e, LockArray.allUpTo])
    exact ⟨by omega, this.2⟩
  · have := hi.pUnAll t c (by simp [hpc, LockArray.unFrom])
    exact ⟨by omega, fun c' h1 h2 => this.2 c' h1 (by omega)⟩

/-! ### Examples (evaluated by `decide`) -/

/-- `lock_all` is not atomic: with 2 cells, thread 0 has taken cell 0 and is inside `lock_all` when thread 1 takes cell 1;
    thread 0 spins on cell 1 until thread 1 releases it, then completes. -/
def schedNotAtomic : List (Tid × Act) :=
  [(0, .invoke ⟨"lock_all", [0]⟩), (0, .step),
   (1, .invoke ⟨"lock", [1, 1]⟩), (1, .step), (1, .ret),
   (0, .step), (0, .step),
   (1, .invoke ⟨"unlock", [1, 1]⟩), (1, .step), (1, .ret),
   (0, .step), (0, .step), (0, .ret)]

example : ((LockArray.model LockArray.selTrivial).run (LockArray.init 2) (schedNotAtomic.take 7)).map
    (fun p => (p.1.held 0 0, p.1.held 1 1, p.1.all 0, p.1.pc 0)) = some (true, true, false, .allSpin 1) := by decide +kernel
example : ((LockArray.model LockArray.selTrivial).run (LockArray.init 2) schedNotAtomic).map
    (fun p => (p.1.held 0 0, p.1.held 0 1, p.1.held 1 1, p.1.all 0)) = some (true, true, false, true) := by decide +kernel
example : ((LockArray.model LockArray.selTrivial).run (LockArray.init 2) schedNotAtomic).map
    (fun p => LockArray.events p.2) =
    some [(0, ⟨"xchg", "L0.spin", "0", "1"⟩), (1, ⟨"xchg", "L1.spin", "0", "1"⟩),
          (0, ⟨"xchg", "L1.spin", "1", "1"⟩), (0, ⟨"ld", "L1.spin", "1", ""⟩),
          (1, ⟨"st", "L1.spin", "0", ""⟩),
          (0, ⟨"ld", "L1.spin", "0", ""⟩), (0, ⟨"xchg", "L1.spin", "0", "1"⟩)] := by decide +kernel

/-- After `lock_all` a `try_lock` of another thread fails on every cell; `unlock_all` releases the cells in index order. -/
def schedAfterAll : List (Tid × Act) :=
  schedNotAtomic ++ [(1, .invoke ⟨"try_lock", [1, 0]⟩), (1, .step), (1, .ret),
                     (0, .invoke ⟨"unlock_all", [0]⟩), (0, .step), (0, .step), (0, .ret)]
example : ((LockArray.model LockArray.selTrivial).run (LockArray.init 2) schedAfterAll).map
    (fun p => (p.1.spin 0, p.1.spin 1, p.1.held 0 0, p.1.all 0)) = some (false, false, false, false) := by decide +kernel
example : ((LockArray.model LockArray.selTrivial).run (LockArray.init 2) schedAfterAll).map
    (fun p => (LockArray.events p.2).drop 7) =
    some [(1, ⟨"xchg", "L0.spin", "1", "1"⟩), (0, ⟨"st", "L0.spin", "0", ""⟩), (0, ⟨"st", "L1.spin", "0", ""⟩)] := by
  decide +kernel

/-- The discipline is enforced: `unlock_all` without `lock_all`, and a hint outside the array, are not runs. -/
example : ((LockArray.model LockArray.selTrivial).run (LockArray.init 2) [(0, .invoke ⟨"unlock_all", [0]⟩)]).isNone = true := by
  decide +kernel
example : ((LockArray.model LockArray.selTrivial).run (LockArray.init 2) [(0, .invoke ⟨"lock", [0, 2]⟩)]).isNone = true := by
  decide +kernel
/-- With `mod_select_policy` hint 5 selects cell 1 of 2. -/
example : ((LockArray.model LockArray.selMod).run (LockArray.init 2) [(0, .invoke ⟨"lock", [0, 5]⟩), (0, .step)]).map
    (fun p => (p.1.held 0 1, p.1.spin 1)) = some (true, true) := by decide +kernel

end CdsVerif.Props.C22LockArray

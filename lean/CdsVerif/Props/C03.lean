/-
  C03 — HP/DHP dispose every retired object exactly once.
  Property theorems about the reclamation decision (pure part of scan).
-/
import CdsVerif.Algo.HP.Scan
namespace CdsVerif.Props.C03
open CdsVerif.Algo.HP

theorem insertSorted_perm (x : Ptr) (l : List Ptr) : (insertSorted x l).Perm (x :: l) := by
  induction l with
  | nil => simp [insertSorted]
  | cons y ys ih =>
    simp only [insertSorted]
    split
    · exact List.Perm.refl _
    · exact (List.Perm.cons y ih).trans (List.Perm.swap x y ys)

theorem sortPtrs_perm (l : List Ptr) : (sortPtrs l).Perm l := by
  induction l with
  | nil => simp [sortPtrs]
  | cons x xs ih => exact (insertSorted_perm x (sortPtrs xs)).trans (List.Perm.cons x ih)

/-- A scan neither loses nor duplicates a retired entry: what it keeps plus what it frees is exactly
    (a permutation of) the retired array — so an entry is freed at most once per pass and stays retired otherwise. -/
theorem C03_classic_scan_partition (hazards retired : List Ptr) :
    ((classicScan hazards retired).1 ++ (classicScan hazards retired).2).Perm retired := by
  simp only [classicScan]
  exact List.filter_append_perm _ retired

theorem C03_inplace_scan_partition (hazards retired : List Ptr) :
    ((inplaceScan hazards retired).1 ++ (inplaceScan hazards retired).2).Perm retired := by
  unfold inplaceScan
  split
  · exact C03_classic_scan_partition hazards retired
  · exact (List.filter_append_perm _ (sortPtrs retired)).trans (sortPtrs_perm retired)

/-- A pass that runs while no hazard pointer equals a retired object frees it (both strategies). -/
theorem C03_classic_unprotected_freed (hazards retired : List Ptr) (p : Ptr)
    (hp : p ∈ retired) (hn : p ∉ hazards) : p ∈ (classicScan hazards retired).2 := by
  simp only [classicScan, List.mem_filter, List.contains_eq_any_beq, Bool.not_eq_true', List.any_eq_false,
    beq_iff_eq, decide_eq_true_eq]
  refine ⟨hp, ?_⟩
  intro q hq heq
  exact hn (heq ▸ hq.1)

theorem C03_inplace_unprotected_freed (hazards retired : List Ptr) (p : Ptr)
    (hp : p ∈ retired) (hn : p ∉ hazards) : p ∈ (inplaceScan hazards retired).2 := by
  unfold inplaceScan
  split
  · exact C03_classic_unprotected_freed hazards retired p hp hn
  · simp only [List.mem_filter, List.contains_eq_any_beq, Bool.not_eq_true', List.any_eq_false,
      beq_iff_eq, decide_eq_true_eq]
    refine ⟨(sortPtrs_perm retired).mem_iff.mpr hp, ?_⟩
    intro q hq heq
    exact hn (heq ▸ hq.1)

/-- …and a protected one is kept. -/
theorem C03_classic_protected_kept (hazards retired : List Ptr) (p : Ptr)
    (hp : p ∈ retired) (hh : p ∈ hazards) (hne : p ≠ 0) : p ∈ (classicScan hazards retired).1 := by
  simp only [classicScan, List.mem_filter, List.contains_eq_any_beq, List.any_eq_true, beq_iff_eq, decide_eq_true_eq]
  exact ⟨hp, p, ⟨hh, by simpa using hne⟩, rfl⟩

example : inplaceScan [145] [64, 184, 80, 145, 128] = ([145], [64, 184, 80, 128]) := by decide
example : inplaceScan [184, 104] [120, 184, 152, 24] = ([184], [24, 120, 152]) := by decide

end CdsVerif.Props.C03

"""Reusable steps of a property check: the Lean obligation step and the ties."""
import json
import os
import re

import vlib
from vlib import Result

TRUSTED_COMMON = [
    "Lean 4.33 kernel (leanchecker re-check in the thorough tier)",
    "axioms propext, Classical.choice, Quot.sound only (audited by #print axioms on every run)",
    "sequentially consistent interleaving semantics; memory_order arguments are not modelled",
    "g++ 12, the instrumented atomics shim, the baton scheduler and the name registry of /verif/harness",
    "Lean compiler/runtime for the executable driver (produces test verdicts, not theorems)",
]


def lean_step(res, prop_module, thorough=False, extra_allowed=(), extra_targets=()):
    """Build the property module and the driver, audit it.  A failure is a violation with
    no failing input (the caller may add a search)."""
    ok = True
    try:
        vlib.lake_build([prop_module, "cdsdriver"] + list(extra_targets))
    except vlib.LeanError as e:
        res.cov.setdefault("obligations", 1)
        res.cov.setdefault("discharged", 0)
        res.violation("proof-broken:" + prop_module,
                      {"kind": "proof-broken", "theorem_module": prop_module, "lean_error": e.log[-6000:]}, no_input=True)
        return False
    thms, discharged, axioms, problems = vlib.audit(prop_module, extra_allowed)
    res.cov["obligations"] = len(thms)
    res.cov["discharged"] = discharged
    res.cov["theorems"] = thms
    res.cov["axioms_used"] = axioms
    res.cov["checker_cmd"] = "cd /verif/lean && lake build %s cdsdriver && lake env lean <#print axioms of every theorem of %s>" % (prop_module, prop_module)
    if thorough:
        okc, log = vlib.leanchecker(prop_module)
        res.cov["leanchecker"] = "ok" if okc else log
        res.cov["checker_cmd"] += " && lake env leanchecker " + prop_module
        if not okc:
            problems.append("leanchecker rejected %s: %s" % (prop_module, log))
    if problems:
        ok = False
        res.violation("audit:" + prop_module, {"kind": "audit", "problems": problems}, no_input=True)
    for t in thms[:3]:
        res.sample({"obligation": t})
    return ok


def parse_end(block):
    m = re.search(r"^END (.*)$", block, flags=re.M)
    d = {}
    if m:
        for kv in m.group(1).split():
            if "=" in kv:
                k, v = kv.split("=", 1)
                d[k] = v
    return d


def header_of(block):
    m = re.search(r"^# family=.*$", block, flags=re.M)
    d = {}
    if m:
        for kv in m.group(0)[2:].split():
            if "=" in kv:
                k, v = kv.split("=", 1)
                d[k] = v
    return d


def sched_of(block):
    m = re.search(r"^# sched=(.*)$", block, flags=re.M)
    return m.group(1) if m else ""


def tie_H(res, client, runs, hang_is_violation=True, label=None, exe=None):
    """History conformance: run the real container under the deterministic scheduler, judge every
    history with the verified checker.  `runs` = list of dicts {args: [...], cases: n}."""
    exe = exe or vlib.build_client(client)
    label = label or client
    total = 0
    hashes = set()
    nontrivial = set()
    per_variant = {}
    for run in runs:
        args = ["--seed", str(res.seed)] + run["args"]
        text, aborted = vlib.run_cases(exe, args, run["cases"], timeout=run.get("timeout", 600))
        verdicts = vlib.driver(["lincheck"], text)
        vmap = {}
        for line in verdicts.split("\n"):
            w = line.split()
            if len(w) >= 2:
                vmap[w[1]] = w[0]
        for cid, block in vlib.split_cases(text):
            total += 1
            end = parse_end(block)
            hdr = header_of(block)
            var = hdr.get("variant", "?")
            per_variant[var] = per_variant.get(var, 0) + 1
            h = (var, end.get("hash"))
            hashes.add(h)
            if int(end.get("cas_fail", "0")) + int(end.get("yields", "0")) > 0:
                nontrivial.add(h)
            status = end.get("status", "?")
            verdict = vmap.get(cid, "MISSING")
            replay = {"kind": "failing-history", "client": client, "args": run["args"], "case": cid,
                      "variant": var, "schedule": sched_of(block), "block": block[:20000]}
            if status != "ok":
                if hang_is_violation:
                    res.violation("%s:%s:hang:%s" % (label, var, status), dict(replay, kind="hang", status=status))
                res.add("hangs")
                continue
            xs = re.findall(r"^X (.*)$", block, flags=re.M)
            if xs:
                res.violation("%s:%s:oracle:%s" % (label, var, xs[0].split()[0]), dict(replay, kind="oracle", oracle=xs))
            if verdict == "NOTLIN":
                res.violation("%s:%s:not-linearizable" % (label, var), replay)
            elif verdict != "LIN":
                res.violation("%s:%s:driver:%s" % (label, var, verdict), dict(replay, kind="driver-problem"), no_input=True)
            if total % 997 == 1:
                ops = re.findall(r"^O .*$", block, flags=re.M)
                res.sample({"client": client, "variant": var, "mode": hdr.get("mode"), "schedule": sched_of(block)[:120], "history": ops[:12]})
    res.add("evaluations", total)
    res.add("programs", total)
    res.add("traces_validated_against_impl", total)
    res.cov["distinct_nontrivial"] = res.cov.get("distinct_nontrivial", 0) + len(nontrivial)
    res.cov["distinct_traces"] = res.cov.get("distinct_traces", 0) + len(hashes)
    res.cov.setdefault("per_variant", {}).update({label + ":" + k: v for k, v in per_variant.items()})
    res.cov["disagreements_checked"] = res.cov.get("disagreements_checked", 0) + total
    return total

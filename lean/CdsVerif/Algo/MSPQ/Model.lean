/-
  Atomic-step model of `cds::intrusive::MSPriorityQueue` (cds/intrusive/mspriority_queue.h; Hunt, Michael,
  Parthasarathy, Scott: array heap, one lock per node plus a heap-size lock, node tags Empty / Available / owner
  thread id, bit-reversed slot allocation), with `cds::sync::spin` as `lock_type`.

    push( val ):
        m_Lock.lock();                                                         -- acq (pSz v)
        if ( m_ItemCounter.value() >= capacity()) { m_Lock.unlock(); return false; }      -- pFullUnl, pFail
        i = m_ItemCounter.inc();
        m_Heap[i].lock();                                                      -- acq (pNode v i)
        m_Lock.unlock();                                                       -- pUnlSz v i
        m_Heap[i].m_pVal = &val;  m_Heap[i].m_nTag = curId;
        m_Heap[i].unlock();                                                    -- pUnlNode i
        heapify_after_push( i, curId );  return true;

    heapify_after_push( i, curId ):
        while ( i > 1 ) {
            parent = i / 2;
            m_Heap[parent].lock();                                             -- acq (hPar i)
            m_Heap[i].lock();                                                  -- acq (hItem i)
            if ( parent.tag == Available && item.tag == curId ) {
                if ( cmp( *item.val, *parent.val ) > 0 ) { swap tags; swap vals; i' = parent; }
                else { item.tag = Available; i' = 0; }
            }
            else if ( parent.tag == Empty ) i' = 0;
            else if ( item.tag != curId ) i' = parent;
            else i' = i;                                  (no progress: back-off, try again)
            m_Heap[i].unlock();                                                -- hUnlItem i i'
            m_Heap[parent].unlock();                                           -- hUnlPar i i'
            i = i';
        }
        if ( i == 1 ) {
            m_Heap[1].lock();                                                  -- acq hRoot
            if ( m_Heap[1].tag == curId ) m_Heap[1].tag = Available;
            m_Heap[1].unlock();                                                -- hUnlRoot
        }

    pop():
        m_Lock.lock();                                                         -- acq oSz
        if ( m_ItemCounter.value() == 0 ) { m_Lock.unlock(); return nullptr; }            -- oEmptyUnl, oFail
        bottom = m_ItemCounter.dec();
        m_Heap[1].lock();                                                      -- acq (oTop b)
        if ( bottom == 1 ) {
            top.tag = Empty; pVal = top.val; top.val = nullptr;
            m_Heap[1].unlock();                                                -- oUnlTop1 pv
            m_Lock.unlock();                                                   -- oUnlSz1 pv
            return pVal;
        }
        m_Heap[bottom].lock();                                                 -- acq (oBot b)
        m_Lock.unlock();                                                       -- oUnlSz b
        bottom.tag = Empty; pVal = bottom.val; bottom.val = nullptr;
        m_Heap[bottom].unlock();                                               -- oUnlBot b pv
        if ( top.tag == Empty ) { m_Heap[1].unlock(); return pVal; }           -- oUnlTopE pv
        swap( top.val, pVal ); top.tag = Available;
        heapify_after_pop( top ); return pVal;

    heapify_after_pop( parent = 1 ):
        for ( child = parent * 2; child < m_Heap.capacity(); child *= 2 ) {
            m_Heap[child].lock();                                              -- acq (dChild par child pv)
            if ( child.tag == Empty ) { m_Heap[child].unlock(); break; }       -- dUnlBreak par child pv
            right = child + 1;
            if ( right < m_Heap.capacity()) {
                m_Heap[right].lock();                                          -- acq (dRight par child pv)
                if ( right.tag != Empty && cmp( *right.val, *child.val ) > 0 ) {
                    m_Heap[child].unlock(); child = right;                     -- dUnlLeft par child pv
                }
                else m_Heap[right].unlock();                                   -- dUnlRight par child pv
            }
            if ( cmp( *child.val, *parent.val ) > 0 ) {
                swap tags; swap vals;
                m_Heap[parent].unlock();                                       -- dUnlSwap par child pv
                parent = child;
            }
            else { m_Heap[child].unlock(); break; }                            -- dUnlBreak par child pv
        }
        m_Heap[parent].unlock();                                               -- dUnlPar par pv

  Only the LOCK words are atomic objects in the source (`m_pVal`, `m_nTag`, `m_ItemCounter` are plain fields that are
  read and written under the locks).  One `step` of the model = one atomic operation on a lock word (exchange /
  load of the spin loop / releasing store) FOLLOWED by the plain-memory code up to the next atomic operation.  The
  plain accesses of a step are made while the thread holds the locks protecting them (theorem `C11_mspq_writes_locked`),
  so their position between two atomic operations of the same thread is not observable.

  `lock()` of `cds::sync::spin` is test-and-test-and-set:  while ( m_spin.exchange( true )) while ( m_spin.load()) backoff();
  a failed exchange is a step that stays at the same acquisition (`acq k → spin k`), `spin k` repeats while the load
  returns true.  Back-off calls are not atomic operations and are not modelled.

  Lock 0 is the heap-size lock `m_Lock` (node 0 of the array is never used by the algorithm), lock `i ≥ 1` is
  `m_Heap[i].m_Lock`.  Heap slots are `1 .. cap` (`capacity() = cap`, `m_Heap.capacity() = cap + 1`).
  Values are integers `prio * 1000 + id`; the comparator looks at `Spec.prioOf` only.

  The item counter is modelled by its value `cnt` and the function `slot`: `inc()` returns `slot (cnt + 1)`, `dec()`
  returns `slot cnt`.  That this is what `cds::bitop::bit_reverse_counter` does after any balanced sequence of
  `inc`/`dec` is `Props.C26.C26_characterisation`, `C26_dec_undoes`, `C26_balanced_returns_from`
  (`Algo/Counter`); the facts about `slot` used by the proofs are collected in `SlotOK` (Inv.lean) and proved for
  the real counter in `Props/C11MSPQ.lean`.

  A dereference of a null `m_pVal` in a comparison is undefined behaviour in the source: the model has no step there
  (`none`); theorem `C11_mspq_no_null_deref` shows such a state is unreachable.

  Event rendering (the `A` lines of the harness trace, variant `imspq_named` of the `pqueue` client):
      xchg szlock <0|1> 1      xchg lk<i> <0|1> 1         try_lock
      ld   szlock <0|1>        ld   lk<i> <0|1>           wait loop
      st   szlock 0            st   lk<i> 0               unlock

  Ghost fields: `own l` = the thread holding lock `l`; `ins` = the values stored into the array by pushes, in order;
  `outs` = the values returned by pops, in order.
-/
import CdsVerif.Base.Machine
import CdsVerif.Algo.Counter.Lemmas
namespace CdsVerif.Algo.MSPQ
open CdsVerif.Machine CdsVerif.Spec

inductive Tag
  | empty
  | avail
  | own (t : Tid)
deriving DecidableEq, Repr

/-- What a thread is acquiring a lock for (the code that follows the acquisition). -/
inductive K
  | pSz (v : Int)
  | pNode (v : Int) (i : Nat)
  | hPar (i : Nat)
  | hItem (i : Nat)
  | hRoot
  | oSz
  | oTop (b : Nat)
  | oBot (b : Nat)
  | dChild (par c : Nat) (pv : Option Int)
  | dRight (par c : Nat) (pv : Option Int)
deriving DecidableEq, Repr

/-- The lock an acquisition is about. -/
def K.lock : K → Nat
  | .pSz _ => 0
  | .pNode _ i => i
  | .hPar i => i / 2
  | .hItem i => i
  | .hRoot => 1
  | .oSz => 0
  | .oTop _ => 1
  | .oBot b => b
  | .dChild _ c _ => c
  | .dRight _ c _ => c + 1

inductive PC
  | idle
  | acq (k : K)                      -- next: m_spin.exchange( true ) of lock `k.lock`
  | spin (k : K)                     -- next: m_spin.load() in the wait loop of lock `k.lock`
  | pFullUnl                         -- push, heap full: next `m_Lock.unlock()`
  | pFail                            -- push returns false
  | pUnlSz (v : Int) (i : Nat)       -- next: m_Lock.unlock(); then the item is stored in slot i
  | pUnlNode (i : Nat)               -- next: m_Heap[i].unlock()
  | hUnlItem (i i' : Nat)            -- next: m_Heap[i].unlock()
  | hUnlPar (i i' : Nat)             -- next: m_Heap[i/2].unlock(); then the loop goes on with i'
  | hUnlRoot                         -- next: m_Heap[1].unlock()
  | pOk                              -- push returns true
  | oEmptyUnl                        -- pop, heap empty: next `m_Lock.unlock()`
  | oFail                            -- pop returns nullptr
  | oUnlTop1 (pv : Option Int)       -- bottom == 1: next m_Heap[1].unlock()
  | oUnlSz1 (pv : Option Int)        -- bottom == 1: next m_Lock.unlock()
  | oUnlSz (b : Nat)                 -- next: m_Lock.unlock(); then the bottom item is taken out of slot b
  | oUnlBot (b : Nat) (pv : Option Int)    -- next: m_Heap[b].unlock(); then the root is inspected / replaced
  | oUnlTopE (pv : Option Int)       -- root was Empty: next m_Heap[1].unlock()
  | dUnlBreak (par c : Nat) (pv : Option Int)   -- next: m_Heap[c].unlock(); then leave the loop
  | dUnlLeft (par c : Nat) (pv : Option Int)    -- next: m_Heap[c].unlock(); go on with the right child c+1
  | dUnlRight (par c : Nat) (pv : Option Int)   -- next: m_Heap[c+1].unlock(); go on with the left child c
  | dUnlSwap (par c : Nat) (pv : Option Int)    -- swapped: next m_Heap[par].unlock(); go down to c
  | dUnlPar (par : Nat) (pv : Option Int)       -- next: m_Heap[par].unlock(); return
  | oDone (pv : Option Int)          -- pop returns pv
deriving DecidableEq, Repr

structure Cfg where
  cap : Nat                          -- capacity(): heap slots 1 .. cap
  nthr : Nat                         -- threads 0 .. nthr-1 may call operations
  slot : Nat → Nat                   -- the n-th value returned by the bit-reversed counter

structure St where
  cnt : Nat                          -- m_ItemCounter.value()
  lk : Nat → Bool                    -- lock words: 0 = m_Lock, i = m_Heap[i].m_Lock
  val : Nat → Option Int             -- m_Heap[i].m_pVal (none = nullptr)
  tag : Nat → Tag                    -- m_Heap[i].m_nTag
  pc : Tid → PC
  own : Nat → Option Tid             -- ghost: holder of every lock
  ins : List Int                     -- ghost
  outs : List Int                    -- ghost

def init : St := ⟨0, fun _ => false, fun _ => none, fun _ => .empty, fun _ => .idle, fun _ => none, [], []⟩

def prio (v : Int) : Int := prioOf v

/-! ### Event rendering (the only place where events are built) -/

def b2s (b : Bool) : String := if b then "1" else "0"
def lockLoc (l : Nat) : String := if l = 0 then "szlock" else s!"lk{l}"

def evXchg (l : Nat) (old : Bool) : Ev := ⟨"xchg", lockLoc l, b2s old, "1"⟩
def evLd (l : Nat) (v : Bool) : Ev := ⟨"ld", lockLoc l, b2s v, ""⟩
def evSt (l : Nat) : Ev := ⟨"st", lockLoc l, "0", ""⟩

/-! ### Transitions -/

def St.setPc (s : St) (t : Tid) (p : PC) : St := { s with pc := upd s.pc t p }

/-- `m_spin.store( false )` of lock `l`, then go to `p`. -/
def rel (s : St) (t : Tid) (l : Nat) (p : PC) : St :=
  { s with lk := upd s.lk l false, own := upd s.own l none, pc := upd s.pc t p }

/-- Entry of the loop of `heapify_after_push` with index `i`. -/
def pushLoop (i : Nat) : PC :=
  if i > 1 then .acq (.hPar i) else if i = 1 then .acq .hRoot else .pOk

/-- Entry of the loop of `heapify_after_pop` with the locked node `par`. -/
def popLoop (c : Cfg) (par : Nat) (pv : Option Int) : PC :=
  if 2 * par < c.cap + 1 then .acq (.dChild par (2 * par) pv) else .dUnlPar par pv

/-- `if ( cmp( *child.val, *parent.val ) > 0 ) swap … else …` with both nodes locked. -/
def dCompare (s : St) (t : Tid) (par ch : Nat) (pv : Option Int) : Option St :=
  match s.val ch, s.val par with
  | some vc, some vp =>
    if prio vc > prio vp then
      some { s with val := upd (upd s.val par (some vc)) ch (some vp),
                    tag := upd (upd s.tag par (s.tag ch)) ch (s.tag par),
                    pc := upd s.pc t (.dUnlSwap par ch pv) }
    else some (s.setPc t (.dUnlBreak par ch pv))
  | _, _ => none

/-- The code that runs right after lock `k.lock` has been taken (the lock word and its ghost owner are already set). -/
def after (c : Cfg) (s : St) (t : Tid) : K → Option St
  | .pSz v =>
    if s.cnt ≥ c.cap then some (s.setPc t .pFullUnl)
    else some { s with cnt := s.cnt + 1, pc := upd s.pc t (.acq (.pNode v (c.slot (s.cnt + 1)))) }
  | .pNode v i => some (s.setPc t (.pUnlSz v i))
  | .hPar i => some (s.setPc t (.acq (.hItem i)))
  | .hItem i =>
    let p := i / 2
    if s.tag p = .avail ∧ s.tag i = .own t then
      match s.val i, s.val p with
      | some vi, some vp =>
        if prio vi > prio vp then
          some { s with val := upd (upd s.val i (some vp)) p (some vi),
                        tag := upd (upd s.tag i .avail) p (.own t),
                        pc := upd s.pc t (.hUnlItem i p) }
        else some { s with tag := upd s.tag i .avail, pc := upd s.pc t (.hUnlItem i 0) }
      | _, _ => none
    else if s.tag p = .empty then some (s.setPc t (.hUnlItem i 0))
    else if s.tag i ≠ .own t then some (s.setPc t (.hUnlItem i p))
    else some (s.setPc t (.hUnlItem i i))
  | .hRoot =>
    if s.tag 1 = .own t then some { s with tag := upd s.tag 1 .avail, pc := upd s.pc t .hUnlRoot }
    else some (s.setPc t .hUnlRoot)
  | .oSz =>
    if s.cnt = 0 then some (s.setPc t .oEmptyUnl)
    else some { s with cnt := s.cnt - 1, pc := upd s.pc t (.acq (.oTop (c.slot s.cnt))) }
  | .oTop b =>
    if b = 1 then
      some { s with tag := upd s.tag 1 .empty, val := upd s.val 1 none, pc := upd s.pc t (.oUnlTop1 (s.val 1)) }
    else some (s.setPc t (.acq (.oBot b)))
  | .oBot b => some (s.setPc t (.oUnlSz b))
  | .dChild par ch pv =>
    if s.tag ch = .empty then some (s.setPc t (.dUnlBreak par ch pv))
    else if ch + 1 < c.cap + 1 then some (s.setPc t (.acq (.dRight par ch pv)))
    else dCompare s t par ch pv
  | .dRight par ch pv =>
    if s.tag (ch + 1) = .empty then some (s.setPc t (.dUnlRight par ch pv))
    else match s.val (ch + 1), s.val ch with
      | some vr, some vl =>
        if prio vr > prio vl then some (s.setPc t (.dUnlLeft par ch pv))
        else some (s.setPc t (.dUnlRight par ch pv))
      | _, _ => none

def invoke (c : Cfg) (s : St) (t : Tid) (op : GOp) : Option St :=
  if t < c.nthr then
    match s.pc t, op.name, op.args with
    | .idle, "push", [v] => some (s.setPc t (.acq (.pSz v)))
    | .idle, "pop", [] => some (s.setPc t (.acq .oSz))
    | _, _, _ => none
  else none

def step (c : Cfg) (s : St) (t : Tid) : Option (St × Ev) :=
  match s.pc t with
  | .acq k =>
    if s.lk k.lock then some (s.setPc t (.spin k), evXchg k.lock true)
    else
      (after c { s with lk := upd s.lk k.lock true, own := upd s.own k.lock (some t) } t k).map
        (fun s' => (s', evXchg k.lock false))
  | .spin k =>
    some (s.setPc t (if s.lk k.lock then .spin k else .acq k), evLd k.lock (s.lk k.lock))
  | .pFullUnl => some (rel s t 0 .pFail, evSt 0)
  | .pUnlSz v i =>
    some ({ rel s t 0 (.pUnlNode i) with val := upd s.val i (some v), tag := upd s.tag i (.own t), ins := s.ins ++ [v] },
          evSt 0)
  | .pUnlNode i => some (rel s t i (pushLoop i), evSt i)
  | .hUnlItem i i' => some (rel s t i (.hUnlPar i i'), evSt i)
  | .hUnlPar i i' => some (rel s t (i / 2) (pushLoop i'), evSt (i / 2))
  | .hUnlRoot => some (rel s t 1 .pOk, evSt 1)
  | .oEmptyUnl => some (rel s t 0 .oFail, evSt 0)
  | .oUnlTop1 pv => some (rel s t 1 (.oUnlSz1 pv), evSt 1)
  | .oUnlSz1 pv => some (rel s t 0 (.oDone pv), evSt 0)
  | .oUnlSz b =>
    some ({ rel s t 0 (.oUnlBot b (s.val b)) with val := upd s.val b none, tag := upd s.tag b .empty }, evSt 0)
  | .oUnlBot b pv =>
    if s.tag 1 = .empty then some (rel s t b (.oUnlTopE pv), evSt b)
    else
      some ({ rel s t b (popLoop c 1 (s.val 1)) with val := upd s.val 1 pv, tag := upd s.tag 1 .avail }, evSt b)
  | .oUnlTopE pv => some (rel s t 1 (.oDone pv), evSt 1)
  | .dUnlBreak par ch pv => some (rel s t ch (.dUnlPar par pv), evSt ch)
  | .dUnlLeft par ch pv =>
    (dCompare (rel s t ch .idle) t par (ch + 1) pv).map (fun s' => (s', evSt ch))
  | .dUnlRight par ch pv =>
    (dCompare (rel s t (ch + 1) .idle) t par ch pv).map (fun s' => (s', evSt (ch + 1)))
  | .dUnlSwap par ch pv => some (rel s t par (popLoop c ch pv), evSt par)
  | .dUnlPar par pv => some (rel s t par (.oDone pv), evSt par)
  | _ => none

def retOf : Option Int → GRet
  | none => [0]
  | some v => [1, v]

def result (_ : Cfg) (s : St) (t : Tid) : Option (St × GRet) :=
  match s.pc t with
  | .pFail => some (s.setPc t .idle, [0])
  | .pOk => some (s.setPc t .idle, [1])
  | .oFail => some (s.setPc t .idle, [0])
  | .oDone none => some (s.setPc t .idle, [0])
  | .oDone (some v) => some ({ s with pc := upd s.pc t .idle, outs := s.outs ++ [v] }, [1, v])
  | _ => none

def model (c : Cfg) : Model St := ⟨invoke c, step c, result c⟩

/-! ### The slot function of the real counter, in closed form (`Algo.Counter.slot_eq`) -/

def bslot (n : Nat) : Nat :=
  if n = 0 then 0 else 2 ^ Nat.log2 n + Counter.revBits (Nat.log2 n) (n - 2 ^ Nat.log2 n)

/-- Configuration of a real queue: `capacity() = cap`, the real counter. -/
def cfg (cap nthr : Nat) : Cfg := ⟨cap, nthr, bslot⟩

/-! ### Trace replay (tie A): the pre-fill and the final drain are run by the (untraced) main thread -/

/-- Run thread `t` alone until it has no step left (at most `fuel` steps). -/
def runAlone (c : Cfg) : Nat → St → Tid → St
  | 0, s, _ => s
  | fuel + 1, s, t =>
    match step c s t with
    | some (s', _) => runAlone c fuel s' t
    | none => s

/-- One complete operation of thread `t` executed alone; `none` if it is not enabled or does not finish. -/
def runOp (c : Cfg) (s : St) (t : Tid) (op : GOp) : Option (St × GRet) :=
  match invoke c s t op with
  | none => none
  | some s1 => result c (runAlone c (16 * (c.cap + 4)) s1 t) t

def warmup (c : Cfg) (s : St) : List Int → St
  | [] => s
  | v :: vs =>
    match runOp c s 0 ⟨"push", [v]⟩ with
    | some (s', _) => warmup c s' vs
    | none => s

/-- Value of the header word `key=<n>`. -/
def cfgNat (ws : List String) (key : String) (dflt : Nat) : Nat :=
  match ws.find? (·.startsWith (key ++ "=")) with
  | some w => ((w.drop (key.length + 1)).toString.toNat?).getD dflt
  | none => dflt

/-- Values of the header word `pre=<v1>,<v2>,…`. -/
def cfgPre (ws : List String) : List Int :=
  match ws.find? (·.startsWith "pre=") with
  | some w => ((w.drop 4).toString.splitOn ",").filterMap (fun x => x.toInt?)
  | none => []

def replayCfg (ws : List String) : Cfg := cfg (cfgNat ws "cap" 1) 64

/-- The state after the main thread's pre-fill (header words `cap=` and `pre=`). -/
def initCfg (ws : List String) : St := warmup (replayCfg ws) init (cfgPre ws)

/-- Replay model: the capacity travels with the state; operation `drainpop` is a whole `pop` run alone by the main
    thread (all scheduled threads have finished), its result is checked by the `RET` line. -/
structure RSt where
  c : Cfg
  s : St

def rinit (ws : List String) : RSt := ⟨replayCfg ws, initCfg ws⟩

def rmodel : Model RSt where
  invoke r t op :=
    if op.name = "drainpop" then
      match invoke r.c r.s t ⟨"pop", []⟩ with
      | some s1 => some ⟨r.c, runAlone r.c (16 * (r.c.cap + 4)) s1 t⟩
      | none => none
    else (invoke r.c r.s t op).map (fun s' => ⟨r.c, s'⟩)
  step r t := (step r.c r.s t).map (fun p => (⟨r.c, p.1⟩, p.2))
  result r t := (result r.c r.s t).map (fun p => (⟨r.c, p.1⟩, p.2))

def relevant (loc : String) : Bool :=
  loc == "szlock" || (loc.startsWith "lk" && loc.length > 2 && (loc.drop 2).all Char.isDigit)

/-- The trace lines of a run, as the harness prints them. -/
def render (os : List (Tid × Obs)) : List String :=
  os.map fun (t, o) => match o with
    | .call op => s!"T {t} CALL {op.name} {op.args}"
    | .ev e => s!"T {t} A {e}"
    | .ret r => s!"T {t} RET {r}"

end CdsVerif.Algo.MSPQ

/-
  C18 "reachable ⇒ well-formed", SplitListSet machine: the machine state rendered as the `SNAP split` dump of the real
  object (`harness/clients/snap.cpp`, `SplitSnap::dump`: follow `m_pNext.ptr()` of the underlying MichaelList from its
  head — the dummy node of bucket 0 — to null; per node `m_nHash`, "is a dummy", the user key (bucket number for a
  dummy), the mark bit of `m_pNext`), and the lemmas that connect the dump with the invariant `SInvL`
  (`Algo/SplitList/Inv.lean`, `Reach.lean`).  Property theorems are in `Props/C18Reach.lean`.

  "Is a dummy".  The machine knows the KIND of a node (dummy nodes come from the aux-node segment: even ids; items:
  odd ids); `snapOf` uses the kind.  The real dump has no kind tag to read and calls a node a dummy iff the bucket
  table refers to it: `tabSnapOf`.  The two differ between the CAS that links a new dummy node and the store that
  publishes it (`iPub`): there `tabSnapOf` shows an even split-order key with `isDummy = 0`, which is not well-formed.
  They coincide whenever every linked dummy node is published (`Published`, `tabSnapOf_eq`), and that is the case in
  every reachable state in which no thread is at the publishing store `iPub` (`published_of_noPub`, from the inductive
  invariants `PubOk` / `BOk` of `Algo/SplitList/Publish.lean`), in particular in every quiescent state.

  Two small inductive invariants are added here (`KeyOk`, by case analysis of `step`): every split-order key ever
  stored is 0 or a value of `regular_hash` / `dummy_hash` (so it fits the 64-bit word when these do, `Word64`), and the
  user key of a dummy node is 0 (so two linked dummies never share a split-order key).
-/
import CdsVerif.Algo.SplitList.Reach
import CdsVerif.Algo.SplitList.Publish
import CdsVerif.Algo.SplitList.Count
import CdsVerif.Algo.SplitList.Cfg64
import CdsVerif.Props.C18
namespace CdsVerif.Algo.SplitList
open CdsVerif.Machine CdsVerif.Spec CdsVerif.Snapshot

/-! ### The dump -/

/-- The bucket (below the current bucket count) whose table entry refers to node `a`; 0 if there is none. -/
def bucketOf (s : St) (a : Nat) : Nat :=
  ((List.range (2 ^ s.cnt2)).find? (fun b => s.table b == some a)).getD 0

/-- One dumped node, "is a dummy" by the kind of the node. -/
def snapNode (s : St) (a : Nat) : SONode :=
  ⟨s.so a, a % 2 == 0, if a % 2 = 0 then (bucketOf s a : Int) else s.uk a, s.mark a⟩

def snapOf (s : St) : SplitSnap := (absNodes s).map (snapNode s)

/-- The bucket table refers to node `a` (buckets below the current bucket count). -/
def inTable (s : St) (a : Nat) : Bool := (List.range (2 ^ s.cnt2)).any (fun b => s.table b == some a)

/-- One dumped node, "is a dummy" as the real dump decides it: the bucket table refers to the node. -/
def tabSnapNode (s : St) (a : Nat) : SONode :=
  ⟨s.so a, inTable s a, if inTable s a then (bucketOf s a : Int) else s.uk a, s.mark a⟩

def tabSnapOf (s : St) : SplitSnap := (absNodes s).map (tabSnapNode s)

/-- The table-based dump as the tokens of a `SNAP` line of the harness (`split so d k m …`; not wired into the driver). -/
def snapTokens (s : St) : List String :=
  "split" :: (tabSnapOf s).flatMap (fun n =>
    [toString n.so, if n.isDummy then "1" else "0", toString n.key, if n.marked then "1" else "0"])

/-- Every linked node is referred to by the bucket table iff it is a dummy node. -/
def Published (s : St) : Prop := ∀ a, a ∈ absNodes s → (inTable s a = true ↔ a % 2 = 0)

theorem tabSnapOf_eq {s : St} (h : Published s) : tabSnapOf s = snapOf s := by
  unfold tabSnapOf snapOf
  apply List.map_congr_left
  intro a ha
  have := h a ha
  unfold tabSnapNode snapNode
  by_cases e : a % 2 = 0
  · simp [e, this.2 e]
  · have h1 : inTable s a = false := by
      cases hh : inTable s a with
      | false => rfl
      | true => exact absurd (this.1 hh) e
    simp [e, h1]

/-- The abstract set as a list of keys (the keys of `absMap`, in split order). -/
def absKeys (s : St) : List Int := (absMap s).map (·.1)

theorem splitAbs_map_snapNode (s : St) : ∀ l : List Nat,
    splitAbs (l.map (snapNode s)) =
      ((l.filter (fun a => a % 2 == 1 && !s.mark a)).map (fun a => (s.uk a, s.val a))).map (·.1)
  | [] => rfl
  | a :: l => by
    have ih := splitAbs_map_snapNode s l
    unfold splitAbs at ih ⊢
    have hpar : a % 2 = 0 ∨ a % 2 = 1 := by omega
    rcases hpar with e | e <;> cases hm : s.mark a <;> simp [snapNode, e, hm] <;> simpa using ih

theorem splitAbs_snapOf (s : St) : splitAbs (snapOf s) = absKeys s := splitAbs_map_snapNode s (absNodes s)

/-! ### Keys ever stored -/

/-- `regular_hash` and `dummy_hash` produce 64-bit words. -/
def Word64 (c : Cfg) : Prop := (∀ h, c.reg h < 2 ^ 64) ∧ (∀ b, c.dum b < 2 ^ 64)

theorem cfg64_word64 (mode cap lf : Nat) : Word64 (cfg64 mode cap lf) := by
  have hr : ∀ n, rev64 n < 2 ^ 64 := fun n => by unfold rev64; exact BitVec.isLt _
  refine ⟨fun h => ?_, fun b => ?_⟩
  · show rev64 h ||| 1 < 2 ^ 64
    exact Nat.or_lt_two_pow (hr _) (by decide)
  · show rev64 b &&& (2 ^ 64 - 2) < 2 ^ 64
    exact Nat.lt_of_le_of_lt Nat.and_le_left (hr _)

structure KeyOk (c : Cfg) (s : St) : Prop where
  so : ∀ a, s.so a = 0 ∨ (∃ h, s.so a = c.reg h) ∨ ∃ b, s.so a = c.dum b
  uk : ∀ a, a % 2 = 0 → s.uk a = 0

theorem keyOk_init (c : Cfg) : KeyOk c (init c) := ⟨fun _ => Or.inl rfl, fun _ _ => rfl⟩

theorem KeyOk.congr {c : Cfg} {s s' : St} (h : KeyOk c s) (h1 : s'.so = s.so) (h2 : s'.uk = s.uk) : KeyOk c s' :=
  ⟨fun a => by rw [h1]; exact h.so a, fun a e => by rw [h2]; exact h.uk a e⟩

theorem KeyOk.upd_dum {c : Cfg} {s s' : St} (h : KeyOk c s) {x b : Nat} (_hx : x % 2 = 0)
    (h1 : s'.so = upd s.so x (c.dum b)) (h2 : s'.uk = upd s.uk x 0) : KeyOk c s' := by
  refine ⟨fun a => ?_, fun a e => ?_⟩
  · rw [h1]; unfold upd; split
    · exact Or.inr (Or.inr ⟨b, rfl⟩)
    · exact h.so a
  · rw [h2]; unfold upd; split
    · rfl
    · exact h.uk a e

theorem KeyOk.upd_reg {c : Cfg} {s s' : St} (h : KeyOk c s) {x hh : Nat} {k : Int} (hx : x % 2 = 1)
    (h1 : s'.so = upd s.so x (c.reg hh)) (h2 : s'.uk = upd s.uk x k) : KeyOk c s' := by
  refine ⟨fun a => ?_, fun a e => ?_⟩
  · rw [h1]; unfold upd; split
    · exact Or.inr (Or.inl ⟨hh, rfl⟩)
    · exact h.so a
  · rw [h2]; unfold upd; split
    · rename_i e2; omega
    · exact h.uk a e

theorem keyOk_invoke {c : Cfg} {s s' : St} {t : Tid} {op : GOp} (h : KeyOk c s) (hs : invoke c s t op = some s') :
    KeyOk c s' := by
  unfold invoke at hs
  split at hs
  · simp only [Option.some.injEq] at hs; subst hs
    exact h.upd_reg (x := 2 * s.cnt + 1) (by omega) rfl rfl
  all_goals first
    | (simp only [Option.some.injEq] at hs; subst hs; exact h.congr rfl rfl)
    | (cases hs; done)

theorem keyOk_result {c : Cfg} {s s' : St} {t : Tid} {r : GRet} (h : KeyOk c s) (hs : result s t = some (s', r)) :
    KeyOk c s' := by
  unfold result at hs
  split at hs
  · simp only [Option.some.injEq, Prod.mk.injEq] at hs; obtain ⟨rfl, -⟩ := hs; exact h.congr rfl rfl
  · cases hs

set_option maxHeartbeats 2000000 in
theorem keyOk_step {c : Cfg} {s s' : St} {t : Tid} {ev : Ev} (h : KeyOk c s) (hs : step c s t = some (s', ev)) :
    KeyOk c s' := by
  unfold step at hs
  repeat' split at hs
  all_goals first
    | (simp only [Option.some.injEq, Prod.mk.injEq] at hs; obtain ⟨rfl, -⟩ := hs; exact h.congr rfl rfl)
    | (simp only [Option.some.injEq, Prod.mk.injEq] at hs; obtain ⟨rfl, -⟩ := hs
       exact h.upd_dum (x := 2 * s.acnt) (by omega) rfl rfl)
    | (cases hs; done)

theorem keyOk_apply {c : Cfg} {s s' : St} {t : Tid} {a : Act} {o : Obs} (h : KeyOk c s)
    (hap : (model c).apply s t a = some (s', o)) : KeyOk c s' := by
  cases a with
  | invoke op =>
    simp only [Model.apply, model, Option.map_eq_some_iff] at hap
    obtain ⟨s1, hs1, heq⟩ := hap
    simp only [Prod.mk.injEq] at heq
    obtain ⟨rfl, -⟩ := heq
    exact keyOk_invoke h hs1
  | step =>
    simp only [Model.apply, model, Option.map_eq_some_iff] at hap
    obtain ⟨⟨s1, e⟩, hs1, heq⟩ := hap
    simp only [Prod.mk.injEq] at heq
    obtain ⟨rfl, -⟩ := heq
    exact keyOk_step h hs1
  | ret =>
    simp only [Model.apply, model, Option.map_eq_some_iff] at hap
    obtain ⟨⟨s1, r⟩, hs1, heq⟩ := hap
    simp only [Prod.mk.injEq] at heq
    obtain ⟨rfl, -⟩ := heq
    exact keyOk_result h hs1

theorem keyOk_reachable {c : Cfg} (s : St) (h : (model c).Reachable (init c) s) : KeyOk c s :=
  (model c).inv_reachable (KeyOk c) (init c) (keyOk_init c) (fun _ _ _ _ _ hi hap => keyOk_apply hi hap) s h

theorem KeyOk.so_lt {c : Cfg} {s : St} (h : KeyOk c s) (hw : Word64 c) (a : Nat) : s.so a < 2 ^ 64 := by
  rcases h.so a with e | ⟨x, e⟩ | ⟨x, e⟩ <;> rw [e]
  · decide
  · exact hw.1 x
  · exact hw.2 x

/-! ### Well-formedness of the dump -/

theorem SInvL.snap_head {c : Cfg} {s : St} {L : List Nat} (h : SInvL c s L) (hc : SOHyp c) :
    ∃ l, absNodes s = 0 :: l ∧ s.so 0 = 0 := by
  rw [h.absNodes_eq]
  have hch := h.g.chain
  have h0 := h.g.tab 0 0 h.g.tab0
  have hso : s.so 0 = 0 := by have := h0.2.2.1; dsimp only at this; rw [this]; exact hc.dum0
  cases L with
  | nil => simp [Michael.Chain] at hch
  | cons a r =>
    simp only [Michael.Chain, Option.some.injEq] at hch
    exact ⟨r, by rw [hch.1], hso⟩

theorem SInvL.snap_parity {c : Cfg} {s : St} {L : List Nat} (h : SInvL c s L) (hc : SOHyp c) (hk : KeyOk c s)
    (hw : Word64 c) : ∀ a, a ∈ absNodes s → (snapNode s a).parityOk = true := by
  intro a ha
  rw [h.absNodes_eq] at ha
  have hal := h.g.alloc a ha
  have hlt := hk.so_lt hw a
  unfold SONode.parityOk snapNode
  simp only [Bool.and_eq_true, decide_eq_true_eq]
  refine ⟨?_, hlt⟩
  have hpar : a % 2 = 0 ∨ a % 2 = 1 := by omega
  rcases hpar with e | e
  · have := h.g.dumso a e hal; dsimp only at this
    simp [e, this]
  · have := h.g.regso a e hal; dsimp only at this
    have ho := hc.regOdd (c.hash (s.uk a))
    rw [← this] at ho
    simp [e, ho]

theorem SInvL.snap_sorted {c : Cfg} {s : St} {L : List Nat} (h : SInvL c s L) (hc : SOHyp c) (hk : KeyOk c s) :
    (snapOf s).Pairwise (fun x y => soLt x y = true) := by
  unfold snapOf
  rw [List.pairwise_map, h.absNodes_eq]
  refine List.Pairwise.imp_of_mem ?_ h.g.sorted
  intro a b ha hb hab
  have hala := h.g.alloc a ha
  have halb := h.g.alloc b hb
  unfold KLt klt at hab
  dsimp only at hab
  unfold soLt snapNode
  simp only [Bool.or_eq_true, Bool.and_eq_true, decide_eq_true_eq, beq_iff_eq, Bool.not_eq_true']
  rcases hab with hlt | ⟨heq, hlt⟩
  · exact Or.inl hlt
  · right
    have hpa : a % 2 = 0 ∨ a % 2 = 1 := by omega
    have hpb : b % 2 = 0 ∨ b % 2 = 1 := by omega
    have so_par : ∀ x, x ∈ L → (s.so x % 2 = 0 ↔ x % 2 = 0) := by
      intro x hx
      have hal := h.g.alloc x hx
      have hp : x % 2 = 0 ∨ x % 2 = 1 := by omega
      rcases hp with e | e
      · have := h.g.dumso x e hal; dsimp only at this
        exact ⟨fun _ => e, fun _ => this⟩
      · have := h.g.regso x e hal; dsimp only at this
        have ho := hc.regOdd (c.hash (s.uk x))
        rw [← this] at ho
        exact ⟨fun h0 => by omega, fun h0 => by omega⟩
    have h1 := so_par a ha
    have h2 := so_par b hb
    rcases hpa with ea | ea
    · -- two dummy nodes with one split-order key: both have user key 0
      have eb : b % 2 = 0 := h2.1 (by rw [← heq]; exact h1.2 ea)
      have := hk.uk a ea
      have := hk.uk b eb
      omega
    · have eb : b % 2 = 1 := by
        rcases hpb with eb | eb
        · have := h1.1 (by rw [heq]; exact h2.2 eb); omega
        · exact eb
      simp [ea, eb, heq, hlt]

theorem SInvL.snap_wf {c : Cfg} {s : St} {L : List Nat} (h : SInvL c s L) (hc : SOHyp c) (hk : KeyOk c s)
    (hw : Word64 c) : splitWf (snapOf s) = true := by
  obtain ⟨l, hl, hso⟩ := h.snap_head hc
  have hpar := h.snap_parity hc hk hw
  have hsorted := CdsVerif.Props.C18.chainB_of_pairwise soLt _ (h.snap_sorted hc hk)
  have hall : (snapOf s).all SONode.parityOk = true := by
    unfold snapOf
    rw [List.all_eq_true]
    intro x hx
    obtain ⟨a, ha, rfl⟩ := List.mem_map.1 hx
    exact hpar a ha
  unfold splitWf
  rw [hall, hsorted]
  unfold snapOf
  rw [hl]
  simp [snapNode, hso]

/-! ### The bucket table refers to exactly the linked dummy nodes, outside the publication windows -/

/-- No thread is between the CAS that links a dummy node and the store that publishes it. -/
def NoPub (s : St) : Prop := ∀ t, pcPub (s.pc t) = none

theorem noPub_of_idle {s : St} (h : ∀ t, s.pc t = .idle) : NoPub s := by
  intro t; rw [h t]; rfl

theorem published_of_noPub {c : Cfg} {s : St} {L : List Nat} (hl : SInvL c s L) (hP : PubOk s L)
    (hT : ∀ b d, s.table b = some d → b < 2 ^ s.cnt2) (hn : NoPub s) : Published s := by
  intro a ha
  rw [hl.absNodes_eq] at ha
  unfold inTable
  rw [List.any_eq_true]
  constructor
  · rintro ⟨b, -, hb⟩
    exact (hl.g.tab b a (by simpa using hb)).2.1
  · intro hev
    rcases hP a ha hev with ⟨b, hb⟩ | ⟨t, ht⟩
    · exact ⟨b, List.mem_range.2 (hT b a hb), by simp [hb]⟩
    · rw [hn t] at ht; cases ht

end CdsVerif.Algo.SplitList

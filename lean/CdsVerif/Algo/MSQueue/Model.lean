/-
  Atomic-step model of `cds::intrusive::MSQueue` (cds/intrusive/msqueue.h), functions `enqueue` and
  `dequeue` / `do_dequeue` (the Michael–Scott queue; the MSQueue variant re-validates `m_pHead` after
  protecting `h->m_pNext`, MoirQueue does not).

    MSQueue(): m_pHead = m_pTail = &m_Dummy

    enqueue( val ):
        pNew = node of val
        while ( true ) {
            t = guard.protect( m_pTail )      -- gc::Guard::protect:
                                              --   pCur = load;                                           enqLd1
                                              --   do { pRet = pCur; hp := pCur; pCur = load } while ( pRet != pCur )   enqLd2
            pNext = t->m_pNext.load()                                   -- enqNext
            if ( pNext != nullptr ) {
                m_pTail.compare_exchange_weak( t, pNext )               -- enqHelp   (result ignored)
                continue;
            }
            tmp = nullptr
            if ( t->m_pNext.compare_exchange_strong( tmp, pNew ))       -- enqCas
                break;
            back-off                                                    -- (failure: restart the loop)
        }
        m_pTail.compare_exchange_strong( t, pNew )                      -- enqSwing  (result ignored)
        return true;

    do_dequeue():
        while ( true ) {
            h = guards.protect( 0, m_pHead )  -- gc::GuardArray::protect:
                                              --   do { pRet = load; hp := pRet }                         deqLd1
                                              --   while ( pRet != load )                                 deqLd2
            pNext = guards.protect( 1, h->m_pNext )                     -- deqNx1, deqNx2 (same loop shape)
            if ( m_pHead.load() != h ) continue;                        -- deqChk
            if ( pNext == nullptr ) return false;                       --   (local; decided in the deqChk step)
            t = m_pTail.load()                                          -- deqTail
            if ( h == t ) {
                m_pTail.compare_exchange_strong( t, pNext )             -- deqHelp   (result ignored)
                continue;
            }
            if ( m_pHead.compare_exchange_strong( h, pNext )) break;    -- deqCas
            back-off                                                    -- (failure: restart the loop)
        }
        return pNext (the value stored in node pNext)

  NOTE the two `protect` loops differ in the real code and the model mirrors both: `gc::Guard::protect`
  (enqueue) re-uses the value of the failed validating load as the next candidate (one load per retry);
  `gc::GuardArray::protect` (dequeue) starts over with a fresh pair of loads.

  Memory model of the model: garbage-collected heap.  A node is a natural number; node 0 is `m_Dummy`; client
  nodes are fresh (`cnt`, starting at 1) and never reused: this is what the hazard pointers published by
  `protect` guarantee in the real code, and it is an ASSUMPTION here.  The hazard-pointer stores are not
  shared-memory steps of the model.  The disposer's `clear_links` (run by the HP retire cycle on a node that no
  thread can reach any more) is not modelled.  `compare_exchange_weak` never fails spuriously in the model.
  The item counter, the statistics and the back-off are not modelled.

  One `step` = one atomic operation on shared memory.  Event rendering (the `A` lines of the harness trace):
      ld   head  n<a>               load of m_pHead, value read
      ld   tail  n<a>               load of m_pTail
      ld   n<a>  <ptr>              load of node a's m_pNext
      cas+ head  n<old> n<new>      successful CAS on m_pHead      (cas+ tail ... likewise)
      cas- head  n<seen> n<expected> failed CAS on m_pHead         (cas- tail ... likewise)
      cas+ n<a>  null n<new>        successful CAS on node a's m_pNext
      cas- n<a>  n<seen> null       failed CAS on node a's m_pNext
  where <ptr> is `null` or `n<id>`.
-/
import CdsVerif.Base.Machine
namespace CdsVerif.Algo.MSQueue
open CdsVerif.Machine CdsVerif.Spec

inductive PC
  | idle
  | enqLd1 (n : Nat)                         -- next: first load of protect( m_pTail )
  | enqLd2 (n : Nat) (p : Nat)               -- next: validating load of protect (p = value read before)
  | enqNext (n : Nat) (t : Nat)              -- next: pNext = t->m_pNext.load()
  | enqHelp (n : Nat) (t : Nat) (x : Nat)    -- next: CAS( m_pTail, t, pNext = x ); then restart
  | enqCas (n : Nat) (t : Nat)               -- next: CAS( t->m_pNext, null, pNew )
  | enqSwing (n : Nat) (t : Nat)             -- next: CAS( m_pTail, t, pNew ); then return [1]
  | deqLd1                                   -- next: first load of protect( m_pHead )
  | deqLd2 (p : Nat)                         -- next: validating load of protect( m_pHead )
  | deqNx1 (h : Nat)                         -- next: first load of protect( h->m_pNext )
  | deqNx2 (h : Nat) (p : Option Nat)        -- next: validating load of protect( h->m_pNext )
  | deqChk (h : Nat) (nx : Option Nat)       -- next: m_pHead.load() != h ? restart : ( pNext == null ? return [0] : go on )
  | deqTail (h : Nat) (x : Nat)              -- next: t = m_pTail.load()
  | deqHelp (h : Nat) (x : Nat)              -- next: CAS( m_pTail, t = h, pNext = x ); then restart
  | deqCas (h : Nat) (x : Nat)               -- next: CAS( m_pHead, h, pNext = x )
  | done (r : GRet)
deriving DecidableEq, Repr

structure St where
  head : Nat                     -- m_pHead (never null)
  tail : Nat                     -- m_pTail (never null)
  next : Nat → Option Nat        -- m_pNext of every node
  val : Nat → Int                -- payload of every node
  cnt : Nat                      -- next fresh node
  pc : Tid → PC

/-- The dummy node `m_Dummy`. -/
def dummy : Nat := 0

def init : St := ⟨dummy, dummy, fun _ => none, fun _ => 0, 1, fun _ => .idle⟩

/-! ### Event rendering (the only place where events are built) -/

def ptr : Option Nat → String
  | none => "null"
  | some a => s!"n{a}"
def nloc (a : Nat) : String := s!"n{a}"
def headLoc : String := "head"
def tailLoc : String := "tail"

def evLd (loc : String) (v : Option Nat) : Ev := ⟨"ld", loc, ptr v, ""⟩
def evCasOk (loc : String) (old new : Option Nat) : Ev := ⟨"cas+", loc, ptr old, ptr new⟩
def evCasFail (loc : String) (seen expected : Option Nat) : Ev := ⟨"cas-", loc, ptr seen, ptr expected⟩

/-! ### Transitions -/

/-- `enq [v]`: the client supplies a fresh node carrying `v` (its `m_pNext` is null: `link_checker`).
    `deq []`. -/
def invoke (s : St) (t : Tid) (op : GOp) : Option St :=
  match s.pc t, op.name, op.args with
  | .idle, "enq", [v] =>
    some { s with val := upd s.val s.cnt v, cnt := s.cnt + 1, pc := upd s.pc t (.enqLd1 s.cnt) }
  | .idle, "deq", [] => some { s with pc := upd s.pc t .deqLd1 }
  | _, _, _ => none

def step (s : St) (t : Tid) : Option (St × Ev) :=
  match s.pc t with
  | .enqLd1 n => some ({ s with pc := upd s.pc t (.enqLd2 n s.tail) }, evLd tailLoc (some s.tail))
  | .enqLd2 n p =>
    if s.tail = p then
      some ({ s with pc := upd s.pc t (.enqNext n p) }, evLd tailLoc (some p))
    else
      some ({ s with pc := upd s.pc t (.enqLd2 n s.tail) }, evLd tailLoc (some s.tail))
  | .enqNext n a =>
    match s.next a with
    | none => some ({ s with pc := upd s.pc t (.enqCas n a) }, evLd (nloc a) none)
    | some x => some ({ s with pc := upd s.pc t (.enqHelp n a x) }, evLd (nloc a) (some x))
  | .enqHelp n a x =>
    if s.tail = a then
      some ({ s with tail := x, pc := upd s.pc t (.enqLd1 n) }, evCasOk tailLoc (some a) (some x))
    else
      some ({ s with pc := upd s.pc t (.enqLd1 n) }, evCasFail tailLoc (some s.tail) (some a))
  | .enqCas n a =>
    match s.next a with
    | none =>
      some ({ s with next := upd s.next a (some n), pc := upd s.pc t (.enqSwing n a) }, evCasOk (nloc a) none (some n))
    | some x => some ({ s with pc := upd s.pc t (.enqLd1 n) }, evCasFail (nloc a) (some x) none)
  | .enqSwing n a =>
    if s.tail = a then
      some ({ s with tail := n, pc := upd s.pc t (.done [1]) }, evCasOk tailLoc (some a) (some n))
    else
      some ({ s with pc := upd s.pc t (.done [1]) }, evCasFail tailLoc (some s.tail) (some a))
  | .deqLd1 => some ({ s with pc := upd s.pc t (.deqLd2 s.head) }, evLd headLoc (some s.head))
  | .deqLd2 p =>
    if s.head = p then
      some ({ s with pc := upd s.pc t (.deqNx1 p) }, evLd headLoc (some p))
    else
      some ({ s with pc := upd s.pc t .deqLd1 }, evLd headLoc (some s.head))
  | .deqNx1 h => some ({ s with pc := upd s.pc t (.deqNx2 h (s.next h)) }, evLd (nloc h) (s.next h))
  | .deqNx2 h p =>
    if s.next h = p then
      some ({ s with pc := upd s.pc t (.deqChk h p) }, evLd (nloc h) p)
    else
      some ({ s with pc := upd s.pc t (.deqNx1 h) }, evLd (nloc h) (s.next h))
  | .deqChk h nx =>
    if s.head = h then
      match nx with
      | none => some ({ s with pc := upd s.pc t (.done [0]) }, evLd headLoc (some h))
      | some x => some ({ s with pc := upd s.pc t (.deqTail h x) }, evLd headLoc (some h))
    else
      some ({ s with pc := upd s.pc t .deqLd1 }, evLd headLoc (some s.head))
  | .deqTail h x =>
    if s.tail = h then
      some ({ s with pc := upd s.pc t (.deqHelp h x) }, evLd tailLoc (some h))
    else
      some ({ s with pc := upd s.pc t (.deqCas h x) }, evLd tailLoc (some s.tail))
  | .deqHelp h x =>
    if s.tail = h then
      some ({ s with tail := x, pc := upd s.pc t .deqLd1 }, evCasOk tailLoc (some h) (some x))
    else
      some ({ s with pc := upd s.pc t .deqLd1 }, evCasFail tailLoc (some s.tail) (some h))
  | .deqCas h x =>
    if s.head = h then
      some ({ s with head := x, pc := upd s.pc t (.done [1, s.val x]) }, evCasOk headLoc (some h) (some x))
    else
      some ({ s with pc := upd s.pc t .deqLd1 }, evCasFail headLoc (some s.head) (some h))
  | _ => none

def result (s : St) (t : Tid) : Option (St × GRet) :=
  match s.pc t with
  | .done r => some ({ s with pc := upd s.pc t .idle }, r)
  | _ => none

def model : Model St := ⟨invoke, step, result⟩

/-- The trace lines of a run, as the harness prints them (`T <tid> A <event>` for atomic events). -/
def render (os : List (Tid × Obs)) : List String :=
  os.map fun (t, o) => match o with
    | .call op => s!"T {t} C {op.name} {op.args}"
    | .ev e => s!"T {t} A {e}"
    | .ret r => s!"T {t} R {r}"

end CdsVerif.Algo.MSQueue

/-
  Linearizability of the skip-list machine (repaired fast path) with respect to `Spec.map`, by a ghost log as in
  `Algo/Michael/Lin.lean` (whose log lemmas are reused): an entry is appended at every linearization point, tentative
  entries (a traversal that has read an unmarked item with the key but has not validated its predecessor yet) are
  withdrawn when the validation fails.

  New here: HELPED linearization points.  When an erase marks level 0 of its victim, every other thread that is inside
  `try_remove_at` for the same item will answer "not found" (its marking CAS can only fail on the marked word), no
  matter what happens later — the item may be unlinked and the key inserted again before the loser runs.  The loser's
  entry is therefore appended in the same step, right behind the winner's.
-/
import CdsVerif.Algo.SkipList.Reach
namespace CdsVerif.Algo.SkipList
open CdsVerif.Machine CdsVerif.Spec CdsVerif.Lin
open CdsVerif.Algo.Michael (Chain Lt LPok isRO insAfter Has LE Pend histAux pendAux runSpec completed openOf dropOpen
  openAll finalLog keepLE)

/-! ### Helped entries -/

/-- The entry of thread `t2` if the step of thread `t` has fixed its result. -/
def hent (t : Tid) (old new : Tid → Option GRet) (pend : Pend) (t2 : Tid) : Option LE :=
  if t2 = t then none else
  match old t2, new t2, pend t2 with
  | none, some r, some (op, k) => some ⟨t2, op, r, k, none⟩
  | _, _, _ => none

def helped (act : List Tid) (t : Tid) (old new : Tid → Option GRet) (pend : Pend) : List LE :=
  act.filterMap (hent t old new pend)

theorem hent_spec {t : Tid} {old new : Tid → Option GRet} {pend : Pend} {t2 : Tid} {e : LE}
    (h : hent t old new pend t2 = some e) :
    e.tid = t2 ∧ e.res = none ∧ t2 ≠ t ∧ old t2 = none ∧ new t2 = some e.ret ∧ pend t2 = some (e.op, e.inv) := by
  unfold hent at h
  split at h
  · simp at h
  next hne =>
    split at h
    next r op k h1 h2 h3 => simp only [Option.some.injEq] at h; subst h; exact ⟨rfl, rfl, hne, h1, h2, h3⟩
    · simp at h

theorem helped_nil {act : List Tid} {t : Tid} {old new : Tid → Option GRet} {pend : Pend}
    (h : ∀ t2, t2 ≠ t → new t2 = old t2) : helped act t old new pend = [] := by
  unfold helped
  apply List.filterMap_eq_nil_iff.mpr
  intro t2 _
  unfold hent
  split
  · rfl
  next hne =>
    split
    next r op k h1 h2 h3 => rw [h t2 hne, h1] at h2; simp at h2
    · rfl

theorem openOf_filterMap {act : List Tid} (hnd : act.Nodup) {F : Tid → Option LE}
    (hF : ∀ t e, F t = some e → e.tid = t ∧ e.res = none) (t2 : Tid) :
    openOf t2 (act.filterMap F) = if t2 ∈ act then (F t2).toList else [] := by
  induction act with
  | nil => simp [openOf]
  | cons a l ih =>
    have hnd' := List.nodup_cons.mp hnd
    simp only [List.filterMap_cons]
    cases hFa : F a with
    | none =>
      simp only [ih hnd'.2]
      by_cases e : t2 = a
      · subst e; simp [hnd'.1, hFa]
      · simp [e]
    | some ea =>
      have hs := hF a ea hFa
      simp only [openOf, List.filter_cons] at ih ⊢
      by_cases e : t2 = a
      · subst e
        have hnot : t2 ∉ l := hnd'.1
        have ih' := ih hnd'.2
        simp only [hnot, if_false] at ih'
        have hdec : decide (ea.tid = t2 ∧ ea.res = none) = true := by simp [hs.1, hs.2]
        simp only [hdec, if_true, ih', List.mem_cons, true_or, hFa, Option.toList_some]
      · have : ¬ (ea.tid = t2) := by rw [hs.1]; exact fun h => e h.symm
        simp only [this, false_and, decide_false, Bool.false_eq_true, if_false, List.mem_cons, e, false_or]
        exact ih hnd'.2

theorem runSpec_ro_list (m : MapSt) (l : List LE) (h : ∀ e ∈ l, Spec.map.next m e.op e.ret = some m) :
    runSpec m l = some m := by
  induction l with
  | nil => rfl
  | cons e l ih =>
    simp only [runSpec, h e (by simp), Option.bind_some]
    exact ih (fun e' he' => h e' (List.mem_cons_of_mem _ he'))

theorem completed_open_nil (l : List LE) (h : ∀ e ∈ l, e.res = none) : completed l = [] := by
  unfold completed
  apply List.filterMap_eq_nil_iff.mpr
  intro e he
  simp [LE.done?, h e he]

/-! ### Instrumented runs -/

structure GSt where
  s : St
  clock : Nat
  pend : Pend
  hist : List (OpRec GOp GRet)
  log : List LE
  act : List Tid                       -- the threads that have invoked an operation so far

def ginit (c : Cfg) : GSt := ⟨init c, 0, fun _ => none, [], [], []⟩

def lpOf (s : St) (t : Tid) : Option GRet := lpRet (mk0 s.mark) s.key s.val (s.pc t)

def gnext (g : GSt) (t : Tid) (s' : St) : Obs → GSt
  | .call op =>
    { g with s := s', clock := g.clock + 1, pend := upd g.pend t (some (op, g.clock)),
             act := if t ∈ g.act then g.act else t :: g.act }
  | .ev _ =>
    { g with
      s := s', clock := g.clock + 1,
      log := (match lpOf g.s t, lpOf s' t, g.pend t with
        | none, some r, some (op, k) => g.log ++ [⟨t, op, r, k, none⟩]
        | some _, none, _ => dropOpen t g.log
        | _, _, _ => g.log) ++ helped g.act t (lpOf g.s) (lpOf s') g.pend }
  | .ret r =>
    match g.pend t with
    | some (op, k) =>
      { g with s := s', clock := g.clock + 1, pend := upd g.pend t none,
               hist := g.hist ++ [⟨t, op, r, k, g.clock⟩], log := g.log.map (LE.close t g.clock) }
    | none => { g with s := s', clock := g.clock + 1 }

structure GI (g : GSt) (L : List Nat) : Prop where
  spec : ∃ m, runSpec [] g.log = some m ∧ ∀ k v, mfind m k = some v ↔ Has (mk0 g.s.mark) g.s.key g.s.val L k v
  invlt : ∀ e, e ∈ g.log → e.inv < g.clock
  rt : g.log.Pairwise (fun a b => ∀ r, b.res = some r → a.inv ≤ r)
  comp : (completed g.log).Perm g.hist
  pendlt : ∀ t op k, g.pend t = some (op, k) → k < g.clock
  pre : ∀ t op, opOf g.s.key g.s.val (g.s.pc t) = some op → ∃ k, g.pend t = some (op, k)
  preopen : ∀ t, lpOf g.s t = none → openOf t g.log = []
  post : ∀ t r, lpOf g.s t = some r → ∃ op k, g.pend t = some (op, k) ∧ openOf t g.log = [⟨t, op, r, k, none⟩]
  idle : ∀ t, g.s.pc t = .idle → g.pend t = none
  actnd : g.act.Nodup
  actmem : ∀ t, g.pend t ≠ none → t ∈ g.act

def GInv (c : Cfg) (g : GSt) : Prop := ∃ L, SInvL c g.s L ∧ GI g L

theorem ginv_init (c : Cfg) : GInv c (ginit c) := by
  refine ⟨[0], sinv_init c, ?_⟩
  constructor <;> simp [ginit, init, runSpec, completed, opOf, lpOf, lpRet, openOf, Has, mfind]

theorem ginv_invoke {c : Cfg} {g : GSt} {t : Tid} {op : GOp} {s' : St} (h : GInv c g)
    (hs : invoke c g.s t op = some s') : GInv c (gnext g t s' (.call op)) := by
  obtain ⟨L, hl, hg⟩ := h
  obtain ⟨hl', he⟩ := sinvl_invoke hl hs
  refine ⟨L, hl', ?_⟩
  obtain ⟨hspec, hinvlt, hrt, hcomp, hpendlt, hpre, hpreopen, hpost, hidle, hnd, hmem⟩ := hg
  obtain ⟨hframe, hops, hlps, hwas, hnow, habs⟩ := he
  have hpw : lpOf g.s t = none := by simp [lpOf, hwas, lpRet]
  constructor
  · obtain ⟨m, hm1, hm2⟩ := hspec
    exact ⟨m, hm1, fun k v => (hm2 k v).trans (habs k v).symm⟩
  · intro e he; have := hinvlt e he; simp only [gnext]; omega
  · exact hrt
  · exact hcomp
  · intro t2 op2 k; simp only [gnext, upd]; intro h
    split at h
    · simp at h; omega
    · have := hpendlt t2 op2 k h; omega
  · intro t2 op2; simp only [gnext]
    by_cases ht : t2 = t
    · subst ht; rw [hnow.1]; intro h; simp at h; subst h; exact ⟨g.clock, by simp [upd]⟩
    · rw [hframe t2 ht, hops t2 ht]; intro h
      obtain ⟨k, hk⟩ := hpre t2 op2 h
      exact ⟨k, by simp [upd, ht, hk]⟩
  · intro t2; simp only [gnext, lpOf]
    by_cases ht : t2 = t
    · subst ht; intro _; exact hpreopen t2 hpw
    · rw [hframe t2 ht, hlps t2 ht]; exact hpreopen t2
  · intro t2 r; simp only [gnext, lpOf]
    by_cases ht : t2 = t
    · subst ht; rw [hnow.2]; intro h; simp at h
    · rw [hframe t2 ht, hlps t2 ht]; intro h
      obtain ⟨op2, k, h1, h2⟩ := hpost t2 r h
      exact ⟨op2, k, by simp [upd, ht, h1], h2⟩
  · intro t2; simp only [gnext]
    by_cases ht : t2 = t
    · subst ht; intro h; rw [h] at hnow; simp [opOf] at hnow
    · rw [hframe t2 ht]; intro h; simp [upd, ht, hidle t2 h]
  · simp only [gnext]; split
    · exact hnd
    next hn => exact List.nodup_cons.mpr ⟨hn, hnd⟩
  · intro t2; simp only [gnext, upd]
    intro h
    by_cases ht : t2 = t
    · subst ht; split
      · assumption
      · simp
    · simp only [ht, if_false] at h
      have := hmem t2 h
      split
      · exact this
      · exact List.mem_cons_of_mem _ this

theorem ginv_result {c : Cfg} {g : GSt} {t : Tid} {r : GRet} {s' : St} (h : GInv c g)
    (hs : result g.s t = some (s', r)) : GInv c (gnext g t s' (.ret r)) := by
  obtain ⟨L, hl, hg⟩ := h
  obtain ⟨hl', hdone, hidl, hframe, hkey, hval, hmark⟩ := sinvl_result hl hs
  obtain ⟨hspec, hinvlt, hrt, hcomp, hpendlt, hpre, hpreopen, hpost, hidle, hnd, hmem⟩ := hg
  obtain ⟨op, k, hp, hopen⟩ := hpost t r (by simp [lpOf, hdone, lpRet])
  have hcl : ∀ e, (LE.close t g.clock e).inv = e.inv := by intro e; unfold LE.close; split <;> rfl
  simp only [gnext, hp]
  refine ⟨L, hl', ?_⟩
  constructor <;> dsimp only
  · obtain ⟨m, hm1, hm2⟩ := hspec
    refine ⟨m, by rw [Michael.runSpec_close]; exact hm1, ?_⟩
    rw [hkey, hval, hmark]; exact hm2
  · intro e he
    obtain ⟨e0, he0, rfl⟩ := List.mem_map.mp he
    have := hinvlt e0 he0; rw [hcl]; omega
  · rw [List.pairwise_map]
    refine List.Pairwise.imp_of_mem ?_ hrt
    intro a b ha hb hab r' hr'
    rw [hcl]
    unfold LE.close at hr'
    split at hr'
    · simp at hr'; have := hinvlt a ha; omega
    · exact hab r' hr'
  · refine (Michael.completed_close t g.clock g.log).trans ?_
    rw [hopen]
    exact List.Perm.append_right _ hcomp
  · intro t2 op2 k2 h
    simp only [upd] at h
    split at h
    · simp at h
    · have := hpendlt t2 op2 k2 h; omega
  · intro t2 op2
    by_cases ht : t2 = t
    · subst ht; rw [hidl]; simp [opOf]
    · rw [hframe t2 ht, hkey, hval]; intro h
      obtain ⟨k2, hk⟩ := hpre t2 op2 h
      exact ⟨k2, by simp [upd, ht, hk]⟩
  · intro t2
    simp only [lpOf]
    by_cases ht : t2 = t
    · subst ht; intro _; exact Michael.openOf_close_same _ _ _
    · rw [hframe t2 ht, hkey, hval, hmark, Michael.openOf_close_other _ _ _ ht]; exact hpreopen t2
  · intro t2 r2
    simp only [lpOf]
    by_cases ht : t2 = t
    · subst ht; rw [hidl]; simp [lpRet]
    · rw [hframe t2 ht, hkey, hval, hmark, Michael.openOf_close_other _ _ _ ht]; intro h
      obtain ⟨op2, k2, h1, h2⟩ := hpost t2 r2 h
      exact ⟨op2, k2, by simp [upd, ht, h1], h2⟩
  · intro t2
    by_cases ht : t2 = t
    · subst ht; intro _; simp [upd]
    · rw [hframe t2 ht]; intro h; simp [upd, ht, hidle t2 h]
  · exact hnd
  · intro t2 h
    by_cases ht : t2 = t
    · subst ht; simp [upd] at h
    · simp only [upd, ht, if_false] at h; exact hmem t2 h

end CdsVerif.Algo.SkipList

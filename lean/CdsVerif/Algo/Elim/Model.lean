/-
  Atomic-step model of `cds::intrusive::TreiberStack` WITH elimination back-off (cds/intrusive/treiber_stack.h,
  `traits::enable_elimination = true`): functions `push`, `pop` and
  `treiber_stack::details::elimination_backoff<true, …>::backoff( op, stat )`, the slot locks are
  `cds::sync::spin` (test-and-test-and-set).

    push( val ):
        pNew = node of val;  op.idOp = op_push; op.pVal = &val          -- descriptor `op` lives in the frame of push()
        t = m_Top.load()                                   -- pushLd
        while ( true ) {
            pNew->m_pNext.store( t )                       -- pushSt
            if ( m_Top.compare_exchange_weak( t, pNew ))   -- pushCas  (failure: t := value seen)
                return true;
            if ( bkoff.backoff( op, m_stat )) return true; -- bk…
        }

    pop():
        op.idOp = op_pop
        while ( true ) {
            t = guard.protect( m_Top )                     -- popLd1, popLd2 (validating load)
            if ( t == nullptr ) return nullptr;
            pNext = t->m_pNext.load()                      -- popNext
            if ( m_Top.compare_exchange_weak( t, pNext )) {   -- popCas
                clear_links( t )                           -- popClr
                return t;
            }
            if ( bkoff.backoff( op, m_stat )) return op.pVal;   -- bk…
        }

    backoff( op ):
        op.nStatus.store( op_waiting )                     -- bkSt            st op<t>.status 1
        myRec = init_record( op )                          -- thread-local record, myRec->pOp = &op (plain)
        slot = collisions[ slot_index() ]                  -- the slot index is an INPUT of the operation (see below)
        slot.lock.lock()                                   -- bkLock (exchange), bkSpin (load while locked)
        himRec = slot.pRec                                 -- plain accesses, protected by the slot lock:
        if ( himRec && himRec->pOp->idOp != op.idOp ) {    --   they are part of the step of the NEXT atomic operation
            if ( op.idOp == op_push ) himOp->pVal = op.pVal; else op.pVal = himOp->pVal;
            slot.pRec = nullptr
            himOp->nStatus.store( op_collided )            -- bkIn, collision       st op<h>.status 2
            slot.lock.unlock()                             -- bkUnlC                st slot<i>.lock 0
            return true                                    -- ACTIVE collision
        }
        slot.pRec = myRec
        slot.lock.unlock()                                 -- bkIn, publication     st slot<i>.lock 0
        bkoff( [&op]{ return op.nStatus.load() != op_waiting; } )
                                                           -- bkWait: at most k+1 loads of op<t>.status; stops at the first
                                                           --   value other than op_waiting.  k is an INPUT (see below)
        { lock( slot.lock );                               -- bkLock2, bkSpin2
          if ( slot.pRec == myRec ) slot.pRec = nullptr;   -- withdrawal (plain, under the lock)
        }                                                  -- bkIn2                 st slot<i>.lock 0
        bCollided = op.nStatus.load() == op_collided       -- bkChk                 ld op<t>.status v
        return bCollided                                   -- PASSIVE collision iff true

  INPUTS OF AN OPERATION.  `push v s1 k1 s2 k2 …` / `pop s1 k1 s2 k2 …`: the i-th back-off round of the operation
  uses collision slot `s_i` (what `slot_index()` = random engine modulo capacity delivers) and waits for at most
  `k_i + 1` evaluations of the predicate (`backoff::delay<>`: `for ( i = 0; i < timeout; i += 2 ) { if ( pr()) return
  true; sleep }`, timeout > 0, so at least one evaluation).  A missing pair is (0, 0).  All theorems hold for every
  argument list: every random engine, every collision array capacity (the model has one slot per natural number),
  every timeout.

  State.  Per thread `t`: the descriptor `op` of the operation in progress (`isPush` = idOp, `pval` = pVal as a node,
  `status` = nStatus; a fresh descriptor with status op_free = 0 per operation: constructor of `operation<T>`), the
  thread-local elimination record is identified with the thread.  Per slot `i`: `lock i` (m_spin) and `srec i`
  (slot.pRec = the thread whose record is published, if any).
  Ghost fields (never read by a transition): `taken a` = the thread whose pop took node `a` (from the stack or by
  elimination), `elim a` = node `a` was handed over by elimination.

  Memory model of the model, as for Algo/Treiber: sequentially consistent interleavings, garbage-collected heap
  (a node is a fresh natural number, never reused: what the hazard pointer provides, an ASSUMPTION), the
  hazard-pointer stores, the item counter and the statistics are not steps, CAS is strong.

  Event rendering (the `A` lines of the harness trace), in addition to those of Algo/Treiber:
      st   op<t>.status 1|2        ld op<t>.status <v>
      xchg slot<i>.lock <old> 1    ld slot<i>.lock <v>      st slot<i>.lock 0
-/
import CdsVerif.Base.Machine
namespace CdsVerif.Algo.Elim
open CdsVerif.Machine CdsVerif.Spec

/-- What the back-off has to resume: `push` of node `n` (`tv` = the value of top the failed CAS has seen), or `pop`. -/
inductive Ctx
  | push (n : Nat) (tv : Option Nat)
  | pop
deriving DecidableEq, Repr

inductive PC
  | idle
  | pushLd (n : Nat)                       -- next: t = m_Top.load()
  | pushSt (n : Nat) (tv : Option Nat)     -- next: pNew->m_pNext.store( t )
  | pushCas (n : Nat) (tv : Option Nat)    -- next: CAS( m_Top, t, pNew )
  | popLd1                                 -- next: first load of protect
  | popLd2 (p : Option Nat)                -- next: validating load of protect (p = value read before)
  | popNext (a : Nat)                      -- next: pNext = t->m_pNext.load()
  | popCas (a : Nat) (nx : Option Nat)     -- next: CAS( m_Top, t, pNext )
  | popClr (a : Nat) (r : GRet)            -- next: clear_links( t ); then return r
  | bkSt (c : Ctx) (sl k : Nat)            -- next: op.nStatus.store( op_waiting )
  | bkLock (c : Ctx) (sl k : Nat)          -- next: slot.lock: exchange( true )
  | bkSpin (c : Ctx) (sl k : Nat)          -- next: slot.lock: load in the inner wait loop
  | bkIn (c : Ctx) (sl k : Nat)            -- holds the slot lock.  next: collide (store to HIS status) or publish + unlock
  | bkUnlC (c : Ctx) (sl : Nat)            -- active collision done.  next: unlock; then return true
  | bkWait (c : Ctx) (sl k : Nat)          -- published.  next: load of the own status (k more may follow)
  | bkLock2 (c : Ctx) (sl : Nat)           -- next: slot.lock: exchange( true ) of the withdrawal
  | bkSpin2 (c : Ctx) (sl : Nat)           -- next: slot.lock: load in the inner wait loop
  | bkIn2 (c : Ctx) (sl : Nat)             -- holds the slot lock.  next: withdraw + unlock
  | bkChk (c : Ctx)                        -- next: bCollided = ( op.nStatus.load() == op_collided )
  | done (r : GRet)
deriving DecidableEq, Repr

structure St where
  top : Option Nat               -- m_Top (none = nullptr)
  next : Nat → Option Nat        -- m_pNext of every node
  val : Nat → Int                -- payload of every node
  cnt : Nat                      -- next fresh node
  pc : Tid → PC
  rs : Tid → List Nat            -- inputs (slot, wait) of the back-off rounds to come
  lock : Nat → Bool              -- collisions[i].lock
  srec : Nat → Option Tid        -- collisions[i].pRec
  status : Tid → Nat             -- op.nStatus of the thread's operation: 0 free, 1 waiting, 2 collided
  isPush : Tid → Bool            -- op.idOp
  pval : Tid → Option Nat        -- op.pVal
  taken : Nat → Option Tid       -- ghost
  elim : Nat → Bool              -- ghost

def init : St :=
  ⟨none, fun _ => none, fun _ => 0, 1, fun _ => .idle, fun _ => [], fun _ => false, fun _ => none,
   fun _ => 0, fun _ => false, fun _ => none, fun _ => none, fun _ => false⟩

/-! ### Event rendering (the only place where events are built) -/

def ptr : Option Nat → String
  | none => "null"
  | some a => s!"n{a}"
def nloc (a : Nat) : String := s!"n{a}"
def topLoc : String := "top"
def lockLoc (i : Nat) : String := s!"slot{i}.lock"
def statLoc (t : Tid) : String := s!"op{t}.status"
def b2s (b : Bool) : String := if b then "1" else "0"

def evLd (loc : String) (v : Option Nat) : Ev := ⟨"ld", loc, ptr v, ""⟩
def evSt (loc : String) (v : Option Nat) : Ev := ⟨"st", loc, ptr v, ""⟩
def evCasOk (loc : String) (old new : Option Nat) : Ev := ⟨"cas+", loc, ptr old, ptr new⟩
def evCasFail (loc : String) (seen expected : Option Nat) : Ev := ⟨"cas-", loc, ptr seen, ptr expected⟩
def evStatSt (t : Tid) (v : Nat) : Ev := ⟨"st", statLoc t, toString v, ""⟩
def evStatLd (t : Tid) (v : Nat) : Ev := ⟨"ld", statLoc t, toString v, ""⟩
def evXchg (i : Nat) (old : Bool) : Ev := ⟨"xchg", lockLoc i, b2s old, "1"⟩
def evLockLd (i : Nat) (v : Bool) : Ev := ⟨"ld", lockLoc i, b2s v, ""⟩
def evUnlock (i : Nat) : Ev := ⟨"st", lockLoc i, "0", ""⟩

/-! ### Transitions -/

/-- The inputs of the next back-off round: slot and number of additional predicate evaluations. -/
def roundOf : List Nat → Nat × Nat × List Nat
  | sl :: k :: rest => (sl, k, rest)
  | _ => (0, 0, [])

/-- Where a failed back-off resumes. -/
def retry : Ctx → PC
  | .push n tv => .pushSt n tv
  | .pop => .popLd1

/-- What an eliminated operation returns: `push`: true; `pop`: `op.pVal`. -/
def retOf (val : Nat → Int) (pv : Option Nat) : Ctx → GRet
  | .push _ _ => [1]
  | .pop => match pv with
    | some n => [1, val n]
    | none => [0]

/-- `push v s1 k1 …`: the client supplies a fresh node carrying `v` (its `m_pNext` is null: `link_checker`).
    `pop s1 k1 …`.  The operation descriptor is constructed (status op_free). -/
def invoke (s : St) (t : Tid) (op : GOp) : Option St :=
  match s.pc t, op.name, op.args with
  | .idle, "push", v :: r =>
    some { s with val := upd s.val s.cnt v, cnt := s.cnt + 1, pc := upd s.pc t (.pushLd s.cnt),
                  rs := upd s.rs t (r.map Int.toNat), status := upd s.status t 0,
                  isPush := upd s.isPush t true, pval := upd s.pval t (some s.cnt) }
  | .idle, "pop", r =>
    some { s with pc := upd s.pc t .popLd1, rs := upd s.rs t (r.map Int.toNat), status := upd s.status t 0,
                  isPush := upd s.isPush t false, pval := upd s.pval t none }
  | _, _, _ => none

def step (s : St) (t : Tid) : Option (St × Ev) :=
  match s.pc t with
  | .pushLd n => some ({ s with pc := upd s.pc t (.pushSt n s.top) }, evLd topLoc s.top)
  | .pushSt n tv => some ({ s with next := upd s.next n tv, pc := upd s.pc t (.pushCas n tv) }, evSt (nloc n) tv)
  | .pushCas n tv =>
    if s.top = tv then
      some ({ s with top := some n, pc := upd s.pc t (.done [1]) }, evCasOk topLoc tv (some n))
    else
      some ({ s with pc := upd s.pc t (.bkSt (.push n s.top) (roundOf (s.rs t)).1 (roundOf (s.rs t)).2.1),
                     rs := upd s.rs t (roundOf (s.rs t)).2.2 }, evCasFail topLoc s.top tv)
  | .popLd1 => some ({ s with pc := upd s.pc t (.popLd2 s.top) }, evLd topLoc s.top)
  | .popLd2 p =>
    if s.top = p then
      match p with
      | none => some ({ s with pc := upd s.pc t (.done [0]) }, evLd topLoc none)
      | some a => some ({ s with pc := upd s.pc t (.popNext a) }, evLd topLoc (some a))
    else
      some ({ s with pc := upd s.pc t (.popLd2 s.top) }, evLd topLoc s.top)
  | .popNext a => some ({ s with pc := upd s.pc t (.popCas a (s.next a)) }, evLd (nloc a) (s.next a))
  | .popCas a nx =>
    if s.top = some a then
      some ({ s with top := nx, pc := upd s.pc t (.popClr a [1, s.val a]), taken := upd s.taken a (some t) },
            evCasOk topLoc (some a) nx)
    else
      some ({ s with pc := upd s.pc t (.bkSt .pop (roundOf (s.rs t)).1 (roundOf (s.rs t)).2.1),
                     rs := upd s.rs t (roundOf (s.rs t)).2.2 }, evCasFail topLoc s.top (some a))
  | .popClr a r => some ({ s with next := upd s.next a none, pc := upd s.pc t (.done r) }, evSt (nloc a) none)
  -- elimination back-off
  | .bkSt c sl k => some ({ s with status := upd s.status t 1, pc := upd s.pc t (.bkLock c sl k) }, evStatSt t 1)
  | .bkLock c sl k =>
    if s.lock sl then some ({ s with pc := upd s.pc t (.bkSpin c sl k) }, evXchg sl true)
    else some ({ s with lock := upd s.lock sl true, pc := upd s.pc t (.bkIn c sl k) }, evXchg sl false)
  | .bkSpin c sl k =>
    if s.lock sl then some (s, evLockLd sl true)
    else some ({ s with pc := upd s.pc t (.bkLock c sl k) }, evLockLd sl false)
  | .bkIn c sl k =>
    match s.srec sl with
    | some h =>
      if s.isPush h ≠ s.isPush t then
        -- collision: exchange the value, take his record out of the slot, tell him
        if s.isPush t then
          some ({ s with pval := upd s.pval h (s.pval t), srec := upd s.srec sl none, status := upd s.status h 2,
                         pc := upd s.pc t (.bkUnlC c sl),
                         taken := match s.pval t with | some n => upd s.taken n (some h) | none => s.taken,
                         elim := match s.pval t with | some n => upd s.elim n true | none => s.elim },
                evStatSt h 2)
        else
          some ({ s with pval := upd s.pval t (s.pval h), srec := upd s.srec sl none, status := upd s.status h 2,
                         pc := upd s.pc t (.bkUnlC c sl),
                         taken := match s.pval h with | some n => upd s.taken n (some t) | none => s.taken,
                         elim := match s.pval h with | some n => upd s.elim n true | none => s.elim },
                evStatSt h 2)
      else
        some ({ s with srec := upd s.srec sl (some t), lock := upd s.lock sl false, pc := upd s.pc t (.bkWait c sl k) },
              evUnlock sl)
    | none =>
      some ({ s with srec := upd s.srec sl (some t), lock := upd s.lock sl false, pc := upd s.pc t (.bkWait c sl k) },
            evUnlock sl)
  | .bkUnlC c sl =>
    some ({ s with lock := upd s.lock sl false, pc := upd s.pc t (.done (retOf s.val (s.pval t) c)) }, evUnlock sl)
  | .bkWait c sl k =>
    if s.status t ≠ 1 then some ({ s with pc := upd s.pc t (.bkLock2 c sl) }, evStatLd t (s.status t))
    else match k with
      | 0 => some ({ s with pc := upd s.pc t (.bkLock2 c sl) }, evStatLd t 1)
      | k' + 1 => some ({ s with pc := upd s.pc t (.bkWait c sl k') }, evStatLd t 1)
  | .bkLock2 c sl =>
    if s.lock sl then some ({ s with pc := upd s.pc t (.bkSpin2 c sl) }, evXchg sl true)
    else some ({ s with lock := upd s.lock sl true, pc := upd s.pc t (.bkIn2 c sl) }, evXchg sl false)
  | .bkSpin2 c sl =>
    if s.lock sl then some (s, evLockLd sl true)
    else some ({ s with pc := upd s.pc t (.bkLock2 c sl) }, evLockLd sl false)
  | .bkIn2 c sl =>
    some ({ s with srec := if s.srec sl = some t then upd s.srec sl none else s.srec,
                   lock := upd s.lock sl false, pc := upd s.pc t (.bkChk c) }, evUnlock sl)
  | .bkChk c =>
    if s.status t = 2 then some ({ s with pc := upd s.pc t (.done (retOf s.val (s.pval t) c)) }, evStatLd t 2)
    else some ({ s with pc := upd s.pc t (retry c) }, evStatLd t (s.status t))
  | _ => none

def result (s : St) (t : Tid) : Option (St × GRet) :=
  match s.pc t with
  | .done r => some ({ s with pc := upd s.pc t .idle }, r)
  | _ => none

def model : Model St := ⟨invoke, step, result⟩

/-- The trace lines of a run, as the harness prints them (`T <tid> A <event>` for atomic events). -/
def render (os : List (Tid × Obs)) : List String :=
  os.map fun (t, o) => match o with
    | .call op => s!"T {t} C {op.name} {op.args}"
    | .ev e => s!"T {t} A {e}"
    | .ret r => s!"T {t} R {r}"

/-- Locations of the model in a harness trace (`relevant` of the replay driver). -/
def isNum (x : List Char) : Bool := !x.isEmpty && x.all Char.isDigit
def relevant (loc : String) : Bool :=
  let cs := loc.toList
  let lk := ".lock".toList
  let stt := ".status".toList
  loc == "top" ||
  (loc.startsWith "n" && isNum (cs.drop 1)) ||
  (loc.startsWith "slot" && lk.isSuffixOf cs && isNum ((cs.drop 4).take (cs.length - 9))) ||
  (loc.startsWith "op" && stt.isSuffixOf cs && isNum ((cs.drop 2).take (cs.length - 9)))

end CdsVerif.Algo.Elim

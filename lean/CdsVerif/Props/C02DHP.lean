/-
  C02 at the level of the PROTOCOL: safety of libcds's DYNAMIC hazard pointers (cds::gc::DHP: Guard construction /
  destruction on guard storage that grows by extension blocks, Guard::protect / clear, DHP::retire on retired storage
  that grows by blocks, smr::scan), proved over ALL interleavings of the atomic-step machine `Algo/DHP/Model.lean`,
  for every number of threads `T`, every size `init` of the initial guard array, every size `B >= 1` of an extension
  block (16 in libcds), every number of Guard objects per thread, every size `RB` of a retired block, every schedule
  and every client program made of galloc / gfree / protect / clear / swap / take / scan / deref.

    C02  "Under the Dynamic Hazard Pointer scheme, an object passed to retire() is never given to its disposer while a
          guard that already protected it when the reclamation pass began still protects it.  This includes guards in
          blocks added once a thread exhausts its initial guards, retired lists that grew past one block, and thread
          records that were detached and reused."

  Covered here: guards in the initial array and in extension blocks alike (a slot is (record, block, index)), the exact
  instant at which a pass fixes the set of extension blocks it reads (the load of `extended_list_`, after the record's
  initial array has been read), retired chains of any number of blocks.  NOT covered by this machine (stated at the top
  of `Algo/DHP/Model.lean`): detach / re-attach of thread records and `help_scan` - thread records are static.

  Property theorems and examples only; the inductive invariant and its preservation are in `Algo/DHP/Inv.lean`,
  the derived invariants and step facts in `Algo/DHP/Facts.lean`.  The machine is tied to the real code by trace replay
  (`Algo/DHP/Replay.lean`, tools/dhp_pre.py, harness/clients/smr.cpp --static 1).
-/
import CdsVerif.Algo.DHP.Facts
namespace CdsVerif.Props.C02DHP
open CdsVerif.Machine CdsVerif.Spec CdsVerif.Algo.HP CdsVerif.Algo.DHP

/-! ### Safety -/

/-- THE safety theorem.  In every reachable state, the object that a completed `protect` returned through the Guard
    linked to slot (u,b,i) - in the initial array (b = 0) or in ANY extension block (b >= 1) - and that the guard has not
    released since, has not been handed to its disposer, whatever the other threads did in between: unlink it, retire
    it, run any number of reclamation passes, extend their own guard storage. -/
theorem C02_guarded_never_disposed (cfg : Cfg) (hB : 0 < cfg.B) (s : St) (hr : (model cfg).Reachable (init cfg) s) :
    ∀ u b i p, s.guard u b i = some p → s.obj p ≠ .disposed := by
  intro u b i p hg
  rcases (pinv_reachable cfg hB s hr).guard_ok u b i p hg with e | e <;> simp [e]

/-- Sharper form: a guarded object is allocated and is either still in use or retired-and-waiting. -/
theorem C02_guarded_live_or_retired (cfg : Cfg) (hB : 0 < cfg.B) (s : St) (hr : (model cfg).Reachable (init cfg) s) :
    ∀ u b i p, s.guard u b i = some p → s.obj p = .live ∨ s.obj p = .retired :=
  (pinv_reachable cfg hB s hr).guard_ok

/-- A validated guard's hazard slot still publishes the pointer, and the slot lies in the initial array or in an
    extension block that is linked to the record's `extended_list_` (what every pass relies on). -/
theorem C02_guard_published (cfg : Cfg) (hB : 0 < cfg.B) (s : St) (hr : (model cfg).Reachable (init cfg) s) :
    ∀ u b i p, s.guard u b i = some p →
      s.slots u b i = some p ∧ u < cfg.T ∧ b ≤ s.nblk u ∧ i < bsize cfg b := by
  intro u b i p hg
  have h := pinv_reachable cfg hB s hr
  exact ⟨h.guard_slot u b i p hg, h.guard_rng u b i p hg⟩

/-- Every slot a Guard object is linked to, and every slot on a free list, lies in the initial array or in a LINKED
    extension block: `alloc()` never hands out a guard that a pass cannot reach. -/
theorem C02_guard_storage_linked (cfg : Cfg) (hB : 0 < cfg.B) (s : St) (hr : (model cfg).Reachable (init cfg) s) :
    (∀ t h b i, s.hslot t h = some (b, i) → b ≤ s.nblk t ∧ i < bsize cfg b) ∧
    (∀ t b i, (b, i) ∈ s.flist t → b ≤ s.nblk t ∧ i < bsize cfg b) :=
  ⟨(pinv_reachable cfg hB s hr).hslot_rng, (pinv_reachable cfg hB s hr).flist_rng⟩

/-- Guard objects never share a slot: the free lists are duplicate-free, two Guard objects of a thread are never
    linked to the same slot, a slot on the free list is linked to no Guard object (so `guard u b i` IS the protection
    of one Guard object of the client). -/
theorem C02_guards_exclusive (cfg : Cfg) (hB : 0 < cfg.B) (s : St) (hr : (model cfg).Reachable (init cfg) s) :
    (∀ t, (s.flist t).Nodup) ∧
    (∀ t h1 h2 b i, s.hslot t h1 = some (b, i) → s.hslot t h2 = some (b, i) → h1 = h2) ∧
    (∀ t h b i, s.hslot t h = some (b, i) → (b, i) ∉ s.flist t) :=
  let h := palias_reachable cfg hB s hr
  ⟨h.flist_nodup, h.hslot_inj, h.free_unlinked⟩

/-- `deref [h]` never observes a disposed object: the step of a `deref` reads the object its guard holds, and
    that object is live or retired; the operation returns the corresponding code (1 or 2, never 3 = disposed).
    A `deref` that has been invoked is never stuck. -/
theorem C02_deref_safe (cfg : Cfg) (hB : 0 < cfg.B) (s : St) (hr : (model cfg).Reachable (init cfg) s) (t : Tid)
    (b i : Nat) (hpc : s.pc t = .derefRd b i) :
    ∃ p s', s.guard t b i = some p ∧ s.obj p ≠ .disposed ∧
      step cfg s t = some (s', evUse p (s.obj p)) ∧ s'.pc t = .done [objCode (s.obj p)] ∧
      objCode (s.obj p) ≠ 3 := by
  have h := pinv_reachable cfg hB s hr
  obtain ⟨p, hp⟩ := h.deref_ok t b i hpc
  have hok := h.guard_ok t b i p hp
  refine ⟨p, _, hp, by rcases hok with e | e <;> simp [e], by simp [step, stepW, hpc, hp]; rfl, by simp, ?_⟩
  rcases hok with e | e <;> simp [e, objCode]

/-- Trace form: no run of the machine contains a `use` event that observes a disposed object. -/
theorem C02_deref_safe_trace (cfg : Cfg) (hB : 0 < cfg.B) (sched : List (Tid × Act)) (s : St) (os : List (Tid × Obs))
    (hrun : (model cfg).run (init cfg) sched = some (s, os)) :
    ∀ t e, (t, Obs.ev e) ∈ os → e.kind = "use" → e.a ≠ "disposed" := by
  intro t e hmem hk
  have key := obs_of_inductive (model cfg) (PInv cfg)
    (fun _ o => ∀ e, o = Obs.ev e → e.kind = "use" → e.a ≠ "disposed") (pinv_apply cfg)
    (by
      intro s t a s' o hI hap e he hk
      subst he
      cases a with
      | invoke op => simp [Model.apply] at hap
      | ret => simp [Model.apply] at hap
      | step =>
        simp only [Model.apply, model, Option.map_eq_some_iff] at hap
        obtain ⟨⟨s1, ev⟩, hs, heq⟩ := hap
        simp only [Prod.mk.injEq, Obs.ev.injEq] at heq
        obtain ⟨rfl, rfl⟩ := heq
        obtain ⟨b, i, p, -, hg, rfl, -⟩ := use_event hs hk
        rcases hI.guard_ok t b i p hg with e | e <;> simp [evUse, objName, e])
    sched (init cfg) s os (pinv_init cfg hB) hrun
  exact key (t, Obs.ev e) hmem e rfl hk

/-- Step-level form.  At the decision step of a pass (stage 2 of `smr::scan`, applied to the plist the thread has
    collected one hazard slot at a time - initial arrays and extension blocks - while all other threads kept running),
    every object the step hands to the disposer is one that NO validated guard of any thread holds. -/
theorem C02_dispose_only_unguarded (cfg : Cfg) (hB : 0 < cfg.B) (s : St) (hr : (model cfg).Reachable (init cfg) s)
    (t : Tid) (acc : List Ptr) (r : GRet) (hpc : s.pc t = .scanDecide acc r) :
    ∀ p ∈ (classicScan acc (s.retired t)).2, ∀ u b i, s.guard u b i ≠ some p :=
  decide_unguarded (pinv_reachable cfg hB s hr) hpc

/-- ... and that step is the only way an object becomes disposed: whenever an action of any thread turns an object
    `disposed`, the action is the decision step of a pass of that thread, the object was in that thread's retired
    chain and outside its plist, and no validated guard holds it, before or after. -/
theorem C02_disposal_is_an_unguarded_scan_decision (cfg : Cfg) (hB : 0 < cfg.B) (s s' : St)
    (hr : (model cfg).Reachable (init cfg) s)
    (t : Tid) (ev : Ev) (hs : step cfg s t = some (s', ev)) (p : Ptr)
    (h0 : s.obj p ≠ .disposed) (h1 : s'.obj p = .disposed) :
    ∃ acc r, s.pc t = .scanDecide acc r ∧ p ∈ s.retired t ∧ p ∉ acc ∧
      (∀ u b i, s.guard u b i ≠ some p) ∧ (∀ u b i, s'.guard u b i ≠ some p) := by
  have h := pinv_reachable cfg hB s hr
  obtain ⟨acc, r, hpc, hp⟩ := disposed_step hs h0 h1
  have d := decision acc _ (h.ret_nodup t)
  have hret := d.freed_sub p hp
  have hne : p ≠ 0 := by
    intro e; have h1 := h.ret_st t p hret; have h0 := h.fresh_zero; rw [e] at h1; rw [h1] at h0; cases h0
  have hg := decide_unguarded h hpc p hp
  refine ⟨acc, r, hpc, hret, d.safe p hp hne, hg, ?_⟩
  rw [(decide_step hpc hs).2.2.2.2.1]; exact hg

/-! ### What a pass reads: the extension blocks -/

/-- C02_extension_visible.  When the pass of thread `sc` is about to load `extended_list_` of record `u`, every slot
    (u,b,i) of every extension block `b` that is linked AT THAT INSTANT (1 <= b <= nblk u; all `B` slots, i < B) is read
    by that pass: in every continuation of the run that brings `sc` to the decision step, `sc` has performed the load
    `ld hp<u>.<b>.<i>`.  (A block linked after that instant is not read; a guard in it was validated after the pass
    began, on an object that was then still linked, hence not in the pass's retired chain - `C02_guarded_never_disposed`
    covers it.) -/
theorem C02_extension_visible (cfg : Cfg) (hB : 0 < cfg.B) (s : St) (hr : (model cfg).Reachable (init cfg) s)
    (sc : Tid) (u : Nat) (acc : List Ptr) (r : GRet) (hpc : s.pc sc = .scanExt u acc r)
    (b i : Nat) (hb1 : 1 ≤ b) (hb : b ≤ s.nblk u) (hi : i < cfg.B)
    (sched : List (Tid × Act)) (s' : St) (os : List (Tid × Obs)) (hrun : (model cfg).run s sched = some (s', os))
    (acc' : List Ptr) (r' : GRet) (hend : s'.pc sc = .scanDecide acc' r') :
    ∃ v, (sc, Obs.ev (evLd (slotLoc u b i) v)) ∈ os := by
  have hu := (pinv_reachable cfg hB s hr).scanExt_rng sc u acc r hpc
  have hi' : i < bsize cfg b := by
    have hb0 : b ≠ 0 := by omega
    simp [bsize, hb0, hi]
  have ha : aheadPC (s.pc sc) u b i := by
    rw [hpc]; show AheadExt u u b; exact Or.inr ⟨rfl, hb1⟩
  rcases ahead_run cfg sc u b i hu hi' sched s s' os ha hb hrun with h | h
  · rw [hend] at h; simp [aheadPC] at h
  · exact h

/-- More generally: every slot of every block that is linked to record `u` when a pass BEGINS - initial array or
    extension block - is read by that pass. -/
theorem C02_pass_reads_every_linked_slot (cfg : Cfg) (s : St) (sc : Tid) (r : GRet)
    (hpc : s.pc sc = scanStart cfg r)
    (u b i : Nat) (hu : u < cfg.T) (hb : b ≤ s.nblk u) (hi : i < bsize cfg b)
    (sched : List (Tid × Act)) (s' : St) (os : List (Tid × Obs)) (hrun : (model cfg).run s sched = some (s', os))
    (acc' : List Ptr) (r' : GRet) (hend : s'.pc sc = .scanDecide acc' r') :
    ∃ v, (sc, Obs.ev (evLd (slotLoc u b i) v)) ∈ os := by
  have ha : aheadPC (s.pc sc) u b i := by
    rw [hpc]; exact ahead_scanRec cfg 0 [] r u b i hu (Nat.zero_le _) hi
  rcases ahead_run cfg sc u b i hu hi sched s s' os ha hb hrun with h | h
  · rw [hend] at h; simp [aheadPC] at h
  · exact h

/-- The number of extension blocks linked to a record never decreases (records are static: a block is never unlinked). -/
theorem C02_extension_blocks_stay_linked (cfg : Cfg) (s s' : St) (t : Tid) (a : Act) (o : Obs)
    (hap : (model cfg).apply s t a = some (s', o)) (u : Nat) : s.nblk u ≤ s'.nblk u :=
  (apply_frame hap).2 u

/-! ### Disposed at most once, only after retire -/

/-- The life cycle of an object only moves forward, one stage at a time:
    fresh → live → retired → disposed.  In particular only a RETIRED object is ever disposed, `retired → disposed`
    happens at most once per object and is never undone. -/
theorem C02_life_cycle_forward (cfg : Cfg) (hB : 0 < cfg.B) (s s' : St) (hr : (model cfg).Reachable (init cfg) s)
    (t : Tid) (a : Act) (o : Obs) (hap : (model cfg).apply s t a = some (s', o)) (p : Ptr) :
    s'.obj p = s.obj p ∨ ObjSt.Succ (s.obj p) (s'.obj p) :=
  obj_apply (pinv_reachable cfg hB s hr) hap p

/-- Disposed at most once, part 1: once disposed, always disposed (along every continuation of every run). -/
theorem C02_disposed_once (cfg : Cfg) (hB : 0 < cfg.B) (s : St) (hr : (model cfg).Reachable (init cfg) s)
    (sched : List (Tid × Act)) (s' : St) (os : List (Tid × Obs))
    (hrun : (model cfg).run s sched = some (s', os)) (p : Ptr) (hd : s.obj p = .disposed) :
    s'.obj p = .disposed := by
  have key := (model cfg).inv_of_inductive (fun x => PInv cfg x ∧ x.obj p = .disposed)
    (by
      intro x t a x' o ⟨hI, hd⟩ hap
      refine ⟨pinv_apply cfg x t a x' o hI hap, ?_⟩
      rcases obj_apply hI hap p with e | e
      · rw [e]; exact hd
      · rw [hd] at e; revert e; cases x'.obj p <;> simp [ObjSt.Succ])
    sched s s' os ⟨pinv_reachable cfg hB s hr, hd⟩ hrun
  exact key.2

/-- Disposed at most once, part 2: a disposed object is nowhere any more - in no retired chain (so no later pass
    can hand it to the disposer again), in no cell, in flight in no `swap`/`take`, held by no validated guard. -/
theorem C02_disposed_is_nowhere (cfg : Cfg) (hB : 0 < cfg.B) (s : St) (hr : (model cfg).Reachable (init cfg) s) (p : Ptr)
    (hd : s.obj p = .disposed) :
    (∀ t, p ∉ s.retired t) ∧ (∀ c, s.cells c ≠ some p) ∧ (∀ t r, s.pc t ≠ .swapRet p r) ∧
    (∀ u b i, s.guard u b i ≠ some p) := by
  have h := pinv_reachable cfg hB s hr
  refine ⟨?_, ?_, ?_, ?_⟩
  · intro t hm; have := h.ret_st t p hm; simp [hd] at this
  · intro c hc; have := h.cell_live c p hc; simp [hd] at this
  · intro t r hc; have := h.flight_live t p r hc; simp [hd] at this
  · intro u b i hg; rcases h.guard_ok u b i p hg with e | e <;> simp [hd] at e

/-- Disposed at most once, literally: the sequence of all disposer calls made so far (ghost `log`, extended by
    the freed list of every decision step) contains no object twice, and it is exactly the set of disposed objects. -/
theorem C02_dispose_log_nodup (cfg : Cfg) (hB : 0 < cfg.B) (s : St) (hr : (model cfg).Reachable (init cfg) s) :
    s.log.Nodup ∧ ∀ p, p ∈ s.log ↔ s.obj p = .disposed :=
  ⟨(pinv_reachable cfg hB s hr).log_nodup, (pinv_reachable cfg hB s hr).log_st⟩

/-- Retired-only: the retired chains hold no object twice, no object is in two chains, every entry is in state
    `retired` (unlinked, not yet disposed); and only entries of a retired chain are ever disposed
    (`C02_disposal_is_an_unguarded_scan_decision`). -/
theorem C02_retired_chains (cfg : Cfg) (hB : 0 < cfg.B) (s : St) (hr : (model cfg).Reachable (init cfg) s) :
    (∀ t, (s.retired t).Nodup) ∧ (∀ t1 t2 p, p ∈ s.retired t1 → p ∈ s.retired t2 → t1 = t2) ∧
    (∀ t p, p ∈ s.retired t → s.obj p = .retired ∧ ∀ c, s.cells c ≠ some p) := by
  have h := pinv_reachable cfg hB s hr
  refine ⟨h.ret_nodup, h.ret_disj, ?_⟩
  intro t p hm
  refine ⟨h.ret_st t p hm, ?_⟩
  intro c hc; have h1 := h.cell_live c p hc; have h2 := h.ret_st t p hm; rw [h1] at h2; cases h2

/-- Nothing is lost: every `live` object is in a cell or in flight in the `swap`/`take` that unlinked it; every
    `retired` object is in some thread's retired chain, where that thread's passes find it. -/
theorem C02_no_object_lost (cfg : Cfg) (hB : 0 < cfg.B) (s : St) (hr : (model cfg).Reachable (init cfg) s) (p : Ptr) :
    (s.obj p = .live → (∃ c, s.cells c = some p) ∨ (∃ t r, s.pc t = .swapRet p r)) ∧
    (s.obj p = .retired → ∃ t, p ∈ s.retired t) :=
  ⟨(pplace_reachable cfg hB s hr).live_ex p, (pplace_reachable cfg hB s hr).ret_ex p⟩

/-- A pass neither loses nor duplicates: after the decision step the retired chain is what the decision kept, every
    entry is either kept or disposed, and the other threads' chains are untouched. -/
theorem C02_scan_partition (cfg : Cfg) (hB : 0 < cfg.B) (s s' : St) (hr : (model cfg).Reachable (init cfg) s)
    (t : Tid) (acc : List Ptr) (r : GRet) (ev : Ev) (hpc : s.pc t = .scanDecide acc r)
    (hs : step cfg s t = some (s', ev)) :
    (∀ p, p ∈ s.retired t → (p ∈ s'.retired t ∧ s'.obj p = .retired) ∨ (p ∉ s'.retired t ∧ s'.obj p = .disposed)) ∧
    (∀ u, u ≠ t → s'.retired u = s.retired u) := by
  have h := pinv_reachable cfg hB s hr
  have d := decision acc _ (h.ret_nodup t)
  obtain ⟨hobj, hret, hoth, -⟩ := decide_step hpc hs
  refine ⟨?_, hoth⟩
  intro p hp
  rcases d.split p hp with hk | hf
  · left; rw [hret, hobj p, if_neg (d.disj p hk)]; exact ⟨hk, h.ret_st t p hp⟩
  · right; rw [hret, hobj p, if_pos hf]; exact ⟨fun hk => d.disj p hk hf, rfl⟩

/-- A pass during which no slot ever held `p` frees it. -/
theorem C02_unprotected_freed_by_quiet_scan (cfg : Cfg) (s s' : St) (t : Tid) (acc : List Ptr) (r : GRet) (ev : Ev)
    (hpc : s.pc t = .scanDecide acc r) (hs : step cfg s t = some (s', ev)) (p : Ptr)
    (hret : p ∈ s.retired t) (hquiet : p ∉ acc) :
    s'.obj p = .disposed ∧ p ∉ s'.retired t ∧ p ∈ s'.log := by
  obtain ⟨hobj, hretd, -, hlog, -⟩ := decide_step hpc hs
  have hf := CdsVerif.Props.C03.C03_classic_unprotected_freed acc (s.retired t) p hret hquiet
  refine ⟨by rw [hobj p, if_pos hf], ?_, by rw [hlog]; exact List.mem_append_right _ hf⟩
  rw [hretd]
  intro hk
  simp only [classicScan, List.mem_filter] at hk hf
  have := hf.2; rw [hk.2] at this; simp at this

/-- "No slot holds `p`" is STABLE for a retired object: once no hazard slot (of any block of any record) holds it and no
    `protect` is about to store it, this remains true along every run. -/
theorem C02_quiet_stable (cfg : Cfg) (hB : 0 < cfg.B) (s : St) (hr : (model cfg).Reachable (init cfg) s) (sc : Tid) (p : Ptr)
    (hq : Quiet s sc p) (sched : List (Tid × Act)) (s' : St) (os : List (Tid × Obs))
    (hrun : (model cfg).run s sched = some (s', os)) : Quiet s' sc p := by
  have key := (model cfg).inv_of_inductive (fun x => PInv cfg x ∧ Quiet x sc p)
    (fun x t a x' o ⟨hI, hq⟩ hap => ⟨pinv_apply cfg x t a x' o hI hap, quiet_apply hI hq hap⟩)
    sched s s' os ⟨pinv_reachable cfg hB s hr, hq⟩ hrun
  exact key.2

/-- Hence: from a state in which retired `p` is quiet, whenever (after any further run) thread `sc` takes the
    decision step of a pass with `p` still in its retired chain, that step disposes `p`. -/
theorem C02_quiet_retired_object_is_freed_by_next_scan (cfg : Cfg) (hB : 0 < cfg.B) (s : St)
    (hr : (model cfg).Reachable (init cfg) s)
    (sc : Tid) (p : Ptr) (hq : Quiet s sc p) (sched : List (Tid × Act)) (s1 s2 : St) (os : List (Tid × Obs))
    (hrun : (model cfg).run s sched = some (s1, os))
    (acc : List Ptr) (r : GRet) (ev : Ev) (hpc : s1.pc sc = .scanDecide acc r)
    (hs : step cfg s1 sc = some (s2, ev)) (hret : p ∈ s1.retired sc) :
    s2.obj p = .disposed := by
  have hq1 := C02_quiet_stable cfg hB s hr sc p hq sched s1 os hrun
  have hna : p ∉ acc := by have := hq1.noacc; rw [hpc] at this; exact this
  exact (C02_unprotected_freed_by_quiet_scan cfg s1 s2 sc acc r ev hpc hs p hret hna).1

/-! ### Retired chains of several blocks -/

/-- With retired blocks of at least 4 entries (256 in libcds) the chain always has room for the next push: its content
    never exceeds `rblk * RB`, and whenever a thread is not inside a pass - in particular when `retire` is about to
    push - there is a free entry.  (A push that fills the last block starts a pass, and the pass frees an entry or
    adds a block: `rblkAfter`.  With RB < 4 the rule `free_count < retired_count / 4` of smr::scan never extends a
    one-block chain.) -/
theorem C02_retired_chain_has_room (cfg : Cfg) (hRB : 4 ≤ cfg.RB) (s : St) (hr : (model cfg).Reachable (init cfg) s) :
    (∀ t, 1 ≤ s.rblk t) ∧ (∀ t, (s.retired t).length ≤ s.rblk t * cfg.RB) ∧
    (∀ t p r, s.pc t = .swapRet p r → (s.retired t).length < s.rblk t * cfg.RB) := by
  have h := proom_reachable cfg hRB s hr
  exact ⟨h.rblk_pos, h.cap, fun t p r hpc => h.room t (by simp [hpc, inScan])⟩

/-! ### Examples: init = 4 guards in the initial array (smaller than an extension block: B = 16), T = 2, RB = 8

  Checked by `decide +kernel` on the final state and on the values the operations return. -/

def cfg4 : Cfg := ⟨4, 16, 2, 8⟩
def call (name : String) (args : List Int) : Act := .invoke ⟨name, args⟩
/-- one operation of thread `t` that takes `n` steps -/
def op (t : Tid) (name : String) (args : List Int) (n : Nat) : List (Tid × Act) :=
  (t, call name args) :: (List.replicate n (t, Act.step) ++ [(t, Act.ret)])
/-- the values returned, in order -/
def rets (os : List (Tid × Obs)) : List (Tid × GRet) :=
  os.filterMap fun (t, o) => match o with
    | .ret r => some (t, r)
    | _ => none

/-- thread 1 constructs nine Guard objects: four from the initial array, then `extend()` links block 1 and the guards
    come from it; the ninth is slot 4 of block 1 - an index an initial array of 4 does not have -/
def nine : List (Tid × Act) := (List.range 9).flatMap fun (h : Nat) => op 1 "galloc" [(h : Int)] 1

/-- Thread 0 publishes o1; thread 1 takes nine guards and protects o1 through the ninth; thread 0 replaces o1, retires
    it and scans (27 steps: 4 slots + list of record 0; 4 slots + list + 16 slots of record 1; decision):
      ... T 0 A ld hp1.0.3 null | T 0 A ld ext1 gb1.1 | T 0 A ld hp1.1.0 null .. T 0 A ld hp1.1.4 o1 .. T 0 A ld hp1.1.15 null
          T 0 A free T0 [] 1 -/
def guardedSurvives : List (Tid × Act) :=
  op 0 "swap" [0] 1 ++ nine ++ op 1 "protect" [8, 0] 3 ++ op 0 "swap" [0] 2 ++ op 0 "scan" [] 27

/-- ... then thread 1 clears the guard and the next pass of thread 0 frees o1 -/
def thenFreed : List (Tid × Act) := op 1 "clear" [8] 1 ++ op 0 "scan" [] 27

example : ((model cfg4).run (init cfg4) guardedSurvives).map (fun x => rets x.2) =
    some [(0, [1, 0]), (1, [0, 0]), (1, [0, 1]), (1, [0, 2]), (1, [0, 3]), (1, [1, 0]), (1, [1, 1]), (1, [1, 2]),
          (1, [1, 3]), (1, [1, 4]), (1, [1, 1]), (0, [2, 1]), (0, [])] := by decide +kernel

set_option synthInstance.maxSize 2000 in
/-- after the first pass: o1 still retired, still in thread 0's chain, still guarded through slot (1,1,4), nothing disposed -/
example : ((model cfg4).run (init cfg4) guardedSurvives).map
      (fun x => (x.1.obj 1, x.1.retired 0, x.1.guard 1 1 4, x.1.hslot 1 8, x.1.nblk 1, x.1.log)) =
    some (.retired, [1], some 1, some (1, 4), 1, []) := by decide +kernel

/-- at the decision step of that pass the plist is [o1] -/
example : ((model cfg4).run (init cfg4) (guardedSurvives.take (guardedSurvives.length - 2))).map (fun x => x.1.pc 0) =
    some (.scanDecide [1] []) := by decide +kernel

/-- after `clear` and the second pass: o1 disposed, exactly once -/
example : ((model cfg4).run (init cfg4) (guardedSurvives ++ thenFreed)).map
      (fun x => (x.1.obj 1, x.1.retired 0, x.1.guard 1 1 4, x.1.log)) =
    some (.disposed, [], none, [1]) := by decide +kernel

/-- THE SEEDED DEFECT (seeded/C02-dhp-scan-extension-block-size: a pass copies only `initial_capacity_` guards of every
    extension block).  On the machine `modelSeeded` (= `stepW init false` instead of `stepW B false`) the same program, with the
    pass now 15 steps long (4 + list, 4 + list + FOUR slots of block 1, decision), disposes o1 while slot (1,1,4) still
    guards it: the statement of `C02_guarded_never_disposed` is FALSE for that machine, and the lemma that breaks is
    `pinv_scanLd_next_blk` / `pinv_scanLd_last` (Algo/DHP/Inv.lean), whose hypothesis `¬ i + 1 < B` is what the real
    code provides. -/
def seededRun : List (Tid × Act) :=
  op 0 "swap" [0] 1 ++ nine ++ op 1 "protect" [8, 0] 3 ++ op 0 "swap" [0] 2 ++ op 0 "scan" [] 15

example : ((modelSeeded cfg4).run (init cfg4) seededRun).map
      (fun x => (x.1.obj 1, x.1.retired 0, x.1.guard 1 1 4, x.1.log)) =
    some (.disposed, [], some 1, [1]) := by decide +kernel

/-- ... i.e. `modelSeeded` reaches a state in which a guarded object is disposed -/
example : ∃ s, (modelSeeded cfg4).Reachable (init cfg4) s ∧ ∃ u b i p, s.guard u b i = some p ∧ s.obj p = .disposed := by
  have h : ((modelSeeded cfg4).run (init cfg4) seededRun).map (fun x => (x.1.guard 1 1 4, x.1.obj 1)) =
      some (some 1, .disposed) := by decide +kernel
  cases hr : (modelSeeded cfg4).run (init cfg4) seededRun with
  | none => rw [hr] at h; cases h
  | some x =>
    rw [hr] at h
    simp only [Option.map_some, Option.some.injEq, Prod.mk.injEq] at h
    exact ⟨x.1, ⟨seededRun, x.2, hr⟩, 1, 1, 4, 1, h.1, h.2⟩

/-- An extension block linked AFTER the pass has loaded the record's list is not read - and need not be: thread 0's pass
    has gone by record 1 (`ld ext1 null`) when thread 1 takes its fifth guard (block 1) and protects o2 through it.
    o2 is in the cell, so it is in nobody's retired chain; the pass ends without reading block 1, keeps nothing of
    thread 1 and frees o1. -/
def lateBlock : List (Tid × Act) :=
  op 0 "swap" [0] 1 ++ ((List.range 4).flatMap fun (h : Nat) => op 1 "galloc" [(h : Int)] 1) ++
  op 0 "swap" [0] 2 ++ (0, call "scan" []) :: List.replicate 10 (0, Act.step) ++
  op 1 "galloc" [4] 1 ++ op 1 "protect" [4, 0] 3 ++ [(0, Act.step), (0, Act.ret)]

set_option synthInstance.maxSize 2000 in
example : ((model cfg4).run (init cfg4) lateBlock).map
      (fun x => (x.1.nblk 1, x.1.hslot 1 4, x.1.guard 1 1 0, x.1.obj 2, x.1.obj 1, x.1.log)) =
    some (1, some (1, 0), some 2, .live, .disposed, [1]) := by decide +kernel

/-! ### Example: a retired chain that grows past one block (RB = 4, T = 1)

  Thread 0 protects four objects through four guards and retires each of them; the fourth push fills the only block, so
  `retire` runs a pass: all four entries are guarded, nothing is freed (0 < 4/4), the chain gets a second block.  A
  fifth, unguarded object is retired into the second block; the next pass frees it and keeps the four. -/

def cfgG : Cfg := ⟨4, 16, 1, 4⟩
def grow : List (Tid × Act) :=
  op 0 "swap" [0] 1 ++ ((List.range 4).flatMap fun (h : Nat) => op 0 "galloc" [(h : Int)] 1) ++
  ((List.range 3).flatMap fun (h : Nat) => op 0 "protect" [(h : Int), 0] 3 ++ op 0 "swap" [0] 2) ++
  op 0 "protect" [3, 0] 3 ++ op 0 "swap" [0] 8 ++ op 0 "swap" [0] 2

example : ((model cfgG).run (init cfgG) grow).map (fun x => (x.1.retired 0, x.1.rblk 0, x.1.log)) =
    some ([1, 2, 3, 4, 5], 2, []) := by decide +kernel

example : ((model cfgG).run (init cfgG) (grow ++ op 0 "scan" [] 6)).map (fun x => (x.1.retired 0, x.1.rblk 0, x.1.log)) =
    some ([1, 2, 3, 4], 2, [5]) := by decide +kernel

/-! ### The finding: `retired_array::extend()` before its repair (RB = 8, init = 8, T = 1)

  Seven objects are retired while guarded, an eighth unguarded one fills the only block: `retire` runs a pass, which
  keeps seven and frees o8 - fewer than a quarter (1 < 8/4) of a chain that was completely full, so the chain is
  extended.  The repaired code leaves the write position behind the seven kept entries.  The code as it stood (machine
  `modelUnrepaired`) moved it to the new block: the entry of o8 stays in the chain, and the next pass hands o8 to the
  disposer a second time.  (Real code, unchanged tree at the time: harness/probes/dhp_retired_extend_double_dispose.cpp; the
  trace tie reported it as `retire T<t> o260 257` against the machine's 201, client option `--grow 200`.) -/

def cfgU : Cfg := ⟨8, 16, 1, 8⟩
def fillAndPass : List (Tid × Act) :=
  op 0 "swap" [0] 1 ++ ((List.range 7).flatMap fun (h : Nat) => op 0 "galloc" [(h : Int)] 1) ++
  ((List.range 7).flatMap fun (h : Nat) => op 0 "protect" [(h : Int), 0] 3 ++ op 0 "swap" [0] 2) ++
  op 0 "swap" [0] 12

/-- repaired: the chain holds the seven kept entries, o8 has been disposed once - also after one more pass -/
example : ((model cfgU).run (init cfgU) fillAndPass).map (fun x => (x.1.retired 0, x.1.rblk 0, x.1.log)) =
    some ([1, 2, 3, 4, 5, 6, 7], 2, [8]) := by decide +kernel
example : ((model cfgU).run (init cfgU) (fillAndPass ++ op 0 "scan" [] 10)).map (fun x => (x.1.retired 0, x.1.log)) =
    some ([1, 2, 3, 4, 5, 6, 7], [8]) := by decide +kernel

/-- unrepaired: the stale entry of o8 is still in the chain after the extending pass ... -/
example : ((modelUnrepaired cfgU).run (init cfgU) fillAndPass).map (fun x => (x.1.retired 0, x.1.rblk 0, x.1.log)) =
    some ([1, 2, 3, 4, 5, 6, 7, 8], 2, [8]) := by decide +kernel
/-- ... and the next pass disposes o8 again -/
example : ((modelUnrepaired cfgU).run (init cfgU) (fillAndPass ++ op 0 "scan" [] 10)).map (fun x => x.1.log) =
    some [8, 8] := by decide +kernel

end CdsVerif.Props.C02DHP

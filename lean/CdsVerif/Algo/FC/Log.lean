/-
  Histories of runs and the ghost log of linearization points, generic in the sequential specification
  (the construction of `Algo/Michael/Lin.lean` / `Algo/Striped/Log.lean`, copied here so that the flat-combining proof does
  not depend on those developments; every linearization point is definitive).
-/
import CdsVerif.Base.Machine
namespace CdsVerif.Algo.FC.Log
open CdsVerif.Machine CdsVerif.Spec CdsVerif.Lin

/-! ### The history of a run -/

abbrev Pend := Tid → Option (GOp × Nat)

/-- Scan the observations (the head has index `i`): every `ret` closes the operation its thread has in progress. -/
def histAux : Nat → Pend → List (Tid × Obs) → List (OpRec GOp GRet)
  | _, _, [] => []
  | i, pend, (t, .call op) :: os => histAux (i + 1) (upd pend t (some (op, i))) os
  | i, pend, (_, .ev _) :: os => histAux (i + 1) pend os
  | i, pend, (t, .ret r) :: os =>
    match pend t with
    | some (op, k) => ⟨t, op, r, k, i⟩ :: histAux (i + 1) (upd pend t none) os
    | none => histAux (i + 1) pend os

/-- The operations still in progress after the observations. -/
def pendAux : Nat → Pend → List (Tid × Obs) → Pend
  | _, pend, [] => pend
  | i, pend, (t, .call op) :: os => pendAux (i + 1) (upd pend t (some (op, i))) os
  | i, pend, (_, .ev _) :: os => pendAux (i + 1) pend os
  | i, pend, (t, .ret _) :: os =>
    match pend t with
    | some _ => pendAux (i + 1) (upd pend t none) os
    | none => pendAux (i + 1) pend os

/-- The complete history of a run: one record per operation that has both its `call` and its `ret` observation,
    `inv` / `res` = the indices of these observations in `os`.  Operations pending at the end are dropped. -/
def historyOf (os : List (Tid × Obs)) : List (OpRec GOp GRet) := histAux 0 (fun _ => none) os

/-- The operations pending at the end of a run: thread ↦ (operation, index of its `call`). -/
def pendingOf (os : List (Tid × Obs)) : Pend := pendAux 0 (fun _ => none) os

/-! ### Ghost log -/

/-- A log entry: an operation that has passed its linearization point; `res = none` while it has not returned. -/
structure LE where
  tid : Nat
  op : GOp
  ret : GRet
  inv : Nat
  res : Option Nat
deriving DecidableEq, Repr

/-- Thread `t` returns at time `c`. -/
def LE.close (t c : Nat) (e : LE) : LE := if e.tid = t ∧ e.res = none then { e with res := some c } else e
/-- The history record of an entry; an entry that has not returned gets the response time `c`. -/
def LE.fin (c : Nat) (e : LE) : OpRec GOp GRet := ⟨e.tid, e.op, e.ret, e.inv, e.res.getD c⟩
def LE.done? (e : LE) : Option (OpRec GOp GRet) := e.res.map (fun r => ⟨e.tid, e.op, e.ret, e.inv, r⟩)

def completed (log : List LE) : List (OpRec GOp GRet) := log.filterMap LE.done?
def openOf (t : Nat) (log : List LE) : List LE := log.filter (fun e => decide (e.tid = t ∧ e.res = none))

/-- Sequential replay of the logged operations and results against a result-determined specification. -/
def runSpec {σ : Type} (spec : Lin.Spec σ GOp GRet) : σ → List LE → Option σ
  | st, [] => some st
  | st, e :: l => (spec.next st e.op e.ret).bind (fun st' => runSpec spec st' l)

theorem runSpec_append {σ : Type} (spec : Lin.Spec σ GOp GRet) (l1 l2 : List LE) :
    ∀ st, runSpec spec st (l1 ++ l2) = (runSpec spec st l1).bind (fun st' => runSpec spec st' l2) := by
  induction l1 with
  | nil => intro st; simp [runSpec]
  | cons e l ih =>
    intro st
    simp only [List.cons_append, runSpec]
    cases spec.next st e.op e.ret with
    | none => simp
    | some st1 => simp [ih]

theorem runSpec_close {σ : Type} (spec : Lin.Spec σ GOp GRet) (t c : Nat) (l : List LE) :
    ∀ st, runSpec spec st (l.map (LE.close t c)) = runSpec spec st l := by
  induction l with
  | nil => intro st; rfl
  | cons e l ih =>
    intro st
    have h1 : (LE.close t c e).op = e.op := by unfold LE.close; split <;> rfl
    have h2 : (LE.close t c e).ret = e.ret := by unfold LE.close; split <;> rfl
    simp only [List.map_cons, runSpec, h1, h2, ih]

theorem legal_of_runSpec {σ : Type} (spec : Lin.Spec σ GOp GRet) (c : Nat) (l : List LE) :
    ∀ st st', runSpec spec st l = some st' → Legal spec st (l.map (LE.fin c)) := by
  induction l with
  | nil => intro st st' _; trivial
  | cons e l ih =>
    intro st st' h
    simp only [runSpec] at h
    cases hn : spec.next st e.op e.ret with
    | none => simp [hn] at h
    | some st1 =>
      simp only [hn, Option.bind_some] at h
      exact ⟨st1, hn, ih st1 st' h⟩

theorem openOf_append (t : Nat) (l1 l2 : List LE) : openOf t (l1 ++ l2) = openOf t l1 ++ openOf t l2 := by
  simp [openOf]

theorem openOf_close_same (t c : Nat) (l : List LE) : openOf t (l.map (LE.close t c)) = [] := by
  induction l with
  | nil => rfl
  | cons e l ih =>
    simp only [openOf, List.map_cons, List.filter_cons] at ih ⊢
    rw [ih]
    unfold LE.close
    split <;> simp_all

theorem openOf_close_other (t t2 c : Nat) (h : t2 ≠ t) (l : List LE) :
    openOf t2 (l.map (LE.close t c)) = openOf t2 l := by
  induction l with
  | nil => rfl
  | cons e l ih =>
    simp only [openOf, List.map_cons, List.filter_cons] at ih ⊢
    rw [ih]
    unfold LE.close
    split
    next hc => have : e.tid ≠ t2 := by omega
               simp [this]
    next => rfl

theorem completed_close (t c : Nat) (l : List LE) :
    (completed (l.map (LE.close t c))).Perm (completed l ++ (openOf t l).map (LE.fin c)) := by
  induction l with
  | nil => exact List.Perm.refl _
  | cons e l ih =>
    simp only [completed, openOf, List.map_cons, List.filterMap_cons, List.filter_cons] at ih ⊢
    by_cases hc : e.tid = t ∧ e.res = none
    · have h1 : (LE.close t c e).done? = some (LE.fin c e) := by
        simp [LE.close, hc, LE.done?, LE.fin]
      have h2 : e.done? = none := by simp [LE.done?, hc.2]
      simp only [h1, h2, hc, and_self, decide_true, if_true, List.map_cons]
      exact (List.Perm.cons _ ih).trans List.perm_middle.symm
    · have h1 : LE.close t c e = e := by simp [LE.close, hc]
      simp only [h1, hc, decide_false, Bool.false_eq_true, if_false]
      cases e.done? with
      | none => exact ih
      | some r => exact List.Perm.cons _ ih


/-- Logged operations that have not returned. -/
def openAll (log : List LE) : List LE := log.filter (fun e => !e.res.isSome)

theorem completed_openAll_perm (c : Nat) (l : List LE) :
    (completed l ++ (openAll l).map (LE.fin c)).Perm (l.map (LE.fin c)) := by
  induction l with
  | nil => exact List.Perm.refl _
  | cons e l ih =>
    simp only [completed, openAll, List.filterMap_cons, List.filter_cons, List.map_cons] at ih ⊢
    cases hr : e.res with
    | none =>
      simp only [LE.done?, hr, Option.map_none, Option.isSome_none, Bool.not_false, if_true, List.map_cons]
      exact List.perm_middle.trans (List.Perm.cons _ ih)
    | some r =>
      have : LE.fin c e = ⟨e.tid, e.op, e.ret, e.inv, r⟩ := by simp [LE.fin, hr]
      simp only [LE.done?, hr, Option.map_some, Option.isSome_some, Bool.not_true, Bool.false_eq_true, if_false,
        List.cons_append, this]
      exact List.Perm.cons _ ih

theorem openAll_pairwise (l : List LE) (h : ∀ t, (openOf t l).length ≤ 1) :
    (openAll l).Pairwise (fun a b => a.tid ≠ b.tid) := by
  induction l with
  | nil => exact List.Pairwise.nil
  | cons e l ih =>
    have hl : ∀ t, (openOf t l).length ≤ 1 := by
      intro t
      have h1 := h t
      have h2 : (openOf t l).length ≤ (openOf t (e :: l)).length := by
        simp only [openOf, List.filter_cons]; split <;> simp
      omega
    simp only [openAll, List.filter_cons]
    split
    next hr =>
      refine List.Pairwise.cons ?_ (ih hl)
      intro b hb hne
      have hb' := List.mem_filter.mp hb
      have hr' : e.res = none := by cases h : e.res <;> simp_all
      have hbr : b.res = none := by cases h : b.res <;> simp_all
      have hmem : b ∈ openOf e.tid l := by
        simp only [openOf, List.mem_filter]
        exact ⟨hb'.1, by simp [hne, hbr]⟩
      have := h e.tid
      simp only [openOf, List.filter_cons, hr', and_self, decide_true, if_true, List.length_cons] at this
      have hpos : 0 < (openOf e.tid l).length := List.length_pos_of_mem hmem
      simp only [openOf] at hpos
      omega
    next => exact ih hl

/-! ### Soundness of `historyOf` / `pendingOf`: records point at the right observations -/

theorem histAux_mem : ∀ (os : List (Tid × Obs)) (i : Nat) (pend : Pend) (r : OpRec GOp GRet),
    r ∈ histAux i pend os →
    ∃ j, r.res = i + j ∧ os[j]? = some (r.tid, .ret r.ret) ∧
      (pend r.tid = some (r.op, r.inv) ∨
        ∃ j0, j0 < j ∧ r.inv = i + j0 ∧ os[j0]? = some (r.tid, .call r.op)) := by
  intro os
  induction os with
  | nil => intro i pend r h; simp [histAux] at h
  | cons x os ih =>
    intro i pend r h
    obtain ⟨t, o⟩ := x
    cases o with
    | call op =>
      simp only [histAux] at h
      obtain ⟨j, h1, h2, h3⟩ := ih _ _ r h
      refine ⟨j + 1, by omega, by simpa using h2, ?_⟩
      rcases h3 with h3 | ⟨j0, h4, h5, h6⟩
      · by_cases ht : r.tid = t
        · rw [ht] at h3; simp [upd] at h3
          right; exact ⟨0, by omega, by omega, by simp [ht, h3.1]⟩
        · left; simpa [upd, ht] using h3
      · right; exact ⟨j0 + 1, by omega, by omega, by simpa using h6⟩
    | ev e =>
      simp only [histAux] at h
      obtain ⟨j, h1, h2, h3⟩ := ih _ _ r h
      refine ⟨j + 1, by omega, by simpa using h2, ?_⟩
      rcases h3 with h3 | ⟨j0, h4, h5, h6⟩
      · left; exact h3
      · right; exact ⟨j0 + 1, by omega, by omega, by simpa using h6⟩
    | ret rv =>
      simp only [histAux] at h
      cases hp : pend t with
      | none =>
        simp only [hp] at h
        obtain ⟨j, h1, h2, h3⟩ := ih _ _ r h
        refine ⟨j + 1, by omega, by simpa using h2, ?_⟩
        rcases h3 with h3 | ⟨j0, h4, h5, h6⟩
        · left; exact h3
        · right; exact ⟨j0 + 1, by omega, by omega, by simpa using h6⟩
      | some p =>
        obtain ⟨op, k⟩ := p
        simp only [hp, List.mem_cons] at h
        rcases h with h | h
        · subst h
          exact ⟨0, by simp, by simp, Or.inl hp⟩
        · obtain ⟨j, h1, h2, h3⟩ := ih _ _ r h
          refine ⟨j + 1, by omega, by simpa using h2, ?_⟩
          rcases h3 with h3 | ⟨j0, h4, h5, h6⟩
          · by_cases ht : r.tid = t
            · rw [ht] at h3; simp [upd] at h3
            · left; simpa [upd, ht] using h3
          · right; exact ⟨j0 + 1, by omega, by omega, by simpa using h6⟩

/-- Every record of `historyOf os` is an operation of `os`: `inv` is the index of its call, `res` the index of its
    return, and the call precedes the return. -/
theorem historyOf_sound (os : List (Tid × Obs)) (r : OpRec GOp GRet) (h : r ∈ historyOf os) :
    os[r.inv]? = some (r.tid, .call r.op) ∧ os[r.res]? = some (r.tid, .ret r.ret) ∧ r.inv < r.res := by
  obtain ⟨j, h1, h2, h3⟩ := histAux_mem os 0 (fun _ => none) r h
  rcases h3 with h3 | ⟨j0, h4, h5, h6⟩
  · simp at h3
  · have e1 : r.res = j := by omega
    have e2 : r.inv = j0 := by omega
    rw [e1, e2]; exact ⟨h6, h2, h4⟩

theorem pendAux_some : ∀ (os : List (Tid × Obs)) (i : Nat) (pend : Pend) (t : Tid) (op : GOp) (k : Nat),
    pendAux i pend os t = some (op, k) →
    pend t = some (op, k) ∨ ∃ j0, k = i + j0 ∧ os[j0]? = some (t, .call op) := by
  intro os
  induction os with
  | nil => intro i pend t op k h; left; simpa [pendAux] using h
  | cons x os ih =>
    intro i pend t op k h
    obtain ⟨t1, o⟩ := x
    have shift : (∃ j0, k = i + 1 + j0 ∧ os[j0]? = some (t, .call op)) →
        ∃ j0, k = i + j0 ∧ ((t1, o) :: os)[j0]? = some (t, .call op) := by
      rintro ⟨j0, h1, h2⟩; exact ⟨j0 + 1, by omega, by simpa using h2⟩
    cases o with
    | call op1 =>
      simp only [pendAux] at h
      rcases ih _ _ t op k h with h3 | h3
      · by_cases ht : t = t1
        · subst ht; simp [upd] at h3
          right; exact ⟨0, by omega, by simp [h3.1]⟩
        · left; simpa [upd, ht] using h3
      · right; exact shift h3
    | ev e =>
      simp only [pendAux] at h
      rcases ih _ _ t op k h with h3 | h3
      · left; exact h3
      · right; exact shift h3
    | ret rv =>
      simp only [pendAux] at h
      cases hp : pend t1 with
      | none =>
        simp only [hp] at h
        rcases ih _ _ t op k h with h3 | h3
        · left; exact h3
        · right; exact shift h3
      | some p =>
        simp only [hp] at h
        rcases ih _ _ t op k h with h3 | h3
        · by_cases ht : t = t1
          · subst ht; simp [upd] at h3
          · left; simpa [upd, ht] using h3
        · right; exact shift h3

/-- A pending operation of `pendingOf os` is an operation of `os`: its `call` observation is at the recorded index. -/
theorem pendingOf_sound (os : List (Tid × Obs)) (t : Tid) (op : GOp) (k : Nat)
    (h : pendingOf os t = some (op, k)) : os[k]? = some (t, .call op) := by
  rcases pendAux_some os 0 (fun _ => none) t op k h with h3 | ⟨j0, h1, h2⟩
  · simp at h3
  · have : k = j0 := by omega
    rw [this]; exact h2


theorem historyOf_wf (os : List (Tid × Obs)) : ∀ r ∈ historyOf os, r.inv ≤ r.res :=
  fun r hr => Nat.le_of_lt (historyOf_sound os r hr).2.2

end CdsVerif.Algo.FC.Log

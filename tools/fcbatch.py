"""Differential tie between the Lean batch model of the flat-combining containers (Algo/FC/Batch.lean:
elimPasses + applyAll = dequeBatch / queueBatch / stackBatch, pqBatch) and the real code
(fc_process / fc_apply / collide of cds/container/fc*.h driven by the real kernel of
cds/algo/flat_combining/kernel.h).

harness/pure/fcbatch.cpp prints   <case> -> res=[..] final=[..] coll=k   for seeded random combiner sessions on real
container objects; `cdsdriver fcbatch` (Driver/FCBatch.lean) prints the right-hand side the model computes for the same
<case>; the two texts must be equal.  See the head of fcbatch.cpp for the line format.

    import fcbatch
    fcbatch.fcbatch_check(res, thorough)                      # all four containers
    fcbatch.fcbatch_check(res, thorough, kinds=["deque"])    # one of deque | queue | stack | pq
"""
import re
import subprocess

import steps
import vlib

KINDS = ("deque", "queue", "stack", "pq")
BUILD_EXTRA = ["-fno-access-control",      # the publication list is built by hand: private members of the kernel and the containers
               "-UNDEBUG",                 # the library's own assert()s stay active: a failed assert is a crash of the driver = a violation
               "-lboost_thread", "-lboost_system", "-pthread"]


def build():
    return steps.build_pure("fcbatch", ["fcbatch.cpp"], extra=BUILD_EXTRA)


def _batch_len(inp):
    m = re.search(r"batch=\[([^\]]*)\]", inp)
    return len([x for x in m.group(1).split(",") if x]) if m else 0


def _stats(st, inp, impl):
    """Distribution of the cases that were compared (what the tie actually exercised)."""
    st["cases"] = st.get("cases", 0) + 1
    w = inp.split()
    f = dict(x.split("=", 1) for x in w[1:] if "=" in x)
    st.setdefault("route", {})
    st["route"][f.get("route", "?")] = st["route"].get(f.get("route", "?"), 0) + 1
    st.setdefault("passes_n", {})
    st["passes_n"][f.get("n", "?")] = st["passes_n"].get(f.get("n", "?"), 0) + 1
    if f.get("init") == "[]":
        st["empty_initial_content"] = st.get("empty_initial_content", 0) + 1
    items = [x for x in f.get("batch", "[]")[1:-1].split(",") if x]
    st["records"] = st.get("records", 0) + len(items)
    st["records_done_or_empty"] = st.get("records_done_or_empty", 0) + sum(1 for x in items if x in ("D", "E"))
    st["records_clear_or_empty_op"] = st.get("records_clear_or_empty_op", 0) + sum(1 for x in items if x in ("clear", "empty"))
    st["records_move_kind"] = st.get("records_move_kind", 0) + sum(1 for x in items if re.match(r"(pushFm|pushBm|enqm|pushm):", x))
    m = re.search(r"res=\[([^\]]*)\]", impl)
    rs = [x for x in (m.group(1).split(",") if m else []) if x]
    ne = sum(1 for x in rs if x.startswith("e:"))
    st["records_finished_by_elimination"] = st.get("records_finished_by_elimination", 0) + ne
    st["records_finished_by_fc_apply"] = st.get("records_finished_by_fc_apply", 0) + sum(1 for x in rs if x.startswith("a:"))
    st["pops_on_empty"] = st.get("pops_on_empty", 0) + sum(1 for x in rs if x.endswith(":empty"))
    m = re.search(r"coll=(\d+)", impl)
    k = int(m.group(1)) if m else 0
    st["collisions"] = st.get("collisions", 0) + k
    if k >= 1:
        st["cases_with_collision"] = st.get("cases_with_collision", 0) + 1
    if k >= 2:
        st["cases_with_2plus_collisions"] = st.get("cases_with_2plus_collisions", 0) + 1
    if k >= 1 and f.get("init") == "[]":
        st["cases_with_collision_on_empty_container"] = st.get("cases_with_collision_on_empty_container", 0) + 1
    st["max_collisions_in_a_case"] = max(st.get("max_collisions_in_a_case", 0), k)


def fcbatch_check(res, thorough, kinds=None, cases=None, timeout=600):
    """Run the tie for `kinds` (default: all four).  Every disagreement is a violation
    `fcbatch:<kind>:model-differs`; the replay carries the exact line and both outputs (the shortest failing batch
    first, a few more attached).  Returns the number of cases compared."""
    kinds = list(kinds or KINDS)
    per_kind = cases if cases is not None else (60000 if thorough else 3000)
    exe = build()
    total = 0
    dist = res.cov.setdefault("fcbatch", {})
    for kind in kinds:
        cmd = [exe, str(res.seed), str(per_kind), kind]
        try:
            rc, out, err = vlib.sh(cmd, timeout=timeout)
        except subprocess.TimeoutExpired as ex:
            partial = ex.stdout.decode() if isinstance(ex.stdout, bytes) else (ex.stdout or "")
            res.violation("fcbatch:%s:driver-hang" % kind, {"kind": "hang", "cmd": cmd, "last_output": partial[-1500:],
                                                            "note": "the last line is the case that did not return (text left of `->`)"})
            continue
        lines = [l for l in out.split("\n") if " -> " in l and l.split(" -> ", 1)[1].strip()]
        if rc != 0:
            # the input is flushed before the library is entered: the last (unfinished) line is the crashing case
            last = out.rstrip("\n").split("\n")[-1] if out else ""
            res.violation("fcbatch:%s:driver-crash" % kind,
                          {"kind": "crash", "cmd": cmd, "rc": rc, "input": last.split(" ->")[0], "stderr": err[-2000:],
                           "replay_cmd": "echo '%s' | %s -" % (last.split(" ->")[0], exe)})
        if not lines:
            continue
        inputs = [l.split(" -> ")[0] for l in lines]
        mout = vlib.driver(["fcbatch"], "\n".join(inputs) + "\n").split("\n")
        if len(mout) < len(lines):
            res.violation("fcbatch:%s:driver-short-output" % kind,
                          {"kind": "driver-problem", "lines": len(lines), "model_lines": len(mout)}, no_input=True)
        bad = []
        st = dist.setdefault(kind, {})
        distinct = set()
        for l, m in zip(lines, mout):
            inp, _, impl = l.partition(" -> ")
            impl = impl.strip()
            m = m.strip()
            total += 1
            distinct.add(inp)
            _stats(st, inp, impl)
            if impl != m:
                bad.append((inp, impl, m))
        st["disagreements"] = st.get("disagreements", 0) + len(bad)
        if bad:
            bad.sort(key=lambda b: (_batch_len(b[0]), len(b[0])))
            inp, impl, m = bad[0]
            res.violation("fcbatch:%s:model-differs" % kind,
                          {"kind": "pure-input", "function": "fcbatch:" + kind, "input": inp, "impl": impl, "model": m,
                           "line": inp + " -> " + impl,
                           "why": "the real %s (fc_process/fc_apply under the real kernel) and the Lean batch model (Algo/FC/Batch.lean) "
                                  "give different per-record results / final content / number of collisions for this combiner session" % kind,
                           "replay_impl": "echo '%s' | %s -" % (inp, exe),
                           "replay_model": "echo '%s' | %s fcbatch" % (inp, vlib.DRIVER),
                           "disagreements": len(bad), "cases": len(lines), "cmd": cmd,
                           "more": [{"input": a, "impl": b, "model": c} for a, b, c in bad[1:6]]})
        res.cov["distinct_nontrivial"] = res.cov.get("distinct_nontrivial", 0) + len(distinct)
        for l, m in list(zip(lines, mout))[:: max(1, len(lines) // 2)][:2]:
            res.sample({"input": l.split(" -> ")[0][:200], "impl": l.split(" -> ")[1][:200], "model": m[:200]}, limit=12)
    res.add("evaluations", total)
    res.add("programs", total)
    res.add("disagreements_checked", total)
    return total


if __name__ == "__main__":
    # stand-alone run:  python3 fcbatch.py [thorough] [kind ...]      (VERIF_REPO=<tree> selects the headers)
    import json
    import sys
    args = sys.argv[1:]
    th = "thorough" in args
    ks = [a for a in args if a in KINDS] or None
    seed = next((int(a) for a in args if a.isdigit()), 1)
    r = vlib.Result("fcbatch", "thorough" if th else "quick", seed, "tie")
    n = fcbatch_check(r, th, ks)
    print(json.dumps({"compared": n, "violations": [{"signature": v["signature"],
                                                      "replay": {k: v["replay"].get(k) for k in ("input", "impl", "model", "disagreements", "cases", "rc", "stderr") if k in v["replay"]}}
                                                     for v in r.violations],
                      "distribution": r.cov["fcbatch"]}, indent=1))
    sys.exit(1 if r.violations else 0)

/-
  Pure models of the batch functions of the flat-combining containers
      cds/container/fcdeque.h, fcqueue.h, fcstack.h, fcpriority_queue.h
  i.e. of the pair  `fc_apply( fc_record* )`  /  `fc_process( itBegin, itEnd )`  that the flat-combining kernel
  (cds/algo/flat_combining/kernel.h) calls while it holds the global lock.

  What the kernel does with them (kernel.h):
    combining( owner )        : up to `nCombinePassCount` times `combining_pass`
    batch_combining( owner )  : `nCombinePassCount` times  owner.fc_process( begin(), end() );  then one `combining_pass`
    combining_pass( owner )   : walk the publication list from `m_pHead`; for every record with
                                nRequest >= req_Operation:  owner.fc_apply( p ); operation_done( *p )
    iterator (begin / ++)     : walks the same list in the same order and skips every record whose
                                nRequest < req_Operation (empty records and records already marked done)
    operation_done( rec )     : rec.nRequest := req_Response   (the record is "marked done")
  `batch_combining` is used only when `traits::enable_elimination` is true (default: false); FCPriorityQueue
  always uses `combine` and has no `fc_process` (it inherits the asserting stub of `flat_combining::container`).

  THE MODEL.  A batch is the list of pending requests in publication-list order.  A request is
  (kind, value pushed); its result slot (`bEmpty`, `*pValPop`) is rendered as the value the public member
  function returns to the caller, in the wire format of `Spec` (`Resp = GRet`):
      push / enqueue : [1]        pop / dequeue : [0] (bEmpty) or [1, v]        clear : []      empty() : [0] / [1]
  A slot is a request together with `none` (still pending) or `some resp` (marked done: `operation_done` was called).

  The loop skeleton of the three `fc_process` functions is the same and is transcribed once (`elimGo`):
      for ( it = itBegin, itPrev = itEnd; it != itEnd; ++it )
          switch ( it->op() ) {
            case <participating kinds>:
                if ( itPrev != itEnd && <collision test for (itPrev, it)> ) { collide(..); itPrev = itEnd; }
                else itPrev = it;
            /* every other kind (op_clear, FCStack's op_empty): no case label, nothing happens, itPrev is KEPT */
          }
  The container-specific parts are `part` (which kinds have a case label / reach the body) and `coll`
  (the collision test and the responses written by `collide` / `collide_move`).
  `fc_process` never touches the underlying container, so the emptiness test `m_Deque.empty()` has the same
  value during all `fc_process` passes of one combiner session: the emptiness of the container when the
  combiner starts.

  Not modelled: requests published by other threads WHILE the combiner walks the list (the batch is fixed),
  statistics, the difference between copy and move of the pushed value (the `_move` kinds are kept as separate kinds
  and proved to behave identically).
-/
import CdsVerif.Base.Spec
namespace CdsVerif.Algo.FC
open CdsVerif.Spec

/-- The response a requester observes (wire format of the history specifications). -/
abbrev Resp := GRet

/-! ### Sequential runs of a specification over a list of (operation, response) pairs -/

/-- Execute the pairs in order; `some s'` iff every response is the one the specification gives. -/
def seqRun {σ Op : Type} (step : σ → Op → Option (σ × Resp)) : σ → List (Op × Resp) → Option σ
  | s, [] => some s
  | s, (op, r) :: l =>
    match step s op with
    | some (s', r') => if r' = r then seqRun step s' l else none
    | none => none

theorem seqRun_append {σ Op : Type} (step : σ → Op → Option (σ × Resp)) :
    ∀ (l1 l2 : List (Op × Resp)) (s : σ),
      seqRun step s (l1 ++ l2) = (seqRun step s l1).bind (fun s' => seqRun step s' l2)
  | [], _, _ => by simp [seqRun]
  | (op, r) :: l1, l2, s => by
    simp only [List.cons_append, seqRun]
    cases h : step s op with
    | none => simp
    | some p =>
      obtain ⟨s', r'⟩ := p
      by_cases hr : r' = r
      · simp [hr, seqRun_append step l1 l2 s']
      · simp [hr]

/-- Two specifications that agree on the operations of a run agree on the run. -/
theorem seqRun_congr {σ Op : Type} (step1 step2 : σ → Op → Option (σ × Resp)) :
    ∀ (l : List (Op × Resp)) (s : σ), (∀ x ∈ l, ∀ s, step1 s x.1 = step2 s x.1) →
      seqRun step1 s l = seqRun step2 s l
  | [], _, _ => rfl
  | (op, r) :: l, s, h => by
    have h1 : step1 s op = step2 s op := h (op, r) (by simp) s
    simp only [seqRun, h1]
    cases step2 s op with
    | none => rfl
    | some p =>
      obtain ⟨s', r'⟩ := p
      by_cases hr : r' = r
      · simp only [hr, if_true]
        exact seqRun_congr step1 step2 l s' (fun x hx => h x (by simp [hx]))
      · simp [hr]

/-- The pairs are a legal sequential run that leaves the state as it was. -/
def Noop {σ Op : Type} (step : σ → Op → Option (σ × Resp)) (d : σ) (l : List (Op × Resp)) : Prop :=
  seqRun step d l = some d

theorem Noop.nil {σ Op : Type} (step : σ → Op → Option (σ × Resp)) (d : σ) : Noop step d [] := rfl

theorem Noop.append {σ Op : Type} {step : σ → Op → Option (σ × Resp)} {d : σ} {l1 l2 : List (Op × Resp)}
    (h1 : Noop step d l1) (h2 : Noop step d l2) : Noop step d (l1 ++ l2) := by
  simp only [Noop] at *
  rw [seqRun_append, h1]; simpa using h2

/-! ### The common loop of `fc_process` -/

section Generic
variable {σ Req : Type}

/-- A request with its result slot: `none` = pending, `some r` = marked done with response `r`. -/
abbrev Slot (Req : Type) := Req × Option Resp

/-- One walk of `fc_process` over the batch.
    `elimGo prev l` processes `l` with `itPrev = prev` and returns
      * the fate of `prev` (`some r` iff a later request collided with it; `r` = the response written into it),
      * the batch with the new marks,
      * the collided pairs `(itPrev, it)` in the order in which they were collided.
    Slots already marked done are skipped by the kernel iterator (nRequest < req_Operation). -/
def elimGo (part : Req → Bool) (coll : Req → Req → Option (Resp × Resp)) :
    Option Req → List (Slot Req) → Option Resp × List (Slot Req) × List (Req × Req)
  | _, [] => (none, [], [])
  | prev, (r, some a) :: rest =>
    let (f, out, ps) := elimGo part coll prev rest
    (f, (r, some a) :: out, ps)
  | prev, (r, none) :: rest =>
    if part r then
      match prev with
      | none =>
        let (f, out, ps) := elimGo part coll (some r) rest            -- itPrev = it
        (none, (r, f) :: out, ps)
      | some p =>
        match coll p r with
        | some (a, b) =>
          let (_, out, ps) := elimGo part coll none rest              -- collide; itPrev = itEnd
          (some a, (r, some b) :: out, (p, r) :: ps)
        | none =>
          let (f, out, ps) := elimGo part coll (some r) rest          -- itPrev = it
          (none, (r, f) :: out, ps)
    else
      let (f, out, ps) := elimGo part coll prev rest                  -- no case label: itPrev is kept
      (f, (r, none) :: out, ps)

/-- `fc_process( begin(), end() )`. -/
def elimPass (part : Req → Bool) (coll : Req → Req → Option (Resp × Resp)) (sl : List (Slot Req)) : List (Slot Req) :=
  (elimGo part coll none sl).2.1

/-- The pairs `(itPrev, it)` collided by one `fc_process`. -/
def elimPairs (part : Req → Bool) (coll : Req → Req → Option (Resp × Resp)) (sl : List (Slot Req)) : List (Req × Req) :=
  (elimGo part coll none sl).2.2

/-- `for ( nPass = 0; nPass < n; ++nPass ) owner.fc_process( begin(), end() );` -/
def elimPasses (part : Req → Bool) (coll : Req → Req → Option (Resp × Resp)) : Nat → List (Slot Req) → List (Slot Req)
  | 0, sl => sl
  | n + 1, sl => elimPasses part coll n (elimPass part coll sl)

/-- `combining_pass`: `fc_apply` + `operation_done` for every record that is still pending, in list order.
    Returns the final container and the responses of ALL requests of the batch (aligned with the batch). -/
def applyAll (app : σ → Req → σ × Resp) : σ → List (Slot Req) → σ × List Resp
  | s, [] => (s, [])
  | s, (_, some a) :: rest =>
    let (s', out) := applyAll app s rest
    (s', a :: out)
  | s, (r, none) :: rest =>
    let (s1, a) := app s r
    let (s', out) := applyAll app s1 rest
    (s', a :: out)

/-- The requests already marked done, with their responses. -/
def donePairs : List (Slot Req) → List (Req × Resp)
  | [] => []
  | (r, some a) :: l => (r, a) :: donePairs l
  | (_, none) :: l => donePairs l

def fate (prev : Option Req) (f : Option Resp) : List (Req × Resp) :=
  match prev, f with
  | some p, some a => [(p, a)]
  | _, _ => []

theorem donePairs_fresh (rs : List Req) : donePairs (rs.map (fun r => (r, (none : Option Resp)))) = [] := by
  induction rs with
  | nil => rfl
  | cons r rs ih => simpa [donePairs] using ih

private theorem perm_aux {α : Type} {X Y L P P' : List α} (h : X.Perm (Y ++ L)) (hp : P'.Perm P) :
    (P' ++ X).Perm (Y ++ (P ++ L)) :=
  (List.Perm.append hp h).trans (List.perm_append_comm_assoc P Y L)

variable (part : Req → Bool) (coll : Req → Req → Option (Resp × Resp))
variable (step : σ → Req → Option (σ × Resp)) (d0 : σ)

/-- What one walk does: requests are kept, and the marks it adds are (a permutation of) a sequence of
    collided pairs, each of which is a legal run from `d0` back to `d0`. -/
theorem elimGo_spec
    (hcoll : ∀ p r a b, part p = true → part r = true → coll p r = some (a, b) →
      Noop step d0 [(p, a), (r, b)] ∨ Noop step d0 [(r, b), (p, a)]) :
    ∀ (l : List (Slot Req)) (prev : Option Req), (∀ p, prev = some p → part p = true) →
      ((elimGo part coll prev l).2.1.map Prod.fst = l.map Prod.fst) ∧
      ∃ L, Noop step d0 L ∧
        (fate prev (elimGo part coll prev l).1 ++ donePairs (elimGo part coll prev l).2.1).Perm (donePairs l ++ L) := by
  intro l
  induction l with
  | nil =>
    intro prev _
    refine ⟨rfl, [], Noop.nil _ _, ?_⟩
    cases prev <;> simp [elimGo, fate, donePairs]
  | cons x rest ih =>
    intro prev hprev
    obtain ⟨r, m⟩ := x
    cases m with
    | some a =>
      obtain ⟨h1, L, hL, hp⟩ := ih prev hprev
      refine ⟨by simp [elimGo, h1], L, hL, ?_⟩
      simp only [elimGo, donePairs]
      exact List.perm_middle.trans (List.Perm.cons _ hp)
    | none =>
      by_cases hpart : part r = true
      · cases prev with
        | none =>
          obtain ⟨h1, L, hL, hp⟩ := ih (some r) (by intro p hp; cases hp; exact hpart)
          refine ⟨by simp [elimGo, hpart, h1], L, hL, ?_⟩
          simp only [elimGo, hpart, if_true, donePairs, fate, List.nil_append]
          cases hf : (elimGo part coll (some r) rest).1 with
          | none => simpa [fate, hf, donePairs] using hp
          | some a => simpa [fate, hf, donePairs] using hp
        | some p =>
          cases hc : coll p r with
          | some ab =>
            obtain ⟨a, b⟩ := ab
            obtain ⟨h1, L, hL, hp⟩ := ih none (by intro p hp; cases hp)
            have hpp := hprev p rfl
            simp only [fate, List.nil_append] at hp
            rcases hcoll p r a b hpp hpart hc with hn | hn
            · refine ⟨by simp [elimGo, hpart, hc, h1], [(p, a), (r, b)] ++ L, Noop.append hn hL, ?_⟩
              simp only [elimGo, hpart, if_true, hc, donePairs, fate]
              exact perm_aux (P' := [(p, a), (r, b)]) hp (List.Perm.refl _)
            · refine ⟨by simp [elimGo, hpart, hc, h1], [(r, b), (p, a)] ++ L, Noop.append hn hL, ?_⟩
              simp only [elimGo, hpart, if_true, hc, donePairs, fate]
              exact perm_aux (P' := [(p, a), (r, b)]) hp (List.Perm.swap _ _ _)
          | none =>
            obtain ⟨h1, L, hL, hp⟩ := ih (some r) (by intro p hp; cases hp; exact hpart)
            refine ⟨by simp [elimGo, hpart, hc, h1], L, hL, ?_⟩
            simp only [elimGo, hpart, if_true, hc, donePairs, fate, List.nil_append]
            cases hf : (elimGo part coll (some r) rest).1 with
            | none => simpa [fate, hf, donePairs] using hp
            | some a => simpa [fate, hf, donePairs] using hp
      · obtain ⟨h1, L, hL, hp⟩ := ih prev hprev
        refine ⟨by simp [elimGo, hpart, h1], L, hL, ?_⟩
        simpa [elimGo, hpart, donePairs] using hp

/-- Every pair recorded by a walk passed the collision test, and both requests have a `case` label. -/
theorem elimGo_pairs :
    ∀ (l : List (Slot Req)) (prev : Option Req), (∀ p, prev = some p → part p = true) →
      ∀ pr ∈ (elimGo part coll prev l).2.2,
        part pr.1 = true ∧ part pr.2 = true ∧ (coll pr.1 pr.2).isSome = true := by
  intro l
  induction l with
  | nil => intro prev _ pr h; simp [elimGo] at h
  | cons x rest ih =>
    intro prev hprev pr h
    obtain ⟨r, m⟩ := x
    cases m with
    | some a => exact ih prev hprev pr (by simpa [elimGo] using h)
    | none =>
      by_cases hpart : part r = true
      · cases prev with
        | none =>
          exact ih (some r) (by intro p hp; cases hp; exact hpart) pr (by simpa [elimGo, hpart] using h)
        | some p =>
          cases hc : coll p r with
          | some ab =>
            obtain ⟨a, b⟩ := ab
            simp only [elimGo, hpart, if_true, hc, List.mem_cons] at h
            rcases h with rfl | h
            · exact ⟨hprev p rfl, hpart, by simp [hc]⟩
            · exact ih none (by intro p hp; cases hp) pr h
          | none =>
            exact ih (some r) (by intro p hp; cases hp; exact hpart) pr (by simpa [elimGo, hpart, hc] using h)
      · exact ih prev hprev pr (by simpa [elimGo, hpart] using h)

/-- The invariant of a combiner session between walks: the marked requests are explained by a run that leaves
    the container as the combiner found it. -/
def DoneOk (sl : List (Slot Req)) : Prop := ∃ L, Noop step d0 L ∧ L.Perm (donePairs sl)

theorem elimPass_spec
    (hcoll : ∀ p r a b, part p = true → part r = true → coll p r = some (a, b) →
      Noop step d0 [(p, a), (r, b)] ∨ Noop step d0 [(r, b), (p, a)])
    (sl : List (Slot Req)) (h : DoneOk step d0 sl) :
    (elimPass part coll sl).map Prod.fst = sl.map Prod.fst ∧ DoneOk step d0 (elimPass part coll sl) := by
  obtain ⟨h1, L, hL, hp⟩ := elimGo_spec part coll step d0 hcoll sl none (by intro p hp; cases hp)
  obtain ⟨L0, hL0, hp0⟩ := h
  refine ⟨h1, L0 ++ L, Noop.append hL0 hL, ?_⟩
  simp only [fate, List.nil_append] at hp
  exact (List.Perm.append_right L hp0).trans hp.symm

theorem elimPasses_spec
    (hcoll : ∀ p r a b, part p = true → part r = true → coll p r = some (a, b) →
      Noop step d0 [(p, a), (r, b)] ∨ Noop step d0 [(r, b), (p, a)]) :
    ∀ (n : Nat) (sl : List (Slot Req)), DoneOk step d0 sl →
      (elimPasses part coll n sl).map Prod.fst = sl.map Prod.fst ∧ DoneOk step d0 (elimPasses part coll n sl)
  | 0, sl, h => ⟨rfl, h⟩
  | n + 1, sl, h => by
    obtain ⟨h1, h2⟩ := elimPass_spec part coll step d0 hcoll sl h
    obtain ⟨h3, h4⟩ := elimPasses_spec hcoll n _ h2
    exact ⟨by simpa [elimPasses, h1] using h3, h4⟩

/-- `combining_pass` over a partly marked batch: the responses of the whole batch are the marks plus a
    sequential run, in list order, of the requests that were still pending. -/
theorem applyAll_spec (app : σ → Req → σ × Resp) (happ : ∀ s r, step s r = some (app s r)) :
    ∀ (sl : List (Slot Req)) (s : σ),
      (applyAll app s sl).2.length = sl.length ∧
      ∃ A, seqRun step s A = some (applyAll app s sl).1 ∧
        ((sl.map Prod.fst).zip (applyAll app s sl).2).Perm (donePairs sl ++ A)
  | [], s => ⟨rfl, [], rfl, by simp [applyAll, donePairs]⟩
  | (r, some a) :: rest, s => by
    obtain ⟨hl, A, hA, hp⟩ := applyAll_spec app happ rest s
    refine ⟨by simp [applyAll, hl], A, by simpa [applyAll] using hA, ?_⟩
    simpa [applyAll, donePairs] using hp
  | (r, none) :: rest, s => by
    obtain ⟨hl, A, hA, hp⟩ := applyAll_spec app happ rest (app s r).1
    refine ⟨by simp [applyAll, hl], (r, (app s r).2) :: A, ?_, ?_⟩
    · simp only [seqRun, happ, applyAll]
      simpa using hA
    · simp only [applyAll, donePairs, List.map_cons, List.zip_cons_cons]
      exact (List.Perm.cons _ hp).trans List.perm_middle.symm

/-- THE GENERIC BATCH THEOREM.  `n` walks of `fc_process` followed by `combining_pass`, started on container `d0`
    with the batch `rs` (nothing marked): every request gets a response, and the responses are those of running
    SOME permutation of the batch sequentially from `d0`; that run ends in the container the combiner leaves. -/
theorem batch_refines (app : σ → Req → σ × Resp) (happ : ∀ s r, step s r = some (app s r))
    (hcoll : ∀ p r a b, part p = true → part r = true → coll p r = some (a, b) →
      Noop step d0 [(p, a), (r, b)] ∨ Noop step d0 [(r, b), (p, a)])
    (n : Nat) (rs : List Req) :
    let fin := applyAll app d0 (elimPasses part coll n (rs.map (fun r => (r, none))))
    fin.2.length = rs.length ∧
    ∃ perm : List (Req × Resp), perm.Perm (rs.zip fin.2) ∧ seqRun step d0 perm = some fin.1 := by
  intro fin
  have h0 : DoneOk step d0 (rs.map (fun r => (r, (none : Option Resp)))) :=
    ⟨[], Noop.nil _ _, by simp [donePairs_fresh]⟩
  obtain ⟨hfst, L, hL, hLp⟩ := elimPasses_spec part coll step d0 hcoll n _ h0
  obtain ⟨hlen, A, hA, hAp⟩ := applyAll_spec step app happ (elimPasses part coll n (rs.map (fun r => (r, none)))) d0
  have hfst' : (elimPasses part coll n (rs.map (fun r => (r, (none : Option Resp))))).map Prod.fst = rs := by
    rw [hfst]; simp [Function.comp_def]
  refine ⟨?_, L ++ A, ?_, ?_⟩
  · have := congrArg List.length hfst'
    simp only [List.length_map] at this
    exact hlen.trans this
  · rw [hfst'] at hAp
    exact (List.Perm.append_right A hLp).trans hAp.symm
  · rw [seqRun_append, hL]; simpa using hA

end Generic

theorem zip_fst_snd {α β : Type} : ∀ (l : List (α × β)), (l.map Prod.fst).zip (l.map Prod.snd) = l
  | [] => rfl
  | x :: l => by simp [zip_fst_snd l]

/-! ## FCDeque (cds/container/fcdeque.h) -/

inductive DKind
  | pushFront | pushFrontMove | pushBack | pushBackMove | popFront | popBack | clear
deriving DecidableEq, Repr

/-- `val` = `*pValPush` (meaningful for the push kinds only). -/
structure DReq where
  kind : DKind
  val : Int := 0
deriving DecidableEq, Repr

/-- `FCDeque::fc_apply`.  Front of the list = front of the deque.  The `_move` kinds differ from the copying
    kinds only by `std::move` of the argument. -/
def dequeApply (d : List Int) (r : DReq) : List Int × Resp :=
  match r.kind with
  | .pushFront => (r.val :: d, [1])                 -- m_Deque.push_front( *pValPush )
  | .pushFrontMove => (r.val :: d, [1])
  | .pushBack => (d ++ [r.val], [1])                -- m_Deque.push_back( *pValPush )
  | .pushBackMove => (d ++ [r.val], [1])
  | .popFront =>                                    -- bEmpty = m_Deque.empty(); if ( !bEmpty ) { *pValPop = front(); pop_front(); }
    match d with
    | [] => ([], [0])
    | x :: xs => (xs, [1, x])
  | .popBack =>
    match d.getLast? with
    | none => (d, [0])
    | some x => (d.dropLast, [1, x])
  | .clear => ([], [])                              -- while ( !empty() ) pop_front();

/-- The kinds that have a `case` label in `FCDeque::fc_process` (`op_clear` has none: `itPrev` is kept). -/
def dequePart (r : DReq) : Bool :=
  match r.kind with
  | .clear => false
  | _ => true

/-- The collision tests of `FCDeque::fc_process`, case by case as written, for `itPrev = prev` (≠ itEnd) and
    `it`; `empty` = `m_Deque.empty()`.  Result: the responses written into (`prev`, `it`) by `collide` /
    `collide_move` ( `*recPop.pValPop = *recPush.pValPush; recPop.bEmpty = false;` both `operation_done` ),
    or `none` when the code takes the `itPrev = it` branch. -/
def dequeCollide (empty : Bool) (prev it : DReq) : Option (Resp × Resp) :=
  match it.kind with
  | .pushFront =>
    -- if ( itPrev->op() == op_pop_front || ( m_Deque.empty() && itPrev->op() == op_pop_back )) collide( *it, *itPrev )
    if prev.kind = .popFront ∨ (empty = true ∧ prev.kind = .popBack) then some ([1, it.val], [1]) else none
  | .pushFrontMove =>
    if prev.kind = .popFront ∨ (empty = true ∧ prev.kind = .popBack) then some ([1, it.val], [1]) else none
  | .pushBack =>
    -- if ( itPrev->op() == op_pop_back || ( m_Deque.empty() && itPrev->op() == op_pop_front )) collide( *it, *itPrev )
    if prev.kind = .popBack ∨ (empty = true ∧ prev.kind = .popFront) then some ([1, it.val], [1]) else none
  | .pushBackMove =>
    if prev.kind = .popBack ∨ (empty = true ∧ prev.kind = .popFront) then some ([1, it.val], [1]) else none
  | .popFront =>
    if empty then
      match prev.kind with
      | .pushBack => some ([1], [1, prev.val])          -- collide( *itPrev, *it )
      | .pushBackMove => some ([1], [1, prev.val])      -- collide_move( *itPrev, *it )
      | _ => none                                       -- default: itPrev = it
    else
      match prev.kind with
      | .pushFront => some ([1], [1, prev.val])
      | .pushFrontMove => some ([1], [1, prev.val])
      | _ => none
  | .popBack =>
    if empty then
      match prev.kind with
      | .pushFront => some ([1], [1, prev.val])
      | .pushFrontMove => some ([1], [1, prev.val])
      | _ => none
    else
      match prev.kind with
      | .pushBack => some ([1], [1, prev.val])
      | .pushBackMove => some ([1], [1, prev.val])
      | _ => none
  | .clear => none

/-- `FCDeque::fc_process( begin(), end() )` on deque `d` and batch `rs` (nothing marked yet): the deque is not
    touched; `some resp` = the request was collided and marked done with `resp`, `none` = left for `fc_apply`. -/
def dequeProcess (d : List Int) (rs : List DReq) : List Int × List (Option Resp) :=
  (d, (elimPass dequePart (dequeCollide d.isEmpty) (rs.map (fun r => (r, none)))).map Prod.snd)

/-- The pairs `(itPrev, it)` that `fc_process` collides. -/
def dequeCollisions (d : List Int) (rs : List DReq) : List (DReq × DReq) :=
  elimPairs dequePart (dequeCollide d.isEmpty) (rs.map (fun r => (r, none)))

/-- `combining_pass` after `fc_process`: `fc_apply` on every request not marked, in list order. -/
def dequeFinish (d : List Int) (rs : List DReq) (marks : List (Option Resp)) : List Int × List Resp :=
  applyAll dequeApply d (rs.zip marks)

/-- A whole combiner session on a fixed batch: `n` walks of `fc_process`, then `combining_pass`
    (`n = 0`: the non-eliminating `combine`). -/
def dequeBatch (n : Nat) (d : List Int) (rs : List DReq) : List Int × List Resp :=
  applyAll dequeApply d (elimPasses dequePart (dequeCollide d.isEmpty) n (rs.map (fun r => (r, none))))

def DReq.toGOp (r : DReq) : GOp :=
  match r.kind with
  | .pushFront => ⟨"push_front", [r.val]⟩
  | .pushFrontMove => ⟨"push_front", [r.val]⟩
  | .pushBack => ⟨"push_back", [r.val]⟩
  | .pushBackMove => ⟨"push_back", [r.val]⟩
  | .popFront => ⟨"pop_front", []⟩
  | .popBack => ⟨"pop_back", []⟩
  | .clear => ⟨"clear", []⟩

/-- `Spec.dequeStep` extended with `clear` (which `Spec.dequeStep` does not have). -/
def dequeStepC (d : List Int) (op : GOp) : Option (List Int × GRet) :=
  match op.name, op.args with
  | "clear", [] => some ([], [])
  | _, _ => dequeStep d op

/-- The sequential specification as a function of requests. -/
def dequeSpec (d : List Int) (r : DReq) : Option (List Int × Resp) := dequeStepC d r.toGOp

theorem dequeStepC_eq_dequeStep (d : List Int) (r : DReq) (h : r.kind ≠ .clear) :
    dequeStepC d r.toGOp = dequeStep d r.toGOp := by
  obtain ⟨k, v⟩ := r
  cases k <;> first | exact absurd rfl h | rfl

/-- `fc_apply` is the sequential specification. -/
theorem dequeApply_spec (d : List Int) (r : DReq) : dequeSpec d r = some (dequeApply d r) := by
  obtain ⟨k, v⟩ := r
  cases k
  case popFront => cases d <;> simp [dequeSpec, dequeStepC, dequeStep, DReq.toGOp, dequeApply]
  case popBack =>
    cases h : d.getLast? <;> simp [dequeSpec, dequeStepC, dequeStep, DReq.toGOp, dequeApply, h]
  all_goals simp [dequeSpec, dequeStepC, dequeStep, DReq.toGOp, dequeApply]

theorem getLast?_cons_snoc (x : Int) (xs : List Int) (v : Int) : (x :: (xs ++ [v])).getLast? = some v :=
  List.getLast?_concat (l := x :: xs)

theorem dropLast_cons_snoc (x : Int) (xs : List Int) (v : Int) : (x :: (xs ++ [v])).dropLast = x :: xs :=
  List.dropLast_concat (l₁ := x :: xs)

/-- Every collision of `fc_process` is explained by executing the push and then the pop on the deque the
    combiner found; the deque is as before afterwards. -/
theorem dequeCollide_noop (d : List Int) (p r : DReq) (a b : Resp)
    (h : dequeCollide d.isEmpty p r = some (a, b)) :
    Noop dequeSpec d [(p, a), (r, b)] ∨ Noop dequeSpec d [(r, b), (p, a)] := by
  obtain ⟨pk, pv⟩ := p
  obtain ⟨rk, rv⟩ := r
  cases d with
  | nil =>
    cases rk <;> cases pk <;> simp [dequeCollide] at h <;> obtain ⟨rfl, rfl⟩ := h <;>
      simp [Noop, seqRun, dequeApply_spec, dequeApply]
  | cons x xs =>
    cases rk <;> cases pk <;> simp [dequeCollide] at h <;> obtain ⟨rfl, rfl⟩ := h <;>
      simp [Noop, seqRun, dequeApply_spec, dequeApply, getLast?_cons_snoc, dropLast_cons_snoc]

theorem dequeBatch_one (d : List Int) (rs : List DReq) :
    dequeFinish (dequeProcess d rs).1 rs (dequeProcess d rs).2 = dequeBatch 1 d rs := by
  have h := (elimPass_spec dequePart (dequeCollide d.isEmpty) dequeSpec d
    (fun p r a b _ _ hc => dequeCollide_noop d p r a b hc) (rs.map (fun r => (r, none)))
    ⟨[], Noop.nil _ _, by simp [donePairs_fresh]⟩).1
  have h' : (elimPass dequePart (dequeCollide d.isEmpty) (rs.map (fun r => (r, none)))).map Prod.fst = rs := by
    rw [h]; simp [Function.comp_def]
  simp only [dequeFinish, dequeProcess, dequeBatch, elimPasses]
  conv => lhs; arg 3; arg 1; rw [← h']
  rw [zip_fst_snd]

/-! ## FCQueue (cds/container/fcqueue.h) -/

inductive QKind
  | enq | enqMove | deq | clear
deriving DecidableEq, Repr

structure QReq where
  kind : QKind
  val : Int := 0
deriving DecidableEq, Repr

/-- `FCQueue::fc_apply`.  Head of the list = front of the queue. -/
def queueApply (q : List Int) (r : QReq) : List Int × Resp :=
  match r.kind with
  | .enq => (q ++ [r.val], [1])
  | .enqMove => (q ++ [r.val], [1])
  | .deq =>
    match q with
    | [] => ([], [0])
    | x :: xs => (xs, [1, x])
  | .clear => ([], [])

/-- `FCQueue::fc_process`:  `case op_enq: case op_enq_move: case op_deq: if ( m_Queue.empty() ) { … }` —
    when the queue is not empty NOTHING happens for any kind (not even `itPrev = it`); `op_clear` has no case. -/
def queuePart (empty : Bool) (r : QReq) : Bool :=
  match r.kind with
  | .enq => empty
  | .enqMove => empty
  | .deq => empty
  | .clear => false

/-- `FCQueue::collide( rec1 = *itPrev, rec2 = *it )`: responses for (`rec1`, `rec2`), or `none` for `return false`. -/
def queueCollide (rec1 rec2 : QReq) : Option (Resp × Resp) :=
  match rec1.kind with
  | .enq => if rec2.kind = .deq then some ([1], [1, rec1.val]) else none
  | .enqMove => if rec2.kind = .deq then some ([1], [1, rec1.val]) else none
  | .deq =>
    match rec2.kind with
    | .enq => some ([1, rec2.val], [1])          -- return collide( rec2, rec1 )
    | .enqMove => some ([1, rec2.val], [1])
    | _ => none
  | .clear => none

def queueProcess (q : List Int) (rs : List QReq) : List Int × List (Option Resp) :=
  (q, (elimPass (queuePart q.isEmpty) queueCollide (rs.map (fun r => (r, none)))).map Prod.snd)

def queueCollisions (q : List Int) (rs : List QReq) : List (QReq × QReq) :=
  elimPairs (queuePart q.isEmpty) queueCollide (rs.map (fun r => (r, none)))

def queueFinish (q : List Int) (rs : List QReq) (marks : List (Option Resp)) : List Int × List Resp :=
  applyAll queueApply q (rs.zip marks)

def queueBatch (n : Nat) (q : List Int) (rs : List QReq) : List Int × List Resp :=
  applyAll queueApply q (elimPasses (queuePart q.isEmpty) queueCollide n (rs.map (fun r => (r, none))))

def QReq.toGOp (r : QReq) : GOp :=
  match r.kind with
  | .enq => ⟨"enq", [r.val]⟩
  | .enqMove => ⟨"enq", [r.val]⟩
  | .deq => ⟨"deq", []⟩
  | .clear => ⟨"clear", []⟩

/-- `Spec.fifoStep` extended with `clear`. -/
def fifoStepC (q : List Int) (op : GOp) : Option (List Int × GRet) :=
  match op.name, op.args with
  | "clear", [] => some ([], [])
  | _, _ => fifoStep q op

def queueSpec (q : List Int) (r : QReq) : Option (List Int × Resp) := fifoStepC q r.toGOp

theorem fifoStepC_eq_fifoStep (q : List Int) (r : QReq) (h : r.kind ≠ .clear) :
    fifoStepC q r.toGOp = fifoStep q r.toGOp := by
  obtain ⟨k, v⟩ := r
  cases k <;> first | exact absurd rfl h | rfl

theorem queueApply_spec (q : List Int) (r : QReq) : queueSpec q r = some (queueApply q r) := by
  obtain ⟨k, v⟩ := r
  cases k
  case deq => cases q <;> simp [queueSpec, fifoStepC, fifoStep, QReq.toGOp, queueApply]
  all_goals simp [queueSpec, fifoStepC, fifoStep, QReq.toGOp, queueApply]

theorem queueCollide_noop (q : List Int) (p r : QReq) (a b : Resp)
    (hp : queuePart q.isEmpty p = true) (h : queueCollide p r = some (a, b)) :
    Noop queueSpec q [(p, a), (r, b)] ∨ Noop queueSpec q [(r, b), (p, a)] := by
  obtain ⟨pk, pv⟩ := p
  obtain ⟨rk, rv⟩ := r
  cases q with
  | nil =>
    cases rk <;> cases pk <;> simp [queueCollide] at h <;> obtain ⟨rfl, rfl⟩ := h <;>
      simp [Noop, seqRun, queueApply_spec, queueApply]
  | cons x xs => cases pk <;> simp [queuePart] at hp

theorem queueBatch_one (q : List Int) (rs : List QReq) :
    queueFinish (queueProcess q rs).1 rs (queueProcess q rs).2 = queueBatch 1 q rs := by
  have h := (elimPass_spec (queuePart q.isEmpty) queueCollide queueSpec q
    (fun p r a b hp _ hc => queueCollide_noop q p r a b hp hc) (rs.map (fun r => (r, none)))
    ⟨[], Noop.nil _ _, by simp [donePairs_fresh]⟩).1
  have h' : (elimPass (queuePart q.isEmpty) queueCollide (rs.map (fun r => (r, none)))).map Prod.fst = rs := by
    rw [h]; simp [Function.comp_def]
  simp only [queueFinish, queueProcess, queueBatch, elimPasses]
  conv => lhs; arg 3; arg 1; rw [← h']
  rw [zip_fst_snd]

/-! ## FCStack (cds/container/fcstack.h) -/

inductive SKind
  | push | pushMove | pop | clear | empty
deriving DecidableEq, Repr

structure SReq where
  kind : SKind
  val : Int := 0
deriving DecidableEq, Repr

/-- `FCStack::fc_apply`.  Head of the list = top of the stack.  `op_empty`: `bEmpty = m_Stack.empty()`; the public
    `empty()` returns `bEmpty`. -/
def stackApply (s : List Int) (r : SReq) : List Int × Resp :=
  match r.kind with
  | .push => (r.val :: s, [1])
  | .pushMove => (r.val :: s, [1])
  | .pop =>
    match s with
    | [] => ([], [0])
    | x :: xs => (xs, [1, x])
  | .clear => ([], [])
  | .empty => (s, [if s.isEmpty then 1 else 0])

/-- `FCStack::fc_process`: `case op_push: case op_push_move: case op_pop:` — `op_clear` and `op_empty` have no case. -/
def stackPart (r : SReq) : Bool :=
  match r.kind with
  | .push => true
  | .pushMove => true
  | .pop => true
  | _ => false

/-- `FCStack::collide( rec1 = *itPrev, rec2 = *it )`. -/
def stackCollide (rec1 rec2 : SReq) : Option (Resp × Resp) :=
  match rec1.kind with
  | .push => if rec2.kind = .pop then some ([1], [1, rec1.val]) else none
  | .pushMove => if rec2.kind = .pop then some ([1], [1, rec1.val]) else none
  | .pop =>
    match rec2.kind with
    | .push => some ([1, rec2.val], [1])          -- return collide( rec2, rec1 )
    | .pushMove => some ([1, rec2.val], [1])
    | _ => none
  | _ => none

def stackProcess (s : List Int) (rs : List SReq) : List Int × List (Option Resp) :=
  (s, (elimPass stackPart stackCollide (rs.map (fun r => (r, none)))).map Prod.snd)

def stackCollisions (rs : List SReq) : List (SReq × SReq) :=
  elimPairs stackPart stackCollide (rs.map (fun r => (r, none)))

def stackFinish (s : List Int) (rs : List SReq) (marks : List (Option Resp)) : List Int × List Resp :=
  applyAll stackApply s (rs.zip marks)

def stackBatch (n : Nat) (s : List Int) (rs : List SReq) : List Int × List Resp :=
  applyAll stackApply s (elimPasses stackPart stackCollide n (rs.map (fun r => (r, none))))

def SReq.toGOp (r : SReq) : GOp :=
  match r.kind with
  | .push => ⟨"push", [r.val]⟩
  | .pushMove => ⟨"push", [r.val]⟩
  | .pop => ⟨"pop", []⟩
  | .clear => ⟨"clear", []⟩
  | .empty => ⟨"empty", []⟩

/-- `Spec.lifoStep` extended with `clear` and `empty`. -/
def lifoStepC (s : List Int) (op : GOp) : Option (List Int × GRet) :=
  match op.name, op.args with
  | "clear", [] => some ([], [])
  | "empty", [] => some (s, [if s.isEmpty then 1 else 0])
  | _, _ => lifoStep s op

def stackSpec (s : List Int) (r : SReq) : Option (List Int × Resp) := lifoStepC s r.toGOp

theorem lifoStepC_eq_lifoStep (s : List Int) (r : SReq) (h : r.kind ≠ .clear) (h' : r.kind ≠ .empty) :
    lifoStepC s r.toGOp = lifoStep s r.toGOp := by
  obtain ⟨k, v⟩ := r
  cases k <;> first | exact absurd rfl h | exact absurd rfl h' | rfl

theorem stackApply_spec (s : List Int) (r : SReq) : stackSpec s r = some (stackApply s r) := by
  obtain ⟨k, v⟩ := r
  cases k
  case pop => cases s <;> simp [stackSpec, lifoStepC, lifoStep, SReq.toGOp, stackApply]
  all_goals simp [stackSpec, lifoStepC, lifoStep, SReq.toGOp, stackApply]

theorem stackCollide_noop (s : List Int) (p r : SReq) (a b : Resp)
    (h : stackCollide p r = some (a, b)) :
    Noop stackSpec s [(p, a), (r, b)] ∨ Noop stackSpec s [(r, b), (p, a)] := by
  obtain ⟨pk, pv⟩ := p
  obtain ⟨rk, rv⟩ := r
  cases rk <;> cases pk <;> simp [stackCollide] at h <;> obtain ⟨rfl, rfl⟩ := h <;>
    simp [Noop, seqRun, stackApply_spec, stackApply]

theorem stackBatch_one (s : List Int) (rs : List SReq) :
    stackFinish (stackProcess s rs).1 rs (stackProcess s rs).2 = stackBatch 1 s rs := by
  have h := (elimPass_spec stackPart stackCollide stackSpec s
    (fun p r a b _ _ hc => stackCollide_noop s p r a b hc) (rs.map (fun r => (r, none)))
    ⟨[], Noop.nil _ _, by simp [donePairs_fresh]⟩).1
  have h' : (elimPass stackPart stackCollide (rs.map (fun r => (r, none)))).map Prod.fst = rs := by
    rw [h]; simp [Function.comp_def]
  simp only [stackFinish, stackProcess, stackBatch, elimPasses]
  conv => lhs; arg 3; arg 1; rw [← h']
  rw [zip_fst_snd]

/-! ## FCPriorityQueue (cds/container/fcpriority_queue.h)

  No `fc_process` at all: the class defines only `fc_apply`, every member function calls `combine` (never
  `batch_combine`), and the inherited `flat_combining::container::fc_process` is `assert( false )`.
  The underlying `std::priority_queue<T>` (default `std::less`) is modelled as the list of its items;
  `top()` is a maximal item. -/

inductive PKind
  | push | pushMove | pop | clear
deriving DecidableEq, Repr

structure PReq where
  kind : PKind
  val : Int := 0
deriving DecidableEq, Repr

def pqApply (s : List Int) (r : PReq) : List Int × Resp :=
  match r.kind with
  | .push => (r.val :: s, [1])
  | .pushMove => (r.val :: s, [1])
  | .pop =>
    match s.max? with
    | none => (s, [0])                      -- bEmpty = true
    | some m => (s.erase m, [1, m])         -- *pValPop = top(); pop();
  | .clear => ([], [])

/-- `combining_pass` on a batch: `fc_apply` in list order (there is nothing else). -/
def pqBatch : List Int → List PReq → List Int × List Resp
  | s, [] => (s, [])
  | s, r :: rs =>
    let (s1, a) := pqApply s r
    let (s', out) := pqBatch s1 rs
    (s', a :: out)

def PReq.toGOp (r : PReq) : GOp :=
  match r.kind with
  | .push => ⟨"push", [r.val]⟩
  | .pushMove => ⟨"push", [r.val]⟩
  | .pop => ⟨"pop", []⟩
  | .clear => ⟨"clear", []⟩

/-- `Spec.pqNext 0` (unbounded max-priority queue, result-determined) extended with `clear`. -/
def pqNextC (s : List Int) (op : GOp) (r : GRet) : Option (List Int) :=
  match op.name, op.args, r with
  | "clear", [], [] => some []
  | _, _, _ => pqNext 0 s op r

/-- Legal sequential run of a result-determined specification. -/
def relRun {σ Op : Type} (next : σ → Op → Resp → Option σ) : σ → List (Op × Resp) → Option σ
  | s, [] => some s
  | s, (op, r) :: l =>
    match next s op r with
    | some s' => relRun next s' l
    | none => none

theorem pqApply_spec (s : List Int) (r : PReq) :
    pqNextC s r.toGOp (pqApply s r).2 = some (pqApply s r).1 := by
  obtain ⟨k, v⟩ := r
  cases k
  case pop =>
    cases h : s.max? with
    | none =>
      have : s = [] := by simpa using h
      subst this
      simp [pqNextC, pqNext, PReq.toGOp, pqApply]
    | some m =>
      have hm := List.max?_eq_some_iff.mp h
      have hall : ∀ w ∈ s, prioOf w ≤ prioOf m := by
        intro w hw
        have := hm.2 w hw
        simp only [prioOf]; omega
      simp [pqNextC, pqNext, PReq.toGOp, pqApply, h, hm.1]
      exact hall
  all_goals simp [pqNextC, pqNext, PReq.toGOp, pqApply]

/-! ## From "some permutation explains the responses" to linearizability of the batch

  The theorems below ASSUME that the history records of the batch overlap pairwise (no operation of the batch
  returned before another one was invoked); then any order respects real time. -/

section Linearizable
open CdsVerif.Lin

/-- A permutation of the image of a list is the image of a permutation of the list. -/
theorem perm_lift {α β : Type} (f : α → β) : ∀ (L : List β) (l : List α), L.Perm (l.map f) →
    ∃ l' : List α, l'.Perm l ∧ l'.map f = L
  | [], l, h => by
    have : l.map f = [] := List.Perm.eq_nil h.symm
    have : l = [] := by simpa using this
    subst this; exact ⟨[], List.Perm.refl _, rfl⟩
  | b :: L, l, h => by
    have hb : b ∈ l.map f := h.mem_iff.mp (List.mem_cons_self)
    obtain ⟨a, ha, rfl⟩ := List.mem_map.mp hb
    obtain ⟨s, t, rfl⟩ := List.append_of_mem ha
    have h1 : (f a :: L).Perm (f a :: (s ++ t).map f) := by
      refine h.trans ?_
      simp only [List.map_append, List.map_cons]
      exact List.perm_middle
    obtain ⟨l'', hl'', hm⟩ := perm_lift f L (s ++ t) (List.Perm.cons_inv h1)
    exact ⟨a :: l'', (List.Perm.cons a hl'').trans List.perm_middle.symm, by simp [hm]⟩

theorem pairwise_of_forall_mem {α : Type} {R : α → α → Prop} : ∀ (l : List α), (∀ a ∈ l, ∀ b ∈ l, R a b) → l.Pairwise R
  | [], _ => List.Pairwise.nil
  | x :: l, h => List.Pairwise.cons (fun b hb => h x (by simp) b (by simp [hb]))
      (pairwise_of_forall_mem l (fun a ha b hb => h a (by simp [ha]) b (by simp [hb])))

/-- A sequential run of (request, response) pairs is a legal run of the history records that carry the same
    operations and results. -/
theorem legal_of_seqRun {σ Req : Type} (i : σ) (stepG : σ → GOp → Option (σ × GRet)) (toG : Req → GOp) :
    ∀ (perm : List (Req × Resp)) (s sF : σ) (ops : List (OpRec GOp GRet)),
      seqRun (fun s r => stepG s (toG r)) s perm = some sF →
      ops.map (fun o => (o.op, o.ret)) = perm.map (fun p => (toG p.1, p.2)) →
      Legal (detSpec i stepG) s ops
  | [], _, _, ops, _, ho => by
    have : ops = [] := by simpa using ho
    subst this; trivial
  | (r, a) :: perm, s, sF, ops, hr, ho => by
    cases ops with
    | nil => simp at ho
    | cons o ops =>
      simp only [List.map_cons, List.cons.injEq, Prod.mk.injEq] at ho
      obtain ⟨⟨ho1, ho2⟩, ho3⟩ := ho
      simp only [seqRun] at hr
      cases hst : stepG s (toG r) with
      | none => simp [hst] at hr
      | some p =>
        obtain ⟨s', r'⟩ := p
        simp only [hst] at hr
        by_cases hra : r' = a
        · simp only [hra, if_true] at hr
          refine ⟨s', ?_, legal_of_seqRun i stepG toG perm s' sF ops hr ho3⟩
          simp [detSpec, ho1, ho2, hst, hra]
        · simp [hra] at hr

/-- If the responses of a set of mutually overlapping operations are explained by a sequential run of some
    permutation, the history is linearizable (from the state the run starts in). -/
theorem linearizable_of_perm {σ Req : Type} (i : σ) (stepG : σ → GOp → Option (σ × GRet)) (toG : Req → GOp)
    (s sF : σ) (pairs perm : List (Req × Resp)) (hp : perm.Perm pairs)
    (hrun : seqRun (fun s r => stepG s (toG r)) s perm = some sF)
    (ops : List (OpRec GOp GRet))
    (hops : ops.map (fun o => (o.op, o.ret)) = pairs.map (fun p => (toG p.1, p.2)))
    (hconc : ∀ a ∈ ops, ∀ b ∈ ops, ¬ b.res < a.inv) :
    LinearizableFrom (detSpec i stepG) s ops := by
  have h1 : (perm.map (fun p => (toG p.1, p.2))).Perm (ops.map (fun o => (o.op, o.ret))) := by
    rw [hops]; exact hp.map _
  obtain ⟨ops', hperm, hmap⟩ := perm_lift _ _ _ h1
  refine ⟨ops', hperm, ?_, legal_of_seqRun i stepG toG perm s sF ops' hrun hmap⟩
  exact pairwise_of_forall_mem ops' (fun a ha b hb => hconc a (hperm.mem_iff.mp ha) b (hperm.mem_iff.mp hb))

/-- The same for a result-determined (relational) specification and the identity order. -/
theorem legal_of_relRun {σ Req : Type} (spec : Spec σ GOp GRet) (toG : Req → GOp) :
    ∀ (l : List (Req × Resp)) (s sF : σ) (ops : List (OpRec GOp GRet)),
      relRun (fun s r a => spec.next s (toG r) a) s l = some sF →
      ops.map (fun o => (o.op, o.ret)) = l.map (fun p => (toG p.1, p.2)) →
      Legal spec s ops
  | [], _, _, ops, _, ho => by
    have : ops = [] := by simpa using ho
    subst this; trivial
  | (r, a) :: l, s, sF, ops, hr, ho => by
    cases ops with
    | nil => simp at ho
    | cons o ops =>
      simp only [List.map_cons, List.cons.injEq, Prod.mk.injEq] at ho
      obtain ⟨⟨ho1, ho2⟩, ho3⟩ := ho
      simp only [relRun] at hr
      cases hst : spec.next s (toG r) a with
      | none => simp [hst] at hr
      | some s' =>
        simp only [hst] at hr
        exact ⟨s', by simp [ho1, ho2, hst], legal_of_relRun spec toG l s' sF ops hr ho3⟩

end Linearizable

end CdsVerif.Algo.FC

"""Tie A for user-space RCU: translate the trace of harness/clients/rcu.cpp (run with `--tie 1 --trace 1`) into the
vocabulary of the Lean machine CdsVerif/Algo/RCU/Model.lean (`cdsdriver replay rcu`).

Rules (per CASE block; every line that is not a `T` line is passed through unchanged, the header words
`flavour= nthreads= cap= bufcap=` are written by the client itself):

 R1  thread ids.  `T <h> REC <i>` (a note of the client: the record of harness thread h is the i-th one visited by
     flip_and_wait, i.e. location ctl<i>) defines the renaming h -> i; the notes are dropped and every `T <h> ...` line
     becomes `T <i> ...`.  The main thread (-1: destruction of the singleton in finish()) becomes thread 0.
 R2  operations.   rlock -> `CALL rlock <i>`, runlock -> `CALL runlock <i>`, sync -> `CALL synchronize <i>`,
     destruct -> `CALL destruct <i>`; their RET lines become `RET` (no values).
     read / deref are not RCU operations: CALL, events (loads of cell<k>) and RET are dropped.
     swap c = exchange of a cell, then retire_ptr: CALL and everything up to the client's marker `RETIRE o<id>` is
     dropped, the marker becomes `CALL retire <i> <id>`, the RET becomes `RET`; a swap without marker is dropped.
     Any other operation (swap2 = batch_retire, which the machine does not have) is passed through and diverges.
 R3  values.  ctl<i> holds nest | phase << 31 and is rendered `<phase>:<nest>`; gctl holds 1 | phase << 31 and is
     rendered `<phase>` (left raw, hence diverging, when its low 31 bits are not 1); the argument of `xor gctl`,
     0x80000000, is rendered `1` (raw otherwise); objects `o<id>` are rendered `<id>`.
 R4  dropped events.  `fence` (the machine merges access_lock's fence with the preceding store);
     `ld lock <v>` (cds::sync::spin waits with plain loads between two exchanges: the machine's spin lock is the
     exchange alone);
     the SECOND of two consecutive `pop buf - 0` inside destruct: gc<>::~gc calls Destruct(), which runs
     clear_buffer(max) and then deletes the singleton, whose destructor runs clear_buffer(max) again on the buffer
     that the first call has just found empty (the machine has one clear_buffer in destruct).
 Events on locations outside the machine's vocabulary (thread-list head, thread_id_ of the records) are left in
 place: the driver skips them (`relevant`)."""
import re
import vlib

NEST = 0x7fffffff
_SIMPLE = {"rlock": "rlock", "runlock": "runlock", "sync": "synchronize", "destruct": "destruct"}
_CTL = re.compile(r"^ctl\d+$")


def _obj(s):
    return s[1:] if re.match(r"^o\d+$", s) else s


def _ctl(v):
    if not v.isdigit():
        return v
    n = int(v)
    return "%d:%d" % (n >> 31, n & NEST) if n < (1 << 32) else v


def _gctl(v):
    if not v.isdigit():
        return v
    n = int(v)
    return str(n >> 31) if n < (1 << 32) and (n & NEST) == 1 else v


def _event(w):
    """w = [kind, loc, a, (b)] -> translated list, or None when the event is dropped."""
    kind = w[0]
    if kind == "fence":
        return None
    if len(w) < 3:
        return w
    loc = w[1]
    if loc == "lock" and kind == "ld":
        return None
    if _CTL.match(loc):
        return [kind, loc] + [_ctl(x) for x in w[2:]]
    if loc == "gctl":
        if kind == "xor" and len(w) == 4:
            return [kind, loc, _gctl(w[2]), "1" if w[3] == str(1 << 31) else w[3]]
        return [kind, loc] + [_gctl(x) for x in w[2:]]
    if loc in ("buf", "obj"):
        return [kind, loc, _obj(w[2])] + w[3:]
    return w


def rcu_pre_block(block):
    lines = block.split("\n")
    ren = {"-1": "0"}
    for l in lines:
        w = l.split()
        if len(w) == 4 and w[0] == "T" and w[2] == "REC":
            ren[w[1]] = w[3]
    out = []
    cur = {}          # harness tid -> state of its current client operation: keep | drop | swap (before the marker)
    lastpop = {}      # harness tid -> the previous kept event of its destruct was `pop buf - 0`
    for l in lines:
        w = l.split()
        if len(w) < 3 or w[0] != "T":
            out.append(l)
            continue
        h = w[1]
        t = ren.get(h, h)
        what = w[2]
        if what == "REC":
            continue
        if what == "CALL":
            op = w[3] if len(w) > 3 else "?"
            if op in _SIMPLE:
                cur[h] = "destruct" if op == "destruct" else "keep"
                lastpop[h] = False
                out.append("T %s CALL %s %s" % (t, _SIMPLE[op], t))
            elif op in ("read", "deref"):
                cur[h] = "drop"
            elif op == "swap":
                cur[h] = "swap"
            else:
                cur[h] = "keep"
                out.append("T %s %s" % (t, " ".join(w[2:])))
            continue
        if what == "RETIRE":
            if cur.get(h) == "swap":
                cur[h] = "keep"
                out.append("T %s CALL retire %s %s" % (t, t, _obj(w[3])))
            else:
                out.append("T %s %s" % (t, " ".join(w[2:])))
            continue
        st = cur.get(h, "keep")
        if what == "RET":
            if st in ("keep", "destruct"):
                out.append("T %s RET" % t)
            cur.pop(h, None)
            continue
        if what == "A":
            if st in ("drop", "swap"):
                continue
            ev = _event(w[3:])
            if ev is None:
                continue
            if st == "destruct":
                empty = ev == ["pop", "buf", "-", "0"]
                if empty and lastpop.get(h):
                    lastpop[h] = False
                    continue
                lastpop[h] = empty
            out.append("T %s A %s" % (t, " ".join(ev)))
            continue
        out.append("T %s %s" % (t, " ".join(w[2:])))
    return "\n".join(out)


def rcu_pre(text):
    out = []
    for cid, block in vlib.split_cases(text):
        out.append(rcu_pre_block(block.rstrip("\n")))
    return "\n".join(out) + "\n"


if __name__ == "__main__":
    import sys
    sys.stdout.write(rcu_pre(sys.stdin.read()))

/-
  C19 (the part about IterableList) — "Iterators of IterableList never expose a disposed element while it is the
  current element.  They visit every element present for the whole iteration exactly once and in increasing key
  order.  erase_at(iterator) removes exactly the element the iterator points to, or returns false if that element
  was already removed or replaced."

  Theorems about the atomic-step machine `Algo/Iterable/Model.lean` (cds/intrusive/impl/iterable_list.h: insert /
  update / erase / find / contains, begin / end / operator++ / erase_at( iterator ) / ~iterator, abstract
  reclamation), for EVERY schedule, any number of threads, any keys.  Property theorems only; the model, the
  invariants (`SInv`, `CInv`) and the proofs live in `Algo/Iterable/{Model,Inv,Step,Step2,Step3,Iter,Run,Sorted}.lean`.
  The machine is tied to the real code by trace conformance (`cdsdriver replay iterable`, client
  harness/clients/iter.cpp variant `ilist_hp`, pre-pass tools/iterable_pre.py).

  RESULT.
    A  structure            PROVED except the sortedness clause, which is FALSE of the real algorithm (FINDING, below):
                            `C19_chain`, `C19_chain_append_only`, `C19_element_in_one_node`, `C19_element_never_moves`,
                            `C19_head_tail_empty`, `C19_mark_discipline`, `C19_sorted_keys_not_invariant`;
                            what IS true of sortedness: `C19_sorted_preserved_except_reuse` (every transition except the
                            successful re-use CAS of `link_data` preserves it) and `C19_sorted_reuse_partial` (that CAS
                            preserves it if no node in front of `pPrev` holds a key >= the new key at that instant).
    B  never disposed       PROVED: `C19_iter_never_disposed_current`.
    C  complete / once      PROVED: `C19_iter_complete_once`.
       ordered              PROVED RELATIVE TO SORTEDNESS of the final state: `C19_iter_ordered_partial`; the unconditional
                            statement is false (`C19_iter_order_can_fail`: a sequential iteration yields keys 2, 1).
    D  erase_at exact       PROVED: `C19_erase_at_exact`, `C19_erase_at_false_only`, `C19_retired_once`,
                            `C19_erase_at_stands_on_element`.
    E  non-vacuity          the `example`s at the end.

  FINDING (confirmed on the unchanged real code: harness/probes/iterable_find_prev_race.cpp, two threads, six
  operations).  `link_data` re-validates the re-use of an emptied node with `find_prev()`, a walk from the head that
  is NOT atomic: while the walker stands in front of node `C`, another thread can insert a larger key BEHIND the
  walker (new node after the head, or re-use of an empty node the walker has passed) and then empty `C`, the node
  that would have stopped the walker.  The walk then reaches the inserter's own marked nodes, `find_prev` returns
  `pos.pPrev`, and the new key is stored behind a larger one.  Consequences: the list is not sorted any more;
  `insert(1)` returned true but `contains(1)` is false; a later (even sequential) iteration yields keys 2, 1.
  Hence the clause "keys strictly increasing along the chain at every reachable state" of A and the clause "in
  increasing key order" of C are not theorems of this algorithm.  Stated below: the machine-checked counterexample,
  and the order clause under the hypothesis that the final state is sorted.

  Assumptions of the model (see the header of Model.lean): sequentially consistent interleavings of atomic
  operations; CAS never fails spuriously; element ids are never re-used; `retire` is part of the removing CAS step; a
  scan reads all hazard slots atomically; only the iterator's guard is modelled as a hazard slot.
-/
import CdsVerif.Algo.Iterable.Sorted
namespace CdsVerif.Props.C19Iterable
open CdsVerif.Machine CdsVerif.Spec CdsVerif.Algo

/-! ### A. Structure -/

/-- The node chain from the head is finite: `chain s` (follow `next` from the head, at most `ncnt` steps) starts
    with the head, ends with the tail, consecutive entries are linked by `next`, it is strictly increasing in the
    ghost chain order `lt` (so it has no duplicates) and it consists of exactly the nodes ever linked (`lk`). -/
theorem C19_chain (n : Nat) (s : Iterable.St) (h : Iterable.model.Reachable (Iterable.init n) s) :
    (∃ r, Iterable.chain s = Iterable.hd :: r) ∧ (Iterable.chain s).getLast? = some Iterable.tl ∧
    Iterable.consec s.next (Iterable.chain s) ∧
    (Iterable.chain s).Pairwise (fun x y => s.lt x y = true) ∧ (∀ b, b ∈ Iterable.chain s ↔ s.lk b = true) :=
  Iterable.chain_spec (Iterable.sinv_reachable n s h)

/-- The chain is append-only: a step never unlinks a node and never changes the relative order of the nodes linked
    so far (new nodes are inserted between existing ones: `ltIns`); node ids are never re-used. -/
theorem C19_chain_append_only (n : Nat) (s s' : Iterable.St) (t : Tid) (ev : Ev)
    (h : Iterable.model.Reachable (Iterable.init n) s) (hs : Iterable.step s t = some (s', ev)) :
    (∀ a, s.lk a = true → s'.lk a = true) ∧
    (∀ a b, s.lk a = true → s.lk b = true → s'.lt a b = s.lt a b) ∧ s.ncnt ≤ s'.ncnt :=
  let r := Iterable.step_chain_mono (Iterable.sinv_reachable n s h) hs
  ⟨r.1, r.2.1, r.2.2.1⟩

/-- The ghost order really is the order of the `next` pointers: `next a` is the immediate successor of every linked
    node `a` other than the tail, the tail points to itself, head first, tail last, total, transitive, irreflexive. -/
theorem C19_chain_order (n : Nat) (s : Iterable.St) (h : Iterable.model.Reachable (Iterable.init n) s) :
    Iterable.OrdP s.lk s.lt s.next s.ncnt :=
  (Iterable.sinv_reachable n s h).ord

/-- Each element id is stored in at most one node at a time. -/
theorem C19_element_in_one_node (n : Nat) (s : Iterable.St) (h : Iterable.model.Reachable (Iterable.init n) s)
    (a b e : Nat) (ha : (s.data a).p = some e) (hb : (s.data b).p = some e) : a = b := by
  have hS := Iterable.sinv_reachable n s h
  have h1 := hS.elem.ehome a e ha
  have h2 := hS.elem.ehome b e hb
  rw [h1] at h2; exact Option.some.inj h2

/-- An element never moves between nodes: the node it is stored in is its `home`, and `home` is written once. -/
theorem C19_element_never_moves (n : Nat) (s s' : Iterable.St) (t : Tid) (ev : Ev)
    (h : Iterable.model.Reachable (Iterable.init n) s) (hs : Iterable.step s t = some (s', ev)) :
    (∀ a e, (s.data a).p = some e → s.home e = some a) ∧ (∀ e a, s.home e = some a → s'.home e = some a) :=
  ⟨(Iterable.sinv_reachable n s h).elem.ehome, fun _ _ hh => Iterable.step_home_mono (Iterable.sinv_reachable n s h) hs hh⟩

/-- Head and tail never hold an element; an element stored in a node is not retired; disposed ⊆ retired. -/
theorem C19_head_tail_empty (n : Nat) (s : Iterable.St) (h : Iterable.model.Reachable (Iterable.init n) s) :
    (s.data Iterable.hd).p = none ∧ (s.data Iterable.tl).p = none ∧
    (∀ a e, (s.data a).p = some e → s.retired e = none) ∧ (∀ e, s.disposed e = true → s.retired e ≠ none) :=
  let hS := Iterable.sinv_reachable n s h
  ⟨hS.elem.hdnil, hS.elem.tlnil, hS.elem.live, hS.elem.dret⟩

/-- The marking protocol: a data word is marked only while ONE thread is inside `link_data`, between its marking
    CAS and its restoring store, holding this node as `pos.pCur` (`lpos`) or `pos.pPrev` (`ppos`); meanwhile the
    pointer part of the word is exactly what that thread saw (`pFound` resp. `pPrevVal`), so the thread's restoring
    store (or its `pPrev->data` CAS) puts back / replaces the right value; and while both marks are held after the
    re-check, `pPrev->next == pCur` stays true (`adjOf`). -/
theorem C19_mark_discipline (n : Nat) (s : Iterable.St) (h : Iterable.model.Reachable (Iterable.init n) s) :
    (∀ a, (s.data a).m = true → ∃ t, s.mo a = some t ∧
        ((∃ p, Iterable.lpos (s.pc t) = some p ∧ p.cur = a ∧ s.data a = ⟨p.found, true⟩) ∨
         (∃ p, Iterable.ppos (s.pc t) = some p ∧ p.prev = a ∧ s.data a = ⟨p.pv, true⟩))) ∧
    (∀ t p, Iterable.lpos (s.pc t) = some p → s.mo p.cur = some t ∧ s.data p.cur = ⟨p.found, true⟩) ∧
    (∀ t p, Iterable.ppos (s.pc t) = some p → s.mo p.prev = some t ∧ s.data p.prev = ⟨p.pv, true⟩) ∧
    (∀ t p, Iterable.adjOf (s.pc t) = some p → s.next p.prev = p.cur) := by
  have hS := Iterable.sinv_reachable n s h
  refine ⟨?_, fun t => (hS.thr t).mcur, fun t => (hS.thr t).mprev, fun t => (hS.thr t).adj⟩
  intro a hm
  have hmo := (hS.bit a).1 hm
  cases hmt : s.mo a with
  | none => exact absurd hmt hmo
  | some t =>
    refine ⟨t, rfl, ?_⟩
    rcases hS.own a t hmt with h1 | h1
    · left
      cases hl : Iterable.lpos (s.pc t) with
      | none => rw [hl] at h1; cases h1
      | some p =>
        rw [hl] at h1; simp only [Option.map_some, Option.some.injEq] at h1
        exact ⟨p, rfl, h1, by rw [← h1]; exact ((hS.thr t).mcur p hl).2⟩
    · right
      cases hl : Iterable.ppos (s.pc t) with
      | none => rw [hl] at h1; cases h1
      | some p =>
        rw [hl] at h1; simp only [Option.map_some, Option.some.injEq] at h1
        exact ⟨p, rfl, h1, by rw [← h1]; exact ((hS.thr t).mprev p hl).2⟩

/- SORTEDNESS — full statement, NOT a theorem of this algorithm (`C19_sorted_keys_not_invariant` at the end of the file):
     ∀ reachable s, SortedKeys s      (keys of the stored elements strictly increasing along the chain).
   What is missing: the re-use CAS of `link_data` relies on `find_prev`, whose walk is not atomic.  Proved instead: -/

/-- Every step other than the successful re-use CAS of `link_data` (`pPrev->data: null|1 → pVal`) preserves
    sortedness: the new-node path (both neighbours are marked, their keys bracket the new key), `update` (same key),
    `erase` / `erase_at`, all marking and restoring stores, and every step of the iterators. -/
theorem C19_sorted_preserved_except_reuse (n : Nat) (s s' : Iterable.St) (t : Tid) (ev : Ev)
    (h : Iterable.model.Reachable (Iterable.init n) s) (hsorted : Iterable.SortedKeys s)
    (hs : Iterable.step s t = some (s', ev)) (hnr : ∀ j p, s.pc t ≠ .lReuse j p) : Iterable.SortedKeys s' :=
  Iterable.sorted_step (Iterable.sinv_reachable n s h) hsorted hs hnr

/-- `invoke` and `result` preserve sortedness as well. -/
theorem C19_sorted_preserved_invoke_result (n : Nat) (s s' : Iterable.St) (t : Tid)
    (h : Iterable.model.Reachable (Iterable.init n) s) (hsorted : Iterable.SortedKeys s) :
    (∀ op, Iterable.invoke s t op = some s' → Iterable.SortedKeys s') ∧
    (∀ r, Iterable.result s t = some (s', r) → Iterable.SortedKeys s') :=
  ⟨fun _ hs => Iterable.sorted_invoke (Iterable.sinv_reachable n s h) hsorted hs,
   fun _ hs => Iterable.sorted_result hsorted hs⟩

/-- The re-use CAS preserves sortedness IF at that instant no node in front of `pPrev` holds a key `≥` the new key
    (the right-hand side needs no hypothesis: `pCur` is marked by this thread and holds a larger key, or is the
    tail).  `find_prev` is meant to establish the hypothesis, but walks the list non-atomically. -/
theorem C19_sorted_reuse_partial (n : Nat) (s : Iterable.St) (t : Tid) (j : Iterable.Job) (p : Iterable.Pos)
    (h : Iterable.model.Reachable (Iterable.init n) s) (hsorted : Iterable.SortedKeys s)
    (hpc : s.pc t = .lReuse j p)
    (hfront : ∀ a ea, s.lt a p.prev = true → (s.data a).p = some ea → s.key ea < j.k) :
    Iterable.SortedKeys { s with data := upd s.data p.prev ⟨some j.e, false⟩, mo := upd s.mo p.prev none,
                                 home := upd s.home j.e (some p.prev), pc := upd s.pc t (.lRelCur j p true) } :=
  Iterable.sorted_lReuse (Iterable.sinv_reachable n s h) hsorted hpc hfront

/-! ### B. The current element of an iterator is never disposed -/

/-- In every reachable state, the element an iterator stands on — the value in its hazard slot, once the
    validating re-load of `m_Guard.protect` has succeeded (`hv`) — has not been disposed; while the iterator is at
    rest (not inside `begin()` / `operator++`) this element's node is the iterator's `m_pNode`. -/
theorem C19_iter_never_disposed_current (n : Nat) (s : Iterable.St)
    (h : Iterable.model.Reachable (Iterable.init n) s) (t : Tid) (e : Nat)
    (hhp : s.hp t = some e) (hval : s.hv t = true) :
    s.disposed e = false ∧ (Iterable.moving (s.pc t) = false → s.home e = some (s.itn t)) :=
  let hT := (Iterable.sinv_reachable n s h).thr t
  ⟨hT.safe e hhp hval, hT.atn e hhp hval⟩

/-- Outside the window between the hazard store and the validating load, a non-null hazard slot is validated. -/
theorem C19_guard_validated_at_rest (n : Nat) (s : Iterable.St)
    (h : Iterable.model.Reachable (Iterable.init n) s) (t : Tid) (e : Nat)
    (hhp : s.hp t = some e) (hpc : Iterable.unval (s.pc t) = false) : s.hv t = true :=
  ((Iterable.sinv_reachable n s h).thr t).hvok e hhp hpc

/-! ### C. Complete, exactly once, ordered -/

/-- COMPLETE and EXACTLY ONCE.  Take any run that starts, in a reachable state `s0`, with thread `t` invoking
    `iter_begin`, in which `t` afterwards invokes only iterator operations (`iter_next`, `iter_end`, `erase_at`,
    `iter_release`; the other threads do whatever they like), and at whose end `t` has returned (`idle`) with its
    iterator on the tail node (= `iter_next` / `iter_begin` has reported the end: `C19_iter_end_is_tail`).
    Then every element `e` that is in the list — stored in a linked node — in EVERY state of the run after the
    `iter_begin` step occurs EXACTLY ONCE in the sequence of elements yielded to `t` (`yields`: the `[1, e]` results
    returned to `t` in the run). -/
theorem C19_iter_complete_once (n : Nat) (s0 s1 : Iterable.St) (t : Tid) (sched : List (Tid × Act))
    (os : List (Tid × Obs)) (hreach : Iterable.model.Reachable (Iterable.init n) s0)
    (hrun : Iterable.model.run s0 ((t, .invoke Iterable.beginOp) :: sched) = some (s1, os))
    (honly : Iterable.IterOnly t sched) (hidle : s1.pc t = .idle) (hend : s1.itn t = Iterable.tl)
    (e : Nat)
    (hpres : ∀ sk ∈ Iterable.runStates s0 ((t, .invoke Iterable.beginOp) :: sched), Iterable.inList sk e = true) :
    (Iterable.yields t os).count e = 1 :=
  Iterable.iter_complete_once n s0 s1 t sched os hreach hrun honly hidle hend e hpres

/-- `iter_begin` / `iter_next` report the end only with the iterator on the tail: the step that decides it
    (`itNext` reading `m_pNode->next == m_pNode`) is enabled with that outcome only at the tail. -/
theorem C19_iter_end_is_tail (n : Nat) (s : Iterable.St) (h : Iterable.model.Reachable (Iterable.init n) s)
    (t : Tid) (hn : s.next (s.itn t) = s.itn t) : s.itn t = Iterable.tl := by
  have hS := Iterable.sinv_reachable n s h
  have hl := (hS.thr t).ilk
  cases Nat.decEq (s.itn t) 2 with
  | isTrue e => exact e
  | isFalse e =>
    have := hS.ord.nx _ hl e
    rw [hn, hS.ord.irr] at this; cases this

/-- The end iterator's `next()` never gets stuck (the model has no transition for an end iterator that walks on). -/
theorem C19_endNext_enabled (n : Nat) (s : Iterable.St) (h : Iterable.model.Reachable (Iterable.init n) s) :
    s.next Iterable.tl = Iterable.tl :=
  (Iterable.sinv_reachable n s h).ord.tnx

/- ORDERED — full statement, NOT a theorem of this algorithm (see FINDING and `C19_iter_order_can_fail`):
     under the hypotheses of `C19_iter_complete_once`,
       (yields t os).Pairwise (fun e1 e2 => presentThroughout e1 → presentThroughout e2 → s1.key e1 < s1.key e2).
   What is missing: keys are NOT sorted along the chain in every reachable state (`C19_sorted_keys_not_invariant`).
   Proved instead: the yielded elements that were present throughout appear in CHAIN order, unconditionally; and in
   strictly increasing KEY order if the final state of the run has sorted keys. -/
theorem C19_iter_ordered_partial (n : Nat) (s0 s1 : Iterable.St) (t : Tid) (sched : List (Tid × Act))
    (os : List (Tid × Obs)) (hreach : Iterable.model.Reachable (Iterable.init n) s0)
    (hrun : Iterable.model.run s0 ((t, .invoke Iterable.beginOp) :: sched) = some (s1, os))
    (honly : Iterable.IterOnly t sched) (hidle : s1.pc t = .idle) :
    (Iterable.yields t os).Pairwise (fun e1 e2 =>
      (∀ sk ∈ Iterable.runStates s0 ((t, .invoke Iterable.beginOp) :: sched), Iterable.inList sk e1 = true) →
      (∀ sk ∈ Iterable.runStates s0 ((t, .invoke Iterable.beginOp) :: sched), Iterable.inList sk e2 = true) →
      (∃ a1 a2, s1.home e1 = some a1 ∧ s1.home e2 = some a2 ∧ s1.lt a1 a2 = true) ∧
      (Iterable.SortedKeys s1 → s1.key e1 < s1.key e2)) :=
  Iterable.iter_ordered n s0 s1 t sched os hreach hrun honly hidle

/-! ### D. erase_at( iterator ) -/

/-- While `erase_at` runs, the iterator stands on the element `e` it is going to remove: `e` is the validated
    content of the iterator's guard, its node is the iterator's `m_pNode`, and it is not disposed. -/
theorem C19_erase_at_stands_on_element (n : Nat) (s : Iterable.St)
    (h : Iterable.model.Reachable (Iterable.init n) s) (t : Tid) (e : Nat) (hpc : s.pc t = .eaCas e) :
    s.hp t = some e ∧ s.hv t = true ∧ s.home e = some (s.itn t) ∧ s.disposed e = false :=
  Iterable.eraseAt_stands (Iterable.sinv_reachable n s h) hpc

/-- EXACT.  The CAS step of `erase_at` has one of three outcomes (`EraseAtOutcome`):
    `removed`  the result is `[1]` (true): the node held exactly `e`, unmarked; `e` leaves the abstract content of the
               list and nothing else does (`inList s' x = (inList s x && x ≠ e)`); `e` was not retired and is now
               retired by this thread; no other element's retirement changes;
    `gone`     the result is `[0]` (false): the pointer part of the word differs from `e` — `e` is no longer stored in
               that node, indeed nowhere in the list (it was removed or replaced by another operation); nothing changes;
    `retry`    only the mark bit differs: nothing changes and the same CAS is tried again. -/
theorem C19_erase_at_exact (n : Nat) (s s' : Iterable.St) (t : Tid) (ev : Ev) (e : Nat)
    (h : Iterable.model.Reachable (Iterable.init n) s) (hpc : s.pc t = .eaCas e)
    (hs : Iterable.step s t = some (s', ev)) : Iterable.EraseAtOutcome s s' t e ev :=
  Iterable.eraseAt_step (Iterable.sinv_reachable n s h) hpc hs

/-- `erase_at` never returns false merely because the data word was marked: the only exit with `[0]` is a failed CAS
    whose observed pointer part differs from the iterator's element. -/
theorem C19_erase_at_false_only (n : Nat) (s s' : Iterable.St) (t : Tid) (ev : Ev) (e : Nat)
    (h : Iterable.model.Reachable (Iterable.init n) s) (hpc : s.pc t = .eaCas e)
    (hs : Iterable.step s t = some (s', ev)) (hret : s'.pc t = .done [0]) :
    (s.data (s.itn t)).p ≠ some e ∧ ev.kind = "cas-" :=
  Iterable.eraseAt_false_only (Iterable.sinv_reachable n s h) hpc hs hret

/-- An element is retired at most once, by the thread whose CAS removed it, and stays retired by that thread. -/
theorem C19_retired_once (n : Nat) (s s' : Iterable.St) (t : Tid) (ev : Ev)
    (h : Iterable.model.Reachable (Iterable.init n) s) (hs : Iterable.step s t = some (s', ev))
    (e : Nat) (t0 : Tid) (hr : s.retired e = some t0) : s'.retired e = some t0 :=
  Iterable.step_retired_mono (Iterable.sinv_reachable n s h) hs hr

/-! ### E. Non-vacuity: concrete runs, evaluated by the kernel -/

def stN (t : Tid) (n : Nat) : List (Tid × Act) := List.replicate n (t, .step)
def cl (t : Tid) (name : String) (args : List Int) : List (Tid × Act) := [(t, .invoke ⟨name, args⟩)]
def rt (t : Tid) : List (Tid × Act) := [(t, .ret)]

/-- What the examples look at: the observations from position `drop` on (their rendering as harness trace lines
    is in the comments), the content `(element, key)` along the chain, and the chain. -/
def view (r : Option (Iterable.St × List (Tid × Obs))) (drop : Nat) :
    Option (List (Tid × Obs) × List (Nat × Int) × List Nat) :=
  r.map fun p => (p.2.drop drop, Iterable.content p.1, Iterable.chain p.1)

/-- `h -> n3(empty) -> n4(e5) -> t`: keys 3 and 5 inserted, key 3 erased. -/
def emptiedSched : List (Tid × Act) :=
  cl 1 "insert" [3, 3] ++ stN 1 14 ++ rt 1 ++ cl 1 "insert" [5, 5] ++ stN 1 16 ++ rt 1 ++
  cl 1 "erase" [3] ++ stN 1 5 ++ rt 1

/-- An iteration concurrent with an insert that RE-USES AN EMPTIED NODE in front of the iterator: thread 0 has
    started `begin()` (on the head); thread 1 inserts key 4: `pPrev = n3` is empty, so after marking `n4.data` and
    `n3.data` and `find_prev`, it stores `e4` into `n3`; the iterator then yields `e4` and `e5`. -/
def reuseSched : List (Tid × Act) :=
  emptiedSched ++ cl 0 "iter_begin" [] ++ stN 0 3 ++ cl 1 "insert" [4, 4] ++ stN 1 22 ++ rt 1 ++ stN 0 4 ++ rt 0 ++
  cl 0 "iter_next" [] ++ stN 0 4 ++ rt 0 ++ cl 0 "iter_next" [] ++ stN 0 6 ++ rt 0

example : view (Iterable.model.run (Iterable.init 2) reuseSched) 55 =
    some ([(1, .ev ⟨"cas+", "n4.data", "e5", "e5|1"⟩),         -- T 1 A cas+ n4.data e5 e5|1        link_data: mark pCur
           (1, .ev ⟨"cas+", "n3.data", "null", "null|1"⟩),     -- T 1 A cas+ n3.data null null|1               mark pPrev (empty)
           (1, .ev ⟨"ld", "n3", "n4", ""⟩),                    -- T 1 A ld n3 n4                               pPrev->next == pCur
           (1, .ev ⟨"ld", "h", "n3", ""⟩),                     -- T 1 A ld h n3                                find_prev …
           (1, .ev ⟨"ld", "n3", "n4", ""⟩),                    -- T 1 A ld n3 n4
           (1, .ev ⟨"ld", "n3.data", "null|1", ""⟩),           -- T 1 A ld n3.data null|1
           (1, .ev ⟨"ld", "n3.data", "null|1", ""⟩),           -- T 1 A ld n3.data null|1
           (1, .ev ⟨"ld", "n3", "n4", ""⟩),                    -- T 1 A ld n3 n4
           (1, .ev ⟨"ld", "n4", "t", ""⟩),                     -- T 1 A ld n4 t
           (1, .ev ⟨"ld", "n4.data", "e5|1", ""⟩),             -- T 1 A ld n4.data e5|1
           (1, .ev ⟨"ld", "n4.data", "e5|1", ""⟩),             -- T 1 A ld n4.data e5|1                        … returns n3
           (1, .ev ⟨"cas+", "n3.data", "null|1", "e4"⟩),       -- T 1 A cas+ n3.data null|1 e4      re-use: into the emptied node
           (1, .ev ⟨"st", "n4.data", "e5", ""⟩),               -- T 1 A st n4.data e5                          restore pCur
           (1, .ret [1]),                                      -- T 1 R [1]
           (0, .ev ⟨"ld", "h", "n3", ""⟩),                     -- T 0 A ld h n3
           (0, .ev ⟨"ld", "n3.data", "e4", ""⟩),               -- T 0 A ld n3.data e4
           (0, .ev ⟨"st", "it.hp", "e4", ""⟩),                 -- T 0 A st it.hp e4
           (0, .ev ⟨"ld", "n3.data", "e4", ""⟩),               -- T 0 A ld n3.data e4
           (0, .ret [1, 4]),                                   -- T 0 R [1, 4]
           (0, .call ⟨"iter_next", []⟩),                       -- T 0 C iter_next []
           (0, .ev ⟨"ld", "n3", "n4", ""⟩),                    -- T 0 A ld n3 n4
           (0, .ev ⟨"ld", "n4.data", "e5", ""⟩),               -- T 0 A ld n4.data e5
           (0, .ev ⟨"st", "it.hp", "e5", ""⟩),                 -- T 0 A st it.hp e5
           (0, .ev ⟨"ld", "n4.data", "e5", ""⟩),               -- T 0 A ld n4.data e5
           (0, .ret [1, 5]),                                   -- T 0 R [1, 5]
           (0, .call ⟨"iter_next", []⟩),                       -- T 0 C iter_next []
           (0, .ev ⟨"ld", "n4", "t", ""⟩),                     -- T 0 A ld n4 t
           (0, .ev ⟨"ld", "t.data", "null", ""⟩),              -- T 0 A ld t.data null
           (0, .ev ⟨"st", "it.hp", "null", ""⟩),               -- T 0 A st it.hp null
           (0, .ev ⟨"ld", "t.data", "null", ""⟩),              -- T 0 A ld t.data null
           (0, .ev ⟨"ld", "t", "t", ""⟩),                      -- T 0 A ld t t
           (0, .ev ⟨"st", "it.hp", "null", ""⟩),               -- T 0 A st it.hp null
           (0, .ret [0])],                                     -- T 0 R [0]
          [(4, 4), (5, 5)], [1, 3, 4, 2]) := by decide +kernel

/-- The same insert BEHIND the iterator (which already stands on `e5`): `e4` is not yielded — it was not present
    throughout — and `e5`, which was, is yielded exactly once. -/
def reuseBehindSched : List (Tid × Act) :=
  emptiedSched ++ cl 0 "iter_begin" [] ++ stN 0 11 ++ rt 0 ++ cl 1 "insert" [4, 4] ++ stN 1 22 ++ rt 1 ++
  cl 0 "iter_next" [] ++ stN 0 6 ++ rt 0

example : (Iterable.model.run (Iterable.init 2) reuseBehindSched).map
    (fun r => (Iterable.yields 0 r.2, Iterable.content r.1, r.1.itn 0)) =
    some ([5], [(4, 4), (5, 5)], 2) := by decide +kernel

/-- An iteration concurrent with the NEW-NODE path of `link_data` in front of the iterator's position: the iterator
    stands on `e5` in `n3`; thread 1 inserts key 7 (`pPrev = n3` is not empty: a new node `n4` is constructed and
    linked with `CAS( n3.next, t, n4 )` under both marks); `operator++` then finds `n4` and yields `e7`. -/
def newNodeSched : List (Tid × Act) :=
  cl 1 "insert" [5, 5] ++ stN 1 14 ++ rt 1 ++ cl 0 "iter_begin" [] ++ stN 0 7 ++ rt 0 ++
  cl 1 "insert" [7, 7] ++ stN 1 16 ++ rt 1 ++ cl 0 "iter_next" [] ++ stN 0 4 ++ rt 0 ++
  cl 0 "iter_next" [] ++ stN 0 6 ++ rt 0

example : view (Iterable.model.run (Iterable.init 2) newNodeSched) 33 =
    some ([(1, .ev ⟨"cas+", "t.data", "null", "null|1"⟩),      -- T 1 A cas+ t.data null null|1
           (1, .ev ⟨"cas+", "n3.data", "e5", "e5|1"⟩),         -- T 1 A cas+ n3.data e5 e5|1
           (1, .ev ⟨"ld", "n3", "t", ""⟩),                     -- T 1 A ld n3 t
           (1, .ev ⟨"st", "n4", "null", ""⟩),                  -- T 1 A st n4 null                  node constructor
           (1, .ev ⟨"st", "n4.data", "e7", ""⟩),               -- T 1 A st n4.data e7
           (1, .ev ⟨"st", "n4", "t", ""⟩),                     -- T 1 A st n4 t
           (1, .ev ⟨"cas+", "n3", "t", "n4"⟩),                 -- T 1 A cas+ n3 t n4                link
           (1, .ev ⟨"st", "n3.data", "e5", ""⟩),               -- T 1 A st n3.data e5               restore
           (1, .ev ⟨"st", "t.data", "null", ""⟩),              -- T 1 A st t.data null
           (1, .ret [1]),                                      -- T 1 R [1]
           (0, .call ⟨"iter_next", []⟩),                       -- T 0 C iter_next []
           (0, .ev ⟨"ld", "n3", "n4", ""⟩),                    -- T 0 A ld n3 n4
           (0, .ev ⟨"ld", "n4.data", "e7", ""⟩),               -- T 0 A ld n4.data e7
           (0, .ev ⟨"st", "it.hp", "e7", ""⟩),                 -- T 0 A st it.hp e7
           (0, .ev ⟨"ld", "n4.data", "e7", ""⟩),               -- T 0 A ld n4.data e7
           (0, .ret [1, 7]),                                   -- T 0 R [1, 7]
           (0, .call ⟨"iter_next", []⟩),                       -- T 0 C iter_next []
           (0, .ev ⟨"ld", "n4", "t", ""⟩),                     -- T 0 A ld n4 t
           (0, .ev ⟨"ld", "t.data", "null", ""⟩),              -- T 0 A ld t.data null
           (0, .ev ⟨"st", "it.hp", "null", ""⟩),               -- T 0 A st it.hp null
           (0, .ev ⟨"ld", "t.data", "null", ""⟩),              -- T 0 A ld t.data null
           (0, .ev ⟨"ld", "t", "t", ""⟩),                      -- T 0 A ld t t
           (0, .ev ⟨"st", "it.hp", "null", ""⟩),               -- T 0 A st it.hp null
           (0, .ret [0])],                                     -- T 0 R [0]
          [(5, 5), (7, 7)], [1, 3, 4, 2]) := by decide +kernel

/-- `erase_at` RACING WITH `link_data`'s MARK: the iterator stands on `e5`; thread 1 (insert of key 3, `pCur = n3`)
    has marked `n3.data`; `erase_at`'s CAS fails twice seeing `e5|1` — same pointer, so it retries instead of returning
    false (the behaviour before the fix 6fab2aa) —; thread 1 links its node and restores `n3.data`; the third CAS
    succeeds: result `[1]`, `e5` retired by thread 0 and still guarded by the iterator. -/
def eraseAtMarkSched : List (Tid × Act) :=
  cl 1 "insert" [5, 5] ++ stN 1 14 ++ rt 1 ++ cl 0 "iter_begin" [] ++ stN 0 7 ++ rt 0 ++
  cl 1 "insert" [3, 3] ++ stN 1 6 ++ cl 0 "erase_at" [] ++ stN 0 2 ++ stN 1 12 ++ rt 1 ++ stN 0 1 ++ rt 0

example : view (Iterable.model.run (Iterable.init 2) eraseAtMarkSched) 31 =
    some ([(1, .ev ⟨"cas+", "n3.data", "e5", "e5|1"⟩),         -- T 1 A cas+ n3.data e5 e5|1
           (0, .call ⟨"erase_at", []⟩),                        -- T 0 C erase_at []
           (0, .ev ⟨"cas-", "n3.data", "e5|1", "e5"⟩),         -- T 0 A cas- n3.data e5|1 e5        (seen e5|1, expected e5): retry
           (0, .ev ⟨"cas-", "n3.data", "e5|1", "e5"⟩),         -- T 0 A cas- n3.data e5|1 e5        retry
           (1, .ev ⟨"cas+", "h.data", "null", "null|1"⟩),      -- T 1 A cas+ h.data null null|1
           (1, .ev ⟨"ld", "h", "n3", ""⟩),                     -- T 1 A ld h n3
           (1, .ev ⟨"ld", "h", "n3", ""⟩),                     -- T 1 A ld h n3                     find_prev
           (1, .ev ⟨"ld", "n3", "t", ""⟩),                     -- T 1 A ld n3 t
           (1, .ev ⟨"ld", "n3.data", "e5|1", ""⟩),             -- T 1 A ld n3.data e5|1
           (1, .ev ⟨"ld", "n3.data", "e5|1", ""⟩),             -- T 1 A ld n3.data e5|1
           (1, .ev ⟨"st", "n4", "null", ""⟩),                  -- T 1 A st n4 null
           (1, .ev ⟨"st", "n4.data", "e3", ""⟩),               -- T 1 A st n4.data e3
           (1, .ev ⟨"st", "n4", "n3", ""⟩),                    -- T 1 A st n4 n3
           (1, .ev ⟨"cas+", "h", "n3", "n4"⟩),                 -- T 1 A cas+ h n3 n4
           (1, .ev ⟨"st", "h.data", "null", ""⟩),              -- T 1 A st h.data null
           (1, .ev ⟨"st", "n3.data", "e5", ""⟩),               -- T 1 A st n3.data e5               mark released
           (1, .ret [1]),                                      -- T 1 R [1]
           (0, .ev ⟨"cas+", "n3.data", "e5", "null"⟩),         -- T 0 A cas+ n3.data e5 null
           (0, .ret [1])],                                     -- T 0 R [1]
          [(3, 3)], [1, 4, 3, 2]) := by decide +kernel

example : (Iterable.model.run (Iterable.init 2) eraseAtMarkSched).map
    (fun r => (r.1.retired 5, r.1.hp 0, r.1.hv 0, r.1.disposed 5)) = some (some 0, some 5, true, false) := by
  decide +kernel

/-- `erase_at` AFTER THE ELEMENT WAS REPLACED by `update`: the CAS observes `e6 ≠ e5` and returns `[0]`; `e6` stays. -/
def eraseAtReplacedSched : List (Tid × Act) :=
  cl 1 "insert" [5, 5] ++ stN 1 14 ++ rt 1 ++ cl 0 "iter_begin" [] ++ stN 0 7 ++ rt 0 ++
  cl 1 "update" [5, 6, 1] ++ stN 1 6 ++ rt 1 ++ cl 0 "erase_at" [] ++ stN 0 1 ++ rt 0

example : view (Iterable.model.run (Iterable.init 2) eraseAtReplacedSched) 31 =
    some ([(1, .ev ⟨"cas+", "n3.data", "e5", "e6"⟩),           -- T 1 A cas+ n3.data e5 e6
           (1, .ret [1, 0, 5]),                                -- T 1 R [1, 0, 5]
           (0, .call ⟨"erase_at", []⟩),                        -- T 0 C erase_at []
           (0, .ev ⟨"cas-", "n3.data", "e6", "e5"⟩),           -- T 0 A cas- n3.data e6 e5          (seen e6, expected e5)
           (0, .ret [0])],                                     -- T 0 R [0]
          [(6, 5)], [1, 3, 2]) := by decide +kernel

/-- AN ELEMENT ERASED UNDER THE ITERATOR STAYS CURRENT AND IS NOT DISPOSED until the iterator moves on: thread 1
    erases key 5 while the iterator stands on `e5`; `e5` is retired, but `dispose 5` is NOT enabled … -/
def erasedUnderSched : List (Tid × Act) :=
  cl 1 "insert" [5, 5] ++ stN 1 14 ++ rt 1 ++ cl 0 "iter_begin" [] ++ stN 0 7 ++ rt 0 ++
  cl 1 "erase" [5] ++ stN 1 5 ++ rt 1

set_option synthInstance.maxSize 2000 in
example : (Iterable.model.run (Iterable.init 2) erasedUnderSched).map
    (fun r => (r.1.retired 5, r.1.hp 0, r.1.hv 0, r.1.disposed 5, Iterable.content r.1,
               (Iterable.invoke r.1 1 ⟨"dispose", [5]⟩).isSome)) =
    some (some 1, some 5, true, false, [], false) := by decide +kernel

example : (Iterable.model.run (Iterable.init 2) (erasedUnderSched ++ cl 1 "dispose" [5])).isNone = true := by
  decide +kernel

/-- … and becomes enabled as soon as `operator++` has overwritten the hazard slot (third step of `iter_next`). -/
example : (Iterable.model.run (Iterable.init 2)
      (erasedUnderSched ++ cl 0 "iter_next" [] ++ stN 0 3 ++ cl 1 "dispose" [5] ++ rt 1 ++ stN 0 3 ++ rt 0)).map
    (fun r => (r.2.drop 32, r.1.disposed 5, r.1.hp 0)) =
    some ([(0, .call ⟨"iter_next", []⟩),                       -- T 0 C iter_next []
           (0, .ev ⟨"ld", "n3", "t", ""⟩),                     -- T 0 A ld n3 t
           (0, .ev ⟨"ld", "t.data", "null", ""⟩),              -- T 0 A ld t.data null
           (0, .ev ⟨"st", "it.hp", "null", ""⟩),               -- T 0 A st it.hp null
           (1, .call ⟨"dispose", [5]⟩),                        -- T 1 C dispose [5]
           (1, .ret []),                                       -- T 1 R []
           (0, .ev ⟨"ld", "t.data", "null", ""⟩),              -- T 0 A ld t.data null
           (0, .ev ⟨"ld", "t", "t", ""⟩),                      -- T 0 A ld t t
           (0, .ev ⟨"st", "it.hp", "null", ""⟩),               -- T 0 A st it.hp null
           (0, .ret [0])],                                     -- T 0 R [0]
          true, none) := by decide +kernel

/-! ### The finding: `find_prev` is not atomic -/

/-- The schedule of harness/probes/iterable_find_prev_race.cpp in the machine.
    Nodes `n3`, `n4` are created and emptied.  Thread 0 (`insert 1`) finds `pos = ( n4, t )`, `pPrevVal = null`.
    Thread 1 stores key 4 into `n4`, key 3 into `n3`, erases key 4 (`n4` is null again: ABA).  Thread 0 marks `t.data`
    and `n4.data`, re-checks `n4.next == t`, starts `find_prev` and loads `h.next = n3`.  Thread 1 inserts key 2 — a
    new node `n5` between the head and `n3`, BEHIND the walker — and erases key 3, emptying `n3`.  Thread 0's walk
    continues over the now empty `n3`, its own marked `n4` and the tail, returns `n4 == pos.pPrev`, and stores key 1
    into `n4`:  `h -> n5(key 2) -> n3(empty) -> n4(key 1) -> t`. -/
def raceSched : List (Tid × Act) :=
  cl 1 "insert" [3, 1003] ++ stN 1 14 ++ rt 1 ++ cl 1 "insert" [4, 1004] ++ stN 1 16 ++ rt 1 ++
  cl 1 "erase" [3] ++ stN 1 5 ++ rt 1 ++ cl 1 "erase" [4] ++ stN 1 9 ++ rt 1 ++
  cl 0 "insert" [1, 1] ++ stN 0 11 ++
  cl 1 "insert" [4, 2] ++ stN 1 26 ++ rt 1 ++ cl 1 "insert" [3, 3] ++ stN 1 22 ++ rt 1 ++
  cl 1 "erase" [4] ++ stN 1 9 ++ rt 1 ++
  stN 0 4 ++
  cl 1 "insert" [2, 4] ++ stN 1 18 ++ rt 1 ++ cl 1 "erase" [3] ++ stN 1 9 ++ rt 1 ++
  stN 0 11 ++ rt 0

/-- After the race: `insert 1` has returned `[1]`, the chain holds key 2 BEFORE key 1 … -/
example : view (Iterable.model.run (Iterable.init 2) raceSched) 163 =
    some ([(0, .ev ⟨"ld", "n3.data", "null", ""⟩),             -- T 0 A ld n3.data null             find_prev walks over the emptied n3 …
           (0, .ev ⟨"ld", "n3.data", "null", ""⟩),             -- T 0 A ld n3.data null
           (0, .ev ⟨"ld", "n3", "n4", ""⟩),                    -- T 0 A ld n3 n4
           (0, .ev ⟨"ld", "n4", "t", ""⟩),                     -- T 0 A ld n4 t
           (0, .ev ⟨"ld", "n4.data", "null|1", ""⟩),           -- T 0 A ld n4.data null|1           … its own marked pPrev …
           (0, .ev ⟨"ld", "n4.data", "null|1", ""⟩),           -- T 0 A ld n4.data null|1
           (0, .ev ⟨"ld", "n4", "t", ""⟩),                     -- T 0 A ld n4 t
           (0, .ev ⟨"ld", "t", "t", ""⟩),                      -- T 0 A ld t t                      … and the tail: returns n4 == pos.pPrev
           (0, .ev ⟨"cas+", "n4.data", "null|1", "e1"⟩),       -- T 0 A cas+ n4.data null|1 e1      key 1 stored behind key 2
           (0, .ev ⟨"st", "t.data", "null", ""⟩),              -- T 0 A st t.data null
           (0, .ret [1])],                                     -- T 0 R [1]
          [(4, 2), (1, 1)], [1, 5, 3, 4, 2]) := by decide +kernel

/-- … `contains 1` answers `[0]` although key 1 was inserted and never erased, `contains 2` answers `[1]` … -/
example : (Iterable.model.run (Iterable.init 2)
      (raceSched ++ cl 1 "contains" [1] ++ stN 1 4 ++ rt 1 ++ cl 1 "contains" [2] ++ stN 1 4 ++ rt 1)).map
    (fun r => r.2.drop 174) =
    some [(1, .call ⟨"contains", [1]⟩),                        -- T 1 C contains [1]
          (1, .ev ⟨"ld", "h", "n5", ""⟩),                      -- T 1 A ld h n5
          (1, .ev ⟨"ld", "n5", "n3", ""⟩),                     -- T 1 A ld n5 n3
          (1, .ev ⟨"ld", "n5.data", "e4", ""⟩),                -- T 1 A ld n5.data e4               key 2 >= 1: the search stops here
          (1, .ev ⟨"ld", "n5.data", "e4", ""⟩),                -- T 1 A ld n5.data e4
          (1, .ret [0]),                                       -- T 1 R [0]
          (1, .call ⟨"contains", [2]⟩),                        -- T 1 C contains [2]
          (1, .ev ⟨"ld", "h", "n5", ""⟩),                      -- T 1 A ld h n5
          (1, .ev ⟨"ld", "n5", "n3", ""⟩),                     -- T 1 A ld n5 n3
          (1, .ev ⟨"ld", "n5.data", "e4", ""⟩),                -- T 1 A ld n5.data e4
          (1, .ev ⟨"ld", "n5.data", "e4", ""⟩),                -- T 1 A ld n5.data e4
          (1, .ret [1])] := by decide +kernel                  -- T 1 R [1]

/-- … and a SEQUENTIAL iteration after the race (nothing else runs: both elements are present throughout) yields
    element 4 (key 2) and then element 1 (key 1): the order clause of C19 fails. -/
def raceIterSched : List (Tid × Act) :=
  stN 0 7 ++ rt 0 ++ cl 0 "iter_next" [] ++ stN 0 8 ++ rt 0 ++ cl 0 "iter_next" [] ++ stN 0 6 ++ rt 0

theorem C19_iter_order_can_fail :
    ∃ s0 s1 os, Iterable.model.Reachable (Iterable.init 2) s0 ∧
      Iterable.model.run s0 ((0, .invoke Iterable.beginOp) :: raceIterSched) = some (s1, os) ∧
      Iterable.IterOnly 0 raceIterSched ∧ s1.pc 0 = .idle ∧ s1.itn 0 = Iterable.tl ∧
      Iterable.yields 0 os = [4, 1] ∧ s1.key 4 = 2 ∧ s1.key 1 = 1 ∧
      (∀ e, e = 4 ∨ e = 1 →
        ∀ sk ∈ Iterable.runStates s0 ((0, .invoke Iterable.beginOp) :: raceIterSched), Iterable.inList sk e = true) := by
  have hchk : (match Iterable.model.run (Iterable.init 2) raceSched with
      | some (s0, _) =>
        (match Iterable.model.run s0 ((0, .invoke Iterable.beginOp) :: raceIterSched) with
         | some (s1, os) =>
           decide (s1.pc 0 = .idle) && decide (s1.itn 0 = Iterable.tl) && decide (Iterable.yields 0 os = [4, 1]) &&
           decide (s1.key 4 = 2) && decide (s1.key 1 = 1) &&
           (Iterable.runStates s0 ((0, .invoke Iterable.beginOp) :: raceIterSched)).all
             (fun sk => Iterable.inList sk 4 && Iterable.inList sk 1)
         | none => false)
      | none => false) = true := by decide +kernel
  split at hchk
  next s0 os0 h0 =>
    split at hchk
    next s1 os h1 =>
      simp only [Bool.and_eq_true, decide_eq_true_eq, List.all_eq_true] at hchk
      obtain ⟨⟨⟨⟨⟨a1, a2⟩, a3⟩, a4⟩, a5⟩, a6⟩ := hchk
      refine ⟨s0, s1, os, ⟨raceSched, os0, h0⟩, h1, ?_, a1, a2, a3, a4, a5, ?_⟩
      · intro op hop
        have : op = ⟨"iter_next", []⟩ := by
          simp only [raceIterSched, stN, cl, rt, List.mem_append, List.mem_replicate, List.mem_singleton,
            Prod.mk.injEq, reduceCtorEq, and_false, or_false, false_or, Act.invoke.injEq, true_and] at hop
          rcases hop with h | h <;> exact h
        rw [this]; rfl
      · intro e he sk hsk
        rcases he with rfl | rfl
        · exact (a6 sk hsk).1
        · exact (a6 sk hsk).2
    next => cases hchk
  next => cases hchk

/-- Keys are NOT sorted along the chain in every reachable state: after `raceSched`, node `n5` precedes node `n4`
    in the chain, `n5` holds element 4 (key 2) and `n4` holds element 1 (key 1). -/
theorem C19_sorted_keys_not_invariant :
    ∃ s, Iterable.model.Reachable (Iterable.init 2) s ∧ ¬ Iterable.SortedKeys s := by
  have hchk : (match Iterable.model.run (Iterable.init 2) raceSched with
      | some (s, _) => s.lt 5 4 && decide ((s.data 5).p = some 4) && decide ((s.data 4).p = some 1) &&
          decide (s.key 4 = 2) && decide (s.key 1 = 1)
      | none => false) = true := by decide +kernel
  split at hchk
  next s os h0 =>
    simp only [Bool.and_eq_true, decide_eq_true_eq] at hchk
    obtain ⟨⟨⟨⟨a1, a2⟩, a3⟩, a4⟩, a5⟩ := hchk
    refine ⟨s, ⟨raceSched, os, h0⟩, fun hs => ?_⟩
    have := hs 5 4 4 1 a1 a2 a3
    rw [a4, a5] at this
    exact absurd this (by decide)
  next => cases hchk

end CdsVerif.Props.C19Iterable

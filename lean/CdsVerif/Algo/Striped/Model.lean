/-
  Atomic-step model of `cds::container::StripedSet` / `cds::intrusive::StripedSet` (cds/intrusive/striped_set.h,
  cds/container/striped_set.h) with the two mutex policies of cds/intrusive/striped_set/striping_policy.h:

    * `striping`  : a FIXED array of cell locks (`lock_array< Lock, pow2_select_policy >`, as many locks as the
                    initial table has buckets); `scoped_cell_lock( nHash )` locks cell `nHash & ( nlocks - 1 )`;
                    `scoped_resize_lock` = `scoped_full_lock` locks ALL cells in index order (`lock_all`) and
                    releases them in index order (`unlock_all`).  The bucket table grows, the lock array does not.
    * `refinable` : the lock array is REPLACED by one of the new capacity at every resize.  `m_Owner` holds 0 or
                    `( thread << 1 ) | 1` of the resizing thread; `m_arrLocks` (a shared_ptr, plain data) is read and
                    swapped under the spin lock `m_access`; `m_nCapacity` mirrors the size of the newest array.

        acquire( nHash ):
          while ( true ) {
              while ( true ) { who = m_Owner.load(); if ( !( who & 1 ) || ( who >> 1 ) == me ) break; bkoff(); }     -- aOwn
              { scoped_spinlock sl( m_access ); pLocks = m_arrLocks; }                                          -- aAccL / aAccW / aAccU
              lock = pLocks->at( nHash & ( pLocks->size() - 1 )); lock.lock();                                  -- aLk / aWait
              who = m_Owner.load();                                                                             -- aChk   (THE RE-CHECK)
              if ( ( !( who & 1 ) || ( who >> 1 ) == me ) && m_arrLocks == pLocks ) return lock;
              lock.unlock();                                                                                    -- aRel
          }
        acquire_resize():
          for ( nAttempts = 0; nAttempts < 32; ++nAttempts ) {
              if ( m_Owner.compare_exchange_strong( 0, ( me << 1 ) | 1 )) {                                     -- zCas
                  pOldLocks = m_arrLocks;
                  for ( i = 0; i < pOldLocks->size(); ++i ) {
                      while ( !pOldLocks->at( i ).try_lock()) bkoff();                                          -- zTry
                      pOldLocks->at( i ).unlock();                                                              -- zTryU
                  }
                  return true;
              }
              bkoff();
          }
          return false;
        release_resize(): m_Owner.store( 0 )                                                                    -- zRelO
        resize( nNewCapacity ):  m_nCapacity.store( nNewCapacity );                                             -- zCapSt
                                 pNewArr = new lock_array( nNewCapacity )   ( every spin_lock(): m_spin.store( false )) -- zInit i
                                 { scoped_spinlock sl( m_access ); m_arrLocks.swap( pNewArr ); }                -- zAccL / zAccW / zAccU

    StripedSet (both policies):
        insert( val ) / update( val, f, bAllowInsert ):
            nHash = hashing( val );
            { scoped_cell_lock sl( m_MutexPolicy, nHash );                       -- striping: sLk / sWait; refinable: acquire
              pBucket = bucket( nHash );       m_Buckets + ( nHash & m_nBucketMask.load())                      -- bMask
              bOk = pBucket->insert( val, f ); ONE step: the bucket is a sequential container used under its lock -- bOp
              bResize = bOk && m_ResizingPolicy( ++m_ItemCounter, *this, *pBucket );                            -- bCnt ; bPol
            }                                  the policy reads container.bucket_count() = m_nBucketMask.load() + 1
                                               unlock of the cell                                               -- bUnl
            if ( bResize ) resize();
        erase( key, f ): { scoped_cell_lock; bOk = bucket( nHash )->erase( key, f ); }  if ( bOk ) --m_ItemCounter;   -- … bUnl ; eDec
        find( key, f ) / contains( key ): { scoped_cell_lock; return bucket( nHash )->find( key, f ); }
        resize():
            nOldCapacity = bucket_count();                                                                      -- zOld
            scoped_resize_lock al( m_MutexPolicy );      striping: lock_all (zLk / zWait); refinable: acquire_resize
            if ( al.success()) {
                if ( nOldCapacity != bucket_count()) return;                                                    -- zChk
                internal_resize( nOldCapacity * 2 ):
                    m_MutexPolicy.resize( nNewCapacity );          striping: nothing; refinable: see above
                    nOldCapacity = bucket_count();                                                              -- zCnt
                    alloc_bucket_table( nNewCapacity ): m_nBucketMask.store( nNewCapacity - 1 ); new table      -- zMask
                    for every item of every old bucket: bucket( m_Hash( item ))->move_item( … )                 -- zMove n  (one `ld mask` per item)
                    m_ResizingPolicy.reset();                                                                   -- zMove 0  (pseudo-event `rehash`)
            }                                            striping: unlock_all (zUnl i); refinable: release_resize (zRelO)

  The model is parameterised by `Cfg`: the policy, the initial capacity `2 ^ k0` (the library rounds every requested
  capacity up to a power of two, at least 16), the resizing policy `rational_load_factor_resizing`: resize when
  `size * den > bucket_count * num` (`load_factor_resizing< LF >` is `num = LF, den = 1`), the hash function
  `h : Int → Nat` on keys (ANY function), and `recheck`: `true` is the library; `false` is `acquire` WITHOUT the second
  load of `m_Owner` (the seeded change /verif/seeded/C16-refinable-owner-recheck), kept in the model to show that the
  theorems need the re-check (`Props/C16Striped.lean`, counterexample).

  Granularity.  One `step` = one atomic operation on shared memory (lock words, `m_Owner`, `m_access`, `m_nCapacity`,
  `m_nBucketMask`, the item counter), in source order, including all wait loops, PLUS two kinds of steps that are not
  atomic operations in the code:
    * the bucket operation `pBucket->insert / update / erase / find`: the bucket containers (std::list, std::set, …) are
      sequential code on plain data, executed under the cell lock: ONE internal step (`bOp`), whose effect is
      `Spec.mapStep` on the content of that bucket.  That no other thread touches the bucket meanwhile is not assumed:
      it is the lock-discipline theorem (A) about this very machine;
    * the rehash of `internal_resize`: ONE step IN TOTAL, taken at the store of the new `m_nBucketMask` (`zMask`), which
      is the first instant at which `bucket( nHash )` answers with the new table: every item of the old buckets
      `0 .. nOldCapacity - 1` is moved to bucket `h key % nNewCapacity` of the new table.  The code's locking justifies
      it: the resizing thread holds all cell locks (striping) / is the owner after the sweep (refinable), and
      theorem A shows that no other thread is inside a bucket operation or holds a cell lock then.  The loads of
      `m_nBucketMask` that the code performs for every moved item are modelled one by one afterwards (`zMove n`).
  Plain (non-atomic) shared data other than the buckets: `m_arrLocks` (refinable).  It is written only by the owner
  inside the `m_access` section (`zAccU`); it is read inside the `m_access` section (`aAccU`), by the owner itself
  (`zCas`), and — WITHOUT `m_access` — in the re-check of `acquire`, which the model evaluates in the same step as
  the load of `m_Owner` (`aChk`); theorem A (`gen` clause) shows that while the thread holds the cell lock after a
  successful re-check the array cannot change, so the instant of this plain read does not matter.
  Old lock arrays are never reused (`gen` only grows): reclamation through the shared_ptr is not modelled.
  `compare_exchange_strong` does not fail spuriously; interleavings are sequentially consistent; back-off is not
  modelled (it only yields).  `clear`, `size`, `empty` and the iterators are not modelled.

  Event rendering (the `A` lines of the harness trace; client `striped`, hidden variants `tie_striping` / `tie_refinable`):
      xchg lk<i> <0|1> 1 | ld lk<i> <0|1> | st lk<i> 0                      striping cell lock i
      xchg lk<g>.<i> <0|1> 1 | ld lk<g>.<i> <0|1> | st lk<g>.<i> 0          refinable: cell i of lock array generation g
      ld owner <0|own<t>> | cas+ owner 0 own<t> | cas- owner own<u> 0 | st owner 0
      xchg access <0|1> 1 | ld access <0|1> | st access 0
      st lcap <n>
      ld mask <m> | st mask <m>
      add count <old> 1 | sub count <old> 1
      insert|update|erase|find b<bucket> <key> <outcome>                       pseudo-event of the bucket operation
      rehash tbl <new capacity> <layout>                                       pseudo-event at the end of the rehash
-/
import CdsVerif.Base.Machine
namespace CdsVerif.Algo.Striped
open CdsVerif.Machine CdsVerif.Spec

structure Cfg where
  refinable : Bool
  k0 : Nat                 -- initial capacity = number of cell locks = 2 ^ k0
  num : Nat                -- resize when size * den > bucket_count * num
  den : Nat
  h : Int → Nat            -- the hash function on keys
  recheck : Bool := true   -- refinable::acquire re-reads m_Owner after locking the cell

def Cfg.cap0 (c : Cfg) : Nat := 2 ^ c.k0

inductive PC
  | idle
  -- striping: scoped_cell_lock
  | sLk (op : GOp)                          -- next: m_Locks[ h & ( n - 1 ) ].m_spin.exchange( true )
  | sWait (op : GOp)                        -- next: m_spin.load() in the wait loop
  -- refinable: acquire( nHash )
  | aOwn (op : GOp)                         -- next: who = m_Owner.load()   (wait while another thread resizes)
  | aAccL (op : GOp)                        -- next: m_access.exchange( true )
  | aAccW (op : GOp)                        -- next: m_access.load() in the wait loop
  | aAccU (op : GOp)                        -- inside m_access; next: pLocks = m_arrLocks; m_access.store( false )
  | aLk (op : GOp) (g : Nat)                -- next: pLocks->at( h & ( size - 1 )).m_spin.exchange( true )
  | aWait (op : GOp) (g : Nat)              -- next: m_spin.load() in the wait loop
  | aChk (op : GOp) (g c : Nat)             -- cell locked; next: who = m_Owner.load(); m_arrLocks == pLocks ?
  | aRel (op : GOp) (g c : Nat)             -- re-check failed; next: lock.unlock(); then start again
  -- the operation under the cell lock ( g, c )
  | bMask (op : GOp) (g c : Nat)            -- next: m_nBucketMask.load()  ( bucket( nHash ))
  | bOp (op : GOp) (g c b : Nat)            -- next: the operation on bucket b (pseudo-event)
  | bCnt (r : GRet) (g c : Nat)             -- an item was inserted; next: ++m_ItemCounter
  | bPol (r : GRet) (g c n : Nat)           -- next: m_nBucketMask.load() in the resizing policy; n = new counter value
  | bUnl (r : GRet) (g c : Nat) (rz dec : Bool)   -- next: unlock the cell; then resize() if rz; then --m_ItemCounter if dec
  | eDec (r : GRet)                         -- next: --m_ItemCounter
  -- resize()
  | zOld (r : GRet)                         -- next: nOldCapacity = m_nBucketMask.load() + 1
  | zLk (r : GRet) (old i : Nat)            -- striping lock_all; next: m_Locks[ i ].m_spin.exchange( true )
  | zWait (r : GRet) (old i : Nat)          -- next: m_spin.load() in the wait loop
  | zCas (r : GRet) (old att : Nat)         -- refinable acquire_resize; next: CAS( m_Owner, 0, me )
  | zTry (r : GRet) (old g i : Nat)         -- owner; next: pOldLocks->at( i ).try_lock()
  | zTryU (r : GRet) (old g i : Nat)        -- next: pOldLocks->at( i ).unlock()
  | zChk (r : GRet) (old : Nat)             -- resize lock held; next: m_nBucketMask.load(); changed ⇒ give up
  | zCapSt (r : GRet) (old : Nat)           -- refinable; next: m_nCapacity.store( 2 * old )
  | zInit (r : GRet) (old i : Nat)          -- refinable; next: constructor of lock i of the new array: m_spin.store( false )
  | zAccL (r : GRet) (old : Nat)            -- refinable; next: m_access.exchange( true )
  | zAccW (r : GRet) (old : Nat)            -- next: m_access.load()
  | zAccU (r : GRet) (old : Nat)            -- inside m_access; next: m_arrLocks.swap( pNewArr ); m_access.store( false )
  | zCnt (r : GRet) (old : Nat)             -- next: nOldCapacity = m_nBucketMask.load() + 1  (internal_resize)
  | zMask (r : GRet) (old oc : Nat)         -- next: m_nBucketMask.store( 2 * old - 1 )  + the rehash of buckets 0 .. oc - 1
  | zMove (r : GRet) (n : Nat)              -- n > 0: m_nBucketMask.load() for the next moved item; n = 0: pseudo-event `rehash`
  | zRelO (r : GRet)                        -- refinable; next: m_Owner.store( 0 )
  | zUnl (r : GRet) (i : Nat)               -- striping unlock_all; next: m_Locks[ i ].m_spin.store( false )
  | done (r : GRet)
deriving DecidableEq, Repr

structure St where
  lk : Nat → Nat → Bool              -- lock word of cell i of lock array g  (striping: g = 0)
  gen : Nat                          -- refinable: m_arrLocks (the current lock array)
  asz : Nat → Nat                    -- size of lock array g
  owner : Option Tid                 -- refinable: m_Owner
  access : Bool                      -- refinable: m_access
  lcap : Nat                         -- refinable: m_nCapacity
  mask : Nat                         -- m_nBucketMask
  bkt : Nat → MapSt                  -- the buckets of the current table
  count : Nat                        -- m_ItemCounter
  pc : Tid → PC
  holder : Nat → Nat → Option Tid    -- ghost: who holds cell lock ( g, i )
  accBy : Option Tid                 -- ghost: who holds m_access

def init (cfg : Cfg) : St where
  lk := fun _ _ => false
  gen := 0
  asz := fun g => if g = 0 then cfg.cap0 else 0
  owner := none
  access := false
  lcap := cfg.cap0
  mask := cfg.cap0 - 1
  bkt := fun _ => []
  count := 0
  pc := fun _ => .idle
  holder := fun _ _ => none
  accBy := none

/-! ### Operations -/

/-- The operations of the model: `insert k v`, `update k v allow`, `erase k`, `find k`, `contains k`. -/
def okey (op : GOp) : Option Int :=
  match op.name, op.args with
  | "insert", [k, _] => some k
  | "update", [k, _, _] => some k
  | "erase", [k] => some k
  | "find", [k] => some k
  | "contains", [k] => some k
  | _, _ => none

def keyD (op : GOp) : Int := (okey op).getD 0

/-- `bOk` of insert / `result.first && result.second` of update: an item was added (the counter is incremented and
    the resizing policy consulted). -/
def grew (op : GOp) (r : GRet) : Bool :=
  (op.name == "insert" && r == [1]) || (op.name == "update" && r == [1, 1])

/-- `bOk` of erase: an item was removed (the counter is decremented after the unlock). -/
def shrank (op : GOp) (r : GRet) : Bool :=
  op.name == "erase" && r.head? == some 1

/-- All items of buckets `0 .. oc - 1`. -/
def allItems (oc : Nat) (bkt : Nat → MapSt) : MapSt := (List.range oc).flatMap bkt

/-- Bucket `b` of a table of `newcap` buckets that holds exactly `items`.  The table after `internal_resize` is
    `rehashOf h newcap (allItems oc bkt)`: every item of the old buckets `0 .. oc - 1` sits in bucket `h key % newcap`.
    (The list of all items is an argument so that it is computed once, when the table is built.) -/
def rehashOf (h : Int → Nat) (newcap : Nat) (items : MapSt) (b : Nat) : MapSt :=
  if b < newcap then items.filter (fun e => h e.1 % newcap == b) else []

/-! ### Event rendering (the only place where events are built) -/

def b2s (b : Bool) : String := if b then "1" else "0"
def lkLoc (cfg : Cfg) (g i : Nat) : String := if cfg.refinable then s!"lk{g}.{i}" else s!"lk{i}"
def ownS : Option Tid → String
  | none => "0"
  | some t => s!"own{t}"

def evXchg (loc : String) (old : Bool) : Ev := ⟨"xchg", loc, b2s old, "1"⟩
def evLdB (loc : String) (v : Bool) : Ev := ⟨"ld", loc, b2s v, ""⟩
def evSt0 (loc : String) : Ev := ⟨"st", loc, "0", ""⟩
def evLdN (loc : String) (v : Nat) : Ev := ⟨"ld", loc, toString v, ""⟩
def evStN (loc : String) (v : Nat) : Ev := ⟨"st", loc, toString v, ""⟩
def evLdOwner (o : Option Tid) : Ev := ⟨"ld", "owner", ownS o, ""⟩

/-- what the bucket adapter reports: the operation it was asked for, its bucket, the key, and the outcome as the
    sequential container sees it (`cur` = the entry of the key before the operation) -/
def akind (op : GOp) : String := if op.name == "contains" then "find" else op.name
def outcome (op : GOp) (cur : Option Int) : String :=
  match op.name, op.args, cur with
  | "insert", _, some _ => "0"
  | "insert", _, none => "1"
  | "update", _, some _ => "1:0"
  | "update", [_, _, allow], none => if allow ≠ 0 then "1:1" else "0:0"
  | _, _, some v => s!"1:{v}"
  | _, _, none => "0"
def evBkt (op : GOp) (b : Nat) (cur : Option Int) : Ev := ⟨akind op, s!"b{b}", toString (keyD op), outcome op cur⟩

def insSorted (e : Int × Int) : MapSt → MapSt
  | [] => [e]
  | x :: l => if e.1 ≤ x.1 then e :: x :: l else x :: insSorted e l
def sortK (l : MapSt) : MapSt := l.foldr insSorted []
def renderBucket (l : MapSt) : String := ",".intercalate ((sortK l).map fun e => s!"{e.1}:{e.2}")
/-- the table as the harness dumps it at the end of a rehash: `<bucket>=<key>:<val>,…;…`, empty buckets omitted -/
def layout (cap : Nat) (bkt : Nat → MapSt) : String :=
  let parts := (List.range cap).filterMap fun b => if (bkt b).isEmpty then none else some s!"{b}={renderBucket (bkt b)}"
  if parts.isEmpty then "-" else ";".intercalate parts
def evRehash (cap : Nat) (bkt : Nat → MapSt) : Ev := ⟨"rehash", "tbl", toString cap, layout cap bkt⟩

/-! ### Transitions -/

def invoke (cfg : Cfg) (s : St) (t : Tid) (op : GOp) : Option St :=
  match s.pc t, okey op with
  | .idle, some _ => some { s with pc := upd s.pc t (if cfg.refinable then .aOwn op else .sLk op) }
  | _, _ => none

/-- the thread after the unlock of its cell -/
def afterUnl (r : GRet) (rz dec : Bool) : PC :=
  if rz then .zOld r else if dec then .eDec r else .done r

/-- the thread after giving the resize lock back -/
def afterResize (cfg : Cfg) (r : GRet) : PC := if cfg.refinable then .zRelO r else .zUnl r 0

def step (cfg : Cfg) (s : St) (t : Tid) : Option (St × Ev) :=
  match s.pc t with
  -- striping: lock the cell
  | .sLk op =>
    let c := cfg.h (keyD op) % s.asz 0
    if s.lk 0 c then some ({ s with pc := upd s.pc t (.sWait op) }, evXchg (lkLoc cfg 0 c) true)
    else some ({ s with lk := upd2 s.lk 0 c true, holder := upd2 s.holder 0 c (some t),
                        pc := upd s.pc t (.bMask op 0 c) }, evXchg (lkLoc cfg 0 c) false)
  | .sWait op =>
    let c := cfg.h (keyD op) % s.asz 0
    some ({ s with pc := upd s.pc t (if s.lk 0 c then .sWait op else .sLk op) }, evLdB (lkLoc cfg 0 c) (s.lk 0 c))
  -- refinable: acquire
  | .aOwn op =>
    some ({ s with pc := upd s.pc t (if s.owner = none ∨ s.owner = some t then .aAccL op else .aOwn op) },
          evLdOwner s.owner)
  | .aAccL op =>
    if s.access then some ({ s with pc := upd s.pc t (.aAccW op) }, evXchg "access" true)
    else some ({ s with access := true, accBy := some t, pc := upd s.pc t (.aAccU op) }, evXchg "access" false)
  | .aAccW op =>
    some ({ s with pc := upd s.pc t (if s.access then .aAccW op else .aAccL op) }, evLdB "access" s.access)
  | .aAccU op =>
    some ({ s with access := false, accBy := none, pc := upd s.pc t (.aLk op s.gen) }, evSt0 "access")
  | .aLk op g =>
    let c := cfg.h (keyD op) % s.asz g
    if s.lk g c then some ({ s with pc := upd s.pc t (.aWait op g) }, evXchg (lkLoc cfg g c) true)
    else
      some ({ s with lk := upd2 s.lk g c true, holder := upd2 s.holder g c (some t),
                     pc := upd s.pc t (if cfg.recheck then .aChk op g c
                                       else if s.gen = g then .bMask op g c else .aRel op g c) },
            evXchg (lkLoc cfg g c) false)
  | .aWait op g =>
    let c := cfg.h (keyD op) % s.asz g
    some ({ s with pc := upd s.pc t (if s.lk g c then .aWait op g else .aLk op g) }, evLdB (lkLoc cfg g c) (s.lk g c))
  | .aChk op g c =>
    some ({ s with pc := upd s.pc t (if (s.owner = none ∨ s.owner = some t) ∧ s.gen = g then .bMask op g c
                                     else .aRel op g c) }, evLdOwner s.owner)
  | .aRel op g c =>
    some ({ s with lk := upd2 s.lk g c false, holder := upd2 s.holder g c none, pc := upd s.pc t (.aOwn op) },
          evSt0 (lkLoc cfg g c))
  -- the operation under the cell lock
  | .bMask op g c =>
    some ({ s with pc := upd s.pc t (.bOp op g c (cfg.h (keyD op) % (s.mask + 1))) }, evLdN "mask" s.mask)
  | .bOp op g c b =>
    match mapStep (s.bkt b) op with
    | some (m', r) =>
      some ({ s with bkt := upd s.bkt b m',
                     pc := upd s.pc t (if grew op r then .bCnt r g c else .bUnl r g c false (shrank op r)) },
            evBkt op b (mfind (s.bkt b) (keyD op)))
    | none => none
  | .bCnt r g c =>
    some ({ s with count := s.count + 1, pc := upd s.pc t (.bPol r g c (s.count + 1)) },
          ⟨"add", "count", toString s.count, "1"⟩)
  | .bPol r g c n =>
    some ({ s with pc := upd s.pc t (.bUnl r g c (decide (n * cfg.den > (s.mask + 1) * cfg.num)) false) },
          evLdN "mask" s.mask)
  | .bUnl r g c rz dec =>
    some ({ s with lk := upd2 s.lk g c false, holder := upd2 s.holder g c none,
                   pc := upd s.pc t (afterUnl r rz dec) }, evSt0 (lkLoc cfg g c))
  | .eDec r =>
    some ({ s with count := s.count - 1, pc := upd s.pc t (.done r) }, ⟨"sub", "count", toString s.count, "1"⟩)
  -- resize
  | .zOld r =>
    some ({ s with pc := upd s.pc t (if cfg.refinable then .zCas r (s.mask + 1) 0 else .zLk r (s.mask + 1) 0) },
          evLdN "mask" s.mask)
  | .zLk r old i =>
    if s.lk 0 i then some ({ s with pc := upd s.pc t (.zWait r old i) }, evXchg (lkLoc cfg 0 i) true)
    else some ({ s with lk := upd2 s.lk 0 i true, holder := upd2 s.holder 0 i (some t),
                        pc := upd s.pc t (if i + 1 < s.asz 0 then .zLk r old (i + 1) else .zChk r old) },
               evXchg (lkLoc cfg 0 i) false)
  | .zWait r old i =>
    some ({ s with pc := upd s.pc t (if s.lk 0 i then .zWait r old i else .zLk r old i) }, evLdB (lkLoc cfg 0 i) (s.lk 0 i))
  | .zCas r old att =>
    match s.owner with
    | none =>
      some ({ s with owner := some t, pc := upd s.pc t (.zTry r old s.gen 0) }, ⟨"cas+", "owner", "0", ownS (some t)⟩)
    | some u =>
      some ({ s with pc := upd s.pc t (if att + 1 < 32 then .zCas r old (att + 1) else .done r) },
            ⟨"cas-", "owner", ownS (some u), "0"⟩)
  | .zTry r old g i =>
    if s.lk g i then some (s, evXchg (lkLoc cfg g i) true)
    else some ({ s with lk := upd2 s.lk g i true, holder := upd2 s.holder g i (some t),
                        pc := upd s.pc t (.zTryU r old g i) }, evXchg (lkLoc cfg g i) false)
  | .zTryU r old g i =>
    some ({ s with lk := upd2 s.lk g i false, holder := upd2 s.holder g i none,
                   pc := upd s.pc t (if i + 1 < s.asz g then .zTry r old g (i + 1) else .zChk r old) },
          evSt0 (lkLoc cfg g i))
  | .zChk r old =>
    some ({ s with pc := upd s.pc t (if old = s.mask + 1 then (if cfg.refinable then .zCapSt r old else .zCnt r old)
                                     else afterResize cfg r) }, evLdN "mask" s.mask)
  | .zCapSt r old =>
    some ({ s with lcap := 2 * old, asz := upd s.asz (s.gen + 1) (2 * old), pc := upd s.pc t (.zInit r old 0) },
          evStN "lcap" (2 * old))
  | .zInit r old i =>
    some ({ s with lk := upd2 s.lk (s.gen + 1) i false,
                   pc := upd s.pc t (if i + 1 < 2 * old then .zInit r old (i + 1) else .zAccL r old) },
          evSt0 (lkLoc cfg (s.gen + 1) i))
  | .zAccL r old =>
    if s.access then some ({ s with pc := upd s.pc t (.zAccW r old) }, evXchg "access" true)
    else some ({ s with access := true, accBy := some t, pc := upd s.pc t (.zAccU r old) }, evXchg "access" false)
  | .zAccW r old =>
    some ({ s with pc := upd s.pc t (if s.access then .zAccW r old else .zAccL r old) }, evLdB "access" s.access)
  | .zAccU r old =>
    some ({ s with gen := s.gen + 1, access := false, accBy := none, pc := upd s.pc t (.zCnt r old) }, evSt0 "access")
  | .zCnt r old =>
    some ({ s with pc := upd s.pc t (.zMask r old (s.mask + 1)) }, evLdN "mask" s.mask)
  | .zMask r old oc =>
    let items := allItems oc s.bkt
    some ({ s with mask := 2 * old - 1, bkt := rehashOf cfg.h (2 * old) items,
                   pc := upd s.pc t (.zMove r items.length) }, evStN "mask" (2 * old - 1))
  | .zMove r n =>
    match n with
    | n' + 1 => some ({ s with pc := upd s.pc t (.zMove r n') }, evLdN "mask" s.mask)
    | 0 => some ({ s with pc := upd s.pc t (afterResize cfg r) }, evRehash (s.mask + 1) s.bkt)
  | .zRelO r =>
    some ({ s with owner := none, pc := upd s.pc t (.done r) }, evSt0 "owner")
  | .zUnl r i =>
    some ({ s with lk := upd2 s.lk 0 i false, holder := upd2 s.holder 0 i none,
                   pc := upd s.pc t (if i + 1 < s.asz 0 then .zUnl r (i + 1) else .done r) }, evSt0 (lkLoc cfg 0 i))
  | .idle => none
  | .done _ => none

def result (s : St) (t : Tid) : Option (St × GRet) :=
  match s.pc t with
  | .done r => some ({ s with pc := upd s.pc t .idle }, r)
  | _ => none

def model (cfg : Cfg) : Model St := ⟨invoke cfg, step cfg, fun s t => result s t⟩

/-- The trace lines of a run, as the harness prints them. -/
def render (os : List (Tid × Obs)) : List String :=
  os.map fun (t, o) => match o with
    | .call op => s!"T {t} CALL {op.name} {op.args}"
    | .ev e => s!"T {t} A {e}"
    | .ret r => s!"T {t} RET {r}"

end CdsVerif.Algo.Striped

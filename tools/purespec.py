"""Reference (mathematical) semantics of the pure helpers, used by tie D as the oracle that turns a
broken proof or a model/implementation disagreement into a concrete failing input."""

M32 = (1 << 32) - 1
M64 = (1 << 64) - 1


def rev(x, w):
    return int(bin(x)[2:].zfill(w)[::-1], 2)


def msb(x):      # 1-based index of the highest set bit, 0 for 0
    return x.bit_length()


def lsb(x):
    return (x & -x).bit_length()


def i32(v):      # C int printed as unsigned 32
    return v & M32


def log2floor(n):
    return n.bit_length() - 1 if n else 0


def log2ceil(n):
    i = log2floor(n)
    return i + 1 if (1 << i) < n else i


REF = {
    "swar32": lambda x: [rev(x, 32)], "lookup32": lambda x: [rev(x, 32)], "muldiv32_32": lambda x: [rev(x, 32)],
    "muldiv64_32": lambda x: [rev(x, 32)], "muldiv_op32": lambda x: [rev(x, 32)], "rbo32": lambda x: [rev(x, 32)],
    "swar64": lambda x: [rev(x, 64)], "lookup64": lambda x: [rev(x, 64)], "muldiv32_64": lambda x: [rev(x, 64)],
    "muldiv64_64": lambda x: [rev(x, 64)], "muldiv_op64": lambda x: [rev(x, 64)], "rbo64": lambda x: [rev(x, 64)],
    "muldiv32_byte": lambda b: [rev(b, 8)], "muldiv64_byte": lambda b: [rev(b, 8)],
    "isPow2_32": lambda x: [1 if x and not (x & (x - 1)) else 0], "isPow2_64": lambda x: [1 if x and not (x & (x - 1)) else 0],
    "is_power2": lambda x: [1 if x and not (x & (x - 1)) else 0],
    "msb32": lambda x: [msb(x)], "msb64": lambda x: [msb(x)], "msb32nz": lambda x: [i32(msb(x) - 1)], "msb64nz": lambda x: [i32(msb(x) - 1)],
    "lsb32": lambda x: [lsb(x)], "lsb64": lambda x: [lsb(x)], "lsb32nz": lambda x: [i32(lsb(x) - 1)], "lsb64nz": lambda x: [i32(lsb(x) - 1)],
    "sbc32": lambda x: [bin(x).count("1")], "sbc64": lambda x: [bin(x).count("1")],
    "zbc32": lambda x: [32 - bin(x).count("1")], "zbc64": lambda x: [64 - bin(x).count("1")],
    "complement32": lambda x, b: [(x >> b) & 1, x ^ (1 << b)], "complement64": lambda x, b: [(x >> b) & 1, x ^ (1 << b)],
    "log2floor": lambda n: [log2floor(n)],
    "log2ceil": lambda n: [log2ceil(n)],
    "floor2": lambda n: [1 << log2floor(n)],
    "ceil2": lambda n: [1 << log2ceil(n)] if n <= (1 << 63) else None,      # documented precondition
    "log2": lambda n: [log2floor(n) if n and not (n & (n - 1)) else 0],
}


REF.update({
    "regular_hash_swar": lambda h: [rev(h, 64) | 1], "regular_hash_lookup": lambda h: [rev(h, 64) | 1], "regular_hash_muldiv": lambda h: [rev(h, 64) | 1],
    "dummy_hash_swar": lambda h: [rev(h, 64) & ~1 & M64], "dummy_hash_lookup": lambda h: [rev(h, 64) & ~1 & M64], "dummy_hash_muldiv": lambda h: [rev(h, 64) & ~1 & M64],
    "parent_bucket": lambda b: [b & ~(1 << (b.bit_length() - 1))] if b else None,
    "bucket_no": lambda k, h: [h & ((1 << k) - 1)],
})


def metrics_ref(head, arr, hs):
    hb = hs * 8
    arr = max(arr, 2)
    head = max(head, 4)
    head = min(head, hb)
    if (hb - head) % arr:
        head += (hb - head) % arr
    return [head, (1 << head) & M64, arr, (1 << arr) & M64]


REF["metrics_make"] = metrics_ref


def compare_feldman(inp, impl, model):
    w = inp.split()
    if w[0] == "metrics_make":
        head, arr, hs = int(w[1]), int(w[2]), int(w[3])
        if metrics_ref(head, arr, hs)[0] >= 64:
            return ("@normalised-head-width-64: metrics::make computes size_t(1) << 64 (undefined; on x86 the head array gets 1 slot while 64 bits are cut for its index) "
                    "for head_bits=%d array_bits=%d hash_size=%d" % (head, arr, hs))
        bad = compare_eval(inp, impl, model)
        if bad:
            return bad
        hl, hsz, al, asz = [int(v) for v in impl]
        if al < 2 or hl > 8 * hs or (8 * hs - hl) % al != 0:
            return "normalised layout does not consume the hash bits exactly: head=%d array=%d hash_bits=%d" % (hl, al, 8 * hs)
        return None
    if w[0] == "feldman_insert":
        n = int(w[4])
        ok, found, dup = [int(v) for v in impl]
        if ok != n or found != n or dup != 1:
            return "FeldmanHashSet lost or rejected a hash: %d distinct hashes, %d inserted, %d found, duplicate rejected=%d" % (n, ok, found, dup)
        return None
    return None


def compare_eval(inp, impl, model):
    """impl/model: token lists; model has the ub flag as last token."""
    w = inp.split()
    fn, args = w[0], [int(a) for a in w[1:]]
    if not model or model[0] in ("unknown-fn", "bad-args"):
        return "model cannot evaluate: " + " ".join(model)
    ub = model[-1] == "1"
    ref = REF.get(fn)
    exp = ref(*args) if ref else None
    if exp is not None and [int(v) for v in impl] != exp:
        return "implementation differs from the mathematical definition: expected %s" % exp
    if exp is not None and ub:
        return "undefined behaviour (shift count >= operand width) on an input inside the property's domain"
    if not ub and impl != model[:-1]:
        return "regenerated Lean definition and compiled code disagree"
    return None


# ---------------------------------------------------------------- splitters and counter

def le_value(hexstr):
    b = bytes.fromhex(hexstr)
    return int.from_bytes(b, "little"), len(b) * 8


def compare_scan(inp, impl, model):
    w = inp.split()
    hz = [int(x) for x in w[3:w.index("R")]]
    rt = [int(x) for x in w[w.index("R") + 1:]]
    kept = [int(x) for x in impl[1:impl.index("F")]]
    freed = [int(x) for x in impl[impl.index("F") + 1:]]
    for p in freed:
        if p in hz:
            return "@freed-guarded: scan handed object %d to the disposer while a hazard pointer equals it" % p
    for p in rt:
        if p not in hz and p not in freed:
            return "@kept-unguarded: scan kept object %d although no hazard pointer equals it" % p
    if sorted(kept + freed) != sorted(rt):
        return "@lost-or-duplicated: kept+freed is not the retired array"
    if impl != model:
        return "model and implementation disagree: model " + " ".join(model)
    return None


def compare_seq(inp, impl, model):
    w = inp.split()
    kind = w[0]
    if kind == "scan":
        return compare_scan(inp, impl, model)
    if kind == "counter":
        if impl != model:
            return "model and implementation disagree"
        return counter_oracle(w[1:], impl)
    if kind in ("bs", "bytes"):
        width = int(w[1])
        src, total = le_value(w[2])
        pos = int(w[3])
        ops = w[4:]
    else:
        src, total = int(w[1]), 64
        pos = int(w[2])
        ops = w[3:]
        width = 64
    if len(impl) != len(ops) or len(model) != len(ops):
        return "output length mismatch"
    for op, iv, mv in zip(ops, impl, model):
        safe = op[0] == "s"
        cnt = int(op[1:])
        ip = iv.split("/")
        mp = mv.split("/")
        ub = mp[-1] == "1"
        rest = total - pos
        eff = min(cnt, rest) if safe else cnt
        inside = eff <= rest and eff <= min(width, 63 if kind == "ns" else 32) and (kind != "ns" or cnt < 64)
        if inside:
            exp = (src >> pos) & ((1 << eff) - 1)
            newpos = pos + eff
            got = int(ip[0])
            gotpos = int(ip[1]) * 8 + int(ip[2]) if kind != "ns" else int(ip[1])
            if got != exp or gotpos != newpos:
                return "%s %d at bit %d of %d: expected value %d and position %d, implementation gave %d and %d" % (
                    "safe_cut" if safe else "cut", cnt, pos, total, exp, newpos, got, gotpos)
            if ub:
                return "%s %d at bit %d: undefined behaviour inside the splitter's contract" % ("safe_cut" if safe else "cut", cnt, pos)
        if not ub and ip != mp[:-1]:
            return "model and implementation disagree at op %s: impl %s model %s" % (op, iv, mv)
        if ub and not inside:
            return None        # outside the contract: nothing further to compare on this line
        pos = pos + eff
    return None


def counter_oracle(ops, impl):
    """C26: after n net increments the state is the closed form; dec returns the slot most recently produced
    and restores the previous state."""
    stack = []      # (slot returned by inc, state before it)
    state = ("0", "0", "-1")
    for op, v in zip(ops, impl):
        ret, cnt, revd, hb = v.split("/")
        if op == "i":
            stack.append((ret, state))
            n = int(cnt)
            k = n.bit_length() - 1
            j = n - (1 << k)
            exp_rev = (1 << k) + (int(bin(j)[2:].zfill(k)[::-1], 2) if k else 0)
            if n != len(stack) or int(hb) != k or int(revd) != exp_rev or int(ret) != exp_rev:
                return "after %d increments: expected counter=%d highBit=%d slot=%d, got %s" % (len(stack), len(stack), k, exp_rev, v)
            # slots of a complete prefix are pairwise distinct and lie in [1, 2^(k+1))
            if not (1 <= int(ret) < (1 << (k + 1))):
                return "slot out of range: " + v
        else:
            if not stack:
                return None
            slot, before = stack.pop()
            if ret != slot or (cnt, revd, hb) != before:
                return "dec did not undo the last inc: expected slot %s and state %s, got %s" % (slot, before, v)
        state = (cnt, revd, hb)
    return None


def compare_resize(inp, impl, model):
    """C17 lines are judged by the harness itself against a std::set reference (single-threaded, exact): an `X <class>` token
    in the output is the verdict."""
    if "X" in impl:
        cls = impl[impl.index("X") + 1] if impl.index("X") + 1 < len(impl) else "?"
        import re
        kind = re.sub(r"-after-op-\d+|key-\d+-|at-op-\d+|-\d+", "", cls).strip("-") or cls
        return "@%s: %s: %s" % (kind, inp.split()[0], cls)
    return None

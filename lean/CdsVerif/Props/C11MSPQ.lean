/-
  C11 (MSPriorityQueue part) — "MSPriorityQueue never loses or duplicates an item, push fails only when capacity
  items are present, and every history in which no push overlaps a pop is linearizable to a bounded max-priority
  queue."  PROVED here: lock discipline, conservation of the multiset, push fails only when full, heap order and
  shape at quiescence.  NOT proved: the history-level clause (linearizability of overlap-free histories): only
  `C11_mspq_sequential_linearizable_partial`, a state-level statement; that clause is decided by judged histories.

  Theorems about the atomic-step machine `Algo/MSPQ` of `cds::intrusive::MSPriorityQueue` (one step = one atomic
  operation on a lock word of `cds::sync::spin` followed by the plain code up to the next one), for EVERY schedule,
  any number of threads `nthr`, every capacity `2^k - 1` (`k ≥ 1`), with the closed form `bslot` of the slot function
  of `cds::bitop::bit_reverse_counter` (`bslot_is_the_counter`: it is the value returned by the n-th `inc()`, C26).
  The machine is tied to the real code by trace conformance (`cdsdriver replay mspq`, harness variant `imspq_named`).

  Facts about the counter used by the proofs (`Algo.MSPQ.SlotOK`, proved in `Algo/MSPQ/Slot.lean` from the lemmas
  of `Algo/Counter`): slots are in `1 .. cap`; `bslot` is an involution (so it is its own inverse `rank`);
  `bslot 1 = 1`; a parent is handed out before its children; a left child before its right sibling.

  Only final theorems and examples here; the invariant is in `Algo/MSPQ/{Inv,Effect,Shape,ShapeStep,Cons,G,GStep}`.
-/
import CdsVerif.Algo.MSPQ.Facts
import CdsVerif.Algo.MSPQ.Slot
import CdsVerif.Algo.MSPQ.Run
import CdsVerif.Algo.MSPQ.NoOverlap
namespace CdsVerif.Props.C11MSPQ
open CdsVerif.Machine CdsVerif.Spec CdsVerif.Algo.MSPQ

/-- The real queue with `capacity() = 2^k - 1` used by at most `nthr` threads. -/
abbrev qcfg (k nthr : Nat) : Cfg := cfg (2 ^ k - 1) nthr

/-- `bslot n` is the value returned by the `n`-th `inc()` of the real counter (model of C26). -/
theorem bslot_is_the_counter (n : Nat) (h1 : 1 ≤ n) (hn : n < 2 ^ 64) : bslot n = CdsVerif.Algo.Counter.slot n :=
  bslot_eq_slot n h1 hn

/-- The four-layer invariant holds in every reachable state. -/
theorem mspq_invariant (k nthr : Nat) (hk : 1 ≤ k) (s : St) (h : (model (qcfg k nthr)).Reachable init s) :
    MInv (qcfg k nthr) bslot s :=
  minv_reachable (slotOK_cfg k nthr hk) s h

/-! ## A. Lock discipline -/

/-- **Mutual exclusion** for the size lock (`l = 0`) and every node lock (`l = i`): the locks a thread holds are a
    function of its program counter (`holds`), and two threads never hold the same lock. -/
theorem C11_mspq_mutex (k nthr : Nat) (hk : 1 ≤ k) (s : St) (h : (model (qcfg k nthr)).Reachable init s)
    (l : Nat) (t1 t2 : Tid) (h1 : holds (s.pc t1) l) (h2 : holds (s.pc t2) l) : t1 = t2 := by
  have hl := (mspq_invariant k nthr hk s h).l
  have a := hl.ow2 l t1 h1
  have b := hl.ow2 l t2 h2
  rw [a] at b; injection b

/-- The lock word is set exactly when some thread holds the lock; the ghost owner is that thread. -/
theorem C11_mspq_lock_word (k nthr : Nat) (hk : 1 ≤ k) (s : St) (h : (model (qcfg k nthr)).Reachable init s)
    (l : Nat) : (s.lk l = true ↔ ∃ t, holds (s.pc t) l) ∧ (∀ t, s.own l = some t ↔ holds (s.pc t) l) := by
  have hl := (mspq_invariant k nthr hk s h).l
  refine ⟨⟨?_, ?_⟩, fun t => ⟨hl.ow1 l t, hl.ow2 l t⟩⟩
  · intro hlk
    cases ho : s.own l with
    | none => have := hl.lk1 l ho; rw [hlk] at this; cases this
    | some t => exact ⟨t, hl.ow1 l t ho⟩
  · rintro ⟨t, ht⟩
    cases hlk : s.lk l with
    | true => rfl
    | false => have := hl.lk0 l hlk; rw [hl.ow2 l t ht] at this; cases this

/-- **Writes happen under the lock.**  A step of thread `t` that changes the value or the tag of node `j` ends with
    `t` holding the lock of `j`, and before the step nobody else held it (either `t` held it already, or the step is
    the acquisition).  The item counter changes only in the step in which `t` acquires the size lock.  The program
    counters of the other threads are not touched. -/
theorem C11_mspq_writes_locked (k nthr : Nat) (hk : 1 ≤ k) (s s' : St) (h : (model (qcfg k nthr)).Reachable init s)
    (t : Tid) (ev : Ev) (hs : step (qcfg k nthr) s t = some (s', ev)) :
    (∀ j, s'.tag j ≠ s.tag j ∨ s'.val j ≠ s.val j → s'.own j = some t ∧ (s.own j = some t ∨ s.own j = none)) ∧
    (s'.cnt ≠ s.cnt → s'.own 0 = some t ∧ s.own 0 = none) ∧
    (∀ t', t' ≠ t → s'.pc t' = s.pc t') := by
  have he := step_effect (mspq_invariant k nthr hk s h).l hs
  exact ⟨he.node, he.cnt, he.pcs⟩

/-! ## B. Conservation: no item is lost or duplicated -/

/-- **C11_mspq_conservation.**  In every reachable state the items in the heap array, plus the items that in-flight
    pops have taken out of the array and not yet returned, plus the items already returned by pops, are - as a
    MULTISET - exactly the items stored by pushes (`ins`: appended by the step of `push` that writes `m_pVal`;
    `outs`: appended when `pop` returns a non-null pointer).  No assumption that the values are distinct. -/
theorem C11_mspq_conservation (k nthr : Nat) (hk : 1 ≤ k) (s : St) (h : (model (qcfg k nthr)).Reachable init s) :
    (arrayItems (qcfg k nthr) s ++ heldItems (qcfg k nthr) s ++ s.outs).Perm s.ins :=
  conservation_perm (mspq_invariant k nthr hk s h).co

/-- At quiescence the heap holds exactly pushed minus popped. -/
theorem C11_mspq_conservation_quiescent (k nthr : Nat) (hk : 1 ≤ k) (s : St)
    (h : (model (qcfg k nthr)).Reachable init s) (hq : Quiescent s) :
    (arrayItems (qcfg k nthr) s ++ s.outs).Perm s.ins := by
  have := C11_mspq_conservation k nthr hk s h
  rwa [heldItems_quiescent hq, List.append_nil] at this

/-- If the client pushes distinct values (then `ins` has no duplicates), no item is in two slots, no item is both in
    the array and carried by a pop, and no item is returned twice. -/
theorem C11_mspq_no_duplicates (k nthr : Nat) (hk : 1 ≤ k) (s : St) (h : (model (qcfg k nthr)).Reachable init s)
    (hd : s.ins.Nodup) : (arrayItems (qcfg k nthr) s ++ heldItems (qcfg k nthr) s ++ s.outs).Nodup :=
  (C11_mspq_conservation k nthr hk s h).nodup_iff.mpr hd

/-- A slot a push is about to fill is empty (nothing is overwritten), in every reachable state. -/
theorem C11_mspq_push_slot_empty (k nthr : Nat) (hk : 1 ≤ k) (s : St) (h : (model (qcfg k nthr)).Reachable init s)
    (t : Tid) (v : Int) (i : Nat) (hpc : s.pc t = .pUnlSz v i) : s.val i = none ∧ s.tag i = .empty := by
  have hi := mspq_invariant k nthr hk s h
  have hv := fresh_slot_empty (slotOK_cfg k nthr hk) hi.l hi.sh hpc
  exact ⟨hv, hi.sh.te2 i hv⟩

/-- A pop that has decremented the counter returns an item: the pointer it carries is never null. -/
theorem C11_mspq_pop_returns_item (k nthr : Nat) (hk : 1 ≤ k) (s : St) (h : (model (qcfg k nthr)).Reachable init s)
    (t : Tid) (pv : Option Int) (hpc : s.pc t = .oDone pv) : pv ≠ none := by
  have := ((mspq_invariant k nthr hk s h).sh.loc t).hv
  simpa [hpc, carries, heldOf] using this

/-! ## C. `push` fails only when the heap is full -/

/-- **C11_mspq_push_fails_only_when_full.**  A push that is going to return false (program counter `pFullUnl`: it has
    read the counter and still holds the size lock) holds the size lock, the item counter equals the capacity, and
    every one of the `capacity()` slots holds an item (items still being sifted up included). -/
theorem C11_mspq_push_fails_only_when_full (k nthr : Nat) (hk : 1 ≤ k) (s : St)
    (h : (model (qcfg k nthr)).Reachable init s) (t : Tid) (hpc : s.pc t = .pFullUnl) :
    s.own 0 = some t ∧ s.cnt = 2 ^ k - 1 ∧ ∀ i, 1 ≤ i → i ≤ 2 ^ k - 1 → s.val i ≠ none := by
  have hi := mspq_invariant k nthr hk s h
  have hc := slotOK_cfg k nthr hk
  have ho : s.own 0 = some t := hi.l.ow2 0 t (by simp [hpc, holds])
  have h1 := (hi.sh.loc t).pfull hpc
  have h2 := hi.l.cntle
  have hcnt : s.cnt = 2 ^ k - 1 := Nat.le_antisymm h2 h1
  refine ⟨ho, hcnt, ?_⟩
  intro i hi1 hi2 hnone
  have hte := hi.sh.te2 i hnone
  have := hi.sh.shO i t ho hi1 hi2
  simp only [hpc, pinc, pdec] at this
  have hr : bslot i ≤ 2 ^ k - 1 := (hc.rank_range i hi1 hi2).2
  exact (this.2 (by show bslot i + 0 ≤ s.cnt + 0; omega)) hte

/-- `false` is returned by a push only along that path: the only step into `pFail` starts in `pFullUnl`, and the
    result `[0]` of a push is produced only in `pFail`. -/
theorem C11_mspq_push_false_path (k nthr : Nat) (s s' : St) (t : Tid) (ev : Ev)
    (hs : step (qcfg k nthr) s t = some (s', ev)) (hpc' : s'.pc t = .pFail) : s.pc t = .pFullUnl := by
  cases hpc : s.pc t with
  | pFullUnl => rfl
  | acq k' =>
    rcases step_acq hpc hs with ⟨-, rfl⟩ | ⟨-, ha⟩
    · simp [St.setPc, upd] at hpc'
    · exfalso
      cases k' <;> simp only [after, dCompare] at ha <;> (repeat' split at ha) <;>
        simp at ha <;> subst ha <;> simp [St.setPc, upd] at hpc'
  | spin k' =>
    simp only [step, hpc] at hs; simp at hs; obtain ⟨rfl, -⟩ := hs
    exfalso; simp only [St.setPc, upd, if_true] at hpc'; split at hpc' <;> cases hpc'
  | dUnlLeft par ch pv =>
    simp only [step, hpc, Option.map_eq_some_iff, Prod.mk.injEq] at hs
    obtain ⟨s1, h1, rfl, -⟩ := hs
    exfalso; unfold dCompare at h1; (repeat' split at h1) <;> simp at h1 <;> subst h1 <;> simp [St.setPc, upd] at hpc'
  | dUnlRight par ch pv =>
    simp only [step, hpc, Option.map_eq_some_iff, Prod.mk.injEq] at hs
    obtain ⟨s1, h1, rfl, -⟩ := hs
    exfalso; unfold dCompare at h1; (repeat' split at h1) <;> simp at h1 <;> subst h1 <;> simp [St.setPc, upd] at hpc'
  | oUnlBot b pv =>
    simp only [step, hpc] at hs
    exfalso; split at hs <;> simp at hs <;> obtain ⟨rfl, -⟩ := hs <;> simp [rel, upd, popLoop] at hpc' <;>
      (try split at hpc') <;> simp at hpc'
  | idle => simp [step, hpc] at hs
  | pFail => simp [step, hpc] at hs
  | pOk => simp [step, hpc] at hs
  | oFail => simp [step, hpc] at hs
  | oDone pv => simp [step, hpc] at hs
  | _ =>
    simp only [step, hpc] at hs; simp at hs; obtain ⟨rfl, -⟩ := hs
    exfalso; simp [rel, upd, pushLoop, popLoop] at hpc' <;> (repeat' split at hpc') <;> simp at hpc'

/-- The counter is exact: slot `i` is occupied iff it is one of the first `cnt` slots of the bit-reversed order
    (`bslot i ≤ cnt`; `bslot` is its own inverse), when nobody is inside the size-lock section … -/
theorem C11_mspq_counter_exact (k nthr : Nat) (hk : 1 ≤ k) (s : St) (h : (model (qcfg k nthr)).Reachable init s)
    (ho : s.own 0 = none) (i : Nat) (h1 : 1 ≤ i) (h2 : i ≤ 2 ^ k - 1) : s.val i ≠ none ↔ bslot i ≤ s.cnt := by
  have hi := mspq_invariant k nthr hk s h
  rw [← hi.sh.shN i ho h1 h2]
  exact ⟨fun hv ht => hv (hi.sh.te1 i ht), fun ht hv => ht (hi.sh.te2 i hv)⟩

/-- … and with the correction for the holder `t` of the size lock: `+1` on the left while `t` has incremented the
    counter and not yet stored its item (`pinc`), `+1` on the right while it has decremented the counter and not yet
    removed the bottom item (`pdec`).  So `cnt` = number of occupied slots + pushes inside the section - pops inside it. -/
theorem C11_mspq_counter_exact_locked (k nthr : Nat) (hk : 1 ≤ k) (s : St)
    (h : (model (qcfg k nthr)).Reachable init s) (t : Tid) (ho : s.own 0 = some t) (i : Nat) (h1 : 1 ≤ i)
    (h2 : i ≤ 2 ^ k - 1) : s.val i ≠ none ↔ bslot i + pinc (s.pc t) ≤ s.cnt + pdec (s.pc t) := by
  have hi := mspq_invariant k nthr hk s h
  rw [← hi.sh.shO i t ho h1 h2]
  exact ⟨fun hv ht => hv (hi.sh.te1 i ht), fun ht hv => ht (hi.sh.te2 i hv)⟩

/-- `pop` returns nullptr only when the counter is 0 while it holds the size lock, and then the array is empty. -/
theorem C11_mspq_pop_fails_only_when_empty (k nthr : Nat) (hk : 1 ≤ k) (s : St)
    (h : (model (qcfg k nthr)).Reachable init s) (t : Tid) (hpc : s.pc t = .oEmptyUnl) :
    s.own 0 = some t ∧ s.cnt = 0 ∧ ∀ i, 1 ≤ i → i ≤ 2 ^ k - 1 → s.val i = none := by
  have hi := mspq_invariant k nthr hk s h
  have hc := slotOK_cfg k nthr hk
  have ho : s.own 0 = some t := hi.l.ow2 0 t (by simp [hpc, holds])
  have h0 := (hi.sh.loc t).pempty hpc
  refine ⟨ho, h0, ?_⟩
  intro i hi1 hi2
  apply hi.sh.te1
  apply Classical.byContradiction; intro hne
  have := (hi.sh.shO i t ho hi1 hi2).1 hne
  simp only [hpc, pinc, pdec] at this
  have hr := (hc.rank_range i hi1 hi2).1
  omega

/-! ## No undefined behaviour: comparisons never dereference a null `m_pVal` -/

/-- **C11_mspq_no_null_deref.**  In every reachable state every thread that is inside an operation and not yet at its
    return has a step: the model has no step exactly where the source would dereference a null `m_pVal`. -/
theorem C11_mspq_no_null_deref (k nthr : Nat) (hk : 1 ≤ k) (s : St) (h : (model (qcfg k nthr)).Reachable init s)
    (t : Tid) (hpc : s.pc t ≠ .idle ∧ s.pc t ≠ .pFail ∧ s.pc t ≠ .pOk ∧ s.pc t ≠ .oFail ∧ ∀ pv, s.pc t ≠ .oDone pv) :
    (step (qcfg k nthr) s t).isSome = true := by
  have hi := mspq_invariant k nthr hk s h
  have hne := (hi.sh.loc t).ne
  have hte2 := hi.sh.te2
  have hsome : ∀ j, s.tag j ≠ .empty → ∃ v, s.val j = some v := by
    intro j hj
    cases hv : s.val j with
    | none => exact absurd (hte2 j hv) hj
    | some v => exact ⟨v, rfl⟩
  obtain ⟨h1, h2, h3, h4, h5⟩ := hpc
  cases hp : s.pc t with
  | idle => exact absurd hp h1
  | pFail => exact absurd hp h2
  | pOk => exact absurd hp h3
  | oFail => exact absurd hp h4
  | oDone pv => exact absurd hp (h5 pv)
  | acq k' =>
    simp only [step, hp]
    split
    · rfl
    · cases k' with
      | hItem i =>
        simp only [after, Option.isSome_map]
        split
        · rename_i hc
          obtain ⟨vi, hvi⟩ := hsome i (by rw [hc.2]; simp)
          obtain ⟨vp, hvp⟩ := hsome (i / 2) (by rw [hc.1]; simp)
          simp only [hvi, hvp]; split <;> rfl
        · split
          · rfl
          · split <;> rfl
      | dChild par ch pv =>
        simp only [after, Option.isSome_map]
        split
        · rfl
        · rename_i hc
          split
          · rfl
          · obtain ⟨vc, hvc⟩ := hsome ch hc
            obtain ⟨vp, hvp⟩ := hsome par (hne par (by simp [hp, nonE, kNonE]))
            simp only [dCompare, hvc, hvp]; split <;> rfl
      | dRight par ch pv =>
        simp only [after, Option.isSome_map]
        split
        · rfl
        · rename_i hc
          obtain ⟨vr, hvr⟩ := hsome (ch + 1) hc
          obtain ⟨vl, hvl⟩ := hsome ch (hne ch (by simp [hp, nonE, kNonE]))
          simp only [hvr, hvl]; split <;> rfl
      | pSz v => simp only [after, Option.isSome_map]; split <;> rfl
      | oSz => simp only [after, Option.isSome_map]; split <;> rfl
      | oTop b => simp only [after, Option.isSome_map]; split <;> rfl
      | hRoot => simp only [after, Option.isSome_map]; split <;> rfl
      | _ => simp [after]
  | dUnlLeft par ch pv =>
    obtain ⟨vc, hvc⟩ := hsome (ch + 1) (hne (ch + 1) (by simp [hp, nonE]))
    obtain ⟨vp, hvp⟩ := hsome par (hne par (by simp [hp, nonE]))
    simp only [step, hp, Option.isSome_map, dCompare, rel, hvc, hvp]; split <;> rfl
  | dUnlRight par ch pv =>
    obtain ⟨vc, hvc⟩ := hsome ch (hne ch (by simp [hp, nonE]))
    obtain ⟨vp, hvp⟩ := hsome par (hne par (by simp [hp, nonE]))
    simp only [step, hp, Option.isSome_map, dCompare, rel, hvc, hvp]; split <;> rfl
  | oUnlBot b pv => simp only [step, hp]; split <;> rfl
  | _ => simp [step, hp]

/-! ## D. Heap order -/

/-- **Heap order during concurrent operation.**  In every reachable state: if node `i` is Available (not tagged with
    an owner id, i.e. not an inserted item still on its way up) and neither `i` nor its parent is the node whose item a
    pop is sifting down, then the priority of `i` is at most the priority of its parent.  (The ghost-priority
    invariant behind it is `GOk`: `Algo/MSPQ/G.lean`.) -/
theorem C11_mspq_heap_order (k nthr : Nat) (hk : 1 ≤ k) (s : St) (h : (model (qcfg k nthr)).Reachable init s)
    (i : Nat) (h2 : 2 ≤ i) (hcap : i ≤ 2 ^ k - 1) (hav : s.tag i = .avail) (vi vp : Int) (hvi : s.val i = some vi)
    (hvp : s.val (i / 2) = some vp) (hns : ∀ t, sift (s.pc t) ≠ some i) (hnp : ∀ t, sift (s.pc t) ≠ some (i / 2)) :
    prio vi ≤ prio vp := by
  have hi := mspq_invariant k nthr hk s h
  obtain ⟨g, hg⟩ := hi.go
  exact edge_ordered hi.sh hg i h2 hcap hav vi vp hvi hvp hns hnp

/-- The parent of an occupied slot is occupied (the tree has no holes), in every reachable state. -/
theorem C11_mspq_no_holes (k nthr : Nat) (hk : 1 ≤ k) (s : St) (h : (model (qcfg k nthr)).Reachable init s)
    (i : Nat) (h2 : 2 ≤ i) (hcap : i ≤ 2 ^ k - 1) (hne : s.val i ≠ none) : s.val (i / 2) ≠ none := by
  have hi := mspq_invariant k nthr hk s h
  have := parent_nonempty (slotOK_cfg k nthr hk) hi.sh i h2 hcap (fun ht => hne (hi.sh.te1 i ht))
  exact fun hv => this (hi.sh.te2 _ hv)

/-- **Heap shape at quiescence** (every schedule).  When all threads are idle: no lock is held; the occupied slots are
    exactly the first `cnt` slots of the bit-reversed order; every occupied slot is tagged Available or with an owner
    id; and every edge whose child is Available is ordered.  (That ALL tags are Available is false in general:
    `C11_mspq_stale_tag_witness`; it holds when no push overlaps a pop: `C11_mspq_quiescent_tags_available`.) -/
theorem C11_mspq_quiescent_heap (k nthr : Nat) (hk : 1 ≤ k) (s : St) (h : (model (qcfg k nthr)).Reachable init s)
    (hq : Quiescent s) :
    (∀ l, s.lk l = false) ∧
    (∀ i, 1 ≤ i → i ≤ 2 ^ k - 1 → (s.val i ≠ none ↔ bslot i ≤ s.cnt)) ∧
    (∀ i, s.val i = none ↔ s.tag i = .empty) ∧
    (∀ i vi vp, 2 ≤ i → i ≤ 2 ^ k - 1 → s.tag i = .avail → s.val i = some vi → s.val (i / 2) = some vp →
      prio vi ≤ prio vp) := by
  have hi := mspq_invariant k nthr hk s h
  have hown : ∀ l, s.own l = none := by
    intro l
    cases ho : s.own l with
    | none => rfl
    | some t => have := hi.l.ow1 l t ho; rw [hq t] at this; simp [holds] at this
  refine ⟨fun l => hi.l.lk1 l (hown l), ?_, fun i => ⟨hi.sh.te2 i, hi.sh.te1 i⟩, ?_⟩
  · intro i h1 h2
    exact C11_mspq_counter_exact k nthr hk s h (hown 0) i h1 h2
  · intro i vi vp h2 hcap hav hvi hvp
    exact C11_mspq_heap_order k nthr hk s h i h2 hcap hav vi vp hvi hvp
      (fun t => by rw [hq t]; simp [sift]) (fun t => by rw [hq t]; simp [sift])

/-! ## F. Non-vacuity: concrete runs of the machine (evaluated by the kernel) -/

/-- Capacity 3: pop on the empty heap fails; three pushes by three threads succeed; the fourth push, on the full
    heap, fails; the pops return the items in priority order, the last pop fails. -/
example : rets (qcfg 2 3)
    (whole 0 pop 2 ++ whole 0 (push 2001) 6 ++ whole 1 (push 3002) 10 ++ whole 2 (push 1003) 8 ++
     whole 1 (push 4004) 2 ++ whole 0 pop 10 ++ whole 0 pop 8 ++ whole 0 pop 4 ++ whole 0 pop 2)
    = some [(0, [0]), (0, [1]), (1, [1]), (2, [1]), (1, [0]), (0, [1, 3002]), (0, [1, 2001]), (0, [1, 1003]), (0, [0])] := by
  decide +kernel

/-- A schedule that asks for a disabled action is not a run: `ret` before the operation has finished. -/
example : rets (qcfg 2 3) ([(0, push 2001)] ++ steps 0 5 ++ [(0, .ret)]) = none := by decide +kernel

/-- Capacity 7, two concurrent pushes whose sift-ups interleave step by step (thread 1 inserts 3004 under node 2,
    thread 2 inserts 2005 under node 3; both climb to level 1, thread 1 goes on to the root). -/
def twoPushes : List (Tid × Act) :=
  whole 0 (push 1001) 6 ++ whole 0 (push 1002) 8 ++ whole 0 (push 1003) 8 ++ [(1, push 3004), (2, push 2005)] ++
  [(1, .step), (2, .step), (1, .step), (2, .step), (1, .step), (2, .step), (1, .step), (2, .step), (1, .step), (2, .step),
   (1, .step), (2, .step), (1, .step), (2, .step), (1, .step), (2, .step), (1, .step), (2, .step), (1, .step), (2, .step),
   (1, .step), (2, .step)]

example : pcsAfter (qcfg 3 3) twoPushes = some [.idle, .hUnlPar 2 1, .acq (.hPar 3)] := by decide +kernel

example : heapAfter (qcfg 3 3) (twoPushes ++ steps 1 3 ++ [(1, .ret)] ++ steps 2 4 ++ [(2, .ret)])
    = some [(some 3004, .avail), (some 1001, .avail), (some 2005, .avail), (some 1002, .avail), (none, .empty),
            (some 1003, .avail), (none, .empty)] := by decide +kernel

/-- Capacity 7, a pop moves an item that a push is still sifting.  Thread 1 stores 4504 in slot 4 (tag = own 1) and
    is preempted; thread 0 pushes 1005 (slot 6); thread 2 pops: the bottom item 1005 goes to the root and sifts down
    1 → 2 → 4, which moves 4504 WITH ITS OWNER TAG up to slot 2 … -/
def popMovesPushed : List (Tid × Act) :=
  whole 0 (push 5001) 6 ++ whole 0 (push 4002) 8 ++ whole 0 (push 3003) 8 ++ [(1, push 4504)] ++ steps 1 4 ++
  whole 0 (push 1005) 8 ++ whole 2 pop 14

example : heapAfter (qcfg 3 3) popMovesPushed
    = some [(some 4002, .avail), (some 4504, .own 1), (some 3003, .avail), (some 1005, .avail), (none, .empty),
            (none, .empty), (none, .empty)] := by decide +kernel

/-- … then thread 1 goes on: at slot 4 the tag is not its own (`item.tag != curId`: the item was moved), it follows
    the item to slot 2, finds its tag there, compares with the root and makes the item Available. -/
example : (trace (qcfg 3 3) (popMovesPushed ++ steps 1 8 ++ [(1, .ret)])).map (·.drop 48)
    = some [(1, ⟨"xchg", "lk2", "0", "1"⟩), (1, ⟨"xchg", "lk4", "0", "1"⟩), (1, ⟨"st", "lk4", "0", ""⟩),
            (1, ⟨"st", "lk2", "0", ""⟩), (1, ⟨"xchg", "lk1", "0", "1"⟩), (1, ⟨"xchg", "lk2", "0", "1"⟩),
            (1, ⟨"st", "lk2", "0", ""⟩), (1, ⟨"st", "lk1", "0", ""⟩)] := by decide +kernel

example : heapAfter (qcfg 3 3) (popMovesPushed ++ steps 1 8 ++ [(1, .ret)])
    = some [(some 4002, .avail), (some 4504, .avail), (some 3003, .avail), (some 1005, .avail), (none, .empty),
            (none, .empty), (none, .empty)] := by decide +kernel

/-- A spin lock that is busy: thread 2 asks for the size lock while thread 1 holds it (`xchg szlock 1 1`, then the
    wait loop `ld szlock 1`), as the harness prints it. -/
example : trace (qcfg 2 3) [(1, push 2001), (1, .step), (2, pop), (2, .step), (2, .step), (1, .step), (1, .step), (2, .step), (2, .step)]
    = some [(1, ⟨"xchg", "szlock", "0", "1"⟩), (2, ⟨"xchg", "szlock", "1", "1"⟩), (2, ⟨"ld", "szlock", "1", ""⟩),
            (1, ⟨"xchg", "lk1", "0", "1"⟩), (1, ⟨"st", "szlock", "0", ""⟩), (2, ⟨"ld", "szlock", "0", ""⟩),
            (2, ⟨"xchg", "szlock", "0", "1"⟩)] := by decide +kernel

/-! ## A leaked owner tag: "all tags are Available at quiescence" is FALSE when a push overlaps pops

  Capacity 15.  The heap holds 100001 90002 50003 80004 30005 15006 50007.  Thread 1 stores 20008 in slot 8 (tag =
  own 1) and is preempted before `heapify_after_push`.  Thread 2 pushes 10009 and pops six times: the first two pops
  move 20008, still tagged own 1, from slot 8 to slot 4 to slot 2; the next pops empty slots 7, 5, 6, 4 (so slot 8
  and its parent 4 are Empty) and the last one moves 20008 to the root.  Thread 1 resumes: the parent of slot 8 is
  Empty, `heapify_after_push` takes this for "the item was moved to the top and deleted", and `push` returns true.
  All threads are idle, and the root is still tagged with the id of thread 1.  A later push whose item climbs to a
  child of that node loops for ever in the "no progress" branch, even when it runs completely alone.
  The same run on the real code: harness variant `imspq_stale` (see the final report / DESIGN.md); the real trace is
  replayed by this machine. -/
def staleRun : List (Tid × Act) :=
  whole 0 (push 100001) 6 ++ whole 0 (push 90002) 8 ++ whole 0 (push 50003) 8 ++ whole 0 (push 80004) 8 ++
  whole 0 (push 30005) 8 ++ whole 0 (push 15006) 8 ++ whole 0 (push 50007) 8 ++
  [(1, push 20008)] ++ steps 1 4 ++
  whole 2 (push 10009) 8 ++ whole 2 pop 18 ++ whole 2 pop 16 ++ whole 2 pop 10 ++ whole 2 pop 16 ++ whole 2 pop 12 ++
  whole 2 pop 12 ++
  steps 1 4 ++ [(1, .ret)]

example : rets (qcfg 4 3) staleRun
    = some [(0, [1]), (0, [1]), (0, [1]), (0, [1]), (0, [1]), (0, [1]), (0, [1]), (2, [1]), (2, [1, 100001]),
            (2, [1, 90002]), (2, [1, 80004]), (2, [1, 50007]), (2, [1, 50003]), (2, [1, 30005]), (1, [1])] := by
  decide +kernel

example : pcsAfter (qcfg 4 3) staleRun = some [.idle, .idle, .idle] := by decide +kernel

example : (heapAfter (qcfg 4 3) staleRun).map (·.take 4)
    = some [(some 20008, .own 1), (some 10009, .avail), (some 15006, .avail), (none, .empty)] := by decide +kernel

/-- A push by thread 2, running alone after that, is still in the loop of `heapify_after_push` after 400 steps
    (its item 25010 is in slot 2, tagged own 2, under the root tagged own 1). -/
example : pcsAfter (qcfg 4 3) (staleRun ++ [(2, push 25010)] ++ steps 2 400) = some [.idle, .idle, .acq (.hPar 2)] := by
  decide +kernel

set_option maxRecDepth 100000 in
/-- **The literal claim fails**: there is a reachable quiescent state with a node tagged by an owner id. -/
theorem C11_mspq_stale_tag_witness :
    ∃ s, (model (qcfg 4 3)).Reachable init s ∧ Quiescent s ∧ s.tag 1 = .own 1 := by
  cases hrun : (model (qcfg 4 3)).run init staleRun with
  | none =>
    have : ((model (qcfg 4 3)).run init staleRun).isSome = true := by decide +kernel
    rw [hrun] at this; cases this
  | some r =>
    have hreach : (model (qcfg 4 3)).Reachable init r.1 := ⟨staleRun, r.2, hrun⟩
    refine ⟨r.1, hreach, ?_, ?_⟩
    · intro (t : Nat)
      by_cases ht : t < 3
      · have htc : t = 0 ∨ t = 1 ∨ t = 2 := by omega
        have h3 : pcsAfter (qcfg 4 3) staleRun = some [.idle, .idle, .idle] := by decide +kernel
        simp only [pcsAfter, hrun, Option.map_some, Option.some.injEq] at h3
        have h0 : (List.range 3).map r.1.pc = [r.1.pc 0, r.1.pc 1, r.1.pc 2] := rfl
        have hc : (qcfg 4 3).nthr = 3 := rfl
        rw [hc, h0] at h3
        injection h3 with a h3; injection h3 with b h3; injection h3 with c' h3
        rcases htc with rfl | rfl | rfl <;> assumption
      · apply Classical.byContradiction; intro hne
        exact ht ((mspq_invariant 4 3 (by decide) r.1 hreach).l.thr t hne)
    · have h4 : ((model (qcfg 4 3)).run init staleRun).map (fun r => r.1.tag 1) = some (.own 1) := by decide +kernel
      simpa [hrun] using h4

/-! ## D/E. Runs in which no push overlaps a pop

  `modelNO` is the machine whose clients invoke `push` only while no `pop` is in flight and `pop` only while no
  `push` is in flight (pushes may overlap pushes, pops may overlap pops; every schedule of the steps).  Every such
  run is a run of the unrestricted machine (`C11_mspq_no_overlap_is_a_run`), so A - D above hold of it. -/

theorem C11_mspq_no_overlap_is_a_run (k nthr : Nat) (sched : List (Tid × Act)) (s : St) (os : List (Tid × Obs))
    (h : (modelNO (qcfg k nthr)).run init sched = some (s, os)) :
    (model (qcfg k nthr)).run init sched = some (s, os) :=
  runNO_sub _ sched init s os h

/-- **Owner tags do not leak when no push overlaps a pop**: in every reachable state a node tagged with the id of
    thread `t` is the node at which `t`'s `heapify_after_push` currently is; while a pop is in flight no node carries
    an owner tag. -/
theorem C11_mspq_no_overlap_tags (k nthr : Nat) (hk : 1 ≤ k) (s : St)
    (h : (modelNO (qcfg k nthr)).Reachable init s) :
    (∀ j t, s.tag j = .own t → pushIdx (s.pc t) = some j) ∧
    (∀ t, isPop (s.pc t) = true → ∀ j t', s.tag j ≠ .own t') := by
  have hn := ninv_reachable (slotOK_cfg k nthr hk) s h
  exact ⟨hn.tg.tc, fun t hp j t' => no_own_while_pop hn.tg t hp j t'⟩

/-- **C11_mspq_quiescent_tags_available** (heap shape at quiescence, as the property states it).  At every quiescent
    point of a run in which no push overlaps a pop: all locks are free, the occupied slots are exactly the first `cnt`
    slots of the bit-reversed order, ALL their tags are Available, every non-root occupied slot carries at most the
    priority of its parent, and the root carries a maximal priority. -/
theorem C11_mspq_quiescent_tags_available (k nthr : Nat) (hk : 1 ≤ k) (s : St)
    (h : (modelNO (qcfg k nthr)).Reachable init s) (hq : Quiescent s) :
    (∀ l, s.lk l = false) ∧
    (∀ i, 1 ≤ i → i ≤ 2 ^ k - 1 → (s.val i ≠ none ↔ bslot i ≤ s.cnt)) ∧
    (∀ i, s.val i ≠ none → s.tag i = .avail) ∧
    (∀ i vi vp, 2 ≤ i → i ≤ 2 ^ k - 1 → s.val i = some vi → s.val (i / 2) = some vp → prio vi ≤ prio vp) ∧
    (∀ i vi, 1 ≤ i → i ≤ 2 ^ k - 1 → s.val i = some vi → ∃ v1, s.val 1 = some v1 ∧ prio vi ≤ prio v1) := by
  have hn := ninv_reachable (slotOK_cfg k nthr hk) s h
  obtain ⟨sched, os, hrun⟩ := h
  have hreach : (model (qcfg k nthr)).Reachable init s := ⟨sched, os, runNO_sub _ sched init s os hrun⟩
  obtain ⟨h1, h2, h3, h4⟩ := C11_mspq_quiescent_heap k nthr hk s hreach hq
  have hav : ∀ i, s.val i ≠ none → s.tag i = .avail := by
    intro i hv
    cases ht : s.tag i with
    | empty => exact absurd (hn.m.sh.te1 i ht) hv
    | avail => rfl
    | own t => exact absurd ht (quiescent_tags_available hn.tg hq i t)
  refine ⟨h1, h2, hav, ?_, ?_⟩
  · intro i vi vp hi2 hcap hvi hvp
    exact h4 i vi vp hi2 hcap (hav i (by rw [hvi]; simp)) hvi hvp
  · intro i vi hi1 hcap hvi
    exact root_is_max (slotOK_cfg k nthr hk) hn hq i vi hi1 hcap hvi

/-- **C11_mspq_sequential_linearizable, PARTIAL**: the representation invariant behind the "no push overlaps a pop"
    clause.  At every quiescent point of such a run the array is a max-heap (previous theorem) whose content is, as
    a multiset, exactly the pushed items minus the popped ones.

    NOT proved here (the full statement):

      theorem C11_mspq_sequential_linearizable (sched) (s) (os)
          (h : (modelNO (qcfg k nthr)).run init sched = some (s, os)) (hq : Quiescent s) :
          Linearizable (Spec.maxpq (2 ^ k - 1)) (historyOf os)

    Missing: the history bookkeeping (a ghost log with one entry per operation, appended while the operation holds
    the size lock - `push` when it reads the counter, `pop` when it has locked the root, which is when its return
    value is fixed), the proof that the log is a legal run of `Spec.maxpq` (for `pop`: the value taken from the root
    is maximal among the array items, which follows from `C11_mspq_heap_order` in a state without owner tags,
    `C11_mspq_no_overlap_tags`), and that the order of the log respects real time.  The three facts such a proof rests
    on are theorems of this file: conservation, "push fails only when full" / "pop fails only when empty", and the
    max-heap shape without owner tags.  The verdict on real histories of this kind comes from tie H (the verified
    checker `C11_history_oracle_exact` run on the harness variants `*_pops` / `*_pushes`). -/
theorem C11_mspq_sequential_linearizable_partial (k nthr : Nat) (hk : 1 ≤ k) (s : St)
    (h : (modelNO (qcfg k nthr)).Reachable init s) (hq : Quiescent s) :
    (arrayItems (qcfg k nthr) s ++ s.outs).Perm s.ins ∧
    (∀ i vi, 1 ≤ i → i ≤ 2 ^ k - 1 → s.val i = some vi → ∃ v1, s.val 1 = some v1 ∧ prio vi ≤ prio v1) := by
  obtain ⟨sched, os, hrun⟩ := h
  have hreach : (model (qcfg k nthr)).Reachable init s := ⟨sched, os, runNO_sub _ sched init s os hrun⟩
  exact ⟨C11_mspq_conservation_quiescent k nthr hk s hreach hq,
    (C11_mspq_quiescent_tags_available k nthr hk s ⟨sched, os, hrun⟩ hq).2.2.2.2⟩

/-- The no-overlap machine is not vacuous: the capacity-3 run of section F is a run of it, and the run with the
    leaked tag is NOT (its pops are invoked while the push of thread 1 is in flight). -/
example : ((modelNO (qcfg 2 3)).run init
    (whole 0 pop 2 ++ whole 0 (push 2001) 6 ++ whole 1 (push 3002) 10 ++ whole 2 (push 1003) 8 ++
     whole 1 (push 4004) 2 ++ whole 0 pop 10 ++ whole 0 pop 8 ++ whole 0 pop 4 ++ whole 0 pop 2)).isSome = true := by
  decide +kernel

example : ((modelNO (qcfg 3 3)).run init twoPushes).isSome = true := by decide +kernel

example : ((modelNO (qcfg 4 3)).run init staleRun).isSome = false := by decide +kernel

end CdsVerif.Props.C11MSPQ

/-
  The remaining steps that change no tower word: `increase_height`, the loads of `try_remove_at`, the level counter,
  and `find_fastpath`.
-/
import CdsVerif.Algo.SkipList.StepTrav
namespace CdsVerif.Algo.SkipList
open CdsVerif.Machine CdsVerif.Spec CdsVerif.Lin
open CdsVerif.Algo.Michael (Chain Lt LPok isRO insAfter Has)

theorem listsOk_replicate (c : Cfg) (m : Mem) (L : List Nat) :
    ListsOk c m L (List.replicate c.maxH 0) (List.replicate c.maxH none) := by
  refine ⟨by simp, by simp, ?_, ?_⟩
  · intro i; left
    simp only [List.getD_eq_getElem?_getD, List.getElem?_replicate]
    split <;> rfl
  · intro i x hx
    simp only [List.getD_eq_getElem?_getD, List.getElem?_replicate] at hx
    split at hx <;> simp at hx

theorem tok_nextMark {c : Cfg} {m : Mem} {L : List Nat} {k : Int} {d lvl : Nat} {pp : List Nat} {ps : List (Option Nat)}
    (h : TOk c m L (.eLd k d lvl pp ps)) (hm : m.mark d lvl = true) : TOk c m L (nextMark k d lvl pp ps) := by
  simp only [TOk] at h
  obtain ⟨h1, h2, h3, h4, h5, h6⟩ := h
  unfold nextMark
  split <;> simp only [TOk]
  · refine ⟨h1, h2, h3, by omega, by omega, ?_⟩
    intro l hl1 hl2
    by_cases e : l = lvl
    · rw [e]; exact hm
    · exact h6 l (by omega) hl2
  · refine ⟨h1, h2, h3, ?_⟩
    intro l hl1 hl2
    by_cases e : l = lvl
    · rw [e]; exact hm
    · exact h6 l (by omega) hl2

theorem eff_erasing {mk : Nat → Bool} {key val : Nat → Int} {H : Int → Int → Prop} {pc pc' : PC} {k : Int} {d : Nat}
    (h1 : opOf key val pc = some ⟨"erase", [k]⟩) (h1' : opOf key val pc' = some ⟨"erase", [k]⟩)
    (h2 : lpRet mk key val pc = if mk d = true then some [0] else none)
    (h2' : lpRet mk key val pc' = if mk d = true then some [0] else none)
    (hp : postRet val pc = none) (hp' : postRet val pc' = none) (hb : pc ≠ .idle ∧ pc' ≠ .idle) :
    EffOk mk key val H pc pc' :=
  eff_same (by rw [h1, h1']) (by rw [hp, hp']) (by rw [h2, h2']) hb

theorem eff_nextMark {mk : Nat → Bool} {key val : Nat → Int} {H : Int → Int → Prop} {pc : PC} {k : Int} {d lvl : Nat}
    {pp : List Nat} {ps : List (Option Nat)}
    (h1 : opOf key val pc = some ⟨"erase", [k]⟩)
    (h2 : lpRet mk key val pc = if mk d = true then some [0] else none)
    (hp : postRet val pc = none) (hb : pc ≠ .idle) : EffOk mk key val H pc (nextMark k d lvl pp ps) := by
  unfold nextMark
  split <;> exact eff_erasing h1 rfl h2 rfl hp rfl ⟨hb, by simp⟩

section steps
variable {c : Cfg} {s s' : St} {t : Tid} {ev : Ev} {L : List Nat}

theorem sinvl_step_iSubFix {n lvl : Nat} {pp : List Nat} {ps : List (Option Nat)}
    (h : SInvL c s L) (hpc : s.pc t = .iSubFix n lvl pp ps) (hs : step c s t = some (s', ev)) :
    ∃ L', SInvL c s' L' ∧ StepEff s t s' L L' := by
  have ht := h.thr t; rw [hpc] at ht; simp only [TOk] at ht
  simp only [step, hpc, Option.some.injEq, Prod.mk.injEq] at hs; obtain ⟨rfl, -⟩ := hs
  refine ⟨L, pc_only _ s.hgt h (tok_retry (w := .insFix n) ht.1 ht.2) ?_ ?_⟩
  · intro n' hn; simp [retry, pnode, wnode] at hn
  · rw [hpc]; exact eff_post (r := [1]) rfl rfl ⟨by simp, by simp [retry]⟩

theorem sinvl_step_gHgt {n : Nat}
    (h : SInvL c s L) (hpc : s.pc t = .gHgt n) (hs : step c s t = some (s', ev)) :
    ∃ L', SInvL c s' L' ∧ StepEff s t s' L L' := by
  simp only [step, hpc, Option.some.injEq, Prod.mk.injEq] at hs; obtain ⟨rfl, -⟩ := hs
  refine ⟨L, pc_only s.unl s.hgt h ?_ ?_ ?_⟩
  · split <;> simp [TOk]
  · intro n' hn; split at hn <;> simp [pnode] at hn
  · rw [hpc]; split <;> exact eff_post (r := [1]) rfl rfl ⟨by simp, by simp⟩

theorem sinvl_step_gCas {n cur : Nat}
    (h : SInvL c s L) (hpc : s.pc t = .gCas n cur) (hs : step c s t = some (s', ev)) :
    ∃ L', SInvL c s' L' ∧ StepEff s t s' L L' := by
  simp only [step, hpc, Option.some.injEq, Prod.mk.injEq] at hs; obtain ⟨rfl, -⟩ := hs
  refine ⟨L, pc_only s.unl _ h ?_ ?_ ?_⟩
  · simp [TOk]
  · intro n' hn; simp [pnode] at hn
  · rw [hpc]; exact eff_post (r := [1]) rfl rfl ⟨by simp, by simp⟩

theorem sinvl_step_eLd {k : Int} {d lvl : Nat} {pp : List Nat} {ps : List (Option Nat)}
    (h : SInvL c s L) (hpc : s.pc t = .eLd k d lvl pp ps) (hs : step c s t = some (s', ev)) :
    ∃ L', SInvL c s' L' ∧ StepEff s t s' L L' := by
  have ht := h.thr t; rw [hpc] at ht
  simp only [step, hpc, Option.some.injEq, Prod.mk.injEq] at hs; obtain ⟨rfl, -⟩ := hs
  refine ⟨L, pc_only s.unl s.hgt h ?_ ?_ ?_⟩
  · split
    next hm => exact tok_nextMark ht hm
    · simp only [TOk] at ht ⊢; exact ht
  · intro n' hn; split at hn
    · unfold nextMark at hn; split at hn <;> simp [pnode] at hn
    · simp [pnode] at hn
  · rw [hpc]; split
    · exact eff_nextMark rfl rfl rfl (by simp)
    · exact eff_erasing rfl rfl rfl rfl rfl rfl ⟨by simp, by simp⟩

theorem sinvl_step_e0Ld {k : Int} {d : Nat} {pp : List Nat} {ps : List (Option Nat)}
    (h : SInvL c s L) (hpc : s.pc t = .e0Ld k d pp ps) (hs : step c s t = some (s', ev)) :
    ∃ L', SInvL c s' L' ∧ StepEff s t s' L L' := by
  have ht := h.thr t; rw [hpc] at ht
  simp only [step, hpc, Option.some.injEq, Prod.mk.injEq] at hs; obtain ⟨rfl, -⟩ := hs
  refine ⟨L, pc_only s.unl s.hgt h ?_ ?_ ?_⟩
  · simp only [TOk] at ht ⊢; exact ht
  · intro n' hn; simp [pnode] at hn
  · rw [hpc]; exact eff_erasing rfl rfl rfl rfl rfl rfl ⟨by simp, by simp⟩

theorem sinvl_step_eH1 {k : Int} {d lvl : Nat} {pp : List Nat} {ps : List (Option Nat)}
    (h : SInvL c s L) (hpc : s.pc t = .eH1 k d lvl pp ps) (hs : step c s t = some (s', ev)) :
    ∃ L', SInvL c s' L' ∧ StepEff s t s' L L' := by
  have ht := h.thr t; rw [hpc] at ht
  simp only [step, hpc, Option.some.injEq, Prod.mk.injEq] at hs; obtain ⟨rfl, -⟩ := hs
  refine ⟨L, pc_only s.unl s.hgt h ?_ ?_ ?_⟩
  · simp only [TOk] at ht ⊢; exact ⟨ht.1, ht.2.1, ht.2.2.1, ht.2.2.2, trivial⟩
  · intro n' hn; simp [pnode] at hn
  · rw [hpc]; exact eff_post (r := [1, s.val d]) rfl rfl ⟨by simp, by simp⟩

theorem sinvl_step_eHSub {k : Int} {d lvl : Nat} {pp : List Nat} {ps : List (Option Nat)}
    (h : SInvL c s L) (hpc : s.pc t = .eHSub k d lvl pp ps) (hs : step c s t = some (s', ev)) :
    ∃ L', SInvL c s' L' ∧ StepEff s t s' L L' := by
  have ht := h.thr t; rw [hpc] at ht
  simp only [step, hpc, Option.some.injEq, Prod.mk.injEq] at hs; obtain ⟨rfl, -⟩ := hs
  refine ⟨L, pc_only _ s.hgt h ?_ ?_ ?_⟩
  · split
    · simp [TOk]
    · simp only [TOk] at ht ⊢; exact ⟨ht.1, ht.2.1, ht.2.2.1, by omega⟩
  · intro n' hn; split at hn <;> simp [pnode] at hn
  · rw [hpc]; split <;> exact eff_post (r := [1, s.val d]) rfl rfl ⟨by simp, by simp⟩

theorem sinvl_step_qHgt {o : Fop} {att : Nat}
    (h : SInvL c s L) (hpc : s.pc t = .qHgt o att) (hs : step c s t = some (s', ev)) :
    ∃ L', SInvL c s' L' ∧ StepEff s t s' L L' := by
  simp only [step, hpc, Option.some.injEq, Prod.mk.injEq] at hs; obtain ⟨rfl, -⟩ := hs
  refine ⟨L, pc_only s.unl s.hgt h ?_ ?_ ?_⟩
  · simp only [TOk]; exact Or.inl rfl
  · intro n' hn; simp [pnode] at hn
  · rw [hpc]; exact eff_same rfl rfl rfl ⟨by simp, by simp⟩

theorem sinvl_step_qLd1 {o : Fop} {lvl pred att : Nat}
    (h : SInvL c s L) (hpc : s.pc t = .qLd1 o lvl pred att) (hs : step c s t = some (s', ev)) :
    ∃ L', SInvL c s' L' ∧ StepEff s t s' L L' := by
  have ht := h.thr t; rw [hpc] at ht
  simp only [step, hpc, Option.some.injEq, Prod.mk.injEq] at hs; obtain ⟨rfl, -⟩ := hs
  refine ⟨L, pc_only s.unl s.hgt h ?_ ?_ ?_⟩
  · simp only [TOk] at ht ⊢; exact ht
  · intro n' hn; simp [pnode] at hn
  · rw [hpc]; exact eff_same rfl rfl rfl ⟨by simp, by simp⟩

theorem tok_fslow (c : Cfg) (m : Mem) (L : List Nat) (o : Fop) : TOk c m L (fslow c o) := by
  cases o <;> exact tok_retry (by simp [WOk]) (listsOk_replicate c m L)

theorem eff_fslow {mk : Nat → Bool} {key val : Nat → Int} {H : Int → Int → Prop} {pc : PC} {c : Cfg} {o : Fop}
    (h1 : opOf key val pc = some (fop o)) (h2 : lpRet mk key val pc = none) (hb : pc ≠ .idle) :
    EffOk mk key val H pc (fslow c o) := by
  cases o <;> exact eff_pre (by rw [h1]; rfl) h2 rfl ⟨hb, by simp [fslow, retry]⟩

theorem sinvl_step_qLd2 (hmt : c.markTest = true) {o : Fop} {lvl pred att : Nat} {x : Option Nat} {m : Bool}
    (h : SInvL c s L) (hpc : s.pc t = .qLd2 o lvl pred att x m) (hs : step c s t = some (s', ev)) :
    ∃ L', SInvL c s' L' ∧ StepEff s t s' L L' := by
  have ht := h.thr t; rw [hpc] at ht; simp only [TOk] at ht
  simp only [step, hpc] at hs
  split at hs
  next hv =>
    simp only [Option.some.injEq, Prod.mk.injEq] at hs; obtain ⟨rfl, -⟩ := hs
    refine ⟨L, pc_only s.unl s.hgt h ?_ ?_ ?_⟩
    · unfold afterQ
      split
      · split
        · simp [TOk]
        · exact tok_fslow _ _ _ _
      · split
        · unfold qDown; split
          · simp [TOk]
          · simp only [TOk]; exact ht
        next cur =>
          have hcu := h.g.ptr pred lvl cur hv.1
          split
          next hlt => simp only [TOk]; exact Or.inr ⟨hcu.2.1, hlt⟩
          · split
            next heq => simp only [TOk]; exact ⟨⟨hcu.1, hcu.2.1⟩, heq⟩
            · unfold qDown; split
              · simp [TOk]
              · simp only [TOk]; exact ht
    · intro n' hn
      unfold afterQ at hn
      simp only [hmt, if_true] at hn
      repeat' split at hn
      all_goals first
        | (simp [pnode] at hn; done)
        | (cases o <;> simp [fslow, retry, pnode, wnode] at hn; done)
        | (unfold qDown at hn; split at hn <;> simp [pnode] at hn)
    · rw [hpc]
      unfold afterQ
      split
      · split
        · exact eff_same rfl rfl rfl ⟨by simp, by simp⟩
        · exact eff_fslow rfl rfl (by simp)
      next hm =>
        have hm' : s.mark pred lvl = false := by rw [hv.2]; simpa using hm
        have habs0 : lvl = 0 → (∀ c', x = some c' → fkey o < s.key c') →
            ∀ v, ¬ Has (mk0 s.mark) s.key s.val L (fkey o) v := by
          intro h0 hx; subst h0
          have hpL := h.g.unm_mem ht.lk hm'
          refine h.g.absent hpL ?_ ?_
          · rcases ht with e | e
            · exact Or.inl e
            · exact Or.inr e.2
          · intro c' hc'
            have hc2 : s.next pred 0 = some c' := hc'
            rw [hv.1] at hc2; exact hx c' hc2
        split
        · unfold qDown; split
          next h0 => exact eff_done rfl rfl (lp_absent_f (habs0 h0 (by simp)))
          · exact eff_same rfl rfl rfl ⟨by simp, by simp⟩
        next cur =>
          split
          · exact eff_same rfl rfl rfl ⟨by simp, by simp⟩
          next hlt =>
            split
            · exact eff_same rfl rfl rfl ⟨by simp, by simp⟩
            next hne =>
              unfold qDown; split
              next h0 =>
                refine eff_done rfl rfl (lp_absent_f (habs0 h0 ?_))
                intro c' hc'; simp only [Option.some.injEq] at hc'; subst hc'; omega
              · exact eff_same rfl rfl rfl ⟨by simp, by simp⟩
  next hv =>
    simp only [Option.some.injEq, Prod.mk.injEq] at hs; obtain ⟨rfl, -⟩ := hs
    refine ⟨L, pc_only s.unl s.hgt h ?_ ?_ ?_⟩
    · simp only [TOk]; exact ht
    · intro n' hn; simp [pnode] at hn
    · rw [hpc]; exact eff_same rfl rfl rfl ⟨by simp, by simp⟩

theorem sinvl_step_qChk {o : Fop} {cur : Nat}
    (h : SInvL c s L) (hpc : s.pc t = .qChk o cur) (hs : step c s t = some (s', ev)) :
    ∃ L', SInvL c s' L' ∧ StepEff s t s' L L' := by
  have ht := h.thr t; rw [hpc] at ht; simp only [TOk] at ht
  simp only [step, hpc, Option.some.injEq, Prod.mk.injEq] at hs; obtain ⟨rfl, -⟩ := hs
  refine ⟨L, pc_only s.unl s.hgt h ?_ ?_ ?_⟩
  · split
    · exact tok_fslow _ _ _ _
    · cases o <;> simp [ffound, TOk]
  · intro n' hn; split at hn
    · cases o <;> simp [fslow, retry, pnode, wnode] at hn
    · cases o <;> simp [ffound, pnode] at hn
  · rw [hpc]; split
    · exact eff_fslow rfl rfl (by simp)
    next hm =>
      have hm' : s.mark cur 0 = false := by simpa using hm
      have hhas := h.g.has_of_unmarked (a := cur) ht.1 hm'
      have hk : s.key cur = fkey o := ht.2
      have : ∃ r, ffound s.val o cur = .done r := by cases o <;> simp [ffound]
      obtain ⟨r, hr⟩ := this
      rw [hr]
      exact eff_done rfl rfl (lp_present_f hr (by rw [← hk]; exact hhas))

end steps

end CdsVerif.Algo.SkipList

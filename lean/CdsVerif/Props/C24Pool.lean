/-
  C24 — Object pools never hand one object to two holders; deallocated objects become available again.

  Theorems about the pool machine `Algo/Pool` (vyukov_queue_pool, lazy_vyukov_queue_pool,
  bounded_vyukov_queue_pool; pool_allocator only forwards), for every schedule, any number of threads, any
  capacity.  The free queue is an abstract bounded FIFO whose operations are atomic: that is what C07 proves of
  the real Vyukov queue (linearizability) and ties to the code by trace conformance.
-/
import CdsVerif.Algo.Pool.Inv
namespace CdsVerif.Props.C24Pool
open CdsVerif.Machine CdsVerif.Spec CdsVerif.Algo.Pool

theorem pinv_reachable (kind : Kind) (cap : Nat) (s : St) (h : model.Reachable (init kind cap) s) : PInv s := by
  obtain ⟨sched, os, hr⟩ := h
  refine model.inv_of_inductive PInv ?_ sched _ _ os (pinv_init kind cap) hr
  intro s t a s' o hinv happ
  cases a with
  | invoke op =>
    simp only [Model.apply, model] at happ
    cases hi : invoke s t op with
    | none => simp [hi] at happ
    | some s1 => simp [hi] at happ; obtain ⟨rfl, _⟩ := happ; exact pinv_invoke s s1 t op hinv hi
  | step =>
    simp only [Model.apply, model] at happ
    cases hi : step s t with
    | none => simp [hi] at happ
    | some r => simp [hi] at happ; obtain ⟨rfl, _⟩ := happ; exact pinv_step s r.1 t r.2 hinv (by rw [hi])
  | ret =>
    simp only [Model.apply, model] at happ
    cases hi : result s t with
    | none => simp [hi] at happ
    | some r => simp [hi] at happ; obtain ⟨rfl, _⟩ := happ; exact pinv_result s r.1 t r.2 hinv (by rw [hi])

/-- **No object has two holders**, in any reachable state of any of the three pools. -/
theorem C24_no_two_holders (kind : Kind) (cap : Nat) (s : St) (h : model.Reachable (init kind cap) s)
    (t1 t2 : Tid) (o : Nat) (h1 : s.holds t1 o = true) (h2 : s.holds t2 o = true) : t1 = t2 :=
  (pinv_reachable kind cap s h).one t1 t2 o h1 h2

/-- **What `allocate` returns is allocated to nobody.**  At the step that fixes the result `[1, o]` of an
    `allocate`, no thread holds `o`, `o` has not been given back to the heap, and no `deallocate( o )` is still
    in progress. -/
theorem C24_alloc_returns_unheld (kind : Kind) (cap : Nat) (s s' : St) (h : model.Reachable (init kind cap) s)
    (t : Tid) (e : Ev) (o : Nat) (hs : step s t = some (s', e)) (hpc : s.pc t = .allocDeq)
    (hres : s'.pc t = .done [1, (o : Int)]) :
    (∀ t', s.holds t' o = false) ∧ s.freed o = false ∧ (∀ t', s.pc t' ≠ .freeEnq o) ∧ s'.holds t o = true := by
  have hinv := pinv_reachable kind cap s h
  unfold step at hs
  rw [hpc] at hs
  simp only at hs
  split at hs
  · rename_i o' rest hq
    simp only [Option.some.injEq, Prod.mk.injEq] at hs; obtain ⟨rfl, _⟩ := hs
    have ho : o' = o := by have h := hres; simp [upd] at h; omega
    subst ho
    have := hinv.inq o' (by rw [hq]; exact List.mem_cons_self)
    exact ⟨this.2.2.2.1, this.2.2.1, this.2.2.2.2, by simp [upd2]⟩
  · split at hs
    · simp only [Option.some.injEq, Prod.mk.injEq] at hs; obtain ⟨rfl, _⟩ := hs
      simp [upd] at hres
    · simp only [Option.some.injEq, Prod.mk.injEq] at hs; obtain ⟨rfl, _⟩ := hs
      have ho : s.fresh = o := by have h := hres; simp [upd] at h; omega
      subst ho
      refine ⟨?_, ?_, ?_, by simp [upd2]⟩
      · intro t'
        cases hh : s.holds t' s.fresh with
        | false => rfl
        | true => exact absurd (hinv.held t' _ hh).2.1 (Nat.lt_irrefl _)
      · cases hh : s.freed s.fresh with
        | false => rfl
        | true => exact absurd (hinv.freedOld _ hh) (Nat.lt_irrefl _)
      · intro t' hh
        exact absurd (hinv.enq t' _ hh).2.1 (Nat.lt_irrefl _)

/-- **Deallocated objects become available again.**  The step that completes `deallocate( p )` either puts `p`
    into the free queue, or gives it back to the heap; the latter happens only to an object outside the
    preallocated block (vyukov pool) or when the queue is full (lazy pool), never in the bounded pool. -/
theorem C24_dealloc_makes_available (kind : Kind) (cap : Nat) (s s' : St) (h : model.Reachable (init kind cap) s)
    (t : Tid) (e : Ev) (p : Nat) (hs : step s t = some (s', e)) (hpc : s.pc t = .freeEnq p)
    (hdone : s'.pc t = .done [2, (p : Int)]) :
    (p ∈ s'.q ∧ s'.freed p = false) ∨
    (s'.freed p = true ∧ ((s.kind = .vyukov ∧ cap < p) ∨ (s.kind = .lazy ∧ s.cap ≤ s.q.length))) := by
  have hinv := pinv_reachable kind cap s h
  have hcap : s.cap = cap := by
    -- the capacity never changes
    obtain ⟨sched, os, hr⟩ := h
    have : ∀ (sched : List (Tid × Act)) (a b : St) os, model.run a sched = some (b, os) → b.cap = a.cap := by
      intro sched
      induction sched with
      | nil => intro a b os hr; simp [Model.run] at hr; rw [hr.1]
      | cons x rest ih =>
        intro a b os hr
        obtain ⟨t, act⟩ := x
        simp only [Model.run] at hr
        cases happ : model.apply a t act with
        | none => simp [happ] at hr
        | some p =>
          obtain ⟨a', o⟩ := p
          simp only [happ] at hr
          cases hrr : model.run a' rest with
          | none => simp [hrr] at hr
          | some q =>
            obtain ⟨b', os'⟩ := q
            simp only [hrr, Option.some.injEq, Prod.mk.injEq] at hr
            obtain ⟨rfl, _⟩ := hr
            rw [ih a' b' os' hrr]
            cases act with
            | invoke op =>
              simp only [Model.apply, model, invoke] at happ
              split at happ
              · simp at happ; rw [← happ.1]
              · split at happ
                · simp at happ; rw [← happ.1]
                · simp at happ
              · simp at happ
            | step =>
              simp only [Model.apply, model, step] at happ
              split at happ
              · split at happ
                · simp at happ; rw [← happ.1]
                · split at happ <;> (simp at happ; rw [← happ.1])
              · split at happ
                · simp at happ; rw [← happ.1]
                · split at happ
                  · simp at happ; rw [← happ.1]
                  · split at happ <;> (simp at happ; rw [← happ.1])
              · simp at happ
            | ret =>
              simp only [Model.apply, model, result] at happ
              split at happ
              · simp at happ; rw [← happ.1]
              · simp at happ
    have := this sched _ _ os hr
    simpa [init] using this
  have hp := hinv.enq t p hpc
  unfold step at hs
  rw [hpc] at hs
  simp only at hs
  split at hs
  · rename_i hk
    simp only [Option.some.injEq, Prod.mk.injEq] at hs; obtain ⟨rfl, _⟩ := hs
    right
    refine ⟨by simp [upd], Or.inl ⟨hk.1, ?_⟩⟩
    have h2 := hk.2
    simp only [fromPool, decide_eq_false_iff_not] at h2
    have := hp.1
    omega
  · split at hs
    · simp only [Option.some.injEq, Prod.mk.injEq] at hs; obtain ⟨rfl, _⟩ := hs
      left
      exact ⟨by simp, hp.2.2⟩
    · split at hs
      · rename_i hlen hlazy
        simp only [Option.some.injEq, Prod.mk.injEq] at hs; obtain ⟨rfl, _⟩ := hs
        right
        refine ⟨by simp [upd], Or.inr ⟨hlazy, by omega⟩⟩
      · simp only [Option.some.injEq, Prod.mk.injEq] at hs; obtain ⟨rfl, _⟩ := hs
        rw [hpc] at hdone
        simp at hdone

/-- Objects of the preallocated block are never given back to the heap (vyukov and bounded pools). -/
theorem C24_block_objects_kept (kind : Kind) (cap : Nat) (hk : kind ≠ .lazy) (s : St)
    (h : model.Reachable (init kind cap) s) (hkind : s.kind = kind) (o : Nat) (ho : o ≤ s.cap) : s.freed o = false := by
  cases hf : s.freed o with
  | false => rfl
  | true =>
    have := (pinv_reachable kind cap s h).poolKept (by rw [hkind]; exact hk) o hf
    omega

/-! ### The machine refines the sequential pool that the histories of the real pools are judged against -/

def kindCode : Kind → Nat
  | .vyukov => 0 | .lazy => 1 | .bounded => 2

def absQ (s : St) : List Int := s.q.map Int.ofNat

/-- Every step of the machine that completes an operation is a legal step of `Spec.pool` (the specification used
    by the verified linearizability checker on the histories of the real pools) on the free queue; a step that
    does not complete the operation (a `push` that found the queue full and is repeated) leaves the queue alone.
    The operation argument of `poolNext` is irrelevant (`op`). -/
theorem C24_machine_refines_spec (kind : Kind) (cap : Nat) (s s' : St) (h : model.Reachable (init kind cap) s)
    (t : Tid) (e : Ev) (op : GOp) (hs : step s t = some (s', e)) :
    (∀ r, s'.pc t = .done r → poolNext (kindCode s.kind) s.cap (absQ s) op r = some (absQ s')) ∧
    ((∀ r, s'.pc t ≠ .done r) → absQ s' = absQ s) := by
  have hinv := pinv_reachable kind cap s h
  unfold step at hs
  split at hs
  · split at hs
    · rename_i o rest hq
      simp only [Option.some.injEq, Prod.mk.injEq] at hs; obtain ⟨rfl, _⟩ := hs
      refine ⟨?_, ?_⟩
      · intro r hr
        have : r = [1, (o : Int)] := by simpa [upd] using hr.symm
        subst this
        simp [poolNext, absQ, hq]
      · intro hne; exact absurd (by simp [upd]) (hne [1, (o : Int)])
    · rename_i hq
      split at hs
      · rename_i hb
        simp only [Option.some.injEq, Prod.mk.injEq] at hs; obtain ⟨rfl, _⟩ := hs
        refine ⟨?_, ?_⟩
        · intro r hr
          have : r = [0] := by simpa [upd] using hr.symm
          subst this
          simp [poolNext, absQ, hq, hb, kindCode]
        · intro hne; exact absurd (by simp [upd]) (hne [0])
      · rename_i hb
        simp only [Option.some.injEq, Prod.mk.injEq] at hs; obtain ⟨rfl, _⟩ := hs
        refine ⟨?_, ?_⟩
        · intro r hr
          have : r = [1, (s.fresh : Int)] := by simpa [upd] using hr.symm
          subst this
          have hcf := hinv.capfresh
          have hk : kindCode s.kind ≠ 2 := by cases hkk : s.kind <;> simp_all [kindCode]
          simp only [poolNext, absQ, hq, List.map_nil]
          rw [if_pos ⟨hk, by omega⟩]
        · intro hne; exact absurd (by simp [upd]) (hne [1, (s.fresh : Int)])
  · rename_i p hpc
    have hp := hinv.enq t p hpc
    split at hs
    · rename_i hk
      simp only [Option.some.injEq, Prod.mk.injEq] at hs; obtain ⟨rfl, _⟩ := hs
      refine ⟨?_, ?_⟩
      · intro r hr
        have : r = [2, (p : Int)] := by simpa [upd] using hr.symm
        subst this
        have h2 := hk.2
        simp only [fromPool, decide_eq_false_iff_not] at h2
        have h1 := hp.1
        simp only [poolNext, absQ, hk.1, kindCode]
        rw [if_pos ⟨trivial, by omega⟩]
      · intro hne; exact absurd (by simp [upd]) (hne [2, (p : Int)])
    · rename_i hk
      split at hs
      · rename_i hlen
        simp only [Option.some.injEq, Prod.mk.injEq] at hs; obtain ⟨rfl, _⟩ := hs
        refine ⟨?_, ?_⟩
        · intro r hr
          have : r = [2, (p : Int)] := by simpa [upd] using hr.symm
          subst this
          have hnot : ¬ (kindCode s.kind = 0 ∧ (s.cap : Int) < (p : Int)) := by
            intro ⟨hk0, hlt⟩
            apply hk
            refine ⟨by cases hkk : s.kind <;> simp_all [kindCode], ?_⟩
            simp only [fromPool, decide_eq_false_iff_not]
            omega
          simp only [poolNext, absQ, List.length_map]
          rw [if_neg hnot, if_pos hlen]
          simp
        · intro hne; exact absurd (by simp [upd]) (hne [2, (p : Int)])
      · rename_i hlen
        split at hs
        · rename_i hlazy
          simp only [Option.some.injEq, Prod.mk.injEq] at hs; obtain ⟨rfl, _⟩ := hs
          refine ⟨?_, ?_⟩
          · intro r hr
            have : r = [2, (p : Int)] := by simpa [upd] using hr.symm
            subst this
            simp only [poolNext, absQ, List.length_map, hlazy, kindCode]
            rw [if_neg (by simp), if_neg hlen]; simp
          · intro hne; exact absurd (by simp [upd]) (hne [2, (p : Int)])
        · simp only [Option.some.injEq, Prod.mk.injEq] at hs; obtain ⟨rfl, _⟩ := hs
          exact ⟨fun r hr => by rw [hpc] at hr; simp at hr, fun _ => rfl⟩
  · simp at hs


/-! ### Non-vacuity: concrete runs (capacity 2) -/

private def rets (kind : Kind) (cap : Nat) (sched : List (Tid × Act)) : Option (List (Tid × GRet)) :=
  (model.run (init kind cap) sched).map fun r => r.2.filterMap fun (t, o) => match o with
    | .ret v => some (t, v)
    | _ => none

private def alloc : Act := .invoke ⟨"alloc", []⟩
private def free (p : Int) : Act := .invoke ⟨"free", [p]⟩

/-- vyukov pool past its capacity: the third allocation comes from the heap (object 3); freeing object 1 makes
    it available again (the next allocation returns it); freeing the heap object deletes it. -/
example : rets .vyukov 2
    [(0, alloc), (0, .step), (0, .ret), (1, alloc), (1, .step), (1, .ret), (2, alloc), (2, .step), (2, .ret),
     (0, free 1), (0, .step), (0, .ret), (2, free 3), (2, .step), (2, .ret), (2, alloc), (2, .step), (2, .ret)]
    = some [(0, [1, 1]), (1, [1, 2]), (2, [1, 3]), (0, [2, 1]), (2, [2, 3]), (2, [1, 1])] := by decide +kernel

/-- bounded pool: the third allocation fails (std::bad_alloc), and succeeds after a deallocation. -/
example : rets .bounded 2
    [(0, alloc), (0, .step), (0, .ret), (1, alloc), (1, .step), (1, .ret), (2, alloc), (2, .step), (2, .ret),
     (1, free 2), (1, .step), (1, .ret), (2, alloc), (2, .step), (2, .ret)]
    = some [(0, [1, 1]), (1, [1, 2]), (2, [0]), (1, [2, 2]), (2, [1, 2])] := by decide +kernel

/-- lazy pool: starts empty, objects come from the heap and are reused in FIFO order. -/
example : rets .lazy 2
    [(0, alloc), (0, .step), (0, .ret), (1, alloc), (1, .step), (1, .ret), (0, free 3), (0, .step), (0, .ret),
     (1, free 4), (1, .step), (1, .ret), (2, alloc), (2, .step), (2, .ret)]
    = some [(0, [1, 3]), (1, [1, 4]), (0, [2, 3]), (1, [2, 4]), (2, [1, 3])] := by decide +kernel

/-- the client discipline is enforced: a thread cannot free an object it does not hold -/
example : rets .vyukov 2 [(0, alloc), (0, .step), (0, .ret), (1, free 1)] = none := by decide +kernel

/-! ### An `allocate` racing with a `deallocate`, and `C24_machine_refines_spec` on that run -/

/-- bounded pool of capacity 1.  Thread 0 allocates the only object o1; then thread 1 calls `allocate` and thread 0 calls
    `deallocate( o1 )`: both operations are pending, their queue steps can be taken in either order. -/
private def racePrefix : List (Tid × Act) := [(0, alloc), (0, .step), (0, .ret), (1, alloc), (0, free 1)]

/-- `push` first: the racing `allocate` gets o1 back.  `pop` first: it fails (`std::bad_alloc`), o1 becomes available
    only afterwards. -/
example : rets .bounded 1 (racePrefix ++ [(0, .step), (1, .step), (0, .ret), (1, .ret)])
      = some [(0, [1, 1]), (0, [2, 1]), (1, [1, 1])] ∧
    rets .bounded 1 (racePrefix ++ [(1, .step), (0, .step), (0, .ret), (1, .ret)])
      = some [(0, [1, 1]), (0, [2, 1]), (1, [0])] := by decide +kernel

set_option synthInstance.maxSize 4000 in
/-- The state after thread 0's `push` (free queue [o1]) and the `pop` step of thread 1 from it: the step completes the
    `allocate` with result `[1, 1]` and empties the queue; `Spec.pool` (kind code 2 = bounded, capacity 1) takes the same
    step. -/
example : ((model.run (init .bounded 1) (racePrefix ++ [(0, .step)])).bind
      (fun r => (step r.1 1).map (fun p => (kindCode r.1.kind, r.1.cap, absQ r.1, p.1.pc 1, absQ p.1, p.2)))) =
      some (2, 1, [1], .done [1, 1], [], ⟨"pop", "queue", "o1", "1"⟩) ∧
    poolNext 2 1 [1] ⟨"alloc", []⟩ [1, 1] = some [] := by decide +kernel

/-- `C24_machine_refines_spec` applied to that state and that step: the run and the step exist, no hypothesis is left. -/
example : ∃ s os s' e, model.run (init .bounded 1) (racePrefix ++ [(0, .step)]) = some (s, os) ∧
    step s 1 = some (s', e) ∧
    (∀ r, s'.pc 1 = .done r → poolNext (kindCode s.kind) s.cap (absQ s) ⟨"alloc", []⟩ r = some (absQ s')) ∧
    ((∀ r, s'.pc 1 ≠ .done r) → absQ s' = absQ s) := by
  have h : ((model.run (init .bounded 1) (racePrefix ++ [(0, .step)])).bind (fun r => step r.1 1)).isSome = true := by
    decide +kernel
  obtain ⟨⟨s', e⟩, hb⟩ := Option.isSome_iff_exists.mp h
  obtain ⟨⟨s, os⟩, hr, hs⟩ := Option.bind_eq_some_iff.mp hb
  exact ⟨s, os, s', e, hr, hs, C24_machine_refines_spec .bounded 1 s s' ⟨_, os, hr⟩ 1 e ⟨"alloc", []⟩ hs⟩

/-- The other order: thread 1's `pop` on the empty queue fails (`[0]`) and leaves the queue alone, then thread 0's `push`
    puts o1 back — both are steps of `Spec.pool`. -/
example : ∃ s os s' e, model.run (init .bounded 1) (racePrefix ++ [(1, .step)]) = some (s, os) ∧
    step s 0 = some (s', e) ∧
    (∀ r, s'.pc 0 = .done r → poolNext (kindCode s.kind) s.cap (absQ s) ⟨"free", [1]⟩ r = some (absQ s')) ∧
    ((∀ r, s'.pc 0 ≠ .done r) → absQ s' = absQ s) := by
  have h : ((model.run (init .bounded 1) (racePrefix ++ [(1, .step)])).bind (fun r => step r.1 0)).isSome = true := by
    decide +kernel
  obtain ⟨⟨s', e⟩, hb⟩ := Option.isSome_iff_exists.mp h
  obtain ⟨⟨s, os⟩, hr, hs⟩ := Option.bind_eq_some_iff.mp hb
  exact ⟨s, os, s', e, hr, hs, C24_machine_refines_spec .bounded 1 s s' ⟨_, os, hr⟩ 0 e ⟨"free", [1]⟩ hs⟩

set_option synthInstance.maxSize 4000 in
example : ((model.run (init .bounded 1) (racePrefix ++ [(1, .step)])).bind
      (fun r => (step r.1 0).map (fun p => (absQ r.1, r.1.pc 1, p.1.pc 0, absQ p.1, p.2)))) =
      some ([], .done [0], .done [2, 1], [1], ⟨"push", "queue", "o1", "1"⟩) ∧
    poolNext 2 1 [] ⟨"free", [1]⟩ [2, 1] = some [1] := by decide +kernel

end CdsVerif.Props.C24Pool

/-
  Linearizability of the split-list model (property C14: `cds::intrusive::SplitListSet<HP>` over `MichaelList<HP>`,
  dynamic bucket table: insert, erase, find, contains) with respect to the sequential map `Spec.map`.

  The linearization points are those of the underlying MichaelList operation (`Algo/Michael/Lin.lean`), started from
  the bucket's dummy node instead of the list head: the successful CAS of `link_node` / the marking CAS of
  `unlink_node`; for the answers "found" / "absent" the validating loads, TENTATIVELY when the traversal's later
  validation `pPrev->load() == pCur` may still fail (hindsight).  Everything `get_bucket`, `init_bucket` (including the
  linking of dummy nodes and the publication of bucket pointers) and `inc_item_count` (including the growth of the table)
  do is invisible in the abstract map.  The ghost-log construction is that of the MichaelList development.
-/
import CdsVerif.Algo.SplitList.Reach
namespace CdsVerif.Algo.SplitList
open CdsVerif.Machine CdsVerif.Spec CdsVerif.Lin
open CdsVerif.Algo.Michael (LPok isRO map_ro)

/-! ### The history of a run -/

/-- Per thread: the operation in progress and the index of its `call` observation. -/
abbrev Pend := Tid → Option (GOp × Nat)

/-- Scan the observations (the head has index `i`): every `ret` closes the operation its thread has in progress. -/
def histAux : Nat → Pend → List (Tid × Obs) → List (OpRec GOp GRet)
  | _, _, [] => []
  | i, pend, (t, .call op) :: os => histAux (i + 1) (upd pend t (some (op, i))) os
  | i, pend, (_, .ev _) :: os => histAux (i + 1) pend os
  | i, pend, (t, .ret r) :: os =>
    match pend t with
    | some (op, k) => ⟨t, op, r, k, i⟩ :: histAux (i + 1) (upd pend t none) os
    | none => histAux (i + 1) pend os

/-- The operations still in progress after the observations. -/
def pendAux : Nat → Pend → List (Tid × Obs) → Pend
  | _, pend, [] => pend
  | i, pend, (t, .call op) :: os => pendAux (i + 1) (upd pend t (some (op, i))) os
  | i, pend, (_, .ev _) :: os => pendAux (i + 1) pend os
  | i, pend, (t, .ret _) :: os =>
    match pend t with
    | some _ => pendAux (i + 1) (upd pend t none) os
    | none => pendAux (i + 1) pend os

/-- The complete history of a run: one record per operation that has both its `call` and its `ret` observation,
    `inv` / `res` = the indices of these observations in `os`.  Operations pending at the end are dropped. -/
def historyOf (os : List (Tid × Obs)) : List (OpRec GOp GRet) := histAux 0 (fun _ => none) os

/-- The operations pending at the end of a run: thread ↦ (operation, index of its `call`). -/
def pendingOf (os : List (Tid × Obs)) : Pend := pendAux 0 (fun _ => none) os

/-! ### Ghost log -/

/-- A log entry: an operation that has passed its linearization point; `res = none` while it has not returned. -/
structure LE where
  tid : Nat
  op : GOp
  ret : GRet
  inv : Nat
  res : Option Nat
deriving DecidableEq, Repr

/-- Thread `t` returns at time `c`. -/
def LE.close (t c : Nat) (e : LE) : LE := if e.tid = t ∧ e.res = none then { e with res := some c } else e
/-- The history record of an entry; an entry that has not returned gets the response time `c`. -/
def LE.fin (c : Nat) (e : LE) : OpRec GOp GRet := ⟨e.tid, e.op, e.ret, e.inv, e.res.getD c⟩
def LE.done? (e : LE) : Option (OpRec GOp GRet) := e.res.map (fun r => ⟨e.tid, e.op, e.ret, e.inv, r⟩)

def completed (log : List LE) : List (OpRec GOp GRet) := log.filterMap LE.done?
def openOf (t : Nat) (log : List LE) : List LE := log.filter (fun e => decide (e.tid = t ∧ e.res = none))

/-- Sequential replay of the logged operations and results. -/
def runSpec : MapSt → List LE → Option MapSt
  | st, [] => some st
  | st, e :: l => (Spec.map.next st e.op e.ret).bind (fun st' => runSpec st' l)

theorem runSpec_append (l1 l2 : List LE) : ∀ st, runSpec st (l1 ++ l2) = (runSpec st l1).bind (fun st' => runSpec st' l2) := by
  induction l1 with
  | nil => intro st; simp [runSpec]
  | cons e l ih =>
    intro st
    simp only [List.cons_append, runSpec]
    cases Spec.map.next st e.op e.ret with
    | none => simp
    | some st1 => simp [ih]

theorem runSpec_close (t c : Nat) (l : List LE) : ∀ st, runSpec st (l.map (LE.close t c)) = runSpec st l := by
  induction l with
  | nil => intro st; rfl
  | cons e l ih =>
    intro st
    have h1 : (LE.close t c e).op = e.op := by unfold LE.close; split <;> rfl
    have h2 : (LE.close t c e).ret = e.ret := by unfold LE.close; split <;> rfl
    simp only [List.map_cons, runSpec, h1, h2, ih]

theorem legal_of_runSpec (c : Nat) (l : List LE) : ∀ st st', runSpec st l = some st' → Legal Spec.map st (l.map (LE.fin c)) := by
  induction l with
  | nil => intro st st' _; trivial
  | cons e l ih =>
    intro st st' h
    simp only [runSpec] at h
    cases hn : Spec.map.next st e.op e.ret with
    | none => simp [hn] at h
    | some st1 =>
      simp only [hn, Option.bind_some] at h
      exact ⟨st1, hn, ih st1 st' h⟩

theorem openOf_append (t : Nat) (l1 l2 : List LE) : openOf t (l1 ++ l2) = openOf t l1 ++ openOf t l2 := by
  simp [openOf]

theorem openOf_close_same (t c : Nat) (l : List LE) : openOf t (l.map (LE.close t c)) = [] := by
  induction l with
  | nil => rfl
  | cons e l ih =>
    simp only [openOf, List.map_cons, List.filter_cons] at ih ⊢
    rw [ih]
    unfold LE.close
    split <;> simp_all

theorem openOf_close_other (t t2 c : Nat) (h : t2 ≠ t) (l : List LE) :
    openOf t2 (l.map (LE.close t c)) = openOf t2 l := by
  induction l with
  | nil => rfl
  | cons e l ih =>
    simp only [openOf, List.map_cons, List.filter_cons] at ih ⊢
    rw [ih]
    unfold LE.close
    split
    next hc => have : e.tid ≠ t2 := by omega
               simp [this]
    next => rfl

theorem completed_close (t c : Nat) (l : List LE) :
    (completed (l.map (LE.close t c))).Perm (completed l ++ (openOf t l).map (LE.fin c)) := by
  induction l with
  | nil => exact List.Perm.refl _
  | cons e l ih =>
    simp only [completed, openOf, List.map_cons, List.filterMap_cons, List.filter_cons] at ih ⊢
    by_cases hc : e.tid = t ∧ e.res = none
    · have h1 : (LE.close t c e).done? = some (LE.fin c e) := by
        simp [LE.close, hc, LE.done?, LE.fin]
      have h2 : e.done? = none := by simp [LE.done?, hc.2]
      simp only [h1, h2, hc, and_self, decide_true, if_true, List.map_cons]
      exact (List.Perm.cons _ ih).trans List.perm_middle.symm
    · have h1 : LE.close t c e = e := by simp [LE.close, hc]
      simp only [h1, hc, decide_false, Bool.false_eq_true, if_false]
      cases e.done? with
      | none => exact ih
      | some r => exact List.Perm.cons _ ih

/-! ### Withdrawing tentative entries -/

/-- Read-only entries (`isRO`) may be removed from a legal log. -/
theorem runSpec_filter (P : LE → Bool) (l : List LE) :
    ∀ st st', (∀ e ∈ l, P e = false → isRO e.op e.ret = true) → runSpec st l = some st' →
      runSpec st (l.filter P) = some st' := by
  induction l with
  | nil => intro st st' _ h; simpa [runSpec] using h
  | cons e l ih =>
    intro st st' hP h
    simp only [runSpec] at h
    cases hn : Spec.map.next st e.op e.ret with
    | none => simp [hn] at h
    | some st1 =>
      simp only [hn, Option.bind_some] at h
      have hP' : ∀ e' ∈ l, P e' = false → isRO e'.op e'.ret = true := fun e' he' => hP e' (List.mem_cons_of_mem _ he')
      simp only [List.filter_cons]
      cases hp : P e with
      | true =>
        simp only [if_true, runSpec, hn, Option.bind_some]
        exact ih st1 st' hP' h
      | false =>
        have hr := hP e (by simp) hp
        have := map_ro hn hr
        subst this
        simpa using ih st1 st' hP' h

/-- Remove the entries of thread `t` that have not returned (its tentative entry). -/
def dropOpen (t : Nat) (log : List LE) : List LE := log.filter (fun e => !decide (e.tid = t ∧ e.res = none))

theorem dropOpen_sublist (t : Nat) (log : List LE) : (dropOpen t log).Sublist log := List.filter_sublist

theorem mem_dropOpen {t : Nat} {log : List LE} {e : LE} (h : e ∈ dropOpen t log) : e ∈ log :=
  (dropOpen_sublist t log).subset h

theorem openOf_dropOpen_same (t : Nat) (l : List LE) : openOf t (dropOpen t l) = [] := by
  simp only [openOf, dropOpen, List.filter_filter]
  apply List.filter_eq_nil_iff.mpr
  intro e _
  by_cases hc : e.tid = t ∧ e.res = none <;> simp [hc]

theorem openOf_dropOpen_other (t t2 : Nat) (h : t2 ≠ t) (l : List LE) : openOf t2 (dropOpen t l) = openOf t2 l := by
  simp only [openOf, dropOpen, List.filter_filter]
  apply List.filter_congr
  intro e _
  by_cases hc : e.tid = t2 ∧ e.res = none
  · simp [hc, h]
  · simp [hc]

theorem completed_filter_open (P : LE → Bool) (l : List LE) (hP : ∀ e ∈ l, P e = false → e.res = none) :
    completed (l.filter P) = completed l := by
  induction l with
  | nil => rfl
  | cons e l ih =>
    have hP' : ∀ e' ∈ l, P e' = false → e'.res = none := fun e' he' => hP e' (List.mem_cons_of_mem _ he')
    simp only [completed, List.filter_cons] at ih ⊢
    cases hp : P e with
    | true => simp only [if_true, List.filterMap_cons]; rw [ih hP']
    | false =>
      have hr := hP e (by simp) hp
      simp only [Bool.false_eq_true, if_false, List.filterMap_cons, LE.done?, hr, Option.map_none]
      exact ih hP'

theorem completed_dropOpen (t : Nat) (l : List LE) : completed (dropOpen t l) = completed l := by
  apply completed_filter_open
  intro e _ h
  by_cases hc : e.tid = t ∧ e.res = none
  · exact hc.2
  · simp [hc] at h

theorem runSpec_dropOpen (t : Nat) (l : List LE) (st st' : MapSt)
    (h0 : ∀ e ∈ openOf t l, isRO e.op e.ret = true)
    (h : runSpec st l = some st') : runSpec st (dropOpen t l) = some st' := by
  apply runSpec_filter _ _ _ _ _ h
  intro e he hp
  apply h0
  simp only [openOf, List.mem_filter]
  refine ⟨he, ?_⟩
  by_cases hc : e.tid = t ∧ e.res = none
  · simp [hc]
  · simp [hc] at hp

/-! ### Instrumented runs -/

structure GSt where
  s : St
  clock : Nat                          -- number of actions so far = index of the next observation
  pend : Pend
  hist : List (OpRec GOp GRet)         -- records of the operations that have returned, in order of return
  log : List LE                        -- operations that have passed their linearization point, in that order
  trace : List St                      -- the model states before each action so far (`trace[j]` = state before action `j`)

def ginit (c : Cfg) : GSt := ⟨init c, 0, fun _ => none, [], [], []⟩

/-- Ghost update for the action of thread `t` that leads to model state `s'` with observation `o`. -/
def gnext (c : Cfg) (g : GSt) (t : Tid) (s' : St) : Obs → GSt
  | .call op =>
    { g with s := s', clock := g.clock + 1, pend := upd g.pend t (some (op, g.clock)), trace := g.trace ++ [g.s] }
  | .ev _ =>
    { g with
      s := s', clock := g.clock + 1, trace := g.trace ++ [g.s],
      log := match lpRet c g.s.so g.s.uk g.s.val (g.s.pc t), lpRet c s'.so s'.uk s'.val (s'.pc t), g.pend t with
        | none, some r, some (op, k) => g.log ++ [⟨t, op, r, k, none⟩]     -- linearization point (possibly tentative)
        | some _, none, _ => dropOpen t g.log                               -- tentative linearization withdrawn
        | _, _, _ => g.log }
  | .ret r =>
    match g.pend t with
    | some (op, k) =>
      { s := s', clock := g.clock + 1, pend := upd g.pend t none,
        hist := g.hist ++ [⟨t, op, r, k, g.clock⟩], log := g.log.map (LE.close t g.clock),
        trace := g.trace ++ [g.s] }
    | none => { g with s := s', clock := g.clock + 1, trace := g.trace ++ [g.s] }

structure GI (c : Cfg) (g : GSt) (L : List Nat) : Prop where
  spec : ∃ m, runSpec [] g.log = some m ∧ ∀ k v, mfind m k = some v ↔ Has g.s.mark g.s.uk g.s.val L k v
  invlt : ∀ e, e ∈ g.log → e.inv < g.clock
  rt : g.log.Pairwise (fun a b => ∀ r, b.res = some r → a.inv ≤ r)
  comp : (completed g.log).Perm g.hist
  pendlt : ∀ t op k, g.pend t = some (op, k) → k < g.clock
  pre : ∀ t op, opOf g.s.uk g.s.val (g.s.pc t) = some op → ∃ k, g.pend t = some (op, k)
  preopen : ∀ t, lpRet c g.s.so g.s.uk g.s.val (g.s.pc t) = none → openOf t g.log = []
  post : ∀ t r, lpRet c g.s.so g.s.uk g.s.val (g.s.pc t) = some r →
    ∃ op k, g.pend t = some (op, k) ∧ openOf t g.log = [⟨t, op, r, k, none⟩]
  idle : ∀ t, g.s.pc t = .idle → g.pend t = none

def GInv (c : Cfg) (g : GSt) : Prop := ∃ L, SInvL c g.s L ∧ GI c g L

theorem ginv_init (c : Cfg) (hc : SOHyp c) : GInv c (ginit c) := by
  refine ⟨[0], sinv_init c hc, ?_⟩
  constructor <;> simp [ginit, init, runSpec, completed, opOf, lpRet, openOf, Has, mfind]

theorem opOf_none_of_post {uk val : Nat → Int} {pc : PC} {r : GRet} (h : postRet val pc = some r) :
    opOf uk val pc = none := by
  cases pc <;> simp_all [postRet, opOf]

theorem lpRet_of_post {c : Cfg} {so : Nat → Nat} {uk val : Nat → Int} {pc : PC} {r : GRet} (h : postRet val pc = some r) :
    lpRet c so uk val pc = some r := by
  cases pc <;> simp_all [postRet, lpRet]

theorem postRet_none_of_lp {c : Cfg} {so : Nat → Nat} {uk val : Nat → Int} {pc : PC} (h : lpRet c so uk val pc = none) :
    postRet val pc = none := by
  cases hp : postRet val pc with
  | none => rfl
  | some r => rw [lpRet_of_post (c := c) (so := so) (uk := uk) hp] at h; simp at h

/-- A tentative result belongs to a read-only operation. -/
theorem ro_of_tentative {c : Cfg} {so : Nat → Nat} {uk val : Nat → Int} {pc : PC} {r : GRet}
    (h : lpRet c so uk val pc = some r) (hp : postRet val pc = none) :
    ∃ op, opOf uk val pc = some op ∧ isRO op r = true := by
  cases pc <;> simp_all [postRet, lpRet, opOf]
  exact tent_ro h

theorem ginv_invoke {c : Cfg} {g : GSt} {t : Tid} {op : GOp} {s' : St} (h : GInv c g) (hs : invoke c g.s t op = some s') :
    GInv c (gnext c g t s' (.call op)) := by
  obtain ⟨L, hl, hg⟩ := h
  obtain ⟨hl', he⟩ := sinvl_invoke hl hs
  refine ⟨L, hl', ?_⟩
  obtain ⟨hspec, hinvlt, hrt, hcomp, hpendlt, hpre, hpreopen, hpost, hidle⟩ := hg
  obtain ⟨hframe, hops, hlps, hwas, hnow, habs, -, -, -, -, -⟩ := he
  have hpw : lpRet c g.s.so g.s.uk g.s.val (g.s.pc t) = none := by simp [hwas, lpRet]
  constructor
  · obtain ⟨m, hm1, hm2⟩ := hspec
    exact ⟨m, hm1, fun k v => (hm2 k v).trans (habs k v).symm⟩
  · intro e he; have := hinvlt e he; simp only [gnext]; omega
  · exact hrt
  · exact hcomp
  · intro t2 op2 k; simp only [gnext, upd]; intro h
    split at h
    · simp at h; omega
    · have := hpendlt t2 op2 k h; omega
  · intro t2 op2; simp only [gnext]
    by_cases ht : t2 = t
    · subst ht; rw [hnow.1]; intro h; simp at h; subst h; exact ⟨g.clock, by simp [upd]⟩
    · rw [hframe t2 ht, hops t2 ht]; intro h
      obtain ⟨k, hk⟩ := hpre t2 op2 h
      exact ⟨k, by simp [upd, ht, hk]⟩
  · intro t2; simp only [gnext]
    by_cases ht : t2 = t
    · subst ht; intro _; exact hpreopen t2 hpw
    · rw [hframe t2 ht, hlps t2 ht]; exact hpreopen t2
  · intro t2 r; simp only [gnext]
    by_cases ht : t2 = t
    · subst ht; rw [hnow.2]; intro h; simp at h
    · rw [hframe t2 ht, hlps t2 ht]; intro h
      obtain ⟨op2, k, h1, h2⟩ := hpost t2 r h
      exact ⟨op2, k, by simp [upd, ht, h1], h2⟩
  · intro t2; simp only [gnext]
    by_cases ht : t2 = t
    · subst ht; intro h; rw [h] at hnow; simp [opOf] at hnow
    · rw [hframe t2 ht]; intro h; simp [upd, ht, hidle t2 h]

theorem ginv_result {c : Cfg} {g : GSt} {t : Tid} {r : GRet} {s' : St} (h : GInv c g) (hs : result g.s t = some (s', r)) :
    GInv c (gnext c g t s' (.ret r)) := by
  obtain ⟨L, hl, hg⟩ := h
  obtain ⟨hl', hdone, hidl, hframe, hso, huk, hval, hmark, -, -, -⟩ := sinvl_result hl hs
  obtain ⟨hspec, hinvlt, hrt, hcomp, hpendlt, hpre, hpreopen, hpost, hidle⟩ := hg
  obtain ⟨op, k, hp, hopen⟩ := hpost t r (by simp [hdone, lpRet])
  have hcl : ∀ e, (LE.close t g.clock e).inv = e.inv := by intro e; unfold LE.close; split <;> rfl
  simp only [gnext, hp]
  refine ⟨L, hl', ?_⟩
  constructor <;> dsimp only
  · obtain ⟨m, hm1, hm2⟩ := hspec
    refine ⟨m, by rw [runSpec_close]; exact hm1, ?_⟩
    rw [huk, hval, hmark]; exact hm2
  · intro e he
    obtain ⟨e0, he0, rfl⟩ := List.mem_map.mp he
    have := hinvlt e0 he0; rw [hcl]; omega
  · rw [List.pairwise_map]
    refine List.Pairwise.imp_of_mem ?_ hrt
    intro a b ha hb hab r' hr'
    rw [hcl]
    unfold LE.close at hr'
    split at hr'
    · simp at hr'; have := hinvlt a ha; omega
    · exact hab r' hr'
  · refine (completed_close t g.clock g.log).trans ?_
    rw [hopen]
    exact List.Perm.append_right _ hcomp
  · intro t2 op2 k2 h
    simp only [upd] at h
    split at h
    · simp at h
    · have := hpendlt t2 op2 k2 h; omega
  · intro t2 op2
    by_cases ht : t2 = t
    · subst ht; rw [hidl]; simp [opOf]
    · rw [hframe t2 ht, huk, hval]; intro h
      obtain ⟨k2, hk⟩ := hpre t2 op2 h
      exact ⟨k2, by simp [upd, ht, hk]⟩
  · intro t2
    by_cases ht : t2 = t
    · subst ht; intro _; exact openOf_close_same _ _ _
    · rw [hframe t2 ht, hso, huk, hval, openOf_close_other _ _ _ ht]; exact hpreopen t2
  · intro t2 r2
    by_cases ht : t2 = t
    · subst ht; rw [hidl]; simp [lpRet]
    · rw [hframe t2 ht, hso, huk, hval, openOf_close_other _ _ _ ht]; intro h
      obtain ⟨op2, k2, h1, h2⟩ := hpost t2 r2 h
      exact ⟨op2, k2, by simp [upd, ht, h1], h2⟩
  · intro t2
    by_cases ht : t2 = t
    · subst ht; intro _; simp [upd]
    · rw [hframe t2 ht]; intro h; simp [upd, ht, hidle t2 h]

theorem ginv_step {c : Cfg} (hc : SOHyp c) {g : GSt} {t : Tid} {ev : Ev} {s' : St} (h : GInv c g) (hs : step c g.s t = some (s', ev)) :
    GInv c (gnext c g t s' (.ev ev)) := by
  obtain ⟨L, hl, hg⟩ := h
  obtain ⟨L', hl', he⟩ := sinvl_step hc hl hs
  refine ⟨L', hl', ?_⟩
  obtain ⟨hspec, hinvlt, hrt, hcomp, hpendlt, hpre, hpreopen, hpost, hidle⟩ := hg
  obtain ⟨hframe, hlps, hops, hlp, hnolp, hkeep, hpkeep, hop, hbusy, -, -, -, -, -, -, -⟩ := he
  obtain ⟨m, hm1, hm2⟩ := hspec
  -- the operation table of the moving thread
  have hpre' : ∀ op2, opOf s'.uk s'.val (s'.pc t) = some op2 → ∃ k, g.pend t = some (op2, k) := by
    intro op2
    cases hp : postRet s'.val (s'.pc t) with
    | some r => rw [opOf_none_of_post hp]; simp
    | none => rw [hop hp]; exact hpre t op2
  by_cases hLP : lpRet c g.s.so g.s.uk g.s.val (g.s.pc t) = none ∧ ∃ r, lpRet c s'.so s'.uk s'.val (s'.pc t) = some r
  · -- linearization point (tentative or definitive)
    obtain ⟨h1, r, h2⟩ := hLP
    obtain ⟨op, hopo, hnext⟩ := hlp h1 r h2
    obtain ⟨k, hk⟩ := hpre t op hopo
    obtain ⟨m', hm1', hm2'⟩ := hnext m hm2
    have hlog : (gnext c g t s' (.ev ev)).log = g.log ++ [⟨t, op, r, k, none⟩] := by
      simp only [gnext, h1, h2, hk]
    constructor
    · refine ⟨m', ?_, by simpa only [gnext] using hm2'⟩
      rw [hlog, runSpec_append, hm1]
      simp only [Option.bind_some, runSpec, hm1']
    · rw [hlog]; intro e he
      simp only [gnext]
      rcases List.mem_append.mp he with h | h
      · have := hinvlt e h; omega
      · simp at h; subst h; have := hpendlt t op k hk; simp only; omega
    · rw [hlog, List.pairwise_append]
      refine ⟨hrt, by simp, ?_⟩
      intro a _ b hb r' hr'
      simp at hb; subst hb; simp at hr'
    · rw [hlog]
      simp only [completed, List.filterMap_append, gnext] at hcomp ⊢
      have : List.filterMap LE.done? [(⟨t, op, r, k, none⟩ : LE)] = [] := by simp [LE.done?]
      rw [this, List.append_nil]; exact hcomp
    · intro t2 op2 k2 h
      simp only [gnext] at h ⊢
      have := hpendlt t2 op2 k2 h; omega
    · intro t2 op2
      simp only [gnext]
      by_cases ht : t2 = t
      · subst ht; exact hpre' op2
      · rw [hframe t2 ht, hops t2 ht]; exact hpre t2 op2
    · intro t2
      rw [hlog]; simp only [gnext]
      by_cases ht : t2 = t
      · subst ht; rw [h2]; simp
      · rw [hframe t2 ht, hlps t2 ht, openOf_append]; intro h
        rw [hpreopen t2 h]
        have : t ≠ t2 := fun e => ht e.symm
        simp [openOf, this]
    · intro t2 r2
      rw [hlog]; simp only [gnext]
      by_cases ht : t2 = t
      · subst ht; rw [h2]; intro h; simp at h; subst h
        refine ⟨op, k, hk, ?_⟩
        rw [openOf_append, hpreopen t2 h1]
        simp [openOf]
      · rw [hframe t2 ht, hlps t2 ht, openOf_append]; intro h
        obtain ⟨op2, k2, h3, h4⟩ := hpost t2 r2 h
        refine ⟨op2, k2, h3, ?_⟩
        rw [h4]
        have : t ≠ t2 := fun e => ht e.symm
        simp [openOf, this]
    · intro t2
      simp only [gnext]
      by_cases ht : t2 = t
      · subst ht; intro h; exact absurd h hbusy.2
      · rw [hframe t2 ht]; exact hidle t2
  · by_cases hAB : (∃ r, lpRet c g.s.so g.s.uk g.s.val (g.s.pc t) = some r) ∧ lpRet c s'.so s'.uk s'.val (s'.pc t) = none
    · -- a tentative linearization is withdrawn: the entry is read-only and leaves the log
      obtain ⟨⟨r, h1⟩, h2⟩ := hAB
      have hro : ∃ op, opOf g.s.uk g.s.val (g.s.pc t) = some op ∧ isRO op r = true := by
        rcases hkeep r h1 with h | h
        · rw [h2] at h; simp at h
        · exact h.1
      have hhas := hnolp (Or.inr h2)
      obtain ⟨op, k, hk, hopen⟩ := hpost t r h1
      have hlog : (gnext c g t s' (.ev ev)).log = dropOpen t g.log := by
        simp only [gnext, h1, h2]
      constructor
      · refine ⟨m, ?_, fun k v => (hm2 k v).trans (by simpa only [gnext] using (hhas k v).symm)⟩
        rw [hlog]
        apply runSpec_dropOpen _ _ _ _ _ hm1
        intro e he; rw [hopen] at he; simp at he; rw [he]
        obtain ⟨op', ho1, ho2⟩ := hro
        obtain ⟨k', hk'⟩ := hpre t op' ho1
        rw [hk] at hk'; simp at hk'
        simp only; rw [hk'.1]; exact ho2
      · rw [hlog]; intro e he; have := hinvlt e (mem_dropOpen he); simp only [gnext]; omega
      · rw [hlog]; exact hrt.sublist (dropOpen_sublist t g.log)
      · rw [hlog, completed_dropOpen]; exact hcomp
      · intro t2 op2 k2 h
        simp only [gnext] at h ⊢
        have := hpendlt t2 op2 k2 h; omega
      · intro t2 op2
        simp only [gnext]
        by_cases ht : t2 = t
        · subst ht; exact hpre' op2
        · rw [hframe t2 ht, hops t2 ht]; exact hpre t2 op2
      · intro t2
        rw [hlog]; simp only [gnext]
        by_cases ht : t2 = t
        · subst ht; intro _; exact openOf_dropOpen_same _ _
        · rw [hframe t2 ht, hlps t2 ht, openOf_dropOpen_other _ _ ht]; exact hpreopen t2
      · intro t2 r2
        rw [hlog]; simp only [gnext]
        by_cases ht : t2 = t
        · subst ht; rw [h2]; intro h; simp at h
        · rw [hframe t2 ht, hlps t2 ht, openOf_dropOpen_other _ _ ht]; exact hpost t2 r2
      · intro t2
        simp only [gnext]
        by_cases ht : t2 = t
        · subst ht; intro h; exact absurd h hbusy.2
        · rw [hframe t2 ht]; exact hidle t2
    · -- neither: the thread's linearization status is unchanged
      have hEq : lpRet c s'.so s'.uk s'.val (s'.pc t) = lpRet c g.s.so g.s.uk g.s.val (g.s.pc t) := by
        cases h1 : lpRet c g.s.so g.s.uk g.s.val (g.s.pc t) with
        | none =>
          cases h2 : lpRet c s'.so s'.uk s'.val (s'.pc t) with
          | none => rfl
          | some r => exact absurd ⟨h1, r, h2⟩ hLP
        | some r =>
          rcases hkeep r h1 with h | h
          · exact h
          · exact absurd ⟨⟨r, h1⟩, h.2⟩ hAB
      have hc : lpRet c g.s.so g.s.uk g.s.val (g.s.pc t) ≠ none ∨ lpRet c s'.so s'.uk s'.val (s'.pc t) = none := by
        cases h1 : lpRet c g.s.so g.s.uk g.s.val (g.s.pc t) with
        | none => right; rw [hEq, h1]
        | some r => left; simp
      have hhas := hnolp hc
      have hlog : (gnext c g t s' (.ev ev)).log = g.log := by
        simp only [gnext]
        split
        next h1 h2 _ => exact absurd ⟨h1, _, h2⟩ hLP
        next h1 h2 => exact absurd ⟨⟨_, h1⟩, h2⟩ hAB
        next => rfl
      constructor
      · refine ⟨m, by rw [hlog]; exact hm1, fun k v => (hm2 k v).trans (by simpa only [gnext] using (hhas k v).symm)⟩
      · rw [hlog]; intro e he; have := hinvlt e he; simp only [gnext]; omega
      · rw [hlog]; exact hrt
      · rw [hlog]; exact hcomp
      · intro t2 op2 k2 h
        simp only [gnext] at h ⊢
        have := hpendlt t2 op2 k2 h; omega
      · intro t2 op2
        simp only [gnext]
        by_cases ht : t2 = t
        · subst ht; exact hpre' op2
        · rw [hframe t2 ht, hops t2 ht]; exact hpre t2 op2
      · intro t2
        rw [hlog]; simp only [gnext]
        by_cases ht : t2 = t
        · subst ht; rw [hEq]; exact hpreopen t2
        · rw [hframe t2 ht, hlps t2 ht]; exact hpreopen t2
      · intro t2 r2
        rw [hlog]; simp only [gnext]
        by_cases ht : t2 = t
        · subst ht; rw [hEq]; exact hpost t2 r2
        · rw [hframe t2 ht, hlps t2 ht]; exact hpost t2 r2
      · intro t2
        simp only [gnext]
        by_cases ht : t2 = t
        · subst ht; intro h; exact absurd h hbusy.2
        · rw [hframe t2 ht]; exact hidle t2

theorem gnext_s (c : Cfg) (g : GSt) (t : Tid) (s' : St) (o : Obs) : (gnext c g t s' o).s = s' := by
  cases o <;> simp only [gnext]
  split <;> rfl

theorem gnext_clock (c : Cfg) (g : GSt) (t : Tid) (s' : St) (o : Obs) : (gnext c g t s' o).clock = g.clock + 1 := by
  cases o <;> simp only [gnext]
  split <;> rfl

theorem gnext_hist (c : Cfg) (g : GSt) (t : Tid) (s' : St) (o : Obs) (os : List (Tid × Obs)) :
    (gnext c g t s' o).hist ++ histAux (g.clock + 1) (gnext c g t s' o).pend os
      = g.hist ++ histAux g.clock g.pend ((t, o) :: os) := by
  cases o with
  | call op => simp only [gnext, histAux]
  | ev e => simp only [gnext, histAux]
  | ret r =>
    simp only [gnext, histAux]
    cases hp : g.pend t with
    | none => simp only
    | some p => obtain ⟨op, k⟩ := p; simp only [List.append_assoc, List.singleton_append]

theorem gnext_pend (c : Cfg) (g : GSt) (t : Tid) (s' : St) (o : Obs) (os : List (Tid × Obs)) :
    pendAux (g.clock + 1) (gnext c g t s' o).pend os = pendAux g.clock g.pend ((t, o) :: os) := by
  cases o with
  | call op => simp only [gnext, pendAux]
  | ev e => simp only [gnext, pendAux]
  | ret r =>
    simp only [gnext, pendAux]
    cases hp : g.pend t with
    | none => simp only
    | some p => obtain ⟨op, k⟩ := p; simp only

theorem ginv_apply {c : Cfg} (hc : SOHyp c) {g : GSt} {t : Tid} {a : Act} {s' : St} {o : Obs} (h : GInv c g)
    (hap : (model c).apply g.s t a = some (s', o)) : GInv c (gnext c g t s' o) := by
  cases a with
  | invoke op =>
    simp only [Model.apply, model, Option.map_eq_some_iff] at hap
    obtain ⟨s1, hs1, heq⟩ := hap
    simp only [Prod.mk.injEq] at heq
    obtain ⟨rfl, rfl⟩ := heq
    exact ginv_invoke h hs1
  | step =>
    simp only [Model.apply, model, Option.map_eq_some_iff] at hap
    obtain ⟨⟨s1, e⟩, hs1, heq⟩ := hap
    simp only [Prod.mk.injEq] at heq
    obtain ⟨rfl, rfl⟩ := heq
    exact ginv_step hc h hs1
  | ret =>
    simp only [Model.apply, model, Option.map_eq_some_iff] at hap
    obtain ⟨⟨s1, r⟩, hs1, heq⟩ := hap
    simp only [Prod.mk.injEq] at heq
    obtain ⟨rfl, rfl⟩ := heq
    exact ginv_result h hs1

/-! ### Every operation takes effect at an instant strictly inside its interval -/

/-- In state `s1` the abstract map answers `op` with `r` (the sequential specification on `absMap s1`). -/
def Answers (s1 : St) (op : GOp) (r : GRet) : Prop := ∃ m', Spec.map.next (absMap s1) op r = some m'

/-- Second ghost invariant: every operation that has fixed its result `r` (tentatively or definitively), and every
    operation that has returned, has an instant `j` after its call (and before its return) at which the abstract map
    answered the operation with `r`. -/
structure GE (c : Cfg) (g : GSt) : Prop where
  tlen : g.trace.length = g.clock
  histw : ∀ r, r ∈ g.hist → ∃ j s1, r.inv < j ∧ j < r.res ∧ g.trace[j]? = some s1 ∧ Answers s1 r.op r.ret
  pendw : ∀ t r, lpRet c g.s.so g.s.uk g.s.val (g.s.pc t) = some r →
    ∃ j s1 op k, g.pend t = some (op, k) ∧ k < j ∧ j < g.clock ∧ g.trace[j]? = some s1 ∧ Answers s1 op r

theorem ge_init (c : Cfg) : GE c (ginit c) := by
  constructor <;> simp [ginit, init, lpRet]

theorem getElem?_snoc_of_some {α : Type} {l : List α} {j : Nat} {x y : α} (h : l[j]? = some x) :
    (l ++ [y])[j]? = some x := by
  have hj : j < l.length := by
    cases hlt : decide (j < l.length) with
    | true => simpa using hlt
    | false => simp at hlt; rw [List.getElem?_eq_none hlt] at h; simp at h
  rw [List.getElem?_append_left hj]; exact h

theorem ge_invoke {c : Cfg} {g : GSt} {t : Tid} {op : GOp} {s' : St} (h : GInv c g) (he : GE c g)
    (hs : invoke c g.s t op = some s') : GE c (gnext c g t s' (.call op)) := by
  obtain ⟨L, hl, hg⟩ := h
  obtain ⟨-, hie⟩ := sinvl_invoke hl hs
  obtain ⟨htlen, hhist, hpend⟩ := he
  constructor
  · simp only [gnext, List.length_append, List.length_singleton, htlen]
  · intro r hr
    obtain ⟨j, s1, h1, h2, h3, h4⟩ := hhist r hr
    exact ⟨j, s1, h1, h2, getElem?_snoc_of_some h3, h4⟩
  · intro t2 r
    simp only [gnext]
    by_cases ht : t2 = t
    · subst ht; rw [hie.now.2]; intro h; simp at h
    · rw [hie.frame t2 ht, hie.lps t2 ht]; intro h
      obtain ⟨j, s1, op2, k, h1, h2, h3, h4, h5⟩ := hpend t2 r h
      exact ⟨j, s1, op2, k, by simp [upd, ht, h1], h2, by omega, getElem?_snoc_of_some h4, h5⟩

theorem ge_result {c : Cfg} {g : GSt} {t : Tid} {r : GRet} {s' : St} (h : GInv c g) (he : GE c g)
    (hs : result g.s t = some (s', r)) : GE c (gnext c g t s' (.ret r)) := by
  obtain ⟨L, hl, hg⟩ := h
  obtain ⟨-, hdone, hidl, hframe, hso, huk, hval, -, -, -, -⟩ := sinvl_result hl hs
  obtain ⟨htlen, hhist, hpend⟩ := he
  obtain ⟨op, k, hp, -⟩ := hg.post t r (by simp [hdone, lpRet])
  simp only [gnext, hp]
  constructor <;> dsimp only
  · simp only [List.length_append, List.length_singleton, htlen]
  · intro r0 hr
    rcases List.mem_append.mp hr with hr | hr
    · obtain ⟨j, s1, h1, h2, h3, h4⟩ := hhist r0 hr
      exact ⟨j, s1, h1, h2, getElem?_snoc_of_some h3, h4⟩
    · simp at hr; subst hr
      obtain ⟨j, s1, op2, k2, h1, h2, h3, h4, h5⟩ := hpend t r (by rw [hdone]; simp [lpRet])
      rw [hp] at h1; simp at h1
      obtain ⟨rfl, rfl⟩ := h1
      exact ⟨j, s1, h2, h3, getElem?_snoc_of_some h4, h5⟩
  · intro t2 r2
    by_cases ht : t2 = t
    · subst ht; rw [hidl]; intro h; simp [lpRet] at h
    · rw [hframe t2 ht, hso, huk, hval]; intro h
      obtain ⟨j, s1, op2, k2, h1, h2, h3, h4, h5⟩ := hpend t2 r2 h
      exact ⟨j, s1, op2, k2, by simp [upd, ht, h1], h2, by omega, getElem?_snoc_of_some h4, h5⟩

theorem ge_step {c : Cfg} (hc : SOHyp c) {g : GSt} {t : Tid} {ev : Ev} {s' : St} (h : GInv c g) (he : GE c g)
    (hs : step c g.s t = some (s', ev)) : GE c (gnext c g t s' (.ev ev)) := by
  obtain ⟨L, hl, hg⟩ := h
  obtain ⟨L', hl', hse⟩ := sinvl_step hc hl hs
  obtain ⟨htlen, hhist, hpend⟩ := he
  constructor
  · simp only [gnext, List.length_append, List.length_singleton, htlen]
  · intro r hr
    obtain ⟨j, s1, h1, h2, h3, h4⟩ := hhist r hr
    exact ⟨j, s1, h1, h2, getElem?_snoc_of_some h3, h4⟩
  · intro t2 r
    simp only [gnext]
    by_cases ht : t2 = t
    · subst ht
      intro h2
      cases h1 : lpRet c g.s.so g.s.uk g.s.val (g.s.pc t2) with
      | none =>
        -- the (tentative) linearization point: the state before this very step
        obtain ⟨op, ho, hok⟩ := hse.lp h1 r h2
        obtain ⟨m', hm1, -⟩ := hok (absMap g.s) hl.mfind_absMap
        obtain ⟨k, hk⟩ := hg.pre t2 op ho
        refine ⟨g.clock, g.s, op, k, hk, hg.pendlt _ _ _ hk, by omega, ?_, m', hm1⟩
        rw [List.getElem?_append_right (by omega)]; simp [htlen]
      | some r0 =>
        have hr : r0 = r := by
          rcases hse.keep r0 h1 with h | h
          · rw [h2] at h; simp at h; exact h.symm
          · rw [h.2] at h2; simp at h2
        subst hr
        obtain ⟨j, s1, op2, k, e1, e2, e3, e4, e5⟩ := hpend t2 r0 h1
        exact ⟨j, s1, op2, k, e1, e2, by omega, getElem?_snoc_of_some e4, e5⟩
    · rw [hse.frame t2 ht, hse.lps t2 ht]; intro h
      obtain ⟨j, s1, op2, k, h1, h2, h3, h4, h5⟩ := hpend t2 r h
      exact ⟨j, s1, op2, k, h1, h2, by omega, getElem?_snoc_of_some h4, h5⟩

theorem ge_apply {c : Cfg} (hc : SOHyp c) {g : GSt} {t : Tid} {a : Act} {s' : St} {o : Obs} (h : GInv c g) (he : GE c g)
    (hap : (model c).apply g.s t a = some (s', o)) : GE c (gnext c g t s' o) := by
  cases a with
  | invoke op =>
    simp only [Model.apply, model, Option.map_eq_some_iff] at hap
    obtain ⟨s1, hs1, heq⟩ := hap
    simp only [Prod.mk.injEq] at heq
    obtain ⟨rfl, rfl⟩ := heq
    exact ge_invoke h he hs1
  | step =>
    simp only [Model.apply, model, Option.map_eq_some_iff] at hap
    obtain ⟨⟨s1, e⟩, hs1, heq⟩ := hap
    simp only [Prod.mk.injEq] at heq
    obtain ⟨rfl, rfl⟩ := heq
    exact ge_step hc h he hs1
  | ret =>
    simp only [Model.apply, model, Option.map_eq_some_iff] at hap
    obtain ⟨⟨s1, r⟩, hs1, heq⟩ := hap
    simp only [Prod.mk.injEq] at heq
    obtain ⟨rfl, rfl⟩ := heq
    exact ge_result h he hs1

theorem gnext_trace (c : Cfg) (g : GSt) (t : Tid) (s' : St) (o : Obs) : (gnext c g t s' o).trace = g.trace ++ [g.s] := by
  cases o <;> simp only [gnext]
  split <;> rfl

/-- The states a run passes through: `(statesOf s sched)[j]` is the state before action `j`. -/
def statesOf (c : Cfg) : St → List (Tid × Act) → List St
  | _, [] => []
  | s, (t, a) :: rest =>
    s :: (match (model c).apply s t a with
      | some (s', _) => statesOf c s' rest
      | none => [])

/-- `(statesOf s sched)[j]` is the state reached by the first `j` actions of the run, which produce the first `j`
    observations. -/
theorem statesOf_prefix (c : Cfg) : ∀ (sched : List (Tid × Act)) (s s' : St) (os : List (Tid × Obs)) (j : Nat) (s1 : St),
    (model c).run s sched = some (s', os) → (statesOf c s sched)[j]? = some s1 →
    (model c).run s (sched.take j) = some (s1, os.take j) := by
  intro sched
  induction sched with
  | nil => intro s s' os j s1 _ h; simp [statesOf] at h
  | cons x rest ih =>
    intro s s' os j s1 hr h
    obtain ⟨t, a⟩ := x
    simp only [Model.run] at hr
    cases hap : (model c).apply s t a with
    | none => simp [hap] at hr
    | some p =>
      obtain ⟨s2, o⟩ := p
      simp only [hap] at hr
      cases hrr : (model c).run s2 rest with
      | none => simp [hrr] at hr
      | some q =>
        obtain ⟨s3, os2⟩ := q
        simp only [hrr, Option.some.injEq, Prod.mk.injEq] at hr
        obtain ⟨rfl, rfl⟩ := hr
        cases j with
        | zero =>
          simp [statesOf] at h
          subst h
          simp [Model.run]
        | succ j =>
          simp only [statesOf, hap, List.getElem?_cons_succ] at h
          have := ih s2 s3 os2 j s1 hrr h
          simp only [List.take_succ_cons, Model.run, hap, this]

/-- Every run of the model lifts to an instrumented run: the ghost state at the end satisfies the invariants, and
    its `hist` / `pend` / `trace` are the history / pending table / state sequence of the run. -/
theorem run_ghost {c : Cfg} (hc : SOHyp c) : ∀ (sched : List (Tid × Act)) (g : GSt) (s' : St) (os : List (Tid × Obs)),
    GInv c g → GE c g → (model c).run g.s sched = some (s', os) →
    ∃ g', GInv c g' ∧ GE c g' ∧ g'.s = s' ∧ g'.hist = g.hist ++ histAux g.clock g.pend os ∧
      g'.pend = pendAux g.clock g.pend os ∧ g'.clock = g.clock + os.length ∧
      g'.trace = g.trace ++ statesOf c g.s sched := by
  intro sched
  induction sched with
  | nil =>
    intro g s' os hg he hr
    simp [Model.run] at hr
    obtain ⟨rfl, rfl⟩ := hr
    exact ⟨g, hg, he, rfl, by simp [histAux], by simp [pendAux], by simp, by simp [statesOf]⟩
  | cons x rest ih =>
    intro g s' os hg he hr
    obtain ⟨t, a⟩ := x
    simp only [Model.run] at hr
    cases hap : (model c).apply g.s t a with
    | none => simp [hap] at hr
    | some p =>
      obtain ⟨s1, o⟩ := p
      simp only [hap] at hr
      cases hrr : (model c).run s1 rest with
      | none => simp [hrr] at hr
      | some q =>
        obtain ⟨s2, os2⟩ := q
        simp only [hrr, Option.some.injEq, Prod.mk.injEq] at hr
        obtain ⟨rfl, rfl⟩ := hr
        have hg1 := ginv_apply hc hg hap
        have he1 := ge_apply hc hg he hap
        have hrr' : (model c).run (gnext c g t s1 o).s rest = some (s2, os2) := by rw [gnext_s]; exact hrr
        obtain ⟨g', hg', he', hs', hh, hp, hc, htr⟩ := ih (gnext c g t s1 o) s2 os2 hg1 he1 hrr'
        refine ⟨g', hg', he', hs', ?_, ?_, ?_, ?_⟩
        · rw [hh, gnext_clock, gnext_hist]
        · rw [hp, gnext_clock, gnext_pend]
        · rw [hc, gnext_clock]; simp; omega
        · rw [htr, gnext_trace, gnext_s]; simp [statesOf, hap]

/-! ### From the ghost invariant to linearizability -/

/-- Logged operations that have not returned. -/
def openAll (log : List LE) : List LE := log.filter (fun e => !e.res.isSome)

theorem completed_openAll_perm (c : Nat) (l : List LE) :
    (completed l ++ (openAll l).map (LE.fin c)).Perm (l.map (LE.fin c)) := by
  induction l with
  | nil => exact List.Perm.refl _
  | cons e l ih =>
    simp only [completed, openAll, List.filterMap_cons, List.filter_cons, List.map_cons] at ih ⊢
    cases hr : e.res with
    | none =>
      simp only [LE.done?, hr, Option.map_none, Option.isSome_none, Bool.not_false, if_true, List.map_cons]
      exact List.perm_middle.trans (List.Perm.cons _ ih)
    | some r =>
      have : LE.fin c e = ⟨e.tid, e.op, e.ret, e.inv, r⟩ := by simp [LE.fin, hr]
      simp only [LE.done?, hr, Option.map_some, Option.isSome_some, Bool.not_true, Bool.false_eq_true, if_false,
        List.cons_append, this]
      exact List.Perm.cons _ ih

theorem openAll_pairwise (l : List LE) (h : ∀ t, (openOf t l).length ≤ 1) :
    (openAll l).Pairwise (fun a b => a.tid ≠ b.tid) := by
  induction l with
  | nil => exact List.Pairwise.nil
  | cons e l ih =>
    have hl : ∀ t, (openOf t l).length ≤ 1 := by
      intro t
      have h1 := h t
      have h2 : (openOf t l).length ≤ (openOf t (e :: l)).length := by
        simp only [openOf, List.filter_cons]; split <;> simp
      omega
    simp only [openAll, List.filter_cons]
    split
    next hr =>
      refine List.Pairwise.cons ?_ (ih hl)
      intro b hb hne
      have hb' := List.mem_filter.mp hb
      have hr' : e.res = none := by cases h : e.res <;> simp_all
      have hbr : b.res = none := by cases h : b.res <;> simp_all
      have hmem : b ∈ openOf e.tid l := by
        simp only [openOf, List.mem_filter]
        exact ⟨hb'.1, by simp [hne, hbr]⟩
      have := h e.tid
      simp only [openOf, List.filter_cons, hr', and_self, decide_true, if_true, List.length_cons] at this
      have hpos : 0 < (openOf e.tid l).length := List.length_pos_of_mem hmem
      simp only [openOf] at hpos
      omega
    next => exact ih hl

/-- The log without the open read-only entries (tentative, or definitive but not yet returned): these are pending
    operations, and the final linearization simply drops them. -/
def keepLE (e : LE) : Bool := !(e.res.isNone && isRO e.op e.ret)
def finalLog (log : List LE) : List LE := log.filter keepLE

theorem keepLE_false {e : LE} (h : keepLE e = false) : e.res = none ∧ isRO e.op e.ret = true := by
  simp only [keepLE, Bool.not_eq_false', Bool.and_eq_true, Option.isNone_iff_eq_none] at h
  exact h

theorem openAll_finalLog_sublist (log : List LE) : (openAll (finalLog log)).Sublist (openAll log) :=
  List.Sublist.filter _ List.filter_sublist

/-- The linearization extracted from the ghost log. -/
theorem ginv_linearizable {c : Cfg} {g : GSt} (h : GInv c g) :
    Linearizable Spec.map (g.hist ++ (openAll (finalLog g.log)).map (LE.fin g.clock)) ∧
    (∀ e ∈ (openAll (finalLog g.log)).map (LE.fin g.clock),
        g.pend e.tid = some (e.op, e.inv) ∧ e.res = g.clock ∧ postRet g.s.val (g.s.pc e.tid) = some e.ret) ∧
    ((openAll (finalLog g.log)).map (LE.fin g.clock)).Pairwise (fun a b => a.tid ≠ b.tid) := by
  obtain ⟨L, hl, hg⟩ := h
  obtain ⟨hspec, hinvlt, hrt, hcomp, hpendlt, hpre, hpreopen, hpost, hidle⟩ := hg
  obtain ⟨m, hm1, -⟩ := hspec
  have hsub : (finalLog g.log).Sublist g.log := List.filter_sublist
  have hcompl : completed (finalLog g.log) = completed g.log :=
    completed_filter_open keepLE g.log (fun e _ hk => (keepLE_false hk).1)
  refine ⟨⟨(finalLog g.log).map (LE.fin g.clock), ?_, ?_, ?_⟩, ?_, ?_⟩
  · refine (completed_openAll_perm g.clock (finalLog g.log)).symm.trans (List.Perm.append_right _ ?_)
    rw [hcompl]; exact hcomp
  · unfold RespectsRT
    rw [List.pairwise_map]
    refine List.Pairwise.imp_of_mem ?_ (hrt.sublist hsub)
    intro a b ha _ hab
    simp only [LE.fin]
    cases hr : b.res with
    | none => have := hinvlt a (hsub.subset ha); simp; omega
    | some r => have := hab r hr; simp; omega
  · exact legal_of_runSpec g.clock (finalLog g.log) [] _
      (runSpec_filter keepLE g.log [] _ (fun e _ hk => (keepLE_false hk).2) hm1)
  · intro e' he'
    obtain ⟨e, he, rfl⟩ := List.mem_map.mp he'
    have he2 := List.mem_filter.mp he
    have he3 := List.mem_filter.mp he2.1
    have hr : e.res = none := by cases h : e.res <;> simp_all
    have hr0 : isRO e.op e.ret ≠ true := by
      intro h0
      have := he3.2
      simp [keepLE, hr, h0] at this
    have hmem : e ∈ openOf e.tid g.log := by
      simp only [openOf, List.mem_filter]; exact ⟨he3.1, by simp [hr]⟩
    cases hp : lpRet c g.s.so g.s.uk g.s.val (g.s.pc e.tid) with
    | none => rw [hpreopen e.tid hp] at hmem; simp at hmem
    | some r =>
      obtain ⟨op, k, h1, h2⟩ := hpost e.tid r hp
      rw [h2] at hmem
      simp at hmem
      have e1 : e.op = op := by rw [hmem]
      have e2 : e.inv = k := by rw [hmem]
      have e3 : e.ret = r := by rw [hmem]
      have hpr : postRet g.s.val (g.s.pc e.tid) = some r := by
        cases hq : postRet g.s.val (g.s.pc e.tid) with
        | some r' =>
          have := lpRet_of_post (c := c) (so := g.s.so) (uk := g.s.uk) hq
          rw [hp] at this; simp at this; rw [this]
        | none =>
          obtain ⟨op', ho1, ho2⟩ := ro_of_tentative hp hq
          obtain ⟨k', hk'⟩ := hpre e.tid op' ho1
          rw [h1] at hk'; simp at hk'
          rw [e1, e3, hk'.1] at hr0
          exact absurd ho2 hr0
      simp [LE.fin, hr, h1, e1, e2, e3, hpr]
  · rw [List.pairwise_map]
    refine (openAll_pairwise g.log ?_).sublist (openAll_finalLog_sublist g.log)
    intro t
    cases hp : lpRet c g.s.so g.s.uk g.s.val (g.s.pc t) with
    | none => rw [hpreopen t hp]; simp
    | some r => obtain ⟨op, k, -, h2⟩ := hpost t r hp; rw [h2]; simp

/-! ### Soundness of `historyOf` / `pendingOf`: records point at the right observations -/

theorem histAux_mem : ∀ (os : List (Tid × Obs)) (i : Nat) (pend : Pend) (r : OpRec GOp GRet),
    r ∈ histAux i pend os →
    ∃ j, r.res = i + j ∧ os[j]? = some (r.tid, .ret r.ret) ∧
      (pend r.tid = some (r.op, r.inv) ∨
        ∃ j0, j0 < j ∧ r.inv = i + j0 ∧ os[j0]? = some (r.tid, .call r.op)) := by
  intro os
  induction os with
  | nil => intro i pend r h; simp [histAux] at h
  | cons x os ih =>
    intro i pend r h
    obtain ⟨t, o⟩ := x
    cases o with
    | call op =>
      simp only [histAux] at h
      obtain ⟨j, h1, h2, h3⟩ := ih _ _ r h
      refine ⟨j + 1, by omega, by simpa using h2, ?_⟩
      rcases h3 with h3 | ⟨j0, h4, h5, h6⟩
      · by_cases ht : r.tid = t
        · rw [ht] at h3; simp [upd] at h3
          right; exact ⟨0, by omega, by omega, by simp [ht, h3.1]⟩
        · left; simpa [upd, ht] using h3
      · right; exact ⟨j0 + 1, by omega, by omega, by simpa using h6⟩
    | ev e =>
      simp only [histAux] at h
      obtain ⟨j, h1, h2, h3⟩ := ih _ _ r h
      refine ⟨j + 1, by omega, by simpa using h2, ?_⟩
      rcases h3 with h3 | ⟨j0, h4, h5, h6⟩
      · left; exact h3
      · right; exact ⟨j0 + 1, by omega, by omega, by simpa using h6⟩
    | ret rv =>
      simp only [histAux] at h
      cases hp : pend t with
      | none =>
        simp only [hp] at h
        obtain ⟨j, h1, h2, h3⟩ := ih _ _ r h
        refine ⟨j + 1, by omega, by simpa using h2, ?_⟩
        rcases h3 with h3 | ⟨j0, h4, h5, h6⟩
        · left; exact h3
        · right; exact ⟨j0 + 1, by omega, by omega, by simpa using h6⟩
      | some p =>
        obtain ⟨op, k⟩ := p
        simp only [hp, List.mem_cons] at h
        rcases h with h | h
        · subst h
          exact ⟨0, by simp, by simp, Or.inl hp⟩
        · obtain ⟨j, h1, h2, h3⟩ := ih _ _ r h
          refine ⟨j + 1, by omega, by simpa using h2, ?_⟩
          rcases h3 with h3 | ⟨j0, h4, h5, h6⟩
          · by_cases ht : r.tid = t
            · rw [ht] at h3; simp [upd] at h3
            · left; simpa [upd, ht] using h3
          · right; exact ⟨j0 + 1, by omega, by omega, by simpa using h6⟩

/-- Every record of `historyOf os` is an operation of `os`: `inv` is the index of its call, `res` the index of its
    return, and the call precedes the return. -/
theorem historyOf_sound (os : List (Tid × Obs)) (r : OpRec GOp GRet) (h : r ∈ historyOf os) :
    os[r.inv]? = some (r.tid, .call r.op) ∧ os[r.res]? = some (r.tid, .ret r.ret) ∧ r.inv < r.res := by
  obtain ⟨j, h1, h2, h3⟩ := histAux_mem os 0 (fun _ => none) r h
  rcases h3 with h3 | ⟨j0, h4, h5, h6⟩
  · simp at h3
  · have e1 : r.res = j := by omega
    have e2 : r.inv = j0 := by omega
    rw [e1, e2]; exact ⟨h6, h2, h4⟩

theorem pendAux_some : ∀ (os : List (Tid × Obs)) (i : Nat) (pend : Pend) (t : Tid) (op : GOp) (k : Nat),
    pendAux i pend os t = some (op, k) →
    pend t = some (op, k) ∨ ∃ j0, k = i + j0 ∧ os[j0]? = some (t, .call op) := by
  intro os
  induction os with
  | nil => intro i pend t op k h; left; simpa [pendAux] using h
  | cons x os ih =>
    intro i pend t op k h
    obtain ⟨t1, o⟩ := x
    have shift : (∃ j0, k = i + 1 + j0 ∧ os[j0]? = some (t, .call op)) →
        ∃ j0, k = i + j0 ∧ ((t1, o) :: os)[j0]? = some (t, .call op) := by
      rintro ⟨j0, h1, h2⟩; exact ⟨j0 + 1, by omega, by simpa using h2⟩
    cases o with
    | call op1 =>
      simp only [pendAux] at h
      rcases ih _ _ t op k h with h3 | h3
      · by_cases ht : t = t1
        · subst ht; simp [upd] at h3
          right; exact ⟨0, by omega, by simp [h3.1]⟩
        · left; simpa [upd, ht] using h3
      · right; exact shift h3
    | ev e =>
      simp only [pendAux] at h
      rcases ih _ _ t op k h with h3 | h3
      · left; exact h3
      · right; exact shift h3
    | ret rv =>
      simp only [pendAux] at h
      cases hp : pend t1 with
      | none =>
        simp only [hp] at h
        rcases ih _ _ t op k h with h3 | h3
        · left; exact h3
        · right; exact shift h3
      | some p =>
        simp only [hp] at h
        rcases ih _ _ t op k h with h3 | h3
        · by_cases ht : t = t1
          · subst ht; simp [upd] at h3
          · left; simpa [upd, ht] using h3
        · right; exact shift h3

/-- A pending operation of `pendingOf os` is an operation of `os`: its `call` observation is at the recorded index. -/
theorem pendingOf_sound (os : List (Tid × Obs)) (t : Tid) (op : GOp) (k : Nat)
    (h : pendingOf os t = some (op, k)) : os[k]? = some (t, .call op) := by
  rcases pendAux_some os 0 (fun _ => none) t op k h with h3 | ⟨j0, h1, h2⟩
  · simp at h3
  · have : k = j0 := by omega
    rw [this]; exact h2


/-! ### Main theorems -/

theorem run_ghost_init {c : Cfg} (hc : SOHyp c) {sched : List (Tid × Act)} {s : St} {os : List (Tid × Obs)}
    (h : (model c).run (init c) sched = some (s, os)) :
    ∃ g, GInv c g ∧ GE c g ∧ g.s = s ∧ g.hist = historyOf os ∧ g.pend = pendingOf os ∧ g.clock = os.length ∧
      g.trace = statesOf c (init c) sched := by
  obtain ⟨g, hg, he, h1, h2, h3, h4, h5⟩ := run_ghost hc sched (ginit c) s os (ginv_init c hc) (ge_init c) h
  exact ⟨g, hg, he, h1, by simpa [ginit, historyOf] using h2, by simpa [ginit, pendingOf] using h3,
    by simpa [ginit] using h4, by simpa [ginit] using h5⟩

/-- **Linearizability of the split list** (Herlihy–Wing, with completion of pending operations).
    For every run of the model, the history of the completed operations, extended by response records `extra` for
    SOME of the operations still pending at the end (operations that have passed their linearization point
    definitively — `postRet` — and change the map: successful inserts and erases; they get the result fixed there
    and the response time "end of the run"; at most one per thread), is linearizable to the sequential map.  All other
    pending operations are dropped (among them all pending read-only operations, tentative or not). -/
theorem splitlist_linearizable {c : Cfg} (hc : SOHyp c) (sched : List (Tid × Act)) (s : St) (os : List (Tid × Obs))
    (h : (model c).run (init c) sched = some (s, os)) :
    ∃ extra : List (OpRec GOp GRet),
      (∀ e ∈ extra, pendingOf os e.tid = some (e.op, e.inv) ∧ e.res = os.length ∧
          postRet s.val (s.pc e.tid) = some e.ret) ∧
      extra.Pairwise (fun a b => a.tid ≠ b.tid) ∧
      Linearizable Spec.map (historyOf os ++ extra) := by
  obtain ⟨g, hg, -, rfl, h2, h3, h4, -⟩ := run_ghost_init hc h
  obtain ⟨hlin, hex, hpw⟩ := ginv_linearizable hg
  rw [h2, h3, h4] at *
  exact ⟨_, hex, hpw, hlin⟩

/-- If no thread is between its (definitive) linearization point and its return at the end of the run (threads may
    be idle or in the middle of an operation that has not taken effect), the history of the completed operations
    is linearizable as it is. -/
theorem splitlist_linearizable_no_effect_pending {c : Cfg} (hc : SOHyp c) (sched : List (Tid × Act)) (s : St) (os : List (Tid × Obs))
    (h : (model c).run (init c) sched = some (s, os)) (hq : ∀ t, postRet s.val (s.pc t) = none) :
    Linearizable Spec.map (historyOf os) := by
  obtain ⟨extra, hex, -, hlin⟩ := splitlist_linearizable hc sched s os h
  have : extra = [] := by
    apply List.eq_nil_iff_forall_not_mem.mpr
    intro e he
    have := (hex e he).2.2
    rw [hq] at this; simp at this
  simpa [this] using hlin

/-- Runs in which every invoked operation has returned. -/
theorem splitlist_linearizable_complete_runs {c : Cfg} (hc : SOHyp c) (sched : List (Tid × Act)) (s : St) (os : List (Tid × Obs))
    (h : (model c).run (init c) sched = some (s, os)) (hq : ∀ t, s.pc t = .idle) :
    Linearizable Spec.map (historyOf os) :=
  splitlist_linearizable_no_effect_pending hc sched s os h (fun t => by simp [hq t, postRet])

/-- Every history record of a run is well formed (`inv < res`): the executable checker `linCheck` decides
    linearizability of such histories (`Lin.linCheck_iff`). -/
theorem historyOf_wf (os : List (Tid × Obs)) : ∀ r ∈ historyOf os, r.inv ≤ r.res :=
  fun r hr => Nat.le_of_lt (historyOf_sound os r hr).2.2

/-- **Every completed operation takes effect inside its interval.**  For every run and every completed operation
    `r` of its history there is an instant `j` strictly between the call (observation `r.inv`) and the return
    (observation `r.res`) such that in the state `s1` reached by the first `j` actions of the run the abstract map
    `absMap s1` answers `r.op` with `r.ret` according to the sequential specification.  For the hindsight points this
    is the classic statement: a key reported absent was absent at some instant during the operation, a key reported
    present was present. -/
theorem splitlist_effect_instant {c : Cfg} (hc : SOHyp c) (sched : List (Tid × Act)) (s : St) (os : List (Tid × Obs))
    (h : (model c).run (init c) sched = some (s, os)) (r : OpRec GOp GRet) (hr : r ∈ historyOf os) :
    ∃ j s1, r.inv < j ∧ j < r.res ∧ (model c).run (init c) (sched.take j) = some (s1, os.take j) ∧ Answers s1 r.op r.ret := by
  obtain ⟨g, -, he, -, h2, -, -, h5⟩ := run_ghost_init hc h
  obtain ⟨j, s1, e1, e2, e3, e4⟩ := he.histw r (h2 ▸ hr)
  rw [h5] at e3
  exact ⟨j, s1, e1, e2, statesOf_prefix c sched (init c) s os j s1 h e3, e4⟩

theorem answers_absent {s1 : St} {op : GOp} {k : Int} (h : Answers s1 op [0])
    (hop : op = ⟨"erase", [k]⟩ ∨ op = ⟨"find", [k]⟩ ∨ op = ⟨"contains", [k]⟩) : mfind (absMap s1) k = none := by
  obtain ⟨m', hm⟩ := h
  cases hf : mfind (absMap s1) k with
  | none => rfl
  | some v => rcases hop with rfl | rfl | rfl <;> simp [Spec.map, detSpec, mapStep, hf] at hm

theorem answers_present {s1 : St} {op : GOp} {r : GRet} {k : Int} (h : Answers s1 op r)
    (hop : (∃ v, op = ⟨"insert", [k, v]⟩ ∧ r = [0]) ∨ (∃ v, op = ⟨"find", [k]⟩ ∧ r = [1, v]) ∨
      (op = ⟨"contains", [k]⟩ ∧ r = [1]) ∨ (∃ v, op = ⟨"erase", [k]⟩ ∧ r = [1, v])) :
    ∃ v, mfind (absMap s1) k = some v ∧ ∀ w, r = [1, w] → w = v := by
  obtain ⟨m', hm⟩ := h
  cases hf : mfind (absMap s1) k with
  | none => rcases hop with ⟨v, rfl, rfl⟩ | ⟨v, rfl, rfl⟩ | ⟨rfl, rfl⟩ | ⟨v, rfl, rfl⟩ <;>
      simp [Spec.map, detSpec, mapStep, hf] at hm
  | some v =>
    refine ⟨v, rfl, ?_⟩
    rcases hop with ⟨v', rfl, rfl⟩ | ⟨v', rfl, rfl⟩ | ⟨rfl, rfl⟩ | ⟨v', rfl, rfl⟩ <;>
      simp [Spec.map, detSpec, mapStep, hf] at hm ⊢
    · exact hm.1
    · exact hm.1

/-- Hindsight for "key absent": a completed `erase k` / `find k` / `contains k` that answered `[0]` has an instant
    strictly inside its interval at which no unmarked linked node carried the key `k`. -/
theorem splitlist_absent_hindsight {c : Cfg} (hc : SOHyp c) (sched : List (Tid × Act)) (s : St) (os : List (Tid × Obs))
    (h : (model c).run (init c) sched = some (s, os)) (r : OpRec GOp GRet) (hr : r ∈ historyOf os) (k : Int)
    (hop : r.op = ⟨"erase", [k]⟩ ∨ r.op = ⟨"find", [k]⟩ ∨ r.op = ⟨"contains", [k]⟩) (hret : r.ret = [0]) :
    ∃ j s1, r.inv < j ∧ j < r.res ∧ (model c).run (init c) (sched.take j) = some (s1, os.take j) ∧
      ∀ v, (k, v) ∉ absMap s1 := by
  obtain ⟨j, s1, h1, h2, h3, h4⟩ := splitlist_effect_instant hc sched s os h r hr
  refine ⟨j, s1, h1, h2, h3, ?_⟩
  obtain ⟨L, hl⟩ := sinv_reachable hc s1 ⟨_, _, h3⟩
  intro v hv
  have := (hl.mfind_absMap k v).mpr ((hl.has_iff k v).mpr hv)
  rw [answers_absent (hret ▸ h4) hop] at this
  simp at this

/-- Hindsight for "key present": a completed failing `insert k _`, a successful `find k` (→ `[1, v]`), a successful
    `contains k` or a successful `erase k` (→ `[1, v]`) has an instant strictly inside its interval at which an
    unmarked linked node carried the key `k` (with the payload `v` reported, if one is reported). -/
theorem splitlist_present_hindsight {c : Cfg} (hc : SOHyp c) (sched : List (Tid × Act)) (s : St) (os : List (Tid × Obs))
    (h : (model c).run (init c) sched = some (s, os)) (r : OpRec GOp GRet) (hr : r ∈ historyOf os) (k : Int)
    (hop : (∃ v, r.op = ⟨"insert", [k, v]⟩ ∧ r.ret = [0]) ∨ (∃ v, r.op = ⟨"find", [k]⟩ ∧ r.ret = [1, v]) ∨
      (r.op = ⟨"contains", [k]⟩ ∧ r.ret = [1]) ∨ (∃ v, r.op = ⟨"erase", [k]⟩ ∧ r.ret = [1, v])) :
    ∃ j s1 v, r.inv < j ∧ j < r.res ∧ (model c).run (init c) (sched.take j) = some (s1, os.take j) ∧
      (k, v) ∈ absMap s1 ∧ ∀ w, r.ret = [1, w] → w = v := by
  obtain ⟨j, s1, h1, h2, h3, h4⟩ := splitlist_effect_instant hc sched s os h r hr
  obtain ⟨v, hv1, hv2⟩ := answers_present h4 hop
  obtain ⟨L, hl⟩ := sinv_reachable hc s1 ⟨_, _, h3⟩
  exact ⟨j, s1, v, h1, h2, h3, (hl.has_iff k v).mp ((hl.mfind_absMap k v).mp hv1), hv2⟩

end CdsVerif.Algo.SplitList

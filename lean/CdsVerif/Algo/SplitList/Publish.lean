/-
  C18, SplitListSet machine: every linked dummy node is published or about to be published.

  * `grow` : the only step that puts a new node on the chain is the successful CAS of `link_node` (`iCas`), and it puts
    the node `wnode w` there; after it the thread is at `linked w` — `iPub` for a dummy node.
  * `PubOk` (inductive): a linked dummy node is referred to by the bucket table, or some thread is at `iPub` with it.
  * `BktOk` (inductive): every bucket number a thread works with, and every bucket whose table entry is set, is below
    the current bucket count `2 ^ m_nBucketCountLog2`.
  Consequence at quiescent states: the bucket table (below the bucket count) refers to exactly the linked dummy nodes
  (`Published`, `Algo/SplitList/Snap.lean`), so the dump that tells dummies by the table is the dump that tells them
  by the kind of the node.
-/
import CdsVerif.Algo.SplitList.Reach
namespace CdsVerif.Algo.SplitList
open CdsVerif.Machine CdsVerif.Spec CdsVerif.Lin
open CdsVerif.Algo.Michael (Chain)

/-! ### Which nodes a step can put on the chain -/

theorem chain_sub {f : Nat → Option Nat} {S : Nat → Prop} (hS : ∀ a b, S a → f a = some b → S b) :
    ∀ {p : Option Nat} {l : List Nat}, Chain f p l → (∀ a, p = some a → S a) → ∀ x, x ∈ l → S x
  | _, [], _, _, x, hx => by simp at hx
  | _, a :: l, hc, hp, x, hx => by
    simp only [Chain] at hc
    have ha : S a := hp a hc.1
    rcases List.mem_cons.1 hx with rfl | hx
    · exact ha
    · exact chain_sub hS hc.2 (fun b hb => hS a b ha hb) x hx

/-- What a step does to the pointers. -/
def MemEff (s s' : St) (t : Tid) : Prop :=
  s'.next = s.next ∨
  (∃ n v, s'.next = upd s.next n v ∧ (pcTop (s.pc t) = some (.ins n) ∨ pcDum (s.pc t) = some n)) ∨
  (∃ prev cur nx, s'.next = upd s.next prev nx ∧ s.next prev = some cur ∧ s.mark prev = false ∧
    pcPrev (s.pc t) = some prev ∧ pcFrozen (s.pc t) = some (cur, nx, true)) ∨
  (∃ w d p cur n, s.pc t = .iCas w d p cur ∧ wnode w = some n ∧ s.next p = cur ∧ s.mark p = false ∧
    s'.next = upd s.next p (some n) ∧ s'.pc t = linked w)

theorem memEff_step {c : Cfg} {s s' : St} {t : Tid} {ev : Ev} (hs : step c s t = some (s', ev)) : MemEff s s' t := by
  cases hpc : s.pc t with
  | iCas w d prev cur =>
    simp only [step, hpc] at hs
    split at hs
    · cases hs
    · rename_i n heq
      split at hs
      · rename_i hcond
        simp only [Option.some.injEq, Prod.mk.injEq] at hs; obtain ⟨rfl, -⟩ := hs
        exact Or.inr (Or.inr (Or.inr ⟨w, d, prev, cur, n, hpc, heq, hcond.1, hcond.2, rfl, upd_same _ _ _⟩))
      · simp only [Option.some.injEq, Prod.mk.injEq] at hs; obtain ⟨rfl, -⟩ := hs
        exact Or.inl rfl
  | sHelp w d prev cur nx =>
    simp only [step, hpc] at hs
    split at hs
    · rename_i hcond
      simp only [Option.some.injEq, Prod.mk.injEq] at hs; obtain ⟨rfl, -⟩ := hs
      exact Or.inr (Or.inr (Or.inl ⟨prev, cur, nx, rfl, hcond.1, hcond.2, by rw [hpc]; rfl, by rw [hpc]; rfl⟩))
    · simp only [Option.some.injEq, Prod.mk.injEq] at hs; obtain ⟨rfl, -⟩ := hs
      exact Or.inl rfl
  | eUnl k prev cur nx =>
    simp only [step, hpc] at hs
    split at hs
    · rename_i hcond
      simp only [Option.some.injEq, Prod.mk.injEq] at hs; obtain ⟨rfl, -⟩ := hs
      exact Or.inr (Or.inr (Or.inl ⟨prev, cur, nx, rfl, hcond.1, hcond.2, by rw [hpc]; rfl, by rw [hpc]; rfl⟩))
    · simp only [Option.some.injEq, Prod.mk.injEq] at hs; obtain ⟨rfl, -⟩ := hs
      exact Or.inl rfl
  | iSt w d prev cur =>
    simp only [step, hpc] at hs
    split at hs
    · cases hs
    · rename_i n heq
      simp only [Option.some.injEq, Prod.mk.injEq] at hs; obtain ⟨rfl, -⟩ := hs
      refine Or.inr (Or.inl ⟨n, cur, rfl, ?_⟩)
      cases w with
      | top o => cases o <;> simp [wnode] at heq; subst heq; exact Or.inl (by rw [hpc]; rfl)
      | dum m o stk => simp [wnode] at heq; subst heq; exact Or.inr (by rw [hpc]; rfl)
  | iClr w d =>
    simp only [step, hpc] at hs
    split at hs
    · cases hs
    · rename_i n heq
      simp only [Option.some.injEq, Prod.mk.injEq] at hs; obtain ⟨rfl, -⟩ := hs
      refine Or.inr (Or.inl ⟨n, none, rfl, ?_⟩)
      cases w with
      | top o => cases o <;> simp [wnode] at heq; subst heq; exact Or.inl (by rw [hpc]; rfl)
      | dum m o stk => simp [wnode] at heq; subst heq; exact Or.inr (by rw [hpc]; rfl)
  | _ =>
    simp only [step, hpc] at hs
    all_goals (try (split at hs))
    all_goals (try (split at hs))
    all_goals first
      | (cases hs; done)
      | (simp only [Option.some.injEq, Prod.mk.injEq] at hs; obtain ⟨rfl, -⟩ := hs; exact Or.inl rfl)

/-- The nodes on the chain after a step: those before, and the node linked by a successful `iCas`. -/
theorem grow_step {c : Cfg} {s s' : St} {t : Tid} {ev : Ev} {L L' : List Nat} (hl : SInvL c s L)
    (hl' : SInvL c s' L') (hs : step c s t = some (s', ev)) :
    ∀ x, x ∈ L' → x ∈ L ∨ ∃ w d p cur, s.pc t = .iCas w d p cur ∧ wnode w = some x ∧ s'.pc t = linked w := by
  have h0 : (0 : Nat) ∈ L := hl.g.zero_mem
  have hch' : Chain s'.next (some 0) L' := hl'.g.chain
  have hnm : ∀ a b, a ∈ L → s.next a = some b → b ∈ L := fun a b ha hb => hl.g.next_mem ha hb
  have ht := hl.thr t
  rcases memEff_step hs with e | ⟨n, v, e, hn⟩ | ⟨prev, cur, nx, e, h1, h2, h3, h4⟩ | ⟨w, d, p, cur, n, hpc, hw, h1, h2, e, hpc'⟩
  · intro x hx
    refine Or.inl (chain_sub (S := fun a => a ∈ L) ?_ hch' (fun a ha => by cases ha; exact h0) x hx)
    intro a b ha hb; rw [e] at hb; exact hnm a b ha hb
  · have hnL : n ∉ L := by
      rcases hn with hn | hn
      · exact (ht.item n hn).2.2.1
      · exact (ht.dumPriv n hn).2.2
    intro x hx
    refine Or.inl (chain_sub (S := fun a => a ∈ L) ?_ hch' (fun a ha => by cases ha; exact h0) x hx)
    intro a b ha hb
    have hne : a ≠ n := fun e2 => hnL (e2 ▸ ha)
    rw [e, upd_other _ _ _ _ hne] at hb
    exact hnm a b ha hb
  · have hpL : prev ∈ L := (ht.lkPrev prev h3).resolve_right (by simp [h2])
    have hcL : cur ∈ L := hnm prev cur hpL h1
    have hfr := ht.frozen cur nx h4
    intro x hx
    refine Or.inl (chain_sub (S := fun a => a ∈ L) ?_ hch' (fun a ha => by cases ha; exact h0) x hx)
    intro a b ha hb
    rw [e] at hb
    by_cases hap : a = prev
    · subst hap
      rw [upd_same] at hb
      exact hnm cur b hcL (hfr.1.trans hb)
    · rw [upd_other _ _ _ _ hap] at hb
      exact hnm a b ha hb
  · have hpL : p ∈ L := (ht.lkPrev p (by rw [hpc]; rfl)).resolve_right (by simp [h2])
    have hnL : n ∉ L := by
      cases w with
      | top o =>
        cases o <;> simp [wnode] at hw
        subst hw
        exact (ht.item _ (by rw [hpc]; rfl)).2.2.1
      | dum m o stk =>
        simp [wnode] at hw; subst hw
        exact (ht.dumPriv _ (by rw [hpc]; rfl)).2.2
    have hic : s.next n = cur := ht.icas w d p cur n hpc hw
    intro x hx
    have := chain_sub (S := fun a => a ∈ L ∨ a = n) ?_ hch' (fun a ha => by cases ha; exact Or.inl h0) x hx
    · rcases this with h | h
      · exact Or.inl h
      · subst h; exact Or.inr ⟨w, d, p, cur, hpc, hw, hpc'⟩
    · intro a b ha hb
      rw [e] at hb
      rcases ha with ha | ha
      · by_cases hap : a = p
        · subst hap; rw [upd_same] at hb; cases hb; exact Or.inr rfl
        · rw [upd_other _ _ _ _ hap] at hb; exact Or.inl (hnm a b ha hb)
      · subst ha
        have hne : a ≠ p := fun e2 => hnL (e2 ▸ hpL)
        rw [upd_other _ _ _ _ hne, hic, ← h1] at hb
        exact Or.inl (hnm p b hpL hb)

/-! ### A linked dummy node is published, or its `init_bucket` is about to publish it -/

def PubOk (s : St) (L : List Nat) : Prop :=
  ∀ d, d ∈ L → d % 2 = 0 → (∃ b, s.table b = some d) ∨ ∃ t, pcPub (s.pc t) = some d

theorem pcPub_spec {pc : PC} {d : Nat} (h : pcPub pc = some d) : ∃ o stk, pc = .iPub o stk d := by
  cases pc <;> simp_all [pcPub]

theorem pubOk_init (c : Cfg) : PubOk (init c) [0] := by
  intro d hd _
  simp only [List.mem_singleton] at hd; subst hd
  exact Or.inl ⟨0, by simp [init]⟩

theorem publish_store {c : Cfg} {s s' : St} {t : Tid} {ev : Ev} {o : Top} {stk : List Nat} {d : Nat}
    (hs : step c s t = some (s', ev)) (hpc : s.pc t = .iPub o stk d) : ∃ b, s'.table b = some d := by
  simp only [step, hpc] at hs
  split at hs
  · cases hs
  · rename_i b rest
    simp only [Option.some.injEq, Prod.mk.injEq] at hs; obtain ⟨rfl, -⟩ := hs
    exact ⟨b, upd_same _ _ _⟩

theorem pubOk_step {c : Cfg} {s s' : St} {t : Tid} {ev : Ev} {L L' : List Nat} (hl : SInvL c s L)
    (hl' : SInvL c s' L') (he : StepEff c s t s' L L') (hP : PubOk s L) (hs : step c s t = some (s', ev)) :
    PubOk s' L' := by
  intro d hd hev
  rcases grow_step hl hl' hs d hd with hdL | ⟨w, dd, p, cur, hpc, hw, hpc'⟩
  · rcases hP d hdL hev with ⟨b, hb⟩ | ⟨t2, ht2⟩
    · exact Or.inl ⟨b, he.tabmono b d hb⟩
    · by_cases e : t2 = t
      · subst e
        obtain ⟨o, stk, hpc⟩ := pcPub_spec ht2
        exact Or.inl (publish_store hs hpc)
      · exact Or.inr ⟨t2, by rw [he.frame t2 e]; exact ht2⟩
  · cases w with
    | top o =>
      cases o <;> simp [wnode] at hw
      subst hw
      have := ((hl.thr t).item _ (by rw [hpc]; rfl)).1
      omega
    | dum m o stk =>
      simp [wnode] at hw; subst hw
      exact Or.inr ⟨t, by rw [hpc']; rfl⟩

theorem pubOk_invoke {c : Cfg} {s s' : St} {t : Tid} {op : GOp} {L : List Nat} (he : InvokeEff c s t op s' L)
    (hP : PubOk s L) : PubOk s' L := by
  intro d hd hev
  rcases hP d hd hev with ⟨b, hb⟩ | ⟨t2, ht2⟩
  · exact Or.inl ⟨b, by rw [he.table]; exact hb⟩
  · have e : t2 ≠ t := by intro e; rw [e, he.was] at ht2; simp [pcPub] at ht2
    exact Or.inr ⟨t2, by rw [he.frame t2 e]; exact ht2⟩

/-! ### Bucket numbers stay below the bucket count -/

/-- The bucket numbers a thread works with are below `2 ^ k2`. -/
def BOk (k2 : Nat) (pc : PC) : Prop := (∀ b, b ∈ pcStk pc → b < 2 ^ k2) ∧ (∀ b, pcBkt pc = some b → b < 2 ^ k2)

def StkSub (pc' : PC) (stk : List Nat) : Prop := (∀ b, b ∈ pcStk pc' → b ∈ stk) ∧ pcBkt pc' = none

theorem bok_of_sub {k2 : Nat} {pc pc' : PC} (h : BOk k2 pc) (hs : StkSub pc' (pcStk pc)) : BOk k2 pc' :=
  ⟨fun b hb => h.1 b (hs.1 b hb), fun b hb => by rw [hs.2] at hb; cases hb⟩

theorem bok_mono {k2 k2' : Nat} {pc : PC} (h : BOk k2 pc) (hk : k2 ≤ k2') : BOk k2' pc :=
  have : 2 ^ k2 ≤ 2 ^ k2' := Nat.pow_le_pow_right (by decide) hk
  ⟨fun b hb => Nat.lt_of_lt_of_le (h.1 b hb) this, fun b hb => Nat.lt_of_lt_of_le (h.2 b hb) this⟩

theorem stk_initRet (o : Top) (stk : List Nat) (d : Nat) : StkSub (initRet o stk d) stk := by
  unfold initRet; split
  · exact ⟨fun b hb => by simp [pcStk, wstk] at hb, rfl⟩
  · exact ⟨fun b hb => by simp [pcStk, wstk] at hb, rfl⟩
  · exact ⟨fun b hb => List.mem_cons_of_mem _ hb, rfl⟩

theorem stk_notFound (w : OpK) (d prev : Nat) (cur : Option Nat) : StkSub (notFound w d prev cur) (wstk w) := by
  cases w with
  | dum m o stk => exact ⟨fun b hb => hb, rfl⟩
  | top o => cases o <;> exact ⟨fun b hb => by simp [notFound, pcStk, wstk] at hb, rfl⟩

theorem stk_found (val : Nat → Int) (w : OpK) (d prev cur : Nat) (nx : Option Nat) :
    StkSub (found val w d prev cur nx) (wstk w) := by
  cases w with
  | dum m o stk => exact ⟨fun b hb => hb, rfl⟩
  | top o => cases o <;> exact ⟨fun b hb => by simp [found, pcStk] at hb, rfl⟩

theorem stk_advance (w : OpK) (d prev : Nat) (nx : Option Nat) : StkSub (advance w d prev nx) (wstk w) := by
  unfold advance; split
  · exact stk_notFound w d prev none
  · exact ⟨fun b hb => hb, rfl⟩

theorem stk_afterHd (c : Cfg) (so : Nat → Nat) (uk : Nat → Int) (w : OpK) (d : Nat) (nx : Option Nat) (mk : Bool) :
    StkSub (afterHd c so uk w d nx mk) (wstk w) := by
  unfold afterHd; split
  · exact ⟨fun b hb => hb, rfl⟩
  · split
    · exact stk_advance w d d nx
    · exact ⟨fun b hb => hb, rfl⟩

theorem stk_afterChk (c : Cfg) (so : Nat → Nat) (uk val : Nat → Int) (w : OpK) (d prev cur : Nat) (nx : Option Nat)
    (mk : Bool) : StkSub (afterChk c so uk val w d prev cur nx mk) (wstk w) := by
  unfold afterChk; split
  · exact ⟨fun b hb => hb, rfl⟩
  · split
    · exact stk_found val w d prev cur nx
    · split
      · exact stk_notFound w d prev (some cur)
      · exact stk_advance w d cur nx

theorem stk_linked (w : OpK) : StkSub (linked w) (wstk w) := by
  cases w with
  | dum m o stk => exact ⟨fun b hb => hb, rfl⟩
  | top o => exact ⟨fun b hb => by simp [linked, pcStk] at hb, rfl⟩

theorem stk_afterAdd (items mx : Nat) (l : List Nat) : StkSub (afterAdd items mx) l := by
  unfold afterAdd; split <;> exact ⟨fun b hb => by simp [pcStk] at hb, rfl⟩

theorem stk_afterCnt (c : Cfg) (sz mx : Nat) (l : List Nat) : StkSub (afterCnt c sz mx) l := by
  unfold afterCnt; split
  · split <;> exact ⟨fun b hb => by simp [pcStk] at hb, rfl⟩
  · exact ⟨fun b hb => by simp [pcStk] at hb, rfl⟩

theorem parent_le (b : Nat) : parent b ≤ b := Nat.sub_le _ _

set_option maxHeartbeats 1000000 in
theorem bkt_step {c : Cfg} {s s' : St} {t : Tid} {ev : Ev} (hs : step c s t = some (s', ev))
    (hb : BOk s.cnt2 (s.pc t)) (htab : ∀ b d, s.table b = some d → b < 2 ^ s.cnt2) :
    s.cnt2 ≤ s'.cnt2 ∧ BOk s'.cnt2 (s'.pc t) ∧ ∀ b d, s'.table b = some d → b < 2 ^ s'.cnt2 := by
  cases hpc : s.pc t with
  | gCnt o =>
    simp only [step, hpc] at hs
    simp only [Option.some.injEq, Prod.mk.injEq] at hs; obtain ⟨rfl, -⟩ := hs
    refine ⟨Nat.le_refl _, ?_, htab⟩
    dsimp only; rw [upd_same]
    refine ⟨fun b hb => by simp [pcStk] at hb, fun b hb => ?_⟩
    simp only [pcBkt, Option.some.injEq] at hb
    rw [← hb]; exact Nat.mod_lt _ (Nat.two_pow_pos _)
  | gTab o b =>
    rw [hpc] at hb
    have hbb := hb.2 b rfl
    simp only [step, hpc] at hs
    split at hs
    all_goals
      simp only [Option.some.injEq, Prod.mk.injEq] at hs; obtain ⟨rfl, -⟩ := hs
      refine ⟨Nat.le_refl _, ?_, htab⟩
      dsimp only; rw [upd_same]
      refine ⟨fun x hx => ?_, fun x hx => by simp [pcBkt] at hx⟩
      simp [pcStk, wstk] at hx
      try (subst hx; exact hbb)
  | iPar o stk =>
    rw [hpc] at hb
    simp only [step, hpc] at hs
    split at hs
    · cases hs
    · rename_i b rest
      split at hs
      all_goals
        simp only [Option.some.injEq, Prod.mk.injEq] at hs; obtain ⟨rfl, -⟩ := hs
        refine ⟨Nat.le_refl _, ?_, htab⟩
        dsimp only; rw [upd_same]
        refine ⟨fun x hx => ?_, fun x hx => by simp [pcBkt] at hx⟩
        simp only [pcStk, List.mem_cons] at hx
        have h1 := hb.1 b (by simp [pcStk])
        rcases hx with hx | hx
        · first
            | (subst hx; exact Nat.lt_of_le_of_lt (parent_le b) h1)
            | (subst hx; exact h1)
        · exact hb.1 x (by simp only [pcStk, List.mem_cons]; first | exact hx | exact Or.inr hx)
  | iPub o stk m =>
    rw [hpc] at hb
    simp only [step, hpc] at hs
    split at hs
    · cases hs
    · rename_i b rest
      simp only [Option.some.injEq, Prod.mk.injEq] at hs; obtain ⟨rfl, -⟩ := hs
      refine ⟨Nat.le_refl _, ?_, ?_⟩
      · dsimp only; rw [upd_same]; exact bok_of_sub hb (stk_initRet _ _ _)
      · intro x d hx
        dsimp only at hx
        unfold upd at hx
        split at hx
        · rename_i e; rw [e]; exact hb.1 b (by simp [pcStk])
        · exact htab x d hx
  | cGrow sz =>
    simp only [step, hpc] at hs
    simp only [Option.some.injEq, Prod.mk.injEq] at hs; obtain ⟨rfl, -⟩ := hs
    have hle : s.cnt2 ≤ (if s.cnt2 = sz then sz + 1 else s.cnt2) := by split <;> omega
    refine ⟨hle, ?_, fun b d hx => Nat.lt_of_lt_of_le (htab b d hx) (Nat.pow_le_pow_right (by decide) hle)⟩
    dsimp only; rw [upd_same]
    exact ⟨fun b hb => by simp [pcStk] at hb, fun b hb => by simp [pcBkt] at hb⟩
  | _ =>
    rw [hpc] at hb
    simp only [step, hpc] at hs
    all_goals (try (split at hs))
    all_goals (try (split at hs))
    all_goals first
      | (cases hs; done)
      | (simp only [Option.some.injEq, Prod.mk.injEq] at hs; obtain ⟨rfl, -⟩ := hs
         refine ⟨Nat.le_refl _, ?_, htab⟩
         dsimp only; rw [upd_same]
         first
           | exact bok_of_sub hb ⟨fun b hb => hb, rfl⟩
           | exact bok_of_sub hb ⟨fun b hb => by simp [pcStk, wstk] at hb, rfl⟩
           | exact bok_of_sub hb (stk_initRet _ _ _)
           | exact bok_of_sub hb (stk_afterHd _ _ _ _ _ _ _)
           | exact bok_of_sub hb (stk_afterChk _ _ _ _ _ _ _ _ _ _)
           | exact bok_of_sub hb (stk_advance _ _ _ _)
           | exact bok_of_sub hb (stk_linked _)
           | exact bok_of_sub hb (stk_afterAdd _ _ _)
           | exact bok_of_sub hb (stk_afterCnt _ _ _ _))

/-! ### The combined invariant -/

/-- Structural invariant, publication invariant and bucket-number bounds. -/
def PBInv (c : Cfg) (s : St) : Prop :=
  ∃ L, SInvL c s L ∧ PubOk s L ∧ (∀ t, BOk s.cnt2 (s.pc t)) ∧ ∀ b d, s.table b = some d → b < 2 ^ s.cnt2

theorem bok_idle (k2 : Nat) : BOk k2 .idle := ⟨fun b hb => by simp [pcStk] at hb, fun b hb => by simp [pcBkt] at hb⟩

theorem invoke_bok {c : Cfg} {s s' : St} {t : Tid} {op : GOp} (hs : invoke c s t op = some s') (k2 : Nat) :
    BOk k2 (s'.pc t) := by
  unfold invoke at hs
  split at hs
  all_goals first
    | (simp only [Option.some.injEq] at hs; subst hs; dsimp only; rw [upd_same]
       exact ⟨fun b hb => by simp [pcStk] at hb, fun b hb => by simp [pcBkt] at hb⟩)
    | (cases hs; done)

theorem pbinv_init (c : Cfg) (hc : SOHyp c) : PBInv c (init c) := by
  refine ⟨[0], sinv_init c hc, pubOk_init c, fun t => bok_idle _, ?_⟩
  intro b d h
  simp only [init] at h ⊢
  split at h
  · rename_i e; rw [e]; decide
  · cases h

theorem pbinv_apply {c : Cfg} (hc : SOHyp c) {s s' : St} {t : Tid} {a : Act} {o : Obs} (h : PBInv c s)
    (hap : (model c).apply s t a = some (s', o)) : PBInv c s' := by
  obtain ⟨L, hl, hP, hB, hT⟩ := h
  cases a with
  | invoke op =>
    simp only [Model.apply, model, Option.map_eq_some_iff] at hap
    obtain ⟨s1, hs1, heq⟩ := hap
    simp only [Prod.mk.injEq] at heq
    obtain ⟨rfl, -⟩ := heq
    obtain ⟨hl', he⟩ := sinvl_invoke hl hs1
    refine ⟨L, hl', pubOk_invoke he hP, fun t2 => ?_, fun b d hb => by rw [he.cnt2]; rw [he.table] at hb; exact hT b d hb⟩
    by_cases e : t2 = t
    · subst e; exact invoke_bok hs1 _
    · rw [he.frame t2 e, he.cnt2]; exact hB t2
  | step =>
    simp only [Model.apply, model, Option.map_eq_some_iff] at hap
    obtain ⟨⟨s1, e⟩, hs1, heq⟩ := hap
    simp only [Prod.mk.injEq] at heq
    obtain ⟨rfl, -⟩ := heq
    obtain ⟨L', hl', he⟩ := sinvl_step hc hl hs1
    obtain ⟨hle, hb1, ht1⟩ := bkt_step hs1 (hB t) hT
    refine ⟨L', hl', pubOk_step hl hl' he hP hs1, fun t2 => ?_, ht1⟩
    by_cases e : t2 = t
    · subst e; exact hb1
    · rw [he.frame t2 e]; exact bok_mono (hB t2) hle
  | ret =>
    simp only [Model.apply, model, Option.map_eq_some_iff] at hap
    obtain ⟨⟨s1, r⟩, hs1, heq⟩ := hap
    simp only [Prod.mk.injEq] at heq
    obtain ⟨rfl, -⟩ := heq
    obtain ⟨hl', hd, hi, hfr, -, -, -, -, -, etab, ecnt⟩ := sinvl_result hl hs1
    refine ⟨L, hl', ?_, fun t2 => ?_, fun b d hb => by rw [ecnt]; rw [etab] at hb; exact hT b d hb⟩
    · intro d hdL hev
      rcases hP d hdL hev with ⟨b, hb⟩ | ⟨t2, ht2⟩
      · exact Or.inl ⟨b, by rw [etab]; exact hb⟩
      · have e : t2 ≠ t := by intro e; rw [e, hd] at ht2; simp [pcPub] at ht2
        exact Or.inr ⟨t2, by rw [hfr t2 e]; exact ht2⟩
    · by_cases e : t2 = t
      · subst e; rw [hi]; exact bok_idle _
      · rw [hfr t2 e, ecnt]; exact hB t2

theorem pbinv_reachable {c : Cfg} (hc : SOHyp c) (s : St) (h : (model c).Reachable (init c) s) : PBInv c s :=
  (model c).inv_reachable (PBInv c) (init c) (pbinv_init c hc) (fun _ _ _ _ _ hi hap => pbinv_apply hc hi hap) s h

end CdsVerif.Algo.SplitList

/-
  C09 — the Treiber stack WITH elimination back-off (cds::intrusive::TreiberStack, `enable_elimination = true`:
  push / pop / `elimination_backoff<true,…>::backoff`) is a linearizable LIFO stack: every concurrent history of the
  atomic-step model `Algo/Elim/Model.lean` is linearizable to `Spec.lifo`; an eliminated push/pop pair is linearized
  at the collision instant, the push immediately followed by the pop.
  Property theorems only; the model, the invariants and the proofs live in
  `Algo/Elim/{Model,Inv,Chain,Lin,Protocol}.lean`.

  Assumptions of the model (not proved here): sequentially consistent interleavings; a node is not reused while any
  thread may still hold a pointer to it (garbage-collected heap: what the hazard pointer provides).  The collision
  slot and the bound of the wait loop of every back-off round are INPUTS of an operation (`push v s1 k1 s2 k2 …`,
  `pop s1 k1 …`): the theorems hold for all of them, i.e. for every random engine, array capacity and timeout;
  histories record the operations of the specification (`Elim.specOp`: `push v`, `pop`).
-/
import CdsVerif.Algo.Elim.Lin
import CdsVerif.Algo.Elim.Protocol
namespace CdsVerif.Props.C09Elim
open CdsVerif.Machine CdsVerif.Lin CdsVerif.Spec CdsVerif.Algo

/-! ### (2) Linearizability -/

/-- Linearizability, general form (Herlihy–Wing with completion of pending operations), exactly as
    `C09_treiber_linearizable`.  For EVERY schedule (any number of threads, any client program, any back-off inputs,
    any interleaving of the atomic steps), the history of the completed operations of the run — extended by response
    records for those pending operations that have already passed their linearization point (at most one per thread;
    completed with the result fixed there and the response time "end of run"; this includes a passive partner that
    has been collided and has not yet noticed), all other pending operations being dropped — is linearizable to the
    sequential LIFO stack. -/
theorem C09_elim_linearizable (sched : List (Tid × Act)) (s : Elim.St) (os : List (Tid × Obs))
    (h : Elim.model.run Elim.init sched = some (s, os)) :
    ∃ extra : List (OpRec GOp GRet),
      (∀ e ∈ extra, Elim.pendingOf os e.tid = some (e.op, e.inv) ∧ e.res = os.length ∧
          Elim.postRet s e.tid = some e.ret) ∧
      extra.Pairwise (fun a b => a.tid ≠ b.tid) ∧
      Linearizable lifo (Elim.historyOf os ++ extra) :=
  Elim.elim_linearizable sched s os h

/-- Runs in which every invoked operation has returned: the history is linearizable as it is. -/
theorem C09_elim_linearizable_complete_runs (sched : List (Tid × Act)) (s : Elim.St) (os : List (Tid × Obs))
    (h : Elim.model.run Elim.init sched = some (s, os)) (hq : ∀ t, s.pc t = .idle) :
    Linearizable lifo (Elim.historyOf os) :=
  Elim.elim_linearizable_complete_runs sched s os h hq

/-- Runs at whose end no thread is between its linearization point and its return. -/
theorem C09_elim_linearizable_no_effect_pending (sched : List (Tid × Act)) (s : Elim.St) (os : List (Tid × Obs))
    (h : Elim.model.run Elim.init sched = some (s, os)) (hq : ∀ t, Elim.postRet s t = none) :
    Linearizable lifo (Elim.historyOf os) :=
  Elim.elim_linearizable_no_effect_pending sched s os h hq

/-- `historyOf` is faithful: a record's `inv` / `res` are the positions of its call and return observations, its
    operation is the specification operation (`specOp`: back-off inputs dropped) of that call. -/
theorem C09_elim_history_sound (os : List (Tid × Obs)) (r : OpRec GOp GRet) (h : r ∈ Elim.historyOf os) :
    (∃ op, os[r.inv]? = some (r.tid, .call op) ∧ Elim.specOp op = r.op) ∧
      os[r.res]? = some (r.tid, .ret r.ret) ∧ r.inv < r.res :=
  Elim.historyOf_sound os r h

/-- Refinement, step by step: in a reachable state every atomic step is
    * `silent`: abstract stack, fixed results and pending operations unchanged, or
    * `single`: the linearization point of the stepping thread — one `lifo` transition of its operation, or
    * `pair a b v`: a collision — `a`'s `push v` and `b`'s `pop` are both pending and not linearized before, after
      the step `a`'s result is `[1]` and `b`'s is `[1, v]` (the pushed value is handed to exactly that pop), the
      abstract stack is unchanged; the stepping thread is one of the two. -/
theorem C09_elim_step_refines (s s' : Elim.St) (t : Tid) (ev : Ev) (hreach : Elim.model.Reachable Elim.init s)
    (hs : Elim.step s t = some (s', ev)) : Elim.Shape s s' t (Elim.absNodes s) (Elim.absNodes s') :=
  Elim.step_refines (Elim.minv_reachable s hreach) hs

/-! ### (1) The invariant: chain structure and collision protocol -/

/-- Every reachable state satisfies the structural invariant of the chain (`SInvL`: the chain from `top` is finite,
    duplicate-free, made of published nodes; private / popped / eliminated nodes stay outside) and the protocol
    invariant `EInv` (see `Algo/Elim/Inv.lean`). -/
theorem C09_elim_invariant (s : Elim.St) (hreach : Elim.model.Reachable Elim.init s) :
    (∃ l, Elim.SInvL s l) ∧ Elim.EInv s :=
  Elim.minv_reachable s hreach

/-- The slot locks are locks: at most one thread is inside the critical section of a slot (where the plain fields
    `slot.pRec`, `himOp->idOp`, `pVal` are accessed), and then the lock word is set. -/
theorem C09_elim_slot_mutex (s : Elim.St) (hreach : Elim.model.Reachable Elim.init s) (t1 t2 : Tid) (sl : Nat)
    (h1 : Elim.holds (s.pc t1) = some sl) (h2 : Elim.holds (s.pc t2) = some sl) : t1 = t2 ∧ s.lock sl = true :=
  ⟨(Elim.minv_reachable s hreach).2.mutex t1 t2 sl h1 h2, (Elim.minv_reachable s hreach).2.lockheld t1 sl h1⟩

/-- A record in a collision slot belongs to a thread that is published in exactly that slot, has not withdrawn, and
    whose status is op_waiting. -/
theorem C09_elim_slot_record (s : Elim.St) (hreach : Elim.model.Reachable Elim.init s) (sl : Nat) (h : Tid)
    (hr : s.srec sl = some h) : Elim.pubSlot (s.pc h) = some sl ∧ s.status h = 1 :=
  (Elim.minv_reachable s hreach).2.recpub sl h hr

/-- Collided exactly once, by exactly one partner of the opposite kind.  The only step by which a thread `t` changes
    the status word of another thread `h` is the collision: `t` is inside the critical section of a slot that
    holds `h`'s record, `h` is published there and WAITING (so not collided before), the two operations are of
    opposite kind; the step writes op_collided, removes the record (afterwards `h` is in no slot), copies the
    pusher's node into the popper's descriptor, and `t` proceeds to unlock and return. -/
theorem C09_elim_collision (s s' : Elim.St) (t h : Tid) (ev : Ev) (hreach : Elim.model.Reachable Elim.init s)
    (hs : Elim.step s t = some (s', ev)) (hne : h ≠ t) (hch : s'.status h ≠ s.status h) :
    ∃ c sl k, s.pc t = .bkIn c sl k ∧ s.srec sl = some h ∧ Elim.pubSlot (s.pc h) = some sl ∧ s.status h = 1 ∧
      s.isPush h ≠ s.isPush t ∧ s'.status h = 2 ∧ (∀ sl', s'.srec sl' ≠ some h) ∧ s'.pc t = .bkUnlC c sl ∧
      ev = ⟨"st", s!"op{h}.status", "2", ""⟩ ∧
      (s.isPush t = true → s'.pval h = s.pval t) ∧ (s.isPush t = false → s'.pval t = s.pval h) :=
  Elim.collision_step (Elim.minv_reachable s hreach).2 hs h hne hch

/-- No late collision.  A descriptor that has been collided (status ≠ op_waiting) or that is not published (before
    the publication / after the withdrawal under the slot lock) sits in no slot, and the descriptor of a thread that
    sits in no slot is not touched by any action of any other thread: its status (and `pVal`, `idOp`) can no longer
    change under its feet.  (The seeded bug `C09-elim-late-collision` reads the outcome BEFORE the withdrawal, where
    this does not hold.) -/
theorem C09_elim_no_late_collision (s s' : Elim.St) (t h : Tid) (a : Act) (o : Obs)
    (hreach : Elim.model.Reachable Elim.init s) (hap : Elim.model.apply s t a = some (s', o)) (hne : h ≠ t)
    (hp : Elim.pubSlot (s.pc h) = none ∨ s.status h ≠ 1) :
    (∀ sl, s.srec sl ≠ some h) ∧ s'.status h = s.status h ∧ s'.pval h = s.pval h ∧ s'.isPush h = s.isPush h :=
  ⟨Elim.not_in_slot (Elim.minv_reachable s hreach).2 h hp,
   Elim.apply_frame hap h hne (Elim.not_in_slot (Elim.minv_reachable s hreach).2 h hp)⟩

/-! ### (3) Conservation -/

/-- Every node is taken by at most one pop (ghost field `taken`: set by the successful CAS of a pop and by a
    collision, never changed afterwards), and an eliminated node stays eliminated. -/
theorem C09_elim_taken_once (s s' : Elim.St) (t : Tid) (a : Act) (o : Obs)
    (hreach : Elim.model.Reachable Elim.init s) (hap : Elim.model.apply s t a = some (s', o)) :
    (∀ n u, s.taken n = some u → s'.taken n = some u) ∧ (∀ n, s.elim n = true → s'.elim n = true) :=
  ⟨(Elim.apply_mono (Elim.minv_reachable s hreach) hap).tk, (Elim.apply_mono (Elim.minv_reachable s hreach) hap).el⟩

/-- A node in the stack, and a node still private to its pusher, has been taken by nobody and has not been
    eliminated: a node can only be taken FROM the stack or FROM its pusher (once, by the previous theorem). -/
theorem C09_elim_untouched (s : Elim.St) (hreach : Elim.model.Reachable Elim.init s) :
    (∀ a ∈ Elim.absNodes s, s.taken a = none ∧ s.elim a = false) ∧
    (∀ t n, Elim.pushNode s t = some n → s.taken n = none ∧ s.elim n = false) :=
  Elim.stack_nodes_untouched (Elim.minv_reachable s hreach)

/-- Every successful pop takes exactly one node: at the step where the result of thread `u`'s operation gets fixed
    as "value `v`" (successful CAS of its pop, or a collision in which `u` is the popper), a node carrying `v` that
    nobody had taken before becomes taken by `u`.  With `C09_elim_taken_once` (the taker never changes) and
    `C09_elim_untouched`: every pushed node is popped at most once — from the stack or, eliminated, from its pusher,
    never both. -/
theorem C09_elim_pop_takes (s s' : Elim.St) (t : Tid) (ev : Ev) (hreach : Elim.model.Reachable Elim.init s)
    (hs : Elim.step s t = some (s', ev)) (u : Tid) (v : Int) (h0 : Elim.postRet s u = none)
    (h1 : Elim.postRet s' u = some [1, v]) : ∃ a, s.val a = v ∧ s.taken a = none ∧ s'.taken a = some u :=
  Elim.pop_takes (Elim.minv_reachable s hreach) hs u v h0 h1

/-- An eliminated value never reaches the stack (in no reachable state; elimination is permanent). -/
theorem C09_elim_eliminated_never_in_stack (s : Elim.St) (hreach : Elim.model.Reachable Elim.init s) (n : Nat)
    (h : s.elim n = true) : n ∉ Elim.absNodes s :=
  Elim.eliminated_not_in_stack (Elim.minv_reachable s hreach) n h

/-! ### (4) Non-vacuity -/

def rep (t : Tid) (n : Nat) : List (Tid × Act) := List.replicate n (t, .step)

/-- A push and a pop eliminate each other while the stack is non-empty.  Thread 0 pushes 5.  Threads 1 (`push 7`) and
    2 (`pop`) both prepare their CAS on `top`, thread 3 pushes 9 in between, so both CAS fail; both choose slot 0;
    thread 1 publishes its record, thread 2 finds it and collides (`st op1.status 2`): thread 2 returns 7, thread 1
    returns true, and the stack still holds 9, 5. -/
def elimSched : List (Tid × Act) :=
  [(0, .invoke ⟨"push", [5]⟩)] ++ rep 0 3 ++ [(0, .ret),
   (1, .invoke ⟨"push", [7, 0, 0]⟩)] ++ rep 1 2 ++
  [(2, .invoke ⟨"pop", [0, 0]⟩)] ++ rep 2 3 ++
  [(3, .invoke ⟨"push", [9]⟩)] ++ rep 3 3 ++ [(3, .ret)] ++
  rep 1 4 ++ rep 2 5 ++ [(2, .ret)] ++ rep 1 4 ++ [(1, .ret)]

def elimObs : List (Tid × Obs) :=
  [(0, .call ⟨"push", [5]⟩), (0, .ev ⟨"ld", "top", "null", ""⟩), (0, .ev ⟨"st", "n1", "null", ""⟩),
   (0, .ev ⟨"cas+", "top", "null", "n1"⟩), (0, .ret [1]),
   (1, .call ⟨"push", [7, 0, 0]⟩), (1, .ev ⟨"ld", "top", "n1", ""⟩), (1, .ev ⟨"st", "n2", "n1", ""⟩),
   (2, .call ⟨"pop", [0, 0]⟩), (2, .ev ⟨"ld", "top", "n1", ""⟩), (2, .ev ⟨"ld", "top", "n1", ""⟩),
   (2, .ev ⟨"ld", "n1", "null", ""⟩),
   (3, .call ⟨"push", [9]⟩), (3, .ev ⟨"ld", "top", "n1", ""⟩), (3, .ev ⟨"st", "n3", "n1", ""⟩),
   (3, .ev ⟨"cas+", "top", "n1", "n3"⟩), (3, .ret [1]),
   (1, .ev ⟨"cas-", "top", "n3", "n1"⟩),          -- T 1 A cas- top n3 n1
   (1, .ev ⟨"st", "op1.status", "1", ""⟩),        -- T 1 A st op1.status 1        op_waiting
   (1, .ev ⟨"xchg", "slot0.lock", "0", "1"⟩),     -- T 1 A xchg slot0.lock 0 1
   (1, .ev ⟨"st", "slot0.lock", "0", ""⟩),        -- T 1 A st slot0.lock 0        slot empty: publish, unlock
   (2, .ev ⟨"cas-", "top", "n3", "n1"⟩),
   (2, .ev ⟨"st", "op2.status", "1", ""⟩),
   (2, .ev ⟨"xchg", "slot0.lock", "0", "1"⟩),
   (2, .ev ⟨"st", "op1.status", "2", ""⟩),        -- T 2 A st op1.status 2        COLLISION: push 7 ; pop → 7
   (2, .ev ⟨"st", "slot0.lock", "0", ""⟩),
   (2, .ret [1, 7]),
   (1, .ev ⟨"ld", "op1.status", "2", ""⟩),        -- the wait loop sees op_collided
   (1, .ev ⟨"xchg", "slot0.lock", "0", "1"⟩),
   (1, .ev ⟨"st", "slot0.lock", "0", ""⟩),        -- withdrawal (the record is already gone)
   (1, .ev ⟨"ld", "op1.status", "2", ""⟩),        -- bCollided
   (1, .ret [1])]

example : (Elim.model.run Elim.init elimSched).map (·.2) = some elimObs := by decide +kernel

example : (Elim.model.run Elim.init elimSched).map (fun r => (Elim.absStack r.1, r.1.elim 2, r.1.taken 2)) =
    some ([9, 5], true, some 2) := by decide +kernel

/-- Observation (not a violation of C09): the eliminated node n2 is handed to the popper with its `m_pNext` still
    pointing into the stack (n1): `clear_links` is only called on the CAS path of `pop`.  Pushing such an item again
    trips `link_checker::is_empty` where link checking is on (`opt::always_check_link`, or debug builds). -/
example : (Elim.model.run Elim.init elimSched).map (fun r => (r.1.next 2, r.1.taken 2)) =
    some (some 1, some 2) := by decide +kernel

example : Elim.historyOf elimObs =
    [⟨0, ⟨"push", [5]⟩, [1], 0, 4⟩, ⟨3, ⟨"push", [9]⟩, [1], 12, 16⟩, ⟨2, ⟨"pop", []⟩, [1, 7], 8, 26⟩,
     ⟨1, ⟨"push", [7]⟩, [1], 5, 31⟩] := by decide +kernel

example : linCheck lifo (Elim.historyOf elimObs) = true := by decide +kernel

/-- A pop that waits, finds nobody and goes back to the stack.  Thread 1's CAS fails (thread 2 popped 6 meanwhile);
    it publishes itself in slot 3, evaluates the wait predicate twice (input k = 1), withdraws, reads op_waiting
    (not collided), retries on the stack and pops 5. -/
def waitSched : List (Tid × Act) :=
  [(0, .invoke ⟨"push", [5]⟩)] ++ rep 0 3 ++ [(0, .ret), (0, .invoke ⟨"push", [6]⟩)] ++ rep 0 3 ++ [(0, .ret),
   (1, .invoke ⟨"pop", [3, 1]⟩)] ++ rep 1 3 ++
  [(2, .invoke ⟨"pop", []⟩)] ++ rep 2 5 ++ [(2, .ret)] ++
  rep 1 14 ++ [(1, .ret)]

example : (Elim.model.run Elim.init waitSched).map (fun r => r.2.filter (fun x => x.1 == 1)) =
    some [(1, .call ⟨"pop", [3, 1]⟩),
          (1, .ev ⟨"ld", "top", "n2", ""⟩), (1, .ev ⟨"ld", "top", "n2", ""⟩), (1, .ev ⟨"ld", "n2", "n1", ""⟩),
          (1, .ev ⟨"cas-", "top", "n1", "n2"⟩),
          (1, .ev ⟨"st", "op1.status", "1", ""⟩),
          (1, .ev ⟨"xchg", "slot3.lock", "0", "1"⟩),
          (1, .ev ⟨"st", "slot3.lock", "0", ""⟩),       -- published
          (1, .ev ⟨"ld", "op1.status", "1", ""⟩),       -- still waiting
          (1, .ev ⟨"ld", "op1.status", "1", ""⟩),       -- still waiting: give up
          (1, .ev ⟨"xchg", "slot3.lock", "0", "1"⟩),
          (1, .ev ⟨"st", "slot3.lock", "0", ""⟩),       -- withdrawn
          (1, .ev ⟨"ld", "op1.status", "1", ""⟩),       -- bCollided = false
          (1, .ev ⟨"ld", "top", "n1", ""⟩), (1, .ev ⟨"ld", "top", "n1", ""⟩), (1, .ev ⟨"ld", "n1", "null", ""⟩),
          (1, .ev ⟨"cas+", "top", "n1", "null"⟩), (1, .ev ⟨"st", "n1", "null", ""⟩),
          (1, .ret [1, 5])] := by decide +kernel

/-- Two pushes in the same slot: no collision.  Threads 0 and 1 both lose their CAS to thread 2 and both choose
    slot 0; thread 1 finds thread 0's record, the operations are of the same kind, so it overwrites the record with
    its own; both time out, withdraw (thread 0 finds a foreign record and leaves it) and go back to the stack, where
    thread 1 loses again, backs off a second time (no inputs left: slot 0, one evaluation) and finally succeeds. -/
def twoPushSched : List (Tid × Act) :=
  [(0, .invoke ⟨"push", [1, 0, 0]⟩)] ++ rep 0 2 ++ [(1, .invoke ⟨"push", [2, 0, 0]⟩)] ++ rep 1 2 ++
  [(2, .invoke ⟨"push", [3]⟩)] ++ rep 2 3 ++ [(2, .ret)] ++
  rep 0 4 ++ rep 1 4 ++ rep 0 6 ++ [(0, .ret)] ++ rep 1 15 ++ [(1, .ret)]

example : (Elim.model.run Elim.init twoPushSched).map
      (fun r => (r.2.filter (fun x => x.1 == 1 && (x.2 matches .ev _)), Elim.absStack r.1, r.1.srec 0, r.1.elim 1, r.1.elim 2)) =
    some ([(1, .ev ⟨"ld", "top", "null", ""⟩), (1, .ev ⟨"st", "n2", "null", ""⟩),
           (1, .ev ⟨"cas-", "top", "n3", "null"⟩),
           (1, .ev ⟨"st", "op1.status", "1", ""⟩),
           (1, .ev ⟨"xchg", "slot0.lock", "0", "1"⟩),
           (1, .ev ⟨"st", "slot0.lock", "0", ""⟩),      -- finds thread 0 (a push): publishes over it
           (1, .ev ⟨"ld", "op1.status", "1", ""⟩),
           (1, .ev ⟨"xchg", "slot0.lock", "0", "1"⟩),
           (1, .ev ⟨"st", "slot0.lock", "0", ""⟩),
           (1, .ev ⟨"ld", "op1.status", "1", ""⟩),      -- not collided
           (1, .ev ⟨"st", "n2", "n3", ""⟩),
           (1, .ev ⟨"cas-", "top", "n1", "n3"⟩),        -- thread 0 was faster: second back-off round
           (1, .ev ⟨"st", "op1.status", "1", ""⟩),
           (1, .ev ⟨"xchg", "slot0.lock", "0", "1"⟩),
           (1, .ev ⟨"st", "slot0.lock", "0", ""⟩),
           (1, .ev ⟨"ld", "op1.status", "1", ""⟩),
           (1, .ev ⟨"xchg", "slot0.lock", "0", "1"⟩),
           (1, .ev ⟨"st", "slot0.lock", "0", ""⟩),
           (1, .ev ⟨"ld", "op1.status", "1", ""⟩),
           (1, .ev ⟨"st", "n2", "n1", ""⟩),
           (1, .ev ⟨"cas+", "top", "n1", "n2"⟩)],
          [2, 1, 3], none, false, false) := by decide +kernel

/-- Why pending operations must be completed here as well: the run stops right after the collision, the passive push
    has not even noticed; the popper has returned 7.  The push is completed by `extra`. -/
def pendingSched : List (Tid × Act) := elimSched.take 27

example : (Elim.model.run Elim.init pendingSched).map (fun r => (Elim.historyOf r.2, Elim.postRet r.1 1, r.1.pc 1)) =
    some ([⟨0, ⟨"push", [5]⟩, [1], 0, 4⟩, ⟨3, ⟨"push", [9]⟩, [1], 12, 16⟩, ⟨2, ⟨"pop", []⟩, [1, 7], 8, 26⟩],
          some [1], .bkWait (.push 2 (some 3)) 0 0) := by decide +kernel

example : linCheck lifo [⟨0, ⟨"push", [5]⟩, [1], 0, 4⟩, ⟨3, ⟨"push", [9]⟩, [1], 12, 16⟩,
    ⟨2, ⟨"pop", []⟩, [1, 7], 8, 26⟩] = false := by decide +kernel

example : linCheck lifo ([⟨0, ⟨"push", [5]⟩, [1], 0, 4⟩, ⟨3, ⟨"push", [9]⟩, [1], 12, 16⟩,
    ⟨2, ⟨"pop", []⟩, [1, 7], 8, 26⟩] ++ [⟨1, ⟨"push", [7]⟩, [1], 5, 27⟩]) = true := by decide +kernel

end CdsVerif.Props.C09Elim

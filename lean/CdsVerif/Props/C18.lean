/-
  Property C18.  "When no operation is in progress, traversal of an ordered container (lists, skip
  lists, EllenBinTree, BronsonAVLTreeMap, and split lists in split order) visits each present key
  exactly once in strictly increasing order, and size()/empty() agree with the contents where an
  item counter is enabled.  EllenBinTree and BronsonAVLTreeMap satisfy their consistency checks:
  search-tree order, and AVL balance for Bronson.  Every skip-list level is an ordered sub-list of
  the level below."

  Tie S (snapshot conformance).  At the quiescent end of every harness case the client
  `harness/clients/snap.cpp` dumps the real object through its private members as one `SNAP` line;
  the driver (`cdsdriver snapshot`, `CdsVerif/Driver/Snapshot.lean`) parses the line and evaluates
  the executable well-formedness predicates and abstraction functions of
  `CdsVerif/Base/Snapshot.lean` on it.  This file proves what a `WF` verdict means: well-formedness
  of the dump implies that the abstraction is exactly the sorted, duplicate-free sequence of present
  keys, that the ideal forward traversal of the dumped chain yields exactly that sequence, and the
  structural claims of the property (sub-list levels, search-tree order, AVL balance, split order).
  The comparison of the abstraction with what the container's own iterator / `size()` / `empty()` /
  `check_consistency()` report is done by the client and by the check script (`ITER`, `SIZE`,
  `EMPTY`, `CONSIST`, `X` lines).
-/
import CdsVerif.Base.Snapshot
namespace CdsVerif.Props.C18
open CdsVerif.Snapshot

/-! ### Generic lemmas -/

theorem chainB_cons {α : Type} (r : α → α → Bool)
    (trans : ∀ a b c, r a b = true → r b c = true → r a c = true) :
    ∀ (l : List α) (a : α), chainB r (a :: l) = true → (∀ x ∈ l, r a x = true) ∧ chainB r l = true
  | [], _, _ => ⟨by simp, rfl⟩
  | b :: t, a, h => by
    simp only [chainB, Bool.and_eq_true] at h
    obtain ⟨hab, hbt⟩ := h
    have ih := chainB_cons r trans t b hbt
    refine ⟨?_, hbt⟩
    intro x hx
    rcases List.mem_cons.1 hx with rfl | hx
    · exact hab
    · exact trans a b x hab (ih.1 x hx)

/-- an adjacent-pairs test with a transitive relation establishes the relation between *all* pairs -/
theorem chainB_pairwise {α : Type} (r : α → α → Bool)
    (trans : ∀ a b c, r a b = true → r b c = true → r a c = true) :
    ∀ (l : List α), chainB r l = true → l.Pairwise (fun a b => r a b = true)
  | [], _ => List.Pairwise.nil
  | a :: l, h =>
    have h' := chainB_cons r trans l a h
    List.pairwise_cons.2 ⟨h'.1, chainB_pairwise r trans l h'.2⟩

theorem chainB_of_pairwise {α : Type} (r : α → α → Bool) :
    ∀ (l : List α), l.Pairwise (fun a b => r a b = true) → chainB r l = true
  | [], _ => rfl
  | [_], _ => rfl
  | a :: b :: t, h => by
    have h' := List.pairwise_cons.1 h
    simp only [chainB, Bool.and_eq_true]
    exact ⟨h'.1 b (List.mem_cons_self ..), chainB_of_pairwise r (b :: t) h'.2⟩

/-- `sortedLt` decides "strictly increasing" -/
theorem sortedLt_iff (l : List Int) : sortedLt l = true ↔ l.Pairwise (· < ·) := by
  constructor
  · intro h
    have := chainB_pairwise (fun a b : Int => decide (a < b))
      (fun a b c hab hbc => by
        simp only [decide_eq_true_eq] at *
        exact Int.lt_trans hab hbc) l h
    exact this.imp (fun hab => by simpa using hab)
  · intro h
    exact chainB_of_pairwise _ l (h.imp (fun hab => by simpa using hab))

theorem pairwise_lt_nodup {l : List Int} (h : l.Pairwise (· < ·)) : l.Nodup :=
  h.imp (fun hab => Int.ne_of_lt hab)

/-! ### Ordered lists (MichaelList, LazyList, IterableList) -/

/-- the ideal forward traversal of the chain yields exactly the abstraction -/
theorem listTraverse_eq_abs : ∀ s : ListSnap, listTraverse s = listAbs s
  | [] => rfl
  | n :: t => by
    have ih := listTraverse_eq_abs t
    unfold listAbs at ih ⊢
    cases hm : n.marked <;> cases hd : n.hasData <;>
      simp [listTraverse, LNode.live, hm, hd, ih]

/-- **C18, ordered lists.**  A well-formed dump represents a strictly increasing (hence
    duplicate-free) sequence of keys, and a forward traversal that skips marked and empty nodes
    visits exactly these keys, each once, in increasing order. -/
theorem C18_list (s : ListSnap) (h : listWf s = true) :
    (listAbs s).Pairwise (· < ·) ∧ (listAbs s).Nodup ∧ listTraverse s = listAbs s := by
  have hp := (sortedLt_iff _).1 h
  exact ⟨hp, pairwise_lt_nodup hp, listTraverse_eq_abs s⟩

/-- the test is exact: `listWf` is equivalent to the abstraction being strictly increasing -/
theorem listWf_iff (s : ListSnap) : listWf s = true ↔ (listAbs s).Pairwise (· < ·) := sortedLt_iff _

/-- every key the traversal yields belongs to a live node of the chain and vice versa -/
theorem listTraverse_mem (s : ListSnap) (k : Int) :
    k ∈ listTraverse s ↔ ∃ n ∈ s, n.live = true ∧ n.key = k := by
  rw [listTraverse_eq_abs]
  simp [listAbs, List.mem_map, List.mem_filter, and_assoc]

/-! What the forward iterator of `MichaelList` really does (`iterator_type::next()`): it follows
    `m_pNext.ptr()` and never looks at the mark bit, and `empty()` tests the head pointer for null.
    They agree with the ideal traversal only while no logically deleted node is linked. -/

def michaelIter (s : ListSnap) : List Int := (s.filter (·.hasData)).map (·.key)
def michaelEmpty (s : ListSnap) : Bool := s.isEmpty

theorem michaelIter_eq_abs (s : ListSnap) (h : ∀ n ∈ s, n.marked = false) : michaelIter s = listAbs s := by
  unfold michaelIter listAbs
  congr 1
  apply List.filter_congr
  intro n hn
  simp [LNode.live, h n hn]

/-- Dump of a real `MichaelList< HP >` at the quiescent end of a concurrent case (`snap.cpp --variant
    michael_hp --seed 11`, case 13311): `erase( 1 )` has marked the node and lost the CAS that unlinks
    it (a node was inserted in front of it meanwhile), no later operation passed by.  The dump is
    well-formed and represents the empty set; the library's iterator visits key 1 and `empty()` is
    false (`ITER 1`, `EMPTY 0`; the client raises `X iter-differs-from-snapshot`, `X empty-mismatch`). -/
example :
    let s : ListSnap := [⟨1, true, true⟩]
    listWf s = true ∧ listAbs s = [] ∧ listTraverse s = [] ∧ michaelIter s = [1] ∧ michaelEmpty s = false := by
  decide

/-! ### Skip lists -/

theorem subChain_spec : ∀ (ks : List (List Int)), subChain ks = true →
    ∀ i (h : i + 1 < ks.length), (ks[i + 1]).Sublist (ks[i])
  | [], _, i, h => by simp at h
  | [_], _, i, h => by simp at h
  | a :: b :: t, hc, i, h => by
    simp only [subChain, Bool.and_eq_true] at hc
    cases i with
    | zero => exact List.isSublist_iff_sublist.1 hc.1
    | succ j =>
      have := subChain_spec (b :: t) hc.2 j (by simpa using h)
      simpa using this

theorem level_sublist_level0 (ks : List (List Int)) (hc : subChain ks = true) :
    ∀ i (h : i < ks.length), (ks[i]).Sublist (ks[0]'(Nat.lt_of_le_of_lt (Nat.zero_le _) h))
  | 0, _ => List.Sublist.refl _
  | i + 1, h =>
    (subChain_spec ks hc i h).trans (level_sublist_level0 ks hc i (Nat.lt_of_succ_lt h))

theorem skipLevels_head (s : SkipSnap) (h : 0 < (skipLevels s).length) :
    (skipLevels s)[0] = levelKeys (s.headD []) := by
  cases s with
  | nil => simp [skipLevels] at h
  | cons a t => rfl

theorem skipAbs_sublist (s : SkipSnap) : (skipAbs s).Sublist (levelKeys (s.headD [])) := by
  unfold skipAbs levelKeys
  exact List.filter_sublist.map _

/-- **C18, skip lists.**  In a well-formed dump every level is strictly increasing, every level
    `i+1` is a sub-list of level `i` (hence of level 0), and the abstraction (unmarked keys of level
    0) is strictly increasing and duplicate-free. -/
theorem C18_skiplist (s : SkipSnap) (h : skipWf s = true) :
    (∀ i (hi : i < (skipLevels s).length), ((skipLevels s)[i]).Pairwise (· < ·)) ∧
    (∀ i (hi : i + 1 < (skipLevels s).length), ((skipLevels s)[i + 1]).Sublist ((skipLevels s)[i])) ∧
    (∀ i (hi : i < (skipLevels s).length), ((skipLevels s)[i]).Sublist (levelKeys (s.headD []))) ∧
    (skipAbs s).Pairwise (· < ·) ∧ (skipAbs s).Nodup := by
  simp only [skipWf, Bool.and_eq_true] at h
  obtain ⟨h0, hc⟩ := h
  have hp0 := (sortedLt_iff _).1 h0
  have hsub : ∀ i (hi : i < (skipLevels s).length), ((skipLevels s)[i]).Sublist (levelKeys (s.headD [])) := by
    intro i hi
    have := level_sublist_level0 _ hc i hi
    rwa [skipLevels_head s (Nat.lt_of_le_of_lt (Nat.zero_le _) hi)] at this
  have hpa := hp0.sublist (skipAbs_sublist s)
  exact ⟨fun i hi => hp0.sublist (hsub i hi), subChain_spec _ hc, hsub, hpa, pairwise_lt_nodup hpa⟩

/-- all levels of a well-formed dump, by membership -/
theorem C18_skiplist_levels (s : SkipSnap) (h : skipWf s = true) :
    ∀ l ∈ s, (levelKeys l).Pairwise (· < ·) := by
  intro l hl
  have hm : levelKeys l ∈ skipLevels s := List.mem_map.2 ⟨l, hl, rfl⟩
  obtain ⟨i, hi, e⟩ := List.mem_iff_getElem.1 hm
  rw [← e]
  exact (C18_skiplist s h).1 i hi

/-! ### EllenBinTree -/

theorem ETree.allKeys_leaves (p : Int → Bool) : ∀ t : ETree,
    t.allKeys p = true → ∀ x ∈ t.leaves, p x = true
  | .leaf k, h => by simpa [ETree.allKeys, ETree.leaves] using h
  | .node _ _ l r, h => by
    simp only [ETree.allKeys, Bool.and_eq_true] at h
    intro x hx
    rcases List.mem_append.1 hx with hx | hx
    · exact ETree.allKeys_leaves p l h.1.2 x hx
    · exact ETree.allKeys_leaves p r h.2 x hx

theorem ETree.allKeys_key (p : Int → Bool) : ∀ t : ETree, t.allKeys p = true → p t.key = true
  | .leaf _, h => h
  | .node _ _ _ _, h => by
    simp only [ETree.allKeys, Bool.and_eq_true] at h
    exact h.1.1

/-- search-tree order of a leaf-oriented tree makes the in-order leaf sequence strictly increasing -/
theorem ETree.ordered_pairwise : ∀ t : ETree, t.ordered = true → t.leaves.Pairwise (· < ·)
  | .leaf k, _ => by simp [ETree.leaves]
  | .node k _ l r, h => by
    simp only [ETree.ordered, Bool.and_eq_true] at h
    obtain ⟨⟨⟨hl, hr⟩, hol⟩, hor⟩ := h
    refine List.pairwise_append.2 ⟨ETree.ordered_pairwise l hol, ETree.ordered_pairwise r hor, ?_⟩
    intro a ha b hb
    have h1 := ETree.allKeys_leaves _ l hl a ha
    have h2 := ETree.allKeys_leaves _ r hr b hb
    simp only [decide_eq_true_eq] at h1 h2
    exact Int.lt_of_lt_of_le h1 h2

/-- a search tree passes the library's own `check_consistency()` (`ETree.libCheck`) -/
theorem ETree.libCheck_of : ∀ t : ETree, t.ordered = true → t.libCheck = true
  | .leaf _, _ => rfl
  | .node k _ l r, h => by
    simp only [ETree.ordered, Bool.and_eq_true] at h
    obtain ⟨⟨⟨hl, hr⟩, hol⟩, hor⟩ := h
    have h1 := ETree.allKeys_key _ l hl
    have h2 := ETree.allKeys_key _ r hr
    simp only [decide_eq_true_eq] at h1 h2
    simp only [ETree.libCheck, Bool.and_eq_true, decide_eq_true_eq]
    exact ⟨⟨⟨⟨h1, h2⟩, Int.lt_of_lt_of_le h1 h2⟩, ETree.libCheck_of l hol⟩, ETree.libCheck_of r hor⟩

/-- the sentinel shape: the in-order leaves are the finite keys followed by ∞₁, ∞₂ -/
theorem ellen_leaves_eq (t : ETree) (ho : t.ordered = true) (hs : t.shape = true) :
    t.leaves = ellenAbs t ++ [inf1, inf2] := by
  cases t with
  | leaf k => simp [ETree.shape] at hs
  | node k u l r =>
    cases r with
    | node => simp [ETree.shape] at hs
    | leaf k2 =>
      simp only [ETree.shape, Bool.and_eq_true, beq_iff_eq] at hs
      obtain ⟨⟨_, hk2⟩, hlast⟩ := hs
      obtain ⟨ys, hys⟩ := List.getLast?_eq_some_iff.1 hlast
      have hp := ETree.ordered_pairwise _ ho
      simp only [ETree.leaves, hys, hk2] at hp ⊢
      have hlt : ∀ y ∈ ys, y < inf1 := by
        intro y hy
        have := (List.pairwise_append.1 (List.pairwise_append.1 hp).1).2.2 y hy inf1 (by simp)
        exact this
      have hf : ys.filter (fun k => decide (k < inf1)) = ys :=
        List.filter_eq_self.2 (fun y hy => by simpa using hlt y hy)
      have e1 : decide (inf1 < inf1) = false := by decide
      have e2 : decide (inf2 < inf1) = false := by decide
      simp [ellenAbs, ETree.leaves, hys, List.filter_append, hf, e2]

/-- **C18, EllenBinTree.**  In a well-formed dump the in-order leaf keys are strictly increasing;
    the finite ones (the abstraction) are strictly increasing and duplicate-free, the leaves are
    exactly these followed by the two sentinels, and no update descriptor is pending. -/
theorem C18_ellen (t : ETree) (h : ellenWf t = true) :
    t.leaves.Pairwise (· < ·) ∧ (ellenAbs t).Pairwise (· < ·) ∧ (ellenAbs t).Nodup ∧
    t.leaves = ellenAbs t ++ [inf1, inf2] ∧ t.clean = true := by
  simp only [ellenWf, Bool.and_eq_true] at h
  obtain ⟨⟨ho, hc⟩, hs⟩ := h
  have hp := ETree.ordered_pairwise t ho
  have hpa : (ellenAbs t).Pairwise (· < ·) := hp.sublist List.filter_sublist
  exact ⟨hp, hpa, pairwise_lt_nodup hpa, ellen_leaves_eq t ho hs, hc⟩

/-- the order part alone (what the property statement literally asks for) -/
theorem C18_ellen_order (t : ETree) (h : t.ordered = true) : t.leaves.Pairwise (· < ·) :=
  ETree.ordered_pairwise t h

/-- a well-formed dump passes the library's own `check_consistency()` … -/
theorem ellenWf_libCheck (t : ETree) (h : ellenWf t = true) : t.libCheck = true := by
  simp only [ellenWf, Bool.and_eq_true] at h
  exact ETree.libCheck_of t h.1.1

/-- … but not conversely: `EllenBinTree::check_consistency()` (`ETree.libCheck`) compares direct
    children only, so it accepts trees that are not search trees (leaf 9 in the left subtree of 5) -/
example :
    let t := ETree.node 5 0 (.node 3 0 (.leaf 1) (.leaf 9)) (.leaf 5)
    t.libCheck = true ∧ t.ordered = false := by decide

/-! ### BronsonAVLTreeMap -/

theorem ATree.allKeys_iff (p : Int → Bool) : ∀ t : ATree,
    t.allKeys p = true ↔ ∀ x ∈ t.keys, p x = true
  | .nil => by simp [ATree.allKeys, ATree.keys]
  | .node k _ _ l r => by
    simp [ATree.allKeys, ATree.keys, ATree.allKeys_iff p l, ATree.allKeys_iff p r,
      List.mem_append, or_imp, forall_and, and_assoc, and_left_comm]

theorem ATree.ordered_pairwise : ∀ t : ATree, t.ordered = true → t.keys.Pairwise (· < ·)
  | .nil, _ => by simp [ATree.keys]
  | .node k _ _ l r, h => by
    simp only [ATree.ordered, Bool.and_eq_true] at h
    obtain ⟨⟨⟨hl, hr⟩, hol⟩, hor⟩ := h
    have hl' := (ATree.allKeys_iff _ l).1 hl
    have hr' := (ATree.allKeys_iff _ r).1 hr
    simp only [decide_eq_true_eq] at hl' hr'
    refine List.pairwise_append.2 ⟨ATree.ordered_pairwise l hol,
      List.pairwise_cons.2 ⟨hr', ATree.ordered_pairwise r hor⟩, ?_⟩
    intro a ha b hb
    rcases List.mem_cons.1 hb with rfl | hb
    · exact hl' a ha
    · exact Int.lt_trans (hl' a ha) (hr' b hb)

theorem ATree.vkeys_sublist : ∀ t : ATree, t.vkeys.Sublist t.keys
  | .nil => List.Sublist.refl _
  | .node k _ v l r => by
    simp only [ATree.vkeys, ATree.keys]
    refine List.Sublist.append (ATree.vkeys_sublist l) ?_
    cases v
    · exact (ATree.vkeys_sublist r).cons _
    · exact (ATree.vkeys_sublist r).cons_cons _

/-- exact stored heights are the structural heights -/
theorem ATree.h_eq_sh : ∀ t : ATree, t.heightsOk = true → t.h = (t.sh : Int)
  | .nil, _ => rfl
  | .node _ ht _ l r, h => by
    simp only [ATree.heightsOk, Bool.and_eq_true, beq_iff_eq] at h
    obtain ⟨⟨hh, hl⟩, hr⟩ := h
    have il := ATree.h_eq_sh l hl
    have ir := ATree.h_eq_sh r hr
    simp only [ATree.h, ATree.sh]
    omega

theorem ATree.balanced_struct : ∀ t : ATree, t.heightsOk = true → t.balanced = true → t.Balanced
  | .nil, _, _ => trivial
  | .node _ ht _ l r, hh, hb => by
    simp only [ATree.heightsOk, Bool.and_eq_true, beq_iff_eq] at hh
    simp only [ATree.balanced, Bool.and_eq_true, decide_eq_true_eq] at hb
    obtain ⟨⟨_, hl⟩, hr⟩ := hh
    obtain ⟨⟨⟨b1, b2⟩, bl⟩, br⟩ := hb
    have il := ATree.h_eq_sh l hl
    have ir := ATree.h_eq_sh r hr
    exact ⟨by omega, by omega, ATree.balanced_struct l hl bl, ATree.balanced_struct r hr br⟩

/-- **C18, BronsonAVLTreeMap, strict form** (what the property says; holds at the quiescent points
    of sequential histories, see `Base/Snapshot.lean` for the concurrent case).  In a strict dump the
    in-order keys of all nodes are strictly increasing, so are those of the nodes with a value (the
    abstraction), which are duplicate-free; every stored height is the structural height of the
    subtree, and the tree is AVL-balanced. -/
theorem C18_avl_strict (t : ATree) (h : avlStrict t = true) :
    t.keys.Pairwise (· < ·) ∧ (avlAbs t).Pairwise (· < ·) ∧ (avlAbs t).Nodup ∧
    t.h = (t.sh : Int) ∧ t.Balanced := by
  simp only [avlStrict, Bool.and_eq_true] at h
  obtain ⟨⟨⟨ho, hh⟩, hb⟩, _⟩ := h
  have hp := ATree.ordered_pairwise t ho
  have hpa : (avlAbs t).Pairwise (· < ·) := hp.sublist (ATree.vkeys_sublist t)
  exact ⟨hp, hpa, pairwise_lt_nodup hpa, ATree.h_eq_sh t hh, ATree.balanced_struct t hh hb⟩

theorem avlStrict_wf (t : ATree) (h : avlStrict t = true) : avlWf t = true := by
  simp only [avlStrict, Bool.and_eq_true] at h
  exact h.1.1.1

theorem ATree.left_child_ok (k : Int) : ∀ l : ATree, l.allKeys (fun x => decide (x < k)) = true →
    (match l with | .node kl .. => decide (kl ≤ k) | .nil => true) = true
  | .nil, _ => rfl
  | .node kl _ _ _ _, h => by
    simp only [ATree.allKeys, Bool.and_eq_true, decide_eq_true_eq] at h
    simp only [decide_eq_true_eq]
    exact Int.le_of_lt h.1.1

theorem ATree.right_child_ok (k : Int) : ∀ r : ATree, r.allKeys (fun x => decide (k < x)) = true →
    (match r with | .node kr .. => decide (k ≤ kr) | .nil => true) = true
  | .nil, _ => rfl
  | .node kr _ _ _ _, h => by
    simp only [ATree.allKeys, Bool.and_eq_true, decide_eq_true_eq] at h
    simp only [decide_eq_true_eq]
    exact Int.le_of_lt h.1.1

/-- the height computed by `do_check_consistency` is 0 for every tree -/
theorem ATree.libH_eq_zero : ∀ t : ATree, t.libH = 0
  | .nil => rfl
  | .node _ _ _ l r => by simp [ATree.libH, ATree.libH_eq_zero l, ATree.libH_eq_zero r]

/-- hence the balance test of `check_consistency()` is vacuous: the function checks nothing but the
    order of every node with respect to its direct children -/
theorem libCheck_eq_localOrder : ∀ t : ATree, t.libCheck = t.localOrder
  | .nil => rfl
  | .node k _ _ l r => by
    simp [ATree.libCheck, ATree.localOrder, libCheck_eq_localOrder l, libCheck_eq_localOrder r,
      ATree.libH_eq_zero]

theorem ATree.localOrder_of : ∀ t : ATree, t.ordered = true → t.localOrder = true
  | .nil, _ => rfl
  | .node k _ _ l r, ho => by
    simp only [ATree.ordered, Bool.and_eq_true] at ho
    obtain ⟨⟨⟨ol, or_⟩, ool⟩, oor⟩ := ho
    have e1 := ATree.left_child_ok k l ol
    have e2 := ATree.right_child_ok k r or_
    simp only [ATree.localOrder, Bool.and_eq_true]
    exact ⟨⟨⟨e1, e2⟩, ATree.localOrder_of l ool⟩, ATree.localOrder_of r oor⟩

/-- a well-formed dump passes the library's own `check_consistency()` … -/
theorem avlWf_libCheck (t : ATree) (h : avlWf t = true) : t.libCheck = true := by
  rw [libCheck_eq_localOrder]
  exact ATree.localOrder_of t h

/-- **C18, BronsonAVLTreeMap** (every quiescent point).  In a well-formed dump the in-order keys of
    all nodes are strictly increasing, so are those of the nodes with a value (the abstraction),
    which are duplicate-free: an in-order traversal visits every present key once, in increasing
    order.  The dump passes the library's `check_consistency()`. -/
theorem C18_avl (t : ATree) (h : avlWf t = true) :
    t.keys.Pairwise (· < ·) ∧ (avlAbs t).Pairwise (· < ·) ∧ (avlAbs t).Nodup ∧ t.libCheck = true := by
  have hp := ATree.ordered_pairwise t h
  have hpa : (avlAbs t).Pairwise (· < ·) := hp.sublist (ATree.vkeys_sublist t)
  exact ⟨hp, hpa, pairwise_lt_nodup hpa, avlWf_libCheck t h⟩

/-- … but not conversely: `check_consistency()` compares direct children only, so it accepts a tree
    that is not a search tree (9 below 5 on the left), -/
example :
    let t := ATree.node 5 3 true (.node 3 2 true .nil (.node 9 1 true .nil .nil)) (.node 8 1 true .nil .nil)
    t.libCheck = true ∧ avlWf t = false := by decide

/-- and because its height computation always yields 0 it accepts a degenerate (list-shaped) tree:
    dump of a real object built from a copy of the library in which the rebalancing threshold had
    been changed from 1 to 2 (`CONSIST 1` was reported for it). -/
example :
    let t := ATree.node 2 3 true .nil (.node 6 2 true (.node 3 1 true .nil .nil) .nil)
    t.libCheck = true ∧ t.balanced = false ∧ avlStrict t = false := by decide
example :
    let t := ATree.node 1 4 true .nil (.node 2 3 true .nil (.node 3 2 true .nil (.node 4 1 true .nil .nil)))
    t.libCheck = true ∧ t.ordered = true ∧ t.heightsOk = true ∧ t.balanced = false := by decide

/-! Dumps of the real `BronsonAVLTreeMap< general_instant RCU, long, long >` (unmodified library) at
    the quiescent end of *concurrent* cases of `harness/clients/snap.cpp` (seed 12, 3 threads): the
    tree is a search tree with the right contents, and not a strict AVL tree. -/

/-- `--variant bronson_gpi_cnt --seed 12`, case 2196: node 1 has an empty left and a right subtree of
    height 2 (imbalance 2), its stored height 2 is stale -/
example :
    let t := ATree.node 4 3 true
      (.node 1 2 true .nil (.node 2 2 true .nil (.node 3 1 true .nil .nil)))
      (.node 7 2 true (.node 5 1 true .nil .nil) .nil)
    avlWf t = true ∧ avlAbs t = [1, 2, 3, 4, 5, 7] ∧ t.libCheck = true ∧
    avlStrict t = false ∧ t.heightsOk = false ∧ t.balanced = false := by decide

/-- `--variant bronson_gpi --seed 12`, case 1488: the root's subtrees have heights 3 and 1 -/
example :
    let t := ATree.node 6 3 true
      (.node 1 3 false (.node 0 1 true .nil .nil) (.node 3 2 true .nil (.node 4 1 true .nil .nil)))
      (.node 7 1 true .nil .nil)
    avlWf t = true ∧ t.libCheck = true ∧ avlStrict t = false ∧ t.balanced = false ∧
    (match t with | .node _ _ _ l r => (l.sh, r.sh) | .nil => (0, 0)) = (3, 1) := by decide

/-- `--variant bronson_gpi_relaxed --seed 12`, case 7107: a routing node with one child is left behind
    (here as the root; `size()` is 1, the abstraction is `[3]`) -/
example :
    let t := ATree.node 2 2 false .nil (.node 3 1 true .nil .nil)
    avlWf t = true ∧ avlAbs t = [3] ∧ avlStrict t = false ∧ t.routingOk = false := by decide

/-! ### Split-ordered list -/

/-- the order of the underlying list, as a proposition -/
def SoLt (a b : SONode) : Prop :=
  a.so < b.so ∨ (a.so = b.so ∧ a.isDummy = false ∧ b.isDummy = false ∧ a.key < b.key)

theorem soLt_iff (a b : SONode) : soLt a b = true ↔ SoLt a b := by
  simp [soLt, SoLt, and_assoc]

theorem SoLt.trans {a b c : SONode} (h1 : SoLt a b) (h2 : SoLt b c) : SoLt a c := by
  unfold SoLt at *
  rcases h1 with h1 | ⟨e1, da, _, k1⟩ <;> rcases h2 with h2 | ⟨e2, _, dc, k2⟩
  · left; omega
  · left; omega
  · left; omega
  · right; exact ⟨by omega, da, dc, by omega⟩

theorem splitWf_pairwise (s : SplitSnap) (h : chainB soLt s = true) : s.Pairwise SoLt := by
  have := chainB_pairwise soLt
    (fun a b c hab hbc => (soLt_iff a c).2 (((soLt_iff a b).1 hab).trans ((soLt_iff b c).1 hbc))) s h
  exact this.imp (fun hab => (soLt_iff _ _).1 hab)

/-- **C18, split-ordered list.**  In a well-formed dump
    1. the whole chain is ordered by the split-list order (split-order key; regular nodes with equal
       split-order keys by user key; distinct dummies have distinct split-order keys);
    2. the chain starts with the dummy node of bucket 0;
    3. dummy nodes are exactly the nodes with an even split-order key;
    4. every regular node has a dummy before it, every dummy before it has a smaller and every dummy
       after it a larger split-order key: the node lies in the segment of its bucket's dummy;
    5. the regular nodes have non-decreasing split-order keys, and those with equal split-order
       keys strictly increasing user keys. -/
theorem C18_splitlist (s : SplitSnap) (h : splitWf s = true) :
    s.Pairwise SoLt ∧
    (∃ d t, s = d :: t ∧ d.isDummy = true ∧ d.so = 0) ∧
    (∀ n ∈ s, (n.isDummy = true ↔ n.so % 2 = 0) ∧ n.so < 2 ^ 64) ∧
    (∀ pre r post, s = pre ++ r :: post → r.isDummy = false →
      (∃ d ∈ pre, d.isDummy = true) ∧
      (∀ d ∈ pre, d.isDummy = true → d.so < r.so) ∧
      (∀ d ∈ post, d.isDummy = true → r.so < d.so)) ∧
    (s.filter (fun n => !n.isDummy)).Pairwise (fun a b => a.so ≤ b.so ∧ (a.so = b.so → a.key < b.key)) := by
  simp only [splitWf, Bool.and_eq_true] at h
  obtain ⟨⟨hhead, hpar⟩, hchain⟩ := h
  have hp := splitWf_pairwise s hchain
  have hfirst : ∃ d t, s = d :: t ∧ d.isDummy = true ∧ d.so = 0 := by
    cases s with
    | nil => simp at hhead
    | cons d t =>
      simp only [Bool.and_eq_true, beq_iff_eq] at hhead
      exact ⟨d, t, rfl, hhead.1, hhead.2⟩
  refine ⟨hp, hfirst, ?_, ?_, ?_⟩
  · intro n hn
    have := (List.all_eq_true.1 hpar) n hn
    simp only [SONode.parityOk, Bool.and_eq_true, decide_eq_true_eq, beq_iff_eq] at this
    refine ⟨?_, this.2⟩
    have hb := this.1
    cases hd : n.isDummy <;> simp [hd] at hb ⊢ <;> omega
  · intro pre r post hs hr
    subst hs
    obtain ⟨d, t, e, hd, _⟩ := hfirst
    have hpa := List.pairwise_append.1 hp
    refine ⟨?_, ?_, ?_⟩
    · cases pre with
      | nil =>
        simp only [List.nil_append, List.cons.injEq] at e
        rw [e.1] at hr
        rw [hr] at hd
        cases hd
      | cons p pre' =>
        simp only [List.cons_append, List.cons.injEq] at e
        exact ⟨p, List.mem_cons_self .., e.1 ▸ hd⟩
    · intro x hx hxd
      rcases hpa.2.2 x hx r (List.mem_cons_self ..) with hlt | ⟨_, hx', _⟩
      · exact hlt
      · rw [hxd] at hx'; cases hx'
    · intro x hx hxd
      rcases (List.pairwise_cons.1 hpa.2.1).1 x hx with hlt | ⟨_, _, hx', _⟩
      · exact hlt
      · rw [hxd] at hx'; cases hx'
  · refine (hp.filter _).imp ?_
    intro a b hab
    rcases hab with hlt | ⟨e, _, _, k⟩
    · exact ⟨Nat.le_of_lt hlt, fun e => absurd e (Nat.ne_of_lt hlt)⟩
    · exact ⟨Nat.le_of_eq e, fun _ => k⟩

/-- If the split-order key of a regular node is a function of its key (it is: the bit-reversed hash
    of the key with the lowest bit set), the present keys are pairwise distinct: iteration in split
    order visits every present key once. -/
theorem C18_splitlist_nodup (s : SplitSnap) (h : splitWf s = true)
    (hash : ∀ a ∈ s, ∀ b ∈ s, a.isDummy = false → b.isDummy = false → a.key = b.key → a.so = b.so) :
    (splitAbs s).Nodup := by
  have hp := (C18_splitlist s h).1
  unfold splitAbs
  refine (List.pairwise_map.2 ?_ : List.Nodup _)
  have hmem : ∀ x ∈ s.filter (fun n => !n.isDummy && !n.marked), x ∈ s ∧ x.isDummy = false := by
    intro x hx
    have := List.mem_filter.1 hx
    refine ⟨this.1, ?_⟩
    have h2 := this.2
    simp only [Bool.and_eq_true, Bool.not_eq_true'] at h2
    exact h2.1
  have hp' := (hp.filter (fun n => !n.isDummy && !n.marked))
  -- strengthen every pair with the membership facts
  have : (s.filter (fun n => !n.isDummy && !n.marked)).Pairwise
      (fun a b => a ∈ s.filter (fun n => !n.isDummy && !n.marked) ∧
        b ∈ s.filter (fun n => !n.isDummy && !n.marked) ∧ SoLt a b) := by
    have := List.Pairwise.and_mem.1 hp'
    exact this.imp (fun ⟨ha, hb, r⟩ => ⟨ha, hb, r⟩)
  refine this.imp ?_
  intro a b ⟨ha, hb, hab⟩ hk
  have hA := hmem a ha
  have hB := hmem b hb
  have hso := hash a hA.1 b hB.1 hA.2 hB.2 hk
  rcases hab with hlt | ⟨_, _, _, k⟩
  · omega
  · omega

/-! ### Examples: a well-formed and an ill-formed dump of each kind (kernel-checked by `decide`) -/

-- ordered list: [1, (empty node), 2 marked, 3]
example : listWf [⟨1, false, true⟩, ⟨0, false, false⟩, ⟨2, true, true⟩, ⟨3, false, true⟩] = true := by decide
example : listAbs [⟨1, false, true⟩, ⟨0, false, false⟩, ⟨2, true, true⟩, ⟨3, false, true⟩] = [1, 3] := by decide
-- a logically deleted node may be out of order, a live one may not; duplicates are rejected
example : listWf [⟨3, false, true⟩, ⟨1, true, true⟩, ⟨4, false, true⟩] = true := by decide
example : listWf [⟨3, false, true⟩, ⟨1, false, true⟩] = false := by decide
example : listWf [⟨3, false, true⟩, ⟨3, false, true⟩] = false := by decide

-- skip list
example : skipWf [[⟨1, false⟩, ⟨2, false⟩, ⟨5, false⟩], [⟨1, false⟩, ⟨5, false⟩], [⟨5, false⟩]] = true := by decide
example : skipAbs [[⟨1, false⟩, ⟨2, true⟩, ⟨5, false⟩], [⟨1, false⟩, ⟨5, false⟩]] = [1, 5] := by decide
-- level 1 contains a key that level 0 lacks / in another order; level 0 unsorted
example : skipWf [[⟨1, false⟩, ⟨2, false⟩], [⟨3, false⟩]] = false := by decide
example : skipWf [[⟨1, false⟩, ⟨2, false⟩], [⟨2, false⟩, ⟨1, false⟩]] = false := by decide
example : skipWf [[⟨2, false⟩, ⟨1, false⟩]] = false := by decide

-- Ellen: the empty tree and a tree with keys 1, 2
example : ellenWf (.node inf2 0 (.leaf inf1) (.leaf inf2)) = true := by decide
example : ellenWf (.node inf2 0 (.node inf1 0 (.node 2 0 (.leaf 1) (.leaf 2)) (.leaf inf1)) (.leaf inf2)) = true := by decide
example : ellenAbs (.node inf2 0 (.node inf1 0 (.node 2 0 (.leaf 1) (.leaf 2)) (.leaf inf1)) (.leaf inf2)) = [1, 2] := by decide
-- leaves out of order; routing key equal to a key of the left subtree; pending descriptor; missing sentinel
example : ellenWf (.node inf2 0 (.node inf1 0 (.node 2 0 (.leaf 2) (.leaf 1)) (.leaf inf1)) (.leaf inf2)) = false := by decide
example : ellenWf (.node inf2 0 (.node inf1 0 (.node 1 0 (.leaf 1) (.leaf 2)) (.leaf inf1)) (.leaf inf2)) = false := by decide
example : ellenWf (.node inf2 0 (.node inf1 2 (.node 2 0 (.leaf 1) (.leaf 2)) (.leaf inf1)) (.leaf inf2)) = false := by decide
example : ellenWf (.node inf2 0 (.node 2 0 (.leaf 1) (.leaf 2)) (.leaf inf2)) = false := by decide

-- AVL: routing node 4 with two children
example : avlStrict (.node 4 2 false (.node 1 1 true .nil .nil) (.node 6 1 true .nil .nil)) = true := by decide
example : avlWf (.node 4 2 false (.node 1 1 true .nil .nil) (.node 6 1 true .nil .nil)) = true := by decide
example : avlAbs (.node 4 2 false (.node 1 1 true .nil .nil) (.node 6 1 true .nil .nil)) = [1, 6] := by decide
-- wrong order (direct child; deeper in the tree; duplicate key): not well-formed
example : avlWf (.node 4 2 true (.node 5 1 true .nil .nil) .nil) = false := by decide
example : avlWf (.node 4 3 true (.node 2 2 true .nil (.node 5 1 true .nil .nil)) .nil) = false := by decide
example : avlWf (.node 4 2 true (.node 4 1 true .nil .nil) .nil) = false := by decide
-- stale stored height; unbalanced; dangling routing node: well-formed, not strict
example : avlStrict (.node 4 3 true (.node 1 1 true .nil .nil) .nil) = false := by decide
example : avlStrict (.node 4 3 true (.node 2 2 true (.node 1 1 true .nil .nil) .nil) .nil) = false := by decide
example : avlStrict (.node 4 2 false (.node 1 1 true .nil .nil) .nil) = false := by decide

-- split list: buckets 0 and 1, keys 4, 5 (same split-order key), 3
example : splitWf [⟨0, true, 0, false⟩, ⟨4611686018427387905, false, 4, false⟩, ⟨4611686018427387905, false, 5, false⟩,
    ⟨9223372036854775808, true, 1, false⟩, ⟨9223372036854775809, false, 3, false⟩] = true := by decide
example : splitAbs [⟨0, true, 0, false⟩, ⟨4611686018427387905, false, 4, false⟩, ⟨4611686018427387905, false, 5, false⟩,
    ⟨9223372036854775808, true, 1, false⟩, ⟨9223372036854775809, false, 3, false⟩] = [4, 5, 3] := by decide
-- equal split-order keys in the wrong key order; regular node first; regular node with an even key;
-- a regular node of bucket 1 before that bucket's dummy
example : splitWf [⟨0, true, 0, false⟩, ⟨4611686018427387905, false, 5, false⟩, ⟨4611686018427387905, false, 4, false⟩] = false := by decide
example : splitWf [⟨1, false, 0, false⟩] = false := by decide
example : splitWf [⟨0, true, 0, false⟩, ⟨2, false, 1, false⟩] = false := by decide
example : splitWf [⟨0, true, 0, false⟩, ⟨9223372036854775809, false, 3, false⟩, ⟨9223372036854775808, true, 1, false⟩] = false := by decide

/-- The Boolean balance test the driver evaluates on a dump is exactly AVL balance of the shape. -/
theorem ATree.shapeBalanced_iff : ∀ t : ATree, t.shapeBalanced = true ↔ t.Balanced
  | .nil => by simp [ATree.shapeBalanced, ATree.Balanced]
  | .node _ _ _ l r => by
    simp only [ATree.shapeBalanced, ATree.Balanced, Bool.and_eq_true, decide_eq_true_eq,
      ATree.shapeBalanced_iff l, ATree.shapeBalanced_iff r]
    constructor
    · rintro ⟨⟨⟨a, b⟩, c⟩, d⟩; exact ⟨a, b, c, d⟩
    · rintro ⟨a, b, c, d⟩; exact ⟨⟨⟨a, b⟩, c⟩, d⟩

end CdsVerif.Props.C18

/-
  Property C18, "reachable ⇒ well-formed" for the containers that have an atomic-step machine.

  `Props/C18.lean` proves what a WELL-FORMED dump of a container means (the abstraction is strictly increasing and
  duplicate-free, the ideal traversal yields exactly the abstraction, levels are sub-lists, split order …); that the
  dumps of the real objects at quiescent points ARE well-formed is checked on the explored schedules only (tie S).
  This file closes that gap on the side of the machines (`Algo/Michael`, `Algo/Lazy`, `Algo/SkipList`,
  `Algo/SplitList`, each proved for every schedule and tied to the real code by trace replay): a machine state is
  rendered in the dump format of `harness/clients/snap.cpp` by an executable `snapOf`, and for EVERY reachable state —
  every schedule, any number of threads, any client program, quiescent or not — the rendering is well-formed in the
  sense of `Base/Snapshot.lean` and its abstraction is the abstract set of the machine (the `absMap` of the
  linearizability theorems C13 / C14 / C15).  The corollaries instantiate `C18_list` / `C18_skiplist` /
  `C18_splitlist`.

  Reachability is stated as in the machines' own property files: `model.run init sched = some (s, os)` for a schedule
  `sched` (`Model.Reachable init s` is `∃ sched os, …`).

  What is proved in full, what in part:
  * MichaelList — full (`C18_michael_reachable_wf`, `C18_michael_traversal`).
  * LazyList — full for the LOGICAL chain in every reachable state (`C18_lazy_reachable_wf`); the words in MEMORY
    (what the real dump reads) spell the logical chain, without any marked node, in every reachable state in which no
    eraser is between its marking store and its unlink store, in particular in every quiescent state
    (`C18_lazy_memory_dump`, `C18_lazy_quiescent`).  Inside such a window the memory words form a cycle (the libcds
    variant writes a marked back-link to the head), see the example.
  * SkipListSet — level 0 only (`C18_skiplist_reachable_wf_partial`): the invariant of the machine does not speak
    about the order of the upper levels.
  * SplitListSet — `splitWf` in full for the dump that tells dummy nodes from items by the kind of the node
    (`C18_splitlist_reachable_wf`); the real dump tells them by the bucket table, which is the same whenever every
    linked dummy is published (`C18_splitlist_table_dump`), and that is so in every reachable state in which no thread
    is between linking a dummy node and publishing it, in particular in every quiescent state
    (`C18_splitlist_publication_invariant`, `C18_splitlist_published`, `C18_splitlist_quiescent_table_dump`).
  * Item counters: the Michael, Lazy and SkipList machines do not model the item counter.  The SplitList machine has
    `m_ItemCounter` (`items`): counting invariant for every reachable state (`C18_splitlist_counter_invariant`) and
    `size() = |abs| mod 2^64` at quiescence (`C18_splitlist_quiescent_size`, `…_exact`).
-/
import CdsVerif.Algo.Michael.Snap
import CdsVerif.Algo.Lazy.Snap
import CdsVerif.Algo.SkipList.Snap
import CdsVerif.Algo.SplitList.Snap
import CdsVerif.Props.C18
namespace CdsVerif.Props.C18Reach
open CdsVerif.Machine CdsVerif.Spec CdsVerif.Snapshot CdsVerif.Algo CdsVerif.Props.C18

def steps (t : Tid) (n : Nat) : List (Tid × Act) := List.replicate n (t, .step)
def ins (k v : Int) : GOp := ⟨"insert", [k, v]⟩
def era (k : Int) : GOp := ⟨"erase", [k]⟩
def fnd (k : Int) : GOp := ⟨"find", [k]⟩

/-! ### MichaelList -/

/-- **C18 for every reachable state of the MichaelList machine.**  The dump `Michael.snapOf s` (raw chain from
    `m_pHead`: key, mark bit, `hasData = 1`) is well-formed; its abstraction is `Michael.absKeys s`, the keys of the
    machine's abstract map `absMap s` in chain order; these keys are strictly increasing; and ALL dumped nodes, the
    logically deleted ones included, have strictly increasing keys. -/
theorem C18_michael_reachable_wf (sched : List (Tid × Act)) (s : Michael.St) (os : List (Tid × Obs))
    (h : Michael.model.run Michael.init sched = some (s, os)) :
    listWf (Michael.snapOf s) = true ∧
    listAbs (Michael.snapOf s) = Michael.absKeys s ∧
    (∀ k, k ∈ Michael.absKeys s ↔ ∃ v, (k, v) ∈ Michael.absMap s) ∧
    (Michael.absKeys s).Pairwise (· < ·) ∧
    ((Michael.snapOf s).map (·.key)).Pairwise (· < ·) := by
  obtain ⟨L, hl⟩ := Michael.sinv_reachable s ⟨sched, os, h⟩
  exact ⟨hl.snap_wf, Michael.listAbs_snapOf s, Michael.mem_absKeys s, hl.absKeys_sorted, hl.snap_all_sorted⟩

/-- Corollary (`C18_list`): in every reachable state — in particular in every quiescent one — the forward traversal
    of the chain that skips logically deleted nodes visits exactly the abstract set, each key once, in strictly
    increasing order. -/
theorem C18_michael_traversal (sched : List (Tid × Act)) (s : Michael.St) (os : List (Tid × Obs))
    (h : Michael.model.run Michael.init sched = some (s, os)) :
    listTraverse (Michael.snapOf s) = Michael.absKeys s ∧
    (Michael.absKeys s).Pairwise (· < ·) ∧ (Michael.absKeys s).Nodup := by
  obtain ⟨hwf, habs, -, -, -⟩ := C18_michael_reachable_wf sched s os h
  have := C18_list _ hwf
  rw [habs] at this
  exact ⟨this.2.2, this.1, this.2.1⟩

/-- Non-vacuity.  `insert 5`, `insert 7` by thread 0, then thread 1's `erase 5` up to and including its marking CAS:
    the reached (non-quiescent) state has the logically deleted node of key 5 still linked. -/
def michaelSched : List (Tid × Act) :=
  [(0, .invoke (ins 5 10))] ++ steps 0 4 ++ [(0, .ret), (0, .invoke (ins 7 20))] ++ steps 0 7 ++ [(0, .ret),
   (1, .invoke (era 5))] ++ steps 1 6

example : (Michael.model.run Michael.init michaelSched).map
    (fun r => (Michael.snapOf r.1, listWf (Michael.snapOf r.1), listAbs (Michael.snapOf r.1), Michael.absKeys r.1,
      listTraverse (Michael.snapOf r.1))) =
    some ([⟨5, true, true⟩, ⟨7, false, true⟩], true, [7], [7], [7]) := by decide +kernel

/-- A QUIESCENT reachable state with a logically deleted node still linked (the situation of the real dump quoted in
    `Props/C18.lean`): `insert 0` has finished its search in front of node 1, `erase 1` marks node 1, the insert links
    its node in front of it, the eraser's unlink CAS fails (`cas- head n2 n1`) and both return.  The dump is well-formed
    with abstraction `[0]`; a traversal that ignores marks (`michaelIter`) would visit key 1. -/
def michaelQuiescentMarked : List (Tid × Act) :=
  [(0, .invoke (ins 1 10))] ++ steps 0 4 ++ [(0, .ret), (0, .invoke (ins 0 20))] ++ steps 0 6 ++
  [(1, .invoke (era 1))] ++ steps 1 6 ++ steps 0 1 ++ [(0, .ret)] ++ steps 1 1 ++ [(1, .ret)]

set_option synthInstance.maxSize 2000 in
example : (Michael.model.run Michael.init michaelQuiescentMarked).map
    (fun r => (Michael.snapOf r.1, listWf (Michael.snapOf r.1), Michael.absKeys r.1, listTraverse (Michael.snapOf r.1),
      michaelIter (Michael.snapOf r.1), (List.range 4).all (fun t => r.1.pc t == .idle))) =
    some ([⟨0, false, true⟩, ⟨1, true, true⟩], true, [0], [0], [0, 1], true) := by decide +kernel

/-! ### LazyList -/

/-- **C18 for every reachable state of the LazyList machine, logical chain.**  The dump `Lazy.snapOf s` of the
    logical chain (ghost successor; between the sentinels) is well-formed; its abstraction is `Lazy.absKeys s`, the
    keys of the machine's abstract map; these are strictly increasing; and all nodes of the logical chain, the
    logically deleted ones included, have strictly increasing keys. -/
theorem C18_lazy_reachable_wf (sched : List (Tid × Act)) (s : Lazy.St) (os : List (Tid × Obs))
    (h : Lazy.model.run Lazy.init sched = some (s, os)) :
    listWf (Lazy.snapOf s) = true ∧
    listAbs (Lazy.snapOf s) = Lazy.absKeys s ∧
    (Lazy.absKeys s).Pairwise (· < ·) ∧
    ((Lazy.snapOf s).map (·.key)).Pairwise (· < ·) := by
  obtain ⟨L, hl⟩ := Lazy.sinv_reachable s ⟨sched, os, h⟩
  exact ⟨hl.snap_wf, Lazy.listAbs_snapOf s, hl.absKeys_sorted, hl.snap_all_sorted⟩

/-- **The words in memory.**  In every reachable state in which no thread is between the marking store and the
    unlink store of `unlink_node` (`Lazy.NoWindow`), the chain read from memory (`Lazy.memSnapOf`: what
    `LazySnap::dump` prints) is the logical chain, and no node on it is marked. -/
theorem C18_lazy_memory_dump (sched : List (Tid × Act)) (s : Lazy.St) (os : List (Tid × Obs))
    (h : Lazy.model.run Lazy.init sched = some (s, os)) (hn : Lazy.NoWindow s) :
    Lazy.memSnapOf s = Lazy.snapOf s ∧ ∀ n ∈ Lazy.snapOf s, n.marked = false := by
  obtain ⟨L, hl, hw⟩ := Lazy.swin_reachable s ⟨sched, os, h⟩
  exact hl.memSnap_eq hw hn

/-- **C18 for every quiescent reachable state of the LazyList machine, memory dump.**  When no operation is in
    progress the dump read from memory is well-formed, contains no logically deleted node, its abstraction is the
    abstract set, and (`C18_list`) the traversal visits exactly the abstract set in strictly increasing order.
    Because no marked node is linked, the library's own iterator (which does not look at marks: `michaelIter`) agrees
    with the ideal traversal here — unlike MichaelList (see the example in `Props/C18.lean`). -/
theorem C18_lazy_quiescent (sched : List (Tid × Act)) (s : Lazy.St) (os : List (Tid × Obs))
    (h : Lazy.model.run Lazy.init sched = some (s, os)) (hq : ∀ t, s.pc t = .idle) :
    listWf (Lazy.memSnapOf s) = true ∧
    listAbs (Lazy.memSnapOf s) = Lazy.absKeys s ∧
    (∀ n ∈ Lazy.memSnapOf s, n.marked = false) ∧
    listTraverse (Lazy.memSnapOf s) = Lazy.absKeys s ∧
    michaelIter (Lazy.memSnapOf s) = Lazy.absKeys s ∧
    (Lazy.absKeys s).Pairwise (· < ·) ∧ (Lazy.absKeys s).Nodup := by
  obtain ⟨hwf, habs, hso, -⟩ := C18_lazy_reachable_wf sched s os h
  obtain ⟨e, hm⟩ := C18_lazy_memory_dump sched s os h (Lazy.noWindow_of_idle hq)
  rw [e]
  have hl := C18_list _ hwf
  refine ⟨hwf, habs, hm, by rw [hl.2.2, habs], by rw [michaelIter_eq_abs _ hm, habs], hso, ?_⟩
  rw [← habs]; exact hl.2.1

/-- Corollary for every reachable state (logical chain). -/
theorem C18_lazy_traversal (sched : List (Tid × Act)) (s : Lazy.St) (os : List (Tid × Obs))
    (h : Lazy.model.run Lazy.init sched = some (s, os)) :
    listTraverse (Lazy.snapOf s) = Lazy.absKeys s ∧ (Lazy.absKeys s).Pairwise (· < ·) ∧ (Lazy.absKeys s).Nodup := by
  obtain ⟨hwf, habs, -, -⟩ := C18_lazy_reachable_wf sched s os h
  have := C18_list _ hwf
  rw [habs] at this
  exact ⟨this.2.2, this.1, this.2.1⟩

/-- Non-vacuity.  `insert 5`, `insert 7` by thread 0, then thread 1's `erase 5`. -/
def lazySched (n : Nat) : List (Tid × Act) :=
  [(0, .invoke (ins 5 10))] ++ steps 0 11 ++ [(0, .ret), (0, .invoke (ins 7 20))] ++ steps 0 13 ++ [(0, .ret),
   (1, .invoke (era 5))] ++ steps 1 n

/-- … up to and including the marking store (9 steps): inside the window.  The logical chain is well-formed with
    abstraction `[7]`; the words in memory are cyclic (node 5 points back to the head), so the walk of the real dump
    meets node 5 again and again (`chain-cycle`) and never sees node 7. -/
example : (Lazy.model.run Lazy.init (lazySched 9)).map
    (fun r => (Lazy.snapOf r.1, listWf (Lazy.snapOf r.1), listAbs (Lazy.snapOf r.1), Lazy.absKeys r.1,
      Lazy.memSnapOf r.1)) =
    some ([⟨5, true, true⟩, ⟨7, false, true⟩], true, [7], [7], [⟨5, true, true⟩, ⟨5, true, true⟩]) := by
  decide +kernel

/-- … to its end (12 steps and the return): quiescent; memory and logical chain agree, no marked node. -/
example : (Lazy.model.run Lazy.init (lazySched 12 ++ [(1, .ret)])).map
    (fun r => (Lazy.memSnapOf r.1, Lazy.snapOf r.1, listWf (Lazy.memSnapOf r.1), Lazy.absKeys r.1,
      (List.range 4).all (fun t => r.1.pc t == .idle))) =
    some ([⟨7, false, true⟩], [⟨7, false, true⟩], true, [7], true) := by decide +kernel

/-! ### SkipListSet -/

/- The statement at full strength (NOT proved):

     theorem C18_skiplist_reachable_wf (c : SkipList.Cfg) (hc : 0 < c.maxH) (hmt : c.markTest = true) sched s os
         (h : (SkipList.model c).run (SkipList.init c) sched = some (s, os)) :
         skipWf (SkipList.snapOf c.maxH s) = true ∧ skipAbs (SkipList.snapOf c.maxH s) = SkipList.absKeys s

   `skipWf` is "level 0 strictly increasing" ∧ `subChain` ("every level is a sub-list of the level below").  The
   invariant of the machine (`SkipList.SInvL`) fixes the level-0 chain and, for the upper levels, only that every
   tower word holds null or a published item with a tall enough tower; the ORDER of the upper levels and the sub-list
   relation are checked on replayed traces (`SkipList.invB`) but not proved.  Missing for the full statement: an
   inductive invariant "the level-`l` chain from the head is a sub-list of the level-`(l-1)` chain" over the towers
   being linked bottom-up and unlinked top-down. -/

/-- **C18 for every reachable state of the SkipListSet machine, level 0** (any configuration with
    `c_nMaxHeight ≥ 1`, repaired fast path).  Level 0 of the dump (`SkipList.snapOf0`: the level-0 chain from the
    head tower; key, mark bit of `next[0]`) is well-formed and its abstraction is `SkipList.absKeys s`, the keys of
    the machine's abstract map.  For the dump of all levels (`SkipList.snapOf c.maxH s`): its level 0 is that chain,
    so the first conjunct of `skipWf` holds and its abstraction is the abstract set.  Marks: a tower marked on level 0
    is marked on every level.  NOT covered: `subChain` of the upper levels. -/
theorem C18_skiplist_reachable_wf_partial (c : SkipList.Cfg) (hc : 0 < c.maxH) (hmt : c.markTest = true)
    (sched : List (Tid × Act)) (s : SkipList.St) (os : List (Tid × Obs))
    (h : (SkipList.model c).run (SkipList.init c) sched = some (s, os)) :
    skipWf (SkipList.snapOf0 s) = true ∧
    skipAbs (SkipList.snapOf0 s) = SkipList.absKeys s ∧
    (SkipList.absKeys s).Pairwise (· < ·) ∧
    (SkipList.snapOf c.maxH s).headD [] = SkipList.snapLevel s 0 ∧
    sortedLt (levelKeys ((SkipList.snapOf c.maxH s).headD [])) = true ∧
    skipAbs (SkipList.snapOf c.maxH s) = SkipList.absKeys s ∧
    (∀ a, s.mark a 0 = true → ∀ l, l < s.ht a → s.mark a l = true) := by
  obtain ⟨L, hl⟩ := SkipList.sinv_run hc hmt sched s os h
  refine ⟨hl.snap0_wf, SkipList.skipAbs_snapOf0 s, hl.absKeys_sorted, SkipList.snapOf_head c.maxH s hc, ?_,
    SkipList.skipAbs_snapOf c.maxH s hc, hl.level0.2.2⟩
  rw [SkipList.snapOf_head c.maxH s hc]
  exact (sortedLt_iff _).2 hl.level0_keys_sorted

/-- Corollary (`C18_skiplist` on level 0): in every reachable state the unmarked keys of level 0 — what a traversal
    of level 0 that skips logically deleted towers visits — are exactly the abstract set, strictly increasing and
    duplicate-free; all keys of level 0, marked ones included, are strictly increasing. -/
theorem C18_skiplist_traversal (c : SkipList.Cfg) (hc : 0 < c.maxH) (hmt : c.markTest = true)
    (sched : List (Tid × Act)) (s : SkipList.St) (os : List (Tid × Obs))
    (h : (SkipList.model c).run (SkipList.init c) sched = some (s, os)) :
    skipAbs (SkipList.snapOf c.maxH s) = SkipList.absKeys s ∧
    (SkipList.absKeys s).Pairwise (· < ·) ∧ (SkipList.absKeys s).Nodup ∧
    (levelKeys (SkipList.snapLevel s 0)).Pairwise (· < ·) := by
  obtain ⟨hwf, habs, -, -, -, hfull, -⟩ := C18_skiplist_reachable_wf_partial c hc hmt sched s os h
  have := C18_skiplist _ hwf
  rw [habs] at this
  exact ⟨hfull, this.2.2.2.1, this.2.2.2.2, by simpa [skipLevels, SkipList.snapOf0] using this.1 0 (by simp [skipLevels, SkipList.snapOf0])⟩

/-- Non-vacuity (the run of `Props/C15SkipList.lean`: towers of height 2 and 3 inserted in a race, then `erase 3` up to
    and including its level-0 marking CAS).  The reached state has the logically deleted tower of key 3 linked on all
    three levels; here the FULL dump is well-formed, upper levels included. -/
def skipCfg : SkipList.Cfg := { maxH := 3, ht := fun j => if j = 1 then 2 else 3 }
def skipSched : List (Tid × Act) :=
  [(0, .invoke (ins 5 10)), (1, .invoke (ins 3 20))] ++ steps 0 6 ++ steps 1 6 ++ steps 0 4 ++ steps 1 21 ++ [(1, .ret)] ++
  steps 0 16 ++ [(0, .ret), (0, .invoke (era 3))] ++ steps 0 18

example : ((SkipList.model skipCfg).run (SkipList.init skipCfg) skipSched).map
    (fun r => (SkipList.snapOf 3 r.1, skipWf (SkipList.snapOf 3 r.1), skipWf (SkipList.snapOf0 r.1),
      skipAbs (SkipList.snapOf 3 r.1), SkipList.absKeys r.1)) =
    some ([[⟨3, true⟩, ⟨5, false⟩], [⟨3, true⟩, ⟨5, false⟩], [⟨3, true⟩]], true, true, [5], [5]) := by decide +kernel

/-! ### SplitListSet -/

/-- **C18 for every reachable state of the SplitListSet machine** (any configuration satisfying the split-order
    hypotheses `SOHyp` whose `regular_hash` / `dummy_hash` produce 64-bit words).  The dump `SplitList.snapOf s` (raw
    chain of the underlying list from the dummy of bucket 0: `m_nHash`, node kind, user key, mark bit) is well-formed
    — starts with the dummy of bucket 0, dummy nodes even and items odd split-order keys below `2^64`, strictly
    increasing in split order —, its abstraction is `SplitList.absKeys s`, the keys of the machine's abstract map in
    split order, and these are pairwise different. -/
theorem C18_splitlist_reachable_wf (c : SplitList.Cfg) (hc : SplitList.SOHyp c) (hw : SplitList.Word64 c)
    (sched : List (Tid × Act)) (s : SplitList.St) (os : List (Tid × Obs))
    (h : (SplitList.model c).run (SplitList.init c) sched = some (s, os)) :
    splitWf (SplitList.snapOf s) = true ∧
    splitAbs (SplitList.snapOf s) = SplitList.absKeys s ∧
    (SplitList.absKeys s).Nodup := by
  obtain ⟨L, hl⟩ := SplitList.sinv_reachable hc s ⟨sched, os, h⟩
  have hk := SplitList.keyOk_reachable s ⟨sched, os, h⟩
  exact ⟨hl.snap_wf hc hk hw, SplitList.splitAbs_snapOf s, SplitList.reachable_no_duplicate_keys hc s ⟨sched, os, h⟩⟩

/-- The configuration of the real code (64-bit bit-reversed keys, any hash functor of the harness, any capacity up to
    `2^63`, any load factor) is an instance. -/
theorem C18_splitlist_reachable_wf_cfg64 (mode cap lf : Nat) (hcap : cap ≤ 2 ^ 63)
    (sched : List (Tid × Act)) (s : SplitList.St) (os : List (Tid × Obs))
    (h : (SplitList.model (SplitList.cfg64 mode cap lf)).run (SplitList.init (SplitList.cfg64 mode cap lf)) sched =
      some (s, os)) :
    splitWf (SplitList.snapOf s) = true ∧ splitAbs (SplitList.snapOf s) = SplitList.absKeys s ∧
      (SplitList.absKeys s).Nodup :=
  C18_splitlist_reachable_wf _ (SplitList.cfg64_hyp mode cap lf hcap) (SplitList.cfg64_word64 mode cap lf) sched s os h

/-- The dump as the real client computes it ("is a dummy" = the bucket table refers to the node) is the dump above
    in every reachable state in which exactly the linked dummy nodes are referred to by the table (`Published`; see
    `C18_splitlist_published` for when that is; between the linking CAS and the publishing store it is false, see the
    example). -/
theorem C18_splitlist_table_dump (c : SplitList.Cfg) (hc : SplitList.SOHyp c) (hw : SplitList.Word64 c)
    (sched : List (Tid × Act)) (s : SplitList.St) (os : List (Tid × Obs))
    (h : (SplitList.model c).run (SplitList.init c) sched = some (s, os)) (hp : SplitList.Published s) :
    SplitList.tabSnapOf s = SplitList.snapOf s ∧ splitWf (SplitList.tabSnapOf s) = true ∧
    splitAbs (SplitList.tabSnapOf s) = SplitList.absKeys s := by
  obtain ⟨h1, h2, -⟩ := C18_splitlist_reachable_wf c hc hw sched s os h
  rw [SplitList.tabSnapOf_eq hp]
  exact ⟨rfl, h1, h2⟩

/-- Corollary (`C18_splitlist`): in every reachable state the chain is strictly increasing in split order, starts
    with the dummy of bucket 0, dummies are exactly the nodes with even split-order keys, every item lies in the
    segment of a dummy before it, and the traversal in split order (items, unmarked) yields exactly the abstract set,
    every key once. -/
theorem C18_splitlist_traversal (c : SplitList.Cfg) (hc : SplitList.SOHyp c) (hw : SplitList.Word64 c)
    (sched : List (Tid × Act)) (s : SplitList.St) (os : List (Tid × Obs))
    (h : (SplitList.model c).run (SplitList.init c) sched = some (s, os)) :
    (SplitList.snapOf s).Pairwise SoLt ∧
    (∃ d t, SplitList.snapOf s = d :: t ∧ d.isDummy = true ∧ d.so = 0) ∧
    (∀ n ∈ SplitList.snapOf s, (n.isDummy = true ↔ n.so % 2 = 0) ∧ n.so < 2 ^ 64) ∧
    (∀ pre r post, SplitList.snapOf s = pre ++ r :: post → r.isDummy = false →
      (∃ d ∈ pre, d.isDummy = true) ∧ (∀ d ∈ pre, d.isDummy = true → d.so < r.so) ∧
      (∀ d ∈ post, d.isDummy = true → r.so < d.so)) ∧
    splitAbs (SplitList.snapOf s) = SplitList.absKeys s ∧ (SplitList.absKeys s).Nodup := by
  obtain ⟨h1, h2, h3⟩ := C18_splitlist_reachable_wf c hc hw sched s os h
  have := C18_splitlist _ h1
  exact ⟨this.1, this.2.1, this.2.2.1, this.2.2.2.1, h2, h3⟩

/-- **Publication invariant, every reachable state.**  A linked dummy node is referred to by the bucket table, by an
    entry below the current bucket count `2 ^ m_nBucketCountLog2`, or some thread is at the store that publishes it
    (`iPub`, just after the CAS that linked it); and every set table entry lies below the bucket count. -/
theorem C18_splitlist_publication_invariant (c : SplitList.Cfg) (hc : SplitList.SOHyp c)
    (sched : List (Tid × Act)) (s : SplitList.St) (os : List (Tid × Obs))
    (h : (SplitList.model c).run (SplitList.init c) sched = some (s, os)) :
    (∀ d, d ∈ SplitList.absNodes s → d % 2 = 0 →
      (∃ b, b < 2 ^ s.cnt2 ∧ s.table b = some d) ∨ ∃ t o stk, s.pc t = .iPub o stk d) ∧
    (∀ b d, s.table b = some d → b < 2 ^ s.cnt2) := by
  obtain ⟨L, hl, hP, -, hT⟩ := SplitList.pbinv_reachable hc s ⟨sched, os, h⟩
  refine ⟨fun d hd hev => ?_, hT⟩
  rw [hl.absNodes_eq] at hd
  rcases hP d hd hev with ⟨b, hb⟩ | ⟨t, ht⟩
  · exact Or.inl ⟨b, hT b d hb, hb⟩
  · obtain ⟨o, stk, e⟩ := SplitList.pcPub_spec ht
    exact Or.inr ⟨t, o, stk, e⟩

/-- In every reachable state in which no thread is at the publishing store (`SplitList.NoPub`), the bucket table
    (below the bucket count) refers to exactly the linked dummy nodes. -/
theorem C18_splitlist_published (c : SplitList.Cfg) (hc : SplitList.SOHyp c)
    (sched : List (Tid × Act)) (s : SplitList.St) (os : List (Tid × Obs))
    (h : (SplitList.model c).run (SplitList.init c) sched = some (s, os)) (hn : SplitList.NoPub s) :
    SplitList.Published s := by
  obtain ⟨L, hl, hP, -, hT⟩ := SplitList.pbinv_reachable hc s ⟨sched, os, h⟩
  exact SplitList.published_of_noPub hl hP hT hn

/-- **C18 for every quiescent reachable state of the SplitListSet machine, the dump as the REAL client computes it**
    (dummy nodes = the nodes the bucket table refers to): it is the kind-based dump, it is well-formed, its abstraction
    is the abstract set, and the present keys are pairwise different. -/
theorem C18_splitlist_quiescent_table_dump (c : SplitList.Cfg) (hc : SplitList.SOHyp c) (hw : SplitList.Word64 c)
    (sched : List (Tid × Act)) (s : SplitList.St) (os : List (Tid × Obs))
    (h : (SplitList.model c).run (SplitList.init c) sched = some (s, os)) (hq : ∀ t, s.pc t = .idle) :
    SplitList.tabSnapOf s = SplitList.snapOf s ∧ splitWf (SplitList.tabSnapOf s) = true ∧
    splitAbs (SplitList.tabSnapOf s) = SplitList.absKeys s ∧ (SplitList.absKeys s).Nodup := by
  have hp := C18_splitlist_published c hc sched s os h (SplitList.noPub_of_idle hq)
  obtain ⟨h1, h2, h3⟩ := C18_splitlist_table_dump c hc hw sched s os h hp
  exact ⟨h1, h2, h3, (C18_splitlist_reachable_wf c hc hw sched s os h).2.2⟩

/-! #### Item counter

  The SplitList machine models `m_ItemCounter` (`St.items`: `add items` after the linking CAS of a successful `insert`,
  `sub items` after the marking CAS of a successful `erase`, `size_t` arithmetic). -/

/-- **Counting invariant, every reachable state.**  For a duplicate-free list `T` of threads outside which every thread
    is idle: the counter plus the number of threads that have linked an item but not yet incremented
    (`SplitList.addP`: at `cLd1` / `cAdd`) equals, modulo `2^64`, the number of present keys plus the number of threads
    that have marked an item but not yet decremented (`SplitList.subP`: at `eUnl` / `cSub`); the counter is a 64-bit
    word. -/
theorem C18_splitlist_counter_invariant (c : SplitList.Cfg) (hc : SplitList.SOHyp c)
    (sched : List (Tid × Act)) (s : SplitList.St) (os : List (Tid × Obs))
    (h : (SplitList.model c).run (SplitList.init c) sched = some (s, os)) :
    ∃ T : List Tid, T.Nodup ∧ (∀ t, t ∉ T → s.pc t = .idle) ∧ s.items < 2 ^ 64 ∧
      (s.items + T.countP (fun t => SplitList.addP (s.pc t))) % 2 ^ 64 =
        ((SplitList.absKeys s).length + T.countP (fun t => SplitList.subP (s.pc t))) % 2 ^ 64 := by
  obtain ⟨L, -, T, h1, h2, h3, h4⟩ := SplitList.scinv_reachable hc s ⟨sched, os, h⟩
  have e : (2 : Nat) ^ 64 = 18446744073709551616 := by decide
  refine ⟨T, h1, h2, by rw [e]; exact h3, ?_⟩
  rw [e]
  simpa [SplitList.absKeys] using h4

/-- **`size()` at quiescent states.**  When no operation is in progress the item counter is the number of present keys,
    modulo the word size … -/
theorem C18_splitlist_quiescent_size (c : SplitList.Cfg) (hc : SplitList.SOHyp c)
    (sched : List (Tid × Act)) (s : SplitList.St) (os : List (Tid × Obs))
    (h : (SplitList.model c).run (SplitList.init c) sched = some (s, os)) (hq : ∀ t, s.pc t = .idle) :
    s.items = (SplitList.absKeys s).length % 2 ^ 64 := by
  obtain ⟨L, -, T, hT⟩ := SplitList.scinv_reachable hc s ⟨sched, os, h⟩
  have e : (2 : Nat) ^ 64 = 18446744073709551616 := by decide
  rw [e]
  simpa [SplitList.absKeys] using hT.quiescent hq

/-- … hence exactly that number while fewer than `2^64` keys are present; `empty()` (= `size() == 0`) agrees as well. -/
theorem C18_splitlist_quiescent_size_exact (c : SplitList.Cfg) (hc : SplitList.SOHyp c)
    (sched : List (Tid × Act)) (s : SplitList.St) (os : List (Tid × Obs))
    (h : (SplitList.model c).run (SplitList.init c) sched = some (s, os)) (hq : ∀ t, s.pc t = .idle)
    (hb : (SplitList.absKeys s).length < 2 ^ 64) :
    s.items = (SplitList.absKeys s).length ∧ (s.items = 0 ↔ SplitList.absKeys s = []) := by
  have := C18_splitlist_quiescent_size c hc sched s os h hq
  rw [Nat.mod_eq_of_lt hb] at this
  exact ⟨this, by rw [this]; exact List.length_eq_zero_iff⟩

/-- Non-vacuity (the run of `Props/C14SplitList.lean`, harness configuration): keys 2, 4, 6 inserted through bucket
    0, the table grows to 4 buckets, `find 2` initialises bucket 2 — its dummy lands between key 4 and key 2. -/
def splitCfg : SplitList.Cfg := SplitList.cfg64 0 64 1
def splitSched : List (Tid × Act) :=
  [(0, .invoke (ins 2 10))] ++ steps 0 8 ++ [(0, .ret), (0, .invoke (ins 4 20))] ++ steps 0 11 ++ [(0, .ret),
   (0, .invoke (ins 6 30))] ++ steps 0 17 ++ [(0, .ret), (1, .invoke (fnd 2))] ++ steps 1 22 ++ [(1, .ret)]

set_option synthInstance.maxSize 2000 in
/-- the quiescent end: kind-based and table-based dump agree, `m_ItemCounter` is 3 = the number of present keys -/
example : ((SplitList.model splitCfg).run (SplitList.init splitCfg) splitSched).map
    (fun r => (SplitList.snapOf r.1, SplitList.tabSnapOf r.1 == SplitList.snapOf r.1, splitWf (SplitList.snapOf r.1),
      splitAbs (SplitList.snapOf r.1), SplitList.absKeys r.1, r.1.items)) =
    some ([⟨0, true, 0, false⟩, ⟨2305843009213693953, false, 4, false⟩, ⟨4611686018427387904, true, 2, false⟩,
           ⟨4611686018427387905, false, 2, false⟩, ⟨6917529027641081857, false, 6, false⟩],
          true, true, [4, 2, 6], [4, 2, 6], 3) := by decide +kernel

/-- just after the CAS that links the dummy of bucket 2 (node id 2), before `st b2 d1`: the kind-based dump is
    well-formed, the table-based dump is not (an even split-order key with `isDummy = 0`); thread 1 is at the publishing
    store with that node (second alternative of `C18_splitlist_publication_invariant`) -/
example : ((SplitList.model splitCfg).run (SplitList.init splitCfg) (splitSched.take 59)).map
    (fun r => (splitWf (SplitList.snapOf r.1), (SplitList.tabSnapOf r.1)[2]?, splitWf (SplitList.tabSnapOf r.1),
      r.1.table 2, SplitList.pcPub (r.1.pc 1))) =
    some (true, some ⟨4611686018427387904, false, 0, false⟩, false, none, some 2) := by decide +kernel

/-- the counting invariant in a non-quiescent state: thread 0's third insert has linked its item (3 present keys) and
    is at `cAdd`, the counter still reads 2 -/
example : ((SplitList.model splitCfg).run (SplitList.init splitCfg) (splitSched.take 36)).map
    (fun r => (r.1.items, (SplitList.absKeys r.1).length, SplitList.addP (r.1.pc 0), SplitList.subP (r.1.pc 0))) =
    some (2, 3, true, false) := by decide +kernel

end CdsVerif.Props.C18Reach

/-
  Preservation of `SInv` by the successful CASes of insert / erase / update (a slot that holds null or a data pointer
  gets another such value).
-/
import CdsVerif.Algo.Feldman.StepA
namespace CdsVerif.Algo.Feldman
open CdsVerif.Machine CdsVerif.Spec CdsVerif.Lin

/-- The slot `(a, i)` of a published array node, holding null or a data pointer, is overwritten with null, a data
    pointer or a converting data pointer to an item whose path passes through the slot.  The writing thread's new
    program counter keeps (or drops) its position and its unpublished array node; if the new value is a converting
    pointer the thread becomes the converter (`xCopy`). -/
theorem sinv_write_leaf {c : Cfg} {s : St} {t : Tid} {a i : Nat} {v : Cell} {pc' : PC} (h : SInv c s)
    (hpub : Pub s a) (hlt : a < s.acnt)
    (hold : s.cell a i = .null ∨ ∃ n, s.cell a i = .data n)
    (hv : v = .null ∨ ∃ m, (v = .data m ∨ v = .conv m) ∧ Pfx (s.pre a) i (c.path m.key))
    (hpos : ∀ x, posOf pc' = some x → posOf (s.pc t) = some x)
    (hown : ∀ x, ownOf pc' = some x → ownOf (s.pc t) = some x)
    (hcv : ∀ x, cvOf c pc' = some x → ∃ m, x = (a, i, m) ∧ v = .conv m)
    (hpc' : (∃ r, pc' = .done r) ∨ ∃ op l n b, pc' = .xCopy op a l n b ∧ ∀ j, s.cell b j = .null) :
    SInv c { s with cell := upd2 s.cell a i v, pc := upd s.pc t pc' } := by
  obtain ⟨pre0, acpos, fresh, arrp, onp, pos, casI, casE, casU, xA, own, ownd, xNull, xConvd, xUniq, xFull⟩ := h
  have hvarr : ∀ b, v ≠ .arr b := by
    intro b hb; rcases hv with e | ⟨m, e | e, -⟩ <;> simp [e] at hb
  have holdc : ∀ m, s.cell a i ≠ .conv m := by
    intro m hm; rcases hold with e | ⟨n, e⟩ <;> simp [e] at hm
  have holda : ∀ b, s.cell a i ≠ .arr b := by
    intro m hm; rcases hold with e | ⟨n, e⟩ <;> simp [e] at hm
  have hpubk : ∀ a1, Pub s a1 → Pub { s with cell := upd2 s.cell a i v, pc := upd s.pc t pc' } a1 := by
    intro a1 hp
    unfold Pub at hp ⊢
    rcases hp with e | e
    · exact Or.inl e
    · right
      show upd2 s.cell a i v (s.par a1) (s.pidx a1) = .arr a1
      simp only [upd2]
      split
      · next hh => rw [hh.1, hh.2] at e; exact absurd e (holda a1)
      · exact e
  have hneb : ∀ b, 0 < b → s.cell (s.par b) (s.pidx b) ≠ .arr b → a ≠ b := by
    intro b hb hnb e; subst e
    rcases hpub with e | e
    · omega
    · exact hnb e
  have hcellb : ∀ b, a ≠ b → ∀ j, upd2 s.cell a i v b j = s.cell b j := by
    intro b hab j; simp only [upd2]; rw [if_neg (by intro hh; exact hab hh.1.symm)]
  have hnotI : ∀ op2 a2 l2, pc' ≠ .casIns op2 a2 l2 := by
    intro op2 a2 l2 e; rcases hpc' with ⟨r, e'⟩ | ⟨_, _, _, _, e', -⟩ <;> simp [e'] at e
  have hnotE : ∀ op2 a2 l2 n2, pc' ≠ .casEra op2 a2 l2 n2 := by
    intro op2 a2 l2 n2 e; rcases hpc' with ⟨r, e'⟩ | ⟨_, _, _, _, e', -⟩ <;> simp [e'] at e
  have hnotU : ∀ op2 a2 l2 n2, pc' ≠ .casUpd op2 a2 l2 n2 := by
    intro op2 a2 l2 n2 e; rcases hpc' with ⟨r, e'⟩ | ⟨_, _, _, _, e', -⟩ <;> simp [e'] at e
  have hnotA : ∀ op2 a2 l2 n2, pc' ≠ .xAlloc op2 a2 l2 n2 := by
    intro op2 a2 l2 n2 e; rcases hpc' with ⟨r, e'⟩ | ⟨_, _, _, _, e', -⟩ <;> simp [e'] at e
  have hnotC : ∀ op2 a2 l2 n2 b2, pc' ≠ .xConv op2 a2 l2 n2 b2 := by
    intro op2 a2 l2 n2 b2 e; rcases hpc' with ⟨r, e'⟩ | ⟨_, _, _, _, e', -⟩ <;> simp [e'] at e
  have hnotP : ∀ op2 a2 l2 n2 b2, pc' ≠ .xPub op2 a2 l2 n2 b2 := by
    intro op2 a2 l2 n2 b2 e; rcases hpc' with ⟨r, e'⟩ | ⟨_, _, _, _, e', -⟩ <;> simp [e'] at e
  constructor
  · exact pre0
  · exact acpos
  · intro b j hb
    have hb' : s.acnt ≤ b := hb
    have := fresh b j hb'
    show upd2 s.cell a i v b j = .null
    rw [hcellb b (by omega)]; exact this
  · intro a1 i1 b1 hc
    have hc' : s.cell a1 i1 = .arr b1 := by
      have hc2 : upd2 s.cell a i v a1 i1 = .arr b1 := hc
      simp only [upd2] at hc2
      split at hc2
      · exact absurd hc2 (hvarr b1)
      · exact hc2
    have := arrp a1 i1 b1 hc'
    exact ⟨this.1, this.2.1, this.2.2.1, this.2.2.2.1, this.2.2.2.2.1, hpubk _ this.2.2.2.2.2.1, this.2.2.2.2.2.2⟩
  · intro a1 i1 n1 hc
    by_cases hh : a1 = a ∧ i1 = i
    · obtain ⟨rfl, rfl⟩ := hh
      simp only [upd2, and_self, if_true] at hc
      rcases hv with e | ⟨m, e | e, hm⟩
      · simp [e] at hc
      · simp only [e, Cell.data.injEq] at hc; rcases hc with rfl | hc
        · exact hm
        · simp at hc
      · simp only [e, Cell.conv.injEq] at hc; rcases hc with hc | rfl
        · simp at hc
        · exact hm
    · simp only [upd2, if_neg hh] at hc; exact onp a1 i1 n1 hc
  · intro t2 op2 a2 l2 hpo
    have key : posOf (s.pc t2) = some (op2, a2, l2) := by
      by_cases ht : t2 = t
      · subst ht; simp only [upd_same] at hpo; exact hpos _ hpo
      · simpa only [upd, if_neg ht] using hpo
    have := pos t2 op2 a2 l2 key
    exact ⟨hpubk _ this.1, this.2⟩
  · intro t2 op2 a2 l2 hpc
    by_cases ht : t2 = t
    · subst ht; simp only [upd_same] at hpc; exact absurd hpc (hnotI _ _ _)
    · simp only [upd, if_neg ht] at hpc; exact casI t2 op2 a2 l2 hpc
  · intro t2 op2 a2 l2 n hpc
    by_cases ht : t2 = t
    · subst ht; simp only [upd_same] at hpc; exact absurd hpc (hnotE _ _ _ _)
    · simp only [upd, if_neg ht] at hpc; exact casE t2 op2 a2 l2 n hpc
  · intro t2 op2 a2 l2 n hpc
    by_cases ht : t2 = t
    · subst ht; simp only [upd_same] at hpc; exact absurd hpc (hnotU _ _ _ _)
    · simp only [upd, if_neg ht] at hpc; exact casU t2 op2 a2 l2 n hpc
  · intro t2 op2 a2 l2 n hpc
    by_cases ht : t2 = t
    · subst ht; simp only [upd_same] at hpc; exact absurd hpc (hnotA _ _ _ _)
    · simp only [upd, if_neg ht] at hpc; exact xA t2 op2 a2 l2 n hpc
  · intro t2 op2 a2 l2 n b hpc
    have key : ownOf (s.pc t2) = some (op2, a2, l2, n, b) := by
      by_cases ht : t2 = t
      · subst ht; simp only [upd_same] at hpc; exact hown _ hpc
      · simpa only [upd, if_neg ht] using hpc
    have := own t2 op2 a2 l2 n b key
    refine ⟨this.1, this.2.1, this.2.2.1, ?_, this.2.2.2.2⟩
    show upd2 s.cell a i v (s.par b) (s.pidx b) ≠ .arr b
    simp only [upd2]
    split
    · exact hvarr b
    · exact this.2.2.2.1
  · intro t2 t3 op2 a2 l2 n b op3 a3 l3 n3 hne h2 h3
    have key2 : ownOf (s.pc t2) = some (op2, a2, l2, n, b) := by
      by_cases ht : t2 = t
      · subst ht; simp only [upd_same] at h2; exact hown _ h2
      · simpa only [upd, if_neg ht] using h2
    have key3 : ownOf (s.pc t3) = some (op3, a3, l3, n3, b) := by
      by_cases ht : t3 = t
      · subst ht; simp only [upd_same] at h3; exact hown _ h3
      · simpa only [upd, if_neg ht] using h3
    exact ownd t2 t3 op2 a2 l2 n b op3 a3 l3 n3 hne key2 key3
  · intro t2 op2 a2 l2 n b hpc j
    by_cases ht : t2 = t
    · subst ht; simp only [upd_same] at hpc
      rcases hpc with hpc | hpc
      · exact absurd hpc (hnotC _ _ _ _ _)
      · rcases hpc' with ⟨r, e'⟩ | ⟨op3, l3, n3, b3, e', hb3⟩
        · simp [e'] at hpc
        · rw [e'] at hpc; simp only [PC.xCopy.injEq] at hpc
          obtain ⟨rfl, rfl, rfl, rfl, rfl⟩ := hpc
          have hw := own t2 op3 a l3 n3 b3 (hown _ (by simp [e', ownOf]))
          show upd2 s.cell a i v b3 j = .null
          rw [hcellb b3 (hneb b3 hw.1 hw.2.2.2.1)]; exact hb3 j
    · simp only [upd, if_neg ht] at hpc
      have h1 := xNull t2 op2 a2 l2 n b hpc j
      have h2 := own t2 op2 a2 l2 n b (by rcases hpc with e | e <;> simp [e, ownOf])
      show upd2 s.cell a i v b j = .null
      rw [hcellb b (hneb b h2.1 h2.2.2.2.1)]; exact h1
  · intro t2 a2 i2 n hpc
    by_cases ht : t2 = t
    · subst ht; simp only [upd_same] at hpc
      obtain ⟨m, e1, e2⟩ := hcv _ hpc
      simp only [Prod.mk.injEq] at e1; obtain ⟨rfl, rfl, rfl⟩ := e1
      show upd2 s.cell a2 i2 v a2 i2 = .conv n
      simp [upd2, e2]
    · simp only [upd, if_neg ht] at hpc
      have := xConvd t2 a2 i2 n hpc
      show upd2 s.cell a i v a2 i2 = .conv n
      simp only [upd2]
      split
      · next hh => rw [hh.1, hh.2] at this; exact absurd this (holdc n)
      · exact this
  · intro t2 t3 a2 i2 n n3 hne h2 h3
    by_cases ht : t2 = t
    · subst ht; simp only [upd_same] at h2
      obtain ⟨m, e1, e2⟩ := hcv _ h2
      simp only [Prod.mk.injEq] at e1; obtain ⟨rfl, rfl, rfl⟩ := e1
      have ht3 : t3 ≠ t2 := fun e => hne e.symm
      simp only [upd, if_neg ht3] at h3
      exact holdc _ (xConvd t3 _ _ _ h3)
    · by_cases ht3 : t3 = t
      · subst ht3; simp only [upd_same] at h3
        obtain ⟨m, e1, e2⟩ := hcv _ h3
        simp only [Prod.mk.injEq] at e1; obtain ⟨rfl, rfl, rfl⟩ := e1
        simp only [upd, if_neg ht] at h2
        exact holdc _ (xConvd t2 _ _ _ h2)
      · simp only [upd, if_neg ht] at h2; simp only [upd, if_neg ht3] at h3
        exact xUniq t2 t3 a2 i2 n n3 hne h2 h3
  · intro t2 op2 a2 l2 n b hpc
    by_cases ht : t2 = t
    · subst ht; simp only [upd_same] at hpc; exact absurd hpc (hnotP _ _ _ _ _)
    · simp only [upd, if_neg ht] at hpc
      have h1 := xFull t2 op2 a2 l2 n b hpc
      have h2 := own t2 op2 a2 l2 n b (by simp [hpc, ownOf])
      have e := hcellb b (hneb b h2.1 h2.2.2.2.1)
      show upd2 s.cell a i v b _ = _ ∧ ∀ j, _ → upd2 s.cell a i v b j = _
      simp only [e]; exact h1

theorem sinv_write_done {c : Cfg} {s : St} {t : Tid} {a i : Nat} {v : Cell} {r : GRet} (h : SInv c s)
    (hpub : Pub s a) (hlt : a < s.acnt)
    (hold : s.cell a i = .null ∨ ∃ n, s.cell a i = .data n)
    (hv : v = .null ∨ ∃ m, v = .data m ∧ Pfx (s.pre a) i (c.path m.key)) :
    SInv c { s with cell := upd2 s.cell a i v, pc := upd s.pc t (.done r) } := by
  apply sinv_write_leaf h hpub hlt hold
  · rcases hv with e | ⟨m, e, hm⟩
    · exact Or.inl e
    · exact Or.inr ⟨m, Or.inl e, hm⟩
  · intro x hx; simp [posOf] at hx
  · intro x hx; simp [ownOf] at hx
  · intro x hx; simp [cvOf] at hx
  · exact Or.inl ⟨r, rfl⟩

theorem sinv_casIns {c : Cfg} {s s' : St} {t : Tid} {ev : Ev} {op : Op} {a lvl : Nat} (hp : PathHyp c) (h : SInv c s)
    (hpc : s.pc t = .casIns op a lvl) (hs : step c s t = some (s', ev)) : SInv c s' := by
  have hpo := h.pos t op a lvl (by simp [hpc, posOf])
  have hga := (h.casI t op a lvl hpc).1
  simp only [step, hpc] at hs
  split at hs
  · next hnull =>
    simp only [Option.some.injEq, Prod.mk.injEq] at hs; obtain ⟨rfl, -⟩ := hs
    refine sinv_write_done h hpo.1 hpo.2.1 (Or.inl hnull) (Or.inr ⟨onode op, rfl, ?_⟩)
    have := pos_pfx hp hpo.2.2.1 hpo.2.2.2
    cases op <;> simp_all [isGA, onode, okey]
  · simp only [Option.some.injEq, Prod.mk.injEq] at hs; obtain ⟨rfl, -⟩ := hs
    exact sinv_to_trav h (by simp [hpc, posOf])

theorem sinv_casEra {c : Cfg} {s s' : St} {t : Tid} {ev : Ev} {op : Op} {a lvl : Nat} {n : Node} (h : SInv c s)
    (hpc : s.pc t = .casEra op a lvl n) (hs : step c s t = some (s', ev)) : SInv c s' := by
  have hpo := h.pos t op a lvl (by simp [hpc, posOf])
  simp only [step, hpc] at hs
  split at hs
  · next hd =>
    simp only [Option.some.injEq, Prod.mk.injEq] at hs; obtain ⟨rfl, -⟩ := hs
    exact sinv_write_done h hpo.1 hpo.2.1 (Or.inr ⟨n, hd⟩) (Or.inl rfl)
  · simp only [Option.some.injEq, Prod.mk.injEq] at hs; obtain ⟨rfl, -⟩ := hs
    exact sinv_to_trav h (by simp [hpc, posOf])

theorem sinv_casUpd {c : Cfg} {s s' : St} {t : Tid} {ev : Ev} {op : Op} {a lvl : Nat} {n : Node} (hp : PathHyp c)
    (h : SInv c s) (hpc : s.pc t = .casUpd op a lvl n) (hs : step c s t = some (s', ev)) : SInv c s' := by
  have hpo := h.pos t op a lvl (by simp [hpc, posOf])
  have hu := h.casU t op a lvl n hpc
  simp only [step, hpc] at hs
  split at hs
  · next hd =>
    simp only [Option.some.injEq, Prod.mk.injEq] at hs; obtain ⟨rfl, -⟩ := hs
    refine sinv_write_done h hpo.1 hpo.2.1 (Or.inr ⟨n, hd⟩) (Or.inr ⟨onode op, rfl, ?_⟩)
    have := pos_pfx hp hpo.2.2.1 hpo.2.2.2
    obtain ⟨-, n0, al, rfl⟩ := hu
    simpa [onode, okey] using this
  · simp only [Option.some.injEq, Prod.mk.injEq] at hs; obtain ⟨rfl, -⟩ := hs
    exact sinv_to_trav h (by simp [hpc, posOf])

end CdsVerif.Algo.Feldman

/-
  The invariant of the FeldmanHashSet model (`SInv`), and its preservation by `invoke` and `result`.

  All clauses are LOCAL (about one slot, one array node, or one thread's program counter); the global facts — every
  published array node is reached from the head array by walking its prefix, a traversal finds every item — are
  derived from them in `Reach.lean`.
-/
import CdsVerif.Algo.Feldman.Lemmas
namespace CdsVerif.Algo.Feldman
open CdsVerif.Machine CdsVerif.Spec CdsVerif.Lin

/-- the array node is the head array or its parent slot points to it -/
def Pub (s : St) (a : Nat) : Prop := a = 0 ∨ s.cell (s.par a) (s.pidx a) = .arr a

/-- position of the operation in progress: ( operation, array node, level ) -/
def posOf : PC → Option (Op × Nat × Nat)
  | .idle => none
  | .trav op a l => some (op, a, l)
  | .prot1 op a l _ => some (op, a, l)
  | .prot2 op a l _ _ => some (op, a, l)
  | .casIns op a l => some (op, a, l)
  | .casEra op a l _ => some (op, a, l)
  | .casUpd op a l _ => some (op, a, l)
  | .xAlloc op a l _ => some (op, a, l)
  | .xConv op a l _ _ => some (op, a, l)
  | .xCopy op a l _ _ => some (op, a, l)
  | .xPub op a l _ _ => some (op, a, l)
  | .done _ => none

/-- expansion in progress: ( operation, array node, level, displaced item, new array node ) -/
def ownOf : PC → Option (Op × Nat × Nat × Node × Nat)
  | .idle => none
  | .trav _ _ _ => none
  | .prot1 _ _ _ _ => none
  | .prot2 _ _ _ _ _ => none
  | .casIns _ _ _ => none
  | .casEra _ _ _ _ => none
  | .casUpd _ _ _ _ => none
  | .xAlloc _ _ _ _ => none
  | .xConv op a l n b => some (op, a, l, n, b)
  | .xCopy op a l n b => some (op, a, l, n, b)
  | .xPub op a l n b => some (op, a, l, n, b)
  | .done _ => none

/-- the slot this thread has put into the converting state: ( array node, slot, item ) -/
def cvOf (c : Cfg) : PC → Option (Nat × Nat × Node)
  | .idle => none
  | .trav _ _ _ => none
  | .prot1 _ _ _ _ => none
  | .prot2 _ _ _ _ _ => none
  | .casIns _ _ _ => none
  | .casEra _ _ _ _ => none
  | .casUpd _ _ _ _ => none
  | .xAlloc _ _ _ _ => none
  | .xConv _ _ _ _ _ => none
  | .xCopy op a l n _ => some (a, sl c (okey op) l, n)
  | .xPub op a l n _ => some (a, sl c (okey op) l, n)
  | .done _ => none

structure SInv (c : Cfg) (s : St) : Prop where
  pre0 : s.pre 0 = []
  acpos : 0 < s.acnt
  /-- array nodes not yet allocated are empty -/
  fresh : ∀ b j, s.acnt ≤ b → s.cell b j = .null
  /-- TREE: an array-node pointer sits in the slot named by the node's `pParent` / `idxParent`; the child was allocated
      after the parent; its prefix extends the parent's by the slot index; the parent is published; there is a level
      left below -/
  arrp : ∀ a i b, s.cell a i = .arr b →
    s.par b = a ∧ s.pidx b = i ∧ s.pre b = s.pre a ++ [i] ∧ a < b ∧ b < s.acnt ∧ Pub s a ∧ (s.pre a).length + 1 < c.depth
  /-- every item sits on the path of its hash -/
  onp : ∀ a i n, (s.cell a i = .data n ∨ s.cell a i = .conv n) → Pfx (s.pre a) i (c.path n.key)
  /-- the position of an operation is a published array node on the path of its key -/
  pos : ∀ t op a lvl, posOf (s.pc t) = some (op, a, lvl) →
    Pub s a ∧ a < s.acnt ∧ lvl < c.depth ∧ s.pre a = (c.path (okey op)).take lvl
  /-- `casIns` is entered by `insert`, and by `update` only when insertion is allowed -/
  casI : ∀ t op a lvl, s.pc t = .casIns op a lvl → isGA op = true ∧ ∀ n0, op ≠ .upd n0 0
  casE : ∀ t op a lvl n, s.pc t = .casEra op a lvl n → n.key = okey op ∧ ∃ k, op = .era k
  casU : ∀ t op a lvl n, s.pc t = .casUpd op a lvl n → n.key = okey op ∧ ∃ n0 al, op = .upd n0 al
  xA : ∀ t op a lvl n, s.pc t = .xAlloc op a lvl n → lvl + 1 < c.depth
  /-- the array node of an expansion in progress is allocated, unpublished, and prepared for the slot being expanded -/
  own : ∀ t op a lvl n b, ownOf (s.pc t) = some (op, a, lvl, n, b) →
    0 < b ∧ b < s.acnt ∧ a < b ∧ s.cell (s.par b) (s.pidx b) ≠ .arr b ∧ lvl + 1 < c.depth ∧
      s.par b = a ∧ s.pidx b = sl c (okey op) lvl ∧ s.pre b = s.pre a ++ [sl c (okey op) lvl]
  ownd : ∀ t t' op a lvl n b op' a' lvl' n', t ≠ t' → ownOf (s.pc t) = some (op, a, lvl, n, b) →
    ownOf (s.pc t') = some (op', a', lvl', n', b) → False
  xNull : ∀ t op a lvl n b, (s.pc t = .xConv op a lvl n b ∨ s.pc t = .xCopy op a lvl n b) → ∀ j, s.cell b j = .null
  /-- a converting slot stays converting until its converter publishes -/
  xConvd : ∀ t a i n, cvOf c (s.pc t) = some (a, i, n) → s.cell a i = .conv n
  xUniq : ∀ t t' a i n n', t ≠ t' → cvOf c (s.pc t) = some (a, i, n) → cvOf c (s.pc t') = some (a, i, n') → False
  /-- WHAT `expand_slot` GUARANTEES: when the new array node is published it contains the displaced item, in the slot
      of its hash at the next level, and nothing else -/
  xFull : ∀ t op a lvl n b, s.pc t = .xPub op a lvl n b →
    s.cell b (sl c n.key (lvl + 1)) = .data n ∧ ∀ j, j ≠ sl c n.key (lvl + 1) → s.cell b j = .null

theorem sinv_init (c : Cfg) : SInv c init := by
  constructor <;> simp [init, posOf, ownOf, cvOf]

/-- the level of a position is the length of the prefix of its array node -/
theorem pos_len {c : Cfg} (hp : PathHyp c) {k : Int} {lvl : Nat} {p : List Nat} (h1 : lvl < c.depth)
    (h2 : p = (c.path k).take lvl) : p.length = lvl := by
  subst h2
  have := hp.len k
  simp; omega

theorem pos_pfx {c : Cfg} (hp : PathHyp c) {k : Int} {lvl : Nat} {p : List Nat} (h1 : lvl < c.depth)
    (h2 : p = (c.path k).take lvl) : Pfx p (sl c k lvl) (c.path k) := by
  subst h2
  exact pfx_of_take _ _ (by rw [hp.len k]; exact h1)

theorem pos_next {c : Cfg} (hp : PathHyp c) {k : Int} {lvl : Nat} {p : List Nat} (h1 : lvl < c.depth)
    (h2 : p = (c.path k).take lvl) : p ++ [sl c k lvl] = (c.path k).take (lvl + 1) := by
  subst h2
  exact (take_succ_getD _ _ (by rw [hp.len k]; exact h1)).symm

theorem sinv_invoke {c : Cfg} {s s' : St} {t : Tid} {op : GOp} (hp : PathHyp c) (h : SInv c s)
    (hs : invoke s t op = some s') : SInv c s' := by
  have hd : 0 < c.depth := by
    have h0 := hp.len 0
    have h1 := hp.len 1
    cases hd : c.depth with
    | zero =>
      rw [hd] at h0 h1
      have := hp.inj 0 1 (by rw [List.eq_nil_of_length_eq_zero h0, List.eq_nil_of_length_eq_zero h1])
      omega
    | succ n => omega
  obtain ⟨pre0, acpos, fresh, arrp, onp, pos, casI, casE, casU, xA, own, ownd, xNull, xConvd, xUniq, xFull⟩ := h
  unfold invoke at hs
  split at hs
  · next hidle =>
    split at hs
    all_goals (try (simp at hs; done))
    all_goals (simp only [Option.some.injEq] at hs; subst hs)
    all_goals (
      constructor
      · exact pre0
      · exact acpos
      · exact fresh
      · exact arrp
      · exact onp
      · intro t2 op2 a lvl hpo
        by_cases ht : t2 = t
        · subst ht
          simp only [upd_same, posOf, Option.some.injEq, Prod.mk.injEq] at hpo
          obtain ⟨rfl, rfl, rfl⟩ := hpo
          exact ⟨Or.inl rfl, acpos, hd, by simp [pre0]⟩
        · simp only [upd, if_neg ht] at hpo; exact pos t2 op2 a lvl hpo
      · intro t2 op2 a lvl hpc
        by_cases ht : t2 = t
        · subst ht; simp at hpc
        · simp only [upd, if_neg ht] at hpc; exact casI t2 op2 a lvl hpc
      · intro t2 op2 a lvl n hpc
        by_cases ht : t2 = t
        · subst ht; simp at hpc
        · simp only [upd, if_neg ht] at hpc; exact casE t2 op2 a lvl n hpc
      · intro t2 op2 a lvl n hpc
        by_cases ht : t2 = t
        · subst ht; simp at hpc
        · simp only [upd, if_neg ht] at hpc; exact casU t2 op2 a lvl n hpc
      · intro t2 op2 a lvl n hpc
        by_cases ht : t2 = t
        · subst ht; simp at hpc
        · simp only [upd, if_neg ht] at hpc; exact xA t2 op2 a lvl n hpc
      · intro t2 op2 a lvl n b hpc
        by_cases ht : t2 = t
        · subst ht; simp [ownOf] at hpc
        · simp only [upd, if_neg ht] at hpc; exact own t2 op2 a lvl n b hpc
      · intro t2 t3 op2 a lvl n b op3 a3 lvl3 n3 hne h2 h3
        by_cases ht : t2 = t
        · subst ht; simp [ownOf] at h2
        · by_cases ht3 : t3 = t
          · subst ht3; simp [ownOf] at h3
          · simp only [upd, if_neg ht] at h2; simp only [upd, if_neg ht3] at h3
            exact ownd t2 t3 op2 a lvl n b op3 a3 lvl3 n3 hne h2 h3
      · intro t2 op2 a lvl n b hpc
        by_cases ht : t2 = t
        · subst ht; simp at hpc
        · simp only [upd, if_neg ht] at hpc; exact xNull t2 op2 a lvl n b hpc
      · intro t2 a i n hpc
        by_cases ht : t2 = t
        · subst ht; simp [cvOf] at hpc
        · simp only [upd, if_neg ht] at hpc; exact xConvd t2 a i n hpc
      · intro t2 t3 a i n n3 hne h2 h3
        by_cases ht : t2 = t
        · subst ht; simp [cvOf] at h2
        · by_cases ht3 : t3 = t
          · subst ht3; simp [cvOf] at h3
          · simp only [upd, if_neg ht] at h2; simp only [upd, if_neg ht3] at h3
            exact xUniq t2 t3 a i n n3 hne h2 h3
      · intro t2 op2 a lvl n b hpc
        by_cases ht : t2 = t
        · subst ht; simp at hpc
        · simp only [upd, if_neg ht] at hpc; exact xFull t2 op2 a lvl n b hpc)
  · simp at hs

theorem sinv_result {c : Cfg} {s s' : St} {t : Tid} {r : GRet} (h : SInv c s)
    (hs : result s t = some (s', r)) : SInv c s' := by
  obtain ⟨pre0, acpos, fresh, arrp, onp, pos, casI, casE, casU, xA, own, ownd, xNull, xConvd, xUniq, xFull⟩ := h
  unfold result at hs
  split at hs
  · next r' hd =>
    simp only [Option.some.injEq, Prod.mk.injEq] at hs
    obtain ⟨rfl, rfl⟩ := hs
    constructor
    · exact pre0
    · exact acpos
    · exact fresh
    · exact arrp
    · exact onp
    · intro t2 op2 a lvl hpo
      by_cases ht : t2 = t
      · subst ht; simp [posOf] at hpo
      · simp only [upd, if_neg ht] at hpo; exact pos t2 op2 a lvl hpo
    · intro t2 op2 a lvl hpc
      by_cases ht : t2 = t
      · subst ht; simp at hpc
      · simp only [upd, if_neg ht] at hpc; exact casI t2 op2 a lvl hpc
    · intro t2 op2 a lvl n hpc
      by_cases ht : t2 = t
      · subst ht; simp at hpc
      · simp only [upd, if_neg ht] at hpc; exact casE t2 op2 a lvl n hpc
    · intro t2 op2 a lvl n hpc
      by_cases ht : t2 = t
      · subst ht; simp at hpc
      · simp only [upd, if_neg ht] at hpc; exact casU t2 op2 a lvl n hpc
    · intro t2 op2 a lvl n hpc
      by_cases ht : t2 = t
      · subst ht; simp at hpc
      · simp only [upd, if_neg ht] at hpc; exact xA t2 op2 a lvl n hpc
    · intro t2 op2 a lvl n b hpc
      by_cases ht : t2 = t
      · subst ht; simp [ownOf] at hpc
      · simp only [upd, if_neg ht] at hpc; exact own t2 op2 a lvl n b hpc
    · intro t2 t3 op2 a lvl n b op3 a3 lvl3 n3 hne h2 h3
      by_cases ht : t2 = t
      · subst ht; simp [ownOf] at h2
      · by_cases ht3 : t3 = t
        · subst ht3; simp [ownOf] at h3
        · simp only [upd, if_neg ht] at h2; simp only [upd, if_neg ht3] at h3
          exact ownd t2 t3 op2 a lvl n b op3 a3 lvl3 n3 hne h2 h3
    · intro t2 op2 a lvl n b hpc
      by_cases ht : t2 = t
      · subst ht; simp at hpc
      · simp only [upd, if_neg ht] at hpc; exact xNull t2 op2 a lvl n b hpc
    · intro t2 a i n hpc
      by_cases ht : t2 = t
      · subst ht; simp [cvOf] at hpc
      · simp only [upd, if_neg ht] at hpc; exact xConvd t2 a i n hpc
    · intro t2 t3 a i n n3 hne h2 h3
      by_cases ht : t2 = t
      · subst ht; simp [cvOf] at h2
      · by_cases ht3 : t3 = t
        · subst ht3; simp [cvOf] at h3
        · simp only [upd, if_neg ht] at h2; simp only [upd, if_neg ht3] at h3
          exact xUniq t2 t3 a i n n3 hne h2 h3
    · intro t2 op2 a lvl n b hpc
      by_cases ht : t2 = t
      · subst ht; simp at hpc
      · simp only [upd, if_neg ht] at hpc; exact xFull t2 op2 a lvl n b hpc
  · simp at hs

end CdsVerif.Algo.Feldman

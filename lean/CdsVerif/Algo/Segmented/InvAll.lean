/-
  The SegmentedQueue invariant holds in every reachable state (property C08): invocation, return, and the
  combination of the per-step lemmas.
-/
import CdsVerif.Algo.Segmented.StepCt
import CdsVerif.Algo.Segmented.StepRh
namespace CdsVerif.Algo.Segmented
open CdsVerif.Machine CdsVerif.Spec

theorem inv_init (K : Nat) : Inv (init K) := by
  refine ⟨?_, fun t => loc_idle _ t⟩
  constructor <;> intros <;> simp_all [init, Quiet]

/-! ### Invocation -/

def afterEnqInv (s : St) (t : Tid) (x : Nat) (ps : List Nat) : St :=
  { s with pc := upd s.pc t (.enqLd1 x ps), now := s.now + 1, used := upd s.used x true, owner := upd s.owner x t,
           tInv := upd s.tInv x s.now, floorN := upd s.floorN x s.nseg, tCall := upd s.tCall t s.now }

set_option maxHeartbeats 1000000 in
theorem glob_afterEnqInv {s : St} {t : Tid} {x : Nat} {ps : List Nat} (G : Glob s) (hx : s.used x = false) :
    Glob (afterEnqInv s t x ps) := by
  have hx0 : s.enqCnt x = 0 := by
    rcases G.enq_le x with h1 | h1
    · exact h1
    · have := G.enq_used x h1; rw [hx] at this; cases this
  have hx1 : s.tCas x = none := by
    cases hh : s.tCas x with
    | none => rfl
    | some c => have := G.cas_t x c hh; omega
  have hx2 : s.tMark x = none := by
    cases hh : s.tMark x with
    | none => rfl
    | some m => have := G.mark_t x m hh; have := G.enq_zero x hx0; omega
  unfold afterEnqInv
  constructor
  · exact G.lo_le
  · exact G.head_some
  · exact G.head_none
  · exact G.tail_some
  · exact G.tail_none
  · exact G.fresh
  · exact G.wide
  · exact G.dead
  · exact G.full
  · exact G.holder_lock
  · exact G.item_pos
  · exact G.del_pos
  · exact G.enq_le
  · exact G.enq_cell
  · exact G.enq_zero
  · intro y hy; have := G.enq_used y hy; simp only; grind [upd]
  · intro y hy; have := G.used_t y; simp only at hy ⊢; grind [upd]
  · intro y c hy; have := G.cas_t y c hy; simp only at hy ⊢; grind [upd]
  · exact G.cas_some
  · intro y m hy; have := G.mark_t y m hy; exact ⟨by simp only; omega, this.2⟩
  · exact G.mark_cas
  · exact G.mark_some
  · intro y z c hy hz hlt
    have := G.floor y z c
    have := (stored_facts G hz).2.1
    simp only at hy hz hlt ⊢; grind [upd]
  · intro y z c hy hz hlt
    have := G.order y z c hy hz
    simp only at hy hz hlt ⊢; grind [upd]
  · intro y z m c hm hz hlt hmm
    have := G.quasi y z m c hm hz
    simp only at hm hz hlt hmm ⊢; grind [upd]
  · exact G.quiet

theorem frame_afterEnqInv {s : St} {t t' : Tid} {x : Nat} {ps : List Nat} {p : PC} (hx : s.used x = false)
    (ht' : t' ≠ t) : Frame s (afterEnqInv s t x ps) t' p := by
  unfold afterEnqInv
  constructor
  · rfl
  · exact Nat.le_refl _
  · exact Nat.le_refl _
  · intro g i hh; exact hh
  · intro g i y hh; exact Or.inl hh
  · intro g i y hh; exact hh
  · intro g i hh; exact hh
  · intro h1; exact ⟨h1, rfl, rfl, rfl, rfl⟩
  · simp [upd, ht']
  · simp only; omega
  · intro y c h1; exact Or.inl h1
  · intro y c _; exact ⟨rfl, rfl⟩
  · intro y h1; simp only; grind [upd]
  · intro y _; rfl
  · intro y h1; exact h1
  · intro y h1; exact h1
  · intro y c h1; exact h1
  · intro y m h1; exact h1

def afterDeqInv (s : St) (t : Tid) (ps : List Nat) : St :=
  { s with pc := upd s.pc t (.deqLd1 ps), now := s.now + 1, tCall := upd s.tCall t s.now }

theorem glob_afterDeqInv {s : St} {t : Tid} {ps : List Nat} (G : Glob s) : Glob (afterDeqInv s t ps) := by
  unfold afterDeqInv
  constructor
  · exact G.lo_le
  · exact G.head_some
  · exact G.head_none
  · exact G.tail_some
  · exact G.tail_none
  · exact G.fresh
  · exact G.wide
  · exact G.dead
  · exact G.full
  · exact G.holder_lock
  · exact G.item_pos
  · exact G.del_pos
  · exact G.enq_le
  · exact G.enq_cell
  · exact G.enq_zero
  · exact G.enq_used
  · intro y hy; have := G.used_t y hy; exact ⟨by simp only; omega, this.2⟩
  · intro y c hy; have := G.cas_t y c hy; exact ⟨this.1, by simp only; omega, this.2.2⟩
  · exact G.cas_some
  · intro y m hy; have := G.mark_t y m hy; exact ⟨by simp only; omega, this.2⟩
  · exact G.mark_cas
  · exact G.mark_some
  · exact G.floor
  · exact G.order
  · exact G.quasi
  · exact G.quiet

theorem frame_afterDeqInv {s : St} {t t' : Tid} {ps : List Nat} {p : PC} (ht' : t' ≠ t) :
    Frame s (afterDeqInv s t ps) t' p := by
  unfold afterDeqInv
  constructor
  · rfl
  · exact Nat.le_refl _
  · exact Nat.le_refl _
  · intro g i hh; exact hh
  · intro g i y hh; exact Or.inl hh
  · intro g i y hh; exact hh
  · intro g i hh; exact hh
  · intro h1; exact ⟨h1, rfl, rfl, rfl, rfl⟩
  · simp [upd, ht']
  · simp only; omega
  · intro y c h1; exact Or.inl h1
  · intro y c _; exact ⟨rfl, rfl⟩
  · intro y h1; exact ⟨h1, rfl, rfl⟩
  · intro y _; rfl
  · intro y h1; exact h1
  · intro y h1; exact h1
  · intro y c h1; exact h1
  · intro y m h1; exact h1

theorem inv_invoke {s s' : St} {t : Tid} {op : GOp} (h : Inv s) (hi : invoke s t op = some s') : Inv s' := by
  unfold invoke at hi
  split at hi
  · rename_i v ps hpc _ _
    split at hi
    · rename_i hv
      simp only [Option.some.injEq] at hi; subst hi
      have G := h.1
      have hx := hv.2
      have hx0 : s.enqCnt v.toNat = 0 := by
        rcases G.enq_le v.toNat with h1 | h1
        · exact h1
        · have := G.enq_used _ h1; rw [hx] at this; cases this
      refine inv_of_step (s' := afterEnqInv s t v.toNat (ps.map Int.toNat)) h rfl (glob_afterEnqInv G hx)
        (fun t' ht' => frame_afterEnqInv hx ht') ?_
      refine loc_enqLd1 ?_ ⟨?_, ?_, hx0⟩
      · show upd s.tCall t s.now t < s.now + 1
        simp [upd]
      · show upd s.used v.toNat true v.toNat = true
        simp [upd]
      · show upd s.owner v.toNat t v.toNat = t
        simp [upd]
    · simp at hi
  · simp only [Option.some.injEq] at hi; subst hi
    refine inv_of_step (s' := afterDeqInv s t _) h rfl (glob_afterDeqInv h.1)
      (fun t' ht' => frame_afterDeqInv ht') ?_
    refine loc_deqLd1 ?_
    show upd s.tCall t s.now t < s.now + 1
    simp [upd]
  · simp at hi

theorem inv_result {s s' : St} {t : Tid} {r : GRet} (h : Inv s) (hr : result s t = some (s', r)) : Inv s' := by
  unfold result at hr
  split at hr
  · simp only [Option.some.injEq, Prod.mk.injEq] at hr; obtain ⟨rfl, _⟩ := hr
    exact inv_pcnow h (loc_idle _ t)
  · simp only [Option.some.injEq, Prod.mk.injEq] at hr; obtain ⟨rfl, _⟩ := hr
    exact inv_pcnow h (loc_idle _ t)
  · simp only [Option.some.injEq, Prod.mk.injEq] at hr; obtain ⟨rfl, _⟩ := hr
    exact inv_pcnow h (loc_idle _ t)
  · simp at hr

theorem inv_step {s s' : St} {t : Tid} {e : Ev} (h : Inv s) (hs : step s t = some (s', e)) : Inv s' := by
  cases hpc : s.pc t with
  | idle => unfold step at hs; simp [hpc] at hs
  | enqLd1 x ps => exact step_enqLd1 h hpc hs
  | enqLd2 x ps p => exact step_enqLd2 h hpc hs
  | enqRd x ps g i rest => exact step_enqRd h hpc hs
  | enqCas x ps g i rest => exact step_enqCas h hpc hs
  | ctTry x ps pt => exact step_ctTry h hpc hs
  | ctSpin x ps pt => exact step_ctSpin h hpc hs
  | ctIn x ps pt => exact step_ctIn h hpc hs
  | ctTail x ps n => exact step_ctTail h hpc hs
  | ctUnlock x ps n => exact step_ctUnlock h hpc hs
  | enqDone x => unfold step at hs; simp [hpc] at hs
  | deqLd1 ps => exact step_deqLd1 h hpc hs
  | deqLd2 ps p => exact step_deqLd2 h hpc hs
  | deqRd ps g i rest hn => exact step_deqRd h hpc hs
  | deqCas ps g i x rest hn => exact step_deqCas h hpc hs
  | rhTry ps g => exact step_rhTry h hpc hs
  | rhSpin ps g => exact step_rhSpin h hpc hs
  | rhIn ps g => exact step_rhIn h hpc hs
  | rhHead ps => exact step_rhHead h hpc hs
  | rhUnlock ps r => exact step_rhUnlock h hpc hs
  | deqDone r => unfold step at hs; simp [hpc] at hs

theorem inv_apply (s : St) (t : Tid) (a : Act) (s' : St) (o : Obs) (h : Inv s)
    (hap : model.apply s t a = some (s', o)) : Inv s' := by
  cases a with
  | invoke op =>
    simp only [Model.apply, model, Option.map_eq_some_iff] at hap
    obtain ⟨s1, hs1, heq⟩ := hap
    simp only [Prod.mk.injEq] at heq
    obtain ⟨rfl, -⟩ := heq
    exact inv_invoke h hs1
  | step =>
    simp only [Model.apply, model, Option.map_eq_some_iff] at hap
    obtain ⟨r, hr, heq⟩ := hap
    simp only [Prod.mk.injEq] at heq
    obtain ⟨rfl, -⟩ := heq
    exact inv_step (e := r.2) h hr
  | ret =>
    simp only [Model.apply, model, Option.map_eq_some_iff] at hap
    obtain ⟨r, hr, heq⟩ := hap
    simp only [Prod.mk.injEq] at heq
    obtain ⟨rfl, -⟩ := heq
    exact inv_result (r := r.2) h hr

/-- The invariant holds in every reachable state: every schedule, any number of threads, any quasi factor, any
    permutation input. -/
theorem inv_reachable (K : Nat) (s : St) (h : model.Reachable (init K) s) : Inv s :=
  model.inv_reachable Inv (init K) (inv_init K) inv_apply s h

end CdsVerif.Algo.Segmented

// Priority queues.  Values encode (priority, id) as prio * 1000 + id (Spec.prioOf); only
// priorities 1..4 are used so that ties occur; all comparators look at the priority part only.
//   fcpq          cds::container::FCPriorityQueue over std::priority_queue      spec "maxpq" (unbounded)
//   mspq_pops     cds::container::MSPriorityQueue, pre-filled by the main thread, scheduled threads only pop
//   mspq_pushes   cds::container::MSPriorityQueue, scheduled threads only push, main thread drains afterwards
//   imspq_pops / imspq_pushes   the same for cds::intrusive::MSPriorityQueue      spec "maxpq <capacity()>"
//   mspq_mixed / imspq_mixed    pushes and pops overlap freely; no order is claimed for such histories, only
//                 conservation: after a sequential drain every successfully pushed item has been popped exactly
//                 once and nothing else was popped, and a push fails only if capacity() items can have been present
//                 at some moment of its execution (client-side oracle, spec "none")
// (MSPriorityQueue is only claimed to be correct for histories in which no push overlaps a pop.)
#include <cds/init.h>
#include <cds/gc/hp.h>
#include <cds/gc/dhp.h>
#include <cds/container/fcpriority_queue.h>
#include <cds/container/mspriority_queue.h>
#include <cds/intrusive/mspriority_queue.h>
#include <map>
#include <memory>
#include <queue>
#include "../client.h"

using namespace khizmax_libcds_verif;
namespace ci = cds::intrusive;
namespace cc = cds::container;


// ---------------------------------------------------------------- flat-combining publication records
// Thread exit and the FC kernel.  Each thread owns a publication record through a
// boost::thread_specific_ptr; when the thread ends the TLS cleanup marks the record `removed`.
// Left to the OS this happens after the thread has handed the baton over, i.e. concurrently with
// the next scheduled thread and invisible to the scheduler (nondeterministic).  The fixture
// therefore releases the TLS slot in thread_end(), under the baton, as an ordinary scheduling point
// (`--fc_tls_in_baton 0` restores the OS behaviour).
// The kernel's allocator is replaced by one that never returns memory while the container lives
// (freed records stay readable) and that reports a record which is freed while it is still
// reachable from the publication list: that is a use-after-free in libcds, reported as an X line.
namespace fcwatch {
    static std::vector<void*> quarantine;
    static void const* kernel = nullptr;
    static bool (*linked_fn)( void const* kernel, void const* rec ) = nullptr;
    static unsigned long freed_linked = 0;

    template <class Kernel>
    bool is_linked( void const* k, void const* rec )
    {
        Kernel const* kk = static_cast<Kernel const*>( k );
        for ( cds::algo::flat_combining::publication_record* r = kk->m_pHead; r; r = r->pNext.load( atomics::memory_order_relaxed ))
            if ( static_cast<void const*>( static_cast<typename Kernel::publication_record_type*>( r )) == rec )
                return true;
        return false;
    }
    template <class Kernel>
    void watch( Kernel* k ) { kernel = k; linked_fn = &is_linked<Kernel>; freed_linked = 0; }
    inline void unwatch() { kernel = nullptr; linked_fn = nullptr; }
    inline void release()
    {
        for ( void* p : quarantine ) ::operator delete( p );
        quarantine.clear();
    }

    template <class T>
    struct alloc {
        typedef T value_type;
        template <class U> struct rebind { typedef alloc<U> other; };
        alloc() noexcept {}
        template <class U> alloc( alloc<U> const& ) noexcept {}
        T* allocate( size_t n, void const* = nullptr ) { return static_cast<T*>( ::operator new( n * sizeof( T ))); }
        void deallocate( T* p, size_t ) noexcept
        {
            if ( linked_fn ) {
                set_quiet( true );      // the walk below must not be a scheduling point (never called from a quiet region)
                if ( linked_fn( kernel, p )) ++freed_linked;
                set_quiet( false );
            }
            quarantine.push_back( p );
        }
        template <class U> bool operator==( alloc<U> const& ) const noexcept { return true; }
        template <class U> bool operator!=( alloc<U> const& ) const noexcept { return false; }
    };
}

static inline long prio_of( long v ) { return v / 1000; }

// std::priority_queue "less": priority part only
struct ByPrio {
    bool operator()( long a, long b ) const { return prio_of( a ) < prio_of( b ); }
};
// libcds three-way comparator: priority part only
struct cmp_prio {
    int operator()( long a, long b ) const
    {
        long pa = prio_of( a ), pb = prio_of( b );
        return pa < pb ? -1 : ( pa > pb ? 1 : 0 );
    }
};

struct IPQueue {
    virtual ~IPQueue() {}
    virtual bool push( long v ) = 0;
    virtual bool pop( long& v ) = 0;
    virtual size_t capacity() const { return 0; }      // 0: unbounded
    virtual void name_locks() {}                       // tie A: register the lock words under the names of the Lean machine
    virtual void thread_exit() {}                      // scheduled thread, last action: release per-thread state of the container
};

struct FCPQueueV : IPQueue {
    struct traits : cc::fcpqueue::traits {
        typedef cds::algo::flat_combining::wait_strategy::backoff<> wait_strategy;
        typedef cds::sync::spin lock_type;
        typedef fcwatch::alloc<int> allocator;
    };
    typedef std::priority_queue<long, std::vector<long>, ByPrio> impl_t;
    typedef cc::FCPriorityQueue<long, impl_t, traits> pq_t;
    std::unique_ptr<pq_t> q;
    FCPQueueV( unsigned compact, unsigned pass ) : q( new pq_t( compact, pass )) { fcwatch::watch( &q->m_FlatCombining ); }
    ~FCPQueueV()
    {
        fcwatch::unwatch();
        q.reset();
        fcwatch::release();
    }
    void thread_exit() override { q->m_FlatCombining.m_pThreadRec.reset(); }      // runs the kernel's tls_cleanup
    // odd values go through the copying overload, even values through the moving one
    bool push( long v ) override
    {
        if ( v & 1 ) return q->push( v );
        long tmp = v;
        return q->push( std::move( tmp ));
    }
    bool pop( long& v ) override { return q->pop( v ); }
};

struct MSPQueueV : IPQueue {
    struct traits : cc::mspriority_queue::traits {
        typedef cmp_prio compare;
        typedef cds::sync::spin lock_type;
    };
    typedef cc::MSPriorityQueue<long, traits> pq_t;
    std::unique_ptr<pq_t> q;
    explicit MSPQueueV( size_t arg ) : q( new pq_t( arg )) {}
    bool push( long v ) override { return q->push( v ); }
    bool pop( long& v ) override { return q->pop( v ); }
    size_t capacity() const override { return q->capacity(); }
};

struct IntrusiveMSPQueueV : IPQueue {
    struct item { long v; };
    struct cmp_item {
        int operator()( item const& a, item const& b ) const { return cmp_prio()( a.v, b.v ); }
    };
    struct traits : ci::mspriority_queue::traits {
        typedef cmp_item compare;
        typedef cds::sync::spin lock_type;
    };
    typedef ci::MSPriorityQueue<item, traits> pq_t;
    std::unique_ptr<pq_t> q;
    std::vector<std::unique_ptr<item>> items;       // client-owned; each item is pushed at most once
    explicit IntrusiveMSPQueueV( size_t arg ) : q( new pq_t( arg )) {}
    ~IntrusiveMSPQueueV()
    {
        q.reset();          // ~MSPriorityQueue pops everything, nothing is disposed
    }
    bool push( long v ) override
    {
        item* p = new item;
        p->v = v;
        items.emplace_back( p );
        return q->push( *p );
    }
    bool pop( long& v ) override
    {
        item* p = q->pop();
        if ( !p ) return false;
        v = p->v;
        return true;
    }
    size_t capacity() const override { return q->capacity(); }
    // names of Algo/MSPQ/Model.lean: `szlock` = m_Lock, `lk<i>` = m_Heap[i].m_Lock (the only atomic objects of the class)
    void name_locks() override
    {
        reg_name( &q->m_Lock.m_spin, sizeof( q->m_Lock.m_spin ), "szlock" );
        for ( size_t i = 0; i < q->m_Heap.capacity(); ++i ) {
            char nm[32];
            std::snprintf( nm, sizeof nm, "lk%zu", i );
            reg_name( &q->m_Heap[i].m_Lock.m_spin, sizeof( q->m_Heap[i].m_Lock.m_spin ), nm );
        }
    }
};

struct Fixture {
    static char const* family() { return "pqueue"; }
    static std::vector<std::string> variants()
    {
        return { "fcpq", "mspq_pops", "mspq_pushes", "imspq_pops", "imspq_pushes", "mspq_mixed", "imspq_mixed" };
    }
    std::unique_ptr<IPQueue> s;
    bool failed = false;
    std::string failure;
    bool fc = false, pops_only = false, pushes_only = false, mixed = false;
    bool named = false;     // hidden variant `imspq_named` (tie A with Algo/MSPQ): imspq_mixed with named lock words
    bool stale = false;     // hidden variant `imspq_stale`: fixed pre-fill and program of the stale-owner-tag scenario
                            // (Props/C11MSPQ.lean, `C11_mspq_stale_tag_witness`); run with --replay "0x<k> 1x100000"
    struct PushRec { long v; uint64_t inv, res; bool ok; };
    struct PopRec { long v; uint64_t inv, res; };
    std::vector<PushRec> pushes;       // threads are serialised: plain containers are fine
    std::vector<PopRec> pops;
    size_t cap = 0;
    std::vector<long> prefilled;
    long next_id = 1;
    bool tls_in_baton = true;

    static IPQueue* make_ms( bool intrusive, size_t arg )
    {
        if ( intrusive ) return new IntrusiveMSPQueueV( arg );
        return new MSPQueueV( arg );
    }

    explicit Fixture( Case const& c )
    {
        std::string const& v = c.variant;
        tls_in_baton = c.optl( "fc_tls_in_baton", 1 ) != 0;
        if ( v == "fcpq" ) {
            s.reset( new FCPQueueV( 1 + unsigned( c.index % 2 ), 1 + unsigned(( c.index / 2 ) % 4 )));
            fc = true;
            return;
        }
        bool intrusive;
        if ( v == "mspq_pops" ) { intrusive = false; pops_only = true; }
        else if ( v == "mspq_pushes" ) { intrusive = false; pushes_only = true; }
        else if ( v == "imspq_pops" ) { intrusive = true; pops_only = true; }
        else if ( v == "imspq_pushes" ) { intrusive = true; pushes_only = true; }
        else if ( v == "mspq_mixed" ) { intrusive = false; mixed = true; }
        else if ( v == "imspq_mixed" ) { intrusive = true; mixed = true; }
        else if ( v == "imspq_named" ) { intrusive = true; mixed = true; named = true; }
        else if ( v == "imspq_stale" ) { intrusive = true; mixed = true; named = true; stale = true; }
        else { std::fprintf( stderr, "unknown variant %s\n", v.c_str()); std::exit( 2 ); }

        // constructor argument 1..16 (each value once per 24 cases, the small ones 2..8 twice so that
        // `full` is reached by short programs).  capacity() is 2^ceil(log2 arg) - 1.
        unsigned sel = unsigned( c.index % 24 );
        size_t arg = sel < 16 ? sel + 1 : 2 + ( sel - 16 ) % 7;
        s.reset( make_ms( intrusive, arg ));
        if ( s->capacity() == 0 ) {
            // argument 1 gives capacity() == 0: every push fails, but Spec.maxpq reads cap 0 as
            // "unbounded", so this configuration cannot be expressed and is never generated.
            s.reset();
            s.reset( make_ms( intrusive, 2 ));
        }
        cap = s->capacity();

        if ( mixed ) {
            // small heaps, so that slot reuse (a pop's bottom node is the next push's slot) and `full` both occur
            static size_t const args[] = { 2, 3, 4, 7, 8, 4, 2, 16 };
            s.reset();
            s.reset( make_ms( intrusive, args[c.index % 8] ));
            cap = s->capacity();
        }
        if ( stale ) {
            s.reset();
            s.reset( make_ms( intrusive, 16 ));
            cap = s->capacity();
            static long const pre[] = { 100001, 90002, 50003, 80004, 30005, 15006, 50007 };
            for ( long val : pre ) {
                s->push( val );
                prefilled.push_back( val ); pushes.push_back( PushRec{ val, 0, 0, true } );
            }
            next_id = 8;
        }
        else if ( pops_only || mixed ) {
            // main thread, unscheduled: pre-fill.  Deterministic in (seed, index) because the fixture
            // is built twice per case.
            Rng r( c.seed * 1000003ull + c.index * 7919ull + 99 );
            size_t kmax = cap < 6 ? cap : 6;
            size_t k = size_t( r.below( kmax + 1 ));
            for ( size_t i = 0; i < k; ++i ) {
                long val = long( 1 + r.below( 4 )) * 1000 + next_id++;
                if ( !s->push( val )) { failed = true; failure = "pre-fill push failed below capacity"; }
                else { prefilled.push_back( val ); if ( mixed ) pushes.push_back( PushRec{ val, 0, 0, true } ); }
            }
        }
        if ( named ) s->name_locks();
    }
    // tie A: the machine runs the (untraced) pre-fill itself
    std::string header_extra() const
    {
        if ( !named ) return std::string();
        std::ostringstream os;
        os << "cap=" << cap << " pre=";
        for ( size_t i = 0; i < prefilled.size(); ++i ) os << ( i ? "," : "" ) << prefilled[i];
        return os.str();
    }
    std::string spec() const
    {
        if ( fc ) return "maxpq";
        if ( mixed ) return "none";
        std::ostringstream os;
        os << "maxpq " << cap;
        return os.str();
    }

    std::vector<std::vector<Op>> program( Rng& r, int nthreads, int nops )
    {
        if ( stale ) {
            std::vector<std::vector<Op>> q( 3 );
            q[0].push_back( Op( "push", 20008 ));
            q[1].push_back( Op( "push", 10009 ));
            for ( int i = 0; i < 6; ++i ) q[1].push_back( Op( "pop" ));
            q[2].push_back( Op( "push", 25010 ));
            return q;
        }
        std::vector<std::vector<Op>> p( nthreads );
        std::vector<int> cnt( nthreads );
        int total = 0;
        for ( int t = 0; t < nthreads; ++t ) {
            if ( pushes_only ) {
                int lo = nops > 2 ? nops - 2 : 1;       // long programs: the heap must fill up
                cnt[t] = lo + int( r.below( uint64_t( nops - lo + 1 )));
            }
            else
                cnt[t] = 1 + int( r.below( nops ));
            total += cnt[t];
        }
        int limit = pops_only ? 14 - int( prefilled.size()) : 14;
        while ( total > limit ) {
            int big = 0;
            for ( int t = 1; t < nthreads; ++t ) if ( cnt[t] > cnt[big] ) big = t;
            --cnt[big]; --total;
        }
        long id = next_id;      // ids continue after the pre-filled items: values are unique per case
        unsigned push_pct = pops_only ? 0 : pushes_only ? 100 : 40 + unsigned( r.below( 30 ));
        for ( int t = 0; t < nthreads; ++t )
            for ( int i = 0; i < cnt[t]; ++i ) {
                if ( r.chance( push_pct )) p[t].push_back( Op( "push", long( 1 + r.below( 4 )) * 1000 + id++ ));
                else p[t].push_back( Op( "pop" ));
            }
        return p;
    }
    void thread_begin( int ) { set_quiet( true ); cds::threading::Manager::attachThread(); set_quiet( false ); }
    void thread_end( int )
    {
        if ( tls_in_baton )
            s->thread_exit();
        set_quiet( true ); cds::threading::Manager::detachThread(); set_quiet( false );
    }
    std::vector<long> exec( int, Op const& op )
    {
        if ( op.name == "push" ) {
            if ( !mixed ) return { s->push( op.args[0] ) ? 1L : 0L };
            uint64_t inv = tick();
            bool ok = s->push( op.args[0] );
            pushes.push_back( PushRec{ op.args[0], inv, tick(), ok } );
            return { ok ? 1L : 0L };
        }
        long v = 0;
        uint64_t inv = mixed ? tick() : 0;
        if ( s->pop( v )) {
            if ( mixed ) pops.push_back( PopRec{ v, inv, tick() } );
            return { 1, v };
        }
        return { 0 };
    }
    void conservation( std::ostream& out )
    {
        // sequential drain by the main thread
        size_t drained = 0;
        for ( size_t guard = 0; ; ++guard ) {
            long v = 0;
            // tie A: the drain is untraced; the machine runs each pop alone (`drainpop`) and must return the same item
            if ( named ) out << "T 0 CALL drainpop\n";
            if ( !s->pop( v )) { if ( named ) out << "T 0 RET 0\n"; break; }
            if ( named ) out << "T 0 RET 1 " << v << '\n';
            pops.push_back( PopRec{ v, ~uint64_t( 0 ) - 1, ~uint64_t( 0 ) } );
            ++drained;
            if ( guard > 64 ) { failed = true; failure = "drain did not reach an empty queue after 64 pops"; return; }
        }
        std::map<long, int> in, outm;
        for ( auto const& p : pushes ) if ( p.ok ) ++in[p.v];
        for ( auto const& p : pops ) ++outm[p.v];
        std::ostringstream os;
        for ( auto const& kv : in ) {
            int n = outm.count( kv.first ) ? outm[kv.first] : 0;
            if ( n == 0 ) os << " item-lost=" << kv.first;
            else if ( n > 1 ) os << " item-duplicated=" << kv.first;
        }
        for ( auto const& kv : outm )
            if ( !in.count( kv.first )) os << " popped-but-never-pushed=" << kv.first;
        // a failed push: at most  (#successful pushes invoked before its response) - (#pops that returned before
        // its invocation)  items can have been present at any moment of its execution
        for ( auto const& f : pushes ) {
            if ( f.ok ) continue;
            long ub = 0;
            for ( auto const& p : pushes ) if ( p.ok && p.inv < f.res ) ++ub;
            for ( auto const& p : pops ) if ( p.res < f.inv ) --ub;
            if ( ub < long( cap )) os << " push-failed-below-capacity=" << f.v << "(at-most-" << ub << "-of-" << cap << ")";
        }
        out << "# mixed: pushed=" << in.size() << " popped=" << pops.size() - drained << " drained=" << drained << " cap=" << cap << '\n';
        if ( !os.str().empty()) { failed = true; failure = "conservation:" + os.str(); }
    }
    void finish( std::ostream& out )
    {
        if ( fc && fcwatch::freed_linked ) {
            failed = true;
            std::ostringstream os;
            os << "flat combining: " << fcwatch::freed_linked << " publication record(s) freed while still linked in the publication list";
            failure = os.str();
        }
        if ( mixed ) { conservation( out ); return; }
        if ( pops_only ) {
            // the pre-fill happened before every scheduled operation
            for ( long v : prefilled )
                out << "O 90 0 0 push " << v << " : 1\n";
        }
        if ( pushes_only ) {
            // sequential drain by the main thread, after every scheduled operation
            uint64_t t = 100000;
            for ( size_t guard = 0; guard < 64; ++guard ) {
                long v = 0;
                bool ok = s->pop( v );
                out << "O 91 " << t << ' ' << t + 1 << " pop :";
                if ( ok ) out << " 1 " << v << '\n';
                else out << " 0\n";
                t += 2;
                if ( !ok )
                    return;
            }
            failed = true;
            failure = "drain did not reach an empty queue after 64 pops";
        }
    }
};

int main( int argc, char** argv )
{
    cds::Initialize();
    {
        cds::gc::HP hp( 8, 16 );
        cds::gc::DHP dhp;
        cds::threading::Manager::attachThread();
        int rc = client_main<Fixture>( argc, argv );
        cds::threading::Manager::detachThread();
        (void) rc;
    }
    cds::Terminate();
    return 0;
}

/-
  Preservation of the split-list invariant, and the effect on the abstract map, by the steps of `search` (loads and
  validation) — for a client operation and for the insertion of a dummy node alike.
-/
import CdsVerif.Algo.SplitList.Mono
namespace CdsVerif.Algo.SplitList
open CdsVerif.Machine CdsVerif.Spec CdsVerif.Lin
open CdsVerif.Algo.Michael (LPok isRO)

theorem sinvl_step_sHd1 {c : Cfg} {s s' : St} {t : Tid} {ev : Ev} {L : List Nat} {w : OpK} {d : Nat}
    (h : SInvL c s L) (hpc : s.pc t = .sHd1 w d) (hs : step c s t = some (s', ev)) :
    ∃ L', SInvL c s' L' ∧ StepEff c s t s' L L' := by
  have ht := h.thr t; rw [hpc] at ht
  have hnm := fun b => h.g.next_mem (a := d) (b := b)
  simp only [step, hpc] at hs
  simp only [Option.some.injEq, Prod.mk.injEq] at hs; obtain ⟨rfl, -⟩ := hs
  refine ⟨L, ⟨h.g, forall_upd (P := TOk c (mem! s) L) (fun t2 _ => h.thr t2) ?tok, h.own.upd t _ ?oi ?od ?oe⟩, ?eff⟩
  case tok => obtain ⟨h1, h2, h3, h4, h5, h6, h7, h8, h9, h10, h11, h12, h13, h14, h15, h16, h17, h18, h19⟩ := ht; tok_close
  case oi => own_close
  case od => own_close
  case oe => own_close
  case eff => eff_close

theorem sinvl_step_sNx1 {c : Cfg} {s s' : St} {t : Tid} {ev : Ev} {L : List Nat} {w : OpK} {d prev cur : Nat}
    (h : SInvL c s L) (hpc : s.pc t = .sNx1 w d prev cur) (hs : step c s t = some (s', ev)) :
    ∃ L', SInvL c s' L' ∧ StepEff c s t s' L L' := by
  have ht := h.thr t; rw [hpc] at ht
  have hnl := fun b => h.g.next_lk (a := cur) (b := b)
  simp only [step, hpc] at hs
  simp only [Option.some.injEq, Prod.mk.injEq] at hs; obtain ⟨rfl, -⟩ := hs
  refine ⟨L, ⟨h.g, forall_upd (P := TOk c (mem! s) L) (fun t2 _ => h.thr t2) ?tok, h.own.upd t _ ?oi ?od ?oe⟩, ?eff⟩
  case tok => obtain ⟨h1, h2, h3, h4, h5, h6, h7, h8, h9, h10, h11, h12, h13, h14, h15, h16, h17, h18, h19⟩ := ht; tok_close
  case oi => own_close
  case od => own_close
  case oe => own_close
  case eff => eff_close

set_option maxHeartbeats 8000000 in
theorem sinvl_step_sHd2 {c : Cfg} {s s' : St} {t : Tid} {ev : Ev} {L : List Nat} {w : OpK} {d : Nat}
    {nx : Option Nat} {mk : Bool}
    (h : SInvL c s L) (hpc : s.pc t = .sHd2 w d nx mk) (hs : step c s t = some (s', ev)) :
    ∃ L', SInvL c s' L' ∧ StepEff c s t s' L L' := by
  have ht := h.thr t; rw [hpc] at ht
  have hst := ht.start d (by simp [pcStart])
  have hdm := h.g.dmark d hst.2.1
  have habs := fun o r => h.g.lp_absent (p := d) (o := o) (r := r) hst.1
  simp only [step, hpc] at hs
  split at hs
  next heq =>
    simp only [Option.some.injEq, Prod.mk.injEq] at hs; obtain ⟨rfl, -⟩ := hs
    refine ⟨L, ⟨h.g, forall_upd (P := TOk c (mem! s) L) (fun t2 _ => h.thr t2) ?tok, h.own.upd t _ ?oi ?od ?oe⟩, ?eff⟩
    case tok =>
      obtain ⟨h1, h2, h3, h4, h5, h6, h7, h8, h9, h10, h11, h12, h13, h14, h15, h16, h17, h18, h19⟩ := ht
      cases w with
      | top o => cases o <;> cases nx <;> tok_closeX
      | dum m o stk => cases nx <;> tok_closeX
    case oi => cases w with
      | top o => cases o <;> cases nx <;> own_close
      | dum m o stk => cases nx <;> own_close
    case od => cases w with
      | top o => cases o <;> cases nx <;> own_close
      | dum m o stk => cases nx <;> own_close
    case oe => cases w with
      | top o => cases o <;> cases nx <;> own_close
      | dum m o stk => cases nx <;> own_close
    case eff =>
      cases w with
      | top o => cases o <;> cases nx <;> eff_closeX
      | dum m o stk => cases nx <;> eff_closeX
  next hne =>
    simp only [Option.some.injEq, Prod.mk.injEq] at hs; obtain ⟨rfl, -⟩ := hs
    refine ⟨L, ⟨h.g, forall_upd (P := TOk c (mem! s) L) (fun t2 _ => h.thr t2) ?tok, h.own.upd t _ ?oi ?od ?oe⟩, ?eff⟩
    case tok => obtain ⟨h1, h2, h3, h4, h5, h6, h7, h8, h9, h10, h11, h12, h13, h14, h15, h16, h17, h18, h19⟩ := ht; tok_close
    case oi => own_close
    case od => own_close
    case oe => own_close
    case eff => eff_close

set_option maxHeartbeats 8000000 in
theorem sinvl_step_sNx2 {c : Cfg} (hc : SOHyp c) {s s' : St} {t : Tid} {ev : Ev} {L : List Nat} {w : OpK} {d prev cur : Nat}
    {nx : Option Nat} {mk : Bool}
    (h : SInvL c s L) (hpc : s.pc t = .sNx2 w d prev cur nx mk) (hs : step c s t = some (s', ev)) :
    ∃ L', SInvL c s' L' ∧ StepEff c s t s' L L' := by
  have ht := h.thr t; rw [hpc] at ht
  have hcur := ht.lkCur cur (by simp [pcCur])
  have hitem := ht.item
  have hpres := fun o r hm => h.g.lp_present hc (a := cur) (o := o) (r := r) hm
  have habs := fun o r hm => h.g.lp_absent (p := cur) (o := o) (r := r) hm
  simp only [step, hpc] at hs
  split at hs
  next heq =>
    simp only [Option.some.injEq, Prod.mk.injEq] at hs; obtain ⟨rfl, -⟩ := hs
    refine ⟨L, ⟨h.g, forall_upd (P := TOk c (mem! s) L) (fun t2 _ => h.thr t2) ?tok, h.own.upd t _ ?oi ?od ?oe⟩, ?eff⟩
    case tok => obtain ⟨h1, h2, h3, h4, h5, h6, h7, h8, h9, h10, h11, h12, h13, h14, h15, h16, h17, h18, h19⟩ := ht; tok_close
    case oi => own_close
    case od => own_close
    case oe => own_close
    case eff =>
      cases w with
      | top o =>
        have hit : ∀ n, o = .ins n → Alloc (mem! s) n ∧ n % 2 = 1 := fun n e => by
          have := hitem n (by simp [pcTop, wtop, e]); exact ⟨this.2.1, this.1⟩
        cases o <;> eff_close
      | dum m o stk => eff_close
  next hne =>
    simp only [Option.some.injEq, Prod.mk.injEq] at hs; obtain ⟨rfl, -⟩ := hs
    refine ⟨L, ⟨h.g, forall_upd (P := TOk c (mem! s) L) (fun t2 _ => h.thr t2) ?tok, h.own.upd t _ ?oi ?od ?oe⟩, ?eff⟩
    case tok => obtain ⟨h1, h2, h3, h4, h5, h6, h7, h8, h9, h10, h11, h12, h13, h14, h15, h16, h17, h18, h19⟩ := ht; tok_close
    case oi => own_close
    case od => own_close
    case oe => own_close
    case eff => eff_close

set_option maxHeartbeats 16000000 in
theorem sinvl_step_sChk {c : Cfg} {s s' : St} {t : Tid} {ev : Ev} {L : List Nat} {w : OpK} {d prev cur : Nat}
    {nx : Option Nat} {mk : Bool}
    (h : SInvL c s L) (hpc : s.pc t = .sChk w d prev cur nx mk) (hs : step c s t = some (s', ev)) :
    ∃ L', SInvL c s' L' ∧ StepEff c s t s' L L' := by
  have ht := h.thr t; rw [hpc] at ht
  have hprev := ht.lkPrev prev (by simp [pcPrev])
  have hkprev := ht.keyPrev prev (by simp [pcPrev])
  simp only [skeyS, skeyU] at hkprev
  have habs := fun o r hm => h.g.lp_absent (p := prev) (o := o) (r := r) hm
  have hro := fun r => tent_ro (c := c) (so := s.so) (uk := s.uk) (val := s.val) (w := w) (x := cur) (nx := nx) (mk := mk) (r := r)
  simp only [step, hpc] at hs
  split at hs
  next heq =>
    simp only [Option.some.injEq, Prod.mk.injEq] at hs; obtain ⟨rfl, -⟩ := hs
    refine ⟨L, ⟨h.g, forall_upd (P := TOk c (mem! s) L) (fun t2 _ => h.thr t2) ?tok, h.own.upd t _ ?oi ?od ?oe⟩, ?eff⟩
    case tok =>
      obtain ⟨h1, h2, h3, h4, h5, h6, h7, h8, h9, h10, h11, h12, h13, h14, h15, h16, h17, h18, h19⟩ := ht
      cases w with
      | top o => cases o <;> cases nx <;> tok_closeX
      | dum m o stk => cases nx <;> tok_closeX
    case oi => cases w with
      | top o => cases o <;> cases nx <;> own_close
      | dum m o stk => cases nx <;> own_close
    case od => cases w with
      | top o => cases o <;> cases nx <;> own_close
      | dum m o stk => cases nx <;> own_close
    case oe => cases w with
      | top o => cases o <;> cases nx <;> own_close
      | dum m o stk => cases nx <;> own_close
    case eff =>
      cases w with
      | top o => cases o <;> cases nx <;> eff_closeX
      | dum m o stk => cases nx <;> eff_closeX
  next hne =>
    simp only [Option.some.injEq, Prod.mk.injEq] at hs; obtain ⟨rfl, -⟩ := hs
    refine ⟨L, ⟨h.g, forall_upd (P := TOk c (mem! s) L) (fun t2 _ => h.thr t2) ?tok, h.own.upd t _ ?oi ?od ?oe⟩, ?eff⟩
    case tok => obtain ⟨h1, h2, h3, h4, h5, h6, h7, h8, h9, h10, h11, h12, h13, h14, h15, h16, h17, h18, h19⟩ := ht; tok_close
    case oi => own_close
    case od => own_close
    case oe => own_close
    case eff =>
      cases w with
      | top o => cases o <;> eff_close
      | dum m o stk => eff_close

end CdsVerif.Algo.SplitList

/-
  Refinement: the step at which an operation fixes its result is the `Spec.map` transition of that operation on the
  abstract map `look`; every other step — in particular every step of `expand_slot` — leaves `look` unchanged.

  Linearization points:  insert → true  : the CAS null → item            erase → item : the CAS item → null
                         update (new)   : the CAS null → item            update (replace) : the CAS old item → item
                         every other answer (insert → false, erase → not found, find, contains, update refused):
                         the LAST load of `protect`, the one that confirms the slot value the answer is computed from.
-/
import CdsVerif.Algo.Feldman.Reach
namespace CdsVerif.Algo.Feldman
open CdsVerif.Machine CdsVerif.Spec CdsVerif.Lin

/-- the result, once it is fixed -/
def retOf : PC → Option GRet
  | .done r => some r
  | _ => none

/-- the operation in progress (before its result is fixed) -/
def opOf (pc : PC) : Option GOp := (posOf pc).map (fun x => gopOf x.1)

/-! ### `decideOp` as a linearization point -/

theorem decideOp_lp {c : Cfg} {L : Int → Option Int} {op : Op} {a lvl : Nat} {cl : Cell} {r : GRet}
    (hL : L (okey op) = leaf (okey op) cl)
    (heos : ∀ n, cl = .data n → n.key ≠ okey op → lvl + 1 < c.depth)
    (hd : decideOp c op a lvl cl = .done r) : LPok L (gopOf op) r L := by
  unfold decideOp at hd
  split at hd
  · next n =>
    simp only [leaf] at hL
    split at hd
    · next hk =>
      rw [if_pos hk] at hL
      cases op with
      | ins n0 =>
        simp only [PC.done.injEq] at hd; subst hd
        exact LPok.ro_some hL (fun _ => rfl) (Or.inl ⟨n0.val, rfl, rfl⟩)
      | upd n0 al =>
        simp only [okey] at hL hk
        by_cases hnn : n = n0
        · subst hnn
          simp only [if_true, PC.done.injEq] at hd; subst hd
          refine LPok.upd_repl hL ?_
          intro j
          by_cases hj : j = n.key
          · subst hj; simp only [if_true]; exact hL
          · simp [hj]
        · simp [hnn] at hd
      | era k => simp at hd
      | fnd k =>
        simp only [PC.done.injEq] at hd; subst hd
        exact LPok.ro_some hL (fun _ => rfl) (Or.inr (Or.inl ⟨rfl, rfl⟩))
      | con k =>
        simp only [PC.done.injEq] at hd; subst hd
        exact LPok.ro_some hL (fun _ => rfl) (Or.inr (Or.inr ⟨rfl, rfl⟩))
    · next hk =>
      rw [if_neg hk] at hL
      have he := heos n rfl hk
      cases op with
      | ins n0 => simp [he] at hd
      | upd n0 al =>
        simp only at hd
        split at hd
        · simp at hd
        · next hal =>
          simp only [PC.done.injEq] at hd; subst hd
          have : al = 0 := by simpa using hal
          subst this
          exact LPok.upd_refused hL (fun _ => rfl)
      | era k =>
        simp only [PC.done.injEq] at hd; subst hd
        exact LPok.ro_none hL (fun _ => rfl) (Or.inl rfl)
      | fnd k =>
        simp only [PC.done.injEq] at hd; subst hd
        exact LPok.ro_none hL (fun _ => rfl) (Or.inr (Or.inl rfl))
      | con k =>
        simp only [PC.done.injEq] at hd; subst hd
        exact LPok.ro_none hL (fun _ => rfl) (Or.inr (Or.inr rfl))
  · simp only [leaf] at hL
    cases op with
    | ins n0 => simp at hd
    | upd n0 al =>
      simp only at hd
      split at hd
      · simp at hd
      · next hal =>
        simp only [PC.done.injEq] at hd; subst hd
        have : al = 0 := by simpa using hal
        subst this
        exact LPok.upd_refused hL (fun _ => rfl)
    | era k =>
      simp only [PC.done.injEq] at hd; subst hd
      exact LPok.ro_none hL (fun _ => rfl) (Or.inl rfl)
    | fnd k =>
      simp only [PC.done.injEq] at hd; subst hd
      exact LPok.ro_none hL (fun _ => rfl) (Or.inr (Or.inl rfl))
    | con k =>
      simp only [PC.done.injEq] at hd; subst hd
      exact LPok.ro_none hL (fun _ => rfl) (Or.inr (Or.inr rfl))
  · simp at hd

/-! ### What the slot of a position answers -/

/-- the slot of the position is not an array-node pointer: the traversal for the operation's key stops there -/
theorem look_pos_leaf {c : Cfg} {s : St} (hp : PathHyp c) (h : SInv c s) (t : Tid) (op : Op) (a lvl : Nat)
    (hpo : posOf (s.pc t) = some (op, a, lvl)) (hc : ∀ b, s.cell a (sl c (okey op) lvl) ≠ .arr b) :
    look c s (okey op) = leaf (okey op) (s.cell a (sl c (okey op) lvl)) := by
  obtain ⟨h1, h2⟩ := look_from_pos hp h t op a lvl hpo
  rw [h1, h2, go_cons]
  cases hcc : s.cell a (sl c (okey op) lvl) with
  | arr b => exact absurd hcc (hc b)
  | null => rfl
  | data n => rfl
  | conv n => rfl

/-- the same slot after it has been overwritten with a value that is not an array-node pointer -/
theorem look_write_key {c : Cfg} {s : St} (hp : PathHyp c) (h : SInv c s) (t : Tid) (op : Op) (a lvl : Nat)
    (hpo : posOf (s.pc t) = some (op, a, lvl)) (v : Cell) (hv : ∀ b, v ≠ .arr b)
    (hc : ∀ b, s.cell a (sl c (okey op) lvl) ≠ .arr b) (pcs : Tid → PC) :
    look c { s with cell := upd2 s.cell a (sl c (okey op) lvl) v, pc := pcs } (okey op) = leaf (okey op) v := by
  have hpos := h.pos t op a lvl hpo
  have hw := walk_pub h a hpos.1
  rw [hpos.2.2.2] at hw
  have hw' : walk (upd2 s.cell a (sl c (okey op) lvl) v) 0 ((c.path (okey op)).take lvl) = some a := by
    refine walk_mono ?_ _ _ _ hw
    intro a1 i1 b1 hb
    simp only [upd2]
    split
    · next hh => rw [hh.1, hh.2] at hb; exact absurd hb (hc b1)
    · exact hb
  have h2 := (look_from_pos hp h t op a lvl hpo).2
  unfold look
  show go (upd2 s.cell a (sl c (okey op) lvl) v) (okey op) 0 (c.path (okey op)) = _
  conv => lhs; rw [← List.take_append_drop lvl (c.path (okey op))]
  rw [go_split _ _ _ _ 0 a hw', h2, go_cons]
  have e : upd2 s.cell a (sl c (okey op) lvl) v a (sl c (okey op) lvl) = v := by simp [upd2]
  rw [e]
  cases hvv : v with
  | arr b => exact absurd hvv (hv b)
  | null => rfl
  | data n => rfl
  | conv n => rfl

theorem look_write_other {c : Cfg} {s : St} (a i : Nat) (v : Cell) (hv : ∀ b, v ≠ .arr b)
    (hc : ∀ b, s.cell a i ≠ .arr b) (pcs : Tid → PC) (j : Int) (hl : leaf j v = leaf j (s.cell a i)) :
    look c { s with cell := upd2 s.cell a i v, pc := pcs } j = look c s j :=
  go_upd_leaf s.cell j a i v hc hv hl _ 0

theorem look_write {c : Cfg} {s : St} (hp : PathHyp c) (h : SInv c s) (t : Tid) (op : Op) (a lvl : Nat)
    (hpo : posOf (s.pc t) = some (op, a, lvl)) (v : Cell) (hv : ∀ b, v ≠ .arr b)
    (hc : ∀ b, s.cell a (sl c (okey op) lvl) ≠ .arr b) (pcs : Tid → PC)
    (hoth : ∀ j, j ≠ okey op → leaf j v = leaf j (s.cell a (sl c (okey op) lvl))) (j : Int) :
    look c { s with cell := upd2 s.cell a (sl c (okey op) lvl) v, pc := pcs } j =
      if j = okey op then leaf (okey op) v else look c s j := by
  by_cases hj : j = okey op
  · subst hj; rw [if_pos rfl]; exact look_write_key hp h t op a lvl hpo v hv hc pcs
  · rw [if_neg hj]; exact look_write_other a _ v hv hc pcs j (hoth j hj)

/-- at the last level a slot holds only items of one key (this is where the injectivity of the hash is used) -/
theorem not_eos {c : Cfg} {s : St} (hp : PathHyp c) (h : SInv c s) (t : Tid) (op : Op) (a lvl : Nat)
    (hpo : posOf (s.pc t) = some (op, a, lvl)) (n : Node) (hc : s.cell a (sl c (okey op) lvl) = .data n)
    (hk : n.key ≠ okey op) : lvl + 1 < c.depth := by
  have hpos := h.pos t op a lvl hpo
  have hl := pos_len hp hpos.2.2.1 hpos.2.2.2
  have h1 := pos_pfx hp hpos.2.2.1 hpos.2.2.2
  have h2 := h.onp a _ n (Or.inl hc)
  apply Classical.byContradiction
  intro hge
  have hd : c.depth = lvl + 1 := by omega
  have := Pfx.full_eq h2 h1 (by rw [hp.len, hl, hd]) (by rw [hp.len, hl, hd])
  exact hk (hp.inj _ _ this)

/-! ### The refinement theorem -/

set_option maxHeartbeats 1000000 in
theorem step_refines {c : Cfg} {s s' : St} {t : Tid} {ev : Ev} (hp : PathHyp c) (hcf : c.copyFirst = true)
    (h : SInv c s) (hs : step c s t = some (s', ev)) :
    (∀ r, retOf (s'.pc t) = some r →
      ∃ op, opOf (s.pc t) = some op ∧ LPok (look c s) op r (look c s')) ∧
    (retOf (s'.pc t) = none → ∀ k, look c s' k = look c s k) := by
  cases hpc : s.pc t with
  | idle => simp [step, hpc] at hs
  | done r => simp [step, hpc] at hs
  | trav op a lvl =>
    simp only [step, hpc] at hs
    split at hs <;> (simp only [Option.some.injEq, Prod.mk.injEq] at hs; obtain ⟨rfl, -⟩ := hs)
    · exact ⟨by intro r hr; simp [retOf] at hr, fun _ _ => rfl⟩
    · exact ⟨by intro r hr; simp [retOf, hpc] at hr, fun _ _ => rfl⟩
    · exact ⟨by intro r hr; simp [retOf] at hr, fun _ _ => rfl⟩
  | prot1 op a lvl cl =>
    simp only [step, hpc, Option.some.injEq, Prod.mk.injEq] at hs; obtain ⟨rfl, -⟩ := hs
    exact ⟨by intro r hr; simp [retOf] at hr, fun _ _ => rfl⟩
  | prot2 op a lvl cl x =>
    have hpo : posOf (s.pc t) = some (op, a, lvl) := by simp [hpc, posOf]
    simp only [step, hpc] at hs
    split at hs
    · simp only [Option.some.injEq, Prod.mk.injEq] at hs; obtain ⟨rfl, -⟩ := hs
      exact ⟨by intro r hr; simp only [upd_same] at hr; split at hr <;> simp [retOf] at hr, fun _ _ => rfl⟩
    · split at hs
      · simp only [Option.some.injEq, Prod.mk.injEq] at hs; obtain ⟨rfl, -⟩ := hs
        exact ⟨by intro r hr; simp [retOf] at hr, fun _ _ => rfl⟩
      · next h1 h2 =>
        simp only [Option.some.injEq, Prod.mk.injEq] at hs; obtain ⟨rfl, -⟩ := hs
        refine ⟨?_, fun _ _ => rfl⟩
        intro r hr
        simp only [upd_same] at hr
        have hd : decideOp c op a lvl cl = .done r := by
          revert hr; cases decideOp c op a lvl cl <;> simp [retOf]
        have hcl : s.cell a (sl c (okey op) lvl) = cl := by
          apply Classical.byContradiction; intro hne; exact h2 hne
        refine ⟨gopOf op, by simp [opOf, posOf], ?_⟩
        -- the slot value: null or data (otherwise `decideOp` does not finish)
        have hna : ∀ b, s.cell a (sl c (okey op) lvl) ≠ .arr b := by
          intro b hb; rw [hcl] at hb; subst hb; simp [decideOp] at hd
        have hL := look_pos_leaf hp h t op a lvl hpo hna
        rw [hcl] at hL
        have hlp : LPok (look c s) (gopOf op) r (look c s) := by
          refine decideOp_lp hL ?_ hd
          intro n hn hk
          exact not_eos hp h t op a lvl hpo n (by rw [hcl, hn]) hk
        exact hlp
  | casIns op a lvl =>
    have hpo : posOf (s.pc t) = some (op, a, lvl) := by simp [hpc, posOf]
    have hga := h.casI t op a lvl hpc
    simp only [step, hpc] at hs
    split at hs
    · next hnull =>
      simp only [Option.some.injEq, Prod.mk.injEq] at hs; obtain ⟨rfl, -⟩ := hs
      refine ⟨?_, by intro hr; simp [retOf] at hr⟩
      intro r hr
      simp only [upd_same, retOf, Option.some.injEq] at hr; subst hr
      refine ⟨gopOf op, by simp [opOf, posOf], ?_⟩
      have hna : ∀ b, s.cell a (sl c (okey op) lvl) ≠ .arr b := by intro b hb; rw [hnull] at hb; simp at hb
      have hL := look_pos_leaf hp h t op a lvl hpo hna
      rw [hnull] at hL
      have hk : (onode op).key = okey op := by
        have := hga.1
        cases op <;> simp_all [onode, okey, isGA]
      have hL' := look_write hp h t op a lvl hpo (.data (onode op)) (by intro b hb; simp at hb) hna
        (upd s.pc t (.done (insRet op)))
        (by intro j hj; rw [hnull]; simp only [leaf]; rw [if_neg (by rw [hk]; exact fun e => hj e.symm)])
      simp only [leaf] at hL hL'
      cases op with
      | ins n0 =>
        simp only [okey, onode, if_true] at hL hL'
        exact LPok.ins_ok hL hL'
      | upd n0 al =>
        have hal : al ≠ 0 := by intro e; subst e; exact hga.2 n0 rfl
        simp only [okey, onode, if_true] at hL hL'
        exact LPok.upd_new hL hal hL'
      | era k => simp [isGA] at hga
      | fnd k => simp [isGA] at hga
      | con k => simp [isGA] at hga
    · simp only [Option.some.injEq, Prod.mk.injEq] at hs; obtain ⟨rfl, -⟩ := hs
      exact ⟨by intro r hr; simp [retOf] at hr, fun _ _ => rfl⟩
  | casEra op a lvl n =>
    have hpo : posOf (s.pc t) = some (op, a, lvl) := by simp [hpc, posOf]
    obtain ⟨hk, k, hop⟩ := h.casE t op a lvl n hpc
    simp only [step, hpc] at hs
    split at hs
    · next hd =>
      simp only [Option.some.injEq, Prod.mk.injEq] at hs; obtain ⟨rfl, -⟩ := hs
      refine ⟨?_, by intro hr; simp [retOf] at hr⟩
      intro r hr
      simp only [upd_same, retOf, Option.some.injEq] at hr; subst hr
      refine ⟨gopOf op, by simp [opOf, posOf], ?_⟩
      have hna : ∀ b, s.cell a (sl c (okey op) lvl) ≠ .arr b := by intro b hb; rw [hd] at hb; simp at hb
      have hL := look_pos_leaf hp h t op a lvl hpo hna
      rw [hd] at hL
      have hL' := look_write hp h t op a lvl hpo .null (by intro b hb; simp at hb) hna
        (upd s.pc t (.done [1, n.val]))
        (by intro j hj; rw [hd]; simp only [leaf]; rw [if_neg (by rw [hk]; exact fun e => hj e.symm)])
      subst hop
      simp only [leaf, okey, hk, if_true] at hL hL'
      simp only [okey] at hk
      exact LPok.era_ok hL hL'
    · simp only [Option.some.injEq, Prod.mk.injEq] at hs; obtain ⟨rfl, -⟩ := hs
      exact ⟨by intro r hr; simp [retOf] at hr, fun _ _ => rfl⟩
  | casUpd op a lvl n =>
    have hpo : posOf (s.pc t) = some (op, a, lvl) := by simp [hpc, posOf]
    obtain ⟨hk, n0, al, hop⟩ := h.casU t op a lvl n hpc
    simp only [step, hpc] at hs
    split at hs
    · next hd =>
      simp only [Option.some.injEq, Prod.mk.injEq] at hs; obtain ⟨rfl, -⟩ := hs
      refine ⟨?_, by intro hr; simp [retOf] at hr⟩
      intro r hr
      simp only [upd_same, retOf, Option.some.injEq] at hr; subst hr
      refine ⟨gopOf op, by simp [opOf, posOf], ?_⟩
      have hna : ∀ b, s.cell a (sl c (okey op) lvl) ≠ .arr b := by intro b hb; rw [hd] at hb; simp at hb
      have hL := look_pos_leaf hp h t op a lvl hpo hna
      rw [hd] at hL
      subst hop
      have hL' := look_write hp h t (.upd n0 al) a lvl hpo (.data n0) (by intro b hb; simp at hb) hna
        (upd s.pc t (.done [1, 0]))
        (by intro j hj; rw [hd]; simp only [leaf, okey] at hj ⊢
            rw [if_neg (fun e => hj e.symm), if_neg (by rw [hk]; exact fun e => hj e.symm)])
      simp only [leaf, okey, hk, if_true] at hL hL'
      exact LPok.upd_repl hL hL'
    · simp only [Option.some.injEq, Prod.mk.injEq] at hs; obtain ⟨rfl, -⟩ := hs
      exact ⟨by intro r hr; simp [retOf] at hr, fun _ _ => rfl⟩
  | xAlloc op a lvl n =>
    simp only [step, hpc, Option.some.injEq, Prod.mk.injEq] at hs; obtain ⟨rfl, -⟩ := hs
    exact ⟨by intro r hr; simp [retOf] at hr, fun _ _ => rfl⟩
  | xConv op a lvl n b =>
    simp only [step, hpc, hcf, if_true] at hs
    split at hs
    · next hd =>
      simp only [Option.some.injEq, Prod.mk.injEq] at hs; obtain ⟨rfl, -⟩ := hs
      refine ⟨by intro r hr; simp [retOf] at hr, ?_⟩
      intro _ j
      exact look_write_other a _ (.conv n) (by intro b hb; simp at hb) (by intro b hb; rw [hd] at hb; simp at hb) _ j
        (by rw [hd]; rfl)
    · simp only [Option.some.injEq, Prod.mk.injEq] at hs; obtain ⟨rfl, -⟩ := hs
      exact ⟨by intro r hr; simp [retOf] at hr, fun _ _ => rfl⟩
  | xCopy op a lvl n b =>
    have hw := h.own t op a lvl n b (by simp [hpc, ownOf])
    simp only [step, hpc, hcf, if_true, Option.some.injEq, Prod.mk.injEq] at hs; obtain ⟨rfl, -⟩ := hs
    refine ⟨by intro r hr; simp [retOf] at hr, ?_⟩
    intro _ j
    refine go_upd_unreach s.cell j b _ _ ?_ _ 0 (by omega)
    intro a1 i1 hc
    have := h.arrp _ _ _ hc
    rw [← this.1, ← this.2.1] at hc
    exact hw.2.2.2.1 hc
  | xPub op a lvl n b =>
    have hpo := h.pos t op a lvl (by simp [hpc, posOf])
    have hw := h.own t op a lvl n b (by simp [hpc, ownOf])
    have hcv := h.xConvd t a (sl c (okey op) lvl) n (by simp [hpc, cvOf])
    have hl := pos_len hp hpo.2.2.1 hpo.2.2.2
    have hf := h.xFull t op a lvl n b hpc
    simp only [step, hpc, hcf, if_true] at hs
    split at hs
    · simp only [Option.some.injEq, Prod.mk.injEq] at hs; obtain ⟨rfl, -⟩ := hs
      refine ⟨by intro r hr; simp [retOf] at hr, ?_⟩
      intro _ j
      have hsl : sl c n.key (lvl + 1) = (c.path n.key).getD ((s.pre a).length + 1) 0 := by rw [hl]; rfl
      refine go_publish (pre := s.pre) (path := c.path) (depth := c.depth) hp.len
        (fun a i b hc => (h.arrp a i b hc).2.2.1) hcv (by omega) (h.onp a _ n (Or.inr hcv))
        (by rw [hl]; exact hw.2.2.2.2.1) (by rw [← hsl]; exact hf.1) (by rw [← hsl]; exact hf.2) j _ 0 ?_
      rw [h.pre0]; rfl
    · next hne => exact absurd hcv hne

end CdsVerif.Algo.Feldman

HOOK_COMMITS = ["1ff129b", "a99d5e7"]
FIX_COMMITS = ["4e1b160", "0b73798", "872da6d", "b5a5c41", "ada87a3", "a2a8667", "23387d2", "95cd43f", "1d40f2f"]
NOTES = "See DESIGN.md. Every check rebuilds the Lean property module, audits axioms, rebuilds the harness from /repo's working tree (content-hash cache) and runs the ties."
NOT_APPLICABLE = {}
CHECKS = {
 "C09": {
  "category": "translation_validation",
  "technique": "Lean 4: verified linearizability checker (sound+complete theorem) judging histories of the real stacks under a deterministic scheduler",
  "text": "Histories of every stack variant, produced by the real code under seeded random/PCT schedules and exhaustive <=1 (thorough <=2) preemption enumeration, are judged against the Lean LIFO specification by a checker proved sound and complete in Lean. The theorem is about the checker and the specification; the algorithm model (Treiber atomic-step machine) is added on top when finished.",
  "note": "SC interleavings only; memory orders not modelled; explored schedules only for the history tie; Lean kernel + propext/Classical.choice/Quot.sound.",
 },
 "C22": {
  "category": "proof",
  "technique": "Lean 4: inductive invariant over an atomic-step machine of spin_lock (all schedules, threads, locks) + atomic-trace conformance of the real lock against that machine + history tie for all five lock kinds",
  "text": "Mutual exclusion of cds::sync::spin_lock is a Lean theorem over an interleaving machine with one transition per atomic operation, for every schedule, thread count, number of locks and client program obeying the unlock discipline; the machine is tied to the real code by replaying instrumented traces step by step. reentrant_spin_lock, pool_monitor, injecting_monitor and lock_array are decided by histories judged against the Lean lock specification with the verified checker plus occupancy and pool oracles on explored schedules (those clauses are translation validation, named in the evidence).",
  "note": "SC interleavings; memory orders not modelled; discipline (only a holder unlocks) assumed by the theorem and obeyed by the harness; Lean kernel + propext/Classical.choice/Quot.sound.",
 },
 "C25": {
  "category": "proof",
  "technique": "Lean 4 theorems over BitVec about definitions regenerated from the C++ headers on every run (clang AST translator), cross-checked by differential evaluation against the compiled code and a reference semantics",
  "text": "Every bit-reversal implementation, the portable MSB/LSB/popcount/complement helpers and the integer helpers are translated from the headers to Lean on every run; theorems state they equal the mathematical definition for all inputs (BitVec.reverse, log2 bounds, popcount...). The splitters are hand models (number_splitter composed from translated members) with cut/safe_cut specification theorems; all are tied to the compiled code by differential runs that also compare against an independent reference to produce a failing input when something breaks.",
  "note": "Translator and clang AST trusted, cross-checked by differential runs; inline-asm bsr/bsf variants tied to the translated portable model by differential runs only; undefined-behaviour flags (shift >= width) are part of the translation and carried as proof obligations.",
 },
 "C26": {
  "category": "proof",
  "technique": "Lean 4: closed-form characterisation of the bit-reversed counter by induction (all n < 2^63), undo and Dyck theorems, over a hand model whose primitive is translated; differential tie on exhaustive small and random long sequences",
  "text": "The exact sequence of slots is characterised (counter = n, highBit = log2 n, slot = 2^k + rev_k(n-2^k)); slots are pairwise distinct, complete levels are permutations, dec undoes inc exactly, balanced sequences return to the start. The literal 'permutation of 1..n for every n' is false by design (n=5) and is a recorded known finding proved as C26_literal_false.",
  "note": "Hand model of a 30-line class tied by differential runs (exhaustive Dyck prefixes of length 14/18, random walks); no wrap-around at 2^64.",
 },
 "C27": {
  "category": "proof",
  "technique": "Lean 4 theorems over BitVec 64 about split-order functions regenerated from the headers each run, for each of the three reversal implementations; differential tie on the real SplitListSet",
  "text": "regular keys odd, dummies even, parent dummy before child dummy, bucket contiguity and split refinement are theorems about the translated regular_hash/dummy_hash/bucket_no/parent_bucket for all 64-bit hashes and all table sizes 2^0..2^63, with the UB obligations discharged (after the fix: commit). The differential tie calls the real functions (bucket_no through a real SplitListSet object).",
  "note": "Translator trusted and cross-checked; bucket-count logarithm is a parameter (it is an atomic member); rcu/nogc textual copies covered by the fix commit and by reading, not by the translator.",
 },
 "C28": {
  "category": "proof",
  "technique": "Lean 4 theorems about the translated metrics::make and the splitter models (layout exactness, path injectivity, expand-offset agreement); exhaustive differential run over all configurations of the quantifier",
  "text": "Layout exactness is proved for all head/array widths and hash sizes 1,2,4,8 about the Lean definition regenerated from feldman_hashset_base.h; equal hashes follow equal paths, distinct hashes diverge before the bits run out (injectivity of the cut sequence, from the cut specification theorem), the slot expand_slot derives from bit_offset() equals the traverse slot. All 4420 configurations are also run on the real code, and families of prefix-sharing hashes are inserted into a real FeldmanHashSet.",
  "note": "split_bitstring/byte_splitter are hand models tied by differential runs; head width 64 is undefined (known finding with proved witness); widths above 32 with byte-array hashes are outside split_bitstring's unsigned result (proved witness).",
 },
 "C01": {'category': 'translation_validation',
 'note': 'SC interleavings only (threads serialised by a baton at every atomic operation); explored schedules only (seeded random, PCT, exhaustive <=1/<=2 preemptions of small programs); memory '
         'orders not modelled; Lean kernel + propext/Classical.choice/Quot.sound for the checker theorem. std::sort/binary_search/lower_bound modelled by contract; retire discipline (retire after '
         'unlink, once) obeyed by the harness client.',
 'technique': 'Lean 4 theorems about the reclamation decision of a scan pass (pure model tied by differential runs on the real classic_scan/inplace_scan) + disposer-time oracle on the real HP under '
              'a deterministic scheduler',
 'text': "The decision of one scan pass (what is freed given the collected hazards and the retired array, both strategies including the odd-address fallback) is a Lean model with theorems 'nothing "
         "equal to a hazard is freed'; it is tied to the real functions by differential runs. The interleaving-level clause (a guard validated before retirement is seen by every later pass) is "
         'decided on explored schedules of the real code by an oracle evaluated inside the disposer: no guard whose protect() completed may exist for the object. The protocol theorem over all '
         'schedules is work in progress and not claimed.'},
 "C02": {'category': 'translation_validation',
 'note': 'SC interleavings only (threads serialised by a baton at every atomic operation); explored schedules only (seeded random, PCT, exhaustive <=1/<=2 preemptions of small programs); memory '
         'orders not modelled; Lean kernel + propext/Classical.choice/Quot.sound for the checker theorem.',
 'technique': 'disposer-time oracle on the real DHP under a deterministic scheduler (40 guards per thread to force guard-block extension, detach/re-attach) + Lean theorem on the shared scan decision '
              'model',
 'text': "DHP's per-pass decision has the same shape as HP's classic scan (binary search of each retired entry in the sorted hazard copy); the Lean theorem covers that decision. Guard blocks, "
         'retired blocks and record reuse are decided on explored schedules by the disposer-time oracle only.'},
 "C03": {'category': 'translation_validation',
 'note': 'SC interleavings only (threads serialised by a baton at every atomic operation); explored schedules only (seeded random, PCT, exhaustive <=1/<=2 preemptions of small programs); memory '
         'orders not modelled; Lean kernel + propext/Classical.choice/Quot.sound for the checker theorem.',
 'technique': 'Lean 4 theorems (a pass partitions the retired array: kept + freed is a permutation; unprotected => freed) on the scan model tied by differential runs + exactly-once oracles on HP/DHP '
              '(per-object disposer counter, quiet-scan completeness, count after destruction)',
 'text': 'Per pass: nothing lost or duplicated and every unprotected entry freed are Lean theorems about the decision model (both HP strategies). Across passes, help_scan adoption, detach and '
         'destruction are decided on explored schedules by counting disposer calls per object and checking after destruction of the singleton that every retired object was disposed exactly once; '
         'thorough adds an ASan build and the retired-capacity boundary.'},
 "C06": {'category': 'translation_validation',
 'note': 'SC interleavings only (threads serialised by a baton at every atomic operation); explored schedules only (seeded random, PCT, exhaustive <=1/<=2 preemptions of small programs); memory '
         'orders not modelled; Lean kernel + propext/Classical.choice/Quot.sound for the checker theorem.',
 'technique': 'Lean 4: histories of the real containers under a deterministic scheduler judged against the Lean sequential specification by a linearizability checker proved sound and complete in '
              'Lean',
 'text': 'Every queue variant (MSQueue, MoirQueue, BasketQueue, OptimisticQueue, RWQueue, FCQueue; intrusive and container; HP/DHP; item counter, seq-cst) is run. The executable Lean model here is '
         'the sequential specification (Spec.fifo) plus the definition of linearizability; the proved theorem is that the checker decides it exactly, so a history the real code produces is accepted '
         "iff it is linearizable. The containers' algorithms themselves are not yet modelled step by step: the claim is validation of every explored execution of the real code against the model, not "
         'a proof over all schedules. '},
 "C07": {'category': 'translation_validation',
 'note': 'SC interleavings only (threads serialised by a baton at every atomic operation); explored schedules only (seeded random, PCT, exhaustive <=1/<=2 preemptions of small programs); memory '
         'orders not modelled; Lean kernel + propext/Classical.choice/Quot.sound for the checker theorem.',
 'technique': 'Lean 4: histories of the real containers under a deterministic scheduler judged against the Lean sequential specification by a linearizability checker proved sound and complete in '
              'Lean',
 'text': 'Vyukov bounded queue, static/dynamic buffers, capacities 2/4/8, intrusive, single-consumer front/pop_front. The executable Lean model here is the sequential specification (Spec.bfifo with '
         "the object's own capacity()) plus the definition of linearizability; the proved theorem is that the checker decides it exactly, so a history the real code produces is accepted iff it is "
         "linearizable. The containers' algorithms themselves are not yet modelled step by step: the claim is validation of every explored execution of the real code against the model, not a proof "
         'over all schedules. '},
 "C10": {'category': 'translation_validation',
 'note': 'SC interleavings only (threads serialised by a baton at every atomic operation); explored schedules only (seeded random, PCT, exhaustive <=1/<=2 preemptions of small programs); memory '
         'orders not modelled; Lean kernel + propext/Classical.choice/Quot.sound for the checker theorem.',
 'technique': 'Lean 4: histories of the real containers under a deterministic scheduler judged against the Lean sequential specification by a linearizability checker proved sound and complete in '
              'Lean',
 'text': 'FCDeque over std::deque and boost deque, elimination on/off, compact factor 1-2, combine passes 1-4. The executable Lean model here is the sequential specification (Spec.deque) plus the '
         "definition of linearizability; the proved theorem is that the checker decides it exactly, so a history the real code produces is accepted iff it is linearizable. The containers' algorithms "
         'themselves are not yet modelled step by step: the claim is validation of every explored execution of the real code against the model, not a proof over all schedules. '},
 "C11": {'category': 'translation_validation',
 'note': 'SC interleavings only (threads serialised by a baton at every atomic operation); explored schedules only (seeded random, PCT, exhaustive <=1/<=2 preemptions of small programs); memory '
         'orders not modelled; Lean kernel + propext/Classical.choice/Quot.sound for the checker theorem.',
 'technique': 'Lean 4: histories of the real containers under a deterministic scheduler judged against the Lean sequential specification by a linearizability checker proved sound and complete in '
              'Lean',
 'text': 'FCPriorityQueue, and MSPriorityQueue restricted by construction to histories without push/pop overlap (pre-filled pops-only, pushes-only then sequential drain). The executable Lean model '
         'here is the sequential specification (Spec.maxpq (pop returns any item of maximal priority; push fails only when full)) plus the definition of linearizability; the proved theorem is that '
         "the checker decides it exactly, so a history the real code produces is accepted iff it is linearizable. The containers' algorithms themselves are not yet modelled step by step: the claim "
         'is validation of every explored execution of the real code against the model, not a proof over all schedules. '},
 "C13": {'category': 'translation_validation',
 'note': 'SC interleavings only (threads serialised by a baton at every atomic operation); explored schedules only (seeded random, PCT, exhaustive <=1/<=2 preemptions of small programs); memory '
         'orders not modelled; Lean kernel + propext/Classical.choice/Quot.sound for the checker theorem.',
 'technique': 'Lean 4: histories of the real containers under a deterministic scheduler judged against the Lean sequential specification by a linearizability checker proved sound and complete in '
              'Lean',
 'text': '31 list variants (Michael/Lazy/Iterable; set and kv; HP/DHP/RCU gpi,gpb; intrusive; nogc; compare/less; item counter). The executable Lean model here is the sequential specification '
         '(Spec.mapConc (keys strict, functor payloads not atomic with the operation)) plus the definition of linearizability; the proved theorem is that the checker decides it exactly, so a history '
         "the real code produces is accepted iff it is linearizable. The containers' algorithms themselves are not yet modelled step by step: the claim is validation of every explored execution of "
         'the real code against the model, not a proof over all schedules. '},
 "C14": {'category': 'translation_validation',
 'note': 'SC interleavings only (threads serialised by a baton at every atomic operation); explored schedules only (seeded random, PCT, exhaustive <=1/<=2 preemptions of small programs); memory '
         'orders not modelled; Lean kernel + propext/Classical.choice/Quot.sound for the checker theorem.',
 'technique': 'Lean 4: histories of the real containers under a deterministic scheduler judged against the Lean sequential specification by a linearizability checker proved sound and complete in '
              'Lean',
 'text': '53 hash variants (MichaelHashSet/Map over every list, SplitList static/dynamic tables with growth, FeldmanHashSet/Map at minimal widths with shared-prefix hashes; HP/DHP/RCU/nogc). The '
         'executable Lean model here is the sequential specification (Spec.mapConc) plus the definition of linearizability; the proved theorem is that the checker decides it exactly, so a history '
         "the real code produces is accepted iff it is linearizable. The containers' algorithms themselves are not yet modelled step by step: the claim is validation of every explored execution of "
         'the real code against the model, not a proof over all schedules. '},
 "C15": {'category': 'translation_validation',
 'note': 'SC interleavings only (threads serialised by a baton at every atomic operation); explored schedules only (seeded random, PCT, exhaustive <=1/<=2 preemptions of small programs); memory '
         'orders not modelled; Lean kernel + propext/Classical.choice/Quot.sound for the checker theorem.',
 'technique': 'Lean 4: histories of the real containers under a deterministic scheduler judged against the Lean sequential specification by a linearizability checker proved sound and complete in '
              'Lean',
 'text': '27 variants (SkipListSet/Map, EllenBinTree set/map, BronsonAVLTreeMap value/pointer with injecting and pool monitors; HP/DHP/RCU). The executable Lean model here is the sequential '
         'specification (Spec.mapRelaxed) plus the definition of linearizability; the proved theorem is that the checker decides it exactly, so a history the real code produces is accepted iff it is '
         "linearizable. The containers' algorithms themselves are not yet modelled step by step: the claim is validation of every explored execution of the real code against the model, not a proof "
         "over all schedules. extract_min/extract_max: returned key present and empty only if empty are in the specification; 'no key present throughout is smaller/larger' is a real-time oracle over "
         'the history.'},
 "C16": {'category': 'translation_validation',
 'note': 'SC interleavings only (threads serialised by a baton at every atomic operation); explored schedules only (seeded random, PCT, exhaustive <=1/<=2 preemptions of small programs); memory '
         'orders not modelled; Lean kernel + propext/Classical.choice/Quot.sound for the checker theorem.',
 'technique': 'Lean 4: histories of the real containers under a deterministic scheduler judged against the Lean sequential specification by a linearizability checker proved sound and complete in '
              'Lean',
 'text': '23 variants (StripedSet/Map over list/set/flat buckets, striping and refinable policies with forced resizes; CuckooSet/Map striping/refinable, list/vector probe sets, stored hash on/off). '
         'The executable Lean model here is the sequential specification (Spec.mapConc) plus the definition of linearizability; the proved theorem is that the checker decides it exactly, so a '
         "history the real code produces is accepted iff it is linearizable. The containers' algorithms themselves are not yet modelled step by step: the claim is validation of every explored "
         'execution of the real code against the model, not a proof over all schedules. '},
 "C23": {'category': 'translation_validation',
 'note': 'SC interleavings only (threads serialised by a baton at every atomic operation); explored schedules only (seeded random, PCT, exhaustive <=1/<=2 preemptions of small programs); memory '
         "orders not modelled; Lean kernel + propext/Classical.choice/Quot.sound for the checker theorem. wait strategy backoff only; boost TSS replaced by an explicit reset of the kernel's thread "
         'record under the scheduler.',
 'technique': 'histories of every flat-combining container (exactly-once and response-after-execution show as linearizability of the container) + reclamation oracle (quarantining allocator checks at '
              'free time that the publication record is unreachable) under a deterministic scheduler with thread exit as a scheduling point',
 'text': "No kernel model yet: a request executed twice, never, or answered before execution breaks the container's history and is caught by the verified checker; mutual exclusion of combiners "
         'likewise. Reclamation of publication records is judged by an allocator that keeps freed records readable and checks reachability from the publication list at the moment of free. This check '
         'found the compact_list defect (fixed).'},
}

/-
Helper definitions and lemmas for the bit-string splitters (property C25, splitters part)
and for FeldmanHashSet addressing (property C28).

Everything here is about the hand models of `CdsVerif.Algo.Splitter.Model`
(`BS`, `NS`) and about the generated `CdsVerif.Gen.Feldman.metrics_make`.
All statements are universally quantified theorems; nothing is checked by sampling.
-/
import CdsVerif.Algo.Splitter.Model
import CdsVerif.Gen.Feldman

namespace CdsVerif.Algo.Splitter

/-! ## Vocabulary -/

/-- the `n`-bit field of `src` that starts at bit `pos` -/
def bitsAt (src pos n : Nat) : Nat := (src / 2 ^ pos) % 2 ^ n

/-- well-formed splitter state: `offset_ < 8`, the source consists of bytes, and the cursor is
    inside the source, or exactly at its end with `offset_ = 0` -/
def BS.WF (s : BS) : Prop :=
  s.off < 8 ∧ (∀ b ∈ s.bytes, b < 256) ∧
    (s.cur < s.bytes.length ∨ (s.cur = s.bytes.length ∧ s.off = 0))

instance (s : BS) : Decidable s.WF := by unfold BS.WF; infer_instance

/-- number of bits of the source -/
def BS.total (s : BS) : Nat := 8 * s.bytes.length

/-- the source as a (little-endian) number -/
def BS.src (s : BS) : Nat := leValue s.bytes

/-- run `cut` successively with the widths `ws`; returns (results, final state, ub) -/
def runCuts (w : Nat) : BS → List Nat → List Nat × BS × Bool
  | s, [] => ([], s, false)
  | s, c :: cs =>
    let r := s.cut w c
    let q := runCuts w r.2.1 cs
    (r.1 :: q.1, q.2.1, r.2.2 || q.2.2)

/-- the same for `byte_splitter::cut` -/
def runByteCuts (w : Nat) : BS → List Nat → List Nat × BS × Bool
  | s, [] => ([], s, false)
  | s, c :: cs =>
    let r := s.byteCut w c
    let q := runByteCuts w r.2.1 cs
    (r.1 :: q.1, q.2.1, r.2.2 || q.2.2)

/-- the same for `number_splitter<uint64_t>::cut`; results are reported as naturals -/
def runCutsNS : NS → List Nat → List Nat × NS × Bool
  | s, [] => ([], s, false)
  | s, c :: cs =>
    let r := s.cut (BitVec.ofNat 32 c)
    let q := runCutsNS r.2.1 cs
    (r.1.toNat :: q.1, q.2.1, r.2.2 || q.2.2)

/-- `Σ_i rs[i] * 2^(acc + ws[0] + … + ws[i-1])` -/
def fieldSumFrom : Nat → List Nat → List Nat → Nat
  | acc, w :: ws, r :: rs => r * 2 ^ acc + fieldSumFrom (acc + w) ws rs
  | _, _, _ => 0

/-- `Σ_i rs[i] * 2^(ws[0] + … + ws[i-1])`: the fields `rs` of widths `ws` laid side by side -/
def fieldSum (ws rs : List Nat) : Nat := fieldSumFrom 0 ws rs

/-- Horner form of `fieldSum` (used in the proofs) -/
def assemble : List Nat → List Nat → Nat
  | w :: ws, r :: rs => r + 2 ^ w * assemble ws rs
  | _, _ => 0

/-- the cuts `traverse` makes below the head node: `cut arrW` until `eos()` -/
def cutsUntilEos (w arrW : Nat) : Nat → BS → List Nat
  | 0, _ => []
  | fuel + 1, s =>
    if s.eos then [] else
      let r := s.cut w arrW
      r.1 :: cutsUntilEos w arrW fuel r.2.1

/-- The slot indices FeldmanHashSet computes for a hash: `traverse_data::reset` does
    `splitter.reset(); cut(head_node_size_log)`, then `traverse` does `cut(array_node_size_log)`
    per level.  (`uint_type = unsigned`, so `w = 32`.)  The fuel `8 * length` is never exhausted for `arrW ≥ 1`. -/
def pathOf (headW arrW : Nat) (s : BS) : List Nat :=
  let r := s.reset.cut 32 headW
  r.1 :: cutsUntilEos 32 arrW (8 * s.bytes.length) r.2.1

def cutsUntilEosNS (arrW : Nat) : Nat → NS → List Nat
  | 0, _ => []
  | fuel + 1, s =>
    if s.eos then [] else
      let r := s.cut (BitVec.ofNat 32 arrW)
      r.1.toNat :: cutsUntilEosNS arrW fuel r.2.1

/-- the same path for `number_splitter<uint64_t>` (the splitter `select_splitter` picks for integral hashes) -/
def pathOfNS (headW arrW : Nat) (s : NS) : List Nat :=
  let r := ({ s with shift := 0 } : NS).cut (BitVec.ofNat 32 headW)
  r.1.toNat :: cutsUntilEosNS arrW 64 r.2.1

/-! ## `bitsAt` and `leValue` arithmetic -/

theorem bitsAt_zero_width (x p : Nat) : bitsAt x p 0 = 0 := by
  simp [bitsAt, Nat.mod_one]

theorem bitsAt_lt (x p n : Nat) : bitsAt x p n < 2 ^ n :=
  Nat.mod_lt _ (Nat.two_pow_pos n)

theorem bitsAt_add (x p d b : Nat) :
    bitsAt x p (d + b) = bitsAt x p d + 2 ^ d * bitsAt x (p + d) b := by
  unfold bitsAt
  rw [Nat.pow_add 2 d b, Nat.mod_mul, Nat.pow_add 2 p d, ← Nat.div_div_eq_div_mul]

theorem bitsAt_zero_pos_of_lt {x n : Nat} (h : x < 2 ^ n) : bitsAt x 0 n = x := by
  simp [bitsAt, Nat.mod_eq_of_lt h]

theorem leValue_lt : ∀ (bs : List Nat), (∀ b ∈ bs, b < 256) → leValue bs < 2 ^ (8 * bs.length)
  | [], _ => by simp [leValue]
  | b :: bs, h => by
    have h1 : b < 256 := h b (by simp)
    have h2 := leValue_lt bs (fun x hx => h x (by simp [hx]))
    have : 2 ^ (8 * (b :: bs).length) = 256 * 2 ^ (8 * bs.length) := by
      rw [List.length_cons, Nat.mul_add, Nat.pow_add]; simp [Nat.mul_comm]
    rw [this]; simp only [leValue]; omega

theorem leValue_div : ∀ (k : Nat) (bs : List Nat), (∀ b ∈ bs, b < 256) →
    leValue bs / 2 ^ (k * 8) = leValue (bs.drop k)
  | 0, bs, _ => by simp
  | k + 1, [], _ => by simp [leValue]
  | k + 1, b :: bs, h => by
    have h1 : b < 256 := h b (by simp)
    have ih := leValue_div k bs (fun x hx => h x (by simp [hx]))
    have : 2 ^ ((k + 1) * 8) = 256 * 2 ^ (k * 8) := by
      rw [Nat.add_mul, Nat.pow_add]; simp [Nat.mul_comm]
    rw [this, ← Nat.div_div_eq_div_mul]
    simp only [leValue, List.drop_succ_cons]
    rw [show (b + 256 * leValue bs) / 256 = leValue bs by omega, ih]

/-- a field that lies inside one byte can be read from that byte -/
theorem byte_bitsAt (bs : List Nat) (hb : ∀ b ∈ bs, b < 256) (cur off n : Nat)
    (hcur : cur < bs.length) (hn : off + n ≤ 8) :
    (bs.getD cur 0 / 2 ^ off) % 2 ^ n = bitsAt (leValue bs) (off + cur * 8) n := by
  unfold bitsAt
  rw [Nat.add_comm off, Nat.pow_add, ← Nat.div_div_eq_div_mul, leValue_div cur bs hb,
    List.drop_eq_getElem_cons hcur]
  have hget : bs.getD cur 0 = bs[cur] := by simp [List.getD_eq_getElem?_getD, hcur]
  rw [hget]
  simp only [leValue]
  generalize leValue (List.drop (cur + 1) bs) = r
  generalize bs[cur] = b
  rw [← Nat.mod_mul_right_div_self, ← Nat.mod_mul_right_div_self, ← Nat.pow_add]
  have h256 : 256 = 2 ^ (off + n) * 2 ^ (8 - (off + n)) := by
    rw [← Nat.pow_add, show off + n + (8 - (off + n)) = 8 by omega]
  have : (b + 256 * r) % 2 ^ (off + n) = b % 2 ^ (off + n) := by
    rw [h256, Nat.mul_assoc, Nat.add_mul_mod_self_left]
  rw [this]

theorem or_shift_eq_add {a d : Nat} (h : a < 2 ^ d) (b : Nat) : a ||| b * 2 ^ d = a + b * 2 ^ d := by
  rw [Nat.or_comm, Nat.add_comm, ← Nat.shiftLeft_eq, Nat.shiftLeft_add_eq_or_of_lt h]

/-! ## `split_bitstring::cut` -/

/-- one loop iteration of `split_bitstring::cut` under the loop invariant -/
theorem cutIter_spec (w count : Nat) (hcw : count ≤ w) (pos0 done : Nat) (s : BS) (hwf : s.WF)
    (hend : pos0 + count ≤ 8 * s.bytes.length) (hdone : done < count)
    (hpos : s.bitOffset = pos0 + done) :
    ∃ bits s', 1 ≤ bits ∧ done + bits ≤ count ∧
      cutIter w count (bitsAt (leValue s.bytes) pos0 done) done s false
        = (bitsAt (leValue s.bytes) pos0 (done + bits), done + bits, s', false) ∧
      s'.WF ∧ s'.bytes = s.bytes ∧ s'.bitOffset = pos0 + (done + bits) := by
  obtain ⟨hoff, hb, hcur⟩ := hwf
  have hcur' : s.cur < s.bytes.length := by unfold BS.bitOffset at hpos; omega
  generalize hbits : (if count - done > 8 - s.off then 8 - s.off else count - done) = bits
  have hb1 : 1 ≤ bits := by subst hbits; split <;> omega
  have hb2 : done + bits ≤ count := by subst hbits; split <;> omega
  have hb3 : s.off + bits ≤ 8 := by subst hbits; split <;> omega
  have hpiece := byte_bitsAt s.bytes hb s.cur s.off bits hcur' hb3
  have hposeq : s.off + s.cur * 8 = pos0 + done := hpos
  rw [hposeq] at hpiece
  have hlt : bitsAt (leValue s.bytes) (pos0 + done) bits * 2 ^ done < 2 ^ w := by
    have h1 := bitsAt_lt (leValue s.bytes) (pos0 + done) bits
    calc _ < 2 ^ bits * 2 ^ done := Nat.mul_lt_mul_of_pos_right h1 (Nat.two_pow_pos _)
      _ = 2 ^ (bits + done) := (Nat.pow_add ..).symm
      _ ≤ 2 ^ w := Nat.pow_le_pow_right (by omega) (by omega)
  refine ⟨bits, if s.off + bits = 8 then { s with off := 0, cur := s.cur + 1 } else { s with off := s.off + bits },
    hb1, hb2, ?_, ?_⟩
  · simp only [cutIter, hbits, hpiece]
    rw [Nat.mod_eq_of_lt (show done < w by omega), Nat.mod_eq_of_lt hlt,
      or_shift_eq_add (bitsAt_lt ..), bitsAt_add, Nat.mul_comm]
    simp [show ¬ (s.bytes.length ≤ s.cur) by omega, show ¬ (w ≤ done) by omega]
  · split
    · refine ⟨⟨by simp, hb, ?_⟩, rfl, ?_⟩
      · have h1 : s.cur + 1 ≤ s.bytes.length := by omega
        rcases Nat.lt_or_eq_of_le h1 with h | h
        · exact Or.inl h
        · exact Or.inr ⟨h, rfl⟩
      · simp only [BS.bitOffset]; omega
    · refine ⟨⟨by simp only; omega, hb, Or.inl hcur'⟩, rfl, ?_⟩
      simp only [BS.bitOffset]; omega

/-- the loop of `split_bitstring::cut` -/
theorem cutLoop_spec (w count : Nat) (hcw : count ≤ w) (pos0 : Nat) :
    ∀ (fuel done : Nat) (s : BS), s.WF → pos0 + count ≤ 8 * s.bytes.length → done ≤ count →
      s.bitOffset = pos0 + done → count - done ≤ fuel →
      let r := cutLoop w count fuel (bitsAt (leValue s.bytes) pos0 done) done s false
      r.1 = bitsAt (leValue s.bytes) pos0 count ∧ r.2.1.WF ∧ r.2.1.bytes = s.bytes ∧
        r.2.1.bitOffset = pos0 + count ∧ r.2.2 = false := by
  intro fuel
  induction fuel with
  | zero =>
    intro done s hwf hend hd hpos hf
    have : done = count := by omega
    subst this
    exact ⟨rfl, hwf, rfl, hpos, rfl⟩
  | succ fuel ih =>
    intro done s hwf hend hd hpos hf
    by_cases hlt : done < count
    · obtain ⟨bits, s', hb1, hb2, hiter, hwf', hbytes', hpos'⟩ :=
        cutIter_spec w count hcw pos0 done s hwf hend hlt hpos
      simp only [cutLoop, hlt, if_true, hiter]
      have := ih (done + bits) s' hwf' (by rw [hbytes']; exact hend) hb2 hpos' (by omega)
      rw [hbytes'] at this
      exact this
    · have : done = count := by omega
      subst this
      simp only [cutLoop, Nat.lt_irrefl, if_false]
      exact ⟨trivial, hwf, trivial, hpos, trivial⟩

/-- `split_bitstring::cut`: foundation lemma -/
theorem BS.cut_spec (w : Nat) (s : BS) (count : Nat) (hwf : s.WF) (hcw : count ≤ w)
    (hend : s.bitOffset + count ≤ s.total) :
    (s.cut w count).2.2 = false ∧
    (s.cut w count).1 = bitsAt s.src s.bitOffset count ∧
    (s.cut w count).2.1.bitOffset = s.bitOffset + count ∧
    (s.cut w count).2.1.WF ∧
    (s.cut w count).2.1.bytes = s.bytes := by
  have := cutLoop_spec w count hcw s.bitOffset count 0 s hwf hend (Nat.zero_le _) rfl (by omega)
  rw [bitsAt_zero_width] at this
  obtain ⟨h1, h2, h3, h4, h5⟩ := this
  exact ⟨h5, h1, h4, h2, h3⟩

theorem BS.WF.eos_iff {s : BS} (h : s.WF) : s.eos = true ↔ s.bitOffset = s.total := by
  obtain ⟨h1, _, h3⟩ := h
  simp only [BS.eos, BS.bitOffset, BS.total, decide_eq_true_eq]
  omega

theorem BS.WF.bitOffset_le {s : BS} (h : s.WF) : s.bitOffset ≤ s.total := by
  obtain ⟨h1, _, h3⟩ := h
  simp only [BS.bitOffset, BS.total]
  omega

/-- `split_bitstring::safe_cut` -/
theorem BS.safeCut_spec (w : Nat) (s : BS) (count : Nat) (hwf : s.WF) (hcw : count ≤ w)
    (htot : s.total < 2 ^ 32) :
    (s.safeCut w count).2.2 = false ∧
    (s.safeCut w count).1 = bitsAt s.src s.bitOffset (min count (s.total - s.bitOffset)) ∧
    (s.safeCut w count).2.1.bitOffset = s.bitOffset + min count (s.total - s.bitOffset) ∧
    (s.safeCut w count).2.1.bitOffset ≤ s.total ∧
    (s.safeCut w count).2.1.WF ∧
    (s.safeCut w count).2.1.bytes = s.bytes := by
  have hle := hwf.bitOffset_le
  unfold BS.safeCut
  by_cases heos : s.eos = true
  · have hp := hwf.eos_iff.mp heos
    have hn : min count (s.total - s.bitOffset) = 0 := by omega
    simp only [heos, if_true, hn, bitsAt_zero_width]
    exact ⟨trivial, trivial, rfl, hle, hwf, trivial⟩
  · have hcur : s.cur < s.bytes.length := by simpa [BS.eos] using heos
    have hoff := hwf.1
    have hrest : ((s.bytes.length - s.cur - 1) * 8 + (8 - s.off)) % 2 ^ 32 = s.total - s.bitOffset := by
      have : (s.bytes.length - s.cur - 1) * 8 + (8 - s.off) = s.total - s.bitOffset := by
        simp only [BS.total, BS.bitOffset]; omega
      rw [this]; exact Nat.mod_eq_of_lt (by omega)
    have hmin : (if s.total - s.bitOffset < count then s.total - s.bitOffset else count)
        = min count (s.total - s.bitOffset) := by split <;> omega
    simp only [heos, hrest, hmin]
    generalize hn : min count (s.total - s.bitOffset) = n
    by_cases hn0 : n = 0
    · subst hn0
      simp only [bitsAt_zero_width]
      exact ⟨rfl, rfl, rfl, hle, hwf, rfl⟩
    · have hc := BS.cut_spec w s n hwf (by omega) (by omega)
      simp only [hn0, ne_eq, not_false_eq_true, if_true, Bool.false_eq_true, if_false]
      obtain ⟨h1, h2, h3, h4, h5⟩ := hc
      exact ⟨h1, h2, h3, by omega, h4, h5⟩

/-! ## Reconstruction -/

theorem fieldSumFrom_eq (acc : Nat) : ∀ (ws rs : List Nat),
    fieldSumFrom acc ws rs = 2 ^ acc * assemble ws rs
  | [], _ => by simp [fieldSumFrom, assemble]
  | _ :: _, [] => by simp [fieldSumFrom, assemble]
  | w :: ws, r :: rs => by
    simp only [fieldSumFrom, assemble]
    rw [fieldSumFrom_eq (acc + w) ws rs, Nat.pow_add, Nat.mul_add, Nat.mul_assoc, Nat.mul_comm r]
termination_by ws => ws.length

theorem fieldSum_eq_assemble (ws rs : List Nat) : fieldSum ws rs = assemble ws rs := by
  simp [fieldSum, fieldSumFrom_eq]

theorem runCuts_spec (w : Nat) : ∀ (ws : List Nat) (s : BS), s.WF → (∀ c ∈ ws, c ≤ w) →
    s.bitOffset + ws.sum ≤ s.total →
    (runCuts w s ws).2.2 = false ∧ (runCuts w s ws).1.length = ws.length ∧
    fieldSum ws (runCuts w s ws).1 = bitsAt s.src s.bitOffset ws.sum ∧
    (runCuts w s ws).2.1.bitOffset = s.bitOffset + ws.sum ∧
    (runCuts w s ws).2.1.WF ∧ (runCuts w s ws).2.1.bytes = s.bytes
  | [], s, hwf, _, _ => by
    simp [runCuts, fieldSum, fieldSumFrom, bitsAt_zero_width, hwf]
  | c :: cs, s, hwf, hws, hend => by
    simp only [List.sum_cons] at hend ⊢
    obtain ⟨h1, h2, h3, h4, h5⟩ := BS.cut_spec w s c hwf (hws c (by simp)) (by omega)
    have hsrc : (s.cut w c).2.1.src = s.src := by simp only [BS.src, h5]
    have htot : (s.cut w c).2.1.total = s.total := by simp only [BS.total, h5]
    obtain ⟨i1, i2, i3, i4, i5, i6⟩ := runCuts_spec w cs (s.cut w c).2.1 h4
      (fun x hx => hws x (by simp [hx])) (by rw [h3, htot]; omega)
    rw [fieldSum_eq_assemble] at i3
    simp only [runCuts, fieldSum_eq_assemble, assemble, List.length_cons]
    rw [h1, i1, i2, i3, h2, i4, h3, hsrc, bitsAt_add, i6, h5]
    exact ⟨rfl, rfl, rfl, by omega, i5, rfl⟩

theorem leValue_inj : ∀ (a b : List Nat), a.length = b.length → (∀ x ∈ a, x < 256) →
    (∀ x ∈ b, x < 256) → leValue a = leValue b → a = b
  | [], [], _, _, _, _ => rfl
  | [], _ :: _, h, _, _, _ => by simp at h
  | _ :: _, [], h, _, _, _ => by simp at h
  | x :: a, y :: b, hl, ha, hb, h => by
    have hx : x < 256 := ha x (by simp)
    have hy : y < 256 := hb y (by simp)
    simp only [leValue] at h
    have h1 : x = y := by omega
    have h2 : leValue a = leValue b := by omega
    rw [h1, leValue_inj a b (by simpa using hl) (fun z hz => ha z (by simp [hz]))
      (fun z hz => hb z (by simp [hz])) h2]

theorem BS.reset_WF {s : BS} (hb : ∀ b ∈ s.bytes, b < 256) : s.reset.WF := by
  refine ⟨by simp [BS.reset], hb, ?_⟩
  show 0 < s.bytes.length ∨ (0 = s.bytes.length ∧ 0 = 0)
  omega

/-- cutting the whole source into fields reconstructs it -/
theorem runCuts_reconstruct (w : Nat) (ws : List Nat) (s : BS) (hwf : s.WF) (hpos : s.bitOffset = 0)
    (hws : ∀ c ∈ ws, c ≤ w) (hsum : ws.sum = s.total) :
    (runCuts w s ws).2.2 = false ∧ (runCuts w s ws).1.length = ws.length ∧
    fieldSum ws (runCuts w s ws).1 = s.src := by
  obtain ⟨h1, h2, h3, _⟩ := runCuts_spec w ws s hwf hws (by omega)
  refine ⟨h1, h2, ?_⟩
  rw [h3, hpos, hsum]
  exact bitsAt_zero_pos_of_lt (leValue_lt s.bytes hwf.2.1)

/-! ## The Feldman path as a list of fields -/

theorem BS.WF.not_eos {s : BS} (h : s.WF) (hlt : s.bitOffset < s.total) : s.eos = false := by
  cases he : s.eos with
  | false => rfl
  | true => have := h.eos_iff.mp he; omega

theorem cutsUntilEos_eq (w arrW : Nat) (harr : 1 ≤ arrW) (hw : arrW ≤ w) :
    ∀ (k fuel : Nat) (s : BS), s.WF → s.bitOffset + k * arrW = s.total → k ≤ fuel →
      cutsUntilEos w arrW fuel s = (runCuts w s (List.replicate k arrW)).1 := by
  intro k
  induction k with
  | zero =>
    intro fuel s hwf hpos _
    have heos : s.eos = true := hwf.eos_iff.mpr (by omega)
    cases fuel <;> simp [cutsUntilEos, heos, runCuts]
  | succ k ih =>
    intro fuel s hwf hpos hf
    obtain ⟨fuel, rfl⟩ : ∃ f, fuel = f + 1 := ⟨fuel - 1, by omega⟩
    have hmul : (k + 1) * arrW = k * arrW + arrW := Nat.succ_mul k arrW
    have heos : s.eos = false := hwf.not_eos (by omega)
    obtain ⟨_, _, h3, h4, h5⟩ := BS.cut_spec w s arrW hwf hw (by omega)
    have htot : (s.cut w arrW).2.1.total = s.total := by simp only [BS.total, h5]
    simp only [cutsUntilEos, heos, List.replicate_succ, runCuts, Bool.false_eq_true, if_false]
    rw [ih fuel (s.cut w arrW).2.1 h4 (by rw [h3, htot]; omega) (by omega)]

theorem sum_replicate (k a : Nat) : (List.replicate k a).sum = k * a := by
  induction k with
  | zero => simp
  | succ k ih => simp [List.replicate_succ, ih, Nat.succ_mul, Nat.add_comm]

/-- the path is the list of fields of widths `headW, arrW, …, arrW` -/
theorem pathOf_eq_runCuts (headW arrW m : Nat) (s : BS) (hb : ∀ b ∈ s.bytes, b < 256)
    (hh : headW ≤ 32) (ha1 : 1 ≤ arrW) (ha : arrW ≤ 32) (hsum : headW + m * arrW = 8 * s.bytes.length) :
    pathOf headW arrW s = (runCuts 32 s.reset (headW :: List.replicate m arrW)).1 := by
  have hwf := BS.reset_WF hb
  have hp0 : s.reset.bitOffset = 0 := rfl
  have ht0 : s.reset.total = 8 * s.bytes.length := rfl
  obtain ⟨_, _, h3, h4, h5⟩ := BS.cut_spec 32 s.reset headW hwf hh (by omega)
  have htot : (s.reset.cut 32 headW).2.1.total = s.reset.total := by simp only [BS.total, h5]
  have hm : m ≤ m * arrW := Nat.le_mul_of_pos_right m ha1
  simp only [pathOf, runCuts]
  rw [cutsUntilEos_eq 32 arrW ha1 ha m (8 * s.bytes.length) _ h4 (by rw [h3, htot]; omega) (by omega)]

/-! ## `byte_splitter` -/

theorem byte_eq_bitsAt (bs : List Nat) (hb : ∀ b ∈ bs, b < 256) (cur : Nat) (hcur : cur < bs.length) :
    bs.getD cur 0 = bitsAt (leValue bs) (cur * 8) 8 := by
  have h := byte_bitsAt bs hb cur 0 8 hcur (by omega)
  have hlt : bs.getD cur 0 < 256 := by
    rw [List.getD_eq_getElem?_getD, List.getElem?_eq_getElem hcur]
    exact hb _ (List.getElem_mem hcur)
  rw [Nat.zero_add] at h
  rw [← h]
  simp only [Nat.pow_zero, Nat.div_one, Nat.reducePow]
  exact (Nat.mod_eq_of_lt hlt).symm

/-- the loop of `byte_splitter::cut` -/
theorem byteCutLoop_spec (w k : Nat) (hkw : 8 * k ≤ w) (cur0 : Nat) :
    ∀ (fuel j : Nat) (s : BS), (∀ b ∈ s.bytes, b < 256) → cur0 + k ≤ s.bytes.length → j ≤ k →
      s.cur = cur0 + j → k - j ≤ fuel →
      let r := byteCutLoop w (8 * k) fuel (bitsAt (leValue s.bytes) (cur0 * 8) (8 * j)) (8 * j) s false
      r.1 = bitsAt (leValue s.bytes) (cur0 * 8) (8 * k) ∧ r.2.1 = { s with cur := cur0 + k } ∧
        r.2.2 = false := by
  intro fuel
  induction fuel with
  | zero =>
    intro j s _ _ hj hcur hf
    have : j = k := by omega
    subst this
    refine ⟨rfl, ?_, rfl⟩
    show s = _
    cases s; simp_all
  | succ fuel ih =>
    intro j s hb hend hj hcur hf
    by_cases hlt : j < k
    · have hlt' : 8 * j < 8 * k := by omega
      have hcl : s.cur < s.bytes.length := by omega
      have hbyte := byte_eq_bitsAt s.bytes hb s.cur hcl
      have hpos : s.cur * 8 = cur0 * 8 + 8 * j := by omega
      rw [hpos] at hbyte
      have hlt2 : bitsAt (leValue s.bytes) (cur0 * 8 + 8 * j) 8 * 2 ^ (8 * j) < 2 ^ w := by
        have h1 := bitsAt_lt (leValue s.bytes) (cur0 * 8 + 8 * j) 8
        calc _ < 2 ^ 8 * 2 ^ (8 * j) := Nat.mul_lt_mul_of_pos_right h1 (Nat.two_pow_pos _)
          _ = 2 ^ (8 + 8 * j) := (Nat.pow_add ..).symm
          _ ≤ 2 ^ w := Nat.pow_le_pow_right (by omega) (by omega)
      simp only [byteCutLoop, hlt', if_true, hbyte]
      rw [Nat.mod_eq_of_lt (show 8 * j < w by omega), Nat.mod_eq_of_lt hlt2,
        or_shift_eq_add (bitsAt_lt ..), Nat.mul_comm _ (2 ^ (8 * j)), ← bitsAt_add,
        show 8 * j + 8 = 8 * (j + 1) by omega]
      have hub : (false || decide (s.bytes.length ≤ s.cur) || decide (w ≤ 8 * j)) = false := by
        simp; omega
      simp only [ge_iff_le, hub]
      have := ih (j + 1) { s with cur := s.cur + 1 } hb hend (by omega) (by simp only; omega) (by omega)
      simp only at this
      obtain ⟨h1, h2, h3⟩ := this
      exact ⟨h1, h2, h3⟩
    · have : j = k := by omega
      subst this
      simp only [byteCutLoop, Nat.lt_irrefl, if_false]
      exact ⟨trivial, by cases s; simp_all, trivial⟩

/-- `byte_splitter::cut` -/
theorem BS.byteCut_spec (w : Nat) (s : BS) (count : Nat) (hwf : s.WF) (hoff : s.off = 0)
    (h8 : count % 8 = 0) (hcw : count ≤ w) (hend : s.bitOffset + count ≤ s.total) :
    (s.byteCut w count).2.2 = false ∧
    (s.byteCut w count).1 = bitsAt s.src s.bitOffset count ∧
    (s.byteCut w count).2.1.bitOffset = s.bitOffset + count ∧
    (s.byteCut w count).2.1.WF ∧ (s.byteCut w count).2.1.off = 0 ∧
    (s.byteCut w count).2.1.bytes = s.bytes := by
  obtain ⟨k, rfl⟩ : ∃ k, count = 8 * k := ⟨count / 8, by omega⟩
  simp only [BS.bitOffset, BS.total, hoff, Nat.zero_add] at hend ⊢
  have := byteCutLoop_spec w k hcw s.cur (8 * k / 8 + 1) 0 s hwf.2.1 (by omega) (by omega) rfl (by omega)
  simp only [Nat.mul_zero, bitsAt_zero_width] at this
  obtain ⟨h1, h2, h3⟩ := this
  unfold BS.byteCut
  rw [h3, h1, h2]
  refine ⟨rfl, rfl, by simp only [hoff]; omega, ⟨by simp only [hoff]; omega, hwf.2.1, ?_⟩, hoff, rfl⟩
  simp only [hoff]
  have : s.cur + k ≤ s.bytes.length := by omega
  rcases Nat.lt_or_eq_of_le this with h | h
  · exact Or.inl h
  · exact Or.inr ⟨h, trivial⟩

/-- `byte_splitter::safe_cut` -/
theorem BS.byteSafeCut_spec (w : Nat) (s : BS) (count : Nat) (hwf : s.WF) (hoff : s.off = 0)
    (h8 : count % 8 = 0) (hcw : count ≤ w) (htot : s.total < 2 ^ 32) :
    (s.byteSafeCut w count).2.2 = false ∧
    (s.byteSafeCut w count).1 = bitsAt s.src s.bitOffset (min count (s.total - s.bitOffset)) ∧
    (s.byteSafeCut w count).2.1.bitOffset = s.bitOffset + min count (s.total - s.bitOffset) ∧
    (s.byteSafeCut w count).2.1.bitOffset ≤ s.total ∧
    (s.byteSafeCut w count).2.1.WF ∧ (s.byteSafeCut w count).2.1.off = 0 ∧
    (s.byteSafeCut w count).2.1.bytes = s.bytes := by
  have hle := hwf.bitOffset_le
  unfold BS.byteSafeCut
  by_cases heos : s.eos = true
  · have hp := hwf.eos_iff.mp heos
    have hn : min count (s.total - s.bitOffset) = 0 := by omega
    simp only [heos, if_true, hn, bitsAt_zero_width]
    exact ⟨trivial, trivial, rfl, hle, hwf, hoff, trivial⟩
  · have hcur : s.cur < s.bytes.length := by simpa [BS.eos] using heos
    have hrest : ((s.bytes.length - s.cur) * 8) % 2 ^ 32 = s.total - s.bitOffset := by
      have : (s.bytes.length - s.cur) * 8 = s.total - s.bitOffset := by
        simp only [BS.total, BS.bitOffset, hoff]; omega
      rw [this]; exact Nat.mod_eq_of_lt (by omega)
    have hmin : (if s.total - s.bitOffset < count then s.total - s.bitOffset else count)
        = min count (s.total - s.bitOffset) := by split <;> omega
    simp only [heos, hrest, hmin]
    have hn8 : min count (s.total - s.bitOffset) % 8 = 0 := by
      simp only [BS.total, BS.bitOffset, hoff]; omega
    generalize hn : min count (s.total - s.bitOffset) = n at hn8
    by_cases hn0 : n = 0
    · subst hn0
      simp only [bitsAt_zero_width]
      exact ⟨rfl, rfl, rfl, hle, hwf, hoff, rfl⟩
    · have hc := BS.byteCut_spec w s n hwf hoff hn8 (by omega) (by omega)
      simp only [hn0, ne_eq, not_false_eq_true, if_true, Bool.false_eq_true, if_false]
      obtain ⟨h1, h2, h3, h4, h5, h6⟩ := hc
      exact ⟨h1, h2, h3, by omega, h4, h5, h6⟩

theorem runByteCuts_spec (w : Nat) : ∀ (ws : List Nat) (s : BS), s.WF → s.off = 0 →
    (∀ c ∈ ws, c % 8 = 0 ∧ c ≤ w) → s.bitOffset + ws.sum ≤ s.total →
    (runByteCuts w s ws).2.2 = false ∧ (runByteCuts w s ws).1.length = ws.length ∧
    fieldSum ws (runByteCuts w s ws).1 = bitsAt s.src s.bitOffset ws.sum ∧
    (runByteCuts w s ws).2.1.bitOffset = s.bitOffset + ws.sum ∧
    (runByteCuts w s ws).2.1.WF ∧ (runByteCuts w s ws).2.1.bytes = s.bytes
  | [], s, hwf, _, _, _ => by
    simp [runByteCuts, fieldSum, fieldSumFrom, bitsAt_zero_width, hwf]
  | c :: cs, s, hwf, hoff, hws, hend => by
    simp only [List.sum_cons] at hend ⊢
    have hc := hws c (by simp)
    obtain ⟨h1, h2, h3, h4, h4', h5⟩ := BS.byteCut_spec w s c hwf hoff hc.1 hc.2 (by omega)
    have hsrc : (s.byteCut w c).2.1.src = s.src := by simp only [BS.src, h5]
    have htot : (s.byteCut w c).2.1.total = s.total := by simp only [BS.total, h5]
    obtain ⟨i1, i2, i3, i4, i5, i6⟩ := runByteCuts_spec w cs (s.byteCut w c).2.1 h4 h4'
      (fun x hx => hws x (by simp [hx])) (by rw [h3, htot]; omega)
    rw [fieldSum_eq_assemble] at i3
    simp only [runByteCuts, fieldSum_eq_assemble, assemble, List.length_cons]
    rw [h1, i1, i2, i3, h2, i4, h3, hsrc, bitsAt_add, i6, h5]
    exact ⟨rfl, rfl, rfl, by omega, i5, rfl⟩

theorem runByteCuts_reconstruct (w : Nat) (ws : List Nat) (s : BS) (hwf : s.WF) (hoff : s.off = 0)
    (hcur : s.cur = 0) (hws : ∀ c ∈ ws, c % 8 = 0 ∧ c ≤ w) (hsum : ws.sum = s.total) :
    (runByteCuts w s ws).2.2 = false ∧ (runByteCuts w s ws).1.length = ws.length ∧
    fieldSum ws (runByteCuts w s ws).1 = s.src := by
  have hpos : s.bitOffset = 0 := by simp [BS.bitOffset, hcur, hoff]
  obtain ⟨h1, h2, h3, _⟩ := runByteCuts_spec w ws s hwf hoff hws (by omega)
  refine ⟨h1, h2, ?_⟩
  rw [h3, hpos, hsum]
  exact bitsAt_zero_pos_of_lt (leValue_lt s.bytes hwf.2.1)

/-! ## `number_splitter<uint64_t>` -/

section NumberSplitter
open CdsVerif.Gen.Splitter

theorem mask_toNat (c : Nat) (h : c < 64) : (((1#64) <<< (c % 64)) - 1#64).toNat = 2 ^ c - 1 := by
  rw [Nat.mod_eq_of_lt h, BitVec.toNat_sub, BitVec.toNat_shiftLeft, BitVec.toNat_ofNat, Nat.shiftLeft_eq]
  have h1 : 2 ^ c < 2 ^ 64 := Nat.pow_lt_pow_right (by omega) h
  have h2 : 0 < 2 ^ c := Nat.two_pow_pos c
  simp only [Nat.reducePow, Nat.reduceMod, Nat.one_mul] at h1 ⊢
  rw [Nat.mod_eq_of_lt h1]
  omega

/-- `number_splitter<uint64_t>::cut` -/
theorem NS.cut_spec (s : NS) (count : BitVec 32) (hs : s.shift.toNat < 64) (hc : count.toNat < 64) :
    (s.cut count).2.2 = false ∧
    (s.cut count).1.toNat = bitsAt s.number.toNat s.shift.toNat count.toNat ∧
    (s.cut count).2.1.shift.toNat = s.shift.toNat + count.toNat ∧
    (s.cut count).2.1.number = s.number := by
  refine ⟨?_, ?_, ?_, rfl⟩
  · simp [NS.cut, number_cut64_ub]; omega
  · simp only [NS.cut, number_cut64]
    rw [BitVec.toNat_and, BitVec.toNat_ushiftRight, mask_toNat _ hc, Nat.mod_eq_of_lt hs,
      Nat.and_two_pow_sub_one_eq_mod, Nat.shiftRight_eq_div_pow]
    rfl
  · simp only [NS.cut, number_cut64]
    rw [BitVec.toNat_add]; omega

theorem NS.safeCut_spec (s : NS) (count : BitVec 32) (hs : s.shift.toNat ≤ 64) (hc : count.toNat < 64) :
    (s.safeCut count).2.2 = false ∧
    (s.safeCut count).1.toNat = bitsAt s.number.toNat s.shift.toNat (min count.toNat (64 - s.shift.toNat)) ∧
    (s.safeCut count).2.1.shift.toNat = s.shift.toNat + min count.toNat (64 - s.shift.toNat) ∧
    (s.safeCut count).2.1.number = s.number := by
  unfold NS.safeCut
  have heos : s.eos = decide (64 ≤ s.shift.toNat) := by
    simp [NS.eos, number_eos64, BitVec.ule]
    omega
  by_cases h64 : s.shift.toNat = 64
  · have : s.eos = true := by rw [heos]; simp [h64]
    simp [this, h64, bitsAt_zero_width]
  · have hlt : s.shift.toNat < 64 := by omega
    have : s.eos = false := by rw [heos]; simp; omega
    have hrest : ((number_rest_count64 s.shift).setWidth 32).toNat = 64 - s.shift.toNat := by
      simp only [number_rest_count64, BitVec.toNat_setWidth, BitVec.toNat_sub, BitVec.toNat_mul, BitVec.toNat_ofNat]
      omega
    generalize (number_rest_count64 s.shift).setWidth 32 = rest at hrest
    simp only [this, Bool.false_eq_true, if_false]
    have hc' : (if rest.ult count then rest else count).toNat = min count.toNat (64 - s.shift.toNat) := by
      simp only [BitVec.ult, decide_eq_true_eq]; split <;> omega
    generalize (if rest.ult count then rest else count) = c' at hc'
    rw [← hc']
    by_cases h0 : c' = 0
    · subst h0; simp [bitsAt_zero_width]
    · simp only [h0, ne_eq, not_false_eq_true, if_true]
      exact NS.cut_spec s c' hlt (by omega)

theorem ofNat32_toNat (c : Nat) (h : c < 64) : (BitVec.ofNat 32 c).toNat = c := by
  rw [BitVec.toNat_ofNat]; exact Nat.mod_eq_of_lt (by omega)

theorem NS.eos_eq (s : NS) : s.eos = decide (64 ≤ s.shift.toNat) := by
  simp [NS.eos, number_eos64, BitVec.ule]
  omega

theorem runCutsNS_spec : ∀ (ws : List Nat) (s : NS), (∀ c ∈ ws, 1 ≤ c ∧ c < 64) →
    s.shift.toNat + ws.sum ≤ 64 →
    (runCutsNS s ws).2.2 = false ∧ (runCutsNS s ws).1.length = ws.length ∧
    fieldSum ws (runCutsNS s ws).1 = bitsAt s.number.toNat s.shift.toNat ws.sum ∧
    (runCutsNS s ws).2.1.shift.toNat = s.shift.toNat + ws.sum ∧
    (runCutsNS s ws).2.1.number = s.number
  | [], s, _, _ => by
    simp [runCutsNS, fieldSum, fieldSumFrom, bitsAt_zero_width]
  | c :: cs, s, hws, hend => by
    simp only [List.sum_cons] at hend ⊢
    have hc := hws c (by simp)
    have hcn := ofNat32_toNat c hc.2
    obtain ⟨h1, h2, h3, h4⟩ := NS.cut_spec s (BitVec.ofNat 32 c) (by omega) (by omega)
    rw [hcn] at h2 h3
    obtain ⟨i1, i2, i3, i4, i5⟩ := runCutsNS_spec cs (s.cut (BitVec.ofNat 32 c)).2.1
      (fun x hx => hws x (by simp [hx])) (by rw [h3]; omega)
    rw [fieldSum_eq_assemble] at i3
    simp only [runCutsNS, fieldSum_eq_assemble, assemble, List.length_cons]
    rw [h1, i1, i2, i3, h2, i4, h3, h4, bitsAt_add, i5, h4]
    exact ⟨rfl, rfl, rfl, by omega, rfl⟩

theorem runCutsNS_reconstruct (ws : List Nat) (s : NS) (hshift : s.shift = 0)
    (hws : ∀ c ∈ ws, 1 ≤ c ∧ c < 64) (hsum : ws.sum = 64) :
    (runCutsNS s ws).2.2 = false ∧ (runCutsNS s ws).1.length = ws.length ∧
    fieldSum ws (runCutsNS s ws).1 = s.number.toNat := by
  have h0 : s.shift.toNat = 0 := by rw [hshift]; rfl
  obtain ⟨h1, h2, h3, _⟩ := runCutsNS_spec ws s hws (by omega)
  refine ⟨h1, h2, ?_⟩
  rw [h3, h0, hsum]
  exact bitsAt_zero_pos_of_lt s.number.isLt

theorem cutsUntilEosNS_eq (arrW : Nat) (harr : 1 ≤ arrW) (hw : arrW < 64) :
    ∀ (k fuel : Nat) (s : NS), s.shift.toNat + k * arrW = 64 → k ≤ fuel →
      cutsUntilEosNS arrW fuel s = (runCutsNS s (List.replicate k arrW)).1 := by
  intro k
  induction k with
  | zero =>
    intro fuel s hpos _
    have heos : s.eos = true := by rw [NS.eos_eq]; simp; omega
    cases fuel <;> simp [cutsUntilEosNS, heos, runCutsNS]
  | succ k ih =>
    intro fuel s hpos hf
    obtain ⟨fuel, rfl⟩ : ∃ f, fuel = f + 1 := ⟨fuel - 1, by omega⟩
    have hmul : (k + 1) * arrW = k * arrW + arrW := Nat.succ_mul k arrW
    have heos : s.eos = false := by rw [NS.eos_eq]; simp; omega
    obtain ⟨_, _, h3, _⟩ := NS.cut_spec s (BitVec.ofNat 32 arrW) (by omega)
      (by rw [ofNat32_toNat arrW hw]; exact hw)
    rw [ofNat32_toNat arrW hw] at h3
    simp only [cutsUntilEosNS, heos, List.replicate_succ, runCutsNS, Bool.false_eq_true, if_false]
    rw [ih fuel (s.cut (BitVec.ofNat 32 arrW)).2.1 (by rw [h3]; omega) (by omega)]

theorem pathOfNS_eq_runCuts (headW arrW m : Nat) (s : NS) (hh : headW < 64) (ha1 : 1 ≤ arrW)
    (ha : arrW < 64) (hsum : headW + m * arrW = 64) :
    pathOfNS headW arrW s = (runCutsNS { s with shift := 0 } (headW :: List.replicate m arrW)).1 := by
  obtain ⟨_, _, h3, _⟩ := NS.cut_spec { s with shift := 0 } (BitVec.ofNat 32 headW)
    (show (0#32).toNat < 64 by decide)
    (by rw [ofNat32_toNat headW hh]; exact hh)
  rw [ofNat32_toNat headW hh] at h3
  have hm : m ≤ m * arrW := Nat.le_mul_of_pos_right m ha1
  simp only [pathOfNS, runCutsNS]
  rw [cutsUntilEosNS_eq arrW ha1 ha m 64 _ (by rw [h3]; simp; omega) (by omega)]

end NumberSplitter

/-! ## `feldman_hashset::details::metrics::make` -/

section Metrics
open CdsVerif.Gen.Feldman

/-- the normalisation of `metrics::make` on naturals -/
def normArr (ab : Nat) : Nat := max ab 2
def normHead0 (hb H : Nat) : Nat := min H (max hb 4)
def normHead (hb ab H : Nat) : Nat :=
  normHead0 hb H + (H - normHead0 hb H) % normArr ab

theorem ite_ult_toNat (x y a b : BitVec 64) :
    (if BitVec.ult x y then a else b).toNat = if x.toNat < y.toNat then a.toNat else b.toNat := by
  simp only [BitVec.ult, decide_eq_true_eq]; split <;> rfl

theorem metrics_make_toNat (hb ab hsz : BitVec 64) (hH : hsz.toNat * 8 < 2 ^ 64) :
    (metrics_make hb ab hsz).1.toNat = normHead hb.toNat ab.toNat (hsz.toNat * 8) ∧
    (metrics_make hb ab hsz).2.2.1.toNat = normArr ab.toNat := by
  have hhash : (hsz * 8#64).toNat = hsz.toNat * 8 := by
    rw [BitVec.toNat_mul]; exact Nat.mod_eq_of_lt hH
  generalize hHb : hsz * 8#64 = Hb at hhash
  generalize hsz.toNat * 8 = H at *
  simp only [metrics_make, hHb]
  have ha : (if BitVec.ult ab 2#64 then 2#64 else ab).toNat = normArr ab.toNat := by
    rw [ite_ult_toNat]; simp only [normArr, BitVec.toNat_ofNat, Nat.reducePow, Nat.reduceMod]; split <;> omega
  generalize (if BitVec.ult ab 2#64 then 2#64 else ab) = a2 at ha ⊢
  have hh2 : (if BitVec.ult hb 4#64 then 4#64 else hb).toNat = if hb.toNat < 4 then 4 else hb.toNat := by
    rw [ite_ult_toNat]; simp only [BitVec.toNat_ofNat, Nat.reducePow, Nat.reduceMod]
  generalize (if BitVec.ult hb 4#64 then 4#64 else hb) = h2 at hh2 ⊢
  have hh4 : (if BitVec.ult Hb h2 then Hb else h2).toNat = normHead0 hb.toNat H := by
    rw [ite_ult_toNat, hhash, hh2]; simp only [normHead0]; split <;> split <;> omega
  generalize (if BitVec.ult Hb h2 then Hb else h2) = h4 at hh4 ⊢
  have hle : h4.toNat ≤ H := by rw [hh4]; unfold normHead0; omega
  have hsub : (Hb - h4).toNat = H - h4.toNat := by
    rw [BitVec.toNat_sub, hhash]; omega
  have hmod : ((Hb - h4) % a2).toNat = (H - h4.toNat) % a2.toNat := by
    rw [BitVec.toNat_umod, hsub]
  refine ⟨?_, ha⟩
  unfold normHead
  rw [← hh4, ← ha, ← hmod]
  have hmle : ((Hb - h4) % a2).toNat ≤ H - h4.toNat := by rw [hmod]; exact Nat.mod_le _ _
  split
  · rw [BitVec.toNat_add]; omega
  · rename_i h
    simp at h
    simp [h]

theorem normArr_ge (ab : Nat) : 2 ≤ normArr ab := by unfold normArr; omega
theorem normHead_le (hb ab H : Nat) : normHead hb ab H ≤ H := by
  unfold normHead
  have h0 : normHead0 hb H ≤ H := by unfold normHead0; omega
  have := Nat.mod_le (H - normHead0 hb H) (normArr ab)
  omega
theorem normHead_exact (hb ab H : Nat) :
    normHead hb ab H + (H - normHead0 hb H) / normArr ab * normArr ab = H := by
  unfold normHead
  have h0 : normHead0 hb H ≤ H := by unfold normHead0; omega
  have := Nat.mod_add_div (H - normHead0 hb H) (normArr ab)
  rw [Nat.mul_comm] at this
  omega

theorem one_shiftLeft_toNat (n : Nat) (h : n < 64) : ((1#64) <<< (n % 64)).toNat = 2 ^ n := by
  rw [Nat.mod_eq_of_lt h, BitVec.toNat_shiftLeft, BitVec.toNat_ofNat, Nat.shiftLeft_eq]
  have : 2 ^ n < 2 ^ 64 := Nat.pow_lt_pow_right (by omega) h
  simp only [Nat.reducePow, Nat.reduceMod, Nat.one_mul] at this ⊢
  exact Nat.mod_eq_of_lt this

theorem metrics_make_sizes (hb ab hsz : BitVec 64) :
    (metrics_make hb ab hsz).2.1 = (1#64) <<< ((metrics_make hb ab hsz).1.toNat % 64) ∧
    (metrics_make hb ab hsz).2.2.2 = (1#64) <<< ((metrics_make hb ab hsz).2.2.1.toNat % 64) :=
  ⟨rfl, rfl⟩

theorem metrics_make_ub_eq (hb ab hsz : BitVec 64) :
    metrics_make_ub hb ab hsz =
      (((metrics_make hb ab hsz).2.2.1 == 0#64) || decide ((metrics_make hb ab hsz).1.toNat ≥ 64)
        || decide ((metrics_make hb ab hsz).2.2.1.toNat ≥ 64)) := by
  simp only [metrics_make_ub, metrics_make]
  split <;> split <;> split <;> split <;> simp_all

end Metrics

/-! ## Injectivity of the Feldman path -/

theorem pathOf_length (headW arrW m : Nat) (s : BS) (hb : ∀ b ∈ s.bytes, b < 256)
    (hh : headW ≤ 32) (ha1 : 1 ≤ arrW) (ha : arrW ≤ 32) (hsum : headW + m * arrW = 8 * s.bytes.length) :
    (pathOf headW arrW s).length = m + 1 := by
  have hws : ∀ c ∈ headW :: List.replicate m arrW, c ≤ 32 := by
    intro c hc
    rcases List.mem_cons.mp hc with rfl | hc
    · exact hh
    · rw [(List.mem_replicate.mp hc).2]; exact ha
  have hs : (headW :: List.replicate m arrW).sum = s.reset.total := by
    rw [List.sum_cons, sum_replicate]; exact hsum
  obtain ⟨_, h2, _⟩ := runCuts_reconstruct 32 _ s.reset (BS.reset_WF hb) rfl hws hs
  rw [pathOf_eq_runCuts headW arrW m s hb hh ha1 ha hsum, h2]
  simp

/-- the source is the `fieldSum` of its path: the path determines the hash -/
theorem pathOf_fieldSum (headW arrW m : Nat) (s : BS) (hb : ∀ b ∈ s.bytes, b < 256)
    (hh : headW ≤ 32) (ha1 : 1 ≤ arrW) (ha : arrW ≤ 32) (hsum : headW + m * arrW = 8 * s.bytes.length) :
    fieldSum (headW :: List.replicate m arrW) (pathOf headW arrW s) = leValue s.bytes := by
  have hws : ∀ c ∈ headW :: List.replicate m arrW, c ≤ 32 := by
    intro c hc
    rcases List.mem_cons.mp hc with rfl | hc
    · exact hh
    · rw [(List.mem_replicate.mp hc).2]; exact ha
  have hs : (headW :: List.replicate m arrW).sum = s.reset.total := by
    rw [List.sum_cons, sum_replicate]; exact hsum
  obtain ⟨_, _, h3⟩ := runCuts_reconstruct 32 _ s.reset (BS.reset_WF hb) rfl hws hs
  rw [pathOf_eq_runCuts headW arrW m s hb hh ha1 ha hsum, h3]
  rfl

theorem pathOf_injective (headW arrW m : Nat) (a b : BS) (hab : ∀ x ∈ a.bytes, x < 256)
    (hbb : ∀ x ∈ b.bytes, x < 256) (hlen : a.bytes.length = b.bytes.length)
    (hh : headW ≤ 32) (ha1 : 1 ≤ arrW) (ha : arrW ≤ 32) (hsum : headW + m * arrW = 8 * a.bytes.length)
    (hpath : pathOf headW arrW a = pathOf headW arrW b) : a.bytes = b.bytes := by
  have h1 := pathOf_fieldSum headW arrW m a hab hh ha1 ha hsum
  have h2 := pathOf_fieldSum headW arrW m b hbb hh ha1 ha (by rw [← hlen]; exact hsum)
  rw [hpath, h2] at h1
  exact (leValue_inj _ _ hlen hab hbb h1.symm)

theorem pathOfNS_fieldSum (headW arrW m : Nat) (s : NS) (hh1 : 1 ≤ headW) (hh : headW < 64)
    (ha1 : 1 ≤ arrW) (ha : arrW < 64) (hsum : headW + m * arrW = 64) :
    fieldSum (headW :: List.replicate m arrW) (pathOfNS headW arrW s) = s.number.toNat ∧
    (pathOfNS headW arrW s).length = m + 1 := by
  have hws : ∀ c ∈ headW :: List.replicate m arrW, 1 ≤ c ∧ c < 64 := by
    intro c hc
    rcases List.mem_cons.mp hc with rfl | hc
    · exact ⟨hh1, hh⟩
    · rw [(List.mem_replicate.mp hc).2]; exact ⟨ha1, ha⟩
  have hs : (headW :: List.replicate m arrW).sum = 64 := by
    rw [List.sum_cons, sum_replicate]; exact hsum
  obtain ⟨_, h2, h3⟩ := runCutsNS_reconstruct _ { s with shift := 0 } rfl hws hs
  rw [pathOfNS_eq_runCuts headW arrW m s hh ha1 ha hsum, h3, h2]
  simp

theorem pathOfNS_injective (headW arrW m : Nat) (a b : NS) (hh1 : 1 ≤ headW) (hh : headW < 64)
    (ha1 : 1 ≤ arrW) (ha : arrW < 64) (hsum : headW + m * arrW = 64)
    (hpath : pathOfNS headW arrW a = pathOfNS headW arrW b) : a.number = b.number := by
  have h1 := (pathOfNS_fieldSum headW arrW m a hh1 hh ha1 ha hsum).1
  have h2 := (pathOfNS_fieldSum headW arrW m b hh1 hh ha1 ha hsum).1
  rw [hpath, h2] at h1
  exact BitVec.eq_of_toNat_eq h1.symm

end CdsVerif.Algo.Splitter

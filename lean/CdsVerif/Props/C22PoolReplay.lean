/-
  C22 — pool_monitor with the lock pool as an environment (Algo/PoolMonitor/Replay): the machine real traces of
  `cds::sync::pool_monitor< vyukov_queue_pool< spin > >` are replayed against (`cdsdriver replay poolmon`).
  Property theorems only.  The pool may hand out ANY free lock, at any instant inside the spin-bit section of `lock`, and takes a
  detached lock back at any instant after the last store of `unlock`; every theorem quantifies over all schedules, thread counts,
  node counts, pool capacities and over all such choices of the pool.
-/
import CdsVerif.Algo.PoolMonitor.Replay
namespace CdsVerif.Props.C22PoolReplay
open CdsVerif.Machine CdsVerif.Spec CdsVerif.Algo

/-- (a) At most one thread is inside the critical section of a node. -/
theorem C22_poolreplay_mutex (cap : Nat) (s : PoolMonitor.St)
    (h : PoolMonitor.rmodel.Reachable (PoolMonitor.init cap) s) :
    ∀ n t1 t2, s.cs t1 n = true → s.cs t2 n = true → t1 = t2 :=
  fun n t1 t2 => PoolMonitor.cs_mutex (PoolMonitor.rpinv_reachable cap s h) n t1 t2

/-- (b) A pool lock is attached to at most one node; a lock in the free bag is attached to no node and held by nobody; the free
    bag has no duplicates — whatever free lock the pool chose to hand out. -/
theorem C22_poolreplay_lock_unique (cap : Nat) (s : PoolMonitor.St)
    (h : PoolMonitor.rmodel.Reachable (PoolMonitor.init cap) s) :
    (∀ n1 n2 k, s.plock n1 = some k → s.plock n2 = some k → n1 = n2) ∧
    (∀ k, k ∈ s.pool → (∀ n, s.plock n ≠ some k) ∧ s.lheld k = false ∧ s.lowner k = none) ∧
    s.pool.Nodup := by
  have hi := PoolMonitor.rpinv_reachable cap s h
  exact ⟨hi.att, fun k hk => ⟨fun n => hi.pfree k n hk, hi.lh1 k (hi.pown k hk), hi.pown k hk⟩, hi.pnd⟩

/-- (c) A node's lock is detached only by the final store of an `unlock` whose CAS saw exactly one reference (nobody inside,
    nobody between increment and acquisition, lock not held), and is given back to the pool only by the `pool_free` of the thread
    that detached it, when it is attached to no node, held by nobody and awaited by nobody. -/
theorem C22_poolreplay_lock_returned_only_when_unused (cap : Nat) (s s' : PoolMonitor.St) (t : Tid) (a : Act) (o : Obs)
    (h : PoolMonitor.rmodel.Reachable (PoolMonitor.init cap) s)
    (hap : PoolMonitor.rmodel.apply s t a = some (s', o)) :
    (∀ n k, s.plock n = some k → s'.plock n ≠ some k →
      a = .step ∧ s.pc t = .unSt n 2 ∧ s.refspin n = 3 ∧ s.users n = [t] ∧
      s'.plock n = none ∧ s'.users n = [] ∧ s'.refspin n = 0 ∧ s'.pc t = .fin (some k) ∧
      s.lheld k = false ∧ (∀ t', s.cs t' n = false) ∧ (∀ t', PoolMonitor.refNode (s.pc t') = some n → t' = t)) ∧
    (∀ k, k ∉ s.pool → k ∈ s'.pool →
      (∃ op, a = .invoke op ∧ op.name = "pool_free") ∧ s.pc t = .fin (some k) ∧ s.lheld k = false ∧ s.lowner k = none ∧
      (∀ n, s.plock n ≠ some k) ∧ (∀ t' n, s.pc t' ≠ .lkTas n k) ∧ (∀ t' n, s.pc t' ≠ .lkWait n k) ∧
      (∀ t', s.pc t' = .fin (some k) → t' = t)) := by
  have hi := PoolMonitor.rpinv_reachable cap s h
  exact ⟨fun n k h0 h1 => PoolMonitor.rdetach_only_last hi hap n k h0 h1,
         fun k h0 h1 => PoolMonitor.rdealloc_only_unused hi hap k h0 h1⟩

/-- (c) The counting invariant: m_RefSpin = 2 * (number of users of the node) + (1 iff the spin bit is held). -/
theorem C22_poolreplay_refcount_counts_users (cap : Nat) (s : PoolMonitor.St)
    (h : PoolMonitor.rmodel.Reachable (PoolMonitor.init cap) s) (n : Nat) :
    ∃ us : List Tid, us.Nodup ∧ (∀ t, t ∈ us ↔ PoolMonitor.User s t n) ∧
      ((∀ t, PoolMonitor.spinNode (s.pc t) ≠ some n) → s.refspin n = 2 * us.length) ∧
      (∀ t, PoolMonitor.spinNode (s.pc t) = some n → s.refspin n = 2 * us.length + 1) ∧
      s.refspin n / 2 = us.length :=
  PoolMonitor.refcount_counts (PoolMonitor.rpinv_reachable cap s h) n

/-- (d) The spin bit is a lock — including over the pool call that now sits inside the attach section. -/
theorem C22_poolreplay_spinbit_mutex (cap : Nat) (s : PoolMonitor.St)
    (h : PoolMonitor.rmodel.Reachable (PoolMonitor.init cap) s) :
    ∀ n t1 t2, PoolMonitor.spinNode (s.pc t1) = some n → PoolMonitor.spinNode (s.pc t2) = some n → t1 = t2 :=
  fun n t1 t2 => PoolMonitor.spinbit_mutex (PoolMonitor.rpinv_reachable cap s h) n t1 t2

/-- The machine of Algo/PoolMonitor/Model (FIFO pool, pool calls folded into the neighbouring steps) is the special case: every
    state it reaches is a state of the replay machine, so the theorems of Props/C22Monitors about states are instances of the
    ones above. -/
theorem C22_poolreplay_generalises_model (cap : Nat) (s : PoolMonitor.St)
    (h : PoolMonitor.model.Reachable (PoolMonitor.init cap) s) : PoolMonitor.rmodel.Reachable (PoolMonitor.init cap) s :=
  PoolMonitor.model_reachable_replay cap s h

/-! ### Examples (evaluated by `decide`) -/

/-- The pool (capacity 2) hands out lock 1 first — not the FIFO head — and thread 0 attaches it; on the way out of `unlock` the
    lock is given back and goes to the end of the bag. -/
def schedChoice : List (Tid × Act) :=
  [(0, .invoke ⟨"lock", [0, 0]⟩), (0, .step), (0, .step),
   (0, .invoke ⟨"pool_alloc", [0, 1]⟩), (0, .step), (0, .step), (0, .ret),
   (0, .invoke ⟨"unlock", [0, 0]⟩), (0, .step), (0, .step), (0, .step), (0, .step),
   (0, .invoke ⟨"pool_free", [0, 1]⟩), (0, .ret)]

example : (PoolMonitor.rmodel.run (PoolMonitor.init 2) (schedChoice.take 7)).map
    (fun p => (p.1.plock 0, p.1.pool, p.1.cs 0 0, p.1.lowner 1)) = some (some 1, [0], true, some 0) := by decide +kernel
example : (PoolMonitor.rmodel.run (PoolMonitor.init 2) schedChoice).map
    (fun p => (p.1.plock 0, p.1.pool, p.1.refspin 0, p.1.pc 0)) = some (none, [0, 1], 0, .idle) := by decide +kernel

/-- The store that ends the attach section is not enabled before the pool has been asked; a lock that is not free cannot be
    handed out; `unlock` cannot return before the detached lock has been given back. -/
example : (PoolMonitor.rmodel.run (PoolMonitor.init 2) (schedChoice.take 3 ++ [(0, .step)])).isNone = true := by decide +kernel
example : (PoolMonitor.rmodel.run (PoolMonitor.init 2)
    (schedChoice.take 7 ++ [(1, .invoke ⟨"lock", [1, 1]⟩), (1, .step), (1, .step),
                            (1, .invoke ⟨"pool_alloc", [1, 1]⟩)])).isNone = true := by decide +kernel
example : (PoolMonitor.rmodel.run (PoolMonitor.init 2) (schedChoice.take 12 ++ [(0, .ret)])).isNone = true := by decide +kernel

/-- Heap fallback: with an empty pool any never-used id may be handed out. -/
example : (PoolMonitor.rmodel.run (PoolMonitor.init 0)
    [(0, .invoke ⟨"lock", [0, 0]⟩), (0, .step), (0, .step), (0, .invoke ⟨"pool_alloc", [0, 5]⟩), (0, .step)]).map
    (fun p => (p.1.plock 0, p.1.pool, p.1.fresh)) = some (some 5, [], 6) := by decide +kernel

end CdsVerif.Props.C22PoolReplay

/-
  Atomic-step model of `cds::sync::spin_lock` (cds/sync/spinlock.h): test-and-test-and-set.
    try_lock : bCurrent = m_spin.exchange( true ); return !bCurrent;
    lock     : while ( !try_lock()) { while ( m_spin.load()) backoff(); }
    unlock   : m_spin.store( false );
  Any number of locks (indexed by Nat) and threads.  `held` is a ghost field: which
  thread is between a successful acquisition and its release of which lock.
-/
import CdsVerif.Base.Machine
namespace CdsVerif.Algo.Spin
open CdsVerif.Machine CdsVerif.Spec

inductive PC
  | idle
  | lockTry (l : Nat)      -- next: exchange(true) inside lock()
  | lockSpin (l : Nat)     -- next: load in the inner wait loop
  | tryOnce (l : Nat)      -- next: exchange(true) inside try_lock()
  | unlockSt (l : Nat) (r : GRet)     -- next: store(false); then return r
  | done (r : GRet)
deriving DecidableEq, Repr

structure St where
  spin : Nat → Bool
  pc : Tid → PC
  held : Tid → Nat → Bool      -- ghost

def init : St := ⟨fun _ => false, fun _ => .idle, fun _ _ => false⟩

def b2s (b : Bool) : String := if b then "1" else "0"
def locName (l : Nat) : String := s!"L{l}.spin"

/-- Client discipline: `unlock l` is only called by a thread that holds `l`; `unlock_if l` releases
    `l` if the thread holds it and does nothing otherwise.  The first argument of every operation is
    the calling thread (as in the harness histories) and is not used. -/
def invoke (s : St) (t : Tid) (op : GOp) : Option St :=
  match s.pc t, op.name, op.args with
  | .idle, "lock", [_, l] => some { s with pc := upd s.pc t (.lockTry l.toNat) }
  | .idle, "try_lock", [_, l] => some { s with pc := upd s.pc t (.tryOnce l.toNat) }
  | .idle, "unlock", [_, l] => if s.held t l.toNat then some { s with pc := upd s.pc t (.unlockSt l.toNat []) } else none
  | .idle, "unlock_if", [_, l] =>
    if s.held t l.toNat then some { s with pc := upd s.pc t (.unlockSt l.toNat [1]) }
    else some { s with pc := upd s.pc t (.done [0]) }
  | _, _, _ => none

def step (s : St) (t : Tid) : Option (St × Ev) :=
  match s.pc t with
  | .lockTry l =>
    let old := s.spin l
    let ev : Ev := ⟨"xchg", locName l, b2s old, "1"⟩
    if old then some ({ s with spin := upd s.spin l true, pc := upd s.pc t (.lockSpin l) }, ev)
    else some ({ s with spin := upd s.spin l true, pc := upd s.pc t (.done []),
                         held := upd2 s.held t l true }, ev)
  | .lockSpin l =>
    let v := s.spin l
    some ({ s with pc := upd s.pc t (if v then .lockSpin l else .lockTry l) }, ⟨"ld", locName l, b2s v, ""⟩)
  | .tryOnce l =>
    let old := s.spin l
    let ev : Ev := ⟨"xchg", locName l, b2s old, "1"⟩
    if old then some ({ s with spin := upd s.spin l true, pc := upd s.pc t (.done [0]) }, ev)
    else some ({ s with spin := upd s.spin l true, pc := upd s.pc t (.done [1]),
                         held := upd2 s.held t l true }, ev)
  | .unlockSt l r =>
    some ({ s with spin := upd s.spin l false, pc := upd s.pc t (.done r),
                   held := upd2 s.held t l false }, ⟨"st", locName l, "0", ""⟩)
  | _ => none

def result (s : St) (t : Tid) : Option (St × GRet) :=
  match s.pc t with
  | .done r => some ({ s with pc := upd s.pc t .idle }, r)
  | _ => none

def model : Model St := ⟨invoke, step, result⟩

/-! ### Mutual exclusion -/

/-- The invariant: a free lock is held by nobody, a lock is held by at most one thread,
    and a thread about to release a lock holds it. -/
def MutexInv (s : St) : Prop :=
  (∀ l t, s.spin l = false → s.held t l = false) ∧
  (∀ l t1 t2, s.held t1 l = true → s.held t2 l = true → t1 = t2) ∧
  (∀ t l r, s.pc t = .unlockSt l r → s.held t l = true)

theorem inv_init : MutexInv init := by
  refine ⟨?_, ?_, ?_⟩ <;> intros <;> simp_all [init]

theorem inv_step (s : St) (t : Tid) (a : Act) (s' : St) (o : Obs)
    (h : MutexInv s) (hap : model.apply s t a = some (s', o)) : MutexInv s' := by
  obtain ⟨h1, h2, h3⟩ := h
  cases a with
  | invoke op =>
    simp only [Model.apply, model, Option.map_eq_some_iff] at hap
    obtain ⟨s1, hs1, heq⟩ := hap
    simp only [Prod.mk.injEq] at heq
    obtain ⟨rfl, -⟩ := heq
    unfold invoke at hs1
    split at hs1
    · simp at hs1; subst hs1
      refine ⟨?_, ?_, ?_⟩ <;> intros <;> grind [upd, upd2]
    · simp at hs1; subst hs1
      refine ⟨?_, ?_, ?_⟩ <;> intros <;> grind [upd, upd2]
    · split at hs1
      · simp at hs1; subst hs1
        refine ⟨?_, ?_, ?_⟩ <;> intros <;> grind [upd, upd2]
      · simp at hs1
    · split at hs1 <;> simp at hs1 <;> subst hs1 <;>
        refine ⟨?_, ?_, ?_⟩ <;> intros <;> grind [upd, upd2]
    · simp at hs1
  | step =>
    simp only [Model.apply, model, Option.map_eq_some_iff] at hap
    obtain ⟨r, hr, heq⟩ := hap
    simp only [Prod.mk.injEq] at heq
    obtain ⟨rfl, -⟩ := heq
    unfold step at hr
    split at hr
    · dsimp only at hr
      split at hr <;> simp at hr <;> obtain ⟨rfl, -⟩ := hr <;>
        refine ⟨?_, ?_, ?_⟩ <;> intros <;> dsimp only at * <;> grind [upd, upd2]
    · simp at hr; obtain ⟨rfl, -⟩ := hr
      refine ⟨?_, ?_, ?_⟩ <;> intros <;> dsimp only at * <;> grind [upd, upd2]
    · dsimp only at hr
      split at hr <;> simp at hr <;> obtain ⟨rfl, -⟩ := hr <;>
        refine ⟨?_, ?_, ?_⟩ <;> intros <;> dsimp only at * <;> grind [upd, upd2]
    · simp at hr; obtain ⟨rfl, -⟩ := hr
      refine ⟨?_, ?_, ?_⟩ <;> intros <;> dsimp only at * <;> grind [upd, upd2]
    · simp at hr
  | ret =>
    simp only [Model.apply, model, Option.map_eq_some_iff] at hap
    obtain ⟨r, hr, heq⟩ := hap
    simp only [Prod.mk.injEq] at heq
    obtain ⟨rfl, -⟩ := heq
    unfold result at hr
    split at hr
    · simp at hr; obtain ⟨rfl, -⟩ := hr
      refine ⟨?_, ?_, ?_⟩ <;> intros <;> grind [upd, upd2]
    · simp at hr

end CdsVerif.Algo.Spin

/-
  Driver side of tie D for the stateful hand models (splitters, bit-reversed counter):
  one line = one initial state plus a sequence of operations; one output line with the
  observable result of every operation.
-/
import CdsVerif.Algo.Splitter.Model
import CdsVerif.Algo.Counter.Model
import CdsVerif.Algo.HP.Scan
import CdsVerif.Driver.LinCheck
namespace CdsVerif.Driver
open CdsVerif.Algo

def hexVal (c : Char) : Option Nat :=
  if '0' ≤ c ∧ c ≤ '9' then some (c.toNat - '0'.toNat)
  else if 'a' ≤ c ∧ c ≤ 'f' then some (c.toNat - 'a'.toNat + 10)
  else none

def parseHexBytes (s : String) : Option (List Nat) :=
  let rec go : List Char → Option (List Nat)
    | [] => some []
    | [_] => none
    | a :: b :: rest => do
      let x ← hexVal a; let y ← hexVal b; let r ← go rest
      pure ((x * 16 + y) :: r)
  go s.toList

/-- `c<k>` = cut k, `s<k>` = safe_cut k -/
def parseCutOp (w : String) : Option (Bool × Nat) :=
  match w.toList with
  | 'c' :: rest => (String.ofList rest).toNat?.map (fun k => (false, k))
  | 's' :: rest => (String.ofList rest).toNat?.map (fun k => (true, k))
  | _ => none

def runBS (byteMode : Bool) (w : Nat) (s : Splitter.BS) (ops : List (Bool × Nat)) : List String :=
  match ops with
  | [] => []
  | (safe, k) :: rest =>
    let r := match byteMode, safe with
      | false, false => s.cut w k
      | false, true => s.safeCut w k
      | true, false => s.byteCut w k
      | true, true => s.byteSafeCut w k
    s!"{r.1}/{r.2.1.cur}/{r.2.1.off}/{if r.2.2 then 1 else 0}" :: runBS byteMode w r.2.1 rest

def runNS (s : Splitter.NS) (ops : List (Bool × Nat)) : List String :=
  match ops with
  | [] => []
  | (safe, k) :: rest =>
    let r := if safe then s.safeCut (BitVec.ofNat 32 k) else s.cut (BitVec.ofNat 32 k)
    s!"{r.1.toNat}/{r.2.1.shift.toNat}/{if r.2.2 then 1 else 0}" :: runNS r.2.1 rest

def runCtr (c : Counter.Ctr) (ops : List Bool) : List String :=
  match ops with
  | [] => []
  | op :: rest =>
    let r := if op then c.inc else c.dec
    s!"{r.1.toNat}/{r.2.counter.toNat}/{r.2.reversed.toNat}/{r.2.highBit}" :: runCtr r.2 rest

def seqEvalLine (line : String) : String :=
  match words line with
  | "bs" :: w :: hex :: off :: ops =>
    match w.toNat?, parseHexBytes hex, off.toNat?, ops.mapM parseCutOp with
    | some w, some bytes, some off, some ops =>
      " ".intercalate (runBS false w ⟨bytes, off / 8, off % 8⟩ ops)
    | _, _, _, _ => "bad-line"
  | "bytes" :: w :: hex :: off :: ops =>
    match w.toNat?, parseHexBytes hex, off.toNat?, ops.mapM parseCutOp with
    | some w, some bytes, some off, some ops =>
      " ".intercalate (runBS true w ⟨bytes, off / 8, 0⟩ ops)
    | _, _, _, _ => "bad-line"
  | "ns" :: num :: off :: ops =>
    match num.toNat?, off.toNat?, ops.mapM parseCutOp with
    | some n, some off, some ops => " ".intercalate (runNS ⟨BitVec.ofNat 64 n, BitVec.ofNat 32 off⟩ ops)
    | _, _, _ => "bad-line"
  | "scan" :: kind :: "H" :: rest =>
    let hz := (rest.takeWhile (· ≠ "R")).filterMap (·.toNat?)
    let rt := ((rest.dropWhile (· ≠ "R")).drop 1).filterMap (·.toNat?)
    let r := if kind == "classic" then HP.classicScan hz rt else HP.inplaceScan hz rt
    "K " ++ " ".intercalate (r.1.map toString) ++ " F " ++ " ".intercalate (r.2.map toString)
  | "counter" :: ops =>
    " ".intercalate (runCtr Counter.Ctr.init (ops.map (· == "i")))
  | _ => "bad-line"

end CdsVerif.Driver

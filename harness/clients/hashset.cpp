// Hash sets / maps: MichaelHashSet / MichaelHashMap (2 buckets, bad hash), SplitListSet / SplitListMap
// (growing bucket table), FeldmanHashSet / FeldmanHashMap (hashes with long shared prefixes).
// History is judged against Spec.map.
#include <cds/init.h>
#include <cds/gc/hp.h>
#include <cds/gc/dhp.h>
#include <cds/gc/nogc.h>
#include <cds/urcu/general_instant.h>
#include <cds/urcu/general_buffered.h>
#include <cds/container/michael_list_hp.h>
#include <cds/container/michael_list_dhp.h>
#include <cds/container/michael_list_rcu.h>
#include <cds/container/michael_list_nogc.h>
#include <cds/container/lazy_list_hp.h>
#include <cds/container/lazy_list_dhp.h>
#include <cds/container/lazy_list_rcu.h>
#include <cds/container/lazy_list_nogc.h>
#include <cds/container/iterable_list_hp.h>
#include <cds/container/iterable_list_dhp.h>
#include <cds/container/michael_kvlist_hp.h>
#include <cds/container/michael_kvlist_dhp.h>
#include <cds/container/michael_kvlist_rcu.h>
#include <cds/container/lazy_kvlist_hp.h>
#include <cds/container/lazy_kvlist_dhp.h>
#include <cds/container/lazy_kvlist_rcu.h>
#include <cds/container/iterable_kvlist_hp.h>
#include <cds/container/iterable_kvlist_dhp.h>
#include <cds/container/michael_set.h>
#include <cds/container/michael_set_rcu.h>
#include <cds/container/michael_set_nogc.h>
#include <cds/container/michael_map.h>
#include <cds/container/michael_map_rcu.h>
#include <cds/container/split_list_set.h>
#include <cds/container/split_list_set_rcu.h>
#include <cds/container/split_list_set_nogc.h>
#include <cds/container/split_list_map.h>
#include <cds/container/split_list_map_rcu.h>
#include <cds/container/feldman_hashset_hp.h>
#include <cds/container/feldman_hashset_dhp.h>
#include <cds/container/feldman_hashset_rcu.h>
#include <cds/container/feldman_hashmap_hp.h>
#include <cds/container/feldman_hashmap_dhp.h>
#include <cds/container/feldman_hashmap_rcu.h>
#include <cds/intrusive/michael_list_hp.h>
#include <cds/intrusive/split_list.h>
#include <cds/intrusive/feldman_hashset_hp.h>
#include <cds/intrusive/feldman_hashset_dhp.h>
#include <memory>
#include <functional>
#include "../client.h"

using namespace khizmax_libcds_verif;
namespace ci = cds::intrusive;
namespace cc = cds::container;

typedef cds::urcu::gc< cds::urcu::general_instant< cds::sync::spin > > rcu_gpi;
typedef cds::urcu::gc< cds::urcu::general_buffered<
    cds::container::VyukovMPMCCycleQueue< cds::urcu::epoch_retired_ptr >, cds::sync::spin > > rcu_gpb;

// ---------------------------------------------------------------- common map client part

// Spin detection.  Some libcds operations wait for another thread in a loop that contains no back-off
// call (e.g. LazyList::search() restarts from the head while it runs into a logically deleted node that
// its eraser has not unlinked yet; IterableList::insert retries while a neighbour is marked).  A
// strict-priority schedule (pct) would starve the thread waited for, and the case would end with
// status=budget.  Key comparators and (where offered) retry events of the statistics policy therefore
// report to the scheduler: after c_spin_limit comparisons inside one operation every further
// comparison is a spin hint.  The command line option `--hints 0` switches the hints off (same
// programs and schedules seeds) and shows the behaviour of the library alone.
static bool g_hints = true;
static thread_local unsigned tls_cmp_count = 0;
static constexpr unsigned c_spin_limit = 200;
static inline void cmp_tick()
{
    if ( ++tls_cmp_count > c_spin_limit && g_hints )
        spin_hint();
}
static inline void retry_tick()
{
    if ( g_hints )
        spin_hint();
}

struct IMap {
    // capabilities: which operations the program generator may use
    bool can_erase = true, can_extract = true, can_minmax = false, can_update = true;
    char const* upd = "update";         // "update" (payload replaced) or "upsert_keep" (old item kept)
    bool upd_zero = false;              // update() can only insert a default-constructed payload (0)
    virtual ~IMap() {}
    virtual bool insert( long k, long v ) = 0;
    virtual std::pair<bool, bool> update( long k, long v, bool allow ) = 0;
    virtual bool erase( long, long& ) { return false; }
    std::function<void()> lockfn, unlockfn;      // LazyList<RCU>::extract must be called under the RCU read lock (documented)
    virtual bool extract( long, long& ) { return false; }
    virtual bool find( long k, long& v ) = 0;
    virtual bool contains( long k ) = 0;
    virtual bool extract_min( long&, long& ) { return false; }
    virtual bool extract_max( long&, long& ) { return false; }
    // tie S on the machine side (lean/CdsVerif/Props/C18Reach.lean): the raw structure of the real object at the quiescent
    // end of the case as ONE `SNAP …` line in the format of clients/snap.cpp; default: none
    virtual void dump( std::ostream& ) {}
};

struct GenCfg {
    int maxkeys = 5;            // key space is 2..maxkeys keys
    bool ins_heavy = false;     // mostly inserts (growing tables)
};

static std::vector<std::vector<Op>> map_program( Rng& r, int nthreads, int nops, IMap const& m, GenCfg const& g )
{
    std::vector<std::vector<Op>> p( nthreads );
    long v = 1;
    long nkeys = 2 + long( r.below( g.maxkeys - 1 ));
    unsigned w_ins = 25 + unsigned( r.below( 30 ));
    unsigned w_upd = 10 + unsigned( r.below( 15 ));
    if ( !m.can_update ) w_upd = 0;
    unsigned w_era = m.can_erase ? 10 + unsigned( r.below( 20 )) : 0;
    unsigned w_ext = m.can_extract ? 5 + unsigned( r.below( 15 )) : 0;
    unsigned w_fnd = 10 + unsigned( r.below( 15 ));
    unsigned w_con = 5 + unsigned( r.below( 10 ));
    unsigned w_mm = m.can_minmax ? 10 + unsigned( r.below( 10 )) : 0;
    if ( g.ins_heavy ) {
        nkeys = g.maxkeys;
        w_ins += 60;
    }
    unsigned total = w_ins + w_upd + w_era + w_ext + w_fnd + w_con + w_mm;
    int budget = 14;
    for ( int t = 0; t < nthreads; ++t ) {
        int n = 1 + int( r.below( nops ));
        int left = nthreads - t - 1;
        if ( n > budget - left ) n = budget - left;
        budget -= n;
        for ( int i = 0; i < n; ++i ) {
            long k = long( r.below( nkeys ));
            unsigned x = unsigned( r.below( total ));
            if ( x < w_ins ) { p[t].push_back( Op( "insert", k, v++ )); continue; }
            x -= w_ins;
            if ( x < w_upd ) { p[t].push_back( Op( m.upd, k, m.upd_zero ? 0 : v++, r.chance( 70 ) ? 1 : 0 )); continue; }
            x -= w_upd;
            if ( x < w_era ) { p[t].push_back( Op( "erase", k )); continue; }
            x -= w_era;
            if ( x < w_ext ) { p[t].push_back( Op( "extract", k )); continue; }
            x -= w_ext;
            if ( x < w_fnd ) { p[t].push_back( Op( "find", k )); continue; }
            x -= w_fnd;
            if ( x < w_con ) { p[t].push_back( Op( "contains", k )); continue; }
            p[t].push_back( Op( r.chance( 50 ) ? "extract_min" : "extract_max" ));
        }
    }
    return p;
}

static std::vector<long> map_exec( IMap& m, Op const& op )
{
    std::string const& n = op.name;
    long v = 0, k = 0;
    tls_cmp_count = 0;
    if ( n == "insert" ) return { m.insert( op.args[0], op.args[1] ) ? 1L : 0L };
    if ( n == "update" || n == "upsert_keep" ) {
        std::pair<bool, bool> r = m.update( op.args[0], op.args[1], op.args[2] != 0 );
        return { r.first ? 1L : 0L, r.second ? 1L : 0L };
    }
    if ( n == "erase" ) { if ( m.erase( op.args[0], v )) return { 1, v }; return { 0 }; }
    if ( n == "extract" ) { if ( m.extract( op.args[0], v )) return { 1, v }; return { 0 }; }
    if ( n == "find" ) { if ( m.find( op.args[0], v )) return { 1, v }; return { 0 }; }
    if ( n == "contains" ) return { m.contains( op.args[0] ) ? 1L : 0L };
    if ( n == "extract_min" ) { if ( m.extract_min( k, v )) return { 1, k, v }; return { 0 }; }
    if ( n == "extract_max" ) { if ( m.extract_max( k, v )) return { 1, k, v }; return { 0 }; }
    std::fprintf( stderr, "unknown op %s\n", n.c_str());
    std::exit( 2 );
}

// ---------------------------------------------------------------- value types and predicates

struct kv {
    long key; long val;
    kv() : key( 0 ), val( 0 ) {}
    kv( long k, long v ) : key( k ), val( v ) {}
};

struct key_of {
    template <class T> static long k( T const& t ) { return t.key; }
    static long k( long x ) { return x; }
};
struct key_less {
    template <class A, class B> bool operator()( A const& a, B const& b ) const { cmp_tick(); return key_of::k( a ) < key_of::k( b ); }
};
struct key_cmp {
    template <class A, class B> int operator()( A const& a, B const& b ) const
    {
        cmp_tick();
        long x = key_of::k( a ), y = key_of::k( b );
        return x < y ? -1 : ( y < x ? 1 : 0 );
    }
};

// traits generators: Pred = 0 -> less, 1 -> compare; Cnt -> item counter
template <class Base, int Pred, bool Cnt> struct mk_traits;
template <class Base> struct mk_traits<Base, 0, false> : Base { typedef key_less less; };
template <class Base> struct mk_traits<Base, 1, false> : Base { typedef key_cmp compare; };
template <class Base> struct mk_traits<Base, 0, true> : Base { typedef key_less less; typedef cds::atomicity::item_counter item_counter; };
template <class Base> struct mk_traits<Base, 1, true> : Base { typedef key_cmp compare; typedef cds::atomicity::item_counter item_counter; };

template <class Base, int Pred, bool Cnt> struct mk_kvtraits;
template <class Base> struct mk_kvtraits<Base, 0, false> : Base { typedef key_less less; };
template <class Base> struct mk_kvtraits<Base, 1, false> : Base { typedef key_cmp compare; };
template <class Base> struct mk_kvtraits<Base, 0, true> : Base { typedef key_less less; typedef cds::atomicity::item_counter item_counter; };

// API form: plain overloads, or the *_with( key, less ) overloads (erase_with / extract_with / find_with /
// contains( key, less )); chosen per case.  The predicate must imply the container's order: key_less does.
static bool g_use_with = false;
// split lists: hash = key (injective) or key >> 1 (pairs of keys with the SAME split-order hash, so that the
// key comparator decides inside a run of equal hashes)
static bool g_split_coll = false;
// tie A variant isset_michael_hp_named only: hash = key - 1, so that key 0 hashes to SIZE_MAX (all bits set)
static bool g_hash_m1 = false;
struct long_less { bool operator()( long a, long b ) const { return a < b; } };

// ---------------------------------------------------------------- container set-like lists

// MichaelList / LazyList over HP, DHP, RCU: update functor ( bool bNew, value_type& item, Q const& key )
template <class L>
struct SetListML : IMap {
    L l;
    template <class... A> explicit SetListML( A&&... a ) : l( std::forward<A>( a )... ) {}
    bool insert( long k, long v ) override { return l.insert( kv( k, v )); }
    std::pair<bool, bool> update( long k, long v, bool allow ) override
    {
        return l.update( kv( k, v ), []( bool, kv& item, kv const& key ) { item.val = key.val; }, allow );
    }
    bool erase( long k, long& v ) override
    {
        if ( g_use_with ) return l.erase_with( kv( k, 0 ), key_less(), [&v]( kv const& item ) { v = item.val; } );
        return l.erase( kv( k, 0 ), [&v]( kv const& item ) { v = item.val; } );
    }
    bool extract( long k, long& v ) override
    {
        // containers over LazyList<RCU>: extract must be called under the RCU read lock (documented); the returned pointer
        // is released (= retired) outside of it.  lockfn is set for exactly those variants.
        if ( lockfn ) lockfn();
        auto p = g_use_with ? l.extract_with( kv( k, 0 ), key_less()) : l.extract( kv( k, 0 ));
        bool ok = bool( p );
        if ( ok ) v = p->val;
        if ( unlockfn ) unlockfn();
        p.release();
        return ok;
    }
    bool find( long k, long& v ) override
    {
        if ( g_use_with ) return l.find_with( kv( k, 0 ), key_less(), [&v]( kv& item, kv const& ) { v = item.val; } );
        return l.find( kv( k, 0 ), [&v]( kv& item, kv const& ) { v = item.val; } );
    }
    bool contains( long k ) override { return g_use_with ? l.contains( kv( k, 0 ), key_less()) : l.contains( kv( k, 0 )); }
};

// IterableList: update replaces the data of the node
template <class L>
struct SetListIter : IMap {
    L l;
    bool useUpsert;
    template <class... A> explicit SetListIter( bool ups, A&&... a ) : l( std::forward<A>( a )... ), useUpsert( ups ) {}
    bool insert( long k, long v ) override { return l.insert( kv( k, v )); }
    std::pair<bool, bool> update( long k, long v, bool allow ) override
    {
        if ( useUpsert )
            return l.upsert( kv( k, v ), allow );
        return l.update( kv( k, v ), []( kv&, kv* ) {}, allow );
    }
    bool erase( long k, long& v ) override { return l.erase( kv( k, 0 ), [&v]( kv const& item ) { v = item.val; } ); }
    bool extract( long k, long& v ) override
    {
        auto p = l.extract( kv( k, 0 ));
        if ( !p ) return false;
        v = p->val;
        return true;
    }
    bool find( long k, long& v ) override { return l.find( kv( k, 0 ), [&v]( kv& item, kv const& ) { v = item.val; } ); }
    bool contains( long k ) override { return l.contains( kv( k, 0 )); }
};

// nogc: insert-only, iterators
template <class L>
struct SetListNogc : IMap {
    L l;
    template <class... A> explicit SetListNogc( A&&... a ) : l( std::forward<A>( a )... ) { can_erase = can_extract = false; upd = "upsert_keep"; }
    bool insert( long k, long v ) override { return l.insert( kv( k, v )) != l.end(); }
    std::pair<bool, bool> update( long k, long v, bool allow ) override
    {
        auto r = l.update( kv( k, v ), allow );
        return std::make_pair( r.first != l.end(), r.second );
    }
    bool find( long k, long& v ) override
    {
        auto it = l.contains( kv( k, 0 ));
        if ( it == l.end()) return false;
        v = it->val;
        return true;
    }
    bool contains( long k ) override { return l.contains( kv( k, 0 )) != l.end(); }
};

// ---------------------------------------------------------------- KV lists

template <class L>
struct KVListML : IMap {
    L l;
    typedef typename L::value_type value_type;
    template <class... A> explicit KVListML( A&&... a ) : l( std::forward<A>( a )... ) {}
    bool insert( long k, long v ) override { return l.insert( k, v ); }
    std::pair<bool, bool> update( long k, long v, bool allow ) override
    {
        return l.update( k, [v]( bool, value_type& item ) { item.second = v; }, allow );
    }
    bool erase( long k, long& v ) override
    {
        if ( g_use_with ) return l.erase_with( k, long_less(), [&v]( value_type& item ) { v = item.second; } );
        return l.erase( k, [&v]( value_type& item ) { v = item.second; } );
    }
    bool extract( long k, long& v ) override
    {
        if ( lockfn ) lockfn();
        auto p = g_use_with ? l.extract_with( k, long_less()) : l.extract( k );
        bool ok = bool( p );
        if ( ok ) v = p->second;
        if ( unlockfn ) unlockfn();
        p.release();      // outside the RCU lock
        return ok;
    }
    bool find( long k, long& v ) override
    {
        if ( g_use_with ) return l.find_with( k, long_less(), [&v]( value_type& item ) { v = item.second; } );
        return l.find( k, [&v]( value_type& item ) { v = item.second; } );
    }
    bool contains( long k ) override { return g_use_with ? l.contains( k, long_less()) : l.contains( k ); }
};

template <class L>
struct KVListIter : IMap {
    L l;
    bool useUpsert;
    typedef typename L::value_type value_type;
    template <class... A> explicit KVListIter( bool ups, A&&... a ) : l( std::forward<A>( a )... ), useUpsert( ups ) {}
    bool insert( long k, long v ) override { return l.insert( k, v ); }
    std::pair<bool, bool> update( long k, long v, bool allow ) override
    {
        if ( useUpsert )
            return l.upsert( k, v, allow );
        return l.update( k, [v]( value_type& item, value_type* ) { item.second = v; }, allow );
    }
    bool erase( long k, long& v ) override { return l.erase( k, [&v]( value_type& item ) { v = item.second; } ); }
    bool extract( long k, long& v ) override
    {
        if ( lockfn ) lockfn();
        auto p = l.extract( k );
        bool ok = bool( p );
        if ( ok ) v = p->second;
        if ( unlockfn ) unlockfn();
        p.release();      // outside the RCU lock
        return ok;
    }
    bool find( long k, long& v ) override { return l.find( k, [&v]( value_type& item ) { v = item.second; } ); }
    bool contains( long k ) override { return l.contains( k ); }
};

template <class L>
struct KVListNogc : IMap {
    L l;
    template <class... A> explicit KVListNogc( A&&... a ) : l( std::forward<A>( a )... ) { can_erase = can_extract = false; upd = "upsert_keep"; upd_zero = true; }
    bool insert( long k, long v ) override { return l.insert( k, v ) != l.end(); }
    std::pair<bool, bool> update( long k, long v, bool allow ) override
    {
        // the nogc update() default-constructs the mapped value of a new item (payload 0): the program
        // generator passes v = 0 for these variants (upd_zero)
        (void) v;
        auto r = l.update( k, allow );
        return std::make_pair( r.first != l.end(), r.second );
    }
    bool find( long k, long& v ) override
    {
        auto it = l.contains( k );
        if ( it == l.end()) return false;
        v = it->second;
        return true;
    }
    bool contains( long k ) override { return l.contains( k ) != l.end(); }
};

// ---------------------------------------------------------------- node pool for intrusive containers

struct noop_disposer { template <class T> void operator()( T* ) const {} };

template <class Item>
struct NodePool {
    std::vector<std::unique_ptr<Item>> items;
    Item* make( long k, long v )
    {
        items.emplace_back( new Item );
        Item* p = items.back().get();
        p->key = k; p->val = v;
        char nm[32];
        std::snprintf( nm, sizeof nm, "n%ld", v );
        reg_name( p, sizeof( Item ), nm );
        return p;
    }
};

// ---------------------------------------------------------------- hash functors

// deliberately bad hash for MichaelHashSet / Map: 2 buckets
struct bad_hash {
    template <class T> size_t operator()( T const& v ) const { return size_t( key_of::k( v )) % 2; }
};
// identity-like hash for split lists, so that bucket = key mod bucket_count
struct ident_hash {
    template <class T> size_t operator()( T const& v ) const
    {
        if ( g_hash_m1 ) return size_t( key_of::k( v )) - 1;
        return g_split_coll ? size_t( key_of::k( v )) >> 1 : size_t( key_of::k( v ));
    }
};

// Feldman: hash = key << shift, so that all keys share the first `shift` bits of the bit string
// (the splitter cuts from the least significant bit) and array nodes are expanded shift/2 levels deep.
static unsigned g_fshift = 0;
static inline size_t fhash_of( long k ) { return size_t( k ) << g_fshift; }
struct feldman_hash {
    size_t operator()( long k ) const { return fhash_of( k ); }
};

// ---------------------------------------------------------------- MichaelHashSet / MichaelHashMap

struct mset_traits : cc::michael_set::traits { typedef bad_hash hash; };
struct mmap_traits : cc::michael_map::traits { typedef bad_hash hash; };

struct ml_less : cc::michael_list::traits { typedef key_less less; };
struct ml_cmp : cc::michael_list::traits { typedef key_cmp compare; };
struct ll_less : cc::lazy_list::traits { typedef key_less less; };
struct ll_cmp : cc::lazy_list::traits { typedef key_cmp compare; };
// IterableList::insert / update retry without back-off while a neighbour is marked: see cmp_tick()
struct hint_stat : ci::iterable_list::empty_stat {
    void onInsertRetry() const { retry_tick(); }
    void onUpdateRetry() const { retry_tick(); }
};
struct il_less : cc::iterable_list::traits { typedef key_less less; typedef hint_stat stat; };

template <class GC> using MSetMichael = cc::MichaelHashSet<GC, cc::MichaelList<GC, kv, ml_less>, mset_traits>;
template <class GC> using MSetLazy = cc::MichaelHashSet<GC, cc::LazyList<GC, kv, ll_cmp>, mset_traits>;
template <class GC> using MSetIter = cc::MichaelHashSet<GC, cc::IterableList<GC, kv, il_less>, mset_traits>;
template <class GC> using MMapMichael = cc::MichaelHashMap<GC, cc::MichaelKVList<GC, long, long, ml_cmp>, mmap_traits>;
template <class GC> using MMapLazy = cc::MichaelHashMap<GC, cc::LazyKVList<GC, long, long, ll_less>, mmap_traits>;
template <class GC> using MMapIter = cc::MichaelHashMap<GC, cc::IterableKVList<GC, long, long, il_less>, mmap_traits>;

// ---------------------------------------------------------------- SplitListSet / SplitListMap

template <class Tag, class ListTraits, bool Dyn>
struct sl_traits : cc::split_list::traits {
    typedef Tag ordered_list;
    typedef ident_hash hash;
    static const bool dynamic_bucket_table = Dyn;
    typedef ListTraits ordered_list_traits;
};

template <class GC, bool Dyn> using SSetMichael = cc::SplitListSet<GC, kv, sl_traits<cc::michael_list_tag, ml_less, Dyn>>;
template <class GC, bool Dyn> using SSetLazy = cc::SplitListSet<GC, kv, sl_traits<cc::lazy_list_tag, ll_cmp, Dyn>>;
template <class GC, bool Dyn> using SSetIter = cc::SplitListSet<GC, kv, sl_traits<cc::iterable_list_tag, il_less, Dyn>>;
template <class GC, bool Dyn> using SMapMichael = cc::SplitListMap<GC, long, long, sl_traits<cc::michael_list_tag, ml_cmp, Dyn>>;
template <class GC, bool Dyn> using SMapLazy = cc::SplitListMap<GC, long, long, sl_traits<cc::lazy_list_tag, ll_less, Dyn>>;
template <class GC, bool Dyn> using SMapIter = cc::SplitListMap<GC, long, long, sl_traits<cc::iterable_list_tag, il_less, Dyn>>;

// Tie A (atomic-trace conformance with the Lean machine lean/CdsVerif/Algo/SplitList/Model.lean): intrusive
// SplitListSet<HP> over MichaelList<HP> with the DYNAMIC (expandable) bucket table, the configuration underneath
// `sset_michael_hp`.  Every word the Lean machine models gets a name:
//   b<i>   table entry of bucket i (the single table segment is allocated by the constructor)
//   d<i>   m_pNext word of the i-th auxiliary (dummy) node of the first aux-node segment (d0 = bucket 0's dummy)
//   n<j>   m_pNext word of the item brought by the j-th INVOKED insert (the order in which the machine allocates)
//   cnt2 = m_nBucketCountLog2, maxc = m_nMaxItemCount, items = m_ItemCounter, acnt = aux_node_count of the segment
// The table is created for 64 items (capacity 64 = segment size 64): with at most 14 operations per case the first
// aux-node segment is never exhausted, so neither the free list of aux nodes nor a second segment is ever used.
// Only insert / erase / find / contains (keys and payloads of items are immutable).
struct sl_item : ci::split_list::node< ci::michael_list::node<cds::gc::HP> > { long key; long val; };
struct sl_list_traits : ci::michael_list::traits {
    typedef ci::michael_list::base_hook< cds::opt::gc<cds::gc::HP> > hook;
    typedef key_less less;
    typedef noop_disposer disposer;
};
struct sl_set_traits : ci::split_list::traits {
    typedef ident_hash hash;
    static const bool dynamic_bucket_table = true;
};
struct IntrSplitNamed : IMap {
    typedef ci::SplitListSet< cds::gc::HP, ci::MichaelList<cds::gc::HP, sl_item, sl_list_traits>, sl_set_traits > set_t;
    std::unique_ptr<set_t> s;
    std::vector<std::unique_ptr<sl_item>> items;
    size_t named = 0;
    static constexpr size_t c_cap = 64;
    IntrSplitNamed() : s( new set_t( c_cap, 1 ))
    {
        can_update = false; can_extract = false;
        char nm[32];
        auto seg = s->m_Buckets.m_Segments[0].load();
        for ( size_t i = 0; i < s->m_Buckets.m_metrics.nSegmentSize; ++i ) {
            std::snprintf( nm, sizeof nm, "b%zu", i );
            reg_name( &seg[i], sizeof( seg[i] ), nm );
        }
        auto aux = s->m_Buckets.m_auxNodeList.load();
        reg_name( &aux->aux_node_count, sizeof( aux->aux_node_count ), "acnt" );
        for ( size_t i = 0; i < s->m_Buckets.m_metrics.nSegmentSize; ++i ) {
            std::snprintf( nm, sizeof nm, "d%zu", i );
            reg_name( &aux->segment()[i].m_pNext, sizeof( aux->segment()[i].m_pNext ), nm );
        }
        reg_name( &s->m_nBucketCountLog2, sizeof( s->m_nBucketCountLog2 ), "cnt2" );
        reg_name( &s->m_nMaxItemCount, sizeof( s->m_nMaxItemCount ), "maxc" );
        reg_name( &s->m_ItemCounter.m_Counter, sizeof( s->m_ItemCounter.m_Counter ), "items" );
        reg_name( &s->m_List.m_pHead, sizeof( s->m_List.m_pHead ), "head" );
    }
    ~IntrSplitNamed()
    {
        s.reset();
        cds::gc::HP::force_dispose();
    }
    bool insert( long k, long v ) override
    {
        set_quiet( true );
        sl_item* p = new sl_item;
        set_quiet( false );
        p->key = k; p->val = v;
        items.emplace_back( p );
        char nm[32];
        std::snprintf( nm, sizeof nm, "n%zu", ++named );
        reg_name( &p->m_pNext, sizeof( p->m_pNext ), nm );
        return s->insert( *p );
    }
    std::pair<bool, bool> update( long, long, bool ) override { return std::make_pair( false, false ); }
    bool erase( long k, long& v ) override { return s->erase( k, [&v]( sl_item const& item ) { v = item.val; } ); }
    bool find( long k, long& v ) override { return s->find( k, [&v]( sl_item& item, long ) { v = item.val; } ); }
    bool contains( long k ) override { return s->contains( k ); }
    // main thread, quiescent: `SNAP split { <soKey> <isDummy> <key> <marked> }*` as clients/snap.cpp prints it (a node is a
    // dummy iff the bucket table refers to it; its key is the bucket number).  The loads are kept out of the trace
    // (set_quiet): the replayed machine must not see them.
    void dump( std::ostream& out ) override
    {
        typedef ci::split_list::node< ci::michael_list::node<cds::gc::HP> > P;
        set_quiet( true );
        std::vector<std::pair<P*, size_t>> dummies;
        size_t cap = s->m_Buckets.capacity();
        for ( size_t i = 0; i < cap; ++i ) {
            auto* d = s->m_Buckets.bucket( i );
            if ( d ) dummies.push_back( std::make_pair( static_cast<P*>( d ), i ));
        }
        out << "SNAP split";
        unsigned n = 0;
        for ( auto* cur = s->m_List.m_pHead.load( atomics::memory_order_acquire ).ptr(); cur && n < 100000; ++n ) {
            auto nx = cur->m_pNext.load( atomics::memory_order_acquire );
            P* a = static_cast<P*>( cur );
            bool dummy = false;
            long key = 0;
            for ( auto const& e : dummies )
                if ( e.first == a ) { dummy = true; key = long( e.second ); break; }     // lowest bucket number
            if ( !dummy ) key = static_cast<sl_item*>( a )->key;
            out << ' ' << a->m_nHash << ' ' << ( dummy ? 1 : 0 ) << ' ' << key << ' ' << ( nx.bits() ? 1 : 0 );
            cur = nx.ptr();
        }
        out << '\n';
        set_quiet( false );
    }
};

// ---------------------------------------------------------------- FeldmanHashSet / FeldmanHashMap

struct fitem {
    size_t hash; long key; long val;
    fitem() : hash( 0 ), key( 0 ), val( 0 ) {}
    fitem( long k, long v ) : hash( fhash_of( k )), key( k ), val( v ) {}
};
struct fitem_hash_accessor { size_t const& operator()( fitem const& i ) const { return i.hash; } };

struct fset_traits : cc::feldman_hashset::traits { typedef fitem_hash_accessor hash_accessor; };
struct fmap_traits : cc::feldman_hashmap::traits { typedef feldman_hash hash; };
struct ifset_traits : ci::feldman_hashset::traits {
    typedef fitem_hash_accessor hash_accessor;
    typedef noop_disposer disposer;
};

// container FeldmanHashSet: items are looked up by hash value; update replaces the item
template <class S>
struct FeldmanSet : IMap {
    S s;
    FeldmanSet( size_t head_bits, size_t array_bits ) : s( head_bits, array_bits ) {}
    bool insert( long k, long v ) override { return s.insert( fitem( k, v )); }
    std::pair<bool, bool> update( long k, long v, bool allow ) override
    {
        return s.update( fitem( k, v ), []( fitem&, fitem* ) {}, allow );
    }
    bool erase( long k, long& v ) override { return s.erase( fhash_of( k ), [&v]( fitem const& item ) { v = item.val; } ); }
    bool extract( long k, long& v ) override
    {
        auto p = s.extract( fhash_of( k ));
        if ( !p ) return false;
        v = p->val;
        return true;
    }
    bool find( long k, long& v ) override { return s.find( fhash_of( k ), [&v]( fitem& item ) { v = item.val; } ); }
    bool contains( long k ) override { return s.contains( fhash_of( k )); }
};

// FeldmanHashMap: update() replaces the node by a new one whose mapped value is assigned by the functor
template <class M>
struct FeldmanMap : IMap {
    M m;
    typedef typename M::value_type value_type;
    FeldmanMap( size_t head_bits, size_t array_bits ) : m( head_bits, array_bits ) {}
    bool insert( long k, long v ) override { return m.insert( k, v ); }
    std::pair<bool, bool> update( long k, long v, bool allow ) override
    {
        return m.update( k, [v]( value_type& item, value_type* ) { item.second = v; }, allow );
    }
    bool erase( long k, long& v ) override { return m.erase( k, [&v]( value_type& item ) { v = item.second; } ); }
    bool extract( long k, long& v ) override
    {
        if ( lockfn ) lockfn();
        auto p = m.extract( k );
        bool ok = bool( p );
        if ( ok ) v = p->second;
        if ( unlockfn ) unlockfn();
        p.release();      // outside the RCU lock
        return ok;
    }
    bool find( long k, long& v ) override { return m.find( k, [&v]( value_type& item ) { v = item.second; } ); }
    bool contains( long k ) override { return m.contains( k ); }
};

// intrusive FeldmanHashSet
template <class GC>
struct IntrFeldman : IMap {
    typedef ci::FeldmanHashSet<GC, fitem, ifset_traits> set_t;
    std::unique_ptr<set_t> s;
    NodePool<fitem> pool;
    fitem* make( long k, long v ) { fitem* p = pool.make( k, v ); p->hash = fhash_of( k ); return p; }
    IntrFeldman( size_t head_bits, size_t array_bits ) : s( new set_t( head_bits, array_bits )) {}
    ~IntrFeldman()
    {
        s.reset();
        GC::force_dispose();
    }
    bool insert( long k, long v ) override { return s->insert( *make( k, v )); }
    std::pair<bool, bool> update( long k, long v, bool allow ) override { return s->update( *make( k, v ), allow ); }
    bool erase( long k, long& v ) override { return s->erase( fhash_of( k ), [&v]( fitem const& item ) { v = item.val; } ); }
    bool extract( long k, long& v ) override
    {
        auto p = s->extract( fhash_of( k ));
        if ( !p ) return false;
        v = p->val;
        return true;
    }
    bool find( long k, long& v ) override { return s->find( fhash_of( k ), [&v]( fitem& item ) { v = item.val; } ); }
    bool contains( long k ) override { return s->contains( fhash_of( k )); }
};

// Tie A (atomic-trace conformance with the Lean machine lean/CdsVerif/Algo/Feldman/Model.lean): intrusive
// FeldmanHashSet<HP> in which every word the machine models has a name:
//   h<i>       slot i of the head array
//   a<k>       the k-th array node allocated through the traits' node allocator (k = 1, 2, ...: allocation order; an
//              array node freed after a failed conversion CAS keeps its number and its memory is not reused)
//   a<k>.<i>   slot i of that array node
//   n<j>       the item brought by the j-th INVOKED insert / update
// The allocation of an array node is thread-local; it appears in the trace as the pseudo-event `alloc a<k> <slots>`
// (a scheduling point of its own) so that the machine numbers the nodes in the same order.
// Header words: hb= ab= (effective head / array bits) shift= (hash = key << shift).
struct fa_state {
    bool active = false;
    size_t count = 0;
    size_t slot_off = 0, slot_size = 0;
    std::vector<void*> blocks;
};
static fa_state g_fa;
static void* fa_alloc( size_t bytes )
{
    if ( g_fa.active && g_fa.count > 0 )
        pseudo_begin();         // the scheduling point comes BEFORE the number is taken
    void* p = ::operator new( bytes );
    if ( !g_fa.active )
        return p;
    g_fa.blocks.push_back( p );
    size_t k = g_fa.count++;
    size_t nslots = ( bytes - g_fa.slot_off ) / g_fa.slot_size;
    char nm[48];
    std::snprintf( nm, sizeof nm, "a%zu", k );
    reg_name( p, g_fa.slot_off, nm );
    for ( size_t i = 0; i < nslots; ++i ) {
        if ( k == 0 ) std::snprintf( nm, sizeof nm, "h%zu", i );
        else std::snprintf( nm, sizeof nm, "a%zu.%zu", k, i );
        reg_name( static_cast<char*>( p ) + g_fa.slot_off + i * g_fa.slot_size, g_fa.slot_size, nm );
    }
    if ( k > 0 ) {
        std::snprintf( nm, sizeof nm, "a%zu", k );
        pseudo_end( "alloc", nm, std::to_string( nslots ));
    }
    return p;
}
static void fa_free( void* p )
{
    if ( !g_fa.active )
        ::operator delete( p );
}
template <class T>
struct naming_alloc {
    typedef T value_type;
    naming_alloc() {}
    template <class U> naming_alloc( naming_alloc<U> const& ) {}
    template <class U> struct rebind { typedef naming_alloc<U> other; };
    T* allocate( size_t n, void const* = nullptr ) { return static_cast<T*>( fa_alloc( n * sizeof( T ))); }
    void deallocate( T* p, size_t ) { fa_free( p ); }
    template <class U> bool operator==( naming_alloc<U> const& ) const { return true; }
    template <class U> bool operator!=( naming_alloc<U> const& ) const { return false; }
};
struct ifset_named_traits : ci::feldman_hashset::traits {
    typedef fitem_hash_accessor hash_accessor;
    typedef noop_disposer disposer;
    typedef naming_alloc<int> node_allocator;
};
struct IntrFeldmanNamed : IMap {
    typedef ci::FeldmanHashSet<cds::gc::HP, fitem, ifset_named_traits> set_t;
    std::unique_ptr<set_t> s;
    std::vector<std::unique_ptr<fitem>> items;
    size_t named = 0;
    IntrFeldmanNamed( size_t head_bits, size_t array_bits )
    {
        can_extract = false;
        g_fa = fa_state();
        g_fa.active = true;
        g_fa.slot_off = offsetof( set_t::array_node, nodes );
        g_fa.slot_size = sizeof( set_t::atomic_node_ptr );
        s.reset( new set_t( head_bits, array_bits ));
    }
    ~IntrFeldmanNamed()
    {
        s.reset();
        cds::gc::HP::force_dispose();
        for ( void* p : g_fa.blocks ) ::operator delete( p );
        g_fa = fa_state();
    }
    size_t head_bits() const { return s->metrics().head_node_size_log; }
    size_t array_bits() const { return s->metrics().array_node_size_log; }
    fitem* make( long k, long v )
    {
        set_quiet( true );
        fitem* p = new fitem( k, v );
        set_quiet( false );
        items.emplace_back( p );
        char nm[32];
        std::snprintf( nm, sizeof nm, "n%zu", ++named );
        reg_name( p, sizeof( fitem ), nm );
        return p;
    }
    bool insert( long k, long v ) override { return s->insert( *make( k, v )); }
    std::pair<bool, bool> update( long k, long v, bool allow ) override { return s->update( *make( k, v ), allow ); }
    bool erase( long k, long& v ) override { return s->erase( fhash_of( k ), [&v]( fitem const& item ) { v = item.val; } ); }
    bool find( long k, long& v ) override { return s->find( fhash_of( k ), [&v]( fitem& item ) { v = item.val; } ); }
    bool contains( long k ) override { return s->contains( fhash_of( k )); }
};

// ---------------------------------------------------------------- fixture

struct Fixture {
    static char const* family() { return "hashset"; }
    static std::vector<std::string> variants()
    {
        return {
            "mset_michael_hp", "mset_michael_dhp", "mset_lazy_hp", "mset_lazy_dhp", "mset_iterable_hp", "mset_iterable_dhp",
            "mmap_michael_hp", "mmap_lazy_hp", "mmap_iterable_hp", "mmap_michael_dhp", "mmap_lazy_dhp", "mmap_iterable_dhp",
            "mmap_iterable_hp_upsert", "mmap_iterable_dhp_upsert",
            "mset_michael_gpi", "mset_lazy_gpb", "mmap_michael_gpb", "mmap_lazy_gpi",
            "mset_michael_nogc", "mset_lazy_nogc",
            "sset_michael_hp", "sset_michael_dhp", "sset_lazy_hp", "sset_lazy_dhp", "sset_iterable_hp", "sset_iterable_dhp",
            "sset_michael_hp_st", "sset_lazy_hp_st", "sset_iterable_hp_st", "sset_michael_dhp_st",
            "smap_michael_hp", "smap_lazy_hp", "smap_iterable_hp", "smap_michael_dhp", "smap_lazy_dhp_st", "smap_iterable_dhp_st",
            "smap_michael_hp_st",
            "sset_michael_gpi", "sset_lazy_gpb", "smap_michael_gpb_st", "smap_lazy_gpi",
            "sset_michael_nogc", "sset_lazy_nogc_st",
            "fset_hp", "fset_dhp", "fset_gpi", "fset_gpb", "fmap_hp", "fmap_dhp", "fmap_gpi", "fmap_gpb", "ifset_hp", "ifset_dhp"
        };
    }
    std::unique_ptr<IMap> m;
    bool failed = false;
    std::string failure;
    std::function<void()> after;      // run after the container has been destroyed
    GenCfg gen;
    std::function<std::string()> info;   // extra "# ..." line after the history (e.g. final bucket count)
    std::string hx;                      // extra words for the case header (configuration the Lean machine needs)
    std::string header_extra() const { return hx; }

    template <class A> void put_sl( A* a )
    {
        m.reset( a );
        info = [a] { return "buckets=" + std::to_string( size_t( 1 ) << a->l.m_nBucketCountLog2.load()) + " of " + std::to_string( a->l.m_Buckets.capacity()); };
    }

    explicit Fixture( Case const& c )
    {
        typedef cds::gc::HP HP;
        typedef cds::gc::DHP DHP;
        typedef cds::gc::nogc NOGC;
        std::string const& v = c.variant;
        g_use_with = ( c.index % 4 ) == 3 && c.optl( "with", 1 ) != 0;
        g_split_coll = (( c.index / 4 ) % 2 ) == 1 && c.optl( "coll", 1 ) != 0;
        g_hash_m1 = false;
        g_hints = c.optl( "hints", 1 ) != 0;
        bool odd = ( c.index % 2 ) != 0;
        auto gpi = [this] { after = [] { rcu_gpi::force_dispose(); }; };
        auto gpb = [this] { after = [] { rcu_gpb::force_dispose(); }; };

        // MichaelHashSet / Map: 2 buckets ( nMaxItemCount = 2, nLoadFactor = 1 )
        if ( v == "mset_michael_hp" ) m.reset( new SetListML<MSetMichael<HP>>( 2, 1 ));
        else if ( v == "mset_michael_dhp" ) m.reset( new SetListML<MSetMichael<DHP>>( 2, 1 ));
        else if ( v == "mset_lazy_hp" ) m.reset( new SetListML<MSetLazy<HP>>( 2, 1 ));
        else if ( v == "mset_lazy_dhp" ) m.reset( new SetListML<MSetLazy<DHP>>( 2, 1 ));
        else if ( v == "mset_iterable_hp" ) m.reset( new SetListIter<MSetIter<HP>>( odd, 2, 1 ));
        else if ( v == "mset_iterable_dhp" ) m.reset( new SetListIter<MSetIter<DHP>>( odd, 2, 1 ));
        else if ( v == "mmap_michael_hp" ) m.reset( new KVListML<MMapMichael<HP>>( 2, 1 ));
        else if ( v == "mmap_michael_dhp" ) m.reset( new KVListML<MMapMichael<DHP>>( 2, 1 ));
        else if ( v == "mmap_lazy_hp" ) m.reset( new KVListML<MMapLazy<HP>>( 2, 1 ));
        else if ( v == "mmap_lazy_dhp" ) m.reset( new KVListML<MMapLazy<DHP>>( 2, 1 ));
        // MichaelHashMap over IterableKVList:
        //  - *_upsert: upsert( key, val ) selects the bucket with the hash of the *mapped value*
        //    (michael_map.h: `bucket( val ).upsert(...)`): genuine defect, the variants stay in variants();
        //  - *_updfn: update( key, functor ) publishes the new item with a default-constructed value and calls
        //    the functor afterwards (documented "insert item troubleshooting" hazard): not chosen at random;
        //  - the plain variants generate no update operations at all.
        else if ( v == "mmap_iterable_hp" ) { m.reset( new KVListIter<MMapIter<HP>>( false, 2, 1 )); m->can_update = false; }
        else if ( v == "mmap_iterable_dhp" ) { m.reset( new KVListIter<MMapIter<DHP>>( false, 2, 1 )); m->can_update = false; }
        else if ( v == "mmap_iterable_hp_updfn" ) m.reset( new KVListIter<MMapIter<HP>>( false, 2, 1 ));
        else if ( v == "mmap_iterable_hp_upsert" ) m.reset( new KVListIter<MMapIter<HP>>( true, 2, 1 ));
        else if ( v == "mmap_iterable_dhp_upsert" ) m.reset( new KVListIter<MMapIter<DHP>>( true, 2, 1 ));
        else if ( v == "mset_michael_gpi" ) { m.reset( new SetListML<MSetMichael<rcu_gpi>>( 2, 1 )); gpi(); }
        else if ( v == "mset_lazy_gpb" ) { m.reset( new SetListML<MSetLazy<rcu_gpb>>( 2, 1 )); gpb(); m->lockfn = [] { rcu_gpb::access_lock(); }; m->unlockfn = [] { rcu_gpb::access_unlock(); }; }
        else if ( v == "mmap_michael_gpb" ) { m.reset( new KVListML<MMapMichael<rcu_gpb>>( 2, 1 )); gpb(); }
        else if ( v == "mmap_lazy_gpi" ) { m.reset( new KVListML<MMapLazy<rcu_gpi>>( 2, 1 )); gpi(); m->lockfn = [] { rcu_gpi::access_lock(); }; m->unlockfn = [] { rcu_gpi::access_unlock(); }; }
        else if ( v == "mset_michael_nogc" ) m.reset( new SetListNogc<MSetMichael<NOGC>>( 2, 1 ));
        else if ( v == "mset_lazy_nogc" ) m.reset( new SetListNogc<MSetLazy<NOGC>>( 2, 1 ));
        else if ( v.compare( 0, 5, "sset_" ) == 0 || v.compare( 0, 5, "smap_" ) == 0 ) {
            // split lists: the table starts with 2 buckets and doubles (up to ceil2( nItemCount / nLoadFactor ))
            // whenever item count > bucket count * load factor
            static size_t const caps[] = { 2, 4, 8, 16 };
            size_t nItems = caps[c.index % 4];
            size_t lf = 1;
            gen.maxkeys = 8;
            gen.ins_heavy = ( c.index % 3 ) != 0;
            if ( v == "sset_michael_hp" ) put_sl( new SetListML<SSetMichael<HP, true>>( nItems, lf ));
            else if ( v == "sset_michael_dhp" ) put_sl( new SetListML<SSetMichael<DHP, true>>( nItems, lf ));
            else if ( v == "sset_lazy_hp" ) put_sl( new SetListML<SSetLazy<HP, true>>( nItems, lf ));
            else if ( v == "sset_lazy_dhp" ) put_sl( new SetListML<SSetLazy<DHP, true>>( nItems, lf ));
            else if ( v == "sset_iterable_hp" ) put_sl( new SetListIter<SSetIter<HP, true>>( odd, nItems, lf ));
            else if ( v == "sset_iterable_dhp" ) put_sl( new SetListIter<SSetIter<DHP, true>>( odd, nItems, lf ));
            else if ( v == "sset_michael_hp_st" ) put_sl( new SetListML<SSetMichael<HP, false>>( nItems, lf ));
            else if ( v == "sset_michael_dhp_st" ) put_sl( new SetListML<SSetMichael<DHP, false>>( nItems, lf ));
            else if ( v == "sset_lazy_hp_st" ) put_sl( new SetListML<SSetLazy<HP, false>>( nItems, lf ));
            else if ( v == "sset_iterable_hp_st" ) put_sl( new SetListIter<SSetIter<HP, false>>( odd, nItems, lf ));
            else if ( v == "smap_michael_hp" ) put_sl( new KVListML<SMapMichael<HP, true>>( nItems, lf ));
            else if ( v == "smap_michael_dhp" ) put_sl( new KVListML<SMapMichael<DHP, true>>( nItems, lf ));
            else if ( v == "smap_michael_hp_st" ) put_sl( new KVListML<SMapMichael<HP, false>>( nItems, lf ));
            else if ( v == "smap_lazy_hp" ) put_sl( new KVListML<SMapLazy<HP, true>>( nItems, lf ));
            else if ( v == "smap_lazy_dhp_st" ) put_sl( new KVListML<SMapLazy<DHP, false>>( nItems, lf ));
            else if ( v == "smap_iterable_hp" ) put_sl( new KVListIter<SMapIter<HP, true>>( true, nItems, lf ));       // upsert( key, val )
            else if ( v == "smap_iterable_dhp_st" ) put_sl( new KVListIter<SMapIter<DHP, false>>( true, nItems, lf ));
            else if ( v == "smap_iterable_hp_updfn" ) put_sl( new KVListIter<SMapIter<HP, true>>( false, nItems, lf ));  // hazard variant, see above
            else if ( v == "sset_michael_gpi" ) { put_sl( new SetListML<SSetMichael<rcu_gpi, true>>( nItems, lf )); gpi(); }
            else if ( v == "sset_lazy_gpb" ) { put_sl( new SetListML<SSetLazy<rcu_gpb, true>>( nItems, lf )); gpb(); m->lockfn = [] { rcu_gpb::access_lock(); }; m->unlockfn = [] { rcu_gpb::access_unlock(); }; }
            else if ( v == "smap_michael_gpb_st" ) { put_sl( new KVListML<SMapMichael<rcu_gpb, false>>( nItems, lf )); gpb(); }
            else if ( v == "smap_lazy_gpi" ) { put_sl( new KVListML<SMapLazy<rcu_gpi, true>>( nItems, lf )); gpi(); m->lockfn = [] { rcu_gpi::access_lock(); }; m->unlockfn = [] { rcu_gpi::access_unlock(); }; }
            else if ( v == "sset_michael_nogc" ) put_sl( new SetListNogc<SSetMichael<NOGC, true>>( nItems, lf ));
            else if ( v == "sset_lazy_nogc_st" ) put_sl( new SetListNogc<SSetLazy<NOGC, false>>( nItems, lf ));
        }
        // tie A variant, not chosen at random (use --variant): see IntrSplitNamed
        else if ( v == "isset_michael_hp_named" ) {
            gen.maxkeys = 8;
            gen.ins_heavy = ( c.index % 3 ) != 0;
            // hash functor: 0 = key, 1 = key >> 1, 2 = key - 1 (the header word `coll=` tells the Lean machine)
            int mode = int(( c.index / 4 ) % 3 );
            g_split_coll = mode == 1;
            g_hash_m1 = mode == 2;
            m.reset( new IntrSplitNamed );
            hx = std::string( "cap=64 lf=1 coll=" ) + std::to_string( mode );
        }
        // tie A variant, not chosen at random (use --variant): see IntrFeldmanNamed
        else if ( v == "ifset_hp_named" ) {
            static unsigned const nshifts[] = { 0, 3, 8, 13, 30, 56, 2, 5 };
            g_fshift = nshifts[c.index % 8];
            size_t head = 4 + ( c.index / 8 ) % 3;
            size_t arr = 2 + ( c.index / 24 ) % 2;
            gen.maxkeys = 6;
            gen.ins_heavy = ( c.index % 3 ) == 1;
            IntrFeldmanNamed* f = new IntrFeldmanNamed( head, arr );
            m.reset( f );
            hx = "hb=" + std::to_string( f->head_bits()) + " ab=" + std::to_string( f->array_bits()) + " shift=" + std::to_string( g_fshift );
        }
        else if ( v[0] == 'f' || v[0] == 'i' ) {
            static unsigned const shifts[] = { 0, 3, 8, 13, 30, 56 };
            g_fshift = shifts[c.index % 6];
            size_t head = 2 + ( c.index / 6 ) % 3;     // clamped to >= 4 (and adjusted) by the library
            size_t arr = 2;
            if ( v == "fset_hp" ) m.reset( new FeldmanSet<cc::FeldmanHashSet<HP, fitem, fset_traits>>( head, arr ));
            else if ( v == "fset_dhp" ) m.reset( new FeldmanSet<cc::FeldmanHashSet<DHP, fitem, fset_traits>>( head, arr ));
            else if ( v == "fset_gpi" ) { m.reset( new FeldmanSet<cc::FeldmanHashSet<rcu_gpi, fitem, fset_traits>>( head, arr )); gpi(); }
            else if ( v == "fset_gpb" ) { m.reset( new FeldmanSet<cc::FeldmanHashSet<rcu_gpb, fitem, fset_traits>>( head, arr )); gpb(); }
            else if ( v == "fmap_hp" ) m.reset( new FeldmanMap<cc::FeldmanHashMap<HP, long, long, fmap_traits>>( head, arr ));
            else if ( v == "fmap_dhp" ) m.reset( new FeldmanMap<cc::FeldmanHashMap<DHP, long, long, fmap_traits>>( head, arr ));
            else if ( v == "fmap_gpi" ) { m.reset( new FeldmanMap<cc::FeldmanHashMap<rcu_gpi, long, long, fmap_traits>>( head, arr )); gpi(); }
            else if ( v == "fmap_gpb" ) { m.reset( new FeldmanMap<cc::FeldmanHashMap<rcu_gpb, long, long, fmap_traits>>( head, arr )); gpb(); }
            else if ( v == "ifset_hp" ) m.reset( new IntrFeldman<HP>( head, arr ));
            else if ( v == "ifset_dhp" ) m.reset( new IntrFeldman<DHP>( head, arr ));
        }
        if ( !m ) { std::fprintf( stderr, "unknown variant %s\n", v.c_str()); std::exit( 2 ); }
    }
    ~Fixture()
    {
        m.reset();
        if ( after ) after();
    }
    std::string spec() const { return "map"; }
    std::vector<std::vector<Op>> program( Rng& r, int nthreads, int nops ) { return map_program( r, nthreads, nops, *m, gen ); }
    void thread_begin( int ) { set_quiet( true ); cds::threading::Manager::attachThread(); set_quiet( false ); }
    void thread_end( int ) { set_quiet( true ); cds::threading::Manager::detachThread(); set_quiet( false ); }
    std::vector<long> exec( int, Op const& op ) { return map_exec( *m, op ); }
    void finish( std::ostream& out ) { if ( info ) out << "# " << info() << '\n'; m->dump( out ); }
};

int main( int argc, char** argv )
{
    cds::Initialize();
    {
        cds::gc::HP hp( 16, 16 );
        cds::gc::DHP dhp;
        rcu_gpi gpi;
        Args a = parse_args( argc, argv );
        auto it = a.opt.find( "rcubuf" );
        rcu_gpb gpb( it == a.opt.end() ? 4 : size_t( std::atol( it->second.c_str())));
        cds::threading::Manager::attachThread();
        int rc = client_main<Fixture>( argc, argv );
        cds::threading::Manager::detachThread();
        (void) rc;
    }
    cds::Terminate();
    return 0;
}

/-
  C22 — spin locks and node monitors provide mutual exclusion.
  Property theorems only.
-/
import CdsVerif.Algo.Spin.Model
namespace CdsVerif.Props.C22
open CdsVerif.Machine CdsVerif.Lin CdsVerif.Spec CdsVerif.Algo

/-- `cds::sync::spin_lock`: in every state reachable under ANY schedule, with any number of threads,
    locks and client operations (lock / try_lock / unlock / unlock_if obeying the discipline that only a
    holder unlocks), at most one thread is between a successful acquisition of lock `l` and its release. -/
theorem C22_spin_mutex (s : Spin.St) (h : Spin.model.Reachable Spin.init s) :
    ∀ l t1 t2, s.held t1 l = true → s.held t2 l = true → t1 = t2 := by
  have hinv := Spin.model.inv_reachable Spin.MutexInv Spin.init Spin.inv_init Spin.inv_step s h
  exact hinv.2.1

/-- A lock that is free (its word is false) is held by nobody: the lock word is never cleared while a
    thread is inside, in particular never by a thread that does not hold the lock. -/
theorem C22_spin_free_means_unheld (s : Spin.St) (h : Spin.model.Reachable Spin.init s) :
    ∀ l t, s.spin l = false → s.held t l = false := by
  have hinv := Spin.model.inv_reachable Spin.MutexInv Spin.init Spin.inv_init Spin.inv_step s h
  exact hinv.1

/-- The oracle of tie H is exact for the lock specification (plain and re-entrant): a history is
    accepted iff critical sections of the same lock can be ordered without overlap. -/
theorem C22_history_oracle_exact (reentrant : Bool) (n : Nat) (ops : List (OpRec GOp GRet))
    (hwf : ∀ o ∈ ops, o.inv ≤ o.res) :
    linCheck (lockSpec reentrant n) ops = true ↔ Linearizable (lockSpec reentrant n) ops :=
  linCheck_iff _ ops hwf

/-- Non-vacuity: a run in which thread 0 acquires lock 0 and thread 1's try_lock fails. -/
example : ∃ s os, Spin.model.run Spin.init
    [(0, .invoke ⟨"lock", [0, 0]⟩), (0, .step), (0, .ret),
     (1, .invoke ⟨"try_lock", [1, 0]⟩), (1, .step), (1, .ret)] = some (s, os)
    ∧ s.held 0 0 = true ∧ s.held 1 0 = false := by
  refine ⟨_, _, rfl, ?_, ?_⟩ <;> decide

/-- Overlapping critical sections are rejected by the history oracle. -/
example : linCheck (lockSpec false 1)
    [⟨0, ⟨"lock", [0, 0]⟩, [], 1, 2⟩, ⟨1, ⟨"lock", [1, 0]⟩, [], 3, 4⟩,
     ⟨0, ⟨"unlock", [0, 0]⟩, [], 5, 6⟩, ⟨1, ⟨"unlock", [1, 0]⟩, [], 7, 8⟩] = false := by decide

end CdsVerif.Props.C22

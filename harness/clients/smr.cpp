// C01 / C02 / C03: hazard-pointer reclamation at the API level (cds::gc::HP with both scan strategies,
// cds::gc::DHP).  The client is the most general HP user: shared cells holding objects, guards that
// protect what a cell holds, retire of an object after it was unlinked from its cell, explicit scans,
// detach / re-attach.  Oracles (evaluated on the real execution, threads are serialised):
//   * at every disposer call: no guard whose protect() has completed on that object and that has not been
//     cleared since may exist (C01/C02), and the object must not have been disposed before (C03);
//   * a scan that runs with no other thread in between (quiet) must free every object of the caller's
//     retired set that no hazard slot holds (C03, third clause);
//   * after destruction of the singleton every retired object has been disposed exactly once (C03).
//
// `--static 1` (tie A against the Lean machine Algo/HP/Protocol, HP variants): the execution stays inside what the
// machine models: every thread attaches (unscheduled) and takes its H guards before the first traced operation, a
// barrier separates attach / traced operations / tear-down, programs have no `reattach` (so no detach, no help_scan
// while traced) and use `take` (exchange with nullptr) besides `swap`.  Hazard slots are named `hp<tid>.<g>`, the
// `current_` field of a retired array `cur<tid>`, its storage `ret<tid>`; a `RECORDS` note gives the owner of every
// record in the order `classic_scan` walks the list; the disposer leaves a `dispose o<id>` note; `deref` is a
// scheduling point followed by `A use o<id> <live|retired|disposed>` (state read from the library's retired arrays);
// results have the machine's shape.  tools/hp_pre.py rewrites such a trace into the machine's vocabulary.
//
// `--static 1` with the DHP variants (tie A against the Lean machine Algo/DHP/Model): as above, and the guards are part of
// the traced program: `galloc h` constructs Guard object h (thread_hp_storage::alloc: a pseudo-event `galloc T<t> hp<t>.<b>.<i>`
// when the thread-local free list yields a guard, the real store `st ext<t> gb<t>.<k>` when the storage is extended by a
// block), `gfree h` destroys it (the real store of nullptr to the slot).  Hazard slots are named `hp<tid>.<blk>.<slot>`
// (blk 0 = the initial array, blk k = the k-th extension block the record linked), `extended_list_` is `ext<tid>`, the
// guard_block headers `gb<tid>.<k>`.  The thread-local steps of the retired storage are pseudo-events / notes:
// `A retire T<t> o<id> <entries after the push>` immediately before retired_array::push (no scheduling point in between),
// `scanned <blocks of the retired chain>` after a reclamation pass has returned, `dispose o<id>` from the disposer.
// Header words: init= B= RB= T= cells=.  tools/dhp_pre.py rewrites such a trace into the machine's vocabulary.
// `--grow N` (with the above): thread 0 retires N objects that its own guards protect and then unguarded ones until its
// retired block (256 entries) is full, so that the pass started by DHP::retire extends the retired chain (N >= 193: fewer
// than a quarter freed); this is the run that exposed retired_array::extend() leaving stale entries behind
// (`disposed-twice`, harness/probes/dhp_retired_extend_double_dispose.cpp).
#include <cds/init.h>
#include <cds/gc/hp.h>
#include <cds/gc/dhp.h>
#include <memory>
#include <set>
#include "../client.h"

using namespace khizmax_libcds_verif;

static const int MAXT = 8, MAXG = 256, MAXC = 4;   // MAXG: Guard objects per thread (`--grow` uses up to 250)

struct Obj { int id; int disposed; int retired; };

struct World {
    std::vector<char*> bufs;
    std::vector<Obj*> objs;
    atomics::atomic<Obj*> cells[MAXC];
    Obj* prot[MAXT][MAXG];          // logical protection: protect() completed and not cleared
    bool failed = false;
    std::string failure;
    bool odd = false;
    bool static_mode = false;                   // --static 1: notes for the trace tie
    atomics::atomic<int> barrier;               // static mode: attach | traced operations | tear-down
    void fail( std::string const& s ) { if ( !failed ) { failed = true; failure = s; } }
    // `defer_id` (static mode): the object gets its id - the machine's allocation counter - when it is published
    // (`name()` right after the exchange that links it, with no scheduling point in between), not when it is created
    int next_id = 0;
    Obj* make( bool defer_id = false )
    {
        // objects at odd addresses force HP's in-place scan onto the classic path (the low bit is its mark)
        char* b = new char[sizeof( Obj ) + 16];
        bufs.push_back( b );
        uintptr_t a = ( uintptr_t( b ) + 7 ) & ~uintptr_t( 7 );
        bool make_odd = odd && ( objs.size() % 3 == 1 );
        Obj* o = reinterpret_cast<Obj*>( a + ( make_odd ? 1 : 0 ));
        int z = 0;
        std::memcpy( &o->id, &z, sizeof z );
        std::memcpy( &o->disposed, &z, sizeof z ); std::memcpy( &o->retired, &z, sizeof z );
        objs.push_back( o );
        if ( !defer_id ) name( o );
        return o;
    }
    void name( Obj* o )
    {
        int id = ++next_id;
        std::memcpy( &o->id, &id, sizeof id );
        char nm[16]; std::snprintf( nm, sizeof nm, "o%d", id );
        // named from the aligned base: the trace renders an odd address as `o<id>|1` (pointer values are printed
        // as <name of p & ~3>|<low bits>)
        reg_name( reinterpret_cast<void*>( uintptr_t( o ) & ~uintptr_t( 7 )), sizeof( Obj ) + 1, nm );
    }
    ~World() { for ( char* b : bufs ) delete[] b; }
};
static World* W = nullptr;

static int geti( int const* p ) { int v; std::memcpy( &v, p, sizeof v ); return v; }
static void seti( int* p, int v ) { std::memcpy( p, &v, sizeof v ); }

struct obj_disposer {
    void operator()( Obj* p ) const
    {
        int d = geti( &p->disposed ) + 1;
        seti( &p->disposed, d );
        if ( W->static_mode ) ev_note( "dispose o" + std::to_string( geti( &p->id )));
        if ( d > 1 ) W->fail( "disposed-twice obj=" + std::to_string( geti( &p->id )));
        if ( !geti( &p->retired )) W->fail( "disposed-but-never-retired obj=" + std::to_string( geti( &p->id )));
        for ( int t = 0; t < MAXT; ++t )
            for ( int g = 0; g < MAXG; ++g )
                if ( W->prot[t][g] == p )
                    W->fail( "disposed-while-guarded obj=" + std::to_string( geti( &p->id )) + " thread=" + std::to_string( t ) + " guard=" + std::to_string( g ));
    }
};

struct ISmr {
    virtual ~ISmr() {}
    virtual void attach() = 0;
    virtual void detach() = 0;
    virtual void make_guards( int t, int n ) = 0;
    virtual void drop_guards( int t ) = 0;
    virtual Obj* protect( int t, int g, int c ) = 0;
    virtual void clear( int t, int g ) = 0;
    virtual void retire( Obj* p ) = 0;
    virtual void scan() = 0;
    virtual bool slot_holds( Obj* p ) = 0;      // does any hazard slot of any record hold p right now?
    virtual std::vector<Obj*> my_retired() { return {}; }   // content of the calling thread's retired array
    // static mode (HP only)
    virtual bool name_record( int ) { return true; }        // name the calling thread's hazard slots / retired array; false: guard g is not slot g
    virtual std::vector<void*> scan_order() { return {}; }  // the thread records in the order a scan walks them
    virtual void* my_record() { return nullptr; }
    virtual bool in_retired( Obj* ) { return false; }       // is p in some thread's retired array right now?
    virtual size_t retired_capacity() { return 0; }
    // static mode (DHP only)
    virtual std::vector<long> galloc( int, int ) { return {}; }   // construct Guard object h of thread t; returns { block, index } of its slot
    virtual void gfree( int, int ) {}
    virtual size_t retired_count() { return 0; }            // entries of the calling thread's retired chain
    virtual size_t retired_blocks() { return 0; }           // blocks of the calling thread's retired chain
    virtual bool push_fills() { return false; }             // will the next retired_array::push return false (the caller then scans)?
    virtual std::string dhp_header() { return std::string(); }
    virtual void destroy() = 0;
};

template <class GC>
struct SmrT : ISmr {
    std::unique_ptr<GC> gc;
    std::vector<std::unique_ptr<typename GC::Guard>> guards[MAXT];
    void attach() override { cds::threading::Manager::attachThread(); }
    void detach() override { cds::threading::Manager::detachThread(); }
    void make_guards( int t, int n ) override { for ( int i = 0; i < n; ++i ) guards[t].emplace_back( new typename GC::Guard ); }
    void drop_guards( int t ) override { guards[t].clear(); }
    Obj* protect( int t, int g, int c ) override { return guards[t][g]->protect( W->cells[c] ); }
    void clear( int t, int g ) override { guards[t][g]->clear(); }
    void retire( Obj* p ) override { GC::template retire<obj_disposer>( p ); }
    void scan() override { GC::scan(); }
    void destroy() override { for ( int t = 0; t < MAXT; ++t ) guards[t].clear(); gc.reset(); }
};

struct HpSmr : SmrT<cds::gc::HP> {
    HpSmr( size_t H, size_t T, size_t R, bool classic )
    {
        gc.reset( new cds::gc::HP( H, T, R, classic ? cds::gc::HP::scan_type::classic : cds::gc::HP::scan_type::inplace ));
    }
    std::vector<Obj*> my_retired() override
    {
        std::vector<Obj*> v;
        auto* rec = cds::gc::HP::hp_implementation::tls();
        for ( auto* it = rec->retired_.first(), *e = rec->retired_.last(); it != e; ++it )
            v.push_back( static_cast<Obj*>( it->m_p ));
        return v;
    }
    void* my_record() override { return cds::gc::HP::hp_implementation::tls(); }
    size_t retired_capacity() override { return cds::gc::hp::details::basic_smr::instance().get_max_retired_ptr_count(); }
    bool name_record( int t ) override
    {
        auto* rec = cds::gc::HP::hp_implementation::tls();
        char nm[32];
        bool ok = true;
        for ( size_t g = 0; g < rec->hazards_.capacity(); ++g ) {
            std::snprintf( nm, sizeof nm, "hp%d.%d", t, int( g ));
            reg_name( &rec->hazards_[g].hp_, sizeof( rec->hazards_[g].hp_ ), nm );
            if ( g < guards[t].size() && guards[t][g]->guard_ != &rec->hazards_[g] ) ok = false;
        }
        std::snprintf( nm, sizeof nm, "cur%d", t );
        reg_name( &rec->retired_.current_, sizeof( rec->retired_.current_ ), nm );
        std::snprintf( nm, sizeof nm, "ret%d", t );
        reg_name( rec->retired_.retired_, rec->retired_.capacity() * sizeof( cds::gc::hp::details::retired_ptr ), nm );
        return ok;
    }
    std::vector<void*> scan_order() override        // call while quiet
    {
        std::vector<void*> v;
        auto& smr = cds::gc::hp::details::basic_smr::instance();
        for ( auto* rec = smr.thread_list_.load(); rec; rec = rec->next_ )
            v.push_back( static_cast<cds::gc::hp::details::thread_data*>( rec ));
        return v;
    }
    bool in_retired( Obj* p ) override              // call while quiet
    {
        auto& smr = cds::gc::hp::details::basic_smr::instance();
        for ( auto* rec = smr.thread_list_.load(); rec; rec = rec->next_ )
            for ( auto* it = rec->retired_.first(), *e = rec->retired_.last(); it != e; ++it )
                if ( it->m_p == p ) return true;
        return false;
    }
    bool slot_holds( Obj* p ) override
    {
        auto& smr = cds::gc::hp::details::basic_smr::instance();
        for ( auto* rec = smr.thread_list_.load(); rec; rec = rec->next_ )
            for ( auto hp = rec->hazards_.begin(), e = rec->hazards_.end(); hp != e; ++hp )
                if ( hp->get() == p ) return true;
        return false;
    }
};

struct DhpSmr : SmrT<cds::gc::DHP> {
    explicit DhpSmr( size_t initial ) { gc.reset( new cds::gc::DHP( initial )); }
    bool slot_holds( Obj* ) override { return true; }     // not inspected for DHP (block lists): the clause is checked for HP only

    // ---- static mode (tie A against Algo/DHP/Model) ----
    typedef cds::gc::dhp::thread_data rec_t;
    // layout of smr::thread_record (defined in src/dhp.cpp): the list link follows the thread_data base
    struct rec_mirror : cds::gc::dhp::thread_data { rec_mirror* next_; };
    std::vector<cds::gc::dhp::guard_block*> blocks[MAXT];   // extension blocks of thread t's record, in linking order
    rec_t* recs[MAXT] = {};
    size_t block_size = 0;                                  // guards per extension block, measured on a block of the allocator

    static rec_t* rec() { return cds::gc::dhp::smr::tls(); }
    void* my_record() override { return rec(); }
    // guards per extension block: defaults::c_extended_guard_block_size is local to src/dhp.cpp; hp_allocator::alloc()
    // chains the guards of the block it returns, the chain is counted and the block is given back
    size_t probe_block_size()
    {
        auto& a = cds::gc::dhp::hp_allocator::instance();
        cds::gc::dhp::guard_block* b = a.alloc();
        size_t n = 0;
        for ( cds::gc::dhp::guard* g = b->first(); g; g = g->next_ ) ++n;
        a.free( b );
        return n;
    }
    std::string dhp_header() override
    {
        if ( !block_size ) block_size = probe_block_size();
        return "init=" + std::to_string( cds::gc::dhp::smr::instance().initial_hazard_count_ ) + " B=" + std::to_string( block_size )
            + " RB=" + std::to_string( cds::gc::dhp::retired_block::c_capacity );
    }
    bool name_record( int t ) override
    {
        rec_t* r = rec();
        recs[t] = r;
        char nm[40];
        for ( size_t g = 0; g < r->hazards_.initial_capacity_; ++g ) {
            std::snprintf( nm, sizeof nm, "hp%d.0.%d", t, int( g ));
            reg_name( &r->hazards_.array_[g].hp_, sizeof( r->hazards_.array_[g].hp_ ), nm );
        }
        std::snprintf( nm, sizeof nm, "ext%d", t );
        reg_name( &r->hazards_.extended_list_, sizeof( r->hazards_.extended_list_ ), nm );
        return true;
    }
    std::vector<void*> scan_order() override        // call while quiet
    {
        std::vector<void*> v;
        auto& smr = cds::gc::dhp::smr::instance();
        for ( rec_mirror* p = reinterpret_cast<rec_mirror*>( smr.thread_list_.load()); p; p = p->next_ )
            v.push_back( static_cast<rec_t*>( p ));
        return v;
    }
    std::pair<long, long> slot_of( int t, cds::gc::dhp::guard* g )
    {
        rec_t* r = recs[t];
        if ( g >= r->hazards_.array_ && g < r->hazards_.array_ + r->hazards_.initial_capacity_ )
            return { 0L, long( g - r->hazards_.array_ ) };
        for ( size_t k = 0; k < blocks[t].size(); ++k )
            if ( g >= blocks[t][k]->first() && g < blocks[t][k]->first() + block_size )
                return { long( k + 1 ), long( g - blocks[t][k]->first()) };
        return { -1L, -1L };
    }
    std::vector<long> galloc( int t, int h ) override
    {
        rec_t* r = rec();
        if ( size_t( h ) >= guards[t].size()) guards[t].resize( size_t( h ) + 1 );
        if ( r->hazards_.free_head_ != nullptr ) {
            // thread_hp_storage::alloc() pops the thread-local free list: one step, no atomic operation
            pseudo_begin();
            set_quiet( true );
            guards[t][h].reset( new cds::gc::DHP::Guard );
            set_quiet( false );
            std::pair<long, long> sl = slot_of( t, guards[t][h]->guard_ );
            pseudo_end( "galloc", "T" + std::to_string( t ), "hp" + std::to_string( t ) + "." + std::to_string( sl.first ) + "." + std::to_string( sl.second ));
            return { sl.first, sl.second };
        }
        // extend(): the block is linked by the traced store to extended_list_; it is named right after (no scheduling point
        // in between: names are resolved when the trace is rendered)
        guards[t][h].reset( new cds::gc::DHP::Guard );
        set_quiet( true );
        cds::gc::dhp::guard_block* b = r->hazards_.extended_list_.load();
        set_quiet( false );
        if ( b && ( blocks[t].empty() || blocks[t].back() != b )) {
            blocks[t].push_back( b );
            int k = int( blocks[t].size());
            char nm[48];
            std::snprintf( nm, sizeof nm, "gb%d.%d", t, k );
            reg_name( b, sizeof( cds::gc::dhp::guard_block ), nm );
            for ( size_t i = 0; i < block_size; ++i ) {
                std::snprintf( nm, sizeof nm, "hp%d.%d.%d", t, k, int( i ));
                reg_name( &b->first()[i].hp_, sizeof( b->first()[i].hp_ ), nm );
            }
        }
        std::pair<long, long> sl = slot_of( t, guards[t][h]->guard_ );
        return { sl.first, sl.second };
    }
    void gfree( int t, int h ) override { guards[t][h].reset(); }
    template <class F> static void each_retired( rec_t* r, F f )
    {
        auto& ra = r->retired_;
        for ( cds::gc::dhp::retired_block* b = ra.list_head_; b; b = b->next_ ) {
            cds::gc::dhp::retired_ptr* last = b == ra.current_block_ ? ra.current_cell_ : b->last();
            for ( cds::gc::dhp::retired_ptr* p = b->first(); p != last; ++p ) f( p->m_p );
            if ( b == ra.current_block_ ) break;
        }
    }
    size_t retired_count() override { size_t n = 0; each_retired( rec(), [&n]( void* ) { ++n; } ); return n; }
    size_t retired_blocks() override { return rec()->retired_.block_count_; }
    bool push_fills() override
    {
        auto& ra = rec()->retired_;
        return ra.current_cell_ + 1 == ra.current_block_->last() && ra.current_block_->next_ == nullptr;
    }
    bool in_retired( Obj* p ) override              // call while quiet
    {
        bool found = false;
        for ( int t = 0; t < MAXT; ++t )
            if ( recs[t] ) each_retired( recs[t], [&found, p]( void* q ) { if ( q == p ) found = true; } );
        return found;
    }
};

struct Fixture {
    static char const* family() { return "smr"; }
    static std::vector<std::string> variants() { return { "hp_inplace", "hp_classic", "hp_inplace_odd", "hp_classic_odd", "dhp", "dhp_many" }; }
    std::unique_ptr<World> world;
    std::unique_ptr<ISmr> smr;
    std::string variant;
    size_t H = 2, T = 4, R = 0;
    int nguards = 2, ncells = 2;
    bool failed = false;
    std::string failure;
    std::set<Obj*> myretired[MAXT];
    bool attached[MAXT];
    bool static_ = false;           // --static 1
    int nthreads = 0, nattached = 0;
    void* recptr[MAXT];

    size_t dhp_initial = 0;
    bool sdhp = false;              // --static 1 with a DHP variant: the guards are allocated / freed by the traced program
    int grow = 0;                   // --grow N (with sdhp): see program()
    explicit Fixture( Case const& c ) : variant( c.variant )
    {
        world.reset( new World );
        W = world.get();
        std::memset( W->prot, 0, sizeof W->prot );
        W->odd = variant.find( "odd" ) != std::string::npos;
        for ( int t = 0; t < MAXT; ++t ) { attached[t] = false; recptr[t] = nullptr; }
        static_ = c.optl( "static", 0 ) != 0;
        W->static_mode = static_;
        W->barrier.store( 0 );
        nthreads = c.threads;
        ncells = 1 + int( c.index % 3 );
        H = size_t( 1 + c.index % 3 );
        T = size_t( c.threads + int(( c.index / 3 ) % 2 ));
        nguards = int( H );
        // retired-array capacity: the default 2*H*T, the minimum the constructor accepts (H*T), or H*T+1
        switch (( c.index / 7 ) % 3 ) { case 0: R = 0; break; case 1: R = H * T + 1; break; default: R = H * T + 2; break; }
        if ( c.optl( "boundary", 0 )) R = H * T;
        if ( variant.compare( 0, 2, "hp" ) == 0 )
            smr.reset( new HpSmr( H, T, R, variant.find( "classic" ) != std::string::npos ));
        else {
            // initial guard count per thread: the default 16, values below it (extension blocks always hold 16 guards,
            // so block size and initial size differ) and one above it; values below 4 are mapped to 16 by the library
            static size_t const initials[] = { 16, 4, 8, 5, 32, 12 };
            dhp_initial = size_t( c.optl( "dhp_initial", long( initials[( c.index / 2 ) % 6] )));
            smr.reset( new DhpSmr( dhp_initial ));
            nguards = variant == "dhp_many" ? 40 : 3;        // 40 guards force two extension blocks of the thread's guard storage
            sdhp = static_;
            if ( sdhp ) nguards = variant == "dhp_many" ? 40 : 7;     // handles of Guard objects
            if ( sdhp ) grow = int( c.optl( "grow", 0 ));
            if ( grow >= MAXG ) grow = MAXG - 1;
            if ( grow > 0 && ncells < 2 ) ncells = 2;
        }
        for ( int i = 0; i < ncells; ++i ) {
            W->cells[i].store( W->make());
            char nm[16]; std::snprintf( nm, sizeof nm, "cell%d", i );
            reg_name( &W->cells[i], sizeof( W->cells[i] ), nm );
        }
        reg_name( &W->barrier, sizeof( W->barrier ), "barrier" );
    }
    // configuration of the Lean machine: H slots per record, T records (one per thread of the case, all attached for the
    // whole traced part), R the capacity of a retired array as the library rounded it, the cells filled at start
    std::string header_extra() const
    {
        if ( !static_ ) return std::string();
        if ( sdhp ) return "static=1 " + smr->dhp_header() + " T=" + std::to_string( nthreads ) + " cells=" + std::to_string( ncells );
        return "static=1 H=" + std::to_string( H ) + " T=" + std::to_string( nthreads ) + " R=" + std::to_string( smr->retired_capacity())
            + " cells=" + std::to_string( ncells ) + " maxT=" + std::to_string( T );
    }
    ~Fixture() { if ( smr ) smr->destroy(); W = nullptr; }
    std::string spec() const { return "none"; }

    std::vector<std::vector<Op>> program( Rng& r, int nthreads, int nops )
    {
        std::vector<std::vector<Op>> p( nthreads );
        bool many = variant == "dhp_many";
        if ( sdhp ) {
            // the machine's client with dynamic guards: every thread first constructs some Guard objects (dhp_many: up to
            // 40, i.e. beyond the initial array and the first extension block), then mixes galloc / gfree with the rest;
            // protect / clear / deref / gfree only name Guard objects that exist, galloc only ones that do not
            for ( int t = 0; t < nthreads; ++t ) {
                if ( t == 0 && grow > 0 ) {
                    // `--grow N`: thread 0 makes its retired chain grow past one block.  N objects are retired while one of
                    // its own guards protects them (protect, then swap the object out), then unguarded ones until the block
                    // of retired_block::c_capacity entries is full: DHP::retire runs a pass, which frees fewer than a quarter
                    // (N >= 3/4 of the capacity) and extends the chain; more retires go to the second block; passes before and
                    // after some guards are cleared
                    int cap = int( cds::gc::dhp::retired_block::c_capacity );
                    for ( int h = 0; h < grow; ++h ) {
                        p[0].push_back( Op( "galloc", h ));
                        p[0].push_back( Op( "protect", h, 0 ));
                        p[0].push_back( Op( "swap", 0 ));
                    }
                    // (cell 0 is only used by thread 0 in this mode; `take` empties it, so the following swap retires nothing)
                    for ( int retired = grow, i = 0; retired < cap + 5; ++i ) {
                        bool take = i % 7 == 3;
                        p[0].push_back( Op( take ? "take" : "swap", 0 ));
                        if ( take ) { ++retired; p[0].push_back( Op( "swap", 0 )); }
                        else ++retired;
                    }
                    p[0].push_back( Op( "scan" ));
                    for ( int h = 0; h < grow; h += 3 ) p[0].push_back( Op( h % 2 ? "clear" : "gfree", h ));
                    p[0].push_back( Op( "scan" ));
                    for ( int i = 0; i < 4; ++i ) p[0].push_back( Op( "swap", 0 ));
                    continue;
                }
                std::vector<int> linked, unlinked;
                int n0 = many ? int( r.below( 41 )) : 1 + int( r.below( 6 ));
                for ( int h = 0; h < nguards; ++h ) {
                    if ( h < n0 ) { p[t].push_back( Op( "galloc", h )); linked.push_back( h ); }
                    else unlinked.push_back( h );
                }
                int n = 2 + int( r.below( nops * 2 ));
                for ( int i = 0; i < n; ++i ) {
                    unsigned k = unsigned( r.below( 100 ));
                    long cell = grow > 0 ? 1 + long( r.below( ncells - 1 )) : long( r.below( ncells ));      // --grow: cell 0 is thread 0's
                    size_t li = linked.empty() ? 0 : size_t( r.below( linked.size()));
                    size_t ui = unlinked.empty() ? 0 : size_t( r.below( unlinked.size()));
                    if ( k < 22 && !linked.empty()) p[t].push_back( Op( "protect", linked[li], cell ));
                    else if ( k < 29 && !linked.empty()) p[t].push_back( Op( "clear", linked[li] ));
                    else if ( k < 36 && !linked.empty()) p[t].push_back( Op( "deref", linked[li] ));
                    else if ( k < 45 && !unlinked.empty()) {
                        p[t].push_back( Op( "galloc", unlinked[ui] ));
                        linked.push_back( unlinked[ui] ); unlinked.erase( unlinked.begin() + long( ui ));
                    }
                    else if ( k < 53 && !linked.empty()) {
                        p[t].push_back( Op( "gfree", linked[li] ));
                        unlinked.push_back( linked[li] ); linked.erase( linked.begin() + long( li ));
                    }
                    else if ( k < 78 ) p[t].push_back( Op( "swap", cell ));
                    else if ( k < 88 ) p[t].push_back( Op( "take", cell ));
                    else p[t].push_back( Op( "scan" ));
                }
            }
            return p;
        }
        for ( int t = 0; t < nthreads; ++t ) {
            int n = 2 + int( r.below( nops * 2 ));
            for ( int i = 0; i < n; ++i ) {
                unsigned k = unsigned( r.below( 100 ));
                int g = many ? int( r.below( 40 )) : int( r.below( nguards ));
                if ( static_ ) {
                    // the machine's client: no reattach, `take` besides `swap`
                    if ( k < 28 ) p[t].push_back( Op( "protect", g, long( r.below( ncells ))));
                    else if ( k < 38 ) p[t].push_back( Op( "clear", g ));
                    else if ( k < 68 ) p[t].push_back( Op( "swap", long( r.below( ncells ))));
                    else if ( k < 80 ) p[t].push_back( Op( "take", long( r.below( ncells ))));
                    else if ( k < 90 ) p[t].push_back( Op( "scan" ));
                    else p[t].push_back( Op( "deref", g ));
                }
                else if ( k < 30 ) p[t].push_back( Op( "protect", g, long( r.below( ncells ))));
                else if ( k < 45 ) p[t].push_back( Op( "clear", g ));
                else if ( k < 80 ) p[t].push_back( Op( "swap", long( r.below( ncells ))));
                else if ( k < 88 ) p[t].push_back( Op( "scan" ));
                else if ( k < 94 ) p[t].push_back( Op( "reattach" ));
                else p[t].push_back( Op( "deref", g ));
            }
        }
        return p;
    }
    // static mode: phase k ends when all threads have arrived k times.  The arrival is a traced write (it wakes the
    // threads that wait); waiting reads are unscheduled, a waiting thread yields
    void barrier( int phase )
    {
        W->barrier.fetch_add( 1 );
        for (;;) {
            set_quiet( true );
            int v = W->barrier.load();
            set_quiet( false );
            if ( v >= phase * nthreads ) break;
            spin_hint();
        }
    }
    void thread_begin( int t )
    {
        if ( !static_ ) { smr->attach(); attached[t] = true; smr->make_guards( t, nguards ); return; }
        set_quiet( true );
        smr->attach(); attached[t] = true;
        if ( !sdhp ) smr->make_guards( t, nguards );
        recptr[t] = smr->my_record();
        if ( !smr->name_record( t )) W->fail( "static-mode: guard g is not hazard slot g" );
        if ( ++nattached == nthreads ) {
            // every record exists: who owns the records, in the order a scan walks the list
            std::string s = "RECORDS";
            for ( void* rec : smr->scan_order()) {
                int owner = -1;
                for ( int u = 0; u < nthreads; ++u ) if ( recptr[u] == rec ) owner = u;
                s += ' ' + std::to_string( owner );
            }
            ev_note( s );
        }
        set_quiet( false );
        barrier( 1 );
    }
    void thread_end( int t )
    {
        if ( static_ ) { barrier( 2 ); set_quiet( true ); }     // records stay attached until every thread has finished its program
        // final quiet scan: with no other thread in between, whatever no slot holds must be freed (HP only)
        for ( int g = 0; g < MAXG; ++g ) if ( W->prot[t][g] ) { W->prot[t][g] = nullptr; }
        smr->drop_guards( t );
        quiet_scan( t );
        if ( static_ ) set_quiet( true );
        smr->detach(); attached[t] = false;
        if ( static_ ) set_quiet( false );
    }
    void quiet_scan( int t )
    {
        if ( variant.compare( 0, 2, "hp" ) != 0 ) return;
        set_quiet( true );
        // the objects this pass is responsible for: what the caller's retired array holds when the pass begins
        // (objects this thread retired earlier may have been adopted by another thread's help_scan since)
        std::vector<Obj*> mine = smr->my_retired();
        smr->scan();
        for ( Obj* o : mine )
            if ( geti( &o->disposed ) == 0 && !smr->slot_holds( o ))
                W->fail( "scan-left-unprotected-object obj=" + std::to_string( geti( &o->id )));
        set_quiet( false );
    }
    std::vector<long> exec( int t, Op const& op )
    {
        if ( op.name == "protect" ) {
            int g = int( op.args[0] ), c = int( op.args[1] );
            W->prot[t][g] = nullptr;                       // the guard is being re-targeted: it stops protecting its old object
            Obj* p = smr->protect( t, g, c );
            W->prot[t][g] = p;
            if ( p && geti( &p->disposed )) W->fail( "protect-returned-disposed obj=" + std::to_string( geti( &p->id )));
            if ( static_ ) return p ? std::vector<long>{ 1L, long( geti( &p->id )) } : std::vector<long>{ 0L };
            return { p ? long( geti( &p->id )) : 0L };
        }
        if ( op.name == "clear" ) { int g = int( op.args[0] ); W->prot[t][g] = nullptr; smr->clear( t, g ); return {}; }
        if ( op.name == "galloc" ) return smr->galloc( t, int( op.args[0] ));
        if ( op.name == "gfree" ) { int g = int( op.args[0] ); W->prot[t][g] = nullptr; smr->gfree( t, g ); return {}; }
        if ( op.name == "deref" ) {
            Obj* p = W->prot[t][int( op.args[0] )];
            if ( static_ ) {
                // the machine's `deref` is only enabled on a guard that holds an object (-1: not executed); the use is a
                // step of its own that observes the object's state
                if ( !p ) return { -1L };
                pseudo_begin();
                set_quiet( true );
                int st = geti( &p->disposed ) ? 3 : smr->in_retired( p ) ? 2 : 1;
                set_quiet( false );
                static char const* const names[] = { "", "live", "retired", "disposed" };
                pseudo_end( "use", "o" + std::to_string( geti( &p->id )), names[st] );
                if ( st == 3 ) W->fail( "deref-of-disposed obj=" + std::to_string( geti( &p->id )));
                return { long( st ) };
            }
            if ( p && geti( &p->disposed )) W->fail( "deref-of-disposed obj=" + std::to_string( geti( &p->id )));
            return { p ? long( geti( &p->id )) : 0L };
        }
        if ( op.name == "swap" || op.name == "take" ) {
            Obj* n = op.name == "swap" ? W->make( static_ ) : nullptr;
            Obj* old = W->cells[int( op.args[0] )].exchange( n );
            if ( static_ && n ) W->name( n );
            if ( old ) {                                     // unlinked: now, and only now, it may be retired
                seti( &old->retired, 1 );
                myretired[t].insert( old );
                if ( sdhp ) {
                    // retired_array::push is thread-local: the pseudo-event marks it (the push follows with no scheduling
                    // point in between); when the push fills the last block, DHP::retire runs a reclamation pass
                    pseudo_begin();
                    set_quiet( true );
                    size_t n = smr->retired_count() + 1;
                    bool pass = smr->push_fills();
                    set_quiet( false );
                    pseudo_end( "retire", "T" + std::to_string( t ), "o" + std::to_string( geti( &old->id )), std::to_string( n ));
                    smr->retire( old );
                    if ( pass ) ev_note( "scanned " + std::to_string( smr->retired_blocks()));
                }
                else
                    smr->retire( old );
            }
            if ( static_ && n ) return { long( geti( &n->id )), old ? long( geti( &old->id )) : 0L };
            return { old ? long( geti( &old->id )) : 0L };
        }
        if ( op.name == "scan" ) {
            smr->scan();
            if ( sdhp ) ev_note( "scanned " + std::to_string( smr->retired_blocks()));
            return {};
        }
        if ( op.name == "reattach" ) {
            for ( int g = 0; g < MAXG; ++g ) W->prot[t][g] = nullptr;
            smr->drop_guards( t );
            smr->detach(); attached[t] = false;
            smr->attach(); attached[t] = true;
            smr->make_guards( t, nguards );
            return {};
        }
        return {};
    }
    void finish( std::ostream& out )
    {
        // destruction of the singleton: every retired object must now have been disposed exactly once
        smr->destroy();
        smr.reset();
        size_t retired = 0, disposed = 0;
        for ( Obj* o : W->objs ) {
            int r = geti( &o->retired ), d = geti( &o->disposed );
            retired += r; disposed += d;
            if ( r && d != 1 ) W->fail( "retired-object-disposed-" + std::to_string( d ) + "-times obj=" + std::to_string( geti( &o->id )));
            if ( !r && d ) W->fail( "unretired-object-disposed obj=" + std::to_string( geti( &o->id )));
        }
        out << "# retired=" << retired << " disposed=" << disposed << " H=" << H << " T=" << T << " R=" << R << " dhp_initial=" << dhp_initial << '\n';
        failed = W->failed; failure = W->failure;
    }
};

int main( int argc, char** argv )
{
    cds::Initialize();
    int rc = client_main<Fixture>( argc, argv );
    cds::Terminate();
    return rc;
}

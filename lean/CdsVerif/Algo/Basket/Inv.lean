/-
  Structural invariant of the BasketQueue model.

  The published nodes are split into three collections:
    * `G` ("gone"): nodes that `m_pHead` has left (via `free_chain`); their links are marked and never change;
    * `M` : the nodes from `m_pHead` on whose link is marked (logically deleted, not yet unlinked);
    * `Q` : the rest: `Q.head` is the node dequeued last (the current dummy: its link is not marked), `Q.tail` are the
      items of the queue.  `Chain s.nptr (some s.head) (M ++ Q)`: following `m_pNext` from `m_pHead` visits `M`,
      then `Q`, then null.
  `absQueue s` : the values of `Q.tail`.

  Marks are a PREFIX of the chain from `head`, a dequeuer marks the link of `Q.head` (it reaches it from a node that was
  `head` along marked links only: `low`), `m_pHead` only moves forward along the chain (`mids`, `deqh`) — so a stale
  `h` never becomes `head` again —, an enqueuer links its node behind a node whose link is not marked: at the end of
  the chain (first CAS) or — the basket — in the MIDDLE of `Q`, right behind its tail candidate `t`, in FRONT of the
  nodes that were linked behind `t` since the enqueuer read `t->m_pNext == null`.  This is why the order of the
  abstract queue is not the order of the linking CASes (see `Props/C06Basket.lean`).
-/
import CdsVerif.Algo.Basket.Model
import CdsVerif.Algo.QueueLin.Chain
import CdsVerif.Algo.QueueLin.History
namespace CdsVerif.Algo.Basket
open CdsVerif.Machine CdsVerif.Spec CdsVerif.Lin CdsVerif.Algo.QueueLin

/-- The nodes reachable from `head` (fuel: the number of nodes ever allocated). -/
def absNodes (s : St) : List Nat := walk s.nptr s.cnt (some s.head)
/-- ... without the logically deleted prefix: the current dummy first, then the items. -/
def liveNodes (s : St) : List Nat := (absNodes s).dropWhile (fun a => s.nbit a && (s.nptr a).isSome)
/-- The abstract queue. -/
def absQueue (s : St) : List Int := (liveNodes s).tail.map s.val

/-- The node an enqueuer still owns privately (before its successful linking CAS). -/
def enqNode : PC → Option Nat
  | .enqLd1 n => some n
  | .enqLd2 n _ => some n
  | .enqNext n _ => some n
  | .enqInit n _ _ => some n
  | .enqCas n _ _ => some n
  | .bkLd1 n _ => some n
  | .bkLd2 n _ _ => some n
  | .bkTail n _ _ => some n
  | .bkChk n _ _ => some n
  | .bkSet n _ _ => some n
  | .bkCas n _ _ => some n
  | .fxTail n _ _ => some n
  | .fxChk n _ _ => some n
  | .fxWalk n _ _ => some n
  | .fxWTail n _ _ _ => some n
  | .fxWChk n _ _ _ => some n
  | .fxCas n _ _ => some n
  | .crash (some n) none => some n
  | _ => none

/-- Nodes held by a thread that it will dereference or install: they are published. -/
def wnodes : PC → List Nat
  | .enqNext _ a => [a]
  | .enqInit _ a _ => [a]
  | .enqCas _ a _ => [a]
  | .enqSwing n _ => [n]
  | .bkLd1 _ a => [a]
  | .bkLd2 _ a _ => [a]
  | .bkTail _ a _ => [a]
  | .bkChk _ a _ => [a]
  | .bkSet _ a _ => [a]
  | .bkCas _ a _ => [a]
  | .fxTail _ a _ => [a]
  | .fxChk _ a _ => [a]
  | .fxWalk _ _ c => [c]
  | .fxWTail _ _ c _ => [c]
  | .fxWChk _ _ c _ => [c]
  | .fxCas _ _ c => [c]
  | .dLdT1 h => [h]
  | .dLdT2 h _ => [h]
  | .dNx1 h _ => [h]
  | .dNx2 h _ _ => [h]
  | .dChk h _ (some c, _) => [h, c]
  | .dChk h _ (none, _) => [h]
  | .hpWalk _ _ c => [c]
  | .hpTail _ _ c => [c]
  | .hpP1 _ _ c => [c]
  | .hpP2 _ _ c _ => [c]
  | .hpCas _ _ c => [c]
  | .skHead _ _ it _ _ => [it]
  | .skP1 _ _ it _ => [it]
  | .skP2 _ _ it _ _ => [it]
  | .dChk2 _ _ it _ _ => [it]
  | .dMark _ it _ _ => [it]
  | .fcCas _ nw _ => [nw]
  | .fcP1 c _ _ => [c]
  | .fcP2 c _ _ _ => [c]
  | _ => []

/-- Nodes that were reached from a former `head` along marked links: they are gone, marked, or the current dummy. -/
def lows : PC → List Nat
  | .skHead _ _ it _ _ => [it]
  | .skP1 _ _ it _ => [it]
  | .skP2 _ _ it _ _ => [it]
  | .dChk2 _ _ it _ _ => [it]
  | .dMark _ it _ _ => [it]
  | _ => []

/-- The head candidate of a dequeuer. -/
def deqH : PC → Option Nat
  | .dLdT1 h => some h
  | .dLdT2 h _ => some h
  | .dNx1 h _ => some h
  | .dNx2 h _ _ => some h
  | .dChk h _ _ => some h
  | .hpWalk h _ _ => some h
  | .hpTail h _ _ => some h
  | .hpP1 h _ _ => some h
  | .hpP2 h _ _ _ => some h
  | .hpCas h _ _ => some h
  | .skHead h _ _ _ _ => some h
  | .skP1 h _ _ _ => some h
  | .skP2 h _ _ _ _ => some h
  | .dChk2 h _ _ _ _ => some h
  | .dMark h _ _ _ => some h
  | .fcCas h _ _ => some h
  | _ => none

/-- `(h, x)`: while `h` is still `head`, `x` is a marked node on the chain from `head` or the current dummy. -/
def midOf : PC → Option (Nat × Nat)
  | .skHead h _ it _ _ => some (h, it)
  | .skP1 h _ it _ => some (h, it)
  | .skP2 h _ it _ _ => some (h, it)
  | .dChk2 h _ it _ _ => some (h, it)
  | .fcCas h nw _ => some (h, nw)
  | _ => none

/-- A link `a.next = v` that the thread has observed (or written into its own node) and relies on. -/
def linkOf : PC → Option (Nat × MP)
  | .enqCas n _ _ => some (n, (none, false))
  | .bkCas n _ p => some (n, p)
  | .skHead _ _ it p _ => some (it, p)
  | .dChk h _ (some c, true) => some (h, (some c, true))
  | _ => none

/-- Facts about the arguments of a program point (established by the tests that lead there). -/
def pcFact : PC → Prop
  | .skHead _ _ _ p _ => p.2 = true ∧ p.1 ≠ none
  | .bkSet _ _ p => p.2 = false
  | .bkCas _ _ p => p.2 = false
  | .dMark _ _ p _ => p.1 = none ∨ p.2 = false
  | _ => True

def Pub (s : St) (a : Nat) : Prop := a < s.cnt ∧ ∀ t, enqNode (s.pc t) ≠ some a

/-- `x` is gone, marked, or the current dummy. -/
def Low (G M Q : List Nat) (x : Nat) : Prop := x ∈ G ∨ x ∈ M ∨ Q.head? = some x
/-- `x` is a marked node on the chain from `head`, or the current dummy. -/
def Mid (M Q : List Nat) (x : Nat) : Prop := x ∈ M ∨ Q.head? = some x

structure SInvL (s : St) (G M Q : List Nat) : Prop where
  chain : Chain s.nptr (some s.head) (M ++ Q)
  nodup : (M ++ Q).Nodup
  gdis : ∀ a, a ∈ G → a ∉ M ++ Q
  qne : Q ≠ []
  bG : ∀ a, a ∈ G → s.nbit a = true ∧ s.nptr a ≠ none
  bM : ∀ a, a ∈ M → s.nbit a = true ∧ s.nptr a ≠ none
  bQ : ∀ a, a ∈ Q → s.nptr a ≠ none → s.nbit a = false
  gsucc : ∀ g x, g ∈ G → s.nptr g = some x → Low G M Q x
  pub : ∀ a, a ∈ G ++ (M ++ Q) → Pub s a
  priv : ∀ t n, enqNode (s.pc t) = some n → n < s.cnt
  own : ∀ t1 t2 n, enqNode (s.pc t1) = some n → enqNode (s.pc t2) = some n → t1 = t2
  tailw : s.tail ∈ G ++ (M ++ Q)
  inw : ∀ t a, a ∈ wnodes (s.pc t) → a ∈ G ++ (M ++ Q)
  low : ∀ t x, x ∈ lows (s.pc t) → Low G M Q x
  deqh : ∀ t h, deqH (s.pc t) = some h → h ∈ M ++ Q → s.head = h
  dhw : ∀ t h, deqH (s.pc t) = some h → h ∈ G ++ (M ++ Q)
  mids : ∀ t h x, midOf (s.pc t) = some (h, x) → s.head = h → Mid M Q x
  dck : ∀ t h a it p hops, s.pc t = .dChk2 h a it p hops → s.head = h → (p.1 = none ∨ p.2 = false ∨ it = a)
  link : ∀ t a v, linkOf (s.pc t) = some (a, v) → s.next a = v
  pcf : ∀ t, pcFact (s.pc t)

def SInv (s : St) : Prop := ∃ G M Q, SInvL s G M Q

/-! ### Consequences -/

theorem SInvL.head_first {s : St} {G M Q : List Nat} (h : SInvL s G M Q) : (M ++ Q).head? = some s.head := by
  have hc := h.chain
  cases hl : M ++ Q with
  | nil => rw [hl] at hc; simp [Chain] at hc
  | cons a r => rw [hl] at hc; simp only [Chain, Option.some.injEq] at hc; simp [hc.1]

theorem SInvL.head_mid {s : St} {G M Q : List Nat} (h : SInvL s G M Q) : Mid M Q s.head := by
  have := h.head_first
  cases M with
  | nil => right; simpa using this
  | cons a r => left; simp at this; simp [this]

/-- The successor of a published node is published. -/
theorem SInvL.wsucc {s : St} {G M Q : List Nat} (h : SInvL s G M Q) {a x : Nat}
    (ha : a ∈ G ++ (M ++ Q)) (hx : s.nptr a = some x) : x ∈ G ++ (M ++ Q) := by
  rcases List.mem_append.mp ha with hg | hl
  · rcases h.gsucc a x hg hx with h1 | h1 | h1
    · exact List.mem_append_left _ h1
    · exact List.mem_append_right _ (List.mem_append_left _ h1)
    · exact List.mem_append_right _ (List.mem_append_right _ (List.mem_of_mem_head? h1))
  · exact List.mem_append_right _ (List.mem_of_mem_tail (Chain.succ_mem h.chain hl hx))

/-- The successor of a marked node on the chain from `head` is marked or the current dummy. -/
theorem chain_mid_succ {nx : Nat → Option Nat} {a x : Nat} : ∀ {p : Option Nat} {M Q : List Nat},
    Chain nx p (M ++ Q) → a ∈ M → nx a = some x → Mid M Q x
  | _, [], _, _, ha, _ => by simp at ha
  | _, b :: M, Q, hc, ha, hx => by
    simp only [List.cons_append, Chain] at hc
    by_cases e : a = b
    · subst e
      rw [hx] at hc
      cases M with
      | nil =>
        right
        cases Q with
        | nil => simp [Chain] at hc
        | cons q r => simp only [List.nil_append, Chain, Option.some.injEq] at hc; simp [hc.2.1]
      | cons c M' =>
        left
        simp only [List.cons_append, Chain, Option.some.injEq] at hc
        simp [hc.2.1]
    · have hm : a ∈ M := by simpa [e] using ha
      rcases chain_mid_succ hc.2 hm hx with h1 | h1
      · exact Or.inl (List.mem_cons_of_mem _ h1)
      · exact Or.inr h1

theorem SInvL.low_succ {s : St} {G M Q : List Nat} (h : SInvL s G M Q) {a x : Nat}
    (ha : a ∈ G ∨ a ∈ M) (hx : s.nptr a = some x) : Low G M Q x := by
  rcases ha with hg | hm
  · exact h.gsucc a x hg hx
  · rcases chain_mid_succ h.chain hm hx with h1 | h1
    · exact Or.inr (Or.inl h1)
    · exact Or.inr (Or.inr h1)

/-- Linking a node right behind a chain node (the basket). -/
theorem Chain.insertAfter {nx : Nat → Option Nat} {a n : Nat} : ∀ {p : Option Nat} {X Y : List Nat},
    Chain nx p (X ++ a :: Y) → (X ++ a :: Y).Nodup → n ∉ X ++ a :: Y → nx n = nx a →
    Chain (Machine.upd nx a (some n)) p (X ++ a :: n :: Y)
  | _, [], Y, hc, hnd, hn, hnn => by
    simp only [List.nil_append, Chain] at hc ⊢
    have hna : n ≠ a := fun e => hn (by simp [e])
    have haY : a ∉ Y := (List.nodup_cons.mp hnd).1
    refine ⟨hc.1, by simp, ?_⟩
    rw [upd_other _ _ _ _ hna, hnn]
    exact Chain.upd haY hc.2
  | _, x :: X, Y, hc, hnd, hn, hnn => by
    simp only [List.cons_append, Chain] at hc ⊢
    have hnd' := List.nodup_cons.mp hnd
    have hxa : x ≠ a := fun e => hnd'.1 (by simp [e])
    refine ⟨hc.1, ?_⟩
    rw [upd_other _ _ _ _ hxa]
    exact Chain.insertAfter hc.2 hnd'.2 (fun hm => hn (List.mem_cons_of_mem _ hm)) hnn

/-- The chain from a later node. -/
theorem Chain.drop_prefix {nx : Nat → Option Nat} {b : Nat} : ∀ {p : Option Nat} {A B : List Nat},
    Chain nx p (A ++ b :: B) → Chain nx (some b) (b :: B)
  | _, [], B, hc => by simp only [List.nil_append, Chain] at hc ⊢; exact ⟨trivial, hc.2⟩
  | _, a :: A, B, hc => by
    simp only [List.cons_append, Chain] at hc
    exact Chain.drop_prefix hc.2

theorem dropWhile_prefix {α : Type} (p : α → Bool) : ∀ (M Q : List α), (∀ a ∈ M, p a = true) → (∀ a, Q.head? = some a → p a = false) →
    (M ++ Q).dropWhile p = Q
  | [], Q, _, hq => by
    cases Q with
    | nil => rfl
    | cons a r => simp [List.dropWhile, hq a (by simp)]
  | m :: M, Q, hm, hq => by
    simp only [List.cons_append, List.dropWhile, hm m (by simp)]
    exact dropWhile_prefix p M Q (fun a ha => hm a (List.mem_cons_of_mem _ ha)) hq

theorem SInvL.absNodes_eq {s : St} {G M Q : List Nat} (h : SInvL s G M Q) : absNodes s = M ++ Q :=
  walk_of_chain h.chain (length_le_of_nodup_lt h.nodup
    (fun a ha => (h.pub a (List.mem_append_right _ ha)).1))

theorem SInvL.liveNodes_eq {s : St} {G M Q : List Nat} (h : SInvL s G M Q) : liveNodes s = Q := by
  unfold liveNodes
  rw [h.absNodes_eq]
  apply dropWhile_prefix
  · intro a ha; have := h.bM a ha; cases hp : s.nptr a <;> simp_all
  · intro a ha
    have haQ : a ∈ Q := List.mem_of_mem_head? ha
    have := h.bQ a haQ
    cases hp : s.nptr a <;> simp_all

theorem SInvL.absQueue_eq {s : St} {G M Q : List Nat} (h : SInvL s G M Q) : absQueue s = Q.tail.map s.val := by
  simp [absQueue, h.liveNodes_eq]

theorem sinv_initW (mh warm : Nat) : SInvL (initW mh warm) [] (List.range warm) [warm] := by
  have hch : ∀ (k i : Nat), Chain (fun a => if a < i + k then some (a + 1) else none) (some i)
      (List.range' i k ++ [i + k]) := by
    intro k
    induction k with
    | zero => intro i; simp [Chain]
    | succ k ih =>
      intro i
      simp only [List.range'_succ, List.cons_append, Chain, true_and]
      have : i < i + (k + 1) := by omega
      simp only [this, if_true]
      have e : i + (k + 1) = (i + 1) + k := by omega
      rw [e]; exact ih (i + 1)
  constructor
  · have := hch warm 0
    simp only [Nat.zero_add] at this
    simpa [initW, dummy, List.range_eq_range'] using this
  · simp only [List.nodup_append, List.nodup_range]
    refine ⟨trivial, by simp, ?_⟩
    intro a ha b hb; simp at ha hb; omega
  all_goals simp [initW, enqNode, wnodes, lows, deqH, midOf, linkOf, pcFact, Pub, Low, Mid, St.next]
  all_goals (intros; omega)

/-! ### Linearization-point bookkeeping on program counters -/

def postRet : PC → Option GRet
  | .enqSwing _ _ => some [1]
  | .fcCas _ _ (some v) => some [1, v]
  | .fcP1 _ _ (some v) => some [1, v]
  | .fcP2 _ _ _ (some v) => some [1, v]
  | .crash _ (some v) => some [1, v]
  | .done r => some r
  | _ => none

def lpRet : PC → Option GRet
  | .enqSwing _ _ => some [1]
  | .fcCas _ _ (some v) => some [1, v]
  | .fcP1 _ _ (some v) => some [1, v]
  | .fcP2 _ _ _ (some v) => some [1, v]
  | .crash _ (some v) => some [1, v]
  | .dChk h a p => if h = a ∧ p.1 = none then some [0] else none
  | .done r => some r
  | _ => none

def opOf (val : Nat → Int) (pc : PC) : Option GOp :=
  match enqNode pc with
  | some n => some ⟨"enq", [val n]⟩
  | none =>
    match pc with
    | .idle => none
    | .enqSwing _ _ => none
    | .done _ => none
    | .fcCas _ _ (some _) => none
    | .fcP1 _ _ (some _) => none
    | .fcP2 _ _ _ (some _) => none
    | .crash _ (some _) => none
    | _ => some ⟨"deq", []⟩

/-- The effect of a linearization point on the abstract queue.  A `deq` is the `fifo` transition; an `enq v` inserts
    `v` SOMEWHERE: `Y` are the items it overtakes (`Y = []` for the first CAS of `enqueue`: a `fifo` transition). -/
def BEff (q : List Int) (op : GOp) (r : GRet) (q' : List Int) : Prop :=
  (∃ v X Y, op = ⟨"enq", [v]⟩ ∧ r = [1] ∧ q = X ++ Y ∧ q' = X ++ v :: Y) ∨
  (op = ⟨"deq", []⟩ ∧ fifo.next q op r = some q')

structure StepEff (s : St) (t : Tid) (s' : St) (Q Q' : List Nat) : Prop where
  frame : ∀ t2, t2 ≠ t → s'.pc t2 = s.pc t2
  val : s'.val = s.val
  cnt : s'.cnt = s.cnt
  lp : lpRet (s.pc t) = none → ∀ r, lpRet (s'.pc t) = some r →
        ∃ op, opOf s.val (s.pc t) = some op ∧ BEff (Q.tail.map s.val) op r (Q'.tail.map s.val)
  nolp : (lpRet (s.pc t) ≠ none ∨ lpRet (s'.pc t) = none) → Q' = Q
  keep : ∀ r, lpRet (s.pc t) = some r → lpRet (s'.pc t) = some r ∨ (r = [0] ∧ lpRet (s'.pc t) = none)
  op : postRet (s'.pc t) = none → opOf s'.val (s'.pc t) = opOf s.val (s.pc t)
  emp : lpRet (s.pc t) = none → lpRet (s'.pc t) = some [0] →
        ∃ h b, s.pc t = .dNx2 h h (none, b) ∧ s.head = h ∧ s.nptr h = none ∧ Q = [h]
  sub : ∀ a, a ∈ Q' → a ∈ Q ∨ enqNode (s.pc t) = some a

theorem pub_mk (mh hd tl : Nat) (np : Nat → Option Nat) (nb : Nat → Bool) (vl : Nat → Int) (cnt : Nat) (pc : Tid → PC)
    (t : Tid) (pc' : PC) (a : Nat) :
    Pub ⟨mh, hd, tl, np, nb, vl, cnt, upd pc t pc'⟩ a ↔
      (a < cnt ∧ enqNode pc' ≠ some a ∧ ∀ t2, t2 ≠ t → enqNode (pc t2) ≠ some a) := by
  simp only [Pub, upd]
  constructor
  · intro ⟨h1, h2⟩
    refine ⟨h1, ?_, ?_⟩
    · have := h2 t; simpa using this
    · intro t2 ht; have := h2 t2; simpa [ht] using this
  · intro ⟨h1, h2, h3⟩
    refine ⟨h1, fun t2 => ?_⟩
    by_cases ht : t2 = t
    · simp [ht, h2]
    · simp [ht, h3 t2 ht]

end CdsVerif.Algo.Basket

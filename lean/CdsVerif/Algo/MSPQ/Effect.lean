/-
  MSPriorityQueue machine: what one action may change (the "writes under lock" half of the lock discipline).

  `step_effect`: a step of thread `t` leaves the program counters of the other threads alone; a node whose value or
  tag it changes is a node whose lock `t` holds after the step and that nobody else held before the step; the item
  counter changes only in the step in which `t` takes the size lock.
-/
import CdsVerif.Algo.MSPQ.Inv
namespace CdsVerif.Algo.MSPQ
open CdsVerif.Machine CdsVerif.Spec

/-- What thread `t` may have changed between `s` and `s'`. -/
structure Effect (s s' : St) (t : Tid) : Prop where
  pcs : ∀ t', t' ≠ t → s'.pc t' = s.pc t'
  node : ∀ j, s'.tag j ≠ s.tag j ∨ s'.val j ≠ s.val j → s'.own j = some t ∧ (s.own j = some t ∨ s.own j = none)
  cnt : s'.cnt ≠ s.cnt → s'.own 0 = some t ∧ s.own 0 = none

macro "egrind" : tactic =>
  `(tactic| grind (splits := 12) [upd, K.lock, St.setPc, rel, pushLoop, popLoop])

macro "eff_all" : tactic =>
  `(tactic| (constructor <;> intros <;> (try dsimp only [St.setPc, rel] at *) <;> egrind))

set_option maxHeartbeats 1000000 in
theorem effect_after {c : Cfg} {s s' : St} {t : Tid} {k : K} (h : LInv c s)
    (hpc : s.pc t = .acq k) (hl : s.lk k.lock = false)
    (hs : after c { s with lk := upd s.lk k.lock true, own := upd s.own k.lock (some t) } t k = some s') :
    Effect s s' t := by
  have hown := h.lk0 _ hl
  have hmine : ∀ l, holds (s.pc t) l → s.own l = some t := fun l => h.ow2 l t
  have hwf := h.wfp t
  simp only [hpc, holds, wf] at hmine hwf
  cases k with
  | pSz v =>
    simp only [after] at hs
    simp only [K.lock, kHolds, kWf] at hown hmine hwf
    split at hs <;> simp at hs <;> subst hs <;> eff_all
  | pNode v i => simp only [after] at hs; simp at hs; subst hs; eff_all
  | hPar i => simp only [after] at hs; simp at hs; subst hs; eff_all
  | hItem i =>
    simp only [after] at hs
    simp only [K.lock, kHolds, kWf] at hown hmine hwf
    split at hs
    · split at hs
      · split at hs <;> simp at hs <;> subst hs <;> eff_all
      · simp at hs
    · split at hs
      · simp at hs; subst hs; eff_all
      · split at hs <;> simp at hs <;> subst hs <;> eff_all
  | hRoot =>
    simp only [after] at hs
    simp only [K.lock, kHolds, kWf] at hown hmine hwf
    split at hs <;> simp at hs <;> subst hs <;> eff_all
  | oSz =>
    simp only [after] at hs
    simp only [K.lock, kHolds, kWf] at hown hmine hwf
    split at hs <;> simp at hs <;> subst hs <;> eff_all
  | oTop b =>
    simp only [after] at hs
    simp only [K.lock, kHolds, kWf] at hown hmine hwf
    split at hs <;> simp at hs <;> subst hs <;> eff_all
  | oBot b => simp only [after] at hs; simp at hs; subst hs; eff_all
  | dChild par ch pv =>
    simp only [after] at hs
    simp only [K.lock, kHolds, kWf] at hown hmine hwf
    split at hs
    · simp at hs; subst hs; eff_all
    · split at hs
      · simp at hs; subst hs; eff_all
      · unfold dCompare at hs
        split at hs
        · split at hs <;> simp at hs <;> subst hs <;> eff_all
        · simp at hs
  | dRight par ch pv =>
    simp only [after] at hs
    split at hs
    · simp at hs; subst hs; eff_all
    · split at hs
      · split at hs <;> simp at hs <;> subst hs <;> eff_all
      · simp at hs

set_option maxHeartbeats 1000000 in
theorem step_effect {c : Cfg} {s s' : St} {t : Tid} {ev : Ev} (h : LInv c s)
    (hs : step c s t = some (s', ev)) : Effect s s' t := by
  have hmine : ∀ l, holds (s.pc t) l → s.own l = some t := fun l => h.ow2 l t
  have hwf := h.wfp t
  cases hpc : s.pc t with
  | acq k =>
    rcases step_acq hpc hs with ⟨hl, rfl⟩ | ⟨hl, ha⟩
    · eff_all
    · exact effect_after h hpc hl ha
  | spin k =>
    simp only [step, hpc] at hs
    simp at hs; obtain ⟨rfl, -⟩ := hs
    eff_all
  | dUnlLeft par ch pv =>
    simp only [step, hpc, Option.map_eq_some_iff, Prod.mk.injEq] at hs
    obtain ⟨s1, h1, rfl, -⟩ := hs
    simp only [hpc, holds, wf] at hmine hwf
    unfold dCompare at h1
    split at h1
    · split at h1 <;> simp at h1 <;> subst h1 <;> eff_all
    · simp at h1
  | dUnlRight par ch pv =>
    simp only [step, hpc, Option.map_eq_some_iff, Prod.mk.injEq] at hs
    obtain ⟨s1, h1, rfl, -⟩ := hs
    simp only [hpc, holds, wf] at hmine hwf
    unfold dCompare at h1
    split at h1
    · split at h1 <;> simp at h1 <;> subst h1 <;> eff_all
    · simp at h1
  | oUnlBot b pv =>
    simp only [step, hpc] at hs
    simp only [hpc, holds, wf] at hmine hwf
    split at hs <;> simp at hs <;> obtain ⟨rfl, -⟩ := hs <;> eff_all
  | idle => simp [step, hpc] at hs
  | pFail => simp [step, hpc] at hs
  | pOk => simp [step, hpc] at hs
  | oFail => simp [step, hpc] at hs
  | oDone pv => simp [step, hpc] at hs
  | _ =>
    simp only [step, hpc] at hs
    simp only [hpc, holds, wf] at hmine hwf
    simp at hs; obtain ⟨rfl, -⟩ := hs
    eff_all

theorem invoke_effect {c : Cfg} {s s' : St} {t : Tid} {op : GOp} (hs : invoke c s t op = some s') :
    Effect s s' t ∧ s'.tag = s.tag ∧ s'.val = s.val ∧ s'.cnt = s.cnt ∧ s'.own = s.own ∧ s'.lk = s.lk ∧
      s'.ins = s.ins ∧ s'.outs = s.outs := by
  unfold invoke at hs
  split at hs
  · split at hs
    · simp at hs; subst hs; refine ⟨?_, rfl, rfl, rfl, rfl, rfl, rfl, rfl⟩; eff_all
    · simp at hs; subst hs; refine ⟨?_, rfl, rfl, rfl, rfl, rfl, rfl, rfl⟩; eff_all
    · simp at hs
  · simp at hs

theorem result_effect {c : Cfg} {s s' : St} {t : Tid} {r : GRet} (hs : result c s t = some (s', r)) :
    Effect s s' t ∧ s'.tag = s.tag ∧ s'.val = s.val ∧ s'.cnt = s.cnt ∧ s'.own = s.own ∧ s'.lk = s.lk ∧
      s'.pc = upd s.pc t .idle := by
  unfold result at hs
  split at hs <;> simp at hs <;> obtain ⟨rfl, -⟩ := hs <;>
    refine ⟨?_, rfl, rfl, rfl, rfl, rfl, rfl⟩ <;> eff_all

end CdsVerif.Algo.MSPQ

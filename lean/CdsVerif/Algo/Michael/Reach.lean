/-
  The MichaelList invariant holds in every reachable state; consequences.
-/
import CdsVerif.Algo.Michael.StepSearch
import CdsVerif.Algo.Michael.StepCas
namespace CdsVerif.Algo.Michael
open CdsVerif.Machine CdsVerif.Spec CdsVerif.Lin

structure InvokeEff (s : St) (t : Tid) (op : GOp) (s' : St) (L : List Nat) : Prop where
  frame : ∀ t2, t2 ≠ t → s'.pc t2 = s.pc t2
  ops : ∀ t2, t2 ≠ t → opOf s'.key s'.val (s.pc t2) = opOf s.key s.val (s.pc t2)
  lps : ∀ t2, t2 ≠ t → lpRet s'.key s'.val (s.pc t2) = lpRet s.key s.val (s.pc t2)
  posts : ∀ t2, t2 ≠ t → postRet s'.val (s.pc t2) = postRet s.val (s.pc t2)
  was : s.pc t = .idle
  now : opOf s'.key s'.val (s'.pc t) = some op ∧ lpRet s'.key s'.val (s'.pc t) = none
  abs : ∀ k v, Has s'.mark s'.key s'.val L k v ↔ Has s.mark s.key s.val L k v
  mark : s'.mark = s.mark
  next : s'.next = s.next

theorem SInvL.lt_cnt {s : St} {L : List Nat} (h : SInvL s L) {a : Nat} (ha : a ∈ L ∨ s.mark a = true) : a < s.cnt := by
  rcases ha with ha | ha
  · exact h.alloc a ha
  · apply Classical.byContradiction
    intro hn
    have := (h.unalloc a (by omega)).2
    rw [this] at ha; simp at ha

set_option maxHeartbeats 4000000 in
theorem sinvl_invoke {s s' : St} {t : Tid} {op : GOp} {L : List Nat}
    (h : SInvL s L) (hs : invoke s t op = some s') : SInvL s' L ∧ InvokeEff s t op s' L := by
  have hlt := fun a => h.lt_cnt (a := a)
  have hz := h.zero_mem
  have hso' : ∀ k, L.Pairwise (Lt (upd s.key s.cnt k)) := by
    intro k
    refine List.Pairwise.imp_of_mem ?_ h.sorted
    intro a b ha hb hab
    have h1 : a ≠ s.cnt := Nat.ne_of_lt (h.alloc a ha)
    have h2 : b ≠ s.cnt := Nat.ne_of_lt (h.alloc b hb)
    unfold Lt at *
    rw [upd_other _ _ _ _ h1, upd_other _ _ _ _ h2]; exact hab
  have hhas : ∀ k v k' v', Has s.mark (upd s.key s.cnt k) (upd s.val s.cnt v) L k' v' ↔ Has s.mark s.key s.val L k' v' := by
    intro k v k' v'
    unfold Has
    constructor
    · rintro ⟨a, ha, h0, h1, h2, h3⟩
      have h4 : a ≠ s.cnt := Nat.ne_of_lt (h.alloc a ha)
      rw [upd_other _ _ _ _ h4] at h2 h3
      exact ⟨a, ha, h0, h1, h2, h3⟩
    · rintro ⟨a, ha, h0, h1, h2, h3⟩
      have h4 : a ≠ s.cnt := Nat.ne_of_lt (h.alloc a ha)
      exact ⟨a, ha, h0, h1, by rw [upd_other _ _ _ _ h4]; exact h2, by rw [upd_other _ _ _ _ h4]; exact h3⟩
  have hcurlt : ∀ t2 a, pcCur (s.pc t2) = some a → a < s.cnt := fun t2 a e => hlt a (h.lkCur t2 a e).2
  have hprevlt : ∀ t2 a, pcPrev (s.pc t2) = some a → a < s.cnt := fun t2 a e => hlt a (h.lkPrev t2 a e)
  have hnlt : ∀ t2 n, insNode (s.pc t2) = some n → n < s.cnt := fun t2 n e => (h.priv t2 n e).1
  have hsk : ∀ t2 k, skey (upd s.key s.cnt k) (s.pc t2) = skey s.key (s.pc t2) := fun t2 k =>
    skey_congr (fun n e => upd_other _ _ _ _ (Nat.ne_of_lt (hnlt t2 n e)))
  have hgt : ∀ t2 n c, pcGt (s.pc t2) = some (n, c) → insNode (s.pc t2) = some n ∧ pcCur (s.pc t2) = c :=
    fun t2 n c e => pcGt_spec e
  have heq : ∀ t2 c k, pcEq (s.pc t2) = some (c, k) → pcCur (s.pc t2) = some c := fun t2 c k e => pcEq_spec e
  obtain ⟨hch, hso, hal, hun, hm0, hsu, hpriv, hown, hlp, hlc, hln, hkp, hkg, hke, hfr, hic, heo⟩ := h
  obtain ⟨name, args⟩ := op
  unfold invoke at hs
  split at hs
  next k v hpc hname hargs =>
    simp at hs; subst hs
    dsimp only at hname hargs; subst hname hargs
    have hunc := hun s.cnt (Nat.le_refl _)
    refine ⟨?_, ?_⟩
    · sinv_close
    · constructor <;> intros <;> (try dsimp only at *)
      · grind [upd]
      · rename_i t2 ht2
        exact opOf_congr (fun n e => ⟨upd_other _ _ _ _ (Nat.ne_of_lt (hnlt t2 n e)),
          upd_other _ _ _ _ (Nat.ne_of_lt (hnlt t2 n e))⟩)
      · rename_i t2 ht2
        exact lpRet_congr (fun n e => upd_other _ _ _ _ (Nat.ne_of_lt (hnlt t2 n e)))
          (fun c e => ⟨upd_other _ _ _ _ (Nat.ne_of_lt (hcurlt t2 c e)), upd_other _ _ _ _ (Nat.ne_of_lt (hcurlt t2 c e))⟩)
      · rename_i t2 ht2
        exact postRet_congr (fun c e => upd_other _ _ _ _ (Nat.ne_of_lt (hcurlt t2 c e)))
      · exact hpc
      · simp [upd, opOf, lpRet, gop]
      · exact hhas _ _ _ _
  next k hpc hname hargs =>
    simp at hs; subst hs
    dsimp only at hname hargs; subst hname hargs
    refine ⟨?_, ?_⟩
    · sinv_close
    · constructor <;> intros <;> (try dsimp only at *) <;> grind [upd, opOf, lpRet, gop]
  next k hpc hname hargs =>
    simp at hs; subst hs
    dsimp only at hname hargs; subst hname hargs
    refine ⟨?_, ?_⟩
    · sinv_close
    · constructor <;> intros <;> (try dsimp only at *) <;> grind [upd, opOf, lpRet, gop]
  next k hpc hname hargs =>
    simp at hs; subst hs
    dsimp only at hname hargs; subst hname hargs
    refine ⟨?_, ?_⟩
    · sinv_close
    · constructor <;> intros <;> (try dsimp only at *) <;> grind [upd, opOf, lpRet, gop]
  next => simp at hs

theorem sinvl_result {s s' : St} {t : Tid} {r : GRet} {L : List Nat}
    (h : SInvL s L) (hs : result s t = some (s', r)) :
    SInvL s' L ∧ s.pc t = .done r ∧ s'.pc t = .idle ∧ (∀ t2, t2 ≠ t → s'.pc t2 = s.pc t2) ∧
      s'.key = s.key ∧ s'.val = s.val ∧ s'.mark = s.mark ∧ s'.next = s.next := by
  obtain ⟨hch, hso, hal, hun, hm0, hsu, hpriv, hown, hlp, hlc, hln, hkp, hkg, hke, hfr, hic, heo⟩ := h
  unfold result at hs
  split at hs
  next r' hpc =>
    simp at hs; obtain ⟨rfl, rfl⟩ := hs
    refine ⟨?_, hpc, by simp [upd], fun t2 h2 => by simp [upd, h2], rfl, rfl, rfl, rfl⟩
    sinv_close
  next => simp at hs

theorem sinvl_step {s s' : St} {t : Tid} {ev : Ev} {L : List Nat}
    (h : SInvL s L) (hs : step s t = some (s', ev)) : ∃ L', SInvL s' L' ∧ StepEff s t s' L L' := by
  cases hpc : s.pc t with
  | idle => simp [step, hpc] at hs
  | done r => simp [step, hpc] at hs
  | sLd1 o => exact sinvl_step_sLd1 h hpc hs
  | sLd2 o p => exact sinvl_step_sLd2 h hpc hs
  | sNx1 o p c => exact sinvl_step_sNx1 h hpc hs
  | sNx2 o p c nx mk => exact sinvl_step_sNx2 h hpc hs
  | sChk o p c nx mk => exact sinvl_step_sChk h hpc hs
  | sHelp o p c nx => exact sinvl_step_sHelp h hpc hs
  | iSt n p c => exact sinvl_step_iSt h hpc hs
  | iCas n p c => exact sinvl_step_iCas h hpc hs
  | iClr n => exact sinvl_step_iClr h hpc hs
  | eMark k p c nx => exact sinvl_step_eMark h hpc hs
  | eUnl k p c nx => exact sinvl_step_eUnl h hpc hs

theorem sinv_apply {s s' : St} {t : Tid} {a : Act} {o : Obs} (h : SInv s)
    (hap : model.apply s t a = some (s', o)) : SInv s' := by
  obtain ⟨L, hl⟩ := h
  cases a with
  | invoke op =>
    simp only [Model.apply, model, Option.map_eq_some_iff] at hap
    obtain ⟨s1, hs1, heq⟩ := hap
    simp only [Prod.mk.injEq] at heq
    obtain ⟨rfl, -⟩ := heq
    exact ⟨L, (sinvl_invoke hl hs1).1⟩
  | step =>
    simp only [Model.apply, model, Option.map_eq_some_iff] at hap
    obtain ⟨⟨s1, e⟩, hs1, heq⟩ := hap
    simp only [Prod.mk.injEq] at heq
    obtain ⟨rfl, -⟩ := heq
    obtain ⟨L', hl', -⟩ := sinvl_step hl hs1
    exact ⟨L', hl'⟩
  | ret =>
    simp only [Model.apply, model, Option.map_eq_some_iff] at hap
    obtain ⟨⟨s1, r⟩, hs1, heq⟩ := hap
    simp only [Prod.mk.injEq] at heq
    obtain ⟨rfl, -⟩ := heq
    exact ⟨L, (sinvl_result hl hs1).1⟩

theorem sinv_reachable (s : St) (h : model.Reachable init s) : SInv s :=
  model.inv_reachable SInv init ⟨[0], sinv_init⟩ (fun _ _ _ _ _ hi hap => sinv_apply hi hap) s h

/-! ### Every action: what happens to marked nodes and to linked nodes -/

structure ApplyEff (s s' : St) (L L' : List Nat) : Prop where
  frz : ∀ a, s.mark a = true → s'.mark a = true ∧ s'.next a = s.next a
  mono : ∀ a, (a ∈ L ∨ s.mark a = true) → (a ∈ L' ∨ s'.mark a = true)

theorem sinvl_apply {s s' : St} {t : Tid} {a : Act} {o : Obs} {L : List Nat} (hl : SInvL s L)
    (hap : model.apply s t a = some (s', o)) : ∃ L', SInvL s' L' ∧ ApplyEff s s' L L' := by
  cases a with
  | invoke op =>
    simp only [Model.apply, model, Option.map_eq_some_iff] at hap
    obtain ⟨s1, hs1, heq⟩ := hap
    simp only [Prod.mk.injEq] at heq
    obtain ⟨rfl, -⟩ := heq
    obtain ⟨h1, h2⟩ := sinvl_invoke hl hs1
    exact ⟨L, h1, ⟨fun a ha => by rw [h2.mark, h2.next]; exact ⟨ha, rfl⟩, fun a ha => by rw [h2.mark]; exact ha⟩⟩
  | step =>
    simp only [Model.apply, model, Option.map_eq_some_iff] at hap
    obtain ⟨⟨s1, e⟩, hs1, heq⟩ := hap
    simp only [Prod.mk.injEq] at heq
    obtain ⟨rfl, -⟩ := heq
    obtain ⟨L', hl', he⟩ := sinvl_step hl hs1
    exact ⟨L', hl', ⟨he.frz, he.mono⟩⟩
  | ret =>
    simp only [Model.apply, model, Option.map_eq_some_iff] at hap
    obtain ⟨⟨s1, r⟩, hs1, heq⟩ := hap
    simp only [Prod.mk.injEq] at heq
    obtain ⟨rfl, -⟩ := heq
    obtain ⟨h1, -, -, -, -, -, h6, h7⟩ := sinvl_result hl hs1
    exact ⟨L, h1, ⟨fun a ha => by rw [h6, h7]; exact ⟨ha, rfl⟩, fun a ha => by rw [h6]; exact ha⟩⟩

/-! ### The abstract state, computed -/

/-- All linked nodes (marked or not), in list order (fuel: the number of nodes ever allocated). -/
def absNodes (s : St) : List Nat := (walk s.next s.cnt (some 0)).tail

/-- The abstract map: the `(key, payload)` pairs of the unmarked linked nodes, in list (= key) order. -/
def absMap (s : St) : List (Int × Int) :=
  ((absNodes s).filter (fun a => !s.mark a)).map (fun a => (s.key a, s.val a))

theorem SInvL.walk_eq {s : St} {L : List Nat} (h : SInvL s L) : walk s.next s.cnt (some 0) = L :=
  walk_of_chain h.chain (length_le_of_nodup_lt h.nodup (fun a ha => h.alloc a ha))

theorem SInvL.absNodes_eq {s : St} {L : List Nat} (h : SInvL s L) : L = 0 :: absNodes s := by
  obtain ⟨l, hl⟩ := h.head_cons
  simp [absNodes, h.walk_eq, hl]

theorem SInvL.absNodes_pos {s : St} {L : List Nat} (h : SInvL s L) : ∀ a, a ∈ absNodes s → a ≠ 0 := by
  intro a ha
  have hs := h.sorted
  rw [h.absNodes_eq] at hs
  exact ((List.pairwise_cons.mp hs).1 a ha).1

theorem SInvL.absNodes_sorted {s : St} {L : List Nat} (h : SInvL s L) :
    (absNodes s).Pairwise (fun a b => s.key a < s.key b) := by
  have hs := h.sorted
  rw [h.absNodes_eq] at hs
  refine List.Pairwise.imp_of_mem ?_ (List.pairwise_cons.mp hs).2
  intro a b ha _ hab
  rcases hab.2 with h0 | h0
  · exact absurd h0 (h.absNodes_pos a ha)
  · exact h0

theorem SInvL.has_iff {s : St} {L : List Nat} (h : SInvL s L) (k v : Int) :
    Has s.mark s.key s.val L k v ↔ (k, v) ∈ absMap s := by
  have hp := h.absNodes_pos
  rw [h.absNodes_eq]
  simp only [Has, absMap, List.mem_map, List.mem_filter, List.mem_cons, Prod.mk.injEq, Bool.not_eq_true']
  constructor
  · rintro ⟨a, ha | ha, h0, h1, h2, h3⟩
    · exact absurd ha h0
    · exact ⟨a, ⟨ha, h1⟩, h2, h3⟩
  · rintro ⟨a, ⟨ha, h1⟩, h2, h3⟩
    exact ⟨a, Or.inr ha, hp a ha, h1, h2, h3⟩

/-- The keys of the abstract map are strictly increasing: no key is present twice. -/
theorem SInvL.absMap_sorted {s : St} {L : List Nat} (h : SInvL s L) :
    (absMap s).Pairwise (fun p q => p.1 < q.1) := by
  unfold absMap
  rw [List.pairwise_map]
  exact h.absNodes_sorted.filter _

theorem mfind_iff_mem : ∀ {m : MapSt}, m.Pairwise (fun p q => p.1 ≠ q.1) → ∀ k v, mfind m k = some v ↔ (k, v) ∈ m
  | [], _, k, v => by simp [mfind]
  | (k1, v1) :: m, hpw, k, v => by
    have hpw' := List.pairwise_cons.mp hpw
    rw [mfind_cons, List.mem_cons]
    by_cases e : k = k1
    · subst e
      simp only [if_true, Option.some.injEq, Prod.mk.injEq, true_and]
      constructor
      · intro h; exact Or.inl h.symm
      · rintro (h | h)
        · exact h.symm
        · exact absurd rfl (hpw'.1 (k, v) h)
    · simp only [e, if_false, Prod.mk.injEq, false_and, false_or]
      exact mfind_iff_mem hpw'.2 k v

theorem SInvL.mfind_absMap {s : St} {L : List Nat} (h : SInvL s L) (k v : Int) :
    mfind (absMap s) k = some v ↔ Has s.mark s.key s.val L k v := by
  rw [h.has_iff]
  exact mfind_iff_mem (h.absMap_sorted.imp (fun hlt => Int.ne_of_lt hlt)) k v

/-! ### Reachable states -/

/-- In every reachable state: following the pointers from `m_pHead` visits the finite list `absNodes` and ends in
    null; the visited nodes (marked ones included) are strictly sorted by key, hence pairwise different; they are
    allocated nodes; `m_pHead` itself is never marked. -/
theorem reachable_structure (s : St) (h : model.Reachable init s) :
    Chain s.next (some 0) (0 :: absNodes s) ∧ (absNodes s).Pairwise (fun a b => s.key a < s.key b) ∧
      (absNodes s).Nodup ∧ (∀ a, a ∈ absNodes s → 0 < a ∧ a < s.cnt) ∧ s.mark 0 = false := by
  obtain ⟨L, hl⟩ := sinv_reachable s h
  refine ⟨by rw [← hl.absNodes_eq]; exact hl.chain, hl.absNodes_sorted, ?_, ?_, hl.mark0⟩
  · exact hl.absNodes_sorted.imp (fun hlt e => by rw [e] at hlt; exact Int.lt_irrefl _ hlt)
  · intro a ha
    have := hl.alloc a (by rw [hl.absNodes_eq]; exact List.mem_cons_of_mem _ ha)
    have := hl.absNodes_pos a ha
    omega

/-- No key is present twice: the keys of the abstract map are strictly increasing. -/
theorem reachable_no_duplicate_keys (s : St) (h : model.Reachable init s) :
    (absMap s).Pairwise (fun p q => p.1 < q.1) ∧ ((absMap s).map (·.1)).Nodup := by
  obtain ⟨L, hl⟩ := sinv_reachable s h
  refine ⟨hl.absMap_sorted, ?_⟩
  rw [List.Nodup, List.pairwise_map]
  exact hl.absMap_sorted.imp (fun hlt => Int.ne_of_lt hlt)

/-- A marked (logically deleted) node is frozen: no action changes its link or removes its mark. -/
theorem marked_frozen {s s' : St} {t : Tid} {a : Act} {o : Obs} (h : model.Reachable init s)
    (hap : model.apply s t a = some (s', o)) (x : Nat) (hx : s.mark x = true) :
    s'.mark x = true ∧ s'.next x = s.next x := by
  obtain ⟨L, hl⟩ := sinv_reachable s h
  obtain ⟨L', -, he⟩ := sinvl_apply hl hap
  exact he.frz x hx

/-- Only marked nodes leave the list, and nothing else ever does: a node that is linked or marked stays linked or
    marked.  (A node that is linked and not marked is on the chain from the head.) -/
theorem linked_or_marked_forever {s s' : St} {t : Tid} {a : Act} {o : Obs} (h : model.Reachable init s)
    (hap : model.apply s t a = some (s', o)) (x : Nat) (hx : x ∈ absNodes s ∨ s.mark x = true) :
    x ∈ absNodes s' ∨ s'.mark x = true := by
  obtain ⟨L, hl⟩ := sinv_reachable s h
  obtain ⟨L', hl', he⟩ := sinvl_apply hl hap
  have hx' : x ∈ L ∨ s.mark x = true := by
    rcases hx with hx | hx
    · left; rw [hl.absNodes_eq]; exact List.mem_cons_of_mem _ hx
    · exact Or.inr hx
  rcases he.mono x hx' with h1 | h1
  · rw [hl'.absNodes_eq] at h1
    rcases List.mem_cons.mp h1 with h0 | h0
    · subst h0
      rcases hx with hx | hx
      · exact absurd rfl (hl.absNodes_pos 0 hx)
      · rw [hl.mark0] at hx; simp at hx
    · exact Or.inl h0
  · exact Or.inr h1

/-- The successful CAS of `link_node` puts the new node on the chain. -/
theorem insert_links {s s' : St} {t : Tid} {ev : Ev} (h : model.Reachable init s) (hs : step s t = some (s', ev))
    (n p : Nat) (c : Option Nat) (hpc : s.pc t = .iCas n p c) (hpc' : s'.pc t = .done [1]) :
    n ∈ absNodes s' ∧ s'.mark n = false := by
  obtain ⟨L, hl⟩ := sinv_reachable s h
  obtain ⟨L', hl', he⟩ := sinvl_step hl hs
  have h1 := he.link n p c hpc hpc'
  have hn := hl.priv t n (by simp [hpc, insNode])
  have hn0 : n ≠ 0 := fun e => hn.2.1 (e ▸ hl.zero_mem)
  rw [hl'.absNodes_eq] at h1
  refine ⟨by simpa [hn0] using h1, ?_⟩
  cases hm : s'.mark n with
  | false => rfl
  | true =>
    obtain ⟨k, p', x, e1, -⟩ := he.marks n hn.2.2 hm
    rw [hpc] at e1; simp at e1

/-- A node is marked by exactly one `erase`, the one that returns success for it.
    (1) The only step that sets the mark of a node `a` is the marking CAS of a thread erasing `key a`, applied to a
        linked node; that thread is then definitively going to return `[1, val a]`.
    (2) A thread is in that state (`eUnl … a …`) only by having set the mark of `a` in its last step; no two threads
        are in that state for the same node; and a mark is never removed (`marked_frozen`), so no second marking of
        `a` can ever happen. -/
theorem erase_once {s s' : St} {t : Tid} {ev : Ev} (h : model.Reachable init s) (hs : step s t = some (s', ev)) :
    (∀ a, s.mark a = false → s'.mark a = true →
      ∃ k p x, s.pc t = .eMark k p a x ∧ s'.pc t = .eUnl k p a x ∧ s.key a = k ∧ a ∈ absNodes s ∧
        postRet s'.val (s'.pc t) = some [1, s.val a]) ∧
    (∀ k p a x, s'.pc t = .eUnl k p a x → s.mark a = false ∧ s'.mark a = true) ∧
    (∀ t1 t2 k1 p1 a x1 k2 p2 x2, s'.pc t1 = .eUnl k1 p1 a x1 → s'.pc t2 = .eUnl k2 p2 a x2 → t1 = t2) := by
  obtain ⟨L, hl⟩ := sinv_reachable s h
  obtain ⟨L', hl', he⟩ := sinvl_step hl hs
  refine ⟨?_, he.unl, hl'.eown⟩
  intro a h1 h2
  obtain ⟨k, p, x, e1, e2, e3, e4⟩ := he.marks a h1 h2
  have ha0 : a ≠ 0 := by
    intro e; rw [e, hl'.mark0] at h2; simp at h2
  refine ⟨k, p, x, e1, e2, e3, ?_, by rw [e2, he.val]; rfl⟩
  rw [hl.absNodes_eq] at e4
  simpa [ha0] using e4

/-- Refinement on `absMap`: in a reachable state, the step at which thread `t` fixes its result `r` — tentatively
    for the hindsight points — is the `Spec.map` transition of `t`'s operation with result `r` from the abstract map
    before the step to (a representation of) the abstract map after the step; every other step leaves the abstract
    map unchanged. -/
theorem step_refines {s s' : St} {t : Tid} {ev : Ev} (h : model.Reachable init s) (hs : step s t = some (s', ev)) :
    (lpRet s.key s.val (s.pc t) = none → ∀ r, lpRet s'.key s'.val (s'.pc t) = some r →
      ∃ op m', opOf s.key s.val (s.pc t) = some op ∧ Spec.map.next (absMap s) op r = some m' ∧
        ∀ k v, mfind m' k = some v ↔ (k, v) ∈ absMap s') ∧
    ((lpRet s.key s.val (s.pc t) ≠ none ∨ lpRet s'.key s'.val (s'.pc t) = none) →
      ∀ k v, (k, v) ∈ absMap s' ↔ (k, v) ∈ absMap s) := by
  obtain ⟨L, hl⟩ := sinv_reachable s h
  obtain ⟨L', hl', he⟩ := sinvl_step hl hs
  constructor
  · intro h1 r h2
    obtain ⟨op, ho, hok⟩ := he.lp h1 r h2
    obtain ⟨m', hm1, hm2⟩ := hok (absMap s) hl.mfind_absMap
    exact ⟨op, m', ho, hm1, fun k v => (hm2 k v).trans (hl'.has_iff k v)⟩
  · intro hc k v
    rw [← hl'.has_iff, ← hl.has_iff]
    exact he.nolp hc k v

end CdsVerif.Algo.Michael
